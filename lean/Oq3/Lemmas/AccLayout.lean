/-
The typed-accessor layer is blind to trivia and to text ranges:

  `Build.program (eraseTrivia t) = (Build.program t).map eraseSpans`     (`program_eraseTrivia`)

for every tree `t` in which no `Name`/`Identifier`/`HardwareQubit`/`Param`/`PragmaStatement`/
`AnnotationStatement`/`PrefixExpr` node starts with a trivia token (`headOk`, guaranteed by the
tree builder).  Proof: every accessor commutes with `eraseTrivia` (`Lemmas/AccTrivia.lean`); the
25 mutually recursive `Build` functions by induction on the fuel, one `step_*` lemma each.
-/
import Oq3.Lemmas.AccTrivia
import Oq3.Props.C17

namespace Oq3.C17Layout
open Oq3.Gen Oq3.Acc Oq3.C17

local notation "E" => eraseTrivia

/-! ### generic lemmas for `optM` / `listM` -/

theorem child_kind {can : SyntaxKind → Bool} {n c : CNode} (h : support.child can n = some c) :
    can c.kind = true := by
  unfold support.child at h
  obtain ⟨d, _, hc⟩ := List.exists_of_findSome?_eq_some h
  simp only [Acc.cast] at hc
  split at hc
  · cases hc; assumption
  · cases hc

theorem children_kind {can : SyntaxKind → Bool} {n c : CNode} (h : c ∈ support.children can n) :
    can c.kind = true := by
  unfold support.children at h
  obtain ⟨d, _, hc⟩ := List.mem_filterMap.mp h
  simp only [Acc.cast] at hc
  split at hc
  · cases hc; assumption
  · cases hc

theorem optM_E {α : Type} {f : CNode → BM α} {er : α → α} (n : CNode) (o : Option CNode)
    (hn : headOk n = true) (hm : ∀ c, o = some c → c ∈ n.children)
    (ih : ∀ c, headOk c = true → f (E c) = (f c).map er) :
    Build.optM f (o.map E) = (Build.optM f o).map (Option.map er) := by
  cases o with
  | none => rfl
  | some c =>
    simp only [Option.map_some, Build.optM]
    rw [ih c (headOk_children hn (hm c rfl))]
    cases f c <;> rfl

/-- the same for `support.child`, passing the kind of the child to the callee -/
theorem optM_EK {α : Type} {f : CNode → BM α} {er : α → α} (can : SyntaxKind → Bool) (n : CNode)
    (hn : headOk n = true)
    (ih : ∀ c, headOk c = true → can c.kind = true → f (E c) = (f c).map er) :
    Build.optM f ((support.child can n).map E) = (Build.optM f (support.child can n)).map (Option.map er) := by
  cases h : support.child can n with
  | none => rfl
  | some c =>
    simp only [Option.map_some, Build.optM]
    rw [ih c (headOk_children hn (child_supp_mem h)) (child_kind h)]
    cases f c <;> rfl

theorem listM_E {α : Type} {f : CNode → BM α} {er : α → α} (n : CNode) (l : List CNode)
    (hn : headOk n = true) (hm : ∀ c, c ∈ l → c ∈ n.children)
    (ih : ∀ c, headOk c = true → f (E c) = (f c).map er) :
    Build.listM f (l.map E) = (Build.listM f l).map (List.map er) := by
  induction l with
  | nil => rfl
  | cons c cs ihl =>
    simp only [List.map_cons, Build.listM]
    rw [ih c (headOk_children hn (hm c List.mem_cons_self)),
      ihl (fun d hd => hm d (List.mem_cons_of_mem _ hd))]
    cases f c with
    | error e => rfl
    | ok a => cases Build.listM f cs <;> rfl

theorem listM_EK {α : Type} {f : CNode → BM α} {er : α → α} (P : CNode → Prop) (n : CNode) (l : List CNode)
    (hn : headOk n = true) (hm : ∀ c, c ∈ l → c ∈ n.children ∧ P c)
    (ih : ∀ c, headOk c = true → P c → f (E c) = (f c).map er) :
    Build.listM f (l.map E) = (Build.listM f l).map (List.map er) := by
  induction l with
  | nil => rfl
  | cons c cs ihl =>
    simp only [List.map_cons, Build.listM]
    rw [ih c (headOk_children hn (hm c List.mem_cons_self).1) (hm c List.mem_cons_self).2,
      ihl (fun d hd => hm d (List.mem_cons_of_mem _ hd))]
    cases f c with
    | error e => rfl
    | ok a => cases Build.listM f cs <;> rfl

theorem isSome_child_E (can : SyntaxKind → Bool) (n : CNode) :
    (support.child can (E n)).isSome = (support.child can n).isSome := by
  rw [child_supp_E, Option.isSome_map]

/-! ### leaves -/

theorem build_text_E {n : CNode} (h : headLocal n = true) : Build.text (E n) = Build.text n := by
  unfold Build.text; rw [text_E h]

theorem name_E {n : CNode} (hn : headOk n = true) (hk : Name.canCast n.kind = true) :
    Build.name (E n) = (Build.name n).map erName := by
  have hl : headLocal n = true := headOk_local hn (by
    simp only [Name.canCast, beq_iff_eq] at hk; rw [hk]; rfl)
  unfold Build.name
  rw [build_text_E hl, span_E]
  cases Build.text n <;> rfl

theorem identifier_E {n : CNode} (hn : headOk n = true) (hk : Identifier.canCast n.kind = true) :
    Build.identifier (E n) = (Build.identifier n).map erIdent := by
  have hl : headLocal n = true := headOk_local hn (by
    simp only [Identifier.canCast, beq_iff_eq] at hk; rw [hk]; rfl)
  unfold Build.identifier
  rw [build_text_E hl, span_E]
  cases Build.text n <;> rfl

theorem hardwareQubit_E {n : CNode} (hn : headOk n = true) (hk : HardwareQubit.canCast n.kind = true) :
    Build.hardwareQubit (E n) = (Build.hardwareQubit n).map erHw := by
  have hl : headLocal n = true := headOk_local hn (by
    simp only [HardwareQubit.canCast, beq_iff_eq] at hk; rw [hk]; rfl)
  unfold Build.hardwareQubit
  rw [build_text_E hl, span_E]
  cases Build.text n <;> rfl

theorem param_E {n : CNode} (hn : headOk n = true) (hk : Param.canCast n.kind = true) :
    Build.param (E n) = (Build.param n).map erParam := by
  have hl : headLocal n = true := headOk_local hn (by
    simp only [Param.canCast, beq_iff_eq] at hk; rw [hk]; rfl)
  unfold Build.param
  rw [build_text_E hl, span_E]
  cases Build.text n <;> rfl

theorem paramList_E {n : CNode} (hn : headOk n = true) :
    Build.paramList (E n) = (Build.paramList n).map erParamList := by
  unfold Build.paramList ParamList.params
  rw [children_supp_E, span_E,
    listM_EK (fun c => Param.canCast c.kind = true) n _ hn
      (fun c hc => ⟨children_supp_mem hc, children_kind hc⟩) (fun c h1 h2 => param_E h1 h2)]
  cases Build.listM Build.param (support.children Param.canCast n) <;> rfl

theorem literal_E (n : CNode) : Build.literal (E n) = (Build.literal n).map erLiteral := by
  unfold Build.literal
  rw [literal_kind_E, span_E]
  cases Literal.kind n with
  | panic => rfl
  | ok k => simp [PRes.map, Build.ofPRes, Except.map, literalKind_mapE, erLiteral, z]

theorem time_unit_E {n : CNode} (hn : headOk n = true) :
    TimingLiteral.time_unit (E n) = TimingLiteral.time_unit n := by
  unfold TimingLiteral.time_unit TimingLiteral.identifier
  rw [child_supp_E]
  cases h : support.child Identifier.canCast n with
  | none => rfl
  | some i =>
    have hk := child_kind h
    have hi := headOk_children hn (child_supp_mem h)
    have hl : headLocal i = true := headOk_local hi (by
      simp only [Identifier.canCast, beq_iff_eq] at hk; rw [hk]; rfl)
    simp only [Option.map_some, text_E hl]

theorem timingLiteral_E {n : CNode} (hn : headOk n = true) :
    Build.timingLiteral (E n) = (Build.timingLiteral n).map erExpr := by
  unfold Build.timingLiteral TimingLiteral.identifier TimingLiteral.literal
  rw [time_unit_E hn, child_supp_E, child_supp_E, span_E,
    optM_EK (er := id) Identifier.canCast n hn (fun c h1 h2 => by
      have hl : headLocal c = true := headOk_local h1 (by
        simp only [Identifier.canCast, beq_iff_eq] at h2; rw [h2]; rfl)
      rw [build_text_E hl]; cases Build.text c <;> rfl),
    optM_E n _ hn (fun c hc => child_supp_mem hc) (fun c _ => literal_E c)]
  cases Build.ofPRes (TimingLiteral.time_unit n) <;>
  cases Build.optM Build.text (support.child Identifier.canCast n) <;>
  cases Build.optM Build.literal (support.child Literal.canCast n) <;>
    simp [Except.map, erExpr, z]

theorem filePath_E (n : CNode) : Build.filePath (E n) = (Build.filePath n).map erFilePath := by
  unfold Build.filePath
  rw [file_to_string_E, span_E]
  cases Build.ofPRes (FilePath.to_string n) <;> rfl

/-! ### membership of the hand-written accessors' results -/

theorem condition_mem {n c : CNode} (h : IfStmt.condition n = some c) : c ∈ n.children := by
  unfold IfStmt.condition at h
  dsimp only at h
  cases hh : (support.children Expr.canCast n).head? with
  | none => rw [hh] at h; cases h
  | some e =>
    rw [hh] at h
    have he := children_supp_head_mem hh
    simp only at h
    split at h
    · cases h2 : (support.children Expr.canCast n)[1]? with
      | none => rw [h2] at h; cases h
      | some x => rw [h2] at h; cases h; exact he
    · cases h; exact he

theorem assign_rhs_mem {n c : CNode} (h : AssignmentStmt.rhs n = some c) : c ∈ n.children := by
  unfold AssignmentStmt.rhs at h
  simp only at h
  split at h
  · exact children_supp_getElem_mem h
  · exact children_supp_head_mem h

theorem range_mem {n c : CNode} :
    ((RangeExpr.start_step_stop n).1 = some c → c ∈ n.children) ∧
    ((RangeExpr.start_step_stop n).2.1 = some c → c ∈ n.children) ∧
    ((RangeExpr.start_step_stop n).2.2 = some c → c ∈ n.children) := by
  unfold RangeExpr.start_step_stop
  simp only
  split
  · refine ⟨children_supp_head_mem, ?_, children_supp_getElem_mem⟩
    intro h; exact children_supp_getElem_mem h
  · exact ⟨children_supp_head_mem, children_supp_getElem_mem, children_supp_getElem_mem⟩

theorem call_identifier_mem {n c : CNode} (h : GateCallExpr.identifier n = some c) :
    c ∈ n.children ∧ Identifier.canCast c.kind = true := by
  unfold GateCallExpr.identifier at h
  cases hh : (support.children Expr.canCast n).head? with
  | none => rw [hh] at h; cases h
  | some e =>
    rw [hh] at h
    simp only at h
    split at h
    · cases h; exact ⟨children_supp_head_mem hh, by unfold Identifier.canCast; assumption⟩
    · cases h

theorem gate_params_mem {n c : CNode} :
    (Gate.angle_params n = some c → c ∈ n.children) ∧ (Gate.qubit_params n = some c → c ∈ n.children) := by
  unfold Gate.angle_params Gate.qubit_params Gate.angles_and_or_qubits
  simp only
  constructor
  · intro h; split at h
    · exact children_supp_getElem_mem h
    · exact children_supp_head_mem h
  · intro h; split at h
    · exact children_supp_head_mem h
    · exact children_supp_getElem_mem h

/-- the node inside a `BlockOrStmt` -/
def bosNode : BlockOrStmt → CNode
  | .blockExpr b => b
  | .stmt s => s

theorem then_block_mem {n c : CNode} (h : IfStmt.then_branch_block n = some c) : c ∈ n.children := by
  unfold IfStmt.then_branch_block at h
  cases hh : (support.children Expr.canCast n)[1]? with
  | none => rw [hh] at h; cases h
  | some e => rw [hh] at h; simp only at h; split at h
              · cases h; exact children_supp_getElem_mem hh
              · cases h

theorem else_block_mem {n c : CNode} (h : IfStmt.else_branch_block n = some c) : c ∈ n.children := by
  unfold IfStmt.else_branch_block at h
  cases hh : (support.children Expr.canCast n)[2]? with
  | none => rw [hh] at h; cases h
  | some e => rw [hh] at h; simp only at h; split at h
              · cases h; exact children_supp_getElem_mem hh
              · cases h

theorem if_true_body_mem {n : CNode} {v : BlockOrStmt} (h : IfStmt.true_body_block_or_stmt n = .ok v) :
    bosNode v ∈ n.children := by
  unfold IfStmt.true_body_block_or_stmt at h
  cases hb : IfStmt.then_branch_block n with
  | some b => rw [hb] at h; cases h; exact then_block_mem hb
  | none =>
    rw [hb] at h
    cases hs : IfStmt.then_branch_stmt n with
    | some s => rw [hs] at h; cases h; exact child_supp_mem hs
    | none => rw [hs] at h; cases h

theorem if_false_body_mem {n : CNode} {v : BlockOrStmt} (h : IfStmt.false_body_block_or_stmt n = some v) :
    bosNode v ∈ n.children := by
  unfold IfStmt.false_body_block_or_stmt at h
  cases hb : IfStmt.else_branch_block n with
  | some b => rw [hb] at h; cases h; exact else_block_mem hb
  | none =>
    rw [hb] at h
    cases hs : IfStmt.else_branch_stmt n with
    | some s => rw [hs] at h; cases h; exact child_supp_mem hs
    | none => rw [hs] at h; cases h

theorem while_body_mem {n : CNode} {v : BlockOrStmt} (h : WhileStmt.block_or_stmt n = .ok v) :
    bosNode v ∈ n.children := by
  unfold WhileStmt.block_or_stmt at h
  cases hb : WhileStmt.body n with
  | some b => rw [hb] at h; cases h; exact children_supp_head_mem hb
  | none =>
    rw [hb] at h
    cases hs : WhileStmt.stmt n with
    | some s => rw [hs] at h; cases h; exact children_supp_head_mem hs
    | none => rw [hs] at h; cases h

theorem for_body_mem {n : CNode} {v : BlockOrStmt} (h : ForStmt.block_or_stmt n = .ok v) :
    bosNode v ∈ n.children := by
  unfold ForStmt.block_or_stmt at h
  cases hb : ForStmt.body n with
  | some b => rw [hb] at h; cases h; exact child_supp_mem hb
  | none =>
    rw [hb] at h
    cases hs : ForStmt.stmt n with
    | some s => rw [hs] at h; cases h; exact child_supp_mem hs
    | none => rw [hs] at h; cases h

/-! ### first mutual block -/

structure IH1 (fuel : Nat) : Prop where
  expr : ∀ n, headOk n = true → Build.expr fuel (E n) = (Build.expr fuel n).map erExpr
  designator : ∀ n, headOk n = true → Build.designator fuel (E n) = (Build.designator fuel n).map erDesignator
  scalarType : ∀ n, headOk n = true → Build.scalarType fuel (E n) = (Build.scalarType fuel n).map erScalarType
  expressionList : ∀ n, headOk n = true →
    Build.expressionList fuel (E n) = (Build.expressionList fuel n).map erExprList
  setExpression : ∀ n, headOk n = true → Build.setExpression fuel (E n) = (Build.setExpression fuel n).map erSet
  rangeExpr : ∀ n, headOk n = true → Build.rangeExpr fuel (E n) = (Build.rangeExpr fuel n).map erRange
  indexOperator : ∀ n, headOk n = true →
    Build.indexOperator fuel (E n) = (Build.indexOperator fuel n).map erIndexOp
  indexedIdentifier : ∀ n, headOk n = true →
    Build.indexedIdentifier fuel (E n) = (Build.indexedIdentifier fuel n).map erIndexedIdent
  gateOperand : ∀ n, headOk n = true → GateOperand.canCast n.kind = true →
    Build.gateOperand fuel (E n) = (Build.gateOperand fuel n).map erGateOperand
  qubitList : ∀ n, headOk n = true → Build.qubitList fuel (E n) = (Build.qubitList fuel n).map erQubitList
  argList : ∀ n, headOk n = true → Build.argList fuel (E n) = (Build.argList fuel n).map erArgList
  parenExpr : ∀ n, headOk n = true → Build.parenExpr fuel (E n) = (Build.parenExpr fuel n).map erParen
  gateCallExpr : ∀ n, headOk n = true →
    Build.gateCallExpr fuel (E n) = (Build.gateCallExpr fuel n).map erGateCall
  gPhaseCallExpr : ∀ n, headOk n = true →
    Build.gPhaseCallExpr fuel (E n) = (Build.gPhaseCallExpr fuel n).map erGPhase
  modifier : ∀ n, headOk n = true → Build.modifier fuel (E n) = (Build.modifier fuel n).map erModifier

variable {fuel : Nat}

theorem step_designator (ih : IH1 fuel) (n : CNode) (hn : headOk n = true) :
    Build.designator (fuel + 1) (E n) = (Build.designator (fuel + 1) n).map erDesignator := by
  unfold Build.designator Designator.expr
  rw [child_supp_E, optM_E n _ hn (fun c hc => child_supp_mem hc) ih.expr, span_E]
  cases Build.optM (Build.expr fuel) (support.child Expr.canCast n) <;>
    simp [Except.map, erDesignator, erOExpr_eq, z]

theorem step_scalarType (ih : IH1 fuel) (n : CNode) (hn : headOk n = true) :
    Build.scalarType (fuel + 1) (E n) = (Build.scalarType (fuel + 1) n).map erScalarType := by
  unfold Build.scalarType ScalarType.designator ScalarType.scalar_type
  rw [scalar_kind_E, child_supp_E, child_supp_E,
    optM_E n _ hn (fun c hc => child_supp_mem hc) ih.designator,
    optM_E n _ hn (fun c hc => child_supp_mem hc) ih.scalarType, span_E]
  cases Build.ofPRes (ScalarType.kind n) <;>
  cases Build.optM (Build.designator fuel) (support.child Designator.canCast n) <;>
  cases Build.optM (Build.scalarType fuel) (support.child ScalarType.canCast n) <;>
    simp [Except.map, erScalarType, erODesignator_eq, erOScalarType_eq, z]

theorem step_expressionList (ih : IH1 fuel) (n : CNode) (hn : headOk n = true) :
    Build.expressionList (fuel + 1) (E n) = (Build.expressionList (fuel + 1) n).map erExprList := by
  unfold Build.expressionList ExpressionList.exprs
  rw [children_supp_E, listM_E n _ hn (fun c hc => children_supp_mem hc) ih.expr, span_E]
  cases Build.listM (Build.expr fuel) (support.children Expr.canCast n) <;>
    simp [Except.map, erExprList, erExprs_eq, z]

theorem step_setExpression (ih : IH1 fuel) (n : CNode) (hn : headOk n = true) :
    Build.setExpression (fuel + 1) (E n) = (Build.setExpression (fuel + 1) n).map erSet := by
  unfold Build.setExpression SetExpression.expression_list
  rw [child_supp_E, optM_E n _ hn (fun c hc => child_supp_mem hc) ih.expressionList, span_E]
  cases Build.optM (Build.expressionList fuel) (support.child ExpressionList.canCast n) <;>
    simp [Except.map, erSet, erOExprList_eq, z]

theorem step_rangeExpr (ih : IH1 fuel) (n : CNode) (hn : headOk n = true) :
    Build.rangeExpr (fuel + 1) (E n) = (Build.rangeExpr (fuel + 1) n).map erRange := by
  unfold Build.rangeExpr
  rw [range_sss_E]
  simp only
  rw [optM_E n _ hn (fun c hc => range_mem.1 hc) ih.expr,
    optM_E n _ hn (fun c hc => range_mem.2.1 hc) ih.expr,
    optM_E n _ hn (fun c hc => range_mem.2.2 hc) ih.expr, span_E]
  cases Build.optM (Build.expr fuel) (RangeExpr.start_step_stop n).1 <;>
  cases Build.optM (Build.expr fuel) (RangeExpr.start_step_stop n).2.1 <;>
  cases Build.optM (Build.expr fuel) (RangeExpr.start_step_stop n).2.2 <;>
    simp [Except.map, erRange, erOExpr_eq, z]

theorem indexKindOf_E (ih : IH1 fuel) (n : CNode) (hn : headOk n = true) :
    Build.indexKindOf (Build.setExpression fuel) (Build.expressionList fuel) (E n) =
      (Build.indexKindOf (Build.setExpression fuel) (Build.expressionList fuel) n).map erIndexKind := by
  unfold Build.indexKindOf
  rw [kind_E]
  split
  · rw [ih.setExpression n hn]; cases Build.setExpression fuel n <;> simp [Except.map, erIndexKind]
  · rw [ih.expressionList n hn]; cases Build.expressionList fuel n <;> simp [Except.map, erIndexKind]

theorem step_indexOperator (ih : IH1 fuel) (n : CNode) (hn : headOk n = true) :
    Build.indexOperator (fuel + 1) (E n) = (Build.indexOperator (fuel + 1) n).map erIndexOp := by
  unfold Build.indexOperator IndexOperator.index_kind
  rw [child_supp_E, optM_E n _ hn (fun c hc => child_supp_mem hc) (indexKindOf_E ih), span_E]
  cases Build.optM (Build.indexKindOf (Build.setExpression fuel) (Build.expressionList fuel))
      (support.child IndexKind.canCast n) <;>
    simp [Except.map, erIndexOp, erOIndexKind_eq, z]

theorem step_indexedIdentifier (ih : IH1 fuel) (n : CNode) (hn : headOk n = true) :
    Build.indexedIdentifier (fuel + 1) (E n) = (Build.indexedIdentifier (fuel + 1) n).map erIndexedIdent := by
  unfold Build.indexedIdentifier IndexedIdentifier.identifier IndexedIdentifier.index_operators
  rw [child_supp_E, children_supp_E,
    optM_EK Identifier.canCast n hn (fun c h1 h2 => identifier_E h1 h2),
    listM_E n _ hn (fun c hc => children_supp_mem hc) ih.indexOperator, span_E]
  cases Build.optM Build.identifier (support.child Identifier.canCast n) <;>
  cases Build.listM (Build.indexOperator fuel) (support.children IndexOperator.canCast n) <;>
    simp [Except.map, erIndexedIdent, erIndexOps_eq, z]

theorem step_gateOperand (ih : IH1 fuel) (n : CNode) (hn : headOk n = true)
    (hk : GateOperand.canCast n.kind = true) :
    Build.gateOperand (fuel + 1) (E n) = (Build.gateOperand (fuel + 1) n).map erGateOperand := by
  unfold Build.gateOperand
  rw [kind_E]
  split
  · rename_i h
    rw [hardwareQubit_E hn (by simpa [HardwareQubit.canCast] using h)]
    cases Build.hardwareQubit n <;> simp [Except.map, erGateOperand]
  · split
    · rename_i h
      rw [identifier_E hn (by simpa [Identifier.canCast] using h)]
      cases Build.identifier n <;> simp [Except.map, erGateOperand]
    · rw [ih.indexedIdentifier n hn]
      cases Build.indexedIdentifier fuel n <;> simp [Except.map, erGateOperand]

theorem step_qubitList (ih : IH1 fuel) (n : CNode) (hn : headOk n = true) :
    Build.qubitList (fuel + 1) (E n) = (Build.qubitList (fuel + 1) n).map erQubitList := by
  unfold Build.qubitList QubitList.gate_operands
  rw [children_supp_E,
    listM_EK (fun c => GateOperand.canCast c.kind = true) n _ hn
      (fun c hc => ⟨children_supp_mem hc, children_kind hc⟩) ih.gateOperand, span_E]
  cases Build.listM (Build.gateOperand fuel) (support.children GateOperand.canCast n) <;>
    simp [Except.map, erQubitList, erGateOperands_eq, z]

theorem step_argList (ih : IH1 fuel) (n : CNode) (hn : headOk n = true) :
    Build.argList (fuel + 1) (E n) = (Build.argList (fuel + 1) n).map erArgList := by
  unfold Build.argList ArgList.expression_list
  rw [child_supp_E, optM_E n _ hn (fun c hc => child_supp_mem hc) ih.expressionList, span_E]
  cases Build.optM (Build.expressionList fuel) (support.child ExpressionList.canCast n) <;>
    simp [Except.map, erArgList, erOExprList_eq, z]

theorem step_parenExpr (ih : IH1 fuel) (n : CNode) (hn : headOk n = true) :
    Build.parenExpr (fuel + 1) (E n) = (Build.parenExpr (fuel + 1) n).map erParen := by
  unfold Build.parenExpr ParenExpr.expr
  rw [child_supp_E, optM_E n _ hn (fun c hc => child_supp_mem hc) ih.expr, span_E]
  cases Build.optM (Build.expr fuel) (support.child Expr.canCast n) <;>
    simp [Except.map, erParen, erOExpr_eq, z]

theorem optM_identifier_call (n : CNode) (hn : headOk n = true) :
    Build.optM Build.identifier ((GateCallExpr.identifier n).map E) =
      (Build.optM Build.identifier (GateCallExpr.identifier n)).map (Option.map erIdent) := by
  cases h : GateCallExpr.identifier n with
  | none => rfl
  | some c =>
    obtain ⟨hm, hk⟩ := call_identifier_mem h
    simp only [Option.map_some, Build.optM]
    rw [identifier_E (headOk_children hn hm) hk]
    cases Build.identifier c <;> rfl

theorem step_gateCallExpr (ih : IH1 fuel) (n : CNode) (hn : headOk n = true) :
    Build.gateCallExpr (fuel + 1) (E n) = (Build.gateCallExpr (fuel + 1) n).map erGateCall := by
  unfold Build.gateCallExpr GateCallExpr.qubit_list GateCallExpr.arg_list
  rw [child_supp_E, child_supp_E, gate_call_identifier_E,
    optM_E n _ hn (fun c hc => child_supp_mem hc) ih.qubitList,
    optM_E n _ hn (fun c hc => child_supp_mem hc) ih.argList,
    optM_identifier_call n hn, span_E]
  cases Build.optM (Build.qubitList fuel) (support.child QubitList.canCast n) <;>
  cases Build.optM (Build.argList fuel) (support.child ArgList.canCast n) <;>
  cases Build.optM Build.identifier (GateCallExpr.identifier n) <;>
    simp [Except.map, erGateCall, erOQubitList_eq, erOArgList_eq, z]

theorem step_gPhaseCallExpr (ih : IH1 fuel) (n : CNode) (hn : headOk n = true) :
    Build.gPhaseCallExpr (fuel + 1) (E n) = (Build.gPhaseCallExpr (fuel + 1) n).map erGPhase := by
  unfold Build.gPhaseCallExpr GPhaseCallExpr.arg
  rw [child_supp_E, optM_E n _ hn (fun c hc => child_supp_mem hc) ih.expr, span_E]
  cases Build.optM (Build.expr fuel) (support.child Expr.canCast n) <;>
    simp [Except.map, erGPhase, erOExpr_eq, z]

theorem step_modifier (ih : IH1 fuel) (n : CNode) (hn : headOk n = true) :
    Build.modifier (fuel + 1) (E n) = (Build.modifier (fuel + 1) n).map erModifier := by
  unfold Build.modifier PowModifier.paren_expr CtrlModifier.paren_expr NegCtrlModifier.paren_expr
  rw [kind_E, child_supp_E, optM_E n _ hn (fun c hc => child_supp_mem hc) ih.parenExpr, span_E]
  split
  · simp [Except.map, erModifier, z]
  · split
    · cases Build.optM (Build.parenExpr fuel) (support.child ParenExpr.canCast n) <;>
        simp [Except.map, erModifier, erOParen_eq, z]
    · split
      · cases Build.optM (Build.parenExpr fuel) (support.child ParenExpr.canCast n) <;>
          simp [Except.map, erModifier, erOParen_eq, z]
      · cases Build.optM (Build.parenExpr fuel) (support.child ParenExpr.canCast n) <;>
          simp [Except.map, erModifier, erOParen_eq, z]

theorem step_expr (ih : IH1 fuel) (n : CNode) (hn : headOk n = true) :
    Build.expr (fuel + 1) (E n) = (Build.expr (fuel + 1) n).map erExpr := by
  unfold Build.expr
  rw [kind_E]
  split
  · -- PREFIX_EXPR
    rename_i hk
    unfold PrefixExpr.expr
    rw [prefix_op_kind_E (headOk_local hn (by rw [hk]; rfl)), child_supp_E,
      optM_E n _ hn (fun c hc => child_supp_mem hc) ih.expr, span_E]
    cases Build.optM (Build.expr fuel) (support.child Expr.canCast n) <;>
      simp [Except.map, erExpr, erOExpr_eq, z]
  · -- PAREN_EXPR
    rw [ih.parenExpr n hn]; cases Build.parenExpr fuel n <;> simp [Except.map, erExpr]
  · -- BIN_EXPR
    rw [bin_op_kind_E, bin_lhs_E, bin_rhs_E,
      optM_E n (BinExpr.lhs n) hn (fun c hc => children_supp_head_mem hc) ih.expr,
      optM_E n (BinExpr.rhs n) hn (fun c hc => children_supp_getElem_mem hc) ih.expr, span_E]
    cases Build.optM (Build.expr fuel) (BinExpr.lhs n) <;>
    cases Build.optM (Build.expr fuel) (BinExpr.rhs n) <;>
      simp [Except.map, erExpr, erOExpr_eq, z]
  · -- LITERAL
    rw [literal_E]; cases Build.literal n <;> simp [Except.map, erExpr]
  · -- TIMING_LITERAL
    exact timingLiteral_E hn
  · -- IDENTIFIER
    rename_i hk
    rw [identifier_E hn (by rw [Identifier.canCast, hk]; rfl)]
    cases Build.identifier n <;> simp [Except.map, erExpr]
  · -- HARDWARE_QUBIT
    rename_i hk
    rw [hardwareQubit_E hn (by rw [HardwareQubit.canCast, hk]; rfl)]
    cases Build.hardwareQubit n <;> simp [Except.map, erExpr]
  · -- RANGE_EXPR
    rw [ih.rangeExpr n hn]; cases Build.rangeExpr fuel n <;> simp [Except.map, erExpr]
  · -- INDEX_EXPR
    unfold IndexExpr.expr IndexExpr.index_operator
    rw [child_supp_E, child_supp_E,
      optM_E n _ hn (fun c hc => child_supp_mem hc) ih.expr,
      optM_E n _ hn (fun c hc => child_supp_mem hc) ih.indexOperator, span_E]
    cases Build.optM (Build.expr fuel) (support.child Expr.canCast n) <;>
    cases Build.optM (Build.indexOperator fuel) (support.child IndexOperator.canCast n) <;>
      simp [Except.map, erExpr, erOExpr_eq, erOIndexOp_eq, z]
  · -- INDEXED_IDENTIFIER
    rw [ih.indexedIdentifier n hn]; cases Build.indexedIdentifier fuel n <;> simp [Except.map, erExpr]
  · -- MEASURE_EXPRESSION
    unfold MeasureExpression.gate_operand
    rw [child_supp_E, optM_EK GateOperand.canCast n hn ih.gateOperand, span_E]
    cases Build.optM (Build.gateOperand fuel) (support.child GateOperand.canCast n) <;>
      simp [Except.map, erExpr, erOGateOperand_eq, z]
  · -- RETURN_EXPR
    unfold ReturnExpr.expr
    rw [child_supp_E, optM_E n _ hn (fun c hc => child_supp_mem hc) ih.expr, span_E]
    cases Build.optM (Build.expr fuel) (support.child Expr.canCast n) <;>
      simp [Except.map, erExpr, erOExpr_eq, z]
  · -- CAST_EXPRESSION
    unfold CastExpression.scalar_type CastExpression.expr
    rw [child_supp_E, child_supp_E,
      optM_E n _ hn (fun c hc => child_supp_mem hc) ih.scalarType,
      optM_E n _ hn (fun c hc => child_supp_mem hc) ih.expr, span_E]
    cases Build.optM (Build.scalarType fuel) (support.child ScalarType.canCast n) <;>
    cases Build.optM (Build.expr fuel) (support.child Expr.canCast n) <;>
      simp [Except.map, erExpr, erOExpr_eq, erOScalarType_eq, z]
  · -- CALL_EXPR
    unfold CallExpr.arg_list
    have hid : CallExpr.identifier = GateCallExpr.identifier := rfl
    rw [hid, child_supp_E, gate_call_identifier_E,
      optM_E n _ hn (fun c hc => child_supp_mem hc) ih.argList,
      optM_identifier_call n hn, span_E]
    cases Build.optM (Build.argList fuel) (support.child ArgList.canCast n) <;>
    cases Build.optM Build.identifier (GateCallExpr.identifier n) <;>
      simp [Except.map, erExpr, erOArgList_eq, z]
  · -- GATE_CALL_EXPR
    rw [ih.gateCallExpr n hn]; cases Build.gateCallExpr fuel n <;> simp [Except.map, erExpr]
  · -- G_PHASE_CALL_EXPR
    rw [ih.gPhaseCallExpr n hn]; cases Build.gPhaseCallExpr fuel n <;> simp [Except.map, erExpr]
  · -- MODIFIED_GATE_CALL_EXPR
    unfold ModifiedGateCallExpr.modifiers ModifiedGateCallExpr.gate_call_expr
      ModifiedGateCallExpr.g_phase_call_expr
    rw [children_supp_E, child_supp_E, child_supp_E,
      listM_E n _ hn (fun c hc => children_supp_mem hc) ih.modifier,
      optM_E n _ hn (fun c hc => child_supp_mem hc) ih.gateCallExpr,
      optM_E n _ hn (fun c hc => child_supp_mem hc) ih.gPhaseCallExpr, span_E]
    cases Build.listM (Build.modifier fuel) (support.children Modifier.canCast n) <;>
    cases Build.optM (Build.gateCallExpr fuel) (support.child GateCallExpr.canCast n) <;>
    cases Build.optM (Build.gPhaseCallExpr fuel) (support.child GPhaseCallExpr.canCast n) <;>
      simp [Except.map, erExpr, erModifiers_eq, erOGateCall_eq, erOGPhase_eq, z]
  · simp [Except.map, erExpr, span_E, z]
  · simp [Except.map, erExpr, span_E, z]
  · simp [Except.map, erExpr, span_E, z]
  · simp [Except.map, erExpr, span_E, z]
  · simp [Except.map, erExpr, span_E, z]
  · rfl

theorem ih1_zero : IH1 0 := by
  constructor <;> intros <;> rfl

theorem ih1_succ (ih : IH1 fuel) : IH1 (fuel + 1) :=
  ⟨step_expr ih, step_designator ih, step_scalarType ih, step_expressionList ih, step_setExpression ih,
   step_rangeExpr ih, step_indexOperator ih, step_indexedIdentifier ih,
   step_gateOperand ih, step_qubitList ih, step_argList ih, step_parenExpr ih, step_gateCallExpr ih,
   step_gPhaseCallExpr ih, step_modifier ih⟩

theorem ih1 : ∀ fuel, IH1 fuel
  | 0 => ih1_zero
  | fuel + 1 => ih1_succ (ih1 fuel)

/-! ### the functions between the two mutual blocks -/

theorem paramType_E : ∀ (fuel : Nat) (n : CNode), headOk n = true →
    Build.paramType fuel (E n) = (Build.paramType fuel n).map erParamType
  | 0, _, _ => rfl
  | fuel + 1, n, hn => by
    simp only [Build.paramType]
    rw [kind_E]
    split
    · rw [(ih1 fuel).scalarType n hn]; cases Build.scalarType fuel n <;> simp [Except.map, erParamType]
    · simp [Except.map, erParamType, span_E, z]

theorem typedParam_E : ∀ (fuel : Nat) (n : CNode), headOk n = true →
    Build.typedParam fuel (E n) = (Build.typedParam fuel n).map erTypedParam
  | 0, _, _ => rfl
  | fuel + 1, n, hn => by
    simp only [Build.typedParam]
    unfold TypedParam.param_type TypedParam.name TypedParam.old_typed_param
    simp only [child_supp_E, Option.isSome_map]
    rw [optM_E n _ hn (fun c hc => child_supp_mem hc) (paramType_E fuel),
      optM_EK Name.canCast n hn (fun c h1 h2 => name_E h1 h2), span_E]
    cases Build.optM (Build.paramType fuel) (support.child ParamType.canCast n) <;>
    cases Build.optM Build.name (support.child Name.canCast n) <;>
      simp [Except.map, erTypedParam, z]

theorem typedParamList_E : ∀ (fuel : Nat) (n : CNode), headOk n = true →
    Build.typedParamList fuel (E n) = (Build.typedParamList fuel n).map erTypedParamList
  | 0, _, _ => rfl
  | fuel + 1, n, hn => by
    simp only [Build.typedParamList]
    unfold TypedParamList.typed_params
    rw [children_supp_E, listM_E n _ hn (fun c hc => children_supp_mem hc) (typedParam_E fuel), span_E]
    cases Build.listM (Build.typedParam fuel) (support.children TypedParam.canCast n) <;>
      simp [Except.map, erTypedParamList, z]

theorem returnSignature_E (fuel : Nat) (n : CNode) (hn : headOk n = true) :
    Build.returnSignature fuel (E n) = (Build.returnSignature fuel n).map erReturnSignature := by
  unfold Build.returnSignature ReturnSignature.scalar_type
  rw [child_supp_E, optM_E n _ hn (fun c hc => child_supp_mem hc) (ih1 fuel).scalarType, span_E]
  cases Build.optM (Build.scalarType fuel) (support.child ScalarType.canCast n) <;>
    simp [Except.map, erReturnSignature, erOScalarType_eq, z]

theorem qubitType_E (fuel : Nat) (n : CNode) (hn : headOk n = true) :
    Build.qubitType fuel (E n) = (Build.qubitType fuel n).map erQubitType := by
  unfold Build.qubitType QubitType.designator
  rw [child_supp_E, optM_E n _ hn (fun c hc => child_supp_mem hc) (ih1 fuel).designator, span_E]
  cases Build.optM (Build.designator fuel) (support.child Designator.canCast n) <;>
    simp [Except.map, erQubitType, erODesignator_eq, z]

theorem forIterable_E : ∀ (fuel : Nat) (n : CNode), headOk n = true →
    Build.forIterable fuel (E n) = (Build.forIterable fuel n).map erForIterable
  | 0, _, _ => rfl
  | fuel + 1, n, hn => by
    simp only [Build.forIterable]
    unfold ForIterable.set_expression ForIterable.range_expr ForIterable.for_iterable_expr
    rw [child_supp_E, child_supp_E, child_supp_E,
      optM_E n _ hn (fun c hc => child_supp_mem hc) (ih1 fuel).setExpression,
      optM_E n _ hn (fun c hc => child_supp_mem hc) (ih1 fuel).rangeExpr,
      optM_E n _ hn (fun c hc => child_supp_mem hc) (ih1 fuel).expr, span_E]
    cases Build.optM (Build.setExpression fuel) (support.child SetExpression.canCast n) <;>
    cases Build.optM (Build.rangeExpr fuel) (support.child RangeExpr.canCast n) <;>
    cases Build.optM (Build.expr fuel) (support.child Expr.canCast n) <;>
      simp [Except.map, erForIterable, erOExpr_eq, z]

/-! ### second mutual block -/

structure IH2 (fuel : Nat) : Prop where
  stmt : ∀ n, headOk n = true → Build.stmt fuel (E n) = (Build.stmt fuel n).map erStmt
  blockExpr : ∀ n, headOk n = true → Build.blockExpr fuel (E n) = (Build.blockExpr fuel n).map erBlock
  blockOrStmt : ∀ v, headOk (bosNode v) = true →
    Build.blockOrStmt fuel v.mapE = (Build.blockOrStmt fuel v).map erBos
  caseExpr : ∀ n, headOk n = true → Build.caseExpr fuel (E n) = (Build.caseExpr fuel n).map erCase

theorem step_blockExpr (ih : IH2 fuel) (n : CNode) (hn : headOk n = true) :
    Build.blockExpr (fuel + 1) (E n) = (Build.blockExpr (fuel + 1) n).map erBlock := by
  unfold Build.blockExpr BlockExpr.statements
  rw [children_supp_E, listM_E n _ hn (fun c hc => children_supp_mem hc) ih.stmt, span_E]
  cases Build.listM (Build.stmt fuel) (support.children Stmt.canCast n) <;>
    simp [Except.map, erBlock, erStmts_eq, z]

theorem step_blockOrStmt (ih : IH2 fuel) (v : BlockOrStmt) (hv : headOk (bosNode v) = true) :
    Build.blockOrStmt (fuel + 1) v.mapE = (Build.blockOrStmt (fuel + 1) v).map erBos := by
  cases v with
  | blockExpr b =>
    simp only [BlockOrStmt.mapE, Build.blockOrStmt]
    rw [ih.blockExpr b hv]; cases Build.blockExpr fuel b <;> simp [Except.map, erBos]
  | stmt s =>
    simp only [BlockOrStmt.mapE, Build.blockOrStmt]
    rw [ih.stmt s hv]; cases Build.stmt fuel s <;> simp [Except.map, erBos]

theorem accBosOf_E (ih : IH2 fuel) (r : PRes BlockOrStmt)
    (hr : ∀ v, r = .ok v → headOk (bosNode v) = true) :
    Build.accBosOf fuel (Build.blockOrStmt fuel) (r.map BlockOrStmt.mapE) =
      (Build.accBosOf fuel (Build.blockOrStmt fuel) r).map erAccBos := by
  cases r with
  | panic => simp only [PRes.map, Build.accBosOf]; split <;> rfl
  | ok v =>
    simp only [PRes.map, Build.accBosOf]
    rw [ih.blockOrStmt v (hr v rfl)]; cases Build.blockOrStmt fuel v <;> simp [Except.map, erAccBos]

theorem optBosOf_E (ih : IH2 fuel) (o : Option BlockOrStmt)
    (ho : ∀ v, o = some v → headOk (bosNode v) = true) :
    Build.optBosOf (Build.blockOrStmt fuel) (o.map BlockOrStmt.mapE) =
      (Build.optBosOf (Build.blockOrStmt fuel) o).map (Option.map erBos) := by
  cases o with
  | none => rfl
  | some v =>
    simp only [Option.map_some, Build.optBosOf]
    rw [ih.blockOrStmt v (ho v rfl)]; cases Build.blockOrStmt fuel v <;> simp [Except.map]

theorem step_caseExpr (ih : IH2 fuel) (n : CNode) (hn : headOk n = true) :
    Build.caseExpr (fuel + 1) (E n) = (Build.caseExpr (fuel + 1) n).map erCase := by
  unfold Build.caseExpr CaseExpr.expression_list CaseExpr.block_expr
  rw [child_supp_E, child_supp_E,
    optM_E n _ hn (fun c hc => child_supp_mem hc) (ih1 fuel).expressionList,
    optM_E n _ hn (fun c hc => child_supp_mem hc) ih.blockExpr, span_E]
  cases Build.optM (Build.expressionList fuel) (support.child ExpressionList.canCast n) <;>
  cases Build.optM (Build.blockExpr fuel) (support.child BlockExpr.canCast n) <;>
    simp [Except.map, erCase, erOExprList_eq, erOBlock_eq, z]

theorem optM_paramList (n : CNode) (o : Option CNode) (hn : headOk n = true)
    (hm : ∀ c, o = some c → c ∈ n.children) :
    Build.optM Build.paramList (o.map E) = (Build.optM Build.paramList o).map (Option.map erParamList) :=
  optM_E n o hn hm (fun _ h => paramList_E h)

theorem step_stmt (ih : IH2 fuel) (n : CNode) (hn : headOk n = true) :
    Build.stmt (fuel + 1) (E n) = (Build.stmt (fuel + 1) n).map erStmt := by
  have i1 := ih1 fuel
  unfold Build.stmt
  rw [kind_E]
  split
  · -- IF_STMT
    rw [condition_E, if_true_body_E, if_false_body_E,
      optM_E n (IfStmt.condition n) hn (fun c hc => condition_mem hc) i1.expr,
      accBosOf_E ih _ (fun v hv => headOk_children hn (if_true_body_mem hv)),
      optBosOf_E ih _ (fun v hv => headOk_children hn (if_false_body_mem hv)), span_E]
    cases Build.optM (Build.expr fuel) (IfStmt.condition n) <;>
    cases Build.accBosOf fuel (Build.blockOrStmt fuel) (IfStmt.true_body_block_or_stmt n) <;>
    cases Build.optBosOf (Build.blockOrStmt fuel) (IfStmt.false_body_block_or_stmt n) <;>
      simp [Except.map, erStmt, erOExpr_eq, erOBos_eq, z]
  · -- WHILE_STMT
    rw [while_condition_E, while_block_or_stmt_E,
      optM_E n (WhileStmt.condition n) hn (fun c hc => condition_mem hc) i1.expr,
      accBosOf_E ih _ (fun v hv => headOk_children hn (while_body_mem hv)), span_E]
    cases Build.optM (Build.expr fuel) (WhileStmt.condition n) <;>
    cases Build.accBosOf fuel (Build.blockOrStmt fuel) (WhileStmt.block_or_stmt n) <;>
      simp [Except.map, erStmt, erOExpr_eq, z]
  · -- FOR_STMT
    unfold ForStmt.loop_var ForStmt.scalar_type ForStmt.for_iterable
    rw [child_supp_E, child_supp_E, child_supp_E, for_block_or_stmt_E,
      optM_EK Name.canCast n hn (fun c h1 h2 => name_E h1 h2),
      optM_E n _ hn (fun c hc => child_supp_mem hc) i1.scalarType,
      optM_E n _ hn (fun c hc => child_supp_mem hc) (forIterable_E fuel),
      accBosOf_E ih _ (fun v hv => headOk_children hn (for_body_mem hv)), span_E]
    cases Build.optM Build.name (support.child Name.canCast n) <;>
    cases Build.optM (Build.scalarType fuel) (support.child ScalarType.canCast n) <;>
    cases Build.optM (Build.forIterable fuel) (support.child ForIterable.canCast n) <;>
    cases Build.accBosOf fuel (Build.blockOrStmt fuel) (ForStmt.block_or_stmt n) <;>
      simp [Except.map, erStmt, erOScalarType_eq, z]
  · -- SWITCH_CASE_STMT
    unfold SwitchCaseStmt.control SwitchCaseStmt.case_exprs SwitchCaseStmt.default_block
    rw [child_supp_E, children_supp_E, child_supp_E,
      optM_E n _ hn (fun c hc => child_supp_mem hc) i1.expr,
      listM_E n _ hn (fun c hc => children_supp_mem hc) ih.caseExpr,
      optM_E n _ hn (fun c hc => child_supp_mem hc) ih.blockExpr, span_E]
    cases Build.optM (Build.expr fuel) (support.child Expr.canCast n) <;>
    cases Build.listM (Build.caseExpr fuel) (support.children CaseExpr.canCast n) <;>
    cases Build.optM (Build.blockExpr fuel) (support.child BlockExpr.canCast n) <;>
      simp [Except.map, erStmt, erOExpr_eq, erCases_eq, erOBlock_eq, z]
  · -- CLASSICAL_DECLARATION_STATEMENT
    unfold ClassicalDeclarationStatement.scalar_type ClassicalDeclarationStatement.name
      ClassicalDeclarationStatement.expr ClassicalDeclarationStatement.array_type
      ClassicalDeclarationStatement.const_token
    simp only [child_supp_E, Option.isSome_map]
    rw [token_supp_isSome_E n .CONST_KW rfl,
      optM_E n _ hn (fun c hc => child_supp_mem hc) i1.scalarType,
      optM_EK Name.canCast n hn (fun c h1 h2 => name_E h1 h2),
      optM_E n _ hn (fun c hc => child_supp_mem hc) i1.expr, span_E]
    cases Build.optM (Build.scalarType fuel) (support.child ScalarType.canCast n) <;>
    cases Build.optM Build.name (support.child Name.canCast n) <;>
    cases Build.optM (Build.expr fuel) (support.child Expr.canCast n) <;>
      simp [Except.map, erStmt, erOScalarType_eq, erOExpr_eq, z]
  · -- I_O_DECLARATION_STATEMENT
    unfold IODeclarationStatement.scalar_type IODeclarationStatement.name
      IODeclarationStatement.array_type IODeclarationStatement.input_token
    simp only [child_supp_E, Option.isSome_map]
    rw [token_supp_isSome_E n .INPUT_KW rfl,
      optM_E n _ hn (fun c hc => child_supp_mem hc) i1.scalarType,
      optM_EK Name.canCast n hn (fun c h1 h2 => name_E h1 h2), span_E]
    cases Build.optM (Build.scalarType fuel) (support.child ScalarType.canCast n) <;>
    cases Build.optM Build.name (support.child Name.canCast n) <;>
      simp [Except.map, erStmt, erOScalarType_eq, z]
  · -- QUANTUM_DECLARATION_STATEMENT
    unfold QuantumDeclarationStatement.name QuantumDeclarationStatement.hardware_qubit
      QuantumDeclarationStatement.qubit_type
    rw [child_supp_E, child_supp_E, child_supp_E,
      optM_EK Name.canCast n hn (fun c h1 h2 => name_E h1 h2),
      optM_EK HardwareQubit.canCast n hn (fun c h1 h2 => hardwareQubit_E h1 h2),
      optM_E n _ hn (fun c hc => child_supp_mem hc) (qubitType_E fuel), span_E]
    cases Build.optM Build.name (support.child Name.canCast n) <;>
    cases Build.optM Build.hardwareQubit (support.child HardwareQubit.canCast n) <;>
    cases Build.optM (Build.qubitType fuel) (support.child QubitType.canCast n) <;>
      simp [Except.map, erStmt, z]
  · -- ASSIGNMENT_STMT
    unfold AssignmentStmt.identifier AssignmentStmt.indexed_identifier
    rw [child_supp_E, assign_rhs_E, child_supp_E,
      optM_EK Identifier.canCast n hn (fun c h1 h2 => identifier_E h1 h2),
      optM_E n (AssignmentStmt.rhs n) hn (fun c hc => assign_rhs_mem hc) i1.expr,
      optM_E n _ hn (fun c hc => child_supp_mem hc) i1.indexedIdentifier, span_E]
    cases Build.optM Build.identifier (support.child Identifier.canCast n) <;>
    cases Build.optM (Build.expr fuel) (AssignmentStmt.rhs n) <;>
    cases Build.optM (Build.indexedIdentifier fuel) (support.child IndexedIdentifier.canCast n) <;>
      simp [Except.map, erStmt, erOExpr_eq, z]
  · simp [Except.map, erStmt, span_E, z]
  · simp [Except.map, erStmt, span_E, z]
  · simp [Except.map, erStmt, span_E, z]
  · -- GATE
    unfold Gate.name Gate.body
    rw [child_supp_E, gate_angle_params_E, gate_qubit_params_E, child_supp_E,
      optM_EK Name.canCast n hn (fun c h1 h2 => name_E h1 h2),
      optM_paramList n (Gate.angle_params n) hn (fun c hc => gate_params_mem.1 hc),
      optM_paramList n (Gate.qubit_params n) hn (fun c hc => gate_params_mem.2 hc),
      optM_E n _ hn (fun c hc => child_supp_mem hc) ih.blockExpr, span_E]
    cases Build.optM Build.name (support.child Name.canCast n) <;>
    cases Build.optM Build.paramList (Gate.angle_params n) <;>
    cases Build.optM Build.paramList (Gate.qubit_params n) <;>
    cases Build.optM (Build.blockExpr fuel) (support.child BlockExpr.canCast n) <;>
      simp [Except.map, erStmt, erOBlock_eq, z]
  · -- DEF
    unfold Def.name Def.typed_param_list Def.body Def.return_signature
    rw [child_supp_E, child_supp_E, child_supp_E, child_supp_E,
      optM_EK Name.canCast n hn (fun c h1 h2 => name_E h1 h2),
      optM_E n _ hn (fun c hc => child_supp_mem hc) (typedParamList_E fuel),
      optM_E n _ hn (fun c hc => child_supp_mem hc) ih.blockExpr,
      optM_E n _ hn (fun c hc => child_supp_mem hc) (returnSignature_E fuel), span_E]
    cases Build.optM Build.name (support.child Name.canCast n) <;>
    cases Build.optM (Build.typedParamList fuel) (support.child TypedParamList.canCast n) <;>
    cases Build.optM (Build.blockExpr fuel) (support.child BlockExpr.canCast n) <;>
    cases Build.optM (Build.returnSignature fuel) (support.child ReturnSignature.canCast n) <;>
      simp [Except.map, erStmt, erOBlock_eq, z]
  · -- BARRIER
    unfold Barrier.qubit_list
    rw [child_supp_E, optM_E n _ hn (fun c hc => child_supp_mem hc) i1.qubitList, span_E]
    cases Build.optM (Build.qubitList fuel) (support.child QubitList.canCast n) <;>
      simp [Except.map, erStmt, erOQubitList_eq, z]
  · -- DELAY_STMT
    unfold DelayStmt.qubit_list DelayStmt.designator
    rw [child_supp_E, child_supp_E,
      optM_E n _ hn (fun c hc => child_supp_mem hc) i1.qubitList,
      optM_E n _ hn (fun c hc => child_supp_mem hc) i1.designator, span_E]
    cases Build.optM (Build.qubitList fuel) (support.child QubitList.canCast n) <;>
    cases Build.optM (Build.designator fuel) (support.child Designator.canCast n) <;>
      simp [Except.map, erStmt, erOQubitList_eq, erODesignator_eq, z]
  · -- RESET
    unfold Reset.gate_operand
    rw [child_supp_E, optM_EK GateOperand.canCast n hn i1.gateOperand, span_E]
    cases Build.optM (Build.gateOperand fuel) (support.child GateOperand.canCast n) <;>
      simp [Except.map, erStmt, erOGateOperand_eq, z]
  · -- INCLUDE
    unfold Include.file
    rw [child_supp_E, optM_E n _ hn (fun c hc => child_supp_mem hc) (fun c _ => filePath_E c), span_E]
    cases Build.optM Build.filePath (support.child FilePath.canCast n) <;>
      simp [Except.map, erStmt, z]
  · -- EXPR_STMT
    unfold ExprStmt.expr
    rw [child_supp_E, optM_E n _ hn (fun c hc => child_supp_mem hc) i1.expr, span_E]
    cases Build.optM (Build.expr fuel) (support.child Expr.canCast n) <;>
      simp [Except.map, erStmt, erOExpr_eq, z]
  · simp [Except.map, erStmt, span_E, z]
  · -- PRAGMA_STATEMENT
    rename_i hk
    rw [pragma_text_E (headOk_local hn (by rw [hk]; rfl)), span_E]
    cases Build.ofPRes (PragmaStatement.pragma_text n) <;> simp [Except.map, erStmt, z]
  · -- ANNOTATION_STATEMENT
    rename_i hk
    rw [annotation_text_E (headOk_local hn (by rw [hk]; rfl)), span_E]
    cases Build.ofPRes (AnnotationStatement.annotation_text n) <;> simp [Except.map, erStmt, z]
  · -- ALIAS_DECLARATION_STATEMENT
    unfold AliasDeclarationStatement.name AliasDeclarationStatement.expr
    rw [child_supp_E, child_supp_E,
      optM_EK Name.canCast n hn (fun c h1 h2 => name_E h1 h2),
      optM_E n _ hn (fun c hc => child_supp_mem hc) i1.expr, span_E]
    cases Build.optM Build.name (support.child Name.canCast n) <;>
    cases Build.optM (Build.expr fuel) (support.child Expr.canCast n) <;>
      simp [Except.map, erStmt, erOExpr_eq, z]
  · simp [Except.map, erStmt, span_E, z]
  · simp [Except.map, erStmt, span_E, z]
  · simp [Except.map, erStmt, span_E, z]
  · simp [Except.map, erStmt, span_E, z]
  · simp [Except.map, erStmt, span_E, z]
  · simp [Except.map, erStmt, span_E, z]
  · simp [Except.map, erStmt, span_E, z]
  · rfl

theorem ih2_zero : IH2 0 := by
  constructor <;> intros <;> rfl

theorem ih2_succ (ih : IH2 fuel) : IH2 (fuel + 1) :=
  ⟨step_stmt ih, step_blockExpr ih, step_blockOrStmt ih, step_caseExpr ih⟩

theorem ih2 : ∀ fuel, IH2 fuel
  | 0 => ih2_zero
  | fuel + 1 => ih2_succ (ih2 fuel)

/-! ### whole programs -/

mutual
theorem depth_E : ∀ c : CNode, (E c).depth = c.depth
  | .token .. => rfl
  | .node k s e cs => by
    simp only [eraseTrivia, CNode.depth]
    rw [depthList_E cs]
theorem depthList_E : ∀ cs : List CNode,
    CNode.depth.depthList (eraseTriviaL cs) = CNode.depth.depthList cs
  | [] => rfl
  | c :: cs => by
    unfold eraseTriviaL
    split
    · rename_i h
      have hd : c.depth = 0 := by
        cases c with
        | node => simp [isTriviaTok, CNode.isToken] at h
        | token => rfl
      simp only [CNode.depth.depthList, hd, depthList_E cs]
      omega
    · simp only [CNode.depth.depthList, depth_E c, depthList_E cs]
end

/-- the hypothesis of the blindness theorem: below the root, no node of the seven kinds whose
accessors read the first child starts with a trivia token (the root itself — `SOURCE_FILE` — does
start with the file's leading trivia) -/
def rootHeadOk (root : CNode) : Bool := headOkL root.children

theorem listM_stmt_E (fuel : Nat) (l : List CNode) (hl : ∀ c, c ∈ l → headOk c = true) :
    Build.listM (Build.stmt fuel) (l.map E) = (Build.listM (Build.stmt fuel) l).map (List.map erStmt) := by
  induction l with
  | nil => rfl
  | cons c cs ihl =>
    simp only [List.map_cons, Build.listM]
    rw [(ih2 fuel).stmt c (hl c List.mem_cons_self), ihl (fun d hd => hl d (List.mem_cons_of_mem _ hd))]
    cases Build.stmt fuel c with
    | error e => rfl
    | ok a => cases Build.listM (Build.stmt fuel) cs <;> rfl

theorem programWith_eraseTrivia (fuel : Nat) (root : CNode) (h : rootHeadOk root = true) :
    Build.programWith fuel (E root) = (Build.programWith fuel root).map eraseSpans := by
  unfold Build.programWith SourceFile.statements
  rw [children_supp_E, span_E]
  have := listM_stmt_E fuel (support.children Stmt.canCast root)
    (fun c hc => headOkL_mem h (children_supp_mem hc))
  rw [this]
  cases Build.listM (Build.stmt fuel) (support.children Stmt.canCast root) <;>
    simp [Except.map, eraseSpans, erStmts_eq, z]

/-- **Accessors are blind to trivia and ranges**: the typed AST of the tree without trivia and
with all ranges zeroed is the typed AST of the tree with its spans erased -/
theorem program_eraseTrivia (root : CNode) (h : rootHeadOk root = true) :
    Build.program (E root) = (Build.program root).map eraseSpans := by
  unfold Build.program Build.defaultFuel Dump.defaultFuel
  rw [depth_E]
  exact programWith_eraseTrivia _ root h

end Oq3.C17Layout
