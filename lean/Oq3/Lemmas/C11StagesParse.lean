/-
C11 (gates) — lemmas about the concrete lex-checked parse (`Lemmas/C11StagesDefs.lean`):
the lexer-error conversion never panics, the two branches of `parse_text_check_lex` as equations,
and which stages of the parser half can fail at all.
-/
import Oq3.Lemmas.C11StagesDefs
import Oq3.Props.C12
import Oq3.Props.C14
import Oq3.Props.C02Final

namespace Oq3.Stages
open Oq3.Gen Oq3.Lexer Oq3.Lexed Oq3.Parser Oq3.Grammar Oq3.Builder Oq3.Bridge Oq3.Acc
open Oq3.Lemmas.Lexed

/-! ### the lexer-error conversion -/

/-- the diagnostics `lexer_errors_to_syntax_errors` produces, as a total function: the message of
each error record with the text range of its token (`(0,0)` never occurs: `lexErrors_spec`) -/
def lexErrorsOf (l : LexedStr) : List SyntaxError :=
  l.error.map fun e =>
    match l.textRange e.token with
    | some (a, b) => ⟨e.msg, a, b⟩
    | none => ⟨e.msg, 0, 0⟩

theorem mapM_some_of_forall {α β : Type} (f : α → Option β) (g : α → β) (l : List α)
    (h : ∀ a ∈ l, f a = some (g a)) : l.mapM f = some (l.map g) := by
  induction l with
  | nil => rfl
  | cons a as ih =>
    rw [List.mapM_cons, h a (List.mem_cons_self ..), ih (fun b hb => h b (List.mem_cons_of_mem _ hb))]
    rfl

/-- **the lexer-error loop never panics**: every error record points at an existing token -/
theorem lexerErrors_total (uc : UC) (s : List Char) :
    lexerErrorsToSyntaxErrors (lexedOf uc s) = some (lexErrorsOf (lexedOf uc s)) := by
  unfold lexerErrorsToSyntaxErrors lexErrorsOf LexedStr.errors
  rw [List.mapM_map]
  apply mapM_some_of_forall
  intro e he
  obtain ⟨lo, hi, hr, -⟩ := Oq3.Props.C12.lex_error_ranges uc s _ (new_eq uc s) e he
  simp only [Function.comp, hr]

theorem lexErrorsOf_length (l : LexedStr) : (lexErrorsOf l).length = l.error.length := by
  simp [lexErrorsOf]

theorem lexErrorsOf_nil (l : LexedStr) (h : l.error = []) : lexErrorsOf l = [] := by
  simp [lexErrorsOf, h]

theorem lexErrorsOf_ne_nil (l : LexedStr) (h : l.error ≠ []) : lexErrorsOf l ≠ [] := by
  intro h'
  have := lexErrorsOf_length l
  rw [h'] at this
  exact h (List.eq_nil_of_length_eq_zero this.symm)

/-- each diagnostic of the lexer-error list is the message of an error record with the (valid,
in-bounds) text range of the token the record points at -/
theorem lexErrors_spec (uc : UC) (s : List Char) :
    ∀ e ∈ (lexedOf uc s).error, ∃ lo hi, (lexedOf uc s).textRange e.token = some (lo, hi) ∧
      (⟨e.msg, lo, hi⟩ : SyntaxError) ∈ lexErrorsOf (lexedOf uc s) ∧ lo ≤ hi ∧ hi ≤ Oq3.Lexer.utf8Len s := by
  intro e he
  obtain ⟨lo, hi, hr, hle, hlen, -⟩ := Oq3.Props.C12.lex_error_ranges uc s _ (new_eq uc s) e he
  refine ⟨lo, hi, hr, ?_, hle, hlen⟩
  unfold lexErrorsOf
  refine List.mem_map.mpr ⟨e, he, ?_⟩
  simp only [hr]

/-! ### the two branches of `parse_text_check_lex`, as equations -/

/-- lexer error ⇒ no tree, the diagnostics are the lexer's; the parser is not run (no fuel, no
parser panic can matter) -/
theorem parseTextCheckLex_lex_error (uc : UC) (fuel npl : Nat) (s : List Char)
    (h : (lexedOf uc s).error ≠ []) :
    parseTextCheckLex uc fuel npl s = .ok (none, lexErrorsOf (lexedOf uc s)) := by
  unfold parseTextCheckLex
  rw [new_eq]
  have : (!(lexedOf uc s).error.isEmpty) = true := by
    cases he : (lexedOf uc s).error with
    | nil => exact absurd he h
    | cons a b => rfl
  simp only [this, if_true, lexerErrors_total]

/-- no lexer error ⇒ the tree and exactly the builder's diagnostics of the parser stages -/
theorem parseTextCheckLex_clean (uc : UC) (fuel npl : Nat) (s : List Char)
    (h : (lexedOf uc s).error = []) :
    parseTextCheckLex uc fuel npl s =
      (parseLexed fuel npl (lexedOf uc s)).map fun r => (some r.1, r.2.map ofSynErr) := by
  unfold parseTextCheckLex
  rw [new_eq]
  simp only [h, List.isEmpty_nil, Bool.not_true, Bool.false_eq_true, if_false, lexerErrors_total,
    lexErrorsOf_nil _ h, List.append_nil]
  cases parseLexed fuel npl (lexedOf uc s) with
  | error f => rfl
  | ok r => obtain ⟨t, e⟩ := r; rfl

theorem checkLexParse_lex_error (uc : UC) (fuel npl : Nat) (s : List Char)
    (h : (lexedOf uc s).error ≠ []) :
    checkLexParse uc fuel npl s = .ok (none, lexErrorsOf (lexedOf uc s)) := by
  unfold checkLexParse
  rw [parseTextCheckLex_lex_error uc fuel npl s h]

theorem checkLexParse_clean (uc : UC) (fuel npl : Nat) (s : List Char)
    (h : (lexedOf uc s).error = []) :
    checkLexParse uc fuel npl s =
      (parserDiagnostics uc fuel npl s).map fun r => (some r.1, r.2) := by
  unfold checkLexParse parserDiagnostics
  rw [parseTextCheckLex_clean uc fuel npl s h]
  cases parseLexed fuel npl (lexedOf uc s) with
  | error f => rfl
  | ok r =>
    obtain ⟨t, e⟩ := r
    simp only [Except.map]
    cases Oq3.Validation.validate t 0 with
    | error site => rfl
    | ok verrs =>
      simp only
      split <;> rfl

/-! ### which stages of the parser half can fail -/

/-- on a lexed text, `to_input`, `process`, the balance assertions and `build_tree` never fail:
the only way the parser stages do not return a tree is the grammar itself (a parser panic, a hang
detector, the model's fuel) -/
theorem parseLexed_fails_only_in_grammar (uc : UC) (fuel npl : Nat) (s : List Char) (f : Fail)
    (h : parseLexed fuel npl (lexedOf uc s) = .error f) : ∃ o, f = .parser o := by
  obtain ⟨inp, hi, -⟩ := Oq3.Props.C14.to_input_total uc s _ (new_eq uc s)
  unfold parseLexed at h
  rw [hi] at h
  simp only at h
  cases hp : parseSourceFile fuel inp.kind.toArray inp.joint.toArray npl with
  | error o => rw [hp] at h; simp only [Except.error.injEq] at h; exact ⟨o, h.symm⟩
  | ok r =>
    obtain ⟨events, pos⟩ := r
    rw [hp] at h
    obtain ⟨steps, tree, errs, hs, hb, -⟩ :=
      Oq3.Props.C02.lossless uc s _ inp fuel npl events pos (new_eq uc s) hi hp
    have hbal := Oq3.Props.C01.balance_assertions_hold fuel _ _ npl events pos hp steps hs
    simp only [hs, hbal, Bool.not_true, Bool.false_eq_true, if_false, hb] at h
    cases h

/-- a tree returned by the parser stages spells exactly the text (C02 `lossless`) -/
theorem parseLexed_ok_shape (uc : UC) (fuel npl : Nat) (s : List Char) (tree : Tree) (errs : List SynErr)
    (h : parseLexed fuel npl (lexedOf uc s) = .ok (tree, errs)) : tree.text = s := by
  obtain ⟨inp, hi, -⟩ := Oq3.Props.C14.to_input_total uc s _ (new_eq uc s)
  unfold parseLexed at h
  rw [hi] at h
  simp only at h
  cases hp : parseSourceFile fuel inp.kind.toArray inp.joint.toArray npl with
  | error o => rw [hp] at h; cases h
  | ok r =>
    obtain ⟨events, pos⟩ := r
    rw [hp] at h
    obtain ⟨steps, tree', errs', hs, hb, ht⟩ :=
      Oq3.Props.C02.lossless uc s _ inp fuel npl events pos (new_eq uc s) hi hp
    have hbal := Oq3.Props.C01.balance_assertions_hold fuel _ _ npl events pos hp steps hs
    simp only [hs, hbal, Bool.not_true, Bool.false_eq_true, if_false, hb, Except.ok.injEq,
      Prod.mk.injEq] at h
    rw [← h.1]; exact ht

end Oq3.Stages
