/-
Marker discipline of the grammar: the rules used by the generated proof
`Lemmas/GrammarSafeMark.lean` that no `Marker::complete` / `abandon` / `CompletedMarker::precede`
/ `extend_to` ever fails (neither their `unreachable!()` / `u32` underflow panics nor the
`modelError`s that stand for Rust's move discipline), and that every marker is consumed
(`live` returns to its value: no `DropBomb`).

Failures that concern tokens are tolerated here (`A2`); they are excluded by `Lemmas/SafeTok.lean`.
-/
import Oq3.Lemmas.SafeTok
set_option linter.unusedSimpArgs false
set_option linter.unusedVariables false

namespace Oq3.Parser
open Oq3.Gen

/-- tolerated in the marker-level proof: everything that is not a marker-API failure -/
def A2 (o : Outcome) : Prop := o ∉ markSites

instance (o : Outcome) : Decidable (A2 o) := by unfold A2; infer_instance

macro "dec2" : tactic => `(tactic| (show A2 _; decide))

/-! ### what is known about markers in a state -/

def isTombN (o : Option Ev) : Prop := o = some (.start .TOMBSTONE none)
def isTomb (o : Option Ev) : Prop := ∃ fp, o = some (.start .TOMBSTONE fp)
def isDone (o : Option Ev) : Prop := ∃ k fp, o = some (.start k fp) ∧ k ≠ SyntaxKind.TOMBSTONE

/-- the event at `p` is an uncompleted `Start` without forward parent (as pushed by `start`) -/
def TombN (s : P) (p : Nat) : Prop := isTombN s.events[p]?
/-- the event at `p` is a `Start` that has not been completed -/
def Tomb (s : P) (p : Nat) : Prop := isTomb s.events[p]?
/-- the event at `p` is a completed `Start` -/
def DoneAt (s : P) (p : Nat) : Prop := isDone s.events[p]?
/-- a marker obtained from `Parser::start` that has not been consumed -/
def Live (s : P) (m : Marker) : Prop := TombN s m.pos ∧ m.isFp = false ∧ m.pos ∉ s.protectedPos
def Done (s : P) (cm : CompletedMarker) : Prop := DoneAt s cm.pos

/-- the ghost list of protected positions only mentions existing events -/
def MG (s : P) : Prop := ∀ p, p ∈ s.protectedPos → p < s.events.size

/-- what a step preserves about the event at `p` -/
def Keep (s s' : P) (p : Nat) : Prop :=
  (TombN s p → TombN s' p) ∧ (Tomb s p → Tomb s' p) ∧ (DoneAt s p → DoneAt s' p) ∧
    (p ∈ s'.protectedPos → p ∈ s.protectedPos)

/-- frame: what happens from `s` to `s'` leaves every event below `n` in its class
(uncompleted / completed `Start`), protects none of them anew, and keeps at least `n` events -/
def Fr (n : Nat) (s s' : P) : Prop := n ≤ s'.events.size ∧ ∀ p, p < n → Keep s s' p

/-- frame of an operation on one marker slot: every event except that slot -/
def FrX (q : Nat) (s s' : P) : Prop := s.events.size ≤ s'.events.size ∧ ∀ p, p ≠ q → Keep s s' p

theorem isTomb_lt {a : Array Ev} {p : Nat} (h : isTomb a[p]?) : p < a.size := by
  obtain ⟨fp, h⟩ := h
  exact (Array.getElem?_eq_some_iff.mp h).1
theorem isDone_lt {a : Array Ev} {p : Nat} (h : isDone a[p]?) : p < a.size := by
  obtain ⟨k, fp, h, _⟩ := h
  exact (Array.getElem?_eq_some_iff.mp h).1

theorem TombN.tomb {s : P} {p : Nat} (h : TombN s p) : Tomb s p := ⟨none, h⟩
theorem Tomb.lt {s : P} {p : Nat} (h : Tomb s p) : p < s.events.size := isTomb_lt h
theorem DoneAt.lt {s : P} {p : Nat} (h : DoneAt s p) : p < s.events.size := isDone_lt h
theorem Live.lt {s : P} {m : Marker} (h : Live s m) : m.pos < s.events.size := h.1.tomb.lt
theorem Live.tomb {s : P} {m : Marker} (h : Live s m) : Tomb s m.pos := h.1.tomb
theorem Done.lt {s : P} {cm : CompletedMarker} (h : Done s cm) : cm.pos < s.events.size := DoneAt.lt h

theorem Keep.live {s s' : P} {m : Marker} (h : Keep s s' m.pos) (hl : Live s m) : Live s' m :=
  ⟨h.1 hl.1, hl.2.1, fun hc => hl.2.2 (h.2.2.2 hc)⟩

theorem Fr.size {n : Nat} {s s' : P} (h : Fr n s s') : n ≤ s'.events.size := h.1
theorem Fr.tomb {n : Nat} {s s' : P} {p : Nat} (h : Fr n s s') (hp : p < n) (ht : Tomb s p) : Tomb s' p :=
  (h.2 p hp).2.1 ht
theorem Fr.doneAt {n : Nat} {s s' : P} {p : Nat} (h : Fr n s s') (hp : p < n) (ht : DoneAt s p) :
    DoneAt s' p := (h.2 p hp).2.2.1 ht
theorem Fr.done {n : Nat} {s s' : P} {cm : CompletedMarker} (h : Fr n s s') (hp : cm.pos < n)
    (ht : Done s cm) : Done s' cm := h.doneAt hp ht
theorem Fr.live {n : Nat} {s s' : P} {m : Marker} (h : Fr n s s') (hp : m.pos < n) (hl : Live s m) :
    Live s' m := (h.2 _ hp).live hl
theorem Keep.refl (s : P) (p : Nat) : Keep s s p := ⟨id, id, id, id⟩
theorem Keep.trans {s s' s'' : P} {p : Nat} (h1 : Keep s s' p) (h2 : Keep s' s'' p) : Keep s s'' p :=
  ⟨fun t => h2.1 (h1.1 t), fun t => h2.2.1 (h1.2.1 t), fun t => h2.2.2.1 (h1.2.2.1 t),
   fun t => h1.2.2.2 (h2.2.2.2 t)⟩
theorem Fr.refl (s : P) : Fr s.events.size s s := ⟨Nat.le_refl _, fun p _ => Keep.refl s p⟩
theorem Fr.mono {n n' : Nat} {s s' : P} (h : Fr n s s') (hn : n' ≤ n) : Fr n' s s' :=
  ⟨Nat.le_trans hn h.1, fun p hp => h.2 p (Nat.lt_of_lt_of_le hp hn)⟩
theorem Fr.trans {n : Nat} {s s' s'' : P} (h1 : Fr n s s') (h2 : Fr n s' s'') : Fr n s s'' :=
  ⟨h2.1, fun p hp => (h1.2 p hp).trans (h2.2 p hp)⟩

theorem FrX.fr {q : Nat} {s s' : P} (h : FrX q s s') (hq : q ≤ s.events.size) : Fr q s s' :=
  ⟨Nat.le_trans hq h.1, fun p hp => h.2 p (Nat.ne_of_lt hp)⟩
theorem FrX.tomb {q p : Nat} {s s' : P} (h : FrX q s s') (hp : p ≠ q) (ht : Tomb s p) : Tomb s' p :=
  (h.2 p hp).2.1 ht
theorem FrX.live {q : Nat} {s s' : P} {m : Marker} (h : FrX q s s') (hp : m.pos ≠ q) (hl : Live s m) :
    Live s' m := (h.2 _ hp).live hl
theorem FrX.done {q : Nat} {s s' : P} {cm : CompletedMarker} (h : FrX q s s') (hp : cm.pos ≠ q)
    (hl : Done s cm) : Done s' cm := (h.2 _ hp).2.2.1 hl
theorem FrX.size {q : Nat} {s s' : P} (h : FrX q s s') : s.events.size ≤ s'.events.size := h.1

/-- the event at `p` is the same and nothing new is protected -/
theorem Keep_of_eq {s s' : P} {p : Nat} (he : s'.events[p]? = s.events[p]?)
    (hp : p ∈ s'.protectedPos → p ∈ s.protectedPos) : Keep s s' p := by
  refine ⟨fun t => ?_, fun t => ?_, fun t => ?_, hp⟩
  · unfold TombN at *; rw [he]; exact t
  · unfold Tomb at *; rw [he]; exact t
  · unfold DoneAt at *; rw [he]; exact t

/-- a step that only appends an event, or changes other fields -/
theorem Fr_of_push (s s' : P) (e : Ev) (he : s'.events = s.events.push e)
    (hp : s'.protectedPos = s.protectedPos) : Fr s.events.size s s' := by
  refine ⟨by rw [he]; simp, fun p hp' => Keep_of_eq ?_ (fun t => by rw [hp] at t; exact t)⟩
  rw [he, Array.getElem?_push]; simp [Nat.ne_of_lt hp']

theorem Fr_of_same (s s' : P) (he : s'.events = s.events) (hp : s'.protectedPos = s.protectedPos) :
    Fr s.events.size s s' :=
  ⟨by rw [he]; exact Nat.le_refl _, fun p _ => Keep_of_eq (by rw [he]) (fun t => by rw [hp] at t; exact t)⟩

theorem MG_of_push (s s' : P) (e : Ev) (he : s'.events = s.events.push e)
    (hp : s'.protectedPos = s.protectedPos) (h : MG s) : MG s' := by
  intro p hm
  rw [hp] at hm
  have := h p hm
  rw [he]; simp; omega

theorem MG_of_same (s s' : P) (he : s'.events = s.events) (hp : s'.protectedPos = s.protectedPos)
    (h : MG s) : MG s' := by
  intro p hm; rw [hp] at hm; rw [he]; exact h p hm

/-- the summary of a step that consumes no marker -/
def St0 (s s' : P) : Prop := MG s' ∧ Fr s.events.size s s' ∧ s'.live = s.live

theorem St0.mg {s s' : P} (h : St0 s s') : MG s' := h.1
theorem St0.fr {s s' : P} (h : St0 s s') : Fr s.events.size s s' := h.2.1
theorem St0.live_eq {s s' : P} (h : St0 s s') : s'.live = s.live := h.2.2

section
variable {α : Type} {s : P}

theorem wp2_at {k : SyntaxKind} {Q : Bool → P → Prop} (h : ∀ b, Q b s) : wp A2 (at' k) Q s :=
  wp_at (h _)
theorem wp2_current {Q : SyntaxKind → P → Prop} (h : ∀ k, Q k s) : wp A2 current Q s := wp_current (h _)
theorem wp2_atTs {ts : TokenSet} {Q : Bool → P → Prop} (h : ∀ b, Q b s) : wp A2 (atTs ts) Q s :=
  wp_atTs (h _)

theorem wp2_nth {n : Nat} {Q : SyntaxKind → P → Prop} (hg : MG s)
    (h : ∀ k s', St0 s s' → Q k s') : wp A2 (nth n) Q s := by
  apply wp_def'
  rw [nth_eq]
  split
  · dec2
  · split
    · dec2
    · exact h _ _ ⟨MG_of_same s _ rfl rfl hg, Fr_of_same s _ rfl rfl, rfl⟩

theorem wp2_error {msg : String} {Q : Unit → P → Prop} (hg : MG s) (h : ∀ s', St0 s s' → Q () s') :
    wp A2 (error msg) Q s := by
  apply wp_def'
  rw [error_eq]
  split
  · dec2
  · exact h _ ⟨MG_of_push s _ _ rfl rfl hg, Fr_of_push s _ _ rfl rfl, rfl⟩

theorem wp2_eat {k : SyntaxKind} {Q : Bool → P → Prop} (hg : MG s) (h : ∀ b s', St0 s s' → Q b s') :
    wp A2 (eat k) Q s := by
  unfold eat
  split
  · exact wp_fail (by decide)
  · apply wp_bind; apply wp_at
    split
    · exact wp_pure (h _ _ ⟨hg, Fr.refl s, rfl⟩)
    · apply wp_bind
      apply wp_def'
      rw [doBump_eq]
      exact wp_pure (h _ _ ⟨MG_of_push s _ _ rfl rfl hg, Fr_of_push s _ _ rfl rfl, rfl⟩)

theorem wp2_bump {k : SyntaxKind} {Q : Unit → P → Prop} (hg : MG s) (h : ∀ s', St0 s s' → Q () s') :
    wp A2 (bump k) Q s := by
  unfold bump
  apply wp_bind
  apply wp2_eat hg
  intro b s' hs
  split
  · exact wp_panic (by decide)
  · exact wp_pure (h _ hs)

theorem wp2_bumpAny {Q : Unit → P → Prop} (hg : MG s) (h : ∀ s', St0 s s' → Q () s') :
    wp A2 bumpAny Q s := by
  apply wp_def'
  rw [bumpAny_eq]
  split
  · exact h _ ⟨hg, Fr.refl s, rfl⟩
  · exact h _ ⟨MG_of_push s _ _ rfl rfl hg, Fr_of_push s _ _ rfl rfl, rfl⟩

theorem St0.trans {s s' s'' : P} (h1 : St0 s s') (h2 : St0 s' s'') : St0 s s'' :=
  ⟨h2.1, Fr.trans h1.2.1 (h2.2.1.mono h1.2.1.1), by rw [h2.2.2, h1.2.2]⟩

theorem wp2_expect {k : SyntaxKind} {Q : Bool → P → Prop} (hg : MG s) (h : ∀ b s', St0 s s' → Q b s') :
    wp A2 (expect k) Q s := by
  unfold expect
  apply wp_bind
  apply wp2_eat hg
  intro b s1 hs1
  split
  · exact wp_pure (h _ _ hs1)
  · apply wp_bind
    apply wp2_error hs1.mg
    intro s2 hs2
    exact wp_pure (h _ _ (hs1.trans hs2))

/-- `Parser::start` -/
theorem wp2_start {Q : Marker → P → Prop} (hg : MG s)
    (h : ∀ m s', m.pos = s.events.size → MG s' → Fr s.events.size s s' → Live s' m →
      s'.live = s.live + 1 → Q m s') : wp A2 start Q s := by
  apply wp_def'
  rw [start_eq]
  split
  · dec2
  · refine h _ _ rfl (MG_of_push s _ _ rfl rfl hg) (Fr_of_push s _ _ rfl rfl) ?_ rfl
    refine ⟨?_, rfl, fun hc => ?_⟩
    · show (s.events.push Ev.tombstone)[s.events.size]? = _
      simp [Ev.tombstone]
    · exact Nat.lt_irrefl _ (hg _ hc)

theorem getElem?_set! (a : Array Ev) (i j : Nat) (x : Ev) :
    (a.set! i x)[j]? = if i = j then (if j < a.size then some x else none) else a[j]? := by
  simp only [Array.set!, Array.getElem?_setIfInBounds]
  split
  · split <;> simp_all
  · rfl

/-- `Marker::complete` -/
theorem wp2_complete {m : Marker} {kind : SyntaxKind} {Q : CompletedMarker → P → Prop} (hg : MG s)
    (ht : Tomb s m.pos) (hk : kind ≠ SyntaxKind.TOMBSTONE) (hl : 1 ≤ s.live)
    (h : ∀ cm s', cm.pos = m.pos → cm.kind = kind → MG s' → FrX m.pos s s' → Done s' cm →
      s'.live + 1 = s.live → Q cm s') : wp A2 (m.complete kind) Q s := by
  apply wp_def'
  rw [complete_eq]
  obtain ⟨fp, hev⟩ := ht
  have hev : s.events[m.pos]? = some (.start .TOMBSTONE fp) := hev
  rw [hev]
  simp only [bne_self_eq_false, Bool.false_eq_true, if_false]
  have hk' : (kind == SyntaxKind.TOMBSTONE) = false := by simpa using hk
  simp only [hk', Bool.false_eq_true, if_false]
  split
  · dec2
  · have hlt : m.pos < s.events.size := (Array.getElem?_eq_some_iff.mp hev).1
    refine h ⟨m.pos, kind⟩ _ rfl rfl ?_ ?_ ?_ ?_
    · -- MG
      intro p hp
      simp only [P.slotSet, List.mem_filter] at hp
      have := hg p hp.1
      simp [P.slotSet]; omega
    · -- FrX
      refine ⟨by simp [P.slotSet], fun p hp => ?_⟩
      have hgp : ((s.events.set! m.pos (Ev.start kind fp)).push Ev.finish)[p]? = s.events[p]? ∨
          s.events[p]? = none := by
        by_cases hps : p < s.events.size
        · left
          rw [Array.getElem?_push]
          have : p ≠ (s.events.set! m.pos (Ev.start kind fp)).size := by simp [Array.set!]; omega
          simp only [this, if_false]
          rw [getElem?_set!]
          have : ¬ m.pos = p := fun e => hp e.symm
          simp only [this, if_false]
        · right
          exact Array.getElem?_eq_none (by omega)
      have hpr : p ∈ (s.slotSet m.pos kind fp).protectedPos → p ∈ s.protectedPos := by
        intro t; simp only [P.slotSet, List.mem_filter] at t; exact t.1
      rcases hgp with hgp | hgp
      · exact Keep_of_eq hgp hpr
      · refine ⟨fun t => ?_, fun t => ?_, fun t => ?_, hpr⟩
        · unfold TombN isTombN at t; rw [hgp] at t; cases t
        · unfold Tomb at t; rw [hgp] at t; obtain ⟨_, t⟩ := t; cases t
        · unfold DoneAt at t; rw [hgp] at t; obtain ⟨_, _, t, _⟩ := t; cases t
    · -- Done
      refine ⟨kind, fp, ?_, hk⟩
      show ((s.events.set! m.pos (Ev.start kind fp)).push Ev.finish)[m.pos]? = _
      rw [Array.getElem?_push]
      have : m.pos ≠ (s.events.set! m.pos (Ev.start kind fp)).size := by simp [Array.set!]; omega
      simp only [this, if_false]
      rw [getElem?_set!]
      simp [hlt]
    · show s.live - 1 + 1 = s.live
      omega

/-- `Marker::abandon` -/
theorem wp2_abandon {m : Marker} {Q : Unit → P → Prop} (hg : MG s) (hlv : Live s m) (hl : 1 ≤ s.live)
    (h : ∀ s', MG s' → Fr m.pos s s' → s'.live + 1 = s.live → Q () s') : wp A2 m.abandon Q s := by
  apply wp_def'
  rw [abandon_eq]
  obtain ⟨hev, hfp, hnp⟩ := hlv
  have hev : s.events[m.pos]? = some (.start .TOMBSTONE none) := hev
  have hlt : m.pos < s.events.size := (Array.getElem?_eq_some_iff.mp hev).1
  have h1 : (m.isFp || s.protectedPos.contains m.pos) = false := by
    simp [hfp, hnp]
  have h2 : (s.events.size == 0) = false := by rw [beq_eq_false_iff_ne]; omega
  simp only [h1, h2, Bool.false_eq_true, if_false]
  split
  · rename_i hlast
    have hlast' : m.pos = s.events.size - 1 := by simpa using hlast
    have hb : s.events.back? = some (.start .TOMBSTONE none) := by
      rw [Array.back?_eq_getElem?, ← hlast']; exact hev
    rw [hb]
    simp only [beq_self_eq_true, Bool.true_and, Option.isNone_none, if_true]
    refine h _ ?_ ?_ ?_
    · intro p hp
      have := hg p hp
      have hne : p ≠ m.pos := fun e => hnp (e ▸ hp)
      show p < s.events.pop.size
      simp; omega
    · refine ⟨by show m.pos ≤ s.events.pop.size; simp; omega, fun p hp => Keep_of_eq ?_ id⟩
      show s.events.pop[p]? = s.events[p]?
      rw [Array.getElem?_pop]; simp; omega
    · show s.live - 1 + 1 = s.live; omega
  · refine h _ (MG_of_same s _ rfl rfl hg) ((Fr_of_same s _ rfl rfl).mono (Nat.le_of_lt hlt)) ?_
    show s.live - 1 + 1 = s.live; omega

/-- `CompletedMarker::precede` -/
theorem wp2_precede {cm : CompletedMarker} {Q : Marker → P → Prop} (hg : MG s) (hd : Done s cm)
    (h : ∀ m s', m.pos = s.events.size → MG s' → Fr s.events.size s s' → Tomb s' m.pos →
      s'.live = s.live + 1 → Q m s') : wp A2 cm.precede Q s := by
  apply wp_def'
  rw [precede_eq]
  split
  · dec2
  · obtain ⟨k, fp, hev, hk⟩ := hd
    have hev : s.events[cm.pos]? = some (.start k fp) := hev
    have hlt : cm.pos < s.events.size := (Array.getElem?_eq_some_iff.mp hev).1
    have hst : s.started.events[cm.pos]? = some (.start k fp) := by
      show (s.events.push Ev.tombstone)[cm.pos]? = _
      rw [Array.getElem?_push]; simp [Nat.ne_of_lt hlt, hev]
    rw [hst]
    have h2 : ¬ s.events.size < cm.pos := by omega
    simp only [h2, if_false]
    have hget : ∀ p, ((s.events.push Ev.tombstone).set! cm.pos (Ev.start k (some (s.events.size - cm.pos))))[p]? =
        if cm.pos = p then some (Ev.start k (some (s.events.size - cm.pos)))
        else if p = s.events.size then some Ev.tombstone else s.events[p]? := by
      intro p
      rw [getElem?_set!]
      by_cases hc : cm.pos = p
      · simp only [hc, if_true]; subst hc; simp; omega
      · simp only [hc, if_false]; rw [Array.getElem?_push]
    refine h ⟨s.events.size, true⟩ _ rfl ?_ ?_ ?_ rfl
    · intro p hp
      show p < ((s.events.push Ev.tombstone).set! cm.pos _).size
      simp only [P.started, List.mem_cons] at hp
      have : p < s.events.size + 1 := by
        rcases hp with hp | hp
        · omega
        · have := hg p hp; omega
      simpa [Array.set!] using this
    · refine ⟨by show s.events.size ≤ ((s.events.push Ev.tombstone).set! cm.pos _).size; simp [Array.set!], fun p hp => ?_⟩
      have hpr : p ∈ (s.events.size :: s.protectedPos) → p ∈ s.protectedPos := by
        intro t; simp only [List.mem_cons] at t
        rcases t with t | t
        · omega
        · exact t
      by_cases hc : cm.pos = p
      · subst hc
        have hnew := hget cm.pos
        simp only [if_true] at hnew
        refine ⟨fun t => ?_, fun t => ?_, fun _ => ⟨k, _, hnew, hk⟩, hpr⟩
        · unfold TombN isTombN at t; rw [hev] at t
          simp only [Option.some.injEq, Ev.start.injEq] at t; exact absurd t.1 hk
        · unfold Tomb at t; obtain ⟨fp', t⟩ := t; rw [hev] at t
          simp only [Option.some.injEq, Ev.start.injEq] at t; exact absurd t.1 hk
      · have hnew := hget p
        simp only [hc, if_false, Nat.ne_of_lt hp] at hnew
        exact Keep_of_eq hnew hpr
    · refine ⟨none, ?_⟩
      have hnew := hget s.events.size
      have : ¬ cm.pos = s.events.size := by omega
      simp only [this, if_false, if_true] at hnew
      exact hnew

/-- `CompletedMarker::extend_to` -/
theorem wp2_extendTo {cm : CompletedMarker} {m : Marker} {Q : CompletedMarker → P → Prop} (hg : MG s)
    (hd : Done s cm) (ht : Tomb s m.pos) (hle : m.pos ≤ cm.pos) (hl : 1 ≤ s.live)
    (h : ∀ s', MG s' → FrX m.pos s s' → Done s' cm → s'.live + 1 = s.live → Q cm s') :
    wp A2 (cm.extendTo m) Q s := by
  apply wp_def'
  rw [extendTo_eq]
  obtain ⟨fpm, hm⟩ := ht
  have hm : s.events[m.pos]? = some (.start .TOMBSTONE fpm) := hm
  obtain ⟨k, fp, hc, hk⟩ := hd
  have hc : s.events[cm.pos]? = some (.start k fp) := hc
  rw [hm]
  have h1 : ¬ cm.pos < m.pos := by omega
  simp only [h1, if_false]
  rw [hc]
  have hk' : (k == SyntaxKind.TOMBSTONE) = false := by simpa using hk
  simp only [hk', Bool.false_eq_true, if_false]
  have hne : m.pos ≠ cm.pos := by
    intro e; rw [e, hc] at hm
    simp only [Option.some.injEq, Ev.start.injEq] at hm; exact hk hm.1
  refine h _ ?_ ?_ ?_ ?_
  · intro p hp
    have := hg p hp
    show p < (s.events.set! m.pos _).size
    simpa [Array.set!] using this
  · refine ⟨by show s.events.size ≤ (s.events.set! m.pos _).size; simp [Array.set!], fun p hp => Keep_of_eq ?_ id⟩
    show (s.events.set! m.pos _)[p]? = _
    rw [getElem?_set!]
    have : ¬ m.pos = p := fun e => hp e.symm
    simp only [this, if_false]
  · refine ⟨k, fp, ?_, hk⟩
    show (s.events.set! m.pos _)[cm.pos]? = _
    rw [getElem?_set!]
    simp only [hne, if_false]; exact hc
  · show s.live - 1 + 1 = s.live; omega

theorem FrX.keep_other {q : Nat} {s s' : P} (h : FrX q s s') {p : Nat} (hp : p ≠ q) : Keep s s' p := h.2 p hp

theorem Fr.trans_le {n n' : Nat} {s s' s'' : P} (h1 : Fr n s s') (h2 : Fr n' s' s'') (hn : n ≤ n') :
    Fr n s s'' := h1.trans (h2.mono hn)

theorem Fr.trans_ge {n n' : Nat} {s s' s'' : P} (h1 : Fr n s s') (h2 : Fr n' s' s'') (hn : n' ≤ n) :
    Fr n' s s'' := (h1.mono hn).trans h2

/-- `Parser::err_recover` -/
theorem wp2_errRecover {msg : String} {rec : TokenSet} {Q : Unit → P → Prop} (hg : MG s)
    (h : ∀ s', St0 s s' → Q () s') : wp A2 (errRecover msg rec) Q s := by
  unfold errRecover
  apply wp_bind; apply wp_current
  split
  · apply wp_bind; apply wp2_error hg; intro s1 h1; exact wp_pure (h _ h1)
  · apply wp_bind; apply wp_atTs
    split
    · apply wp_bind; apply wp2_error hg; intro s1 h1; exact wp_pure (h _ h1)
    · apply wp_bind; apply wp2_start hg; intro m s1 hm g1 f1 l1 lv1
      apply wp_bind; apply wp2_error g1; intro s2 h2
      apply wp_bind; apply wp2_bumpAny h2.mg; intro s3 h3
      have hlive3 : Live s3 m := h3.fr.live (h2.fr.live l1.lt l1).lt (h2.fr.live l1.lt l1)
      apply wp_bind
      apply wp2_complete h3.mg hlive3.tomb (by decide) (by rw [h3.live_eq, h2.live_eq, lv1]; omega)
      intro cm s4 _ _ g4 f4 _ lv4
      apply wp_pure
      apply h
      refine ⟨g4, ?_, by rw [h3.live_eq, h2.live_eq, lv1] at lv4; omega⟩
      have hm3 : m.pos ≤ s3.events.size := Nat.le_of_lt hlive3.lt
      have f03 : Fr s.events.size s s3 :=
        f1.trans_le (h2.fr.trans_le h3.fr h2.fr.size) f1.size
      exact f03.trans_le (f4.fr hm3) (by omega)

theorem wp2_errAndBump {msg : String} {Q : Unit → P → Prop} (hg : MG s) (h : ∀ s', St0 s s' → Q () s') :
    wp A2 (errAndBump msg) Q s := wp2_errRecover hg h

end

/-! ### optional marker arguments (`expr_bp`, `expr_stmt`, `box_expr`) -/

def obound (m : Option Marker) (s : P) : Nat :=
  match m with
  | some m0 => m0.pos
  | none => s.events.size

def ocount (m : Option Marker) : Nat :=
  match m with
  | some _ => 1
  | none => 0

def OLive (s : P) (m : Option Marker) : Prop := ∀ m0, m = some m0 → Live s m0 ∧ 1 ≤ s.live

end Oq3.Parser

namespace Oq3.Grammar
open Oq3.Gen Oq3.Parser

theorem wp2_currentOp {s : P} {Q : Nat × SyntaxKind × Ops.Assoc → P → Prop} (h : ∀ r, Q r s) :
    wp A2 currentOp Q s := wp_currentOp (fun r _ => h r)

theorem wp2_typeName {s : P} {Q : Unit → P → Prop} (hg : MG s) (h : ∀ s', St0 s s' → Q () s') :
    wp A2 typeName Q s := by
  unfold typeName
  apply wp_bind; apply wp_current
  split
  · apply wp_bind; apply wp2_error hg; intro s1 h1; exact wp_pure (h _ h1)
  · apply wp_bind; apply wp_current
    apply wp2_bump hg; exact h

theorem DefFlavor.listKind_ne_tomb (f : DefFlavor) : f.listKind ≠ SyntaxKind.TOMBSTONE := by
  cases f <;> decide

/-! ### the proof-search tactic of the generated file -/

syntax "mk_lemma" : tactic
macro_rules | `(tactic| mk_lemma) => `(tactic| fail "no lemma")
syntax "mk_ih" : tactic
macro_rules | `(tactic| mk_ih) => `(tactic| fail "no ih")

open Lean Elab Tactic Meta in
/-- split every hypothesis that is a conjunction (repeatedly) -/
elab "split_ands" : tactic => do
  let rec loop (fuel : Nat) : TacticM Unit := do
    if fuel = 0 then return
    let g ← getMainGoal
    let found ← g.withContext do
      for d in (← getLCtx) do
        if d.isImplementationDetail then continue
        let t ← whnfR (← instantiateMVars d.type)
        if t.isAppOfArity ``And 2 then return some d.fvarId
      return none
    match found with
    | none => return
    | some fv =>
      let gs ← g.cases fv
      replaceMainGoal (gs.toList.map (·.mvarId))
      loop (fuel - 1)
  loop 64

/-- the accumulated frame of a chain (a separate type, so that hypothesis search does not
confuse it with the frame facts of the single steps) -/
structure Acc (n : Nat) (a b : P) : Prop where
  fr : Fr n a b

theorem Acc.size {n : Nat} {a b : P} (h : Acc n a b) : n ≤ b.events.size := h.fr.size
theorem Acc.snoc_st0 {n : Nat} {a b c : P} (h : Acc n a b) (h2 : St0 b c) : Acc n a c :=
  ⟨h.fr.trans_le h2.fr h.fr.size⟩
theorem Acc.snoc_fr {n k : Nat} {a b c : P} (h : Acc n a b) (h2 : Fr k b c) (hk : n ≤ k) : Acc n a c :=
  ⟨h.fr.trans_le h2 hk⟩
theorem Acc.snoc_frx {n q : Nat} {a b c : P} (h : Acc n a b) (h2 : FrX q b c) (hk : n ≤ q)
    (hq : q ≤ b.events.size) : Acc n a c := ⟨h.fr.trans_le (h2.fr hq) hk⟩
theorem Acc.start {n : Nat} {a c : P} (hn : n ≤ a.events.size) (h : Acc n a a → Acc n a c) : Fr n a c :=
  (h ⟨(Fr.refl a).mono hn⟩).fr

set_option hygiene false in
/-- arithmetic side conditions of the frame chain -/
macro "mk_arith" : tactic => `(tactic| first
  | omega
  | (simp only [obound, ocount] at *; omega)
  | ((try clear ih); grind [→ Live.lt, → Done.lt, → Tomb.lt, → Fr.size, → FrX.size, → St0.fr, → Acc.size, → Fr.live, → FrX.live,
      obound, ocount, OLive]))

syntax "fr_fwd" : tactic
set_option hygiene false in
macro_rules | `(tactic| fr_fwd) => `(tactic| first
  | exact hacc
  | (have hacc := Acc.snoc_st0 hacc ‹St0 _ _›; have hsz := hacc.size; fr_fwd)
  | (have hacc := Acc.snoc_fr hacc ‹Fr _ _ _› (by mk_arith); have hsz := hacc.size; fr_fwd)
  | (have hacc := Acc.snoc_frx hacc ‹FrX _ _ _› (by mk_arith) (by mk_arith); have hsz := hacc.size; fr_fwd))

set_option hygiene false in
/-- goal `Fr n a c`: compose the frame facts of the steps from `a` to `c` in order -/
macro "fr_chain" : tactic => `(tactic| (
  refine Acc.start (by mk_arith) (fun hacc => ?_)
  have hsz := hacc.size
  fr_fwd))

set_option hygiene false in
/-- close a side goal (marker liveness, frame, `live` accounting) from the collected facts -/
macro "mk_close" : tactic => `(tactic| first
  | exact trivial
  | assumption
  | decide
  | exact DefFlavor.listKind_ne_tomb _
  | (split_ands; first
      | assumption
      | omega
      | fr_chain
      | ((try clear ih); grind [→ Fr.live, → Fr.tomb, → Fr.done, → Fr.size, Fr.refl, → FrX.fr,
          → FrX.live, → FrX.done, → FrX.tomb, → FrX.size, → Live.lt, → Live.tomb, → Done.lt, → Tomb.lt,
          → St0.mg, → St0.fr, → St0.live_eq, obound, ocount, OLive])))

macro "mk_step" : tactic => `(tactic| first
  | with_reducible intro _
  | wp_rule [Pure.pure wp_pure, Bind.bind wp_bind, ite wp_ite, andM wp_andM, orM wp_orM, notM wp_notM,
      Functor.map wp_map, at' wp2_at, current wp2_current, atTs wp2_atTs, nth wp2_nth, start wp2_start,
      error wp2_error, Marker.complete wp2_complete, Marker.abandon wp2_abandon,
      CompletedMarker.precede wp2_precede, CompletedMarker.extendTo wp2_extendTo, eat wp2_eat,
      bump wp2_bump, bumpAny wp2_bumpAny, expect wp2_expect, errRecover wp2_errRecover,
      errAndBump wp2_errAndBump, typeName wp2_typeName, currentOp wp2_currentOp]
  | (with_reducible apply wp_fail; decide)
  | (with_reducible apply wp_panic; decide)
  | wp_call mark
  | split
  | with_reducible apply And.intro
  | dsimp only
  | mk_close)

macro "mk" : tactic => `(tactic| repeat' mk_step)

end Oq3.Grammar
