/-
C11 (gates) — lemmas about the concrete string entry point (`Lemmas/C11StagesDefs.lean`):
what `parseChecked` hands to the include layer, the gate of `analyzeTextInc` for any file system,
and the include scan on a machine without files (`noFS`).
-/
import Oq3.Lemmas.C11StagesParse
import Oq3.Lemmas.C11StagesSema
import Oq3.Props.C18Entry

namespace Oq3.Stages
open Oq3.Gen Oq3.Lexer Oq3.Lexed Oq3.Builder Oq3.Acc Oq3.Includes
open Oq3.Lemmas.Lexed

/-! ### what the include layer gets -/

/-- a `Parsed` as `parse_check_lex` can produce it: the diagnostic count of a source without a
clean tree is not zero -/
def Counted : Parsed → Prop
  | .lexErrors n => n ≠ 0
  | .syntaxErrors n _ => n ≠ 0
  | .clean _ => True

theorem parseChecked_lex_error (uc : UC) (fuel npl : Nat) (s : List Char)
    (h : (lexedOf uc s).error ≠ []) :
    parseChecked uc fuel npl s = .ok (.lexErrors (lexedOf uc s).error.length) := by
  unfold parseChecked
  rw [checkLexParse_lex_error uc fuel npl s h]
  simp only [parsedOfChecked, lexErrorsOf_length]

theorem parseChecked_clean (uc : UC) (fuel npl : Nat) (s : List Char)
    (h : (lexedOf uc s).error = []) :
    parseChecked uc fuel npl s =
      match parserDiagnostics uc fuel npl s with
      | .error f => .error f
      | .ok (t, d) => parsedOfChecked (some t, d) := by
  unfold parseChecked
  rw [checkLexParse_clean uc fuel npl s h]
  cases parserDiagnostics uc fuel npl s with
  | error f => rfl
  | ok r => obtain ⟨t, d⟩ := r; rfl

theorem parsedOfChecked_tree_counted (t : Tree) (d : List SyntaxError) (p : Parsed)
    (h : parsedOfChecked (some t, d) = .ok p) :
    (d ≠ [] → ∃ incs, includesOfTree (cnodeOf t) = .ok incs ∧ p = .syntaxErrors d.length incs ∧ d.length ≠ 0) ∧
    (d = [] → ∃ ast, Build.program (cnodeOf t) = .ok ast ∧ p = .clean ast) := by
  unfold parsedOfChecked at h
  cases d with
  | nil =>
    refine ⟨fun h' => absurd rfl h', fun _ => ?_⟩
    simp only [List.length_nil, bne_self_eq_false, Bool.false_eq_true, if_false] at h
    cases hb : Build.program (cnodeOf t) with
    | error e => rw [hb] at h; cases h
    | ok ast => rw [hb] at h; simp only [Except.ok.injEq] at h; exact ⟨ast, rfl, h.symm⟩
  | cons x xs =>
    refine ⟨fun _ => ?_, fun h' => by cases h'⟩
    have : ((x :: xs).length != 0) = true := by simp
    simp only [this, if_true] at h
    cases hb : includesOfTree (cnodeOf t) with
    | error e => rw [hb] at h; cases h
    | ok incs =>
      rw [hb] at h; simp only [Except.ok.injEq] at h
      exact ⟨incs, rfl, h.symm, by simp⟩

/-- **the counts handed to the include layer are never zero without a clean tree** -/
theorem parseChecked_counted (uc : UC) (fuel npl : Nat) (s : List Char) (p : Parsed)
    (h : parseChecked uc fuel npl s = .ok p) : Counted p := by
  by_cases he : (lexedOf uc s).error = []
  · rw [parseChecked_clean uc fuel npl s he] at h
    cases hd : parserDiagnostics uc fuel npl s with
    | error f => rw [hd] at h; cases h
    | ok r =>
      obtain ⟨t, d⟩ := r
      rw [hd] at h
      simp only at h
      obtain ⟨h1, h2⟩ := parsedOfChecked_tree_counted t d p h
      by_cases hdn : d = []
      · obtain ⟨ast, -, rfl⟩ := h2 hdn; trivial
      · obtain ⟨incs, -, rfl, hn⟩ := h1 hdn; exact hn
  · rw [parseChecked_lex_error uc fuel npl s he] at h
    simp only [Except.ok.injEq] at h
    subst h
    show (lexedOf uc s).error.length ≠ 0
    intro h0
    exact he (List.eq_nil_of_length_eq_zero h0)

/-! ### the gate, for any file system -/

theorem haveSyntaxErrors_main (p : Parsed) (hp : Counted p) (incs : List PSrc) :
    haveSyntaxErrors (.mk "" (some p) none incs) =
      ((match p with | .clean _ => false | _ => true) || anyHaveSyntaxErrors incs) := by
  unfold haveSyntaxErrors
  cases p with
  | lexErrors n => have : n ≠ 0 := hp; simp [this]
  | syntaxErrors n i => have : n ≠ 0 := hp; simp [this]
  | clean ast => simp

/-- `analyze_source` skips exactly when `have_syntax_errors()` is true, given counted input -/
theorem analyzeSource_none_iff (afuel : Nat) (p : Parsed) (hp : Counted p) (incs : List PSrc) :
    analyzeSource afuel p incs = .ok none ↔ haveSyntaxErrors (.mk "" (some p) none incs) = true := by
  constructor
  · intro h
    by_cases hg : haveSyntaxErrors (.mk "" (some p) none incs) = true
    · exact hg
    · exfalso
      have hg' : haveSyntaxErrors (.mk "" (some p) none incs) = false := by simpa using hg
      rw [haveSyntaxErrors_main p hp] at hg'
      cases p with
      | lexErrors n => simp at hg'
      | syntaxErrors n i => simp at hg'
      | clean ast =>
        unfold analyzeSource at h
        rw [haveSyntaxErrors_main _ hp, hg'] at h
        simp only [Bool.false_eq_true, if_false] at h
        split at h <;> cases h
  · exact Oq3.Props.C18.analysis_skipped_iff afuel p incs

theorem analyzeSource_run (afuel : Nat) (p : Parsed) (hp : Counted p) (incs : List PSrc)
    (hg : haveSyntaxErrors (.mk "" (some p) none incs) = false) :
    ∃ ast, p = .clean ast ∧ analyzeSource afuel p incs =
      match (syntaxToSemanticInc afuel ast.statements incs).run {} with
      | .ok (trees, c) => .ok (some (c, trees))
      | .error e => .error e := by
  have hg' := hg
  rw [haveSyntaxErrors_main p hp] at hg'
  cases p with
  | lexErrors n => simp at hg'
  | syntaxErrors n i => simp at hg'
  | clean ast =>
    refine ⟨ast, rfl, ?_⟩
    unfold analyzeSource
    rw [hg]
    simp only [Bool.false_eq_true, if_false]
    rfl

/-! ### the include scan on a machine without files -/

theorem resolve_noFS (file : String) : resolveFilePath noFS file none none = file := by
  unfold resolveFilePath; split <;> rfl

/-- on `noFS` the scan returns (one unit of fuel per include statement is enough), and none of the
sources it returns has a syntax diagnostic (each records "file not found") -/
theorem parseIncludedFiles_noFS (parse : String → Parsed) : ∀ (fuel : Nat) (incs : List (Option (Option String))),
    incs.length < fuel → ∃ res, parseIncludedFiles noFS parse none none fuel incs = .ok res ∧
      anyHaveSyntaxErrors res = false ∧ res.length = Oq3.Props.C18.nonStd incs := by
  intro fuel
  induction fuel with
  | zero => intro incs h; omega
  | succ k ih =>
    intro incs h
    cases incs with
    | nil => exact ⟨[], by simp [parseIncludedFiles], rfl, rfl⟩
    | cons x rest =>
      have hk : rest.length < k := by simp at h; omega
      obtain ⟨res, hr, hs, hl⟩ := ih rest hk
      cases x with
      | none => exact ⟨res, by simp only [parseIncludedFiles]; exact hr, hs, by simpa [Oq3.Props.C18.nonStd] using hl⟩
      | some y =>
        cases y with
        | none => exact ⟨res, by simp only [parseIncludedFiles]; exact hr, hs, by simpa [Oq3.Props.C18.nonStd] using hl⟩
        | some fp =>
          by_cases hstd : (fp == "stdgates.inc") = true
          · refine ⟨res, by simp only [parseIncludedFiles, hstd, if_true]; exact hr, hs, ?_⟩
            have : fp = "stdgates.inc" := by simpa using hstd
            subst this
            simpa [Oq3.Props.C18.nonStd] using hl
          · have hstd' : (fp == "stdgates.inc") = false := by simpa using hstd
            refine ⟨.mk (resolveFilePath noFS fp none none) none (some .notFound) [] :: res, ?_, ?_, ?_⟩
            · have hr' := hr
              unfold noFS at hr'
              simp only [parseIncludedFiles, hstd', Bool.false_eq_true, if_false, noFS, hr']
            · simp [anyHaveSyntaxErrors, haveSyntaxErrors, hs]
            · have hne : (fp != "stdgates.inc") = true := by simp [bne, hstd']
              simp only [Oq3.Props.C18.nonStd, List.filter_cons, hne, if_true, List.length_cons] at hl ⊢
              omega

end Oq3.Stages
