/-
C04, extended reference language, part 7: the pieces of statements (type specifications, qubit
operands, gate modifiers) and the flat statements of `Stmt2`, each as an acceptance of `stmt` from an
arbitrary ready state, relative to the expression rule `exprX_ok`.
-/
import Oq3.Lemmas.LangEv2Expr
import Oq3.Lemmas.LangEv2S
set_option linter.unusedSimpArgs false
set_option linter.unusedVariables false

namespace Oq3.LangEv2
open Oq3.Gen Oq3.Parser Oq3.Grammar Oq3.SymExec Oq3.PrattEv Oq3.LangEv
open Oq3.Gen.Ops (Assoc)

/-- closes `ok (a, s.ov E' n' …) = ok (a, s.ov E n …)` for the statement encodings -/
macro "close_ov3" : tactic => `(tactic| (
  first
    | rfl
    | (refine ok_ov_congr _ _ _ _ _ _ _ _ _ _ _ ?_ ?_ ?_
       · first | rfl | omega | (simp only [List.length_cons, List.length_nil]; omega)
       · (try simp only [evsS2, evsB, evsC, evsL2, evsQ, evsQs, evsMod, evsMods, parenEvs, tyEvsX, desigEvs, argListEvs, qlistEvs,
            wrapStmt, iterEvs, tyListEvs, nameEvs, gateCallInner, lhsP,
            evsX, evsXs, evsItem, evsItems, evsIdx, bodyP, bodyX, tyEvs, blockEvs, exprStmtTail, tombLink,
            Ty.kind, PTy.kind, qubitEvs, paramEvs, typedEvs, retEvs,
            List.cons_append, List.nil_append, List.append_assoc]); (try rfl)
       · (try simp only [toksS2, toksB, toksC, toksL2, toksQ, toksQs, toksMod, toksMods, parenToks, tyToksX, desigToks, argListToks,
            iterToks, tyListToks, lhsP,
            toksX, toksP, toksXs, toksItem, toksItems, toksIdx, tyToks, qubitToks, typedToks, retToks, tk,
            List.length_cons, List.length_nil, List.length_append]); (first | done | omega))))

set_option hygiene false in
macro "run_base3" "[" hs:Lean.Parser.Tactic.simpLemma,* "]" : tactic => `(tactic| (
  have hnp := hr.hook
  have hsteps := hr.steps
  have hlim := hr.lim
  have hst : s.steps ≤ s.stepLimit := by omega
  have hst1 : s.steps + 1 ≤ s.stepLimit := by omega
  have hpr := hr.prot
  refine ⟨?_, ?_, ?_, of_ov _ _ _ ?_⟩
  rotate_left 3
  · sym_eval [filter_base s hpr, contains_base s hpr, $hs,*]
    all_goals close_ov3
  · first | exact Nat.zero_le _ | omega))

/-! ### type specifications -/

theorem tyToksX_head (ty : Ty) (w : Option X) : ∃ ts, tyToksX ty w = tk ty.kind :: ts := by
  cases w <;> exact ⟨_, rfl⟩

theorem tyEvsX_length (ty : Ty) (w : Option X) : 3 ≤ (tyEvsX ty w).length := by
  cases w <;> simp [tyEvsX]

/-- the conditions on a designator: canonical at level 1, not starting with a float / bit-string literal -/
def WidthOK (w : Option X) : Prop :=
  ∀ e, w = some e → CanonX 1 e ∧ firstX e ≠ .FLOAT_NUMBER ∧ firstX e ≠ .BIT_STRING

def optFuel : Option X → Nat
  | none => 0
  | some e => fuelX e

/-- `ty` or `ty[w]` -/
theorem typeSpecX_acc (ty : Ty) (w : Option X) (F : Nat) (s : P) (hr : RdyL 2 s) (hF : optFuel w + 4 ≤ F)
    (hwide : w.isSome = true → ty.wide = true) (htk : Toks s s.pos (tyToksX ty w))
    (hnext : w = none → s.kindAt (s.pos + 1) ≠ .L_BRACK) (hc : WidthOK w) :
    AccV (typeSpec F) true s (tyToksX ty w).length (tyEvsX ty w) := by
  cases w with
  | none =>
    obtain ⟨f, rfl⟩ : ∃ f, F = f + 3 := ⟨F - 3, by omega⟩
    simp only [tyToksX, Toks, tk] at htk
    exact typeSpec_plain ty f s hr.old (by rw [Nat.add_zero]; exact htk.1) (hnext rfl)
  | some e =>
    obtain ⟨hc1, hc2, hc3⟩ := hc e rfl
    simp only [tyToksX, Toks, Toks_append, tk, List.length_cons, List.length_append, List.length_nil] at htk ⊢
    obtain ⟨h0, -, h1, -, htw, hrb, -, -⟩ := htk
    refine ⟨0, 3, Nat.zero_le _, ?_⟩
    rw [typeSpec_wideX ty e (fuelX e) (exprX_ok e) F s hr (by simp only [optFuel] at hF; omega) (hwide rfl)
      (by rw [Nat.add_zero]; exact h0) h1 (Toks_pos htw (by omega)) (kindAt_pos hrb (by omega)) hc1 hc2 hc3]
    simp only [tyEvsX]

/-! ### qubit operands -/

def CanonQ : Q → Prop
  | .idx ixs => CanonIdx ixs ∧ IdxFirstOK ixs
  | _ => True

def needQ : Q → Nat
  | .idx ixs => sumIdx ixs + needIdxL ixs + 3
  | _ => 1

def sbQ : Q → Nat
  | .idx _ => 3
  | _ => 2

/-- one qubit operand: `arg_gate_call_qubit` with the marker the caller has just started -/
theorem qarg_acc (q : Q) (F : Nat) (s : P) (hnp : s.noProgressLimit = 0) (hlim : 16 ≤ s.stepLimit)
    (hpr : ∀ p ∈ s.protectedPos, p < s.events.size) (hF : needQ q ≤ F)
    (htk : Toks s s.pos (toksQ q)) (hend : s.kindAt (s.pos + (toksQ q).length) ≠ .L_BRACK) (hc : CanonQ q)
    (st sb lv : Nat) (hst : st + 6 ≤ s.stepLimit) :
    argGateCallQubit F { pos := s.events.size + 0, isFp := false } (s.ov [.start .TOMBSTONE none] 0 st sb (lv + 1) s.protectedPos) =
      .ok (true, s.ov (evsQ q) (toksQ q).length 0 (sbQ q) lv s.protectedPos) := by
  cases q with
  | id =>
    obtain ⟨f, rfl⟩ : ∃ f, F = f + 1 := ⟨F - 1, by simp only [needQ] at hF; omega⟩
    simp only [toksQ, Toks, tk, List.length_cons, List.length_nil] at htk hend
    have h0 : s.kindAt (s.pos + 0) = .IDENT := htk.1
    have b1 := beq_false_of_ne hend
    show _ = _
    sym_eval [filter_base s hpr, contains_base s hpr, h0, b1]
    rfl
  | hw =>
    obtain ⟨f, rfl⟩ : ∃ f, F = f + 1 := ⟨F - 1, by simp only [needQ] at hF; omega⟩
    simp only [toksQ, Toks, tk, List.length_cons, List.length_nil] at htk hend
    have h0 : s.kindAt (s.pos + 0) = .HARDWAREIDENT := htk.1
    show _ = _
    sym_eval [filter_base s hpr, contains_base s hpr, h0]
    rfl
  | idx ixs =>
    obtain ⟨f, rfl⟩ : ∃ f, F = f + 3 := ⟨F - 3, by simp only [needQ] at hF; omega⟩
    simp only [needQ] at hF
    simp only [CanonQ] at hc
    simp only [toksQ, Toks, tk, List.length_cons] at htk hend
    obtain ⟨h0, -, hti⟩ := htk
    rw [show s.pos = s.pos + 0 from rfl] at h0
    obtain ⟨ts, hts⟩ := toksIdx_head ixs
    have h1 : s.kindAt (s.pos + 1) = .L_BRACK := by rw [hts] at hti; exact hti.1
    have hpr' : ∀ n, ∀ p ∈ s.protectedPos, p < s.events.size + n := fun n p hp => Nat.lt_add_right n (hpr p hp)
    have hloop := idxLoop ixs (sumIdx ixs) (f + 1)
      (s.ov [Ev.start SyntaxKind.IDENTIFIER (some 3), Ev.token SyntaxKind.IDENT 1, Ev.finish,
          Ev.start SyntaxKind.TOMBSTONE none] 1 0 3 (lv + 1) ((s.events.size + 3) :: s.protectedPos)) (idxOK ixs) (by omega)
      (RdyL_ov 6 s _ _ _ _ _ _ hnp (by omega) (by
        intro q hq
        simp only [List.length_cons, List.length_nil]
        rcases List.mem_cons.1 hq with h | h
        · omega
        · have := hpr q h; omega) hlim)
      ((Toks_ov s _ _ _ _ _ _ _ _).2 hti) (by intro h; exact hend (kindAt_pos h (by show _ = s.pos + 1 + _; omega))) hc.1 hc.2
    rw [ov_ov] at hloop
    simp only [List.cons_append, List.nil_append, ov_live, ov_prot] at hloop
    show _ = _
    sym_eval [filter_base s hpr, contains_base s hpr, h0, h1, hloop]
    close_ov3

def countQs : QList → Nat
  | .one _ => 0
  | .cons _ qs => countQs qs + 1

def needQs : QList → Nat
  | .one q => needQ q + 2
  | .cons q qs => max (needQ q + 2) (needQs qs + 1)

def CanonQs : QList → Prop
  | .one q => CanonQ q
  | .cons q qs => CanonQ q ∧ CanonQs qs

/-- the first token of a qubit operand -/
def firstQ : Q → SyntaxKind
  | .hw => .HARDWAREIDENT
  | _ => .IDENT

theorem toksQ_first (q : Q) : ∃ ts, toksQ q = tk (firstQ q) :: ts := by cases q <;> exact ⟨_, rfl⟩

theorem firstQ_cases (q : Q) : firstQ q = .IDENT ∨ firstQ q = .HARDWAREIDENT := by cases q <;> simp [firstQ]

/-- the item loop of `_param_list_openqasm` on the qubit operands of a gate call -/
theorem qloop_acc : ∀ (qs : QList) (F k : Nat) (s : P), needQs qs ≤ F → RdyL 6 s → Toks s s.pos (toksQs qs) →
    s.kindAt (s.pos + (toksQs qs).length) = .SEMICOLON → CanonQs qs →
    AccV (paramListOpenqasmLoop F .gateCallQubits k) (k + countQs qs + 1) s (toksQs qs).length (evsQs qs)
  | .one q, F, k, s, hF, hr, htk, hsemi, hc => by
    obtain ⟨g, rfl⟩ : ∃ g, F = g + 2 := ⟨F - 2, by simp only [needQs] at hF; omega⟩
    simp only [needQs] at hF
    simp only [toksQs] at htk hsemi
    have harg := qarg_acc q g s hr.hook hr.lim hr.prot (by omega) htk (by rw [hsemi]; decide) hc
    obtain ⟨ts, hts⟩ := toksQ_first q
    have h0 : s.kindAt (s.pos + 0) = firstQ q := by rw [hts] at htk; exact htk.1
    rcases firstQ_cases q with hq | hq <;> rw [hq] at h0 <;> run_base3 [h0, harg, hsemi]
  | .cons q qs, F, k, s, hF, hr, htk, hsemi, hc => by
    obtain ⟨g, rfl⟩ : ∃ g, F = g + 2 := ⟨F - 2, by simp only [needQs] at hF; omega⟩
    simp only [needQs] at hF
    rw [show toksQs (.cons q qs) = toksQ q ++ (tk .COMMA :: toksQs qs) from rfl] at htk hsemi
    simp only [Toks_append, Toks, tk, List.length_append, List.length_cons] at htk hsemi
    obtain ⟨htq, hcomma, -, htrest⟩ := htk
    have harg := qarg_acc q g s hr.hook hr.lim hr.prot (by omega) htq (by rw [hcomma]; decide) hc.1
    have hpr' : ∀ n, ∀ p ∈ s.protectedPos, p < s.events.size + n := fun n p hp => Nat.lt_add_right n (hr.prot p hp)
    obtain ⟨st3, sb3, hle3, hrec⟩ :=
      (qloop_acc qs (g + 1) (k + 1)
        (s.ov (evsQ q ++ [Ev.token .COMMA 1]) ((toksQ q).length + 1) 0 1 s.live s.protectedPos)
        (by omega) (RdyL_ov 6 s _ _ _ _ _ _ hr.hook (by have := hr.lim; omega) (hpr' _) hr.lim)
        ((Toks_ov s _ _ _ _ _ _ _ _).2 (Toks_pos htrest (by show s.pos + _ = _; omega)))
        (kindAt_pos hsemi (by show s.pos + _ + _ = _; omega)) hc.2).at_ov
    obtain ⟨ts, hts⟩ := toksQ_first q
    have h0 : s.kindAt (s.pos + 0) = firstQ q := by rw [hts] at htq; exact htq.1
    show AccV (paramListOpenqasmLoop (g + 2) .gateCallQubits k) (k + (countQs qs + 1) + 1) s _ _
    rcases firstQ_cases q with hq | hq <;> rw [hq] at h0 <;> run_base3 [h0, harg, hcomma, hrec]


/-- `arg_list_gate_call_qubits` on `q0, …, qn ;` -/
theorem qlist_acc (qs : QList) (F : Nat) (s : P) (hr : RdyL 6 s) (hF : needQs qs + 2 ≤ F) (htk : Toks s s.pos (toksQs qs))
    (hsemi : s.kindAt (s.pos + (toksQs qs).length) = .SEMICOLON) (hc : CanonQs qs) :
    Acc (argListGateCallQubits F) s (toksQs qs).length (qlistEvs qs) := by
  obtain ⟨g, rfl⟩ : ∃ g, F = g + 2 := ⟨F - 2, by omega⟩
  have hpr' : ∀ n, ∀ p ∈ s.protectedPos, p < s.events.size + n := fun n p hp => Nat.lt_add_right n (hr.prot p hp)
  obtain ⟨st', sb', hle, hloop⟩ :=
    (qloop_acc qs g 0 (s.ov [.start .TOMBSTONE none] 0 s.steps (s.sinceBump + 1) (s.live + 1) s.protectedPos) (by omega)
      (RdyL_ov 6 s _ 0 _ _ _ _ hr.hook hr.steps (hpr' _) hr.lim)
      ((Toks_ov s _ 0 _ _ _ _ _ _).2 htk) hsemi hc).at_ov
  run_base3 [hloop]

/-! ### expression statements -/

/-- first tokens of the statements that `stmt` hands to `expr_stmt` -/
def exprStmtFirst2 (k : SyntaxKind) : Bool :=
  k == .IDENT || k == .INT_NUMBER || k == .FLOAT_NUMBER || k == .BIT_STRING || k == .TRUE_KW || k == .FALSE_KW ||
  k == .HARDWAREIDENT || k == .L_PAREN || k == .TILDE || k == .BANG || k == .MINUS || k == .MEASURE_KW || k == .RETURN_KW ||
  k == .INV_KW || k == .POW_KW || k == .CTRL_KW || k == .NEGCTRL_KW || k == .GPHASE_KW

/-- **the `EXPR_STMT` wrapper of `stmt`** (`Lemmas/LangEvStmt.lean: stmt_wrap`) for the extended first tokens -/
theorem stmt_wrap2 (f : Nat) (s : P) (hr : RdyL 8 s) (k0 : SyntaxKind) (hk0 : exprStmtFirst2 k0 = true)
    (h0 : s.kindAt (s.pos + 0) = k0) (X : List Ev) (n off sbx : Nat) (stx : Nat) (kr : SyntaxKind)
    (hsub : exprStmt (f + 1) (some { pos := s.events.size + 0 })
        (s.ov [Ev.start SyntaxKind.TOMBSTONE none] 0 (s.steps + 1) (s.sinceBump + 1) (s.live + 1) s.protectedPos) =
      .ok (some (⟨s.events.size + off, kr⟩, .notBlock), s.ov X n stx sbx s.live s.protectedPos))
    (hroot : X[off]? = some (.start kr none)) (hkr : (kr == .ASSIGNMENT_STMT) = false)
    (hsemi : s.kindAt (s.pos + n) = .SEMICOLON) :
    Acc (stmt (f + 2)) s (n + 1)
      (X.set off (.start kr (some (X.length - off))) ++ exprStmtTail) := by
  have hnp := hr.hook
  have hpr := hr.prot
  have hst : s.steps ≤ s.stepLimit := by have := hr.steps; omega
  have hoff : off < X.length := by
    rcases Nat.lt_or_ge off X.length with h | h
    · exact h
    · rw [List.getElem?_eq_none h] at hroot; cases hroot
  generalize hs₁ : s.ov X n stx sbx s.live s.protectedPos = s₁
  have h1n : s₁.noProgressLimit = 0 := by rw [← hs₁]; exact hnp
  have h1l : s₁.live = s.live := by rw [← hs₁]; rfl
  have h1pr : s₁.protectedPos = s.protectedPos := by rw [← hs₁]; rfl
  have h1lim : s₁.stepLimit = s.stepLimit := by rw [← hs₁]; rfl
  have hsz : s₁.events.size = s.events.size + X.length := by rw [← hs₁]; exact ov_size _ _
  have hpr₁ : ∀ p ∈ s₁.protectedPos, p < s₁.events.size := by
    intro p hp; rw [h1pr] at hp; rw [hsz]; exact Nat.lt_add_right _ (hpr p hp)
  have hp : s₁.events[s.events.size + off]? = some (.start kr none) := by
    rw [← hs₁]
    show (s.events ++ X.toArray)[s.events.size + off]? = _
    rw [ov_get, hroot]
  have h1semi : s₁.kindAt (s₁.pos + 0) = .SEMICOLON := by rw [← hs₁]; exact hsemi
  have hsub' : exprStmt (f + 1) (some { pos := s.events.size + 0 })
        (s.ov [Ev.start SyntaxKind.TOMBSTONE none] 0 (s.steps + 1) (s.sinceBump + 1) (s.live + 1) s.protectedPos) =
      .ok (some (⟨s.events.size + off, kr⟩, .notBlock), s₁.ov [] 0 stx sbx s₁.live s₁.protectedPos) := by
    rw [hsub, ov_rebase s X n stx sbx, hs₁, h1l, h1pr]
  have hpre := precede_base s₁ h1n (s.events.size + off) kr kr none hp
  have hcomp := fun E dp st sb lv pr i b kind =>
    complete_ov (s₁.setEv (s.events.size + off) (.start kr (some (s₁.events.size + 0 - (s.events.size + off))))) E dp st sb lv pr h1n i b kind
  simp only [setEv_size] at hcomp
  have hfin : ∀ sb, (Except.ok ((), (s₁.setEv (s.events.size + off)
        (.start kr (some (s₁.events.size + 0 - (s.events.size + off))))).ov
        [Ev.start SyntaxKind.EXPR_STMT none, Ev.token SyntaxKind.SEMICOLON 1, Ev.finish] 1 0 sb s₁.live s₁.protectedPos) :
        Except Outcome (Unit × P)) =
      .ok ((), s.ov (X.set off (.start kr (some (X.length - off))) ++ exprStmtTail) (n + 1) 0 sb s.live s.protectedPos) := by
    intro sb
    rw [h1l, h1pr, hsz, ← hs₁, setEv_ov_ov, show s.events.size + X.length + 0 - (s.events.size + off) = X.length - off by omega]
    rfl
  simp only [exprStmtFirst2, Bool.or_eq_true, beq_iff_eq] at hk0
  refine ⟨0, 2, Nat.zero_le _, of_ov _ _ _ ?_⟩
  rcases hk0 with ((((((((((((((((hk | hk) | hk) | hk) | hk) | hk) | hk) | hk) | hk) | hk) | hk) | hk) | hk) | hk) | hk) | hk) | hk) | hk <;> subst hk <;>
  sym_eval [filter_base s hpr, contains_base s hpr, h0, hsub', hkr, hpre, hcomp, h1semi, setEv_size, setEv_kindAt, setEv_pos,
    setEv_npl, setEv_stepLimit, filter_base s₁ hpr₁, contains_base s₁ hpr₁, bne_self_eq_false]
  all_goals exact hfin 2

theorem X.kind_ne_assign (x : X) : (x.kind == .ASSIGNMENT_STMT) = false := by
  cases x with
  | prim p => cases p <;> rfl
  | _ => rfl

/-- `exprStmt` on an expression of `X` followed by `;` (the marker of `stmt` becomes the head tombstone) -/
theorem exprStmt_X (x : X) (f : Nat) (s : P) (hr : RdyL 8 s) (hf : fuelX x ≤ f) (htk : Toks s s.pos (toksX x)) (hc : CanonX 1 x)
    (hsemi : s.kindAt (s.pos + (toksX x).length) = .SEMICOLON) :
    exprStmt (f + 1 + 1) (some { pos := s.events.size + 0 })
      (s.ov [Ev.start SyntaxKind.TOMBSTONE none] 0 (s.steps + 1) (s.sinceBump + 1) (s.live + 1) s.protectedPos) =
      .ok (some (⟨s.events.size + (rootX x + 1), x.kind⟩, .notBlock),
        s.ov (evsX x) (toksX x).length 0 (sbX x) s.live s.protectedPos) := by
  rw [exprStmt.run_2]
  have := exprBp_some f { preferStmt := true } 1 s hr.hook [] 0 (s.steps + 1) s.sinceBump s.live s.protectedPos
  simp only [List.nil_append, List.length_nil] at this
  rw [this, (exprX_ok x).atEnd 1 (f + 1) _ s [] 0 _ _ _ _ hr.hook (by have := hr.steps; omega) hr.lim
    (fun p hp => Nat.lt_add_right _ (hr.prot p hp)) (by rw [Nat.add_zero]; exact htk) hc (Nat.le_refl _) (by decide)
    (by rw [Nat.add_zero, hsemi]; rfl) (by omega)]
  simp only [List.nil_append, List.length_nil, Nat.add_zero, Nat.zero_add]

/-- `x ;` -/
theorem stmt_exprS2 (x : X) (F : Nat) (s : P) (hr : RdyL 8 s) (hF : fuelX x + 3 ≤ F)
    (htk : Toks s s.pos (toksS2 (.exprS x))) (hc : CanonX 1 x) (hfirst : exprStmtFirst2 (firstX x) = true) :
    Acc (stmt F) s (toksS2 (.exprS x)).length (evsS2 (.exprS x)) := by
  obtain ⟨f, rfl⟩ : ∃ f, F = f + 1 + 2 := ⟨F - 3, by omega⟩
  simp only [toksS2, Toks_append, Toks, tk, List.length_append, List.length_cons, List.length_nil] at htk ⊢
  obtain ⟨hte, hsemi, -, -⟩ := htk
  obtain ⟨j0, ts, hts⟩ := toksX_first x
  have h0 : s.kindAt (s.pos + 0) = firstX x := by rw [hts] at hte; exact hte.1
  have := stmt_wrap2 (f + 1) s hr _ hfirst h0 (evsX x) (toksX x).length (rootX x + 1)
    (sbX x) 0 x.kind (exprStmt_X x f s hr (by omega) hte hc hsemi) (evsX_root x) (X.kind_ne_assign x) hsemi
  rw [evsX_set_root, evsX_length, show lenX x + 1 - (rootX x + 1) = lenX x - rootX x by omega] at this
  exact this

/-! ### gate calls -/

theorem toksQs_first (qs : QList) : ∃ q ts, toksQs qs = tk (firstQ q) :: ts := by
  cases qs with
  | one q => obtain ⟨ts, h⟩ := toksQ_first q; exact ⟨q, ts, h⟩
  | cons q qs => obtain ⟨ts, h⟩ := toksQ_first q; exact ⟨q, ts ++ (tk .COMMA :: toksQs qs), by simp [toksQs, h]⟩

/-- `g q0, …, qn ;` -/
theorem stmt_gate_nil2 (qs : QList) (F : Nat) (s : P) (hr : RdyL 8 s) (hF : needQs qs + 8 ≤ F)
    (htk : Toks s s.pos (toksS2 (.gate .nil qs))) (hc : CanonQs qs) :
    Acc (stmt F) s (toksS2 (.gate .nil qs)).length (evsS2 (.gate .nil qs)) := by
  obtain ⟨g, rfl⟩ : ∃ g, F = (g + 2) + 4 + 2 := ⟨F - 8, by omega⟩
  simp only [toksS2, argListToks, Toks, Toks_append, tk, List.length_cons, List.length_append, List.length_nil, List.nil_append] at htk ⊢
  obtain ⟨h0, -, htq, hsemi, -, -⟩ := htk
  rw [show s.pos = s.pos + 0 from rfl] at h0
  obtain ⟨q, ts, hts⟩ := toksQs_first qs
  have h1 : s.kindAt (s.pos + 1) = firstQ q := by rw [hts] at htq; exact htq.1
  have hnp := hr.hook
  have hpr := hr.prot
  have hlim := hr.lim
  have hst : s.steps + 1 ≤ s.stepLimit := by have := hr.steps; omega
  have hpr' : ∀ n, ∀ p ∈ s.protectedPos, p < s.events.size + n := fun n p hp => Nat.lt_add_right n (hr.prot p hp)
  obtain ⟨st', sb', hle, hq⟩ :=
    (qlist_acc qs (g + 2) (s.ov [.start .TOMBSTONE none, .start .TOMBSTONE none, .start .IDENTIFIER none,
        .token .IDENT 1, .finish] 1 0 2 (s.live + 1 + 1) s.protectedPos)
      (RdyL_ov 6 s _ _ _ _ _ _ hr.hook (by have := hr.lim; omega) (hpr' _) hr.lim) (by omega)
      ((Toks_ov s _ _ _ _ _ _ _ _).2 htq) hsemi hc).at_ov
  have hsemi' : s.kindAt (s.pos + (1 + (toksQs qs).length)) = .SEMICOLON := by
    rw [← Nat.add_assoc]; exact hsemi
  obtain rfl : st' = 0 := by omega
  have hsub : exprStmt ((g + 2) + 4 + 1) (some { pos := s.events.size + 0 })
      (s.ov [Ev.start SyntaxKind.TOMBSTONE none] 0 (s.steps + 1) (s.sinceBump + 1) (s.live + 1) s.protectedPos) =
      .ok (some (⟨s.events.size + 1, .GATE_CALL_EXPR⟩, .notBlock),
        s.ov (tombLink :: .start .GATE_CALL_EXPR none :: gateCallInner .nil qs) (1 + (toksQs qs).length) 0 (sb' + 1) s.live s.protectedPos) := by
    rcases firstQ_cases q with hq1 | hq1 <;> rw [hq1] at h1 <;>
    (sym_eval [filter_base s hpr, contains_base s hpr, h0, h1, hq, hsemi']
     refine ok_ov_congr _ _ _ _ _ _ _ _ _ _ _ rfl ?_ rfl
     simp only [tombLink, gateCallInner, argListEvs, qlistEvs, List.cons_append, List.nil_append, List.append_assoc])
  refine (stmt_wrap2 _ s hr _ (by decide) h0 _ _ 1 _ _ _ hsub rfl rfl hsemi').congr ?_ ?_
  · simp only [evsS2, wrapStmt, tombLink, exprStmtTail, List.set_cons_succ, List.set_cons_zero, List.cons_append, List.nil_append,
      List.append_assoc, List.length_cons, List.length_append, List.length_nil, Nat.add_sub_cancel]
  · omega

theorem argListToks_cons (a : X) (as : XList) : argListToks (.cons a as) = tk .L_PAREN :: (toksXs (.cons a as) ++ [tk .R_PAREN]) := rfl

/-- `g(a0, …) q0, …, qn ;` -/
theorem stmt_gate_cons2 (a : X) (as : XList) (qs : QList) (F : Nat) (s : P) (hr : RdyL 8 s)
    (hF : max (sumXs (.cons a as) + countXs (.cons a as) + 5) (needQs qs + 2) + 6 ≤ F)
    (htk : Toks s s.pos (toksS2 (.gate (.cons a as) qs))) (hca : CanonXs (.cons a as)) (hc : CanonQs qs) :
    Acc (stmt F) s (toksS2 (.gate (.cons a as) qs)).length (evsS2 (.gate (.cons a as) qs)) := by
  obtain ⟨g, rfl⟩ : ∃ g, F = g + 6 := ⟨F - 6, by omega⟩
  simp only [toksS2, argListToks_cons, Toks, Toks_append, tk, List.length_cons, List.length_append, List.length_nil] at htk ⊢
  obtain ⟨h0, -, ⟨h1, -, hta, hrp, -, -⟩, htq, hsemi, -, -⟩ := htk
  rw [show s.pos = s.pos + 0 from rfl] at h0
  have hnp := hr.hook
  have hpr := hr.prot
  have hlim := hr.lim
  have hst : s.steps + 1 ≤ s.stepLimit := by have := hr.steps; omega
  have hpr' : ∀ n, ∀ p ∈ s.protectedPos, p < s.events.size + n := fun n p hp => Nat.lt_add_right n (hr.prot p hp)
  have hargs := callArgsX (.cons a as) (sumXs (.cons a as)) g
      (s.ov [.start .TOMBSTONE none, .start .IDENTIFIER (some 3), .token .IDENT 1, .finish, .start .TOMBSTONE none]
        1 0 3 (s.live + 1 + 1) ((s.events.size + 4) :: s.protectedPos))
      (xsOK _) (by omega) (RdyL_ov 6 s _ _ _ _ _ _ hr.hook (by omega) (by
        intro p hp
        simp only [List.length_cons, List.length_nil]
        rcases List.mem_cons.1 hp with h | h
        · omega
        · have := hpr p h; omega) hr.lim)
      h1 ((Toks_ov s _ _ _ _ _ _ _ _).2 hta)
      (kindAt_pos hrp (by show s.pos + 1 + _ = _; omega)) hca
  rw [ov_ov] at hargs
  simp only [List.cons_append, List.nil_append, ov_live, ov_prot] at hargs
  obtain ⟨st', sb', hle, hq⟩ :=
    (qlist_acc qs g (s.ov (.start .TOMBSTONE none :: .start .IDENTIFIER (some 3) :: .token .IDENT 1 :: .finish :: .start .TOMBSTONE none ::
        .start .ARG_LIST none :: .start .EXPRESSION_LIST none :: .token .L_PAREN 1 ::
          (evsXs (.cons a as) ++ [.token .R_PAREN 1, .finish, .finish]))
        (1 + ((toksXs (.cons a as)).length + 2)) 0 3 (s.live + 1 + 1) ((s.events.size + 4) :: s.protectedPos))
      (RdyL_ov 6 s _ _ _ _ _ _ hr.hook (by omega) (by
        intro p hp
        simp only [List.length_cons, List.length_nil, List.length_append]
        rcases List.mem_cons.1 hp with h | h
        · omega
        · have := hpr p h; omega) hr.lim) (by omega)
      ((Toks_ov s _ _ _ _ _ _ _ _).2 (Toks_pos htq (by show s.pos + _ = _; omega)))
      (kindAt_pos hsemi (by show s.pos + _ + _ = _; omega)) hc).at_ov
  obtain rfl : st' = 0 := by omega
  obtain ⟨q, ts, hts⟩ := toksQs_first qs
  have hq0 : s.kindAt (s.pos + (1 + ((toksXs (.cons a as)).length + 2))) = firstQ q := by
    rw [hts] at htq; exact kindAt_pos htq.1 (by omega)
  have hsemi' : s.kindAt (s.pos + (1 + ((toksXs (.cons a as)).length + 2) + (toksQs qs).length)) = .SEMICOLON :=
    kindAt_pos hsemi (by omega)
  have hsub : exprStmt (g + 4 + 1) (some { pos := s.events.size + 0 })
      (s.ov [Ev.start SyntaxKind.TOMBSTONE none] 0 (s.steps + 1) (s.sinceBump + 1) (s.live + 1) s.protectedPos) =
      .ok (some (⟨s.events.size + 4, .GATE_CALL_EXPR⟩, .notBlock),
        s.ov (Ev.start SyntaxKind.TOMBSTONE (some 4) :: Ev.start SyntaxKind.IDENTIFIER (some 3) ::
            Ev.token SyntaxKind.IDENT 1 :: Ev.finish :: Ev.start SyntaxKind.GATE_CALL_EXPR none ::
            (argListEvs (.cons a as) ++ (qlistEvs qs ++ [Ev.finish])))
          (1 + ((toksXs (.cons a as)).length + 2) + (toksQs qs).length) 0 (sb' + 1) s.live s.protectedPos) := by
    rcases firstQ_cases q with hq1 | hq1 <;> rw [hq1] at hq0 <;>
    (sym_eval [filter_base s hpr, contains_base s hpr, h0, h1, hargs, hq, hq0, hsemi', bne_self_eq_false]
     refine ok_ov_congr _ _ _ _ _ _ _ _ _ _ _ rfl ?_ rfl
     simp only [argListEvs, List.cons_append, List.nil_append, List.append_assoc])
  refine (stmt_wrap2 _ s hr _ (by decide) h0 _ _ 4 _ _ _ hsub rfl rfl hsemi').congr ?_ ?_
  · simp only [evsS2, tombLink, exprStmtTail, List.set_cons_succ, List.set_cons_zero, List.cons_append, List.nil_append,
      List.append_assoc, List.length_cons, List.length_append, List.length_nil]
    congr 6
  · omega
/-! ### gate modifiers -/

def CanonMod : Mod → Prop
  | .pow e => CanonX 1 e
  | .ctrl (some e) => CanonX 1 e
  | .negctrl (some e) => CanonX 1 e
  | _ => True

def CanonMods : List Mod → Prop
  | [] => True
  | m :: ms => CanonMod m ∧ CanonMods ms

def needMod : Mod → Nat
  | .pow e => fuelX e + 2
  | .ctrl (some e) => fuelX e + 2
  | .negctrl (some e) => fuelX e + 2
  | _ => 1

def needMods : List Mod → Nat
  | [] => 1
  | m :: ms => max (needMod m) (needMods ms) + 1

theorem fuelX_pos (x : X) : 2 ≤ fuelX x := by
  have := needX_pos x; have := cFX_pos x; unfold fuelX; omega

def isModKw (k : SyntaxKind) : Bool := k == .INV_KW || k == .POW_KW || k == .CTRL_KW || k == .NEGCTRL_KW

/-- the modifier loop of `modified_gate_call_expr` -/
theorem mods_acc : ∀ (ms : List Mod) (F : Nat) (s : P), needMods ms ≤ F → RdyL 6 s → Toks s s.pos (toksMods ms) →
    (s.kindAt (s.pos + (toksMods ms).length) = .IDENT ∨ s.kindAt (s.pos + (toksMods ms).length) = .GPHASE_KW) → CanonMods ms →
    Acc (modifiedGateCallExprLoop F) s (toksMods ms).length (evsMods ms)
  | [], F, s, hF, hr, htk, hend, hc => by
    obtain ⟨g, rfl⟩ : ∃ g, F = g + 1 := ⟨F - 1, by simp only [needMods] at hF; omega⟩
    simp only [toksMods, List.length_nil] at hend
    rcases hend with h | h <;> run_base3 [h]
  | m :: ms, F, s, hF, hr, htk, hend, hc => by
    obtain ⟨g, rfl⟩ : ∃ g, F = g + 1 := ⟨F - 1, by simp only [needMods] at hF; omega⟩
    simp only [needMods] at hF
    simp only [toksMods, Toks_append, List.length_append] at htk hend
    obtain ⟨htm, htrest⟩ := htk
    have hpr' : ∀ n, ∀ p ∈ s.protectedPos, p < s.events.size + n := fun n p hp => Nat.lt_add_right n (hr.prot p hp)
    have hrec := fun (E0 : List Ev) (sb : Nat) =>
      (mods_acc ms g (s.ov E0 (toksMod m).length 0 sb s.live s.protectedPos) (by omega)
        (RdyL_ov 6 s _ _ _ _ _ _ hr.hook (by have := hr.lim; omega) (hpr' _) hr.lim)
        ((Toks_ov s _ _ _ _ _ _ _ _).2 htrest)
        (by show s.kindAt (s.pos + _ + _) = _ ∨ s.kindAt (s.pos + _ + _) = _; rw [Nat.add_assoc]; exact hend) hc.2).at_ov
    cases m with
    | inv =>
      simp only [toksMod, Toks, tk, List.length_cons, List.length_nil] at htm hrec
      obtain ⟨h0, -, h1, -, -⟩ := htm
      rw [show s.pos = s.pos + 0 from rfl] at h0
      obtain ⟨st', sb', hle, hrec'⟩ := hrec [.start .INV_MODIFIER none, .token .INV_KW 1, .token .AT 1, .finish] 2
      run_base3 [h0, h1, hrec']
    | pow e =>
      simp only [CanonMods, CanonMod] at hc
      simp only [needMod] at hF
      simp only [toksMod, parenToks, Toks, Toks_append, tk, List.length_cons, List.length_append, List.length_nil] at htm hrec
      obtain ⟨h0, -, ⟨h1, -, hte, hrp, -, -⟩, hat, -, -⟩ := htm
      rw [show s.pos = s.pos + 0 from rfl] at h0
      obtain ⟨g', rfl⟩ : ∃ g', g = g' + 1 := ⟨g - 1, by have := fuelX_pos e; omega⟩
      have hsub : ∀ st sb lv E0, st + 5 ≤ s.stepLimit → Oq3.Grammar.expr (g' + 1) (s.ov E0 2 st sb lv s.protectedPos) = _ :=
        fun st sb lv E0 h1 => (exprX_ok e).expr g' s E0 2 st sb lv s.protectedPos hr.hook h1 hr.lim (hpr' _)
          (Toks_pos hte (by omega)) hc.1 (by rw [kindAt_pos hrp (by omega)]; rfl) (by omega)
      have hrp' : s.kindAt (s.pos + (2 + (toksX e).length)) = .R_PAREN := kindAt_pos hrp (by omega)
      have hat' : s.kindAt (s.pos + (2 + (toksX e).length + 1)) = .AT := kindAt_pos hat (by omega)
      obtain ⟨st', sb', hle, hrec'⟩ := hrec (.start .POW_MODIFIER none :: .token .POW_KW 1 :: .start .PAREN_EXPR none :: .token .L_PAREN 1 ::
        (evsX e ++ [.token .R_PAREN 1] ++ [.finish] ++ [.token .AT 1] ++ [.finish])) 2
      rw [show (toksX e).length + (0 + 1) + 1 + (0 + 1) + 1 = 2 + (toksX e).length + 1 + 1 by omega] at hrec'
      run_base3 [h0, h1, hsub, hrp', hat', hrec']
    | ctrl e =>
      cases e with
      | none =>
        simp only [toksMod, Toks, tk, List.length_cons, List.length_nil] at htm hrec
        obtain ⟨h0, -, h1, -, -⟩ := htm
        rw [show s.pos = s.pos + 0 from rfl] at h0
        obtain ⟨st', sb', hle, hrec'⟩ := hrec [.start .CTRL_MODIFIER none, .token .CTRL_KW 1, .token .AT 1, .finish] 2
        run_base3 [h0, h1, hrec']
      | some e =>
        simp only [CanonMods, CanonMod] at hc
        simp only [needMod] at hF
        simp only [toksMod, parenToks, Toks, Toks_append, tk, List.length_cons, List.length_append, List.length_nil] at htm hrec
        obtain ⟨h0, -, ⟨h1, -, hte, hrp, -, -⟩, hat, -, -⟩ := htm
        rw [show s.pos = s.pos + 0 from rfl] at h0
        obtain ⟨g', rfl⟩ : ∃ g', g = g' + 1 := ⟨g - 1, by have := fuelX_pos e; omega⟩
        have hsub : ∀ st sb lv E0, st + 5 ≤ s.stepLimit → Oq3.Grammar.expr (g' + 1) (s.ov E0 2 st sb lv s.protectedPos) = _ :=
          fun st sb lv E0 h1 => (exprX_ok e).expr g' s E0 2 st sb lv s.protectedPos hr.hook h1 hr.lim (hpr' _)
            (Toks_pos hte (by omega)) hc.1 (by rw [kindAt_pos hrp (by omega)]; rfl) (by omega)
        have hrp' : s.kindAt (s.pos + (2 + (toksX e).length)) = .R_PAREN := kindAt_pos hrp (by omega)
        have hat' : s.kindAt (s.pos + (2 + (toksX e).length + 1)) = .AT := kindAt_pos hat (by omega)
        obtain ⟨st', sb', hle, hrec'⟩ := hrec (.start .CTRL_MODIFIER none :: .token .CTRL_KW 1 :: .start .PAREN_EXPR none :: .token .L_PAREN 1 ::
          (evsX e ++ [.token .R_PAREN 1] ++ [.finish] ++ [.token .AT 1] ++ [.finish])) 2
        rw [show (toksX e).length + (0 + 1) + 1 + (0 + 1) + 1 = 2 + (toksX e).length + 1 + 1 by omega] at hrec'
        run_base3 [h0, h1, hsub, hrp', hat', hrec']
    | negctrl e =>
      cases e with
      | none =>
        simp only [toksMod, Toks, tk, List.length_cons, List.length_nil] at htm hrec
        obtain ⟨h0, -, h1, -, -⟩ := htm
        rw [show s.pos = s.pos + 0 from rfl] at h0
        obtain ⟨st', sb', hle, hrec'⟩ := hrec [.start .NEG_CTRL_MODIFIER none, .token .NEGCTRL_KW 1, .token .AT 1, .finish] 2
        run_base3 [h0, h1, hrec']
      | some e =>
        simp only [CanonMods, CanonMod] at hc
        simp only [needMod] at hF
        simp only [toksMod, parenToks, Toks, Toks_append, tk, List.length_cons, List.length_append, List.length_nil] at htm hrec
        obtain ⟨h0, -, ⟨h1, -, hte, hrp, -, -⟩, hat, -, -⟩ := htm
        rw [show s.pos = s.pos + 0 from rfl] at h0
        obtain ⟨g', rfl⟩ : ∃ g', g = g' + 1 := ⟨g - 1, by have := fuelX_pos e; omega⟩
        have hsub : ∀ st sb lv E0, st + 5 ≤ s.stepLimit → Oq3.Grammar.expr (g' + 1) (s.ov E0 2 st sb lv s.protectedPos) = _ :=
          fun st sb lv E0 h1 => (exprX_ok e).expr g' s E0 2 st sb lv s.protectedPos hr.hook h1 hr.lim (hpr' _)
            (Toks_pos hte (by omega)) hc.1 (by rw [kindAt_pos hrp (by omega)]; rfl) (by omega)
        have hrp' : s.kindAt (s.pos + (2 + (toksX e).length)) = .R_PAREN := kindAt_pos hrp (by omega)
        have hat' : s.kindAt (s.pos + (2 + (toksX e).length + 1)) = .AT := kindAt_pos hat (by omega)
        obtain ⟨st', sb', hle, hrec'⟩ := hrec (.start .NEG_CTRL_MODIFIER none :: .token .NEGCTRL_KW 1 :: .start .PAREN_EXPR none :: .token .L_PAREN 1 ::
          (evsX e ++ [.token .R_PAREN 1] ++ [.finish] ++ [.token .AT 1] ++ [.finish])) 2
        rw [show (toksX e).length + (0 + 1) + 1 + (0 + 1) + 1 = 2 + (toksX e).length + 1 + 1 by omega] at hrec'
        run_base3 [h0, h1, hsub, hrp', hat', hrec']
/-! ### modified gate calls, `gphase` -/

def needArgs : XList → Nat
  | .nil => 0
  | .cons a as => sumXs (.cons a as) + countXs (.cons a as) + 5

/-- `gate_call_expr` on `g qs` / `g(args) qs`, followed by `;` -/
theorem gateCall_acc (args : XList) (qs : QList) (F : Nat) (s : P) (hr : RdyL 6 s)
    (hF : max (needArgs args) (needQs qs + 2) + 1 ≤ F)
    (h0 : s.kindAt (s.pos + 0) = .IDENT)
    (hta : Toks s (s.pos + 1) (argListToks args)) (htq : Toks s (s.pos + (1 + (argListToks args).length)) (toksQs qs))
    (hsemi : s.kindAt (s.pos + (1 + (argListToks args).length + (toksQs qs).length)) = .SEMICOLON)
    (hca : CanonXs args) (hc : CanonQs qs) :
    AccV (gateCallExpr F) ⟨s.events.size + 0, .GATE_CALL_EXPR⟩ s (1 + (argListToks args).length + (toksQs qs).length)
      (.start .GATE_CALL_EXPR none :: gateCallInner args qs) := by
  obtain ⟨g, rfl⟩ : ∃ g, F = g + 1 := ⟨F - 1, by omega⟩
  have hpr' : ∀ n, ∀ p ∈ s.protectedPos, p < s.events.size + n := fun n p hp => Nat.lt_add_right n (hr.prot p hp)
  obtain ⟨q, ts, hts⟩ := toksQs_first qs
  cases args with
  | nil =>
    simp only [argListToks, List.length_nil, Nat.add_zero] at htq hsemi ⊢
    have h1 : s.kindAt (s.pos + 1) = firstQ q := by rw [hts] at htq; exact htq.1
    obtain ⟨st', sb', hle, hq⟩ :=
      (qlist_acc qs g (s.ov [.start .TOMBSTONE none, .start .IDENTIFIER none, .token .IDENT 1, .finish] 1 0 2 (s.live + 1) s.protectedPos)
        (RdyL_ov 6 s _ _ _ _ _ _ hr.hook (by have := hr.lim; omega) (hpr' _) hr.lim) (by omega)
        ((Toks_ov s _ _ _ _ _ _ _ _).2 htq) (kindAt_pos hsemi (by show s.pos + 1 + _ = _; omega)) hc).at_ov
    simp only [List.cons_append, List.nil_append] at hq
    rcases firstQ_cases q with hq1 | hq1 <;> rw [hq1] at h1 <;> run_base3 [h0, h1, hq]
  | cons a as =>
    simp only [argListToks_cons, Toks, Toks_append, tk, List.length_cons, List.length_append, List.length_nil] at hta htq hsemi ⊢
    simp only [needArgs] at hF
    obtain ⟨h1, -, hta, hrp, -, -⟩ := hta
    have hargs := callArgsX (.cons a as) (sumXs (.cons a as)) g
        (s.ov [.start .TOMBSTONE none, .start .IDENTIFIER none, .token .IDENT 1, .finish] 1 0 2 (s.live + 1) s.protectedPos)
        (xsOK _) (by omega) (RdyL_ov 6 s _ _ _ _ _ _ hr.hook (by have := hr.lim; omega) (hpr' _) hr.lim)
        h1 ((Toks_ov s _ _ _ _ _ _ _ _).2 hta)
        (kindAt_pos hrp (by show s.pos + 1 + _ = _; omega)) hca
    rw [ov_ov] at hargs
    simp only [List.cons_append, List.nil_append, ov_live, ov_prot] at hargs
    obtain ⟨st', sb', hle, hq⟩ :=
      (qlist_acc qs g (s.ov (.start .TOMBSTONE none :: .start .IDENTIFIER none :: .token .IDENT 1 :: .finish ::
          .start .ARG_LIST none :: .start .EXPRESSION_LIST none :: .token .L_PAREN 1 ::
            (evsXs (.cons a as) ++ [.token .R_PAREN 1, .finish, .finish]))
          (1 + ((toksXs (.cons a as)).length + 2)) 0 3 (s.live + 1) s.protectedPos)
        (RdyL_ov 6 s _ _ _ _ _ _ hr.hook (by have := hr.lim; omega) (hpr' _) hr.lim) (by omega)
        ((Toks_ov s _ _ _ _ _ _ _ _).2 (Toks_pos htq (by show s.pos + _ = _; omega)))
        (kindAt_pos hsemi (by show s.pos + _ + _ = _; omega)) hc).at_ov
    simp only [List.cons_append, List.nil_append] at hq
    run_base3 [h0, h1, hargs, hq]

/-- `gphase_call_expr` on `gphase x`, followed by `;` -/
theorem gphaseCall_acc (x : X) (F : Nat) (s : P) (hr : RdyL 6 s) (hF : fuelX x + 2 ≤ F)
    (h0 : s.kindAt (s.pos + 0) = .GPHASE_KW) (htx : Toks s (s.pos + 1) (toksX x))
    (hsemi : s.kindAt (s.pos + (1 + (toksX x).length)) = .SEMICOLON) (hc : CanonX 1 x) :
    AccV (gphaseCallExpr F) ⟨s.events.size + 0, .G_PHASE_CALL_EXPR⟩ s (1 + (toksX x).length)
      (.start .G_PHASE_CALL_EXPR none :: .token .GPHASE_KW 1 :: (evsX x ++ [.finish])) := by
  obtain ⟨g, rfl⟩ : ∃ g, F = g + 2 := ⟨F - 2, by omega⟩
  have hpr' : ∀ n, ∀ p ∈ s.protectedPos, p < s.events.size + n := fun n p hp => Nat.lt_add_right n (hr.prot p hp)
  have hsub : ∀ st sb lv E0, st + 5 ≤ s.stepLimit → Oq3.Grammar.expr (g + 1) (s.ov E0 1 st sb lv s.protectedPos) = _ :=
    fun st sb lv E0 h1 => (exprX_ok x).expr g s E0 1 st sb lv s.protectedPos hr.hook h1 hr.lim (hpr' _)
      htx hc (by rw [kindAt_pos hsemi (by omega)]; rfl) (by omega)
  run_base3 [h0, hsub]


/-- `gphase x ;` -/
theorem stmt_gphase (x : X) (F : Nat) (s : P) (hr : RdyL 8 s) (hF : fuelX x + 8 ≤ F)
    (htk : Toks s s.pos (toksS2 (.gphase x))) (hc : CanonX 1 x) :
    Acc (stmt F) s (toksS2 (.gphase x)).length (evsS2 (.gphase x)) := by
  obtain ⟨g, rfl⟩ : ∃ g, F = g + 4 + 2 := ⟨F - 6, by omega⟩
  simp only [toksS2, Toks, Toks_append, tk, List.length_cons, List.length_append, List.length_nil] at htk ⊢
  obtain ⟨h0, -, htx, hsemi, -, -⟩ := htk
  rw [show s.pos = s.pos + 0 from rfl] at h0
  have hnp := hr.hook
  have hpr := hr.prot
  have hlim := hr.lim
  have hst : s.steps + 2 ≤ s.stepLimit := by have := hr.steps; omega
  have hpr' : ∀ n, ∀ p ∈ s.protectedPos, p < s.events.size + n := fun n p hp => Nat.lt_add_right n (hr.prot p hp)
  have hsemi' : s.kindAt (s.pos + (1 + (toksX x).length)) = .SEMICOLON := kindAt_pos hsemi (by omega)
  obtain ⟨g', rfl⟩ : ∃ g', g = g' + 1 := ⟨g - 1, by have := fuelX_pos x; omega⟩
  have hsub0 : ∀ st sb lv E0, st + 5 ≤ s.stepLimit → Oq3.Grammar.expr (g' + 1) (s.ov E0 1 st sb lv s.protectedPos) = _ :=
    fun st sb lv E0 h1 => (exprX_ok x).expr g' s E0 1 st sb lv s.protectedPos hr.hook h1 hr.lim (hpr' _)
      htx hc (by rw [hsemi]; rfl) (by omega)
  have hsub : exprStmt (g' + 1 + 4 + 1) (some { pos := s.events.size + 0 })
      (s.ov [Ev.start SyntaxKind.TOMBSTONE none] 0 (s.steps + 1) (s.sinceBump + 1) (s.live + 1) s.protectedPos) =
      .ok (some (⟨s.events.size + 1, .G_PHASE_CALL_EXPR⟩, .notBlock),
        s.ov (tombLink :: .start .G_PHASE_CALL_EXPR none :: .token .GPHASE_KW 1 :: (evsX x ++ [.finish])) (1 + (toksX x).length) 0 (sbX x + 1) s.live s.protectedPos) := by
    sym_eval [filter_base s hpr, contains_base s hpr, h0, hsub0, hsemi']
    rfl
  refine (stmt_wrap2 _ s hr _ (by decide) h0 _ _ 1 _ _ _ hsub rfl rfl hsemi').congr ?_ ?_
  · simp only [evsS2, wrapStmt, tombLink, exprStmtTail, List.set_cons_succ, List.set_cons_zero, List.cons_append, List.nil_append,
      List.append_assoc, List.length_cons, List.length_append, List.length_nil, Nat.add_sub_cancel]
  · omega


def firstMod : Mod → SyntaxKind
  | .inv => .INV_KW
  | .pow _ => .POW_KW
  | .ctrl _ => .CTRL_KW
  | .negctrl _ => .NEGCTRL_KW

theorem toksMod_first (m : Mod) : ∃ ts, toksMod m = tk (firstMod m) :: ts := by
  cases m with
  | inv => exact ⟨_, rfl⟩
  | pow e => exact ⟨_, rfl⟩
  | ctrl e => cases e <;> exact ⟨_, rfl⟩
  | negctrl e => cases e <;> exact ⟨_, rfl⟩

theorem firstMod_cases (m : Mod) : firstMod m = .INV_KW ∨ firstMod m = .POW_KW ∨ firstMod m = .CTRL_KW ∨ firstMod m = .NEGCTRL_KW := by
  cases m <;> simp [firstMod]

/-- `mods g qs ;` / `mods g(args) qs ;` -/
theorem stmt_modGate (m : Mod) (ms : List Mod) (args : XList) (qs : QList) (F : Nat) (s : P) (hr : RdyL 8 s)
    (hF : max (needMods (m :: ms)) (max (needArgs args) (needQs qs + 2) + 1) + 7 ≤ F)
    (htk : Toks s s.pos (toksS2 (.modGate m ms args qs))) (hcm : CanonMods (m :: ms)) (hca : CanonXs args) (hc : CanonQs qs) :
    Acc (stmt F) s (toksS2 (.modGate m ms args qs)).length (evsS2 (.modGate m ms args qs)) := by
  obtain ⟨g, rfl⟩ : ∃ g, F = g + 5 + 2 := ⟨F - 7, by omega⟩
  simp only [toksS2, Toks, Toks_append, tk, List.length_cons, List.length_append, List.length_nil] at htk ⊢
  obtain ⟨htm, hid, -, hta, htq, hsemi, -, -⟩ := htk
  obtain ⟨ts, hts⟩ := toksMod_first m
  have h0 : s.kindAt (s.pos + 0) = firstMod m := by
    simp only [toksMods, hts, Toks_append, Toks, tk, List.cons_append] at htm; exact htm.1
  have hnp := hr.hook
  have hpr := hr.prot
  have hlim := hr.lim
  have hst : s.steps + 2 ≤ s.stepLimit := by have := hr.steps; omega
  have hpr' : ∀ n, ∀ p ∈ s.protectedPos, p < s.events.size + n := fun n p hp => Nat.lt_add_right n (hr.prot p hp)
  obtain ⟨st1, sb1, hle1, hmods⟩ :=
    (mods_acc (m :: ms) (g + 1) (s.ov [.start .TOMBSTONE none, .start .TOMBSTONE none] 0 (s.steps + 1 + 1) (s.sinceBump + 1 + 1)
        (s.live + 1 + 1) s.protectedPos) (by omega)
      (RdyL_ov 6 s _ _ _ _ _ _ hr.hook (by have := hr.steps; omega) (hpr' _) hr.lim)
      ((Toks_ov s _ _ _ _ _ _ _ _).2 (by rw [Nat.add_zero]; exact htm))
      (Or.inl (by show s.kindAt (s.pos + 0 + _) = _; rw [Nat.add_zero]; exact hid)) hcm).at_ov
  simp only [List.cons_append, List.nil_append] at hmods
  obtain ⟨st2, sb2, hle2, hgc⟩ :=
    (gateCall_acc args qs (g + 1) (s.ov (.start .TOMBSTONE none :: .start .TOMBSTONE none :: evsMods (m :: ms)) (0 + (toksMods (m :: ms)).length)
        st1 sb1 (s.live + 1 + 1) s.protectedPos)
      (RdyL_ov 6 s _ _ _ _ _ _ hr.hook (by have := hr.steps; omega) (hpr' _) hr.lim) (by omega)
      (kindAt_pos hid (by show s.pos + _ + 0 = _; omega))
      ((Toks_ov s _ _ _ _ _ _ _ _).2 (Toks_pos hta (by show s.pos + _ + 1 = _; omega)))
      ((Toks_ov s _ _ _ _ _ _ _ _).2 (Toks_pos htq (by show s.pos + _ + _ = _; omega)))
      (kindAt_pos hsemi (by show s.pos + _ + _ = _; omega)) hca hc).at_ov
  simp only [List.cons_append, List.nil_append] at hgc
  have hid' : s.kindAt (s.pos + (0 + (toksMods (m :: ms)).length)) = .IDENT := kindAt_pos hid (by omega)
  have hsemi' : s.kindAt (s.pos + (0 + (toksMods (m :: ms)).length + (1 + (argListToks args).length + (toksQs qs).length))) = .SEMICOLON :=
    kindAt_pos hsemi (by omega)
  have hsub : exprStmt (g + 5 + 1) (some { pos := s.events.size + 0 })
      (s.ov [Ev.start SyntaxKind.TOMBSTONE none] 0 (s.steps + 1) (s.sinceBump + 1) (s.live + 1) s.protectedPos) =
      .ok (some (⟨s.events.size + 1, .MODIFIED_GATE_CALL_EXPR⟩, .notBlock),
        s.ov (tombLink :: .start .MODIFIED_GATE_CALL_EXPR none :: (evsMods (m :: ms) ++ (.start .GATE_CALL_EXPR none :: (gateCallInner args qs ++ [.finish]))))
          (0 + (toksMods (m :: ms)).length + (1 + (argListToks args).length + (toksQs qs).length)) st2 (sb2 + 1) s.live s.protectedPos) := by
    rcases firstMod_cases m with hq1 | hq1 | hq1 | hq1 <;> rw [hq1] at h0 <;>
    (sym_eval [filter_base s hpr, contains_base s hpr, h0, hmods, hid', hgc, hsemi']
     refine ok_ov_congr _ _ _ _ _ _ _ _ _ _ _ rfl ?_ rfl
     simp only [tombLink, List.cons_append, List.nil_append, List.append_assoc])
  refine (stmt_wrap2 _ s hr _ (by rcases firstMod_cases m with h | h | h | h <;> rw [h] <;> rfl) h0 _ _ 1 _ _ _ hsub rfl rfl hsemi').congr ?_ ?_
  · simp only [evsS2, wrapStmt, tombLink, exprStmtTail, List.set_cons_succ, List.set_cons_zero, List.cons_append, List.nil_append,
      List.append_assoc, List.length_cons, List.length_append, List.length_nil, Nat.add_sub_cancel]
  · omega


/-- `mods gphase x ;` -/
theorem stmt_modGphase (m : Mod) (ms : List Mod) (x : X) (F : Nat) (s : P) (hr : RdyL 8 s)
    (hF : max (needMods (m :: ms)) (fuelX x + 2) + 8 ≤ F)
    (htk : Toks s s.pos (toksS2 (.modGphase m ms x))) (hcm : CanonMods (m :: ms)) (hc : CanonX 1 x) :
    Acc (stmt F) s (toksS2 (.modGphase m ms x)).length (evsS2 (.modGphase m ms x)) := by
  obtain ⟨g, rfl⟩ : ∃ g, F = g + 5 + 2 := ⟨F - 7, by omega⟩
  simp only [toksS2, Toks, Toks_append, tk, List.length_cons, List.length_append, List.length_nil] at htk ⊢
  obtain ⟨htm, hgp, -, htx, hsemi, -, -⟩ := htk
  obtain ⟨ts, hts⟩ := toksMod_first m
  have h0 : s.kindAt (s.pos + 0) = firstMod m := by
    simp only [toksMods, hts, Toks_append, Toks, tk, List.cons_append] at htm; exact htm.1
  have hnp := hr.hook
  have hpr := hr.prot
  have hlim := hr.lim
  have hst : s.steps + 2 ≤ s.stepLimit := by have := hr.steps; omega
  have hpr' : ∀ n, ∀ p ∈ s.protectedPos, p < s.events.size + n := fun n p hp => Nat.lt_add_right n (hr.prot p hp)
  obtain ⟨st1, sb1, hle1, hmods⟩ :=
    (mods_acc (m :: ms) (g + 1) (s.ov [.start .TOMBSTONE none, .start .TOMBSTONE none] 0 (s.steps + 1 + 1) (s.sinceBump + 1 + 1)
        (s.live + 1 + 1) s.protectedPos) (by omega)
      (RdyL_ov 6 s _ _ _ _ _ _ hr.hook (by have := hr.steps; omega) (hpr' _) hr.lim)
      ((Toks_ov s _ _ _ _ _ _ _ _).2 (by rw [Nat.add_zero]; exact htm))
      (Or.inr (by show s.kindAt (s.pos + 0 + _) = _; rw [Nat.add_zero]; exact hgp)) hcm).at_ov
  simp only [List.cons_append, List.nil_append] at hmods
  obtain ⟨st2, sb2, hle2, hgc⟩ :=
    (gphaseCall_acc x (g + 1) (s.ov (.start .TOMBSTONE none :: .start .TOMBSTONE none :: evsMods (m :: ms)) (0 + (toksMods (m :: ms)).length)
        st1 sb1 (s.live + 1 + 1) s.protectedPos)
      (RdyL_ov 6 s _ _ _ _ _ _ hr.hook (by have := hr.steps; omega) (hpr' _) hr.lim) (by omega)
      (kindAt_pos hgp (by show s.pos + _ + 0 = _; omega))
      ((Toks_ov s _ _ _ _ _ _ _ _).2 (Toks_pos htx (by show s.pos + _ + 1 = _; omega)))
      (kindAt_pos hsemi (by show s.pos + _ + _ = _; omega)) hc).at_ov
  simp only [List.cons_append, List.nil_append] at hgc
  have hgp' : s.kindAt (s.pos + (0 + (toksMods (m :: ms)).length)) = .GPHASE_KW := kindAt_pos hgp (by omega)
  have hsemi' : s.kindAt (s.pos + (0 + (toksMods (m :: ms)).length + (1 + (toksX x).length))) = .SEMICOLON :=
    kindAt_pos hsemi (by omega)
  have hsub : exprStmt (g + 5 + 1) (some { pos := s.events.size + 0 })
      (s.ov [Ev.start SyntaxKind.TOMBSTONE none] 0 (s.steps + 1) (s.sinceBump + 1) (s.live + 1) s.protectedPos) =
      .ok (some (⟨s.events.size + 1, .MODIFIED_GATE_CALL_EXPR⟩, .notBlock),
        s.ov (tombLink :: .start .MODIFIED_GATE_CALL_EXPR none :: (evsMods (m :: ms) ++ (.start .G_PHASE_CALL_EXPR none :: .token .GPHASE_KW 1 ::
            (evsX x ++ [.finish, .finish]))))
          (0 + (toksMods (m :: ms)).length + (1 + (toksX x).length)) st2 (sb2 + 1) s.live s.protectedPos) := by
    rcases firstMod_cases m with hq1 | hq1 | hq1 | hq1 <;> rw [hq1] at h0 <;>
    (sym_eval [filter_base s hpr, contains_base s hpr, h0, hmods, hgp', hgc, hsemi']
     refine ok_ov_congr _ _ _ _ _ _ _ _ _ _ _ rfl ?_ rfl
     simp only [tombLink, List.cons_append, List.nil_append, List.append_assoc])
  refine (stmt_wrap2 _ s hr _ (by rcases firstMod_cases m with h | h | h | h <;> rw [h] <;> rfl) h0 _ _ 1 _ _ _ hsub rfl rfl hsemi').congr ?_ ?_
  · simp only [evsS2, wrapStmt, tombLink, exprStmtTail, List.set_cons_succ, List.set_cons_zero, List.cons_append, List.nil_append,
      List.append_assoc, List.length_cons, List.length_append, List.length_nil, Nat.add_sub_cancel]
  · omega

/-! ### `return` -/

theorem exprStmtFirst2_isEF {k : SyntaxKind} (h : exprStmtFirst2 k = true) : isEF k = true := by
  simp only [exprStmtFirst2, Bool.or_eq_true, beq_iff_eq] at h
  rcases h with ((((((((((((((((h | h) | h) | h) | h) | h) | h) | h) | h) | h) | h) | h) | h) | h) | h) | h) | h) | h <;> subst h <;> rfl

/-- `return ;` -/
theorem stmt_ret_none2 (F : Nat) (s : P) (hr : RdyL 8 s) (hF : 8 ≤ F) (htk : Toks s s.pos (toksS2 (.ret none))) :
    Acc (stmt F) s (toksS2 (.ret none)).length (evsS2 (.ret none)) := by
  obtain ⟨f, rfl⟩ : ∃ f, F = f + 6 + 2 := ⟨F - 8, by omega⟩
  simp only [toksS2, Toks, tk] at htk
  obtain ⟨h0, -, h1, -, -⟩ := htk
  rw [show s.pos = s.pos + 0 from rfl] at h0
  have hnp := hr.hook
  have hpr := hr.prot
  have hst : s.steps + 1 ≤ s.stepLimit := by have := hr.steps; omega
  have hsub : exprStmt (f + 6 + 1) (some { pos := s.events.size + 0 })
      (s.ov [Ev.start SyntaxKind.TOMBSTONE none] 0 (s.steps + 1) (s.sinceBump + 1) (s.live + 1) s.protectedPos) =
      .ok (some (⟨s.events.size + 1, .RETURN_EXPR⟩, .notBlock),
        s.ov [tombLink, .start .RETURN_EXPR none, .token .RETURN_KW 1, .finish] 1 0 2 s.live s.protectedPos) := by
    sym_eval [filter_base s hpr, contains_base s hpr, h0, h1]
    rfl
  exact stmt_wrap2 (f + 6) s hr _ (by decide) h0 _ 1 1 2 _ _ hsub rfl rfl h1

/-- `return x ;` -/
theorem stmt_ret_some2 (x : X) (F : Nat) (s : P) (hr : RdyL 8 s) (hF : fuelX x + 9 ≤ F)
    (htk : Toks s s.pos (toksS2 (.ret (some x)))) (hc : CanonX 1 x) (hfirst : exprStmtFirst2 (firstX x) = true) :
    Acc (stmt F) s (toksS2 (.ret (some x))).length (evsS2 (.ret (some x))) := by
  obtain ⟨f, rfl⟩ : ∃ f, F = f + 7 + 2 := ⟨F - 9, by omega⟩
  simp only [toksS2, Toks, Toks_append, tk, List.length_cons, List.length_append, List.length_nil] at htk ⊢
  obtain ⟨h0, -, hte, hsemi, -, -⟩ := htk
  rw [show s.pos = s.pos + 0 from rfl] at h0
  have hnp := hr.hook
  have hpr := hr.prot
  have hlim := hr.lim
  have hst : s.steps + 1 ≤ s.stepLimit := by have := hr.steps; omega
  have hpr' : ∀ n, ∀ p ∈ s.protectedPos, p < s.events.size + n := fun n p hp => Nat.lt_add_right n (hr.prot p hp)
  obtain ⟨j1, ts, hts⟩ := toksX_first x
  have h1 : s.kindAt (s.pos + 1) = firstX x := by rw [hts] at hte; exact hte.1
  have hEF := exprStmtFirst2_isEF (h1 ▸ hfirst)
  unfold isEF at hEF
  have he : ∀ st sb lv E0, st + 5 ≤ s.stepLimit → Oq3.Grammar.expr (f + 2 + 1) (s.ov E0 1 st sb lv s.protectedPos) = _ :=
    fun st sb lv E0 h1 => (exprX_ok x).expr (f + 2) s E0 1 st sb lv s.protectedPos hr.hook h1 hr.lim (hpr' _)
      hte hc (by rw [hsemi]; rfl) (by omega)
  have hsemi' : s.kindAt (s.pos + (1 + (toksX x).length)) = .SEMICOLON := kindAt_pos hsemi (by omega)
  have hsub : exprStmt (f + 7 + 1) (some { pos := s.events.size + 0 })
      (s.ov [Ev.start SyntaxKind.TOMBSTONE none] 0 (s.steps + 1) (s.sinceBump + 1) (s.live + 1) s.protectedPos) =
      .ok (some (⟨s.events.size + 1, .RETURN_EXPR⟩, .notBlock),
        s.ov (tombLink :: .start .RETURN_EXPR none :: .token .RETURN_KW 1 :: (evsX x ++ [.finish])) (1 + (toksX x).length) 0
          (sbX x + 1) s.live s.protectedPos) := by
    sym_eval [filter_base s hpr, contains_base s hpr, h0, hEF, he, hsemi']
    rfl
  refine (stmt_wrap2 _ s hr _ (by decide) h0 _ _ 1 _ _ _ hsub rfl rfl hsemi').congr ?_ ?_
  · simp only [evsS2, wrapStmt, tombLink, exprStmtTail, List.set_cons_succ, List.set_cons_zero, List.cons_append, List.nil_append,
      List.append_assoc, List.length_cons, List.length_append, List.length_nil, Nat.add_sub_cancel]
  · omega
/-! ### assignments -/

/-- the loop iteration of `expr_bp` at the `=` of an assignment statement (target: identifier or
indexed identifier), up to the return of the loop after the `;` -/
theorem loop_assign (s : P) (hnp : s.noProgressLimit = 0) (hpr : ∀ p ∈ s.protectedPos, p < s.events.size)
    (p : Nat) (k : SyntaxKind) (hk : k = .IDENTIFIER ∨ k = .INDEXED_IDENTIFIER) (fp0 : Option Nat)
    (hp : s.events[p]? = some (.start k fp0))
    (h0 : s.kindAt (s.pos + 0) = .EQ) (h1 : s.kindAt (s.pos + 0 + 1) ≠ .EQ) (h2 : s.kindAt (s.pos + 0 + 1) ≠ .R_ANGLE)
    (f : Nat) (cmr : CompletedMarker) (Er : List Ev) (nr sbr : Nat)
    (hr : exprBp (f + 1) none { preferStmt := false } 12
        ((s.setEv p (Ev.start k (some (s.events.size + 0 - p)))).ov
          [Ev.start SyntaxKind.TOMBSTONE none, Ev.token .EQ 1] (0 + 1) 0 1 (s.live + 1)
          ((s.events.size + 0) :: s.protectedPos)) =
      .ok (some (cmr, .notBlock), (s.setEv p (Ev.start k (some (s.events.size + 0 - p)))).ov
          ([Ev.start SyntaxKind.TOMBSTONE none, Ev.token .EQ 1] ++ Er) (1 + nr) 0 sbr
          (s.live + 1) ((s.events.size + 0) :: s.protectedPos)))
    (hsemi : s.kindAt (s.pos + (1 + nr)) = .SEMICOLON)
    (hfol : StopsAt s (s.pos + (1 + nr + 1)) 1) :
    exprBpLoop (f + 1 + 1) { preferStmt := true } 1 ⟨p, k⟩ s =
      .ok (some (⟨s.events.size + 0, .ASSIGNMENT_STMT⟩, .notBlock),
        (s.setEv p (Ev.start k (some (s.events.size + 0 - p)))).ov
          (Ev.start SyntaxKind.ASSIGNMENT_STMT none :: Ev.token .EQ 1 :: (Er ++ [Ev.token .SEMICOLON 1, Ev.finish]))
          (1 + nr + 1) 0 2 s.live s.protectedPos) := by
  have hcur : ∀ E st sb lv pr, currentOp (s.ov E 0 st sb lv pr) =
      .ok ((12, SyntaxKind.EQ, Assoc.right), s.ov E 0 st sb lv pr) := by
    intro E st sb lv pr
    rw [currentOp_ov, opF_assign s (s.pos + 0) h0 h1 h2]
  have hpre := precede_base s hnp p k k fp0 hp
  have hcomp := fun E dp st sb lv pr i b kind =>
    complete_ov (s.setEv p (.start k (some (s.events.size + 0 - p)))) E dp st sb lv pr hnp i b kind
  simp only [setEv_size] at hcomp
  have hexp := fun E dp st sb lv pr =>
    expect_ov (s.setEv p (.start k (some (s.events.size + 0 - p)))) E dp st sb lv pr (by rw [setEv_npl]; exact hnp) .SEMICOLON rfl rfl
  simp only [setEv_kindAt, setEv_pos] at hexp
  have hop2 : ∀ E st sb lv pr, currentOp ((s.setEv p (.start k (some (s.events.size + 0 - p)))).ov E (1 + nr + 1) st sb lv pr) =
      .ok (opF s.kinds s.joint (s.pos + (1 + nr + 1)),
        (s.setEv p (.start k (some (s.events.size + 0 - p)))).ov E (1 + nr + 1) st sb lv pr) :=
    fun E st sb lv pr => currentOp_ov _ E _ st sb lv pr
  unfold StopsAt at hfol
  generalize opF s.kinds s.joint (s.pos + (1 + nr + 1)) = x at hfol hop2
  obtain ⟨pw, op, as⟩ := x
  have hlt : (pw < 1) = True := eq_true hfol
  apply of_ov
  rcases hk with hk | hk <;> subst hk <;>
  (sym_eval [hcur, hpre, h0, hr, hcomp, hexp, hsemi, hop2, hlt, setEv_size, setEv_kindAt, setEv_pos, setEv_npl, setEv_stepLimit,
    filter_base s hpr, contains_base s hpr, bne_self_eq_false]
   simp only [List.append_assoc, List.cons_append, List.nil_append])

/-- the targets of assignments: identifiers and indexed identifiers -/
def isTarget (p : Prim) : Prop := p.kind = .IDENTIFIER ∨ p.kind = .INDEXED_IDENTIFIER

theorem isTarget_lhsP (ixs : Option IdxList) : isTarget (lhsP ixs) := by
  cases ixs <;> simp [isTarget, lhsP, Prim.kind, X.kind]

theorem lastP_lhsP_endIn (ixs : Option IdxList) : EndOKL (lastP (lhsP ixs)) .EQ := by
  cases ixs <;> simp [lhsP, lastP, EndOKL, EndIn]

/-- `expr_bp` (statement restrictions, level 1) on `target = rhs ;` -/
theorem exprBp_assign (p : Prim) (hp : isTarget p) (hend : EndOKL (lastP p) .EQ) (rhs : X) (F : Nat) (s : P) (hr : RdyL 5 s)
    (hF : needX (.prim p) + fuelX rhs + 4 ≤ F)
    (htk : Toks s s.pos (toksP p ++ (tk .EQ :: (toksX rhs ++ [tk .SEMICOLON])))) (hcp : CanonP p) (hc : CanonX 12 rhs)
    (hfol : StopsAt s (s.pos + (toksP p ++ (tk .EQ :: (toksX rhs ++ [tk .SEMICOLON]))).length) 1) :
    exprBp F none { preferStmt := true } 1 s =
      .ok (some (⟨s.events.size + (lenP p + 1), .ASSIGNMENT_STMT⟩, .notBlock),
        s.ov (.start .TOMBSTONE (some (rootP p + 1)) :: (bodyP p (some (lenP p - rootP p)) ++
            (.start .ASSIGNMENT_STMT none :: .token .EQ 1 :: (evsX rhs ++ [.token .SEMICOLON 1, .finish]))))
          (toksP p ++ (tk .EQ :: (toksX rhs ++ [tk .SEMICOLON]))).length 0 2 s.live s.protectedPos) := by
  obtain ⟨g, rfl⟩ : ∃ g, F = (g + 1 + 1) + cFX (.prim p) := ⟨F - 3, by simp only [cFX]; omega⟩
  have hcf : cFX (.prim p) = 1 := rfl
  have hfx : 2 ≤ fuelX rhs := fuelX_pos rhs
  simp only [Toks_append, Toks, tk, List.length_append, List.length_cons, List.length_nil] at htk hfol ⊢
  obtain ⟨htp, heq, -, htr, hsemi, -, -⟩ := htk
  obtain ⟨jr, tsr, htsr⟩ := toksX_first rhs
  have hnext := xFirst_ne (firstX_xFirst rhs)
  have h2 : s.kindAt (s.pos + (toksP p).length + 1) = firstX rhs := by rw [htsr] at htr; exact htr.1
  have hnp := hr.hook
  have hpr := hr.prot
  refine mbaseX (.prim p) 1 (g + 1 + 1) _ s _ _ hr
    ⟨htp, by show EndOKL (lastP p) (s.kindAt (s.pos + (toksP p).length)); rw [heq]; exact hend, trivial⟩ hcp (by simp only [cFX] at hF; omega) ?_
  have hlen := lenP_pos p
  show exprBpLoop (g + 1 + 1) { preferStmt := true } 1 ⟨s.events.size + (rootP p + 1), p.kind⟩
      (s.ov (evsX (.prim p)) (toksP p).length 0 (sbP p) s.live s.protectedPos) = _
  generalize hs₁ : s.ov (evsX (.prim p)) (toksP p).length 0 (sbP p) s.live s.protectedPos = s₁
  have h1k : s₁.kinds = s.kinds := by rw [← hs₁]; rfl
  have h1j : s₁.joint = s.joint := by rw [← hs₁]; rfl
  have h1p : s₁.pos = s.pos + (toksP p).length := by rw [← hs₁]; rfl
  have h1n : s₁.noProgressLimit = 0 := by rw [← hs₁]; exact hnp
  have h1l : s₁.live = s.live := by rw [← hs₁]; rfl
  have h1pr : s₁.protectedPos = s.protectedPos := by rw [← hs₁]; rfl
  have h1lim : s₁.stepLimit = s.stepLimit := by rw [← hs₁]; rfl
  have hsz : s₁.events.size = s.events.size + (lenP p + 1) := by
    rw [← hs₁, show lenP p = lenX (.prim p) from rfl, ← evsX_length]; exact ov_size _ _
  have hpe : s₁.events[s.events.size + (rootP p + 1)]? = some (.start p.kind none) := by
    rw [← hs₁]
    show (s.events ++ (evsX (.prim p)).toArray)[s.events.size + (rootX (.prim p) + 1)]? = _
    rw [ov_get, evsX_root]; rfl
  generalize hs₂ : s₁.setEv (s.events.size + (rootP p + 1))
    (.start p.kind (some (s₁.events.size + 0 - (s.events.size + (rootP p + 1))))) = s₂
  have h2k : s₂.kinds = s.kinds := by rw [← hs₂]; exact h1k
  have h2j : s₂.joint = s.joint := by rw [← hs₂]; exact h1j
  have h2p : s₂.pos = s.pos + (toksP p).length := by rw [← hs₂]; exact h1p
  have h2n : s₂.noProgressLimit = 0 := by rw [← hs₂]; exact h1n
  have h2lim : s₂.stepLimit = s.stepLimit := by rw [← hs₂]; exact h1lim
  have h2sz : s₂.events.size = s.events.size + (lenP p + 1) := by rw [← hs₂, setEv_size]; exact hsz
  have hrr := (exprX_ok rhs).atEnd 12 (g + 1) { preferStmt := false } s₂
    [.start .TOMBSTONE none, .token .EQ 1] (0 + 1) 0 1 (s₁.live + 1)
    ((s₁.events.size + 0) :: s₁.protectedPos) h2n (by rw [h2lim]; have := hr.lim; omega) (by rw [h2lim]; exact hr.lim)
    (by
      intro q hq
      simp only [h2sz, hsz, h1pr, List.length_cons, List.length_nil] at hq ⊢
      rcases List.mem_cons.1 hq with h | h
      · omega
      · have := hpr q h; omega)
    ((Toks_kinds s s₂ h2k h2j _ _).2 (by rw [h2p]; exact Toks_pos htr (by omega))) hc (by decide) (by decide)
    (by rw [h2p]; simp only [P.kindAt, h2k]; rw [show s.pos + (toksP p).length + (0 + 1) + (toksX rhs).length =
        s.pos + (toksP p).length + 1 + (toksX rhs).length by omega]; rw [show s.kinds.getD _ .EOF = _ from hsemi]; rfl)
    (by omega)
  have := loop_assign s₁ h1n (by intro q hq; rw [h1pr] at hq; rw [hsz]; exact Nat.lt_add_right _ (hpr q hq))
    (s.events.size + (rootP p + 1)) p.kind hp none hpe
    (by rw [h1p]; simp only [P.kindAt, h1k]; exact heq)
    (by rw [h1p]; simp only [P.kindAt, h1k]; rw [show s.kinds.getD _ .EOF = _ from h2]; exact hnext.1.1)
    (by rw [h1p]; simp only [P.kindAt, h1k]; rw [show s.kinds.getD _ .EOF = _ from h2]; exact hnext.1.2.2.2.2.2.2.1)
    g _ (evsX rhs) (toksX rhs).length (sbX rhs) (by rw [hs₂]; exact hrr)
    (by rw [h1p]; simp only [P.kindAt, h1k]; exact kindAt_pos hsemi (by omega))
    ((StopsAt_kinds s s₁ h1k h1j _ _).2 (by rw [h1p]; unfold StopsAt at hfol ⊢; rw [show s.pos + (toksP p).length + (1 + (toksX rhs).length + 1) = s.pos + ((toksP p).length + ((toksX rhs).length + (0 + 1) + 1)) by omega]; exact hfol))
  rw [this]
  have eP : s₁.events.size + 0 = s.events.size + (lenP p + 1) := by rw [hsz]; rfl
  have eD : s₁.events.size + 0 - (s.events.size + (rootP p + 1)) = lenP p - rootP p := by rw [hsz]; omega
  rw [hs₂, eP, h1l, h1pr, ← hs₂, eD, ← hs₁, setEv_ov_ov]
  have e1 : (evsX (.prim p)).set (rootP p + 1) (.start p.kind (some (lenP p - rootP p))) =
      .start .TOMBSTONE (some (rootP p + 1)) :: bodyP p (some (lenP p - rootP p)) :=
    evsX_set_root (.prim p) (some (lenP p - rootP p))
  rw [e1]
  refine ok_ov_congr _ _ _ _ _ _ _ _ _ _ _ rfl ?_ (by omega)
  simp only [List.cons_append, List.nil_append, List.append_assoc]


theorem toksP_lhsP_first (ixs : Option IdxList) : ∃ ts, toksP (lhsP ixs) = tk .IDENT :: ts := by
  cases ixs <;> exact ⟨_, rfl⟩

def CanonTarget : Option IdxList → Prop
  | none => True
  | some ixs => CanonIdx ixs ∧ IdxFirstOK ixs

theorem canonP_lhsP (ixs : Option IdxList) (h : CanonTarget ixs) : CanonP (lhsP ixs) := by
  cases ixs with
  | none => trivial
  | some ixs => exact h

/-- `x = rhs ;` / `x[…] = rhs ;`: `rhs` is canonical at the level of `=` (F06), and the token after the `;`
does not continue the assignment as a binary expression (F09e) -/
theorem stmt_assign2 (ixs : Option IdxList) (rhs : X) (F : Nat) (s : P) (hr : RdyL 8 s)
    (hF : needX (.prim (lhsP ixs)) + fuelX rhs + 6 ≤ F)
    (htk : Toks s s.pos (toksS2 (.assign ixs rhs))) (hct : CanonTarget ixs) (hc : CanonX 12 rhs)
    (hfol : StopsAt s (s.pos + (toksS2 (.assign ixs rhs)).length) 1) :
    Acc (stmt F) s (toksS2 (.assign ixs rhs)).length (evsS2 (.assign ixs rhs)) := by
  obtain ⟨f, rfl⟩ : ∃ f, F = f + 1 + 1 := ⟨F - 2, by omega⟩
  simp only [toksS2] at htk hfol ⊢
  obtain ⟨ts, hts⟩ := toksP_lhsP_first ixs
  have h0 : s.kindAt (s.pos + 0) = .IDENT := by
    simp only [Toks_append, hts, Toks, tk] at htk; exact htk.1.1
  have hnp := hr.hook
  have hpr := hr.prot
  have hst : s.steps ≤ s.stepLimit := by have := hr.steps; omega
  have hpr' : ∀ n, ∀ p ∈ s.protectedPos, p < s.events.size + n := fun n p hp => Nat.lt_add_right n (hr.prot p hp)
  have hmain := exprBp_assign (lhsP ixs) (isTarget_lhsP ixs) (lastP_lhsP_endIn ixs) rhs f
    (s.ov [] 0 (s.steps + 1) s.sinceBump s.live s.protectedPos)
    (RdyL_ov 5 s _ _ _ _ _ _ hr.hook (by have := hr.steps; omega) (hpr' _) hr.lim) (by omega)
    ((Toks_ov s _ _ _ _ _ _ _ _).2 (by show Toks s (s.pos + 0) _; exact htk)) (canonP_lhsP ixs hct) hc
    ((StopsAt_kinds s _ rfl rfl _ _).2 (by show StopsAt s (s.pos + 0 + _) 1; exact hfol))
  rw [ov_ov] at hmain
  simp only [List.nil_append, Nat.zero_add, ov_live, ov_prot, ov_events_size, List.length_nil, Nat.add_zero] at hmain
  have hsub : exprStmt (f + 1) (some { pos := s.events.size + 0 })
      (s.ov [Ev.start SyntaxKind.TOMBSTONE none] 0 (s.steps + 1) (s.sinceBump + 1) (s.live + 1) s.protectedPos) =
      .ok (some (⟨s.events.size + (lenP (lhsP ixs) + 1), .ASSIGNMENT_STMT⟩, .notBlock),
        s.ov (evsS2 (.assign ixs rhs)) (toksP (lhsP ixs) ++ (tk .EQ :: (toksX rhs ++ [tk .SEMICOLON]))).length 0 2 s.live s.protectedPos) := by
    obtain ⟨f', rfl⟩ : ∃ f', f = f' + 1 := ⟨f - 1, by omega⟩
    rw [exprStmt.run_2]
    have := exprBp_some f' { preferStmt := true } 1 s hr.hook [] 0 (s.steps + 1) s.sinceBump s.live s.protectedPos
    simp only [List.nil_append, List.length_nil] at this
    rw [this, hmain]
    rfl
  refine ⟨0, 2, Nat.zero_le _, of_ov _ _ _ ?_⟩
  sym_eval [filter_base s hpr, contains_base s hpr, h0, hsub]
  rfl

end Oq3.LangEv2
