/-
`sym_eval`: a call-by-value symbolic evaluator for runs of the grammar model on overlay states
(`Oq3/Lemmas/SymExec.lean`).

Goal `prog S = R`, where `S` is an overlay state with concrete overlay data and the next tokens
are given by hypotheses.  The tactic evaluates the left-hand side head first —
`(x >>= f) S` by evaluating `x S` to a value and then `f a S'`; `if`s by deciding their
condition; `match`es by constructor reduction; calls of fuel-indexed grammar functions with their
`.run` equation; calls of leaf functions by unfolding; API primitives by rewriting with the
`*_ov` closed forms — and builds the proof term from the step lemmas below.  It leaves the goal
`V = R` for the computed value `V`.  Nothing is trusted: the result is an ordinary proof term.
-/
import Lean
import Oq3.Lemmas.SymExec
set_option linter.unusedSimpArgs false

namespace Oq3.Parser

theorem bind_step {α β} (x : G α) (f : α → G β) (S : P) (a : α) (s1 : P)
    (v : Except Outcome (β × P)) (h1 : x S = .ok (a, s1)) (h2 : f a s1 = v) : (x >>= f) S = v := by
  rw [G.bind_apply, h1]; exact h2

theorem bind_err {α β} (x : G α) (f : α → G β) (S : P) (e : Outcome) (h1 : x S = .error e) :
    (x >>= f) S = .error e := by
  rw [G.bind_apply, h1]

theorem ite_pos_step {α} (c : Prop) [Decidable c] (x y : G α) (S : P) (h : c = True) :
    (if c then x else y) S = x S := by
  have : c := by rw [h]; trivial
  simp only [this, if_true]

theorem ite_neg_step {α} (c : Prop) [Decidable c] (x y : G α) (S : P) (h : c = False) :
    (if c then x else y) S = y S := by
  have : ¬ c := by rw [h]; exact not_false
  simp only [this, if_false]

theorem andM_eq (x y : G Bool) (S : P) :
    (x <&&> y) S = (x >>= fun b => if b = true then y else pure false) S := by
  rw [G.andM_apply, G.bind_apply]
  cases x S with
  | error e => rfl
  | ok p => obtain ⟨b, s1⟩ := p; cases b <;> rfl

theorem orM_eq (x y : G Bool) (S : P) :
    (x <||> y) S = (x >>= fun b => if b = true then pure true else y) S := by
  rw [G.orM_apply, G.bind_apply]
  cases x S with
  | error e => rfl
  | ok p => obtain ⟨b, s1⟩ := p; cases b <;> rfl

theorem notM_eq (x : G Bool) (S : P) : (notM x) S = (x >>= fun b => pure (!b)) S := by
  rw [G.notM_apply, G.bind_apply]
  cases x S with
  | error e => rfl
  | ok p => rfl

end Oq3.Parser

namespace Oq3.Grammar
open Oq3.Gen Oq3.Parser
open Oq3.Gen.Ops (Assoc)

/-- no row of `current_op` starts with `cur`: NOT_AN_OP, state untouched -/
theorem currentOpScan_none (cur : SyntaxKind)
    (rows : List (SyntaxKind × Option SyntaxKind × Option (Nat × SyntaxKind × Assoc)))
    (h : rows.any (fun r => r.1 == cur) = false) (S : P) :
    currentOpScan cur rows S = .ok (notAnOp, S) := by
  induction rows with
  | nil => rfl
  | cons r rows ih =>
    obtain ⟨k, guard, res⟩ := r
    simp only [List.any_cons, Bool.or_eq_false_iff] at h
    unfold currentOpScan
    simp only [h.1, Bool.false_eq_true, if_false]
    exact ih h.2

/-- the tokens with which an operator of `current_op` can start -/
def opFirst (k : SyntaxKind) : Bool := Ops.currentOpRows.any (fun r => r.1 == k)

/-- `current_op` on a token that starts no operator (the `Follow` condition of an assignment) -/
theorem currentOp_follow (s : P) (k : SyntaxKind) (dp : Nat) (hk : s.kindAt (s.pos + dp) = k)
    (hf : opFirst k = false) (E : List Ev) (st sb lv : Nat) (pr : List Nat) :
    currentOp (s.ov E dp st sb lv pr) = .ok (notAnOp, s.ov E dp st sb lv pr) := by
  unfold currentOp
  rw [G.bind_apply, current_ov, hk]
  exact currentOpScan_none k _ hf _

end Oq3.Grammar

namespace Oq3.SymExec
open Lean Meta Elab Tactic

/-- evaluate a closed `Bool` term by definitional unfolding -/
def reduceClosedBoolImpl (e : Expr) : SimpM Simp.DStep := do
  if e.hasFVar || e.hasMVar then return .continue
  if e.isConstOf ``true || e.isConstOf ``false then return .continue
  let v ← whnfD e
  if v.isConstOf ``true || v.isConstOf ``false then return .done v
  return .continue

dsimproc_decl closedIsClassicalType (Oq3.Parser.isClassicalType _) := reduceClosedBoolImpl
dsimproc_decl closedIsType (Oq3.Parser.isType _) := reduceClosedBoolImpl
dsimproc_decl closedIsCregOrQreg (Oq3.Parser.isCregOrQreg _) := reduceClosedBoolImpl
dsimproc_decl closedIsScalarType (Oq3.Gen.SyntaxKind.isScalarType _) := reduceClosedBoolImpl
dsimproc_decl closedTypeCanHaveDesignator (Oq3.Grammar.typeCanHaveDesignator _) := reduceClosedBoolImpl
dsimproc_decl closedIsBlock (Oq3.Grammar.BlockLike.isBlock _) := reduceClosedBoolImpl
dsimproc_decl closedIsBlocklike (Oq3.Grammar.BlockLike.isBlocklike _) := reduceClosedBoolImpl
dsimproc_decl closedBEq (_ == _) := reduceClosedBoolImpl
dsimproc_decl closedBNe (_ != _) := reduceClosedBoolImpl
dsimproc_decl closedContains (List.contains _ _) := reduceClosedBoolImpl

structure EvalCtx where
  simp : Expr → MetaM Simp.Result
  /-- rewriting with the user-supplied rules only (tried first on calls of grammar functions) -/
  userSimp : Expr → MetaM Simp.Result
  /-- names of definitions that are evaluated by unfolding -/
  unfold : Name → Bool

def isValue (e : Expr) : Bool := e.isAppOf ``Except.ok || e.isAppOf ``Except.error

/-- `Except.ok (a, s1)` ↦ `(a, s1)` -/
def okParts (v : Expr) : MetaM (Option (Expr × Expr)) := do
  if !v.isAppOf ``Except.ok then return none
  let pr ← whnfCore v.appArg!
  if pr.isAppOfArity ``Prod.mk 4 then
    return some (pr.getAppArgs[2]!, pr.getAppArgs[3]!)
  return none

/-- proof of `e = r.expr` also when `simp` only reports definitional equality -/
def proofOf (e : Expr) (r : Simp.Result) : MetaM Expr := do
  match r.proof? with
  | some p => return p
  | none => mkExpectedTypeHint (← mkEqRefl e) (← mkEq e r.expr)

partial def eval (cx : EvalCtx) (e0 : Expr) : MetaM (Expr × Expr) := do
  let e0 ← instantiateMVars e0
  let e ← whnfCore e0
  let finish (v pf : Expr) : MetaM (Expr × Expr) := do
    let pf ← instantiateMVars pf
    if pf.hasExprMVar then
      throwError "sym_eval: internal: metavariable left in the proof of the step at{indentExpr e0}\nproof{indentExpr (pf.headBeta)}"
    return (v, ← mkExpectedTypeHint pf (← mkEq e0 v))
  if isValue e then
    return (e, ← mkEqRefl e)
  let fn := e.getAppFn
  let args := e.getAppArgs
  -- (x >>= f) S
  if fn.isConstOf ``Bind.bind && args.size == 7 then
    let α := args[2]!; let β := args[3]!; let x := args[4]!; let f := args[5]!; let S := args[6]!
    let (v1, p1) ← eval cx (mkApp x S)
    match ← okParts v1 with
    | some (a, s1) =>
      let e2 := (mkApp2 f a s1).headBeta
      let (v, p2) ← eval cx e2
      let p2' ← mkExpectedTypeHint p2 (← mkEq (mkApp2 f a s1) v)
      let pf ← mkAppOptM ``Oq3.Parser.bind_step #[α, β, x, f, S, a, s1, v, p1, p2']
      return ← finish v pf
    | none =>
      if v1.isAppOf ``Except.error then
        let err := v1.appArg!
        let pf ← mkAppOptM ``Oq3.Parser.bind_err #[α, β, x, f, S, err, p1]
        let ty ← inferType pf
        let some (_, _, v) := ty.eq? | throwError "sym_eval: internal (bind_err)"
        return ← finish v pf
      throwError "sym_eval: the run is stuck at{indentExpr v1}"
  -- (if c then x else y) S
  if fn.isConstOf ``ite && args.size == 6 then
    let α' := args[0]!; let c := args[1]!; let inst := args[2]!; let x := args[3]!; let y := args[4]!
    let S := args[5]!
    let r ← cx.simp c
    let hc ← proofOf c r
    -- `α'` is `G α`; the lemmas want `α`
    let gα ← whnfR α'
    let _ := gα
    if r.expr.isConstOf ``True then
      let (v, p2) ← eval cx (mkApp x S)
      let p0 ← mkAppOptM ``Oq3.Parser.ite_pos_step #[none, c, inst, x, y, S, hc]
      let _ := inst
      return ← finish v (← mkEqTrans p0 p2)
    else if r.expr.isConstOf ``False then
      let (v, p2) ← eval cx (mkApp y S)
      let p0 ← mkAppOptM ``Oq3.Parser.ite_neg_step #[none, c, inst, x, y, S, hc]
      return ← finish v (← mkEqTrans p0 p2)
    else
      throwError "sym_eval: cannot decide the condition{indentExpr c}\nsimplified to{indentExpr r.expr}"
  -- fuel-indexed grammar function with a `.run` equation, or an unfoldable leaf definition
  if let .const n _ := fn then
    if (`Oq3.Grammar).isPrefixOf n then
      let r ← cx.userSimp e
      if r.expr != e then
        let p1 ← proofOf e r
        let (v, p2) ← eval cx r.expr
        return ← finish v (← mkEqTrans p1 p2)
    let mut hasRun := false
    for runName in (List.range 20).map (fun i => n ++ Name.mkSimple s!"run_{i + 1}") do
      if (← getEnv).contains runName then
        hasRun := true
        let thm ← mkConstWithFreshMVarLevels runName
        let (mvars, _, ty) ← forallMetaTelescope (← inferType thm)
        let some (_, lhs, rhs) := ty.eq? | throwError "sym_eval: bad run lemma {runName}"
        if ← withReducible (isDefEq lhs e) then
          let rhs ← instantiateMVars rhs
          let p0 ← instantiateMVars (mkAppN thm mvars)
          let (v, p2) ← eval cx rhs
          return ← finish v (← mkEqTrans p0 p2)
    let _ := hasRun
    if cx.unfold n then
      if let some e2 ← unfoldDefinition? e then
        let (v, p2) ← eval cx e2
        return ← finish v p2
  -- anything else: one rewriting pass with the closed forms of the primitives
  let r ← cx.simp e
  if r.expr == e then
    throwError "sym_eval: the run is stuck (or out of fuel) at{indentExpr e}"
  let p1 ← proofOf e r
  let (v, p2) ← eval cx r.expr
  finish v (← mkEqTrans p1 p2)

open Oq3.Parser in
/-- `sym_eval [h₁, …]`: evaluate the left-hand side of the goal `prog S = R` (see the module
doc); the `hᵢ` are the token hypotheses and any further rewrite rules for values. -/
elab "sym_eval" "[" hs:Lean.Parser.Tactic.simpLemma,* "]" : tactic => withMainContext do
  let stx ← `(tactic| simp (config := { decide := true }) (disch := first | assumption | decide | omega) only
    [andM_eq, orM_eq, notM_eq, G.pure_apply, G.fail_apply, G.panic_apply,
     current_ov, nth_ov, at_ov, atTs_ov,
     at_comp2_ov _ _ _ _ _ _ _ .MINUSEQ .MINUS .EQ (by decide),
     at_comp2_ov _ _ _ _ _ _ _ .THIN_ARROW .MINUS .R_ANGLE (by decide),
     at_comp2_ov _ _ _ _ _ _ _ .COLON2 .COLON .COLON (by decide),
     at_comp2_ov _ _ _ _ _ _ _ .NEQ .BANG .EQ (by decide),
     at_comp2_ov _ _ _ _ _ _ _ .DOT2 .DOT .DOT (by decide),
     at_comp2_ov _ _ _ _ _ _ _ .STAREQ .STAR .EQ (by decide),
     at_comp2_ov _ _ _ _ _ _ _ .SLASHEQ .SLASH .EQ (by decide),
     at_comp2_ov _ _ _ _ _ _ _ .AMP2 .AMP .AMP (by decide),
     at_comp2_ov _ _ _ _ _ _ _ .AMPEQ .AMP .EQ (by decide),
     at_comp2_ov _ _ _ _ _ _ _ .PERCENTEQ .PERCENT .EQ (by decide),
     at_comp2_ov _ _ _ _ _ _ _ .CARETEQ .CARET .EQ (by decide),
     at_comp2_ov _ _ _ _ _ _ _ .PLUSEQ .PLUS .EQ (by decide),
     at_comp2_ov _ _ _ _ _ _ _ .DOUBLE_PLUS .PLUS .PLUS (by decide),
     at_comp2_ov _ _ _ _ _ _ _ .DOUBLE_STAR .STAR .STAR (by decide),
     at_comp2_ov _ _ _ _ _ _ _ .SHL .L_ANGLE .L_ANGLE (by decide),
     at_comp2_ov _ _ _ _ _ _ _ .LTEQ .L_ANGLE .EQ (by decide),
     at_comp2_ov _ _ _ _ _ _ _ .EQ2 .EQ .EQ (by decide),
     at_comp2_ov _ _ _ _ _ _ _ .FAT_ARROW .EQ .R_ANGLE (by decide),
     at_comp2_ov _ _ _ _ _ _ _ .GTEQ .R_ANGLE .EQ (by decide),
     at_comp2_ov _ _ _ _ _ _ _ .SHR .R_ANGLE .R_ANGLE (by decide),
     at_comp2_ov _ _ _ _ _ _ _ .PIPEEQ .PIPE .EQ (by decide),
     at_comp2_ov _ _ _ _ _ _ _ .PIPE2 .PIPE .PIPE (by decide),
     at_comp3_ov _ _ _ _ _ _ _ .DOT3 .DOT .DOT .DOT (by decide),
     at_comp3_ov _ _ _ _ _ _ _ .DOT2EQ .DOT .DOT .EQ (by decide),
     at_comp3_ov _ _ _ _ _ _ _ .SHLEQ .L_ANGLE .L_ANGLE .EQ (by decide),
     at_comp3_ov _ _ _ _ _ _ _ .SHREQ .R_ANGLE .R_ANGLE .EQ (by decide), error_ov, start_ov, doBump_ov,
     eat_ov, bump_ov, bumpAny_ov, expect_ov, complete_ov, abandon_ov, precede_ov, extendTo_ov,
     Oq3.Grammar.currentOpScan_none, Oq3.Grammar.notAnOp, Oq3.Gen.Ops.currentOpRows,
     List.nil_append, List.cons_append, List.length_cons, List.length_nil,
     List.getElem?_cons_zero, List.getElem?_cons_succ, List.getElem?_nil, List.set_cons_zero, List.set_cons_succ,
     List.getLast?_cons_cons, List.getLast?_singleton, List.dropLast_cons_cons, List.dropLast_singleton,
     List.filter_cons, List.contains_cons,
     Nat.reduceAdd, Nat.reduceSub, Nat.add_sub_cancel, Nat.reduceEqDiff, Nat.reduceBEq, Nat.reduceBNe,
     if_true, if_false, Bool.false_eq_true, Bool.true_eq_false, Bool.or_false, Bool.false_or,
     Option.getD_some, Option.getD_none, dbg, Oq3.Grammar.DefFlavor.listKind,
     Option.map_some, Option.map_none, Option.isSome_some, Option.isSome_none, Option.isNone_some, Option.isNone_none,
     Bool.or_eq_true, beq_iff_eq, bne_iff_ne, ne_eq, Nat.add_left_cancel_iff, or_false, false_or, or_self, not_false_eq_true,
     not_true_eq_false, decide_true, decide_false, decide_not,
     closedIsClassicalType, closedIsType, closedIsCregOrQreg, closedIsScalarType, closedTypeCanHaveDesignator,
     closedIsBlock, closedIsBlocklike, closedBEq, closedBNe, closedContains,
     Bool.false_and, Bool.and_false, Bool.true_and, Bool.and_true, Bool.true_or, Bool.or_true, Bool.not_true,
     Bool.not_false, $hs,*])
  let goal ← getMainGoal
  let tgt ← instantiateMVars (← goal.getType)
  let some (_, lhs, rhs) := tgt.eq? | throwError "sym_eval: the goal is not an equation"
  let ustx ← `(tactic| simp (config := { decide := true }) (disch := first | assumption | decide | omega) only
    [$hs,*])
  let res ← mkSimpContext stx false
  let ures ← mkSimpContext ustx false
  let env ← getEnv
  let unfold : Name → Bool := fun n =>
    (`Oq3.Grammar).isPrefixOf n && !(env.contains (n ++ `run_1))
  let (v, pf) ← res.dischargeWrapper.with fun d? => ures.dischargeWrapper.with fun ud? => do
    let cx : EvalCtx :=
      { simp := fun e => do
          let (r, _) ← Lean.Meta.simp e res.ctx res.simprocs d?
          pure r
        userSimp := fun e => do
          let (r, _) ← Lean.Meta.simp e ures.ctx ures.simprocs ud?
          pure r
        unfold := unfold }
    eval cx lhs
  let pf ← instantiateMVars pf
  if pf.hasExprMVar then
    let mvs := (pf.collectMVars {}).result
    let mut msg := m!"sym_eval: internal: unassigned metavariables in the proof:"
    for mv in mvs do
      msg := msg ++ m!"\n  {mkMVar mv} : {← mv.getType}"
    throwError msg
  let newGoal ← mkFreshExprSyntheticOpaqueMVar (← mkEq v rhs)
  goal.assign (← mkEqTrans pf newGoal)
  replaceMainGoal [newGoal.mvarId!]

/-- `gen_runs f` adds, for every equation lemma `f.eq_i` of `f` (`i ≥ 1`), its version applied to a
parser state: `f.run_i : f <patterns> s = <body> s` -/
elab "gen_runs " f:ident : command => Command.liftTermElabM do
  let fname ← realizeGlobalConstNoOverloadWithInfo f
  let some eqns ← getEqnsFor? fname | throwError "no equation lemmas for {fname}"
  for h : i in [0:eqns.size] do
    let eqName := eqns[i]
    let info ← getConstInfo eqName
    let pf ← forallTelescope info.type fun xs _ => do
      let eqPf := mkAppN (mkConst eqName (info.levelParams.map mkLevelParam)) xs
      withLocalDeclD `s (mkConst ``Oq3.Parser.P) fun sv => do
        let pf ← mkCongrFun eqPf sv
        mkLambdaFVars (xs.push sv) pf
    let ty ← instantiateMVars (← inferType pf)
    let nm := fname ++ (Name.mkSimple s!"run_{i + 1}")
    addDecl <| .thmDecl { name := nm, levelParams := info.levelParams, type := ty, value := pf }

end Oq3.SymExec
