/-
Helper lemmas for `Oq3.Props.C14`, `LexedStr` layer: byte slicing on character boundaries, the
closed form of `LexedStr::new`, and totality of `to_input`.  Core only (no Mathlib).
-/
import Oq3.Lemmas.Lexer

namespace Oq3.Lemmas.Lexed
open Oq3.Lexer Oq3.Lexed Oq3.Gen Oq3.Lemmas.Lexer

/-! ### byte slicing -/

theorem dropBytes_zero (s : List Char) : dropBytes s 0 = some s := by
  cases s <;> simp [dropBytes]

theorem takeBytes_zero (s : List Char) : takeBytes s 0 = some [] := by
  cases s <;> simp [takeBytes]

theorem dropBytes_append (a r : List Char) : dropBytes (a ++ r) (utf8Len a) = some r := by
  induction a with
  | nil => simp [utf8Len, dropBytes_zero]
  | cons c cs ih =>
    have := Char.utf8Size_pos c
    simp only [List.cons_append, utf8Len, dropBytes]
    rw [if_neg (by omega), if_pos (by omega)]
    rw [show c.utf8Size + utf8Len cs - c.utf8Size = utf8Len cs by omega]
    exact ih

theorem takeBytes_append (b r : List Char) : takeBytes (b ++ r) (utf8Len b) = some b := by
  induction b with
  | nil => simp [utf8Len, takeBytes_zero]
  | cons c cs ih =>
    have := Char.utf8Size_pos c
    simp only [List.cons_append, utf8Len, takeBytes]
    rw [if_neg (by omega), if_pos (by omega)]
    rw [show c.utf8Size + utf8Len cs - c.utf8Size = utf8Len cs by omega, ih]
    rfl

/-- `&(a ++ b ++ c)[|a| .. |a|+|b|] = b` -/
theorem sliceBytes_append (a b c : List Char) :
    sliceBytes (a ++ b ++ c) (utf8Len a) (utf8Len a + utf8Len b) = some b := by
  unfold sliceBytes
  rw [if_pos (by omega), List.append_assoc, dropBytes_append]
  simp only [Option.bind_some]
  rw [show utf8Len a + utf8Len b - utf8Len a = utf8Len b by omega]
  exact takeBytes_append b c


/-! ### closed form of `LexedStr::new` -/

/-- the `SyntaxKind` `inner_extend_token` assigns to a token -/
def synKind (t : Token) : SyntaxKind := (innerExtendToken t.kind t.text).2.1

/-- the error message `inner_extend_token` assigns to a token (`""` = none) -/
def errMsg (t : Token) : String := (innerExtendToken t.kind t.text).1

/-- start offsets of consecutive tokens from `off` -/
def offsets (off : Nat) : List Token → List Nat
  | [] => []
  | t :: ts => off :: offsets (off + utf8Len t.text) ts

/-- lexer errors of consecutive tokens, the first having index `idx` -/
def specErrors (idx : Nat) : List Token → List LexError
  | [] => []
  | t :: ts =>
    (if (errMsg t).isEmpty then [] else [⟨errMsg t, idx⟩]) ++ specErrors (idx + 1) ts

def texts (ts : List Token) : List Char := (ts.map (·.text)).flatten

theorem extendLiteralFunc_len (n : Nat) (k : LiteralKind) : (extendLiteralFunc n k).2.2 = n := by
  cases k <;> rfl

theorem innerExtendToken_len (k : TokenKind) (txt : List Char) :
    (innerExtendToken k txt).2.2 = utf8Len txt := by
  cases k <;> simp only [innerExtendToken, extendLiteralFunc_len]
  split <;> rfl

theorem extendToken_eq (c : Converter) (k : TokenKind) (txt : List Char) :
    c.extendToken k txt =
      ⟨{ text := c.res.text
         kind := c.res.kind ++ [(innerExtendToken k txt).2.1]
         start := c.res.start ++ [c.offset]
         error := c.res.error ++
           (if (innerExtendToken k txt).1.isEmpty then []
            else [⟨(innerExtendToken k txt).1, c.res.kind.length⟩]) },
       c.offset + utf8Len txt⟩ := by
  simp only [Converter.extendToken, Converter.push, LexedStr.push, innerExtendToken_len]
  split <;> rename_i h
  · split at h
    · cases h
    · cases h; simp [*, LexedStr.len]
  · split at h
    · simp [*]
    · cases h

theorem texts_cons (t : Token) (ts : List Token) : texts (t :: ts) = t.text ++ texts ts := by
  simp [texts]

/-- the conversion loop never slices off a character boundary, and computes this -/
theorem loop_closed : ∀ (ts : List Token) (c : Converter) (pre post : List Char),
    c.res.text = pre ++ texts ts ++ post → c.offset = utf8Len pre →
    (∀ t ∈ ts, t.len = utf8Len t.text) →
    c.loop (ts.map fun t => (t.kind, t.len)) =
      some ⟨{ text := c.res.text
              kind := c.res.kind ++ ts.map synKind
              start := c.res.start ++ offsets c.offset ts
              error := c.res.error ++ specErrors c.res.kind.length ts },
            c.offset + utf8Len (texts ts)⟩ := by
  intro ts
  induction ts with
  | nil => intro c pre post _ _ _; simp [Converter.loop, offsets, specErrors, texts, utf8Len]
  | cons t ts ih =>
    intro c pre post htext hoff hlen
    have ht : t.len = utf8Len t.text := hlen t (by simp)
    simp only [List.map_cons, Converter.loop]
    have hslice : (dropBytes c.res.text c.offset).bind (fun r => takeBytes r t.len) = some t.text := by
      rw [htext, hoff, texts_cons, List.append_assoc, dropBytes_append, ht]
      simp only [Option.bind_some, List.append_assoc]
      exact takeBytes_append _ _
    rw [hslice]
    simp only []
    have := ih (c.extendToken t.kind t.text) (pre ++ t.text) post
      (by rw [extendToken_eq]; simp [htext, texts_cons])
      (by rw [extendToken_eq]; simp [hoff, utf8Len_append])
      (fun t' h' => hlen t' (by simp [h']))
    rw [this, extendToken_eq]
    simp [offsets, specErrors, synKind, errMsg, texts_cons, utf8Len_append, Nat.add_assoc]

end Oq3.Lemmas.Lexed
