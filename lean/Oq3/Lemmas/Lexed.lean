/-
Helper lemmas for `Oq3.Props.C14`, `LexedStr` layer: byte slicing on character boundaries, the
closed form of `LexedStr::new`, and totality of `to_input`.  Core only (no Mathlib).
-/
import Oq3.Lemmas.Lexer

namespace Oq3.Lemmas.Lexed
open Oq3.Lexer Oq3.Lexed Oq3.Gen Oq3.Lemmas.Lexer

/-! ### byte slicing -/

theorem dropBytes_zero (s : List Char) : dropBytes s 0 = some s := by
  cases s <;> simp [dropBytes]

theorem takeBytes_zero (s : List Char) : takeBytes s 0 = some [] := by
  cases s <;> simp [takeBytes]

theorem dropBytes_append (a r : List Char) : dropBytes (a ++ r) (utf8Len a) = some r := by
  induction a with
  | nil => simp [utf8Len, dropBytes_zero]
  | cons c cs ih =>
    have := Char.utf8Size_pos c
    simp only [List.cons_append, utf8Len, dropBytes]
    rw [if_neg (by omega), if_pos (by omega)]
    rw [show c.utf8Size + utf8Len cs - c.utf8Size = utf8Len cs by omega]
    exact ih

theorem takeBytes_append (b r : List Char) : takeBytes (b ++ r) (utf8Len b) = some b := by
  induction b with
  | nil => simp [utf8Len, takeBytes_zero]
  | cons c cs ih =>
    have := Char.utf8Size_pos c
    simp only [List.cons_append, utf8Len, takeBytes]
    rw [if_neg (by omega), if_pos (by omega)]
    rw [show c.utf8Size + utf8Len cs - c.utf8Size = utf8Len cs by omega, ih]
    rfl

/-- `&(a ++ b ++ c)[|a| .. |a|+|b|] = b` -/
theorem sliceBytes_append (a b c : List Char) :
    sliceBytes (a ++ b ++ c) (utf8Len a) (utf8Len a + utf8Len b) = some b := by
  unfold sliceBytes
  rw [if_pos (by omega), List.append_assoc, dropBytes_append]
  simp only [Option.bind_some]
  rw [show utf8Len a + utf8Len b - utf8Len a = utf8Len b by omega]
  exact takeBytes_append b c


/-! ### closed form of `LexedStr::new` -/

/-- the `SyntaxKind` `inner_extend_token` assigns to a token -/
def synKind (t : Token) : SyntaxKind := (innerExtendToken t.kind t.text).2.1

/-- the error message `inner_extend_token` assigns to a token (`""` = none) -/
def errMsg (t : Token) : String := (innerExtendToken t.kind t.text).1

/-- start offsets of consecutive tokens from `off` -/
def offsets (off : Nat) : List Token → List Nat
  | [] => []
  | t :: ts => off :: offsets (off + utf8Len t.text) ts

/-- lexer errors of consecutive tokens, the first having index `idx` -/
def specErrors (idx : Nat) : List Token → List LexError
  | [] => []
  | t :: ts =>
    (if (errMsg t).isEmpty then [] else [⟨errMsg t, idx⟩]) ++ specErrors (idx + 1) ts

def texts (ts : List Token) : List Char := (ts.map (·.text)).flatten

theorem extendLiteralFunc_len (n : Nat) (k : LiteralKind) : (extendLiteralFunc n k).2.2 = n := by
  cases k <;> rfl

theorem innerExtendToken_len (k : TokenKind) (txt : List Char) :
    (innerExtendToken k txt).2.2 = utf8Len txt := by
  cases k <;> simp only [innerExtendToken, extendLiteralFunc_len]
  split <;> rfl

theorem extendToken_eq (c : Converter) (k : TokenKind) (txt : List Char) :
    c.extendToken k txt =
      ⟨{ text := c.res.text
         kind := c.res.kind ++ [(innerExtendToken k txt).2.1]
         start := c.res.start ++ [c.offset]
         error := c.res.error ++
           (if (innerExtendToken k txt).1.isEmpty then []
            else [⟨(innerExtendToken k txt).1, c.res.kind.length⟩]) },
       c.offset + utf8Len txt⟩ := by
  simp only [Converter.extendToken, Converter.push, LexedStr.push, innerExtendToken_len]
  split <;> rename_i h
  · split at h
    · cases h
    · cases h; simp [*, LexedStr.len]
  · split at h
    · simp [*]
    · cases h

theorem texts_cons (t : Token) (ts : List Token) : texts (t :: ts) = t.text ++ texts ts := by
  simp [texts]

/-- the conversion loop never slices off a character boundary, and computes this -/
theorem loop_closed : ∀ (ts : List Token) (c : Converter) (pre post : List Char),
    c.res.text = pre ++ texts ts ++ post → c.offset = utf8Len pre →
    (∀ t ∈ ts, t.len = utf8Len t.text) →
    c.loop (ts.map fun t => (t.kind, t.len)) =
      some ⟨{ text := c.res.text
              kind := c.res.kind ++ ts.map synKind
              start := c.res.start ++ offsets c.offset ts
              error := c.res.error ++ specErrors c.res.kind.length ts },
            c.offset + utf8Len (texts ts)⟩ := by
  intro ts
  induction ts with
  | nil => intro c pre post _ _ _; simp [Converter.loop, offsets, specErrors, texts, utf8Len]
  | cons t ts ih =>
    intro c pre post htext hoff hlen
    have ht : t.len = utf8Len t.text := hlen t (by simp)
    simp only [List.map_cons, Converter.loop]
    have hslice : (dropBytes c.res.text c.offset).bind (fun r => takeBytes r t.len) = some t.text := by
      rw [htext, hoff, texts_cons, List.append_assoc, dropBytes_append, ht]
      simp only [Option.bind_some, List.append_assoc]
      exact takeBytes_append _ _
    rw [hslice]
    simp only []
    have := ih (c.extendToken t.kind t.text) (pre ++ t.text) post
      (by rw [extendToken_eq]; simp [htext, texts_cons])
      (by rw [extendToken_eq]; simp [hoff, utf8Len_append])
      (fun t' h' => hlen t' (by simp [h']))
    rw [this, extendToken_eq]
    simp [offsets, specErrors, synKind, errMsg, texts_cons, utf8Len_append, Nat.add_assoc]


/-- the value of `LexedStr::new` -/
def lexedOf (uc : UC) (s : List Char) : LexedStr :=
  { text := s
    kind := (tokenize uc s).map synKind ++ [.EOF]
    start := offsets 0 (tokenize uc s) ++ [utf8Len s]
    error := specErrors 0 (tokenize uc s) }

/-- `LexedStr::new` never panics and returns `lexedOf` -/
theorem new_eq (uc : UC) (s : List Char) : LexedStr.new uc s = some (lexedOf uc s) := by
  have htx : texts (tokenize uc s) = s := tokenize_texts uc s
  simp only [LexedStr.new, Converter.new, dropBytes_zero]
  rw [loop_closed (tokenize uc s) _ [] [] (by simp [htx]) rfl
    (forall_tokenize uc (fun t => t.len = utf8Len t.text) (tokenAt_len uc) s)]
  simp [Converter.finalizeWithEof, LexedStr.push, htx, lexedOf]

/-! ### the offset list -/

theorem offsets_length (off : Nat) (ts : List Token) : (offsets off ts).length = ts.length := by
  induction ts generalizing off with
  | nil => rfl
  | cons t ts ih => simp [offsets, ih]

/-- entry `i` of the start vector (sentinel included) is the byte length of the first `i`
token texts -/
theorem offsets_getElem? (ts : List Token) : ∀ (off i : Nat), i ≤ ts.length →
    (offsets off ts ++ [off + utf8Len (texts ts)])[i]? = some (off + utf8Len (texts (ts.take i))) := by
  induction ts with
  | nil => intro off i hi; simp at hi; subst hi; simp [offsets, texts, utf8Len]
  | cons t ts ih =>
    intro off i hi
    cases i with
    | zero => simp [offsets, texts, utf8Len]
    | succ j =>
      simp only [offsets, List.cons_append, List.getElem?_cons_succ, List.take_succ_cons, texts_cons,
        utf8Len_append]
      have := ih (off + utf8Len t.text) j (by simpa using hi)
      rw [Nat.add_assoc] at this
      rw [this, Nat.add_assoc]

theorem offsets_ge (ts : List Token) : ∀ (off : Nat),
    ∀ x ∈ offsets off ts ++ [off + utf8Len (texts ts)], off ≤ x := by
  induction ts with
  | nil => intro off x hx; simp [offsets] at hx; omega
  | cons t ts ih =>
    intro off x hx
    simp only [offsets, List.cons_append, List.mem_cons, texts_cons, utf8Len_append] at hx
    rcases hx with rfl | hx
    · exact Nat.le_refl _
    · have := ih (off + utf8Len t.text) x (by rw [Nat.add_assoc]; exact hx)
      omega

theorem offsets_pairwise (ts : List Token) (hne : ∀ t ∈ ts, t.text ≠ []) : ∀ (off : Nat),
    List.Pairwise (· < ·) (offsets off ts ++ [off + utf8Len (texts ts)]) := by
  induction ts with
  | nil => intro off; simp [offsets]
  | cons t ts ih =>
    intro off
    simp only [offsets, List.cons_append, List.pairwise_cons, texts_cons, utf8Len_append]
    have hpos := utf8Len_pos (hne t (by simp))
    constructor
    · intro x hx
      have := offsets_ge ts (off + utf8Len t.text) x (by rw [Nat.add_assoc]; exact hx)
      omega
    · have := ih (fun t' h' => hne t' (by simp [h'])) (off + utf8Len t.text)
      rw [Nat.add_assoc] at this
      exact this

theorem specErrors_token (ts : List Token) : ∀ (idx : Nat),
    ∀ e ∈ specErrors idx ts, idx ≤ e.token ∧ e.token < idx + ts.length := by
  induction ts with
  | nil => intro idx e he; simp [specErrors] at he
  | cons t ts ih =>
    intro idx e he
    simp only [specErrors, List.mem_append] at he
    rcases he with he | he
    · split at he
      · simp at he
      · simp at he; subst he; simp
    · have := ih (idx + 1) e he
      simp only [List.length_cons]; omega


/-! ### accessors of `lexedOf` -/

theorem lexedOf_len (uc : UC) (s : List Char) : (lexedOf uc s).len = (tokenize uc s).length := by
  simp [lexedOf, LexedStr.len]

theorem lexedOf_start (uc : UC) (s : List Char) (i : Nat) (hi : i ≤ (tokenize uc s).length) :
    (lexedOf uc s).start[i]? = some (utf8Len (texts ((tokenize uc s).take i))) := by
  have htx : texts (tokenize uc s) = s := tokenize_texts uc s
  have := offsets_getElem? (tokenize uc s) 0 i hi
  simp only [Nat.zero_add, htx] at this
  exact this

theorem lexedOf_kindAt (uc : UC) (s : List Char) (i : Nat) (hi : i < (tokenize uc s).length) :
    (lexedOf uc s).kindAt i = some (synKind (tokenize uc s)[i]) := by
  simp only [LexedStr.kindAt, lexedOf_len, hi, if_true]
  simp [lexedOf, List.getElem?_append_left, hi]

theorem texts_append (a b : List Token) : texts (a ++ b) = texts a ++ texts b := by
  simp [texts]

theorem lexedOf_textAt (uc : UC) (s : List Char) (i : Nat) (hi : i < (tokenize uc s).length) :
    (lexedOf uc s).textAt i = some (tokenize uc s)[i].text := by
  have htx : texts (tokenize uc s) = s := tokenize_texts uc s
  simp only [LexedStr.textAt, LexedStr.rangeText, lexedOf_len]
  rw [if_pos ⟨by omega, by omega⟩, lexedOf_start uc s i (by omega), lexedOf_start uc s (i + 1) (by omega)]
  simp only []
  have htake : (tokenize uc s).take (i + 1) = (tokenize uc s).take i ++ [(tokenize uc s)[i]] := by
    rw [List.take_succ_eq_append_getElem hi]
  have hsplit : s = texts ((tokenize uc s).take i) ++ (tokenize uc s)[i].text
      ++ texts ((tokenize uc s).drop (i + 1)) := by
    conv => lhs; rw [← htx, ← List.take_append_drop (i + 1) (tokenize uc s), texts_append, htake,
      texts_append]
    simp [texts]
  rw [htake, texts_append, utf8Len_append]
  have h1 : texts [(tokenize uc s)[i]] = (tokenize uc s)[i].text := by simp [texts]
  rw [h1]
  show sliceBytes s _ _ = _
  conv => lhs; arg 1; rw [hsplit]
  exact sliceBytes_append _ _ _

/-! ### `Input` and `to_input` -/

/-- loop invariant of `to_input` -/
def InputInv (st : ToInputState) : Prop :=
  st.res.joint.length = st.res.kind.length ∧ (st.wasJoint = true → st.res.kind ≠ [])

theorem wasJoint_some (inp : Input) (hlen : inp.joint.length = inp.kind.length)
    (hne : inp.kind ≠ []) :
    ∃ r, inp.wasJoint = some r ∧ r.kind = inp.kind ∧ r.joint.length = inp.joint.length := by
  have hpos : 0 < inp.kind.length := List.length_pos_iff.mpr hne
  refine ⟨{ inp with joint := inp.joint.set (inp.len - 1) true }, ?_, rfl, by simp⟩
  have hl : inp.len = inp.kind.length := rfl
  unfold Input.wasJoint
  rw [if_neg (by omega), if_pos (by omega)]

theorem toInputStep_some (l : LexedStr) (i : Nat) (st : ToInputState) (hinv : InputInv st)
    (hk : (l.kindAt i).isSome) (ht : (l.textAt i).isSome) :
    ∃ st', toInputStep l i st = some st' ∧ InputInv st' := by
  obtain ⟨k, hk⟩ := Option.isSome_iff_exists.mp hk
  obtain ⟨t, ht⟩ := Option.isSome_iff_exists.mp ht
  obtain ⟨hlen, hwj⟩ := hinv
  simp only [toInputStep, hk, ht]
  split
  · exact ⟨_, rfl, hlen, by simp⟩
  · -- the pending `was_joint` for the previous token
    have h1 : ∃ res, (if st.wasJoint = true then st.res.wasJoint else some st.res) = some res ∧
        res.joint.length = res.kind.length := by
      split
      · obtain ⟨r, hr, hrk, hrj⟩ := wasJoint_some st.res hlen (hwj ‹_›)
        exact ⟨r, hr, by rw [hrj, hrk, hlen]⟩
      · exact ⟨_, rfl, hlen⟩
    obtain ⟨res, hres, hreslen⟩ := h1
    rw [hres]
    have hpush : (res.push k).joint.length = (res.push k).kind.length := by
      simp [Input.push, hreslen]
    have hpne : (res.push k).kind ≠ [] := by simp [Input.push]
    simp only []
    split
    · split
      · obtain ⟨r, hr, hrk, hrj⟩ := wasJoint_some (res.push k) hpush hpne
        rw [hr]
        exact ⟨_, rfl, by simp only []; rw [hrj, hrk, hpush], fun _ => by simp only []; rw [hrk]; exact hpne⟩
      · exact ⟨_, rfl, hpush, fun _ => hpne⟩
    · exact ⟨_, rfl, hpush, fun _ => hpne⟩

theorem toInputLoop_some (l : LexedStr) : ∀ (n i : Nat) (st : ToInputState), InputInv st →
    (∀ j, i ≤ j → j < i + n → (l.kindAt j).isSome ∧ (l.textAt j).isSome) →
    ∃ st', toInputLoop l n i st = some st' ∧ InputInv st' := by
  intro n
  induction n with
  | zero => intro i st hinv _; exact ⟨st, rfl, hinv⟩
  | succ n ih =>
    intro i st hinv hacc
    obtain ⟨st1, h1, hinv1⟩ := toInputStep_some l i st hinv (hacc i (Nat.le_refl _) (by omega)).1
      (hacc i (Nat.le_refl _) (by omega)).2
    simp only [toInputLoop, h1]
    exact ih (i + 1) st1 hinv1 (fun j h1 h2 => hacc j (by omega) (by omega))


/-- one iteration of `to_input`, with the kinds pushed -/
theorem toInputStep_spec (l : LexedStr) (i : Nat) (st : ToInputState) (hinv : InputInv st)
    (k : SyntaxKind) (hk : l.kindAt i = some k) (ht : (l.textAt i).isSome) :
    ∃ st', toInputStep l i st = some st' ∧ InputInv st' ∧
      st'.res.kind = st.res.kind ++ (if k.isTrivia then [] else [k]) := by
  obtain ⟨t, ht⟩ := Option.isSome_iff_exists.mp ht
  obtain ⟨hlen, hwj⟩ := hinv
  simp only [toInputStep, hk, ht]
  split
  · exact ⟨_, rfl, ⟨hlen, by simp⟩, by simp⟩
  · have h1 : ∃ res, (if st.wasJoint = true then st.res.wasJoint else some st.res) = some res ∧
        res.joint.length = res.kind.length ∧ res.kind = st.res.kind := by
      split
      · obtain ⟨r, hr, hrk, hrj⟩ := wasJoint_some st.res hlen (hwj ‹_›)
        exact ⟨r, hr, by rw [hrj, hrk, hlen], hrk⟩
      · exact ⟨_, rfl, hlen, rfl⟩
    obtain ⟨res, hres, hreslen, hreskind⟩ := h1
    rw [hres]
    have hpush : (res.push k).joint.length = (res.push k).kind.length := by
      simp [Input.push, hreslen]
    have hpne : (res.push k).kind ≠ [] := by simp [Input.push]
    have hpk : (res.push k).kind = st.res.kind ++ [k] := by simp [Input.push, hreskind]
    simp only []
    split
    · split
      · obtain ⟨r, hr, hrk, hrj⟩ := wasJoint_some (res.push k) hpush hpne
        rw [hr]
        exact ⟨_, rfl, ⟨by simp only []; rw [hrj, hrk, hpush], fun _ => by simp only []; rw [hrk]; exact hpne⟩,
          by simp only []; rw [hrk, hpk]⟩
      · exact ⟨_, rfl, ⟨hpush, fun _ => hpne⟩, hpk⟩
    · exact ⟨_, rfl, ⟨hpush, fun _ => hpne⟩, hpk⟩

theorem toInputLoop_kinds (l : LexedStr) : ∀ (ks : List SyntaxKind) (i : Nat) (st : ToInputState),
    InputInv st →
    (∀ j (hj : j < ks.length), l.kindAt (i + j) = some ks[j] ∧ (l.textAt (i + j)).isSome) →
    ∃ st', toInputLoop l ks.length i st = some st' ∧ InputInv st' ∧
      st'.res.kind = st.res.kind ++ ks.filter (fun k => !k.isTrivia) := by
  intro ks
  induction ks with
  | nil => intro i st hinv _; exact ⟨st, rfl, hinv, by simp⟩
  | cons k ks ih =>
    intro i st hinv hacc
    have h0 := hacc 0 (by simp)
    simp only [Nat.add_zero, List.getElem_cons_zero] at h0
    obtain ⟨st1, h1, hinv1, hk1⟩ := toInputStep_spec l i st hinv k h0.1 h0.2
    simp only [List.length_cons, toInputLoop, h1]
    obtain ⟨st2, h2, hinv2, hk2⟩ := ih (i + 1) st1 hinv1 (fun j hj => by
      have := hacc (j + 1) (by simp; omega)
      simp only [List.getElem_cons_succ] at this
      rw [show i + 1 + j = i + (j + 1) by omega]; exact this)
    refine ⟨st2, h2, hinv2, ?_⟩
    rw [hk2, hk1, List.filter_cons]
    cases k.isTrivia <;> simp

/-- `to_input` of a lexed text: the kinds are the non-trivia kinds of the token table, in order -/
theorem toInput_kinds (uc : UC) (s : List Char) :
    ∃ inp, (lexedOf uc s).toInput = some inp ∧
      inp.kind = ((tokenize uc s).map synKind).filter (fun k => !k.isTrivia) := by
  obtain ⟨st, hst, _, hk⟩ := toInputLoop_kinds (lexedOf uc s) ((tokenize uc s).map synKind) 0
    ⟨Input.empty, false⟩ ⟨rfl, by simp⟩ (fun j hj => by
      have hj' : j < (tokenize uc s).length := by simpa using hj
      rw [Nat.zero_add, lexedOf_kindAt uc s j hj', lexedOf_textAt uc s j hj']
      simp)
  refine ⟨st.res, ?_, by simpa [Input.empty] using hk⟩
  simp only [LexedStr.toInput, lexedOf_len]
  simp only [List.length_map] at hst
  rw [hst]; rfl

/-! ### the token table as seen through the accessors -/

/-- `(kind(i), text(i))` for `i = 0 … len()-1` -/
def table (l : LexedStr) : List (Option SyntaxKind × Option (List Char)) :=
  (List.range l.len).map fun i => (l.kindAt i, l.textAt i)

theorem table_lexedOf (uc : UC) (s : List Char) :
    table (lexedOf uc s) = (tokenize uc s).map fun t => (some (synKind t), some t.text) := by
  apply List.ext_getElem
  · simp [table, lexedOf_len]
  · intro i h1 h2
    have hi : i < (tokenize uc s).length := by simpa using h2
    simp [table, lexedOf_kindAt uc s i hi, lexedOf_textAt uc s i hi]

/-- the non-trivia entries `(kind, text)` of the token table, in order -/
def nonTrivia (l : LexedStr) : List (SyntaxKind × List Char) :=
  (table l).filterMap fun e =>
    match e.1, e.2 with
    | some k, some t => if k.isTrivia then none else some (k, t)
    | _, _ => none

theorem nonTrivia_lexedOf (uc : UC) (s : List Char) :
    nonTrivia (lexedOf uc s) =
      ((tokenize uc s).filter (fun t => !(synKind t).isTrivia)).map fun t => (synKind t, t.text) := by
  rw [nonTrivia, table_lexedOf]
  induction tokenize uc s with
  | nil => rfl
  | cons t ts ih =>
    simp only [List.map_cons, List.filterMap_cons, List.filter_cons]
    cases h : (synKind t).isTrivia <;> simp [ih]

/-- `LexedStr.error` is empty iff no token carries an error flag -/
theorem specErrors_nil_iff (ts : List Token) (idx : Nat) :
    specErrors idx ts = [] ↔ ∀ t ∈ ts, (errMsg t).isEmpty = true := by
  induction ts generalizing idx with
  | nil => simp [specErrors]
  | cons t ts ih =>
    simp only [specErrors, List.append_eq_nil_iff, ih, List.mem_cons, forall_eq_or_imp]
    constructor
    · rintro ⟨h1, h2⟩
      refine ⟨?_, h2⟩
      cases h : (errMsg t).isEmpty with
      | true => rfl
      | false => simp [h] at h1
    · rintro ⟨h1, h2⟩
      exact ⟨by simp [h1], h2⟩

end Oq3.Lemmas.Lexed
