/-
C16 for the inductive language of `Props/C04Lang2.lean`, part 3: the subtree of a statement covers exactly
the tokens of the statement — `width (nodesS2 s) = (toksS2 s).length` for EVERY statement (`width` = the sum
of the `n_input_tokens` of the token steps; a composite operator such as `==` is one step over two tokens).
Hence, in a sequence, the subtree of the i-th statement covers the token range that starts after the
tokens of the statements before it (`range_of_nth`).
-/
import Oq3.Lemmas.C16LangTree
set_option linter.unusedSimpArgs false
set_option linter.unusedVariables false

namespace Oq3.C16Lang
open Oq3.Gen Oq3.Parser Oq3.PrattEv Oq3.LangEv Oq3.LangEv2

theorem binop_toks_length (o : BinOp) : o.toks.length = o.pieces.length := by cases o <;> rfl

mutual
theorem widthX : ∀ x : X, width (nodesX x) = (toksX x).length
  | .prim p => by simp [nodesX, toksX, widthP p]
  | .bin o l r => by
    simp [nodesX, toksX, width, width_append, widthX l, widthX r, binop_toks_length]
  | .pre o e => by simp [nodesX, toksX, width, width_append, widthX e]; omega
theorem widthP : ∀ p : Prim, width (LangEv2.nodesP p) = (toksP p).length
  | .id => rfl
  | .lit _ => rfl
  | .timing _ => rfl
  | .hw => rfl
  | .measureE => rfl
  | .measureHw => rfl
  | .measureIdx ixs => by simp [LangEv2.nodesP, toksP, width, width_append, widthIdx ixs]; omega
  | .paren e => by simp [LangEv2.nodesP, toksP, width, width_append, widthX e]; omega
  | .cast0 _ e => by simp [LangEv2.nodesP, toksP, width, width_append, widthX e]; omega
  | .castW _ w e => by simp [LangEv2.nodesP, toksP, width, width_append, widthX e, widthX w]; omega
  | .idIdx ixs => by simp [LangEv2.nodesP, toksP, width, width_append, widthIdx ixs]; omega
  | .call p args => by simp [LangEv2.nodesP, toksP, width, width_append, widthP p, widthXs args]; omega
  | .index p items => by simp [LangEv2.nodesP, toksP, width, width_append, widthP p, widthItems items]; omega
theorem widthXs : ∀ xs : XList, width (nodesXs xs) = (toksXs xs).length
  | .nil => rfl
  | .cons x .nil => by simp [nodesXs, toksXs, widthX x]
  | .cons x (.cons y ys) => by
    simp [nodesXs, toksXs, width, width_append, widthX x, widthXs (.cons y ys)]; omega
theorem widthItem : ∀ i : LangEv2.Item, width (nodesItem i) = (toksItem i).length
  | .ex x => by simp [nodesItem, toksItem, widthX x]
  | .r2 lo hi => by simp [nodesItem, toksItem, width, width_append, widthX lo, widthX hi]; omega
  | .r3 lo mid hi => by
    simp [nodesItem, toksItem, width, width_append, widthX lo, widthX mid, widthX hi]; omega
theorem widthItems : ∀ is : ItemList, width (nodesItems is) = (toksItems is).length
  | .one i => by simp [nodesItems, toksItems, widthItem i]
  | .cons i is => by simp [nodesItems, toksItems, width, width_append, widthItem i, widthItems is]; omega
theorem widthIdx : ∀ ixs : IdxList, width (nodesIdx ixs) = (toksIdx ixs).length
  | .one is => by simp [nodesIdx, toksIdx, width, width_append, widthItems is]; omega
  | .cons is rest => by simp [nodesIdx, toksIdx, width, width_append, widthItems is, widthIdx rest]; omega
end

theorem widthQ : ∀ q : Q, width (nodesQ q) = (toksQ q).length
  | .id => rfl
  | .hw => rfl
  | .idx ixs => by simp [nodesQ, toksQ, width, width_append, widthIdx]; omega

theorem widthQs : ∀ qs : QList, width (nodesQs qs) = (toksQs qs).length
  | .one q => by simp [nodesQs, toksQs, widthQ]
  | .cons q qs => by simp [nodesQs, toksQs, width, width_append, widthQ, widthQs qs]; omega

theorem widthParen (e : X) : width (parenNodes e) = (parenToks e).length := by
  simp [parenNodes, parenToks, width, width_append, widthX]; omega

theorem widthMod (m : Mod) : width (nodesMod m) = (toksMod m).length := by
  cases m with
  | inv => rfl
  | pow e => simp [nodesMod, toksMod, width, width_append, widthParen]; omega
  | ctrl e => cases e <;> simp [nodesMod, toksMod, width, width_append, widthParen] <;> omega
  | negctrl e => cases e <;> simp [nodesMod, toksMod, width, width_append, widthParen] <;> omega

theorem widthMods : ∀ ms : List Mod, width (nodesMods ms) = (toksMods ms).length
  | [] => rfl
  | m :: ms => by simp [nodesMods, toksMods, width_append, widthMod, widthMods ms]

theorem widthTyX (ty : Ty) (w : Option X) : width (tyNodesX ty w) = (tyToksX ty w).length := by
  cases w <;> simp [tyNodesX, tyToksX, width, width_append, widthX] <;> omega

theorem widthDesig (w : X) : width (desigNodes w) = (desigToks w).length := by
  simp [desigNodes, desigToks, width, width_append, widthX]; omega

theorem widthArgList (args : XList) : width (argListNodes args) = (argListToks args).length := by
  cases args <;> simp [argListNodes, argListToks, width, width_append, widthXs] <;> omega

theorem widthQlist (qs : QList) : width (qlistNodes qs) = (toksQs qs).length := by
  simp [qlistNodes, width, width_append, widthQs]

theorem widthName : width nameNodes = 1 := rfl

theorem widthIter (it : Iter) : width (iterNodes it) = (iterToks it).length := by
  cases it <;> simp [iterNodes, iterToks, width, width_append, widthX, widthItems] <;> omega

theorem widthTyList : ∀ ts : List Ty, width (tyListNodes ts) = (tyListToks ts).length
  | [] => rfl
  | [t] => rfl
  | t :: u :: us => by simp [tyListNodes, tyListToks, width, widthTyList (u :: us)]; omega

theorem widthParams : ∀ n : Nat, width (paramNodes n) = (qubitToks n).length
  | 0 => rfl
  | n + 1 => by simp [paramNodes, qubitToks, width, widthParams n]; omega

theorem widthTyped : ∀ ps : List PTy, width (typedNodes ps) = (typedToks ps).length
  | [] => rfl
  | [p] => rfl
  | p :: q :: ps => by simp [typedNodes, typedToks, width, widthTyped (q :: ps)]; omega

theorem widthRet (ret : Option Ty) : width (retNodes ret) = (retToks ret).length := by
  cases ret <;> rfl

theorem widthGateInner (args : XList) (qs : QList) :
    width (gateCallInnerNodes args qs) = 1 + (argListToks args).length + (toksQs qs).length := by
  simp [gateCallInnerNodes, width, width_append, widthArgList, widthQlist]; omega

theorem widthBlock (inner : List Step) : width (blockNodes inner) = width inner + 2 := by
  simp [blockNodes, width, width_append]; omega

mutual
/-- **the subtree of a statement covers exactly the tokens of the statement** -/
theorem widthS2 : ∀ st : Stmt2, width (nodesS2 st) = (toksS2 st).length
  | .decl cst ty w none => by
    cases cst <;> simp [nodesS2, toksS2, width, width_append, widthTyX, widthName] <;> omega
  | .decl cst ty w (some e) => by
    cases cst <;> simp [nodesS2, toksS2, width, width_append, widthTyX, widthName, widthX] <;> omega
  | .io out ty w => by simp [nodesS2, toksS2, width, width_append, widthTyX, widthName]; omega
  | .qubit none => rfl
  | .qubit (some w) => by simp [nodesS2, toksS2, width, width_append, widthDesig, widthName]; omega
  | .oldReg c items => by simp [nodesS2, toksS2, width, width_append, widthItems]; omega
  | .letS e => by simp [nodesS2, toksS2, width, width_append, widthX]; omega
  | .alias e => by simp [nodesS2, toksS2, width, width_append, widthX, widthName]; omega
  | .assign ixs rhs => by simp [nodesS2, toksS2, width, width_append, widthX, widthP]; omega
  | .exprS x => by simp [nodesS2, toksS2, width, width_append, widthX]
  | .gate args qs => by simp [nodesS2, toksS2, wrapNodes, width, width_append, widthGateInner]; omega
  | .modGate m ms args qs => by
    simp [nodesS2, toksS2, wrapNodes, width, width_append, widthGateInner, widthMods]; omega
  | .gphase x => by simp [nodesS2, toksS2, wrapNodes, width, width_append, widthX]; omega
  | .modGphase m ms x => by simp [nodesS2, toksS2, wrapNodes, width, width_append, widthX, widthMods]; omega
  | .reset q => by simp [nodesS2, toksS2, width, width_append, widthQ]; omega
  | .barrier qs => by simp [nodesS2, toksS2, width, width_append, widthQlist]; omega
  | .delay d qs => by simp [nodesS2, toksS2, width, width_append, widthQlist, widthDesig]; omega
  | .brk => rfl
  | .cont => rfl
  | .endS => rfl
  | .pragma => rfl
  | .annot => rfl
  | .incl => rfl
  | .version => rfl
  | .externS tys ret => by
    simp [nodesS2, toksS2, width, width_append, widthName, widthTyList, widthRet]; omega
  | .ifS c thn => by simp [nodesS2, toksS2, parenToks, width, width_append, widthX, widthB thn]; omega
  | .ifElse c thn els => by
    simp [nodesS2, toksS2, parenToks, width, width_append, widthX, widthB thn, widthB els]; omega
  | .whileS c body => by simp [nodesS2, toksS2, parenToks, width, width_append, widthX, widthB body]; omega
  | .forS ty w it body => by
    simp [nodesS2, toksS2, width, width_append, widthTyX, widthName, widthIter, widthB body]; omega
  | .switchS c cs => by simp [nodesS2, toksS2, parenToks, width, width_append, widthX, widthC cs]; omega
  | .block ss => by simp [nodesS2, toksS2, width, width_append, widthBlock, widthL2 ss]
  | .gateDef none nq body => by
    simp [nodesS2, toksS2, width, width_append, widthParams, widthBlock, widthL2 body]; omega
  | .gateDef (some k) nq body => by
    simp [nodesS2, toksS2, width, width_append, widthParams, widthBlock, widthL2 body]; omega
  | .defS ps ret body => by
    simp [nodesS2, toksS2, width, width_append, widthTyped, widthRet, widthBlock, widthL2 body]; omega
  | .cal body => by simp [nodesS2, toksS2, width, width_append, widthBlock, widthL2 body]; omega
  | .ret none => rfl
  | .ret (some e) => by simp [nodesS2, toksS2, wrapNodes, width, width_append, widthX]; omega
theorem widthB : ∀ b : Body, width (nodesB b) = (toksB b).length
  | .blk ss => by simp [nodesB, toksB, widthBlock, widthL2 ss]
  | .one s => by simp [nodesB, toksB, widthS2 s]
theorem widthC : ∀ cs : Cases, width (nodesC cs) = (toksC cs).length
  | .nil => rfl
  | .dflt body => by simp [nodesC, toksC, width, widthBlock, widthL2 body]; omega
  | .cons vals body rest => by
    simp [nodesC, toksC, width, width_append, widthItems, widthBlock, widthL2 body, widthC rest]; omega
theorem widthL2 : ∀ ss : Stmts2, width (nodesL2 ss) = (toksL2 ss).length
  | .nil => rfl
  | .cons st ss => by simp [nodesL2, toksL2, width_append, widthS2 st, widthL2 ss]
end

end Oq3.C16Lang
