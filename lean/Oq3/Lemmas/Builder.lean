/-
Helper lemmas about the builder model (`Oq3/Model/Builder.lean`): the tree-builder stack
machine run beside `intersperse_trivia`.
-/
import Oq3.Model.Builder

namespace Oq3.Builder
open Oq3.Gen Oq3.Parser

/-! ### rooted, balanced step sequences -/

/-- inside the root at depth `d ≥ 1`; depth 0 = root closed, nothing may follow -/
def wf : Nat → List Step → Bool
  | d, [] => d == 0
  | 0, _ :: _ => false
  | d + 1, .enter _ :: ss => wf (d + 2) ss
  | d + 1, .exit :: ss => wf d ss
  | d + 1, _ :: ss => wf (d + 1) ss

/-- the step list is one root node: `Enter … Exit`, never back at depth 0 before the end -/
def rooted : List Step → Bool
  | .enter _ :: ss => wf 1 ss
  | _ => false

/-! ### leaves of a partially built tree -/

theorem leavesList_append (a b : List Tree) :
    Tree.leavesList (a ++ b) = Tree.leavesList a ++ Tree.leavesList b := by
  induction a with
  | nil => simp [Tree.leavesList]
  | cons x xs ih => simp [Tree.leavesList, ih]

theorem leavesList_singleton (x : Tree) : Tree.leavesList [x] = x.leaves := by
  simp [Tree.leavesList]

/-- all leaves pushed so far, in document order -/
def TB.leaves (t : TB) : List (SyntaxKind × List Char) :=
  Tree.leavesList t.top.reverse ++
    (t.parents.reverse.map (fun p => Tree.leavesList p.2.reverse)).flatten

theorem TB.leaves_push (t : TB) (x : Tree) : (t.push x).leaves = t.leaves ++ x.leaves := by
  unfold TB.push TB.leaves
  split
  · rename_i k cs ps heq
    simp [heq, leavesList_append, leavesList_singleton]
  · rename_i heq
    simp [heq, leavesList_append, leavesList_singleton]

/-- token steps of an emitted sequence, as leaves -/
def tokensOf : List StrStep → List (SyntaxKind × List Char)
  | [] => []
  | .token k t :: ss => (k, t) :: tokensOf ss
  | _ :: ss => tokensOf ss

theorem tokensOf_append (a b : List StrStep) : tokensOf (a ++ b) = tokensOf a ++ tokensOf b := by
  induction a with
  | nil => rfl
  | cons x xs ih => cases x <;> simp [tokensOf, ih]

def errorsOf : List StrStep → List SynErr
  | [] => []
  | .error m p :: ss => ⟨m, p⟩ :: errorsOf ss
  | _ :: ss => errorsOf ss

theorem errorsOf_append (a b : List StrStep) : errorsOf (a ++ b) = errorsOf a ++ errorsOf b := by
  induction a with
  | nil => rfl
  | cons x xs ih => cases x <;> simp [errorsOf, ih]

theorem tbSteps_append (a b : List StrStep) (t : TB) :
    tbSteps (a ++ b) t = (tbSteps a t >>= fun t' => tbSteps b t') := by
  induction a generalizing t with
  | nil => rfl
  | cons x xs ih =>
    simp only [List.cons_append, tbSteps]
    cases h : tbStep t x with
    | error e => rfl
    | ok t' => exact ih t'

/-- the tree-builder state reached on the output emitted so far -/
structure TBInv (out : List StrStep) (depth : Nat) (tb : TB) : Prop where
  run : tbSteps out {} = .ok tb
  top_nil : tb.top = []
  parents_len : tb.parents.length = depth
  leaves_eq : tb.leaves = tokensOf out
  errors_eq : tb.errors = errorsOf out

theorem TBInv.emit_token {out d tb} (h : TBInv out d tb) (hd : 0 < d) (k : SyntaxKind)
    (t : List Char) : TBInv (out ++ [.token k t]) d (tb.push (.leaf k t)) := by
  have hp : tb.parents ≠ [] := by
    intro e; have := h.parents_len; rw [e] at this; simp at this; omega
  obtain ⟨p, ps, hps⟩ := List.exists_cons_of_ne_nil hp
  refine ⟨?_, ?_, ?_, ?_, ?_⟩
  · rw [tbSteps_append, h.run]; rfl
  · simp [TB.push, hps, h.top_nil]
  · simp [TB.push, hps, ← h.parents_len]
  · rw [TB.leaves_push, h.leaves_eq, tokensOf_append]; simp [tokensOf, Tree.leaves]
  · rw [errorsOf_append]; simp [errorsOf, TB.push, hps, h.errors_eq]

theorem TBInv.emit_enter {out d tb} (h : TBInv out d tb) (k : SyntaxKind) :
    TBInv (out ++ [.enter k]) (d + 1) { tb with parents := (k, []) :: tb.parents } := by
  refine ⟨?_, h.top_nil, by simp [h.parents_len], ?_, ?_⟩
  · rw [tbSteps_append, h.run]; rfl
  · rw [tokensOf_append, ← h.leaves_eq]; simp [TB.leaves, tokensOf, Tree.leavesList]
  · rw [errorsOf_append]; simp [errorsOf, h.errors_eq]

theorem TBInv.emit_error {out d tb} (h : TBInv out d tb) (m : String) (p : Nat) :
    TBInv (out ++ [.error m p]) d { tb with errors := tb.errors ++ [⟨m, p⟩] } := by
  refine ⟨?_, h.top_nil, h.parents_len, ?_, ?_⟩
  · rw [tbSteps_append, h.run]; rfl
  · rw [tokensOf_append, ← h.leaves_eq]; simp [TB.leaves, tokensOf]
  · rw [errorsOf_append]; simp [errorsOf, h.errors_eq]

/-- closing a node that is not the root -/
theorem TBInv.emit_exit {out d tb} (h : TBInv out (d + 2) tb) :
    ∃ tb', TBInv (out ++ [.exit]) (d + 1) tb' := by
  have hl := h.parents_len
  match hps : tb.parents, hl with
  | (k, cs) :: (k2, cs2) :: ps, hl =>
    refine ⟨({ tb with parents := (k2, cs2) :: ps } : TB).push (.node k cs.reverse), ?_, ?_, ?_, ?_, ?_⟩
    · rw [tbSteps_append, h.run]; simp [tbSteps, tbStep, hps, bind, Except.bind]
    · simp [TB.push, h.top_nil]
    · simp [TB.push] at hl ⊢; omega
    · rw [TB.leaves_push, tokensOf_append, ← h.leaves_eq]
      simp [TB.leaves, hps, tokensOf, Tree.leaves]
    · rw [errorsOf_append]; simp [errorsOf, TB.push, h.errors_eq]

/-- closing the root: exactly one top-level node, empty stack -/
theorem TBInv.emit_exit_root {out tb} (h : TBInv out 1 tb) :
    ∃ k cs, tbSteps (out ++ [.exit]) {} =
        .ok { parents := [], top := [.node k cs], errors := errorsOf out } ∧
      (Tree.node k cs).leaves = tokensOf out := by
  have hl := h.parents_len
  match hps : tb.parents, hl with
  | [(k, cs)], _ =>
    refine ⟨k, cs.reverse, ?_, ?_⟩
    · rw [tbSteps_append, h.run]
      simp [tbSteps, tbStep, hps, bind, Except.bind, TB.push, h.top_nil, h.errors_eq]
    · rw [← h.leaves_eq]; simp [TB.leaves, hps, h.top_nil, Tree.leaves, Tree.leavesList]


/-! ### `intersperse_trivia` run beside the tree builder -/

def textsOf (l : List (SyntaxKind × List Char)) : List Char := (l.map (·.2)).flatten

def rawText (toks : List RawTok) : List Char := (toks.map (·.text)).flatten

theorem rawText_append (a b : List RawTok) : rawText (a ++ b) = rawText a ++ rawText b := by
  simp [rawText]

theorem textsOf_append (a b : List (SyntaxKind × List Char)) :
    textsOf (a ++ b) = textsOf a ++ textsOf b := by simp [textsOf]

def pendingExtra (st : BState) : Nat := if st = .pendingExit then 1 else 0

/-- invariant of the `Builder` after a processed prefix whose model depth is `d` -/
structure BInv (toks : List RawTok) (b : B) (d : Nat) : Prop where
  pos_le : b.pos ≤ toks.length
  text_eq : textsOf (tokensOf b.out) = rawText (toks.take b.pos)
  st : b.state ≠ .pendingEnter
  root : d = 0 → b.state = .pendingExit
  tb : ∃ tb, TBInv b.out (d + pendingExtra b.state) tb

theorem take_succ_of_getElem? {α} (l : List α) (i : Nat) (x : α) (h : l[i]? = some x) :
    l.take (i + 1) = l.take i ++ [x] := by
  rw [List.take_add_one, h]; rfl

/-- emitting raw token `toks[pos]` as a leaf keeps the invariant (depth ≥ 1) -/
theorem BInv.emit_raw {toks b d} (h : BInv toks b d) (t : RawTok) (ht : toks[b.pos]? = some t)
    (hd : 0 < d + pendingExtra b.state) :
    BInv toks (emit { b with pos := b.pos + 1 } (.token t.kind t.text)) d := by
  obtain ⟨tb, htb⟩ := h.tb
  have hlt : b.pos < toks.length := (List.getElem?_eq_some_iff.mp ht).1
  refine ⟨by simp [emit]; omega, ?_, h.st, h.root, ⟨_, htb.emit_token hd t.kind t.text⟩⟩
  simp only [emit, tokensOf_append, textsOf_append, h.text_eq, take_succ_of_getElem? toks b.pos t ht,
    rawText_append]
  simp [tokensOf, textsOf, rawText]

theorem eatTriviasAux_inv {toks : List RawTok} (rest : List RawTok) (b : B) (d : Nat)
    (h : BInv toks b d) (hr : toks.drop b.pos = rest) (hd : 0 < d + pendingExtra b.state) :
    BInv toks (eatTriviasAux rest b) d ∧ (eatTriviasAux rest b).state = b.state := by
  induction rest generalizing b with
  | nil => exact ⟨h, rfl⟩
  | cons t rest ih =>
    simp only [eatTriviasAux]
    split
    · have ht : toks[b.pos]? = some t := by
        have := congrArg List.head? hr
        simpa [List.head?_drop] using this
      have h' := h.emit_raw t ht hd
      have hr' : toks.drop (b.pos + 1) = rest := by
        have := congrArg List.tail hr
        simpa [List.tail_drop] using this
      have := ih (emit { b with pos := b.pos + 1 } (.token t.kind t.text)) h' hr' hd
      exact ⟨this.1, this.2⟩
    · exact ⟨h, rfl⟩

theorem eatTrivias_inv {toks : List RawTok} (b : B) (d : Nat) (h : BInv toks b d)
    (hd : 0 < d + pendingExtra b.state) :
    BInv toks (eatTrivias toks b) d ∧ (eatTrivias toks b).state = b.state :=
  eatTriviasAux_inv _ b d h rfl hd

theorem eatNTrivias_inv {toks : List RawTok} (n : Nat) (b b' : B) (d : Nat) (h : BInv toks b d)
    (hd : 0 < d + pendingExtra b.state) (hok : eatNTrivias toks n b = .ok b') :
    BInv toks b' d ∧ b'.state = b.state := by
  induction n generalizing b with
  | zero => simp only [eatNTrivias, Except.ok.injEq] at hok; subst hok; exact ⟨h, rfl⟩
  | succ n ih =>
    simp only [eatNTrivias] at hok
    split at hok
    · simp at hok
    · rename_i t ht
      split at hok
      · simp at hok
      · have := ih _ (h.emit_raw t ht hd) hd hok
        exact ⟨this.1, this.2⟩

theorem flushPending_inv {toks : List RawTok} (b b' : B) (d : Nat) (h : BInv toks b (d + 1))
    (hok : flushPending b = .ok b') : BInv toks b' (d + 1) ∧ b'.state = .normal := by
  unfold flushPending at hok
  split at hok
  · simp at hok
  · rename_i hst
    simp only [Except.ok.injEq] at hok; subst hok
    obtain ⟨tb, htb⟩ := h.tb
    simp only [hst, pendingExtra, if_true] at htb
    obtain ⟨tb', htb'⟩ := htb.emit_exit
    refine ⟨⟨h.pos_le, ?_, by simp [emit], by simp, ⟨tb', by simpa [emit, pendingExtra] using htb'⟩⟩, rfl⟩
    simp [emit, tokensOf_append, tokensOf, h.text_eq]
  · rename_i hst
    simp only [Except.ok.injEq] at hok; subst hok
    refine ⟨⟨h.pos_le, h.text_eq, by simp, by simp, ?_⟩, rfl⟩
    obtain ⟨tb, htb⟩ := h.tb
    exact ⟨tb, by simpa [hst, pendingExtra] using htb⟩

theorem doToken_inv {toks : List RawTok} (b b' : B) (d : Nat) (k : SyntaxKind) (n : Nat)
    (h : BInv toks b (d + 1)) (hst : b.state = .normal) (hok : doToken toks b k n = .ok b') :
    BInv toks b' (d + 1) ∧ b'.state = .normal := by
  unfold doToken at hok
  split at hok
  · simp at hok
  · rename_i hc
    simp only [Except.ok.injEq] at hok; subst hok
    obtain ⟨tb, htb⟩ := h.tb
    simp only [hst, pendingExtra] at htb
    have hfit : b.pos + n ≤ toks.length := by omega
    refine ⟨⟨by simp [emit]; omega, ?_, by simp [emit, hst], by simp, ?_⟩, by simp [emit, hst]⟩
    · simp only [emit, tokensOf_append, textsOf_append, h.text_eq]
      have : toks.take (b.pos + n) = toks.take b.pos ++ (toks.drop b.pos).take n := by
        rw [List.take_add]
      rw [this, rawText_append]
      simp [tokensOf, textsOf, rawText]
    · exact ⟨_, by simpa [emit, hst, pendingExtra] using htb.emit_token (by simp) k _⟩

/-- one step, from a state that is not `PendingEnter`, at model depth `d + 1` -/
theorem step_inv {toks : List RawTok} (b b' : B) (d : Nat) (s : Step) (ss : List Step)
    (h : BInv toks b (d + 1)) (hwf : wf (d + 1) (s :: ss) = true)
    (hok : step toks b s = .ok b') : ∃ d', BInv toks b' d' ∧ wf d' ss = true := by
  cases s with
  | token k n =>
    simp only [step, bind, Except.bind] at hok
    split at hok
    · simp at hok
    · rename_i b1 hb1
      obtain ⟨h1, hs1⟩ := flushPending_inv b b1 d h hb1
      obtain ⟨h2, hs2⟩ := eatTrivias_inv b1 (d + 1) h1 (by omega)
      have := doToken_inv _ b' d k n h2 (by rw [hs2, hs1]) hok
      exact ⟨d + 1, this.1, by simpa [wf] using hwf⟩
  | enter k =>
    simp only [step] at hok
    have hne := h.st
    split at hok
    · rename_i hst; exact absurd hst hne
    · simp only [bind, Except.bind] at hok
      split at hok
      · simp at hok
      · rename_i b1 hb1
        obtain ⟨h1, hs1⟩ := flushPending_inv b b1 d h hb1
        split at hok
        · simp at hok
        · rename_i b2 hb2
          obtain ⟨h2, hs2⟩ := eatNTrivias_inv _ b1 b2 (d + 1) h1 (by omega) hb2
          have hs2' : b2.state = .normal := by rw [hs2, hs1]
          have h3 : BInv toks (emit b2 (.enter k)) (d + 2) := by
            obtain ⟨tb, htb⟩ := h2.tb
            simp only [hs2', pendingExtra] at htb
            refine ⟨h2.pos_le, ?_, by simp [emit, hs2'], by simp,
              ⟨{ tb with parents := (k, []) :: tb.parents }, ?_⟩⟩
            · simp [emit, tokensOf_append, tokensOf, h2.text_eq]
            · simpa [emit, hs2', pendingExtra] using htb.emit_enter k
          have := eatNTrivias_inv _ _ b' (d + 2) h3 (by omega) hok
          exact ⟨d + 2, this.1, by simpa [wf] using hwf⟩
  | exit =>
    simp only [step] at hok
    have hne := h.st
    split at hok
    · rename_i hst; exact absurd hst hne
    · rename_i hst
      simp only [Except.ok.injEq] at hok; subst hok
      obtain ⟨tb, htb⟩ := h.tb
      simp only [hst, pendingExtra, if_true] at htb
      obtain ⟨tb', htb'⟩ := htb.emit_exit
      refine ⟨d, ⟨h.pos_le, ?_, by simp [emit], by simp [emit], ⟨tb', by simpa [emit, pendingExtra] using htb'⟩⟩,
        by simpa [wf] using hwf⟩
      simp [emit, tokensOf_append, tokensOf, h.text_eq]
    · rename_i hst
      simp only [Except.ok.injEq] at hok; subst hok
      obtain ⟨tb, htb⟩ := h.tb
      simp only [hst, pendingExtra] at htb
      exact ⟨d, ⟨h.pos_le, h.text_eq, by simp, by simp, ⟨tb, by simpa [pendingExtra] using htb⟩⟩,
        by simpa [wf] using hwf⟩
  | error msg =>
    simp only [step, Except.ok.injEq] at hok; subst hok
    obtain ⟨tb, htb⟩ := h.tb
    refine ⟨d + 1, ⟨h.pos_le, ?_, by simpa [emit] using h.st, by simp,
      ⟨{ tb with errors := tb.errors ++ [⟨msg, textStart toks b.pos⟩] }, ?_⟩⟩, by simpa [wf] using hwf⟩
    · simp [emit, tokensOf_append, tokensOf, h.text_eq]
    · simpa [emit] using htb.emit_error msg (textStart toks b.pos)

theorem steps_inv {toks : List RawTok} (ss : List Step) (b b' : B) (d : Nat)
    (h : BInv toks b d) (hwf : wf d ss = true) (hok : steps toks ss b = .ok b') :
    BInv toks b' 0 := by
  induction ss generalizing b d with
  | nil =>
    simp only [steps, Except.ok.injEq] at hok; subst hok
    cases d with
    | zero => exact h
    | succ d => simp [wf] at hwf
  | cons s ss ih =>
    cases d with
    | zero => simp [wf] at hwf
    | succ d =>
      simp only [steps, bind, Except.bind] at hok
      split at hok
      · simp at hok
      · rename_i b1 hb1
        obtain ⟨d', h1, hwf1⟩ := step_inv b b1 d s ss h hwf hb1
        exact ih b1 d' h1 hwf1 hok

end Oq3.Builder
