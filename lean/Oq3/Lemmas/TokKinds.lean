/-
Parser-state invariant "no token event has a trivia kind" (for `tokenKindsOk` of C17Layout):
if the input contains no trivia kinds (as `to_input` guarantees), every `Token` event the parser
pushes has a non-trivia kind — it is the kind of the current input token (`bump_any`, a simple
`eat`) or a composite kind (`eat` of a glued operator).

Primitive lemmas in the `Pres` style of `Lemmas/ParserInv.lean`; the grammar functions are lifted
by the generated `Lemmas/GrammarTokKinds.lean` (tools/gen_grammar_inv2.py).
-/
import Oq3.Lemmas.SafeTok
set_option linter.unusedVariables false
set_option linter.unusedSimpArgs false

namespace Oq3.Parser
open Oq3.Gen

/-- the event is not a token of a trivia kind -/
def evNT : Ev → Bool
  | .token k _ => !k.isTrivia
  | _ => true

/-- the input has no trivia kinds, and neither has any token event -/
def TokNT (s : P) : Prop :=
  (∀ i, (s.kindAt i).isTrivia = false) ∧ s.events.toList.all evNT = true

theorem TokNT.congr {s s' : P} (h : TokNT s) (h1 : s'.kinds = s.kinds) (h2 : s'.events = s.events) :
    TokNT s' := by
  refine ⟨fun i => ?_, by rw [h2]; exact h.2⟩
  have := h.1 i
  simpa only [P.kindAt, h1] using this

theorem TokNT.push {s s' : P} (h : TokNT s) (e : Ev) (he : evNT e = true) (h1 : s'.kinds = s.kinds)
    (h2 : s'.events = s.events.push e) : TokNT s' := by
  refine ⟨fun i => ?_, ?_⟩
  · have := h.1 i
    simpa only [P.kindAt, h1] using this
  · rw [h2, Array.toList_push, List.all_append, h.2]; simp [he]

theorem all_set_of {α} (p : α → Bool) (l : List α) (i : Nat) (x : α) (h : l.all p = true) (hx : p x = true) :
    (l.set i x).all p = true := by
  rw [List.all_eq_true] at h ⊢
  intro y hy
  rcases List.mem_or_eq_of_mem_set hy with hy | rfl
  · exact h y hy
  · exact hx

theorem TokNT.set {s s' : P} (h : TokNT s) (i : Nat) (k : SyntaxKind) (fp : Option Nat)
    (h1 : s'.kinds = s.kinds) (h2 : s'.events = s.events.set! i (.start k fp)) : TokNT s' := by
  refine ⟨fun j => ?_, ?_⟩
  · have := h.1 j
    simpa only [P.kindAt, h1] using this
  · rw [h2, Array.set!_eq_setIfInBounds, Array.toList_setIfInBounds]
    exact all_set_of _ _ _ _ h.2 rfl

theorem composite_not_trivia : ∀ p ∈ Ops.compositeTable, p.1.isTrivia = false := by decide

theorem compositePieces_not_trivia {k : SyntaxKind} {ps : List SyntaxKind}
    (h : compositePieces k = some ps) : k.isTrivia = false := by
  simp only [compositePieces, Option.map_eq_some_iff] at h
  obtain ⟨p, hp, _⟩ := h
  have hm := List.mem_of_find?_eq_some hp
  have hk := List.find?_some hp
  have : p.1 = k := by simpa using hk
  rw [← this]; exact composite_not_trivia p hm

/-- a kind that `at` accepts is not trivia -/
theorem atF_not_trivia {k : SyntaxKind} {s : P} (h : TokNT s) (ha : atF k s.kinds s.joint s.pos = true) :
    k.isTrivia = false := by
  cases hc : compositePieces k with
  | some ps => exact compositePieces_not_trivia hc
  | none =>
    rw [atF_simple hc] at ha
    have : s.kindAt s.pos = k := by simpa [P.kindAt] using ha
    rw [← this]; exact h.1 _

section
variable {α : Type}

theorem nth_tk (n : Nat) : Pres TokNT (nth n) := by
  refine ⟨fun s r hs h => ?_⟩
  rw [nth_eq] at h
  split at h
  · cases h
  · split at h
    · cases h
    · injection h with h; subst h; exact hs.congr rfl rfl

theorem start_tk : Pres TokNT start := by
  refine ⟨fun s r hs h => ?_⟩
  rw [start_eq] at h
  split at h
  · cases h
  · injection h with h; subst h; exact hs.push Ev.tombstone rfl rfl rfl

theorem error_tk (msg : String) : Pres TokNT (error msg) := by
  refine ⟨fun s r hs h => ?_⟩
  rw [error_eq] at h
  split at h
  · cases h
  · injection h with h; subst h; exact hs.push (.error msg) rfl rfl rfl

theorem eat_tk (k : SyntaxKind) : Pres TokNT (eat k) := by
  refine ⟨fun s r hs h => ?_⟩
  by_cases hk : (k == .EOF) = true
  · unfold eat at h; simp only [hk, if_true] at h; cases h
  · have hk' : (k == .EOF) = false := by simpa using hk
    rw [eat_eq' k hk'] at h
    split at h
    · rename_i ha
      injection h with h; subst h
      exact hs.push (.token k _) (by simp [evNT, atF_not_trivia hs ha]) rfl rfl
    · injection h with h; subst h; exact hs

theorem bump_tk (k : SyntaxKind) : Pres TokNT (bump k) := by
  unfold bump
  refine Pres.bind (eat_tk k) ?_
  intro b
  split
  · exact Pres.panic _
  · exact Pres.pure _

theorem bumpAny_tk : Pres TokNT bumpAny := by
  refine ⟨fun s r hs h => ?_⟩
  rw [bumpAny_eq] at h
  split at h
  · injection h with h; subst h; exact hs
  · injection h with h; subst h
    exact hs.push (.token _ _) (by simp [evNT, hs.1]) rfl rfl

theorem expect_tk (k : SyntaxKind) : Pres TokNT (expect k) := by
  unfold expect
  refine Pres.bind (eat_tk k) ?_
  intro b
  split
  · exact Pres.pure _
  · exact Pres.bind (error_tk _) (fun _ => Pres.pure _)

theorem complete_tk (m : Marker) (kind : SyntaxKind) : Pres TokNT (m.complete kind) := by
  refine ⟨fun s r hs h => ?_⟩
  rw [complete_eq] at h
  split at h
  · split at h
    · cases h
    · split at h
      · cases h
      · split at h
        · cases h
        · injection h with h; subst h
          rename_i x k0 fp _ _ _ _
          have h1 : TokNT (s.slotSet m.pos kind fp) := hs.set m.pos kind fp rfl rfl
          exact h1.push .finish rfl rfl rfl
  · cases h

theorem abandon_tk (m : Marker) : Pres TokNT m.abandon := by
  refine ⟨fun s r hs h => ?_⟩
  rw [abandon_eq] at h
  split at h
  · cases h
  · split at h
    · cases h
    · split at h
      · split at h
        · split at h
          · injection h with h; subst h
            refine ⟨fun i => hs.1 i, ?_⟩
            simp only [Array.toList_pop]
            have := hs.2
            rw [List.all_eq_true] at this ⊢
            exact fun e he => this e (List.dropLast_subset _ he)
          · cases h
        · cases h
      · injection h with h; subst h; exact hs.congr rfl rfl

theorem precede_tk (cm : CompletedMarker) : Pres TokNT cm.precede := by
  refine ⟨fun s r hs h => ?_⟩
  rw [precede_eq] at h
  split at h
  · cases h
  · split at h
    · split at h
      · cases h
      · injection h with h; subst h
        have h1 : TokNT s.started := hs.push Ev.tombstone rfl rfl rfl
        exact h1.set _ _ _ rfl rfl
    · cases h

theorem extendTo_tk (cm : CompletedMarker) (m : Marker) : Pres TokNT (cm.extendTo m) := by
  refine ⟨fun s r hs h => ?_⟩
  rw [extendTo_eq] at h
  split at h
  · split at h
    · cases h
    · split at h
      · split at h
        · cases h
        · injection h with h; subst h
          exact hs.set _ _ _ rfl rfl
      · cases h
  · cases h

theorem errRecover_tk (msg : String) (rec : TokenSet) : Pres TokNT (errRecover msg rec) := by
  unfold errRecover
  refine Pres.bind current_readOnly.pres ?_
  intro k
  split
  · exact Pres.bind (error_tk _) (fun _ => Pres.pure _)
  · refine Pres.bind (atTs_readOnly _).pres ?_
    intro b
    split
    · exact Pres.bind (error_tk _) (fun _ => Pres.pure _)
    · refine Pres.bind start_tk ?_
      intro m
      refine Pres.bind (error_tk _) ?_
      intro _
      refine Pres.bind bumpAny_tk ?_
      intro _
      exact Pres.bind (complete_tk _ _) (fun _ => Pres.pure _)

theorem errAndBump_tk (msg : String) : Pres TokNT (errAndBump msg) := errRecover_tk msg []

end

end Oq3.Parser
