/-
Parser-state invariant "the ghost list `protectedPos` only mentions existing events"
(`ProtOK`), the side condition of the relocation theorems (`Props/C16Reloc.lean`).  Primitive
lemmas in the `Pres` style; the grammar functions are lifted by the generated
`Lemmas/GrammarProt.lean` (tools/gen_grammar_inv3.py).
-/
import Oq3.Lemmas.SafeTok
set_option linter.unusedVariables false
set_option linter.unusedSimpArgs false

namespace Oq3.Parser
open Oq3.Gen

def ProtOK (s : P) : Prop := ∀ q ∈ s.protectedPos, q < s.events.size

theorem ProtOK.mono {s s' : P} (h : ProtOK s) (h1 : s'.protectedPos = s.protectedPos)
    (h2 : s.events.size ≤ s'.events.size) : ProtOK s' := by
  intro q hq; rw [h1] at hq; have := h q hq; omega

theorem nth_po (n : Nat) : Pres ProtOK (nth n) := by
  refine ⟨fun s r hs h => ?_⟩
  rw [nth_eq] at h
  split at h
  · cases h
  · split at h
    · cases h
    · injection h with h; subst h; exact hs.mono rfl (Nat.le_refl _)

theorem start_po : Pres ProtOK start := by
  refine ⟨fun s r hs h => ?_⟩
  rw [start_eq] at h
  split at h
  · cases h
  · injection h with h; subst h; exact hs.mono rfl (by simp)

theorem error_po (msg : String) : Pres ProtOK (error msg) := by
  refine ⟨fun s r hs h => ?_⟩
  rw [error_eq] at h
  split at h
  · cases h
  · injection h with h; subst h; exact hs.mono rfl (by simp)

theorem eat_po (k : SyntaxKind) : Pres ProtOK (eat k) := by
  refine ⟨fun s r hs h => ?_⟩
  by_cases hk : (k == .EOF) = true
  · unfold eat at h; simp only [hk, if_true] at h; cases h
  · have hk' : (k == .EOF) = false := by simpa using hk
    rw [eat_eq' k hk'] at h
    split at h
    · injection h with h; subst h; exact hs.mono rfl (by simp)
    · injection h with h; subst h; exact hs

theorem bump_po (k : SyntaxKind) : Pres ProtOK (bump k) := by
  unfold bump
  refine Pres.bind (eat_po k) ?_
  intro b
  split
  · exact Pres.panic _
  · exact Pres.pure _

theorem bumpAny_po : Pres ProtOK bumpAny := by
  refine ⟨fun s r hs h => ?_⟩
  rw [bumpAny_eq] at h
  split at h
  · injection h with h; subst h; exact hs
  · injection h with h; subst h; exact hs.mono rfl (by simp)

theorem expect_po (k : SyntaxKind) : Pres ProtOK (expect k) := by
  unfold expect
  refine Pres.bind (eat_po k) ?_
  intro b
  split
  · exact Pres.pure _
  · exact Pres.bind (error_po _) (fun _ => Pres.pure _)

theorem complete_po (m : Marker) (kind : SyntaxKind) : Pres ProtOK (m.complete kind) := by
  refine ⟨fun s r hs h => ?_⟩
  rw [complete_eq] at h
  split at h
  · split at h
    · cases h
    · split at h
      · cases h
      · split at h
        · cases h
        · injection h with h; subst h
          intro q hq
          simp only [P.slotSet, List.mem_filter] at hq
          have := hs q hq.1
          simp only [P.slotSet, Array.size_push, Array.set!_eq_setIfInBounds, Array.size_setIfInBounds]
          omega
  · cases h

theorem abandon_po (m : Marker) : Pres ProtOK m.abandon := by
  refine ⟨fun s r hs h => ?_⟩
  rw [abandon_eq] at h
  split at h
  · cases h
  · rename_i h1
    split at h
    · cases h
    · rename_i h2
      split at h
      · rename_i h3
        split at h
        · split at h
          · injection h with h; subst h
            intro q hq
            have hq' : q ∈ s.protectedPos := hq
            have := hs q hq'
            have hne : q ≠ m.pos := by
              intro he; subst he
              simp only [Bool.or_eq_true, not_or, Bool.not_eq_true] at h1
              have := h1.2
              simp [List.contains_iff_mem] at this
              exact this hq'
            have h3' : m.pos = s.events.size - 1 := by simpa using h3
            simp only [Array.size_pop]
            omega
          · cases h
        · cases h
      · injection h with h; subst h; exact hs.mono rfl (Nat.le_refl _)

theorem precede_po (cm : CompletedMarker) : Pres ProtOK cm.precede := by
  refine ⟨fun s r hs h => ?_⟩
  rw [precede_eq] at h
  split at h
  · cases h
  · split at h
    · split at h
      · cases h
      · injection h with h; subst h
        intro q hq
        simp only [P.started, List.mem_cons] at hq
        simp only [P.started, Array.set!_eq_setIfInBounds, Array.size_setIfInBounds, Array.size_push]
        rcases hq with rfl | hq
        · omega
        · have := hs q hq; omega
    · cases h

theorem extendTo_po (cm : CompletedMarker) (m : Marker) : Pres ProtOK (cm.extendTo m) := by
  refine ⟨fun s r hs h => ?_⟩
  rw [extendTo_eq] at h
  split at h
  · split at h
    · cases h
    · split at h
      · split at h
        · cases h
        · injection h with h; subst h
          exact hs.mono rfl (by simp)
      · cases h
  · cases h

theorem errRecover_po (msg : String) (rec : TokenSet) : Pres ProtOK (errRecover msg rec) := by
  unfold errRecover
  refine Pres.bind current_readOnly.pres ?_
  intro k
  split
  · exact Pres.bind (error_po _) (fun _ => Pres.pure _)
  · refine Pres.bind (atTs_readOnly _).pres ?_
    intro b
    split
    · exact Pres.bind (error_po _) (fun _ => Pres.pure _)
    · refine Pres.bind start_po ?_
      intro m
      refine Pres.bind (error_po _) ?_
      intro _
      refine Pres.bind bumpAny_po ?_
      intro _
      exact Pres.bind (complete_po _ _) (fun _ => Pres.pure _)

theorem errAndBump_po (msg : String) : Pres ProtOK (errAndBump msg) := errRecover_po msg []

end Oq3.Parser
