/-
C17 (renaming through lexer and parser) — the accessors of `Model/Accessors.lean` commute with
renaming the `IDENT` token texts of a concrete syntax tree.

`phi ρ kind text` = the text of a token after the renaming `ρ`: `ρ` applied to the text of an
`IDENT` token, every other token text unchanged.  `R = mapC (phi ρ)` renames a whole tree (kinds,
shape and ranges kept).  Every structural accessor (`support.child/children/token` and the
hand-written ones) returns the renamed constituent: `A (R n) = (A n).map R`; accessors that return
a kind or an operator return the same value; accessors that return the TEXT of a non-identifier
token (`Literal`, `FilePath`) return the same text.

`text_of_first_token` (`Name`/`Identifier`/`Param`/`HardwareQubit` text, pragma and annotation
text, time units) reads the first child whatever its kind.  `renOk ρ t` states the side condition
under which its value is what `renameAst ρ` expects:

* a `NAME`, `IDENTIFIER` or `PARAM` node whose first child is a token has an `IDENT` there (or a
  text that `ρ` fixes) — the grammar builds these nodes only around one `IDENT` token or empty
  (`name_r`, `var_name`, `identifier`, `param_untyped…`, `arg_gate_call_qubit`);
* a `HARDWARE_QUBIT`, `PRAGMA_STATEMENT` or `ANNOTATION_STATEMENT` node does not start with an
  `IDENT` token (or `ρ` fixes its text);
* the identifier of a `TIMING_LITERAL` (the time unit: `ns`, `us`, `dt`, … or whatever identifier
  follows the number) is fixed by `ρ` — `renameAst` does not rename time units.
-/
import Oq3.Lemmas.AccTrivia
import Oq3.Lemmas.RenameTextDefs
import Oq3.Props.C17Rename

namespace Oq3.RenameText
open Oq3.Gen Oq3.Acc Oq3.C17Rename

/-- the text of a token of kind `k` after the renaming -/
def phi (ρ : Ren) (k : SyntaxKind) (t : List Char) : List Char :=
  if k == .IDENT then (ρ.f (String.ofList t)).toList else t

theorem phi_ne (ρ : Ren) {k : SyntaxKind} (t : List Char) (h : k ≠ .IDENT) : phi ρ k t = t := by
  simp [phi, h]

variable {ρ : Ren}

local notation "R" => mapC (phi ρ)

/-! ### basic projections -/

@[simp] theorem kind_R (c : CNode) : (R c).kind = c.kind := by cases c <;> rfl
@[simp] theorem isNode_R (c : CNode) : (R c).isNode = c.isNode := by cases c <;> rfl
@[simp] theorem isToken_R (c : CNode) : (R c).isToken = c.isToken := by cases c <;> rfl
@[simp] theorem start_R (c : CNode) : (R c).start = c.start := by cases c <;> rfl
@[simp] theorem stop_R (c : CNode) : (R c).stop = c.stop := by cases c <;> rfl

theorem tokenText_R (c : CNode) (h : c.kind ≠ .IDENT) : (R c).tokenText = c.tokenText := by
  cases c with
  | node => rfl
  | token k s e t => simp only [mapC, CNode.tokenText]; exact phi_ne _ _ h

theorem span_R (c : CNode) : Build.span (R c) = Build.span c := by simp [Build.span]

theorem children_R (n : CNode) : (R n).children = n.children.map R := by
  cases n with
  | token => rfl
  | node k s e cs => simp [mapC, CNode.children, mapCs_eq]

theorem filter_map_R (p : CNode → Bool) (hp : ∀ c, p (R c) = p c) (l : List CNode) :
    (l.map R).filter p = (l.filter p).map R := by
  induction l with
  | nil => rfl
  | cons c cs ih =>
    simp only [List.map_cons, List.filter_cons, hp]
    split <;> simp [ih]

theorem childNodes_R (n : CNode) : (R n).childNodes = n.childNodes.map R := by
  simp only [CNode.childNodes, children_R, filter_map_R _ isNode_R]

theorem childTokens_R (n : CNode) : (R n).childTokens = n.childTokens.map R := by
  simp only [CNode.childTokens, children_R, filter_map_R _ isToken_R]

/-! ### `support` -/

theorem cast_R (can : SyntaxKind → Bool) (c : CNode) : Acc.cast can (R c) = (Acc.cast can c).map R := by
  unfold Acc.cast; simp only [kind_R]; split <;> rfl

theorem children_supp_R (can : SyntaxKind → Bool) (n : CNode) :
    support.children can (R n) = (support.children can n).map R := by
  unfold support.children
  rw [childNodes_R]
  induction n.childNodes with
  | nil => rfl
  | cons c cs ih =>
    simp only [List.map_cons, List.filterMap_cons, cast_R]
    cases Acc.cast can c <;> simp [ih]

theorem child_supp_R (can : SyntaxKind → Bool) (n : CNode) :
    support.child can (R n) = (support.child can n).map R := by
  unfold support.child
  rw [childNodes_R]
  induction n.childNodes with
  | nil => rfl
  | cons c cs ih =>
    simp only [List.map_cons, List.findSome?_cons, cast_R]
    cases Acc.cast can c <;> simp [ih]

theorem token_supp_isSome_R (n : CNode) (k : SyntaxKind) :
    (support.token (R n) k).isSome = (support.token n k).isSome := by
  unfold support.token
  rw [childTokens_R]
  induction n.childTokens with
  | nil => rfl
  | cons c cs ih =>
    simp only [List.map_cons, List.find?_cons, kind_R]
    cases c.kind == k
    · exact ih
    · rfl

/-! ### `BlockOrStmt` map -/

def bosMapR (ρ : Ren) : BlockOrStmt → BlockOrStmt
  | .blockExpr b => .blockExpr (mapC (phi ρ) b)
  | .stmt s => .stmt (mapC (phi ρ) s)

/-! ### the side condition on `text_of_first_token` -/

/-- the first child, if it is a token: kind and text -/
def headTok (n : CNode) : Option (SyntaxKind × List Char) :=
  match n.children.head? with
  | some (.token k _ _ t) => some (k, t)
  | _ => none

/-- `ρ` fixes the text -/
def fixes (ρ : Ren) (t : List Char) : Bool := ρ.f (String.ofList t) == String.ofList t

/-- the condition at one node (see the file header) -/
def localOk (ρ : Ren) (n : CNode) : Bool :=
  match n.kind with
  | .NAME | .IDENTIFIER | .PARAM =>
    (match headTok n with
     | some (k, t) => k == .IDENT || fixes ρ t
     | none => true)
  | .HARDWARE_QUBIT | .PRAGMA_STATEMENT | .ANNOTATION_STATEMENT =>
    (match headTok n with
     | some (k, t) => k != .IDENT || fixes ρ t
     | none => true)
  | .TIMING_LITERAL =>
    (match support.child Identifier.canCast n with
     | some i =>
       (match headTok i with
        | some (_, t) => fixes ρ t
        | none => true)
     | none => true)
  | _ => true

mutual
/-- the side condition at every node of the tree -/
def renOk (ρ : Ren) : CNode → Bool
  | .node k s e cs => localOk ρ (.node k s e cs) && renOkL ρ cs
  | .token .. => true
def renOkL (ρ : Ren) : List CNode → Bool
  | [] => true
  | c :: cs => renOk ρ c && renOkL ρ cs
end

theorem renOkL_mem {cs : List CNode} (h : renOkL ρ cs = true) {c : CNode} (hc : c ∈ cs) :
    renOk ρ c = true := by
  induction cs with
  | nil => cases hc
  | cons d ds ih =>
    simp only [renOkL, Bool.and_eq_true] at h
    rcases List.mem_cons.mp hc with rfl | hm
    · exact h.1
    · exact ih h.2 hm

theorem renOk_children {n c : CNode} (h : renOk ρ n = true) (hc : c ∈ n.children) :
    renOk ρ c = true := by
  cases n with
  | token => cases hc
  | node k s e cs =>
    simp only [renOk, Bool.and_eq_true] at h
    exact renOkL_mem h.2 hc

theorem renOk_local {n : CNode} (h : renOk ρ n = true) : localOk ρ n = true := by
  cases n with
  | token k s e t =>
    simp only [localOk]
    split <;> simp [headTok, CNode.children, support.child, CNode.childNodes]
  | node k s e cs =>
    simp only [renOk, Bool.and_eq_true] at h
    exact h.1

/-! ### `text_of_first_token` -/

theorem head_children_R (n : CNode) : (R n).children.head? = n.children.head?.map R := by
  rw [children_R, List.head?_map]

/-- renamed text of a name-like node -/
theorem text_R_name {n : CNode}
    (h : ∀ k t, headTok n = some (k, t) → (k == SyntaxKind.IDENT || fixes ρ t) = true) :
    Build.text (R n) = (Build.text n).map ρ.f := by
  unfold Build.text HasTextNode.text textOfFirstToken
  rw [head_children_R]
  unfold headTok at h
  rcases hc : n.children.head? with _ | c
  · rfl
  · rw [hc] at h
    cases c with
    | node => rfl
    | token k s e t =>
      have h' := h k t rfl
      simp only [Option.map_some, mapC, Build.ofPRes, Except.map, Build.str, phi]
      by_cases hk : (k == SyntaxKind.IDENT) = true
      · simp only [hk, if_true, String.ofList_toList]
      · simp only [hk, if_false, Bool.false_eq_true]
        simp only [hk, Bool.false_or, fixes, beq_iff_eq, Bool.false_eq_true] at h'
        rw [h']

/-- unchanged text of a node that does not start with a moved identifier -/
theorem textOfFirstToken_R_fix {n : CNode}
    (h : ∀ k t, headTok n = some (k, t) → (k != SyntaxKind.IDENT || fixes ρ t) = true) :
    (textOfFirstToken (R n)).map String.ofList = (textOfFirstToken n).map String.ofList := by
  unfold textOfFirstToken
  rw [head_children_R]
  unfold headTok at h
  rcases hc : n.children.head? with _ | c
  · rfl
  · rw [hc] at h
    cases c with
    | node => rfl
    | token k s e t =>
      have h' := h k t rfl
      simp only [Option.map_some, mapC, PRes.map, phi]
      by_cases hk : (k == SyntaxKind.IDENT) = true
      · simp only [hk, if_true, String.ofList_toList]
        simp only [bne, hk, Bool.not_true, Bool.false_or, fixes, beq_iff_eq] at h'
        rw [h']
      · simp only [hk, if_false, Bool.false_eq_true]

/-- the same with the token text itself, when the head token is not an `IDENT` or `ρ` fixes it:
the list of characters is the same -/
theorem textOfFirstToken_R_fix' {n : CNode}
    (h : ∀ k t, headTok n = some (k, t) → (k != SyntaxKind.IDENT || fixes ρ t) = true) :
    textOfFirstToken (R n) = textOfFirstToken n := by
  have := textOfFirstToken_R_fix (ρ := ρ) h
  cases h1 : textOfFirstToken (R n) <;> cases h2 : textOfFirstToken n <;>
    rw [h1, h2] at this <;> simp only [PRes.map, PRes.ok.injEq, reduceCtorEq] at this
  all_goals first | rfl | (rw [String.ofList_injective this])

theorem prefix_op_kind_R (n : CNode) : PrefixExpr.op_kind (R n) = PrefixExpr.op_kind n := by
  unfold PrefixExpr.op_kind PrefixExpr.op_token
  rw [head_children_R]
  rcases n.children.head? with _ | c
  · rfl
  · cases c <;> simp [CNode.isToken, mapC, CNode.kind]

/-! ### the hand-written accessors -/

theorem assign_rhs_R (n : CNode) : AssignmentStmt.rhs (R n) = (AssignmentStmt.rhs n).map R := by
  unfold AssignmentStmt.rhs
  simp only [children_supp_R, List.head?_map, head?_map_getElem, Option.isSome_map]
  split <;> rfl

theorem condition_R (n : CNode) : IfStmt.condition (R n) = (IfStmt.condition n).map R := by
  unfold IfStmt.condition
  simp only [children_supp_R, List.head?_map, head?_map_getElem]
  rcases (support.children Expr.canCast n).head? with _ | e
  · rfl
  · simp only [Option.map_some, Expr.isBlockExpr, kind_R]
    by_cases hb : (e.kind == SyntaxKind.BLOCK_EXPR) = true
    · simp only [hb, if_true]
      cases (support.children Expr.canCast n)[1]? <;> rfl
    · simp only [hb, if_false]; rfl

theorem while_condition_R (n : CNode) : WhileStmt.condition (R n) = (WhileStmt.condition n).map R :=
  condition_R n

theorem then_branch_block_R (n : CNode) :
    IfStmt.then_branch_block (R n) = (IfStmt.then_branch_block n).map R := by
  unfold IfStmt.then_branch_block
  simp only [children_supp_R, head?_map_getElem]
  rcases (support.children Expr.canCast n)[1]? with _ | e
  · rfl
  · simp only [Option.map_some, Expr.isBlockExpr, kind_R]
    by_cases hb : (e.kind == SyntaxKind.BLOCK_EXPR) = true <;> simp [hb]

theorem else_branch_block_R (n : CNode) :
    IfStmt.else_branch_block (R n) = (IfStmt.else_branch_block n).map R := by
  unfold IfStmt.else_branch_block
  simp only [children_supp_R, head?_map_getElem]
  rcases (support.children Expr.canCast n)[2]? with _ | e
  · rfl
  · simp only [Option.map_some, Expr.isBlockExpr, kind_R]
    by_cases hb : (e.kind == SyntaxKind.BLOCK_EXPR) = true <;> simp [hb]

theorem if_true_body_R (n : CNode) :
    IfStmt.true_body_block_or_stmt (R n) = (IfStmt.true_body_block_or_stmt n).map (bosMapR ρ) := by
  unfold IfStmt.true_body_block_or_stmt IfStmt.then_branch_stmt
  rw [then_branch_block_R, child_supp_R]
  cases IfStmt.then_branch_block n <;> cases support.child Stmt.canCast n <;> rfl

theorem if_false_body_R (n : CNode) :
    IfStmt.false_body_block_or_stmt (R n) = (IfStmt.false_body_block_or_stmt n).map (bosMapR ρ) := by
  unfold IfStmt.false_body_block_or_stmt IfStmt.else_branch_stmt
  rw [else_branch_block_R, child_supp_R]
  cases IfStmt.else_branch_block n <;> cases support.child Stmt.canCast n <;> rfl

theorem while_block_or_stmt_R (n : CNode) :
    WhileStmt.block_or_stmt (R n) = (WhileStmt.block_or_stmt n).map (bosMapR ρ) := by
  unfold WhileStmt.block_or_stmt WhileStmt.body WhileStmt.stmt
  simp only [children_supp_R, List.head?_map]
  cases (support.children BlockExpr.canCast n).head? <;>
    cases (support.children Stmt.canCast n).head? <;> rfl

theorem for_block_or_stmt_R (n : CNode) :
    ForStmt.block_or_stmt (R n) = (ForStmt.block_or_stmt n).map (bosMapR ρ) := by
  unfold ForStmt.block_or_stmt ForStmt.body ForStmt.stmt
  simp only [child_supp_R]
  cases support.child BlockExpr.canCast n <;> cases support.child Stmt.canCast n <;> rfl

theorem bin_op_kind_R (n : CNode) : BinExpr.op_kind (R n) = BinExpr.op_kind n := by
  unfold BinExpr.op_kind BinExpr.op_details
  rw [childTokens_R]
  induction n.childTokens with
  | nil => rfl
  | cons c cs ih =>
    simp only [List.map_cons, List.findSome?_cons, kind_R]
    cases binaryOpOfKind c.kind with
    | none => simpa using ih
    | some op => rfl

theorem bin_lhs_R (n : CNode) : BinExpr.lhs (R n) = (BinExpr.lhs n).map R := by
  unfold BinExpr.lhs; simp [children_supp_R]

theorem bin_rhs_R (n : CNode) : BinExpr.rhs (R n) = (BinExpr.rhs n).map R := by
  unfold BinExpr.rhs; simp [children_supp_R]

theorem range_sss_R (n : CNode) :
    RangeExpr.start_step_stop (R n) =
      ((RangeExpr.start_step_stop n).1.map R, (RangeExpr.start_step_stop n).2.1.map R,
       (RangeExpr.start_step_stop n).2.2.map R) := by
  unfold RangeExpr.start_step_stop
  simp only [children_supp_R, List.head?_map, head?_map_getElem, Option.isNone_map]
  split <;> rfl

theorem firstNonTriviaToken_R (n : CNode) :
    firstNonTriviaToken (R n) = (firstNonTriviaToken n).map R := by
  unfold firstNonTriviaToken
  rw [children_R]
  have : (n.children.map R).find? (fun e => !e.kind.isTrivia) =
      (n.children.find? (fun e => !e.kind.isTrivia)).map R := by
    induction n.children with
    | nil => rfl
    | cons c cs ih =>
      simp only [List.map_cons, List.find?_cons, kind_R]
      cases (!c.kind.isTrivia) <;> simp [ih]
  rw [this]
  generalize n.children.find? (fun e => !e.kind.isTrivia) = o
  cases o with
  | none => rfl
  | some c =>
    simp only [Option.map_some, isToken_R]
    cases c.isToken <;> rfl

/-- the literal read from the renamed node is the same literal (its token is not an `IDENT`) -/
theorem literal_kind_R (n : CNode) :
    (Literal.kind (R n)).map Build.literalKind = (Literal.kind n).map Build.literalKind := by
  unfold Literal.kind Literal.token
  rw [firstNonTriviaToken_R]
  rcases firstNonTriviaToken n with t | _
  · simp only [PRes.map, kind_R]
    generalize hk : t.kind = k
    cases k <;> simp only [PRes.map, Build.literalKind] <;>
      rw [tokenText_R t (by rw [hk]; decide)]
  · rfl

theorem scalar_kind_R (n : CNode) : ScalarType.kind (R n) = ScalarType.kind n := by
  unfold ScalarType.kind ScalarType.token
  rw [firstNonTriviaToken_R]
  rcases firstNonTriviaToken n with t | _
  · simp only [PRes.map, kind_R]
  · rfl

theorem file_to_string_R (n : CNode) : FilePath.to_string (R n) = FilePath.to_string n := by
  unfold FilePath.to_string FilePath.string FilePath.token
  rw [firstNonTriviaToken_R]
  generalize firstNonTriviaToken n = r
  cases r with
  | panic => rfl
  | ok t =>
    simp only [PRes.map, kind_R]
    by_cases hk : (t.kind == SyntaxKind.STRING) = true
    · simp only [hk, if_true]
      rw [tokenText_R t (by rw [eq_of_beq hk]; decide)]
    · simp only [hk, if_false]; rfl

theorem gate_call_identifier_R (n : CNode) :
    GateCallExpr.identifier (R n) = (GateCallExpr.identifier n).map R := by
  unfold GateCallExpr.identifier
  simp only [children_supp_R, List.head?_map]
  rcases (support.children Expr.canCast n).head? with _ | e
  · rfl
  · simp only [Option.map_some, kind_R]; split <;> rfl

theorem call_identifier_R (n : CNode) : CallExpr.identifier (R n) = (CallExpr.identifier n).map R :=
  gate_call_identifier_R n

theorem gate_angle_params_R (n : CNode) : Gate.angle_params (R n) = (Gate.angle_params n).map R := by
  unfold Gate.angle_params Gate.angles_and_or_qubits
  simp only [children_supp_R, List.head?_map, head?_map_getElem, Option.isNone_map]
  split <;> rfl

theorem gate_qubit_params_R (n : CNode) : Gate.qubit_params (R n) = (Gate.qubit_params n).map R := by
  unfold Gate.qubit_params Gate.angles_and_or_qubits
  simp only [children_supp_R, List.head?_map, head?_map_getElem, Option.isNone_map]
  split <;> rfl

end Oq3.RenameText
