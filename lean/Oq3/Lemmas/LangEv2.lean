/-
C04, extended reference language, part 1: EXPRESSIONS `X` — definitions.

`X` extends `Oq3.PrattEv.E` by the atoms and postfix operators of `atom_expr` / `postfix_expr`:
literals of five kinds, timing / imaginary literals (number + identifier), hardware qubits, casts
`ty(e)` / `ty[w](e)`, `measure q`, calls `p(e, …)`, index expressions `p[items]…` and indexed
identifiers `a[items][items]…` (items: expressions and ranges `e:e`, `e:e:e`).

Event shape of a primary with postfix operators `b post₁ … post_k`: every postfix operator
`precede`s the node completed so far, so

    Start kind(b) (fp → post₁) … Finish     Start kind(post₁) (fp → post₂) … Finish   …   Start kind(post_k) (fp) … Finish

and the ROOT of the primary is the LAST `Start`; the marker of `expr_bp` links to that root
(`Start TOMBSTONE (fp headOff+1)`), the chain base → post₁ → … is walked by `process` separately.
-/
import Oq3.Lemmas.LangEv

namespace Oq3.LangEv2
open Oq3.Gen Oq3.Parser Oq3.PrattEv Oq3.LangEv

inductive Lit | int | float | bits | tru | fals
  deriving DecidableEq, Repr, Inhabited
def Lit.kind : Lit → SyntaxKind
  | .int => .INT_NUMBER | .float => .FLOAT_NUMBER | .bits => .BIT_STRING | .tru => .TRUE_KW | .fals => .FALSE_KW

inductive Num | int | float
  deriving DecidableEq, Repr, Inhabited
def Num.kind : Num → SyntaxKind
  | .int => .INT_NUMBER | .float => .FLOAT_NUMBER

mutual
inductive X
  | prim (p : Prim)
  | bin (o : BinOp) (l r : X)
  | pre (o : PreOp) (e : X)
inductive Prim
  | id
  | lit (k : Lit)
  /-- timing / imaginary literal: number followed by an identifier (`10ns`, `2im`) -/
  | timing (k : Num)
  /-- hardware qubit `$0` -/
  | hw
  | paren (e : X)
  /-- `ty(e)` -/
  | cast0 (ty : Ty) (e : X)
  /-- `ty[w](e)` -/
  | castW (ty : Ty) (w e : X)
  /-- `measure q` -/
  | measureE
  /-- `measure $0` -/
  | measureHw
  /-- `measure q[…]…` -/
  | measureIdx (ixs : IdxList)
  /-- identifier with one or more index operators `a[…][…]` (INDEXED_IDENTIFIER) -/
  | idIdx (ixs : IdxList)
  /-- call `p(args)` -/
  | call (p : Prim) (args : XList)
  /-- index expression `p[items]` on a base that is not an identifier or a literal -/
  | index (p : Prim) (items : ItemList)
inductive XList
  | nil
  | cons (x : X) (xs : XList)
inductive Item
  | ex (x : X)
  | r2 (lo hi : X)
  | r3 (lo mid hi : X)
inductive ItemList
  | one (i : Item)
  | cons (i : Item) (is : ItemList)
inductive IdxList
  | one (is : ItemList)
  | cons (is : ItemList) (rest : IdxList)
end

/-! ### print -/

mutual
def toksX : X → List Tok
  | .prim p => toksP p
  | .bin o l r => toksX l ++ (o.toks ++ toksX r)
  | .pre o e => (o.kind, false) :: toksX e
def toksP : Prim → List Tok
  | .id => [tk .IDENT]
  | .lit k => [tk k.kind]
  | .timing k => [tk k.kind, tk .IDENT]
  | .hw => [tk .HARDWAREIDENT]
  | .paren e => tk .L_PAREN :: (toksX e ++ [tk .R_PAREN])
  | .cast0 ty e => tk ty.kind :: tk .L_PAREN :: (toksX e ++ [tk .R_PAREN])
  | .castW ty w e => tk ty.kind :: tk .L_BRACK :: (toksX w ++ (tk .R_BRACK :: tk .L_PAREN :: (toksX e ++ [tk .R_PAREN])))
  | .measureE => [tk .MEASURE_KW, tk .IDENT]
  | .measureHw => [tk .MEASURE_KW, tk .HARDWAREIDENT]
  | .measureIdx ixs => tk .MEASURE_KW :: tk .IDENT :: toksIdx ixs
  | .idIdx ixs => tk .IDENT :: toksIdx ixs
  | .call p args => toksP p ++ (tk .L_PAREN :: (toksXs args ++ [tk .R_PAREN]))
  | .index p items => toksP p ++ (tk .L_BRACK :: (toksItems items ++ [tk .R_BRACK]))
def toksXs : XList → List Tok
  | .nil => []
  | .cons x .nil => toksX x
  | .cons x (.cons y ys) => toksX x ++ (tk .COMMA :: toksXs (.cons y ys))
def toksItem : Item → List Tok
  | .ex x => toksX x
  | .r2 lo hi => toksX lo ++ (tk .COLON :: toksX hi)
  | .r3 lo mid hi => toksX lo ++ (tk .COLON :: (toksX mid ++ (tk .COLON :: toksX hi)))
def toksItems : ItemList → List Tok
  | .one i => toksItem i
  | .cons i is => toksItem i ++ (tk .COMMA :: toksItems is)
def toksIdx : IdxList → List Tok
  | .one is => tk .L_BRACK :: (toksItems is ++ [tk .R_BRACK])
  | .cons is rest => tk .L_BRACK :: (toksItems is ++ (tk .R_BRACK :: toksIdx rest))
end

/-! ### events -/

mutual
/-- number of events of `bodyX` -/
def lenX : X → Nat
  | .prim p => lenP p
  | .bin _ l r => lenX l + lenX r + 4
  | .pre _ e => lenX e + 4
def lenP : Prim → Nat
  | .id => 3 | .lit _ => 3 | .timing _ => 8 | .hw => 3
  | .paren e => lenX e + 5
  | .cast0 _ e => lenX e + 8
  | .castW _ w e => lenX w + lenX e + 13
  | .measureE => 6
  | .measureHw => 6
  | .measureIdx ixs => lenIdx ixs + 8
  | .idIdx ixs => lenIdx ixs + 5
  | .call p args => lenP p + lenXs args + 8
  | .index p items => lenP p + lenItems items + 8
def lenXs : XList → Nat
  | .nil => 0
  | .cons x .nil => lenX x + 1
  | .cons x (.cons y ys) => lenX x + 2 + lenXs (.cons y ys)
def lenItem : Item → Nat
  | .ex x => lenX x + 2
  | .r2 lo hi => lenX lo + lenX hi + 5
  | .r3 lo mid hi => lenX lo + lenX mid + lenX hi + 7
def lenItems : ItemList → Nat
  | .one i => lenItem i
  | .cons i is => lenItem i + 1 + lenItems is
def lenIdx : IdxList → Nat
  | .one is => lenItems is + 6
  | .cons is rest => lenItems is + 6 + lenIdx rest
end

/-- offset of the root `Start` of a primary inside `bodyP` -/
def rootP : Prim → Nat
  | .idIdx _ => 3
  | .call p _ => lenP p
  | .index p _ => lenP p
  | _ => 0

/-- offset of the root `Start` inside `bodyX` -/
def rootX : X → Nat
  | .prim p => rootP p
  | .bin _ l _ => lenX l
  | .pre _ _ => 0

/-- offset of the root of the LEFTMOST primary inside `bodyX`: where the marker of `expr_bp` links to -/
def headOff : X → Nat
  | .prim p => rootP p
  | .bin _ l _ => headOff l
  | .pre _ _ => 0

def X.kind : X → SyntaxKind
  | .prim .id => .IDENTIFIER
  | .prim (.lit _) => .LITERAL
  | .prim (.timing _) => .TIMING_LITERAL
  | .prim .hw => .HARDWARE_QUBIT
  | .prim (.paren _) => .PAREN_EXPR
  | .prim (.cast0 _ _) => .CAST_EXPRESSION
  | .prim (.castW _ _ _) => .CAST_EXPRESSION
  | .prim .measureE => .MEASURE_EXPRESSION
  | .prim .measureHw => .MEASURE_EXPRESSION
  | .prim (.measureIdx _) => .MEASURE_EXPRESSION
  | .prim (.idIdx _) => .INDEXED_IDENTIFIER
  | .prim (.call _ _) => .CALL_EXPR
  | .prim (.index _ _) => .INDEX_EXPR
  | .bin _ _ _ => .BIN_EXPR
  | .pre _ _ => .PREFIX_EXPR

def Prim.kind (p : Prim) : SyntaxKind := (X.prim p).kind

mutual
def bodyX : X → Option Nat → List Ev
  | .prim p, fp => bodyP p fp
  | .bin o l r, fp =>
    bodyX l (some (lenX l - rootX l)) ++
      ([.start .BIN_EXPR fp, .token o.kind o.pieces.length] ++
        ((.start .TOMBSTONE (some (headOff r + 1)) :: bodyX r none) ++ [.finish]))
  | .pre o e, fp =>
    [.start .PREFIX_EXPR fp, .token o.kind 1] ++ ((.start .TOMBSTONE (some (headOff e + 1)) :: bodyX e none) ++ [.finish])
def bodyP : Prim → Option Nat → List Ev
  | .id, fp => [.start .IDENTIFIER fp, .token .IDENT 1, .finish]
  | .lit k, fp => [.start .LITERAL fp, .token k.kind 1, .finish]
  | .timing k, fp =>
    [.start .TIMING_LITERAL fp, .start .LITERAL none, .token k.kind 1, .finish, .start .IDENTIFIER none,
     .token .IDENT 1, .finish, .finish]
  | .hw, fp => [.start .HARDWARE_QUBIT fp, .token .HARDWAREIDENT 1, .finish]
  | .paren e, fp =>
    [.start .PAREN_EXPR fp, .token .L_PAREN 1] ++
      ((.start .TOMBSTONE (some (headOff e + 1)) :: bodyX e none) ++ [.token .R_PAREN 1, .finish])
  | .cast0 ty e, fp =>
    [.start .CAST_EXPRESSION fp, .start .SCALAR_TYPE none, .token ty.kind 1, .finish, .token .L_PAREN 1] ++
      ((.start .TOMBSTONE (some (headOff e + 1)) :: bodyX e none) ++ [.token .R_PAREN 1, .finish])
  | .castW ty w e, fp =>
    [.start .CAST_EXPRESSION fp, .start .SCALAR_TYPE none, .token ty.kind 1, .start .DESIGNATOR none, .token .L_BRACK 1] ++
      ((.start .TOMBSTONE (some (headOff w + 1)) :: bodyX w none) ++
        ([.token .R_BRACK 1, .finish, .finish, .token .L_PAREN 1] ++
          ((.start .TOMBSTONE (some (headOff e + 1)) :: bodyX e none) ++ [.token .R_PAREN 1, .finish])))
  | .measureE, fp =>
    [.start .MEASURE_EXPRESSION fp, .token .MEASURE_KW 1, .start .IDENTIFIER none, .token .IDENT 1, .finish, .finish]
  | .measureHw, fp =>
    [.start .MEASURE_EXPRESSION fp, .token .MEASURE_KW 1, .start .HARDWARE_QUBIT none, .token .HARDWAREIDENT 1, .finish, .finish]
  | .measureIdx ixs, fp =>
    [.start .MEASURE_EXPRESSION fp, .token .MEASURE_KW 1, .start .IDENTIFIER (some 3), .token .IDENT 1, .finish,
     .start .INDEXED_IDENTIFIER none] ++ (evsIdx ixs ++ [.finish, .finish])
  | .idIdx ixs, fp =>
    [.start .IDENTIFIER (some 3), .token .IDENT 1, .finish, .start .INDEXED_IDENTIFIER fp] ++ (evsIdx ixs ++ [.finish])
  | .call p args, fp =>
    bodyP p (some (lenP p - rootP p)) ++
      ([.start .CALL_EXPR fp, .start .ARG_LIST none, .start .EXPRESSION_LIST none, .token .L_PAREN 1] ++
        (evsXs args ++ [.token .R_PAREN 1, .finish, .finish, .finish]))
  | .index p items, fp =>
    bodyP p (some (lenP p - rootP p)) ++
      ([.start .INDEX_EXPR fp, .start .INDEX_OPERATOR none, .token .L_BRACK 1, .start .EXPRESSION_LIST none] ++
        (evsItems items ++ [.finish, .token .R_BRACK 1, .finish, .finish]))
def evsXs : XList → List Ev
  | .nil => []
  | .cons x .nil => .start .TOMBSTONE (some (headOff x + 1)) :: bodyX x none
  | .cons x (.cons y ys) =>
    (.start .TOMBSTONE (some (headOff x + 1)) :: bodyX x none) ++ (.token .COMMA 1 :: evsXs (.cons y ys))
def evsItem : Item → List Ev
  | .ex x => .start .TOMBSTONE none :: .start .TOMBSTONE (some (headOff x + 1)) :: bodyX x none
  | .r2 lo hi =>
    .start .RANGE_EXPR none :: ((.start .TOMBSTONE (some (headOff lo + 1)) :: bodyX lo none) ++
      (.token .COLON 1 :: ((.start .TOMBSTONE (some (headOff hi + 1)) :: bodyX hi none) ++ [.finish])))
  | .r3 lo mid hi =>
    .start .RANGE_EXPR none :: ((.start .TOMBSTONE (some (headOff lo + 1)) :: bodyX lo none) ++
      (.token .COLON 1 :: ((.start .TOMBSTONE (some (headOff mid + 1)) :: bodyX mid none) ++
        (.token .COLON 1 :: ((.start .TOMBSTONE (some (headOff hi + 1)) :: bodyX hi none) ++ [.finish])))))
def evsItems : ItemList → List Ev
  | .one i => evsItem i
  | .cons i is => evsItem i ++ (.token .COMMA 1 :: evsItems is)
def evsIdx : IdxList → List Ev
  | .one is =>
    [.start .INDEX_OPERATOR none, .token .L_BRACK 1, .start .EXPRESSION_LIST none] ++
      (evsItems is ++ [.finish, .token .R_BRACK 1, .finish])
  | .cons is rest =>
    [.start .INDEX_OPERATOR none, .token .L_BRACK 1, .start .EXPRESSION_LIST none] ++
      (evsItems is ++ (.finish :: .token .R_BRACK 1 :: .finish :: evsIdx rest))
end

/-- **the event encoding** of an expression: what `expr_bp` pushes -/
def evsX (x : X) : List Ev := .start .TOMBSTONE (some (headOff x + 1)) :: bodyX x none

/-! ### nodes -/

mutual
def nodesX : X → List Step
  | .prim p => nodesP p
  | .bin o l r => [.enter .BIN_EXPR] ++ (nodesX l ++ ([.token o.kind o.pieces.length] ++ (nodesX r ++ [.exit])))
  | .pre o e => [.enter .PREFIX_EXPR, .token o.kind 1] ++ (nodesX e ++ [.exit])
def nodesP : Prim → List Step
  | .id => [.enter .IDENTIFIER, .token .IDENT 1, .exit]
  | .lit k => [.enter .LITERAL, .token k.kind 1, .exit]
  | .timing k =>
    [.enter .TIMING_LITERAL, .enter .LITERAL, .token k.kind 1, .exit, .enter .IDENTIFIER, .token .IDENT 1, .exit, .exit]
  | .hw => [.enter .HARDWARE_QUBIT, .token .HARDWAREIDENT 1, .exit]
  | .paren e => [.enter .PAREN_EXPR, .token .L_PAREN 1] ++ (nodesX e ++ [.token .R_PAREN 1, .exit])
  | .cast0 ty e =>
    [.enter .CAST_EXPRESSION, .enter .SCALAR_TYPE, .token ty.kind 1, .exit, .token .L_PAREN 1] ++
      (nodesX e ++ [.token .R_PAREN 1, .exit])
  | .castW ty w e =>
    [.enter .CAST_EXPRESSION, .enter .SCALAR_TYPE, .token ty.kind 1, .enter .DESIGNATOR, .token .L_BRACK 1] ++
      (nodesX w ++ ([.token .R_BRACK 1, .exit, .exit, .token .L_PAREN 1] ++ (nodesX e ++ [.token .R_PAREN 1, .exit])))
  | .measureE => [.enter .MEASURE_EXPRESSION, .token .MEASURE_KW 1, .enter .IDENTIFIER, .token .IDENT 1, .exit, .exit]
  | .measureHw => [.enter .MEASURE_EXPRESSION, .token .MEASURE_KW 1, .enter .HARDWARE_QUBIT, .token .HARDWAREIDENT 1, .exit, .exit]
  | .measureIdx ixs =>
    [.enter .MEASURE_EXPRESSION, .token .MEASURE_KW 1, .enter .INDEXED_IDENTIFIER, .enter .IDENTIFIER, .token .IDENT 1, .exit] ++
      (nodesIdx ixs ++ [.exit, .exit])
  | .idIdx ixs =>
    [.enter .INDEXED_IDENTIFIER, .enter .IDENTIFIER, .token .IDENT 1, .exit] ++ (nodesIdx ixs ++ [.exit])
  | .call p args =>
    [.enter .CALL_EXPR] ++ (nodesP p ++ ([.enter .ARG_LIST, .enter .EXPRESSION_LIST, .token .L_PAREN 1] ++
      (nodesXs args ++ [.token .R_PAREN 1, .exit, .exit, .exit])))
  | .index p items =>
    [.enter .INDEX_EXPR] ++ (nodesP p ++ ([.enter .INDEX_OPERATOR, .token .L_BRACK 1, .enter .EXPRESSION_LIST] ++
      (nodesItems items ++ [.exit, .token .R_BRACK 1, .exit, .exit])))
def nodesXs : XList → List Step
  | .nil => []
  | .cons x .nil => nodesX x
  | .cons x (.cons y ys) => nodesX x ++ (.token .COMMA 1 :: nodesXs (.cons y ys))
def nodesItem : Item → List Step
  | .ex x => nodesX x
  | .r2 lo hi => .enter .RANGE_EXPR :: (nodesX lo ++ (.token .COLON 1 :: (nodesX hi ++ [.exit])))
  | .r3 lo mid hi =>
    .enter .RANGE_EXPR :: (nodesX lo ++ (.token .COLON 1 :: (nodesX mid ++ (.token .COLON 1 :: (nodesX hi ++ [.exit])))))
def nodesItems : ItemList → List Step
  | .one i => nodesItem i
  | .cons i is => nodesItem i ++ (.token .COMMA 1 :: nodesItems is)
def nodesIdx : IdxList → List Step
  | .one is =>
    [.enter .INDEX_OPERATOR, .token .L_BRACK 1, .enter .EXPRESSION_LIST] ++ (nodesItems is ++ [.exit, .token .R_BRACK 1, .exit])
  | .cons is rest =>
    [.enter .INDEX_OPERATOR, .token .L_BRACK 1, .enter .EXPRESSION_LIST] ++
      (nodesItems is ++ (.exit :: .token .R_BRACK 1 :: .exit :: nodesIdx rest))
end

mutual
def sizeX : X → Nat
  | .prim p => sizeP p
  | .bin _ l r => sizeX l + sizeX r + 1
  | .pre _ e => sizeX e + 1
def sizeP : Prim → Nat
  | .paren e => sizeX e + 1
  | .cast0 _ e => sizeX e + 1
  | .castW _ w e => sizeX w + sizeX e + 1
  | .idIdx ixs => sizeIdx ixs + 1
  | .measureIdx ixs => sizeIdx ixs + 1
  | .call p args => sizeP p + sizeXs args + 1
  | .index p items => sizeP p + sizeItems items + 1
  | _ => 1
def sizeXs : XList → Nat
  | .nil => 0
  | .cons x xs => sizeX x + sizeXs xs + 1
def sizeItem : Item → Nat
  | .ex x => sizeX x + 1
  | .r2 lo hi => sizeX lo + sizeX hi + 1
  | .r3 lo mid hi => sizeX lo + sizeX mid + sizeX hi + 1
def sizeItems : ItemList → Nat
  | .one i => sizeItem i + 1
  | .cons i is => sizeItem i + sizeItems is + 1
def sizeIdx : IdxList → Nat
  | .one is => sizeItems is + 1
  | .cons is rest => sizeItems is + sizeIdx rest + 1
end

/-- `sinceBump` after the expression -/
def sbP : Prim → Nat
  | .id | .lit _ | .hw | .paren _ | .cast0 _ _ | .castW _ _ _ => 2
  | .timing _ | .measureE | .measureHw | .idIdx _ | .index _ _ => 3
  | .measureIdx _ => 4
  | .call _ _ => 4

def sbX : X → Nat
  | .prim p => sbP p
  | .bin _ _ r => sbX r + 1
  | .pre _ e => sbX e + 1

end Oq3.LangEv2
