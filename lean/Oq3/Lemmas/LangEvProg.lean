/-
C04 for a recursive reference language, part 5: well-formedness, fuel, and the acceptance of
statements and statement lists by MUTUAL INDUCTION over the language (`stmt_ok` / `stmts_ok`), then of
whole programs by the top-level loop `source_file_contents` / `item` (`sourceFile_ok`).
-/
import Oq3.Lemmas.LangEvDef
set_option linter.unusedSimpArgs false
set_option linter.unusedVariables false

namespace Oq3.LangEv
open Oq3.Gen Oq3.Parser Oq3.Grammar Oq3.SymExec Oq3.PrattEv
open Oq3.Gen.Ops (Assoc)

/-! ### fuel -/

mutual
/-- fuel that `stmt` needs for the statement -/
def needS : Stmt → Nat
  | .decl _ w init => max (optNeed w) (optNeed init) + 8
  | .assign rhs => 6 * size rhs + 6
  | .exprS e => 6 * size e + 3
  | .gate [] nq => nq + 11
  | .gate (a :: as) nq => argsNeed (a :: as) + nq + 13
  | .measure => 8
  | .assignMeasure => 12
  | .reset => 8
  | .barrier nq => nq + 8
  | .brk => 8
  | .cont => 8
  | .endS => 8
  | .ifS c thn => max (6 * size c) (needL thn) + 6
  | .ifElse c thn els => max (6 * size c) (max (needL thn) (needL els)) + 6
  | .whileS c body => max (6 * size c) (needL body) + 6
  | .forS _ lo hi body => max (max (6 * size lo) (6 * size hi)) (needL body) + 8
  | .gateDef none nq body => max (nq + 5) (needL body + 3) + 3
  | .gateDef (some k) nq body => max (max (k + 5) (nq + 5)) (needL body + 3) + 3
  | .defS ps _ body => max (ps.length + 6) (needL body + 3) + 3
  | .ret none => 8
  | .ret (some e) => 6 * size e + 9
/-- fuel that the statement loop needs for the list -/
def needL : Stmts → Nat
  | .nil => 1
  | .cons s ss => max (needS s) (needL ss) + 1
end

/-! ### first tokens -/

def firstTokE : E → SyntaxKind
  | .id => .IDENT
  | .int => .INT_NUMBER
  | .bin _ l _ => firstTokE l
  | .pre o _ => o.kind
  | .paren _ => .L_PAREN

def firstTokS : Stmt → SyntaxKind
  | .decl ty _ _ => ty.kind
  | .assign _ => .IDENT
  | .exprS e => firstTokE e
  | .gate _ _ => .IDENT
  | .measure => .MEASURE_KW
  | .assignMeasure => .IDENT
  | .reset => .RESET_KW
  | .barrier _ => .BARRIER_KW
  | .brk => .BREAK_KW
  | .cont => .CONTINUE_KW
  | .endS => .END_KW
  | .ifS _ _ => .IF_KW
  | .ifElse _ _ _ => .IF_KW
  | .whileS _ _ => .WHILE_KW
  | .forS _ _ _ _ => .FOR_KW
  | .gateDef _ _ _ => .GATE_KW
  | .defS _ _ _ => .DEF_KW
  | .ret _ => .RETURN_KW

theorem toks_firstTok (e : E) : ∃ j ts, toks e = (firstTokE e, j) :: ts := by
  induction e with
  | id => exact ⟨_, _, rfl⟩
  | int => exact ⟨_, _, rfl⟩
  | pre o e ih => exact ⟨_, _, rfl⟩
  | paren e ih => exact ⟨_, _, rfl⟩
  | bin o l r ihl ihr =>
    obtain ⟨j, ts, h⟩ := ihl
    exact ⟨j, ts ++ (o.toks ++ toks r), by simp [toks, firstTokE, h]⟩

theorem firstTokE_operand (e : E) : operandFirst (firstTokE e) = true := by
  induction e with
  | id => rfl
  | int => rfl
  | pre o e ih => cases o <;> rfl
  | paren e ih => rfl
  | bin o l r ihl ihr => exact ihl

theorem toksS_firstTok (st : Stmt) : ∃ j ts, toksS st = (firstTokS st, j) :: ts := by
  cases st with
  | decl ty w init =>
    obtain ⟨ts, h⟩ := tyToks_head ty w
    cases init with
    | none => exact ⟨false, ts ++ [tk .IDENT, tk .SEMICOLON], by simp [toksS, firstTokS, h, tk]⟩
    | some e => exact ⟨false, ts ++ (tk .IDENT :: tk .EQ :: (toks e ++ [tk .SEMICOLON])), by simp [toksS, firstTokS, h, tk]⟩
  | exprS e =>
    obtain ⟨j, ts, h⟩ := toks_firstTok e
    exact ⟨j, ts ++ [tk .SEMICOLON], by simp [toksS, firstTokS, h]⟩
  | gate args nq => cases args <;> exact ⟨_, _, rfl⟩
  | gateDef ps nq body => cases ps <;> exact ⟨_, _, rfl⟩
  | ret e => cases e <;> exact ⟨_, _, rfl⟩
  | _ => exact ⟨_, _, rfl⟩

/-! ### well-formedness: canonical expressions and the Follow restrictions -/

def isAssign : Stmt → Bool
  | .assign _ => true
  | .assignMeasure => true
  | _ => false

/-- does the list start with an expression statement whose first token is `-`? -/
def startsMinus : Stmts → Bool
  | .cons (.exprS e) _ => firstTokE e == .MINUS
  | _ => false

mutual
def WFS : Stmt → Prop
  | .decl ty w init =>
    (w.isSome = true → ty.wide = true) ∧ (∀ e, w = some e → CanonE 1 e) ∧ (∀ e, init = some e → CanonE 1 e)
  /- F06: the right-hand side of an assignment is parsed at binding power 12: it must not be a
  bare binary expression (atoms, prefix and parenthesised expressions are canonical at every level) -/
  | .assign rhs => CanonE 12 rhs
  | .exprS e => CanonE 1 e
  | .gate args _ => ∀ a ∈ args, CanonE 1 a
  | .ifS c thn => CanonE 1 c ∧ WFL thn
  | .ifElse c thn els => CanonE 1 c ∧ WFL thn ∧ WFL els
  | .whileS c body => CanonE 1 c ∧ WFL body
  | .forS _ lo hi body => CanonE 1 lo ∧ CanonE 1 hi ∧ WFL body
  | .gateDef _ _ body => WFL body
  | .defS _ _ body => WFL body
  | .ret e => ∀ x, e = some x → CanonE 1 x
  | _ => True
/-- F09e: an assignment keeps looking for a binary operator after its `;`, so the next statement
must not start with `-` (the only first token of our statements that `current_op` takes for an
operator) -/
def WFL : Stmts → Prop
  | .nil => True
  | .cons s ss => WFS s ∧ WFL ss ∧ (isAssign s = true → startsMinus ss = false)
end

/-! ### the statement loop -/

/-- the statement loop at a closing token -/
theorem ebs_nil (F : Nat) (s : P) (hk : closer (s.kindAt s.pos)) : Acc (exprBlockStatements (F + 1)) s 0 [] := by
  refine ⟨s.steps, s.sinceBump, Nat.le_refl _, of_ov _ _ _ ?_⟩
  have h0 : s.kindAt (s.pos + 0) = s.kindAt s.pos := rfl
  rcases hk with hk | hk
  · rw [← h0] at hk
    show _ = _
    sym_eval [hk]
    rfl
  · rw [← h0] at hk
    show _ = _
    sym_eval [hk]
    rfl

/-- one iteration of the statement loop -/
theorem ebs_cons (F : Nat) (s : P) (n1 n2 : Nat) (E1 E2 : List Ev)
    (hk1 : s.kindAt s.pos ≠ .EOF) (hk2 : s.kindAt s.pos ≠ .R_CURLY)
    (h1 : Acc (stmt F) s n1 E1)
    (h2 : ∀ st sb, st ≤ s.steps → Acc (exprBlockStatements F) (s.ov E1 n1 st sb s.live s.protectedPos) n2 E2) :
    Acc (exprBlockStatements (F + 1)) s (n1 + n2) (E1 ++ E2) := by
  obtain ⟨st1, sb1, hle1, hx⟩ := h1
  obtain ⟨st2, sb2, hle2, hy⟩ := h2 st1 sb1 hle1
  refine ⟨st2, sb2, Nat.le_trans hle2 hle1, of_ov _ _ _ ?_⟩
  have b1 : (s.kindAt (s.pos + 0) == SyntaxKind.EOF) = false := beq_false_of_ne hk1
  have b2 : (s.kindAt (s.pos + 0) == SyntaxKind.R_CURLY) = false := beq_false_of_ne hk2
  have hx' : stmt F (s.ov [] 0 s.steps s.sinceBump s.live s.protectedPos) =
      .ok ((), s.ov E1 n1 st1 sb1 s.live s.protectedPos) := by rw [P.ov_base]; exact hx
  rw [ov_ov] at hy
  have hy' : exprBlockStatements F (s.ov E1 n1 st1 sb1 s.live s.protectedPos) =
      .ok ((), s.ov (E1 ++ E2) (n1 + n2) st2 sb2 s.live s.protectedPos) := hy
  show _ = _
  sym_eval [b1, b2, hx', hy']
  rfl

/-! ### what follows a statement -/

theorem firstTokS_props (st : Stmt) :
    firstTokS st ≠ .EOF ∧ firstTokS st ≠ .R_CURLY ∧ firstTokS st ≠ .ELSE_KW ∧
      (startsOp (firstTokS st) = true → ∃ e, st = .exprS e ∧ (firstTokE e = .BANG ∨ firstTokE e = .MINUS)) := by
  cases st with
  | decl ty w init => cases ty <;> simp only [firstTokS, Ty.kind] <;> exact ⟨by decide, by decide, by decide, fun h => absurd h (by decide)⟩
  | exprS e =>
    have h := firstTokE_operand e
    simp only [firstTokS]
    simp only [operandFirst, Bool.or_eq_true, beq_iff_eq] at h
    refine ⟨?_, ?_, ?_, fun hs => ⟨e, rfl, ?_⟩⟩
    · rcases h with ((((h | h) | h) | h) | h) | h <;> rw [h] <;> decide
    · rcases h with ((((h | h) | h) | h) | h) | h <;> rw [h] <;> decide
    · rcases h with ((((h | h) | h) | h) | h) | h <;> rw [h] <;> decide
    · rcases h with ((((h | h) | h) | h) | h) | h <;> rw [h] at hs ⊢ <;> first | (exact absurd hs (by decide)) | simp
  | _ => simp only [firstTokS] <;> exact ⟨by decide, by decide, by decide, fun h => absurd h (by decide)⟩

theorem toks_bang (e : E) (h : firstTokE e = .BANG) :
    ∃ j k j' ts, toks e = (.BANG, j) :: (k, j') :: ts ∧ operandFirst k = true := by
  induction e with
  | id => cases h
  | int => cases h
  | paren e ih => cases h
  | pre o e ih =>
    obtain ⟨k, j', ts, ht, hk⟩ := toks_first e
    simp only [firstTokE] at h
    exact ⟨false, k, j', ts, by simp [toks, h, ht], hk⟩
  | bin o l r ihl ihr =>
    obtain ⟨j, k, j', ts, ht, hk⟩ := ihl h
    exact ⟨j, k, j', ts ++ (o.toks ++ toks r), by simp [toks, ht], hk⟩

theorem rows_BANG : Ops.currentOpRows.filter (·.1 == SyntaxKind.BANG) =
    [(.BANG, some .NEQ, some (5, .NEQ, .left))] := by decide

/-- `!` not followed by `=` is not an operator -/
theorem opF_bang (s : P) (q : Nat) (h0 : s.kindAt q = .BANG) (h1 : s.kindAt (q + 1) ≠ .EQ) :
    opF s.kinds s.joint q = notAnOp := by
  simp only [P.kindAt] at h0 h1
  unfold opF
  rw [h0, scanF_filter, rows_BANG]
  simp only [scanF, atF_NEQ, h0, h1, Bool.and_eq_true, beq_iff_eq, false_and, and_false, if_false, if_true]

/-- the token at the start of a statement list (or the closing token after it) does not continue a
preceding assignment, unless the list starts with `-` -/
theorem stopsAt_next (ss : Stmts) (s : P) (q : Nat) (htk : Toks s q (toksL ss))
    (hcl : closer (s.kindAt (q + (toksL ss).length))) (hm : startsMinus ss = false) : StopsAt s q 1 := by
  unfold StopsAt
  cases ss with
  | nil =>
    simp only [toksL, List.length_nil, Nat.add_zero] at hcl
    rw [opF_nonop _ _ _ (by rcases hcl with h | h <;> (simp only [P.kindAt] at h; rw [h]; decide))]
    decide
  | cons st ss' =>
    obtain ⟨j, ts, hts⟩ := toksS_firstTok st
    simp only [toksL, Toks_append] at htk
    obtain ⟨hst, -⟩ := htk
    have h0 : s.kindAt q = firstTokS st := by rw [hts] at hst; exact hst.1
    obtain ⟨-, -, -, hop⟩ := firstTokS_props st
    cases hso : startsOp (firstTokS st) with
    | false =>
      rw [opF_nonop _ _ _ (by simp only [P.kindAt] at h0; rw [h0]; exact hso)]
      decide
    | true =>
      obtain ⟨e, rfl, hb | hmn⟩ := hop hso
      · obtain ⟨j1, k, j', ts', ht, hk⟩ := toks_bang e hb
        simp only [toksS, Toks_append, ht, Toks] at hst
        obtain ⟨⟨-, -, h1, -⟩, -⟩ := hst
        rw [opF_bang s q (by rw [h0]; exact hb) (by rw [h1]; exact (operandFirst_ne hk).1)]
        decide
      · simp only [startsMinus, hmn, beq_self_eq_true] at hm
        cases hm

/-- the Follow condition of a statement at position `q` (the token after it) -/
def FollowS (st : Stmt) (s : P) (q : Nat) : Prop :=
  match st with
  | .assign _ => StopsAt s q 1
  | .assignMeasure => StopsAt s q 1
  | .ifS _ _ => s.kindAt q ≠ .ELSE_KW
  | _ => True

theorem followS_next (st : Stmt) (ss : Stmts) (s : P) (q : Nat) (htk : Toks s q (toksL ss))
    (hcl : closer (s.kindAt (q + (toksL ss).length))) (hm : isAssign st = true → startsMinus ss = false) :
    FollowS st s q := by
  have hne : s.kindAt q ≠ .ELSE_KW := by
    cases ss with
    | nil =>
      simp only [toksL, List.length_nil, Nat.add_zero] at hcl
      rcases hcl with h | h <;> rw [h] <;> decide
    | cons st' ss' =>
      obtain ⟨j, ts, hts⟩ := toksS_firstTok st'
      simp only [toksL, Toks_append, hts, Toks] at htk
      rw [htk.1.1]; exact (firstTokS_props st').2.2.1
  cases st <;> simp only [FollowS] <;> first | trivial | exact hne | exact stopsAt_next ss s q htk hcl (hm rfl)

/-! ### the induction over the language -/

mutual
/-- **every well-formed statement is accepted by `stmt`**, from any state, with exactly its events -/
theorem stmt_ok : ∀ (st : Stmt) (F : Nat) (s : P), needS st ≤ F → Rdy 8 s → Toks s s.pos (toksS st) → WFS st →
    FollowS st s (s.pos + (toksS st).length) → Acc (stmt F) s (toksS st).length (evsS st)
  | .decl ty w none, F, s, hF, hr, htk, hwf, _ =>
    stmt_decl_none ty w F s hr (by simp only [needS] at hF; omega) hwf.1 hwf.2.1 htk
  | .decl ty w (some e), F, s, hF, hr, htk, hwf, _ =>
    stmt_decl_some ty w e F s hr (by simp only [needS] at hF; omega)
      (by simp only [needS, optNeed] at hF; omega) (hwf.2.2 e rfl) hwf.1 hwf.2.1 htk
  | .assign rhs, F, s, hF, hr, htk, hwf, hfol => stmt_assign rhs F s hr hF htk hwf hfol
  | .exprS e, F, s, hF, hr, htk, hwf, _ => stmt_exprS e F s hr hF htk hwf
  | .gate [] nq, F, s, hF, hr, htk, _, _ => stmt_gate_nil nq F s hr hF htk
  | .gate (a :: as) nq, F, s, hF, hr, htk, hwf, _ => stmt_gate_cons a as nq F s hr hF htk hwf
  | .measure, F, s, hF, hr, htk, _, _ => stmt_measure F s hr hF htk
  | .assignMeasure, F, s, hF, hr, htk, _, hfol => stmt_assignMeasure F s hr hF htk hfol
  | .reset, F, s, hF, hr, htk, _, _ => stmt_reset F s hr hF htk
  | .barrier nq, F, s, hF, hr, htk, _, _ => stmt_barrier nq F s hr hF htk
  | .brk, F, s, hF, hr, htk, _, _ => stmt_brk F s hr hF htk
  | .cont, F, s, hF, hr, htk, _, _ => stmt_cont F s hr hF htk
  | .endS, F, s, hF, hr, htk, _, _ => stmt_endS F s hr hF htk
  | .ifS c thn, F, s, hF, hr, htk, hwf, hfol =>
    stmt_ifS c thn (needL thn) F (fun F' s' hF' hr' htk' hcl' => stmts_ok thn F' s' hF' hr' htk' hcl' hwf.2)
      s hr hF htk hwf.1 hfol
  | .ifElse c thn els, F, s, hF, hr, htk, hwf, _ =>
    stmt_ifElse c thn els (needL thn) (needL els) F
      (fun F' s' hF' hr' htk' hcl' => stmts_ok thn F' s' hF' hr' htk' hcl' hwf.2.1)
      (fun F' s' hF' hr' htk' hcl' => stmts_ok els F' s' hF' hr' htk' hcl' hwf.2.2) s hr hF htk hwf.1
  | .whileS c body, F, s, hF, hr, htk, hwf, _ =>
    stmt_whileS c body (needL body) F (fun F' s' hF' hr' htk' hcl' => stmts_ok body F' s' hF' hr' htk' hcl' hwf.2)
      s hr hF htk hwf.1
  | .forS ty lo hi body, F, s, hF, hr, htk, hwf, _ =>
    stmt_forS ty lo hi body (needL body) F
      (fun F' s' hF' hr' htk' hcl' => stmts_ok body F' s' hF' hr' htk' hcl' hwf.2.2) s hr hF htk hwf.1 hwf.2.1
  | .gateDef none nq body, F, s, hF, hr, htk, hwf, _ =>
    stmt_gateDef_none nq body (needL body) F (fun F' s' hF' hr' htk' hcl' => stmts_ok body F' s' hF' hr' htk' hcl' hwf)
      s hr hF htk
  | .gateDef (some k) nq body, F, s, hF, hr, htk, hwf, _ =>
    stmt_gateDef_some k nq body (needL body) F (fun F' s' hF' hr' htk' hcl' => stmts_ok body F' s' hF' hr' htk' hcl' hwf)
      s hr hF htk
  | .defS ps ret body, F, s, hF, hr, htk, hwf, _ =>
    stmt_defS ps ret body (needL body) F (fun F' s' hF' hr' htk' hcl' => stmts_ok body F' s' hF' hr' htk' hcl' hwf)
      s hr hF htk
  | .ret none, F, s, hF, hr, htk, _, _ => stmt_ret_none F s hr hF htk
  | .ret (some e), F, s, hF, hr, htk, hwf, _ => stmt_ret_some e F s hr hF htk (hwf e rfl)
/-- **every well-formed statement list is accepted by the statement loop** -/
theorem stmts_ok : ∀ (ss : Stmts) (F : Nat) (s : P), needL ss ≤ F → Rdy 8 s → Toks s s.pos (toksL ss) →
    closer (s.kindAt (s.pos + (toksL ss).length)) → WFL ss →
    Acc (exprBlockStatements F) s (toksL ss).length (evsL ss)
  | .nil, F, s, hF, hr, htk, hcl, _ => by
    obtain ⟨g, rfl⟩ : ∃ g, F = g + 1 := ⟨F - 1, by simp only [needL] at hF; omega⟩
    exact ebs_nil g s hcl
  | .cons st ss, F, s, hF, hr, htk, hcl, hwf => by
    obtain ⟨g, rfl⟩ : ∃ g, F = g + 1 := ⟨F - 1, by simp only [needL] at hF; omega⟩
    simp only [needL] at hF
    simp only [toksL, Toks_append, List.length_append] at htk hcl ⊢
    obtain ⟨j, ts, hts⟩ := toksS_firstTok st
    have h0 : s.kindAt s.pos = firstTokS st := by have := htk.1; rw [hts] at this; exact this.1
    obtain ⟨hne1, hne2, -, -⟩ := firstTokS_props st
    refine ebs_cons g s _ _ _ _ (by rw [h0]; exact hne1) (by rw [h0]; exact hne2)
      (stmt_ok st g s (by omega) hr htk.1 hwf.1
        (followS_next st ss s _ htk.2 (by rw [Nat.add_assoc]; exact hcl) hwf.2.2))
      (fun st' sb' hle => stmts_ok ss g _ (by omega)
        (Rdy_ov 8 s _ _ _ _ _ _ hr.hook (by have := hr.steps; omega) (fun p hp => Nat.lt_add_right _ (hr.prot p hp)))
        ((Toks_ov s _ _ _ _ _ _ _ _).2 htk.2)
        (by show closer (s.kindAt (s.pos + _ + _)); rw [Nat.add_assoc]; exact hcl) hwf.2.1)
end

end Oq3.LangEv
