/-
C11 (gates, second half) — the CONCRETE composites: the lex-checked parse and the string entry
point, built from the real model stages (no stage is a parameter).

Each definition mirrors one Rust function:

* `lexerErrorsToSyntaxErrors`  — `oq3_syntax/src/parsing.rs: lexer_errors_to_syntax_errors`
  (and the identical loop at the end of `build_tree`): `(msg, lexed.text_range(i))` for every
  `(i, msg)` of `lexed.errors()`; `text_range` asserts `i < len` (`none` = that panic).
* `parseTextCheckLex`          — `oq3_syntax/src/parsing.rs: parse_text_check_lex`:
  `LexedStr::new`; if `!lexed.errors_is_empty()` return `(None, lexer errors)`; otherwise
  `to_input`, `TopEntryPoint::SourceFile.parse` (= grammar `source_file`, `event::process`, the debug
  balance assertions), `build_tree` (= `intersperse_trivia` + `SyntaxTreeBuilder`, then the lexer
  errors appended).
* `checkLexParse`              — `oq3_syntax/src/lib.rs: SourceFile::parse_check_lex`: the above; with
  a tree, `errors.extend(validation::validate(&root))` and `assert_eq!(root.kind(), SOURCE_FILE)`.
* `parsedOfChecked` / `includesOfTree` — what `oq3_source_file` reads off a `ParseOrErrors`:
  `have_parse()`, `errors().len()`, `tree()` (the typed AST through the accessor model
  `Acc.Build.program (cnodeOf tree)`), and the top-level include paths as `parse_included_files`
  computes them (`statements()`, `Stmt::Include`, `include.file()?`, `file.to_string()?`).
* `parseSourceString`          — `oq3_source_file/src/source_file.rs: parse_source_and_includes` on
  the top-level text, as called by `api.rs: parse_source_string` (the included files go through
  `Includes.parseIncludedFiles`, whose `parse` of an included text stays the parameter of that model).
* `analyzeTextInc`             — `oq3_semantics/src/syntax_to_semantics.rs: parse_source_string`
  (`parse_source_string_with_path_search`): `parse_source_string` then `analyze_source`
  (`Includes.analyzeSource`); `none` = analysis skipped: `Context::new`, `have_syntax_errors: true`.
* `analyzeText`                — the same on a machine where no include file can be read (`noFS`):
  the entry point for a text WITHOUT REAL INCLUDES (every include names `stdgates.inc`).
* `resultContext`              — the `context` field of the `ParseResult`: `Context::new(..)` when the
  analysis was skipped.

A Rust panic / the model's fuel is an explicit `Fail` outcome naming the stage.
-/
import Oq3.Lemmas.Bridge
import Oq3.Lemmas.TreeCNode
import Oq3.Lemmas.AccBuild
import Oq3.Model.Validation
import Oq3.Model.Includes
import Oq3.Model.Grammar

namespace Oq3.Stages
open Oq3.Gen Oq3.Lexer Oq3.Lexed Oq3.Parser Oq3.Grammar Oq3.Builder Oq3.Bridge Oq3.Acc Oq3.Lemmas.Lexed

/-- `SyntaxError`: message and text range -/
structure SyntaxError where
  msg : String
  start : Nat
  stop : Nat
  deriving DecidableEq, Repr, Inhabited

/-- a stage that did not return normally -/
inductive Fail
  /-- `LexedStr::new` (a byte slice off a character boundary) -/
  | lexed
  /-- `LexedStr::text_range` assertion in the lexer-error loop -/
  | lexErrorRange
  /-- `LexedStr::to_input` -/
  | toInput
  /-- the grammar: a parser panic, the hang detectors, or the model's fuel -/
  | parser (o : Oq3.Parser.Outcome)
  /-- `event::process` -/
  | process
  /-- the debug balance assertions of `TopEntryPoint::parse` -/
  | balance
  /-- `intersperse_trivia` / rowan's builder -/
  | builder (site : String)
  /-- a panic inside `validation::validate` -/
  | validate (site : String)
  /-- `assert_eq!(root.kind(), SyntaxKind::SOURCE_FILE)` -/
  | rootKind
  /-- a typed accessor panicked while the AST was read (`BAD-AST`) -/
  | accessor (e : Oq3.Acc.BErr)
  /-- `parse_included_files` did not return (panic or the include model's fuel) -/
  | includes (o : Oq3.Includes.Outcome)
  /-- the semantic pass: a panic, an unsupported include, or its fuel -/
  | sema (o : Oq3.Sema.Outcome)
  deriving Repr, Inhabited

/-! ### `parse_text_check_lex` -/

/-- `lexer_errors_to_syntax_errors(lexed)` -/
def lexerErrorsToSyntaxErrors (l : LexedStr) : Option (List SyntaxError) :=
  l.errors.mapM fun (i, msg) =>
    match l.textRange i with
    | some (a, b) => some ⟨msg, a, b⟩
    | none => none

/-- `SyntaxError::new_at_offset(msg, pos)` for the builder's errors -/
def ofSynErr (e : SynErr) : SyntaxError := ⟨e.msg, e.pos, e.pos⟩

/-- a `validation.rs` diagnostic -/
def ofVErr (e : Oq3.Validation.VErr) : SyntaxError := ⟨e.msg, e.start, e.stop⟩

/-- the parser stages on a lexed text: `to_input`, `TopEntryPoint::SourceFile.parse`, `build_tree`
(tree and the builder's diagnostics = the parser's `Error` events with their offsets) -/
def parseLexed (fuel npl : Nat) (l : LexedStr) : Except Fail (Tree × List SynErr) :=
  match l.toInput with
  | none => .error .toInput
  | some inp =>
    match parseSourceFile fuel inp.kind.toArray inp.joint.toArray npl with
    | .error o => .error (.parser o)
    | .ok (events, _) =>
      match process events.toList with
      | none => .error .process
      | some steps =>
        if !balanceCheck steps then .error .balance
        else
          match buildTree (rawToksOf l) steps with
          | .error site => .error (.builder site)
          | .ok (tree, errs, _) => .ok (tree, errs)

/-- `parsing::parse_text_check_lex` -/
def parseTextCheckLex (uc : UC) (fuel npl : Nat) (text : List Char) :
    Except Fail (Option Tree × List SyntaxError) :=
  match LexedStr.new uc text with
  | none => .error .lexed
  | some l =>
    if !l.error.isEmpty then
      match lexerErrorsToSyntaxErrors l with
      | none => .error .lexErrorRange
      | some errs => .ok (none, errs)
    else
      match parseLexed fuel npl l with
      | .error f => .error f
      | .ok (tree, errs) =>
        -- `build_tree` appends the lexer errors after the builder's
        match lexerErrorsToSyntaxErrors l with
        | none => .error .lexErrorRange
        | some lerrs => .ok (some tree, errs.map ofSynErr ++ lerrs)

/-! ### `SourceFile::parse_check_lex` -/

def Tree.kind : Tree → SyntaxKind
  | .node k _ => k
  | .leaf k _ => k

/-- `SourceFile::parse_check_lex`: `(green_maybe, errors)` -/
def checkLexParse (uc : UC) (fuel npl : Nat) (text : List Char) :
    Except Fail (Option Tree × List SyntaxError) :=
  match parseTextCheckLex uc fuel npl text with
  | .error f => .error f
  | .ok (none, errs) => .ok (none, errs)
  | .ok (some tree, errs) =>
    match Oq3.Validation.validate tree 0 with
    | .error site => .error (.validate site)
    | .ok verrs =>
      if Tree.kind tree != .SOURCE_FILE then .error .rootKind
      else .ok (some tree, errs ++ verrs.map ofVErr)

/-! ### the PARSER's diagnostics of a text (what `SourceFile::parse` would report besides the lexer's) -/

/-- the diagnostics of the parser stages alone on a text: the `Error` events of the grammar as
`build_tree` places them, followed by the `validation.rs` diagnostics of the tree -/
def parserDiagnostics (uc : UC) (fuel npl : Nat) (text : List Char) : Except Fail (Tree × List SyntaxError) :=
  match parseLexed fuel npl (lexedOf uc text) with
  | .error f => .error f
  | .ok (tree, errs) =>
    match Oq3.Validation.validate tree 0 with
    | .error site => .error (.validate site)
    | .ok verrs =>
      if Tree.kind tree != .SOURCE_FILE then .error .rootKind
      else .ok (tree, errs.map ofSynErr ++ verrs.map ofVErr)

/-! ### what `oq3_source_file` reads off the result -/

/-- the top-level include statements as `parse_included_files` sees them: `none` =
`include.file()` is `None`, `some none` = `file.to_string()` is `None`; a panicking
`FilePath::token` is `BErr.badAst` -/
def includesOfTree (root : CNode) : Except BErr (List (Option (Option String))) :=
  ((SourceFile.statements root).filter (fun n => n.kind == .INCLUDE)).mapM fun n =>
    match Include.file n with
    | none => .ok none
    | some f =>
      match FilePath.to_string f with
      | .panic => .error .badAst
      | .ok none => .ok (some none)
      | .ok (some s) => .ok (some (some (String.ofList s)))

/-- the `ParseOrErrors` as the include model's `Parsed`: no tree ⇒ `lexErrors n`; a tree with
`n > 0` diagnostics ⇒ `syntaxErrors n includes`; a tree without diagnostics ⇒ its typed AST -/
def parsedOfChecked : Option Tree × List SyntaxError → Except Fail Oq3.Includes.Parsed
  | (none, errs) => .ok (.lexErrors errs.length)
  | (some tree, errs) =>
    if errs.length != 0 then
      match includesOfTree (cnodeOf tree) with
      | .error e => .error (.accessor e)
      | .ok incs => .ok (.syntaxErrors errs.length incs)
    else
      match Build.program (cnodeOf tree) with
      | .error e => .error (.accessor e)
      | .ok ast => .ok (.clean ast)

/-- `SourceFile::parse_check_lex(text)` as the include model sees it -/
def parseChecked (uc : UC) (fuel npl : Nat) (text : List Char) : Except Fail Oq3.Includes.Parsed :=
  match checkLexParse uc fuel npl text with
  | .error f => .error f
  | .ok r => parsedOfChecked r

/-! ### `parse_source_string` and `analyze_source` -/

open Oq3.Includes in
/-- `oq3_source_file: parse_source_string` (`parse_source_and_includes` on the top-level text):
the parsed source and its included sources.  The Rust scan is a plain iterator; the include model's
fuel counts list steps AND nesting, so it is given `ifuel` (nesting into included files) plus one
unit per top-level include statement -/
def parseSourceString (fs : FS) (parseInc : String → Parsed) (search env : Option (List String))
    (ifuel : Nat) (uc : UC) (fuel npl : Nat) (text : List Char) : Except Fail (Parsed × List PSrc) :=
  match parseChecked uc fuel npl text with
  | .error f => .error f
  | .ok p =>
    if p.haveParse then
      match parseIncludedFiles fs parseInc search env (ifuel + (includesOf p).length + 1) (includesOf p) with
      | .ok incs => .ok (p, incs)
      | .error o => .error (.includes o)
    else .ok (p, [])

open Oq3.Includes in
/-- `oq3_semantics: parse_source_string_with_path_search` = `parse_source_string` then
`analyze_source`; `none` = skipped because of syntax errors -/
def analyzeTextInc (fs : FS) (parseInc : String → Parsed) (search env : Option (List String))
    (ifuel afuel : Nat) (uc : UC) (fuel npl : Nat) (text : List Char) :
    Except Fail (Option (Oq3.Sema.Ctx × List ErrTree)) :=
  match parseSourceString fs parseInc search env ifuel uc fuel npl text with
  | .error f => .error f
  | .ok (p, incs) =>
    match analyzeSource afuel p incs with
    | .error o => .error (.sema o)
    | .ok r => .ok r

/-- a machine on which no file exists -/
def noFS : Oq3.Includes.FS := { isFile := fun _ => false, read := fun _ => .notFound }

/-- `oq3_semantics: parse_source_string(text, None)` for a text without real includes: nothing is
read, so the file system and the parse of included texts do not matter (`noFS`, no nesting fuel) -/
def analyzeText (afuel : Nat) (uc : UC) (fuel npl : Nat) (text : List Char) :
    Except Fail (Option (Oq3.Sema.Ctx × List Oq3.Includes.ErrTree)) :=
  analyzeTextInc noFS (fun _ => .lexErrors 0) none none 0 afuel uc fuel npl text

/-- the `context` of the `ParseResult`: `Context::new` (empty program, empty symbol table beyond the
built-ins, no semantic diagnostics) when the analysis was skipped -/
def resultContext : Option (Oq3.Sema.Ctx × List Oq3.Includes.ErrTree) → Oq3.Sema.Ctx
  | some (c, _) => c
  | none => {}

/-- the `have_syntax_errors` field of the `ParseResult` -/
def resultHaveSyntaxErrors : Option (Oq3.Sema.Ctx × List Oq3.Includes.ErrTree) → Bool
  | some _ => false
  | none => true

end Oq3.Stages

