/-
C17 (renaming through lexer and parser): the events of every successful `source_file` parse satisfy
`tokIdE` — a token event of one raw token has the kind of that raw token; a token event of several
raw tokens (a composite operator) is not an `IDENT` and glues no raw `IDENT`.

From the state invariant `TokID` (`Lemmas/RenameTextInv.lean`), lifted through the grammar by the
generated `Lemmas/RenameTextGrammar.lean`; that the final state still has the input kinds is part
of the parser-state invariant `Inv` (`Lemmas/GrammarInv.lean`).
-/
import Oq3.Lemmas.RenameTextGrammar
import Oq3.Lemmas.ParseTop

namespace Oq3.RenameText
open Oq3.Gen Oq3.Parser Oq3.Grammar

/-- the initial parser state satisfies `TokID` -/
theorem tokID_init (kinds : Array SyntaxKind) (joint : Array Bool) (npl : Nat) :
    TokID { kinds := kinds, joint := joint, noProgressLimit := npl } := ⟨rfl, rfl⟩

/-- every token event of a successful parse passes `tokId1` at its raw-token cursor -/
theorem parse_tokId (fuel : Nat) (kinds : Array SyntaxKind) (joint : Array Bool) (npl : Nat)
    (events : Array Ev) (pos : Nat)
    (h : parseSourceFile fuel kinds joint npl = .ok (events, pos)) :
    tokIdE kinds 0 events.toList = true := by
  unfold parseSourceFile parseWith at h
  simp only [StateT.run] at h
  split at h
  · rename_i u s hs
    split at h
    · cases h
    · injection h with h
      injection h with h1 _
      subst h1
      have hI := ((sourceFile_pres (kinds := kinds) (joint := joint) fuel).run _ _
        (inv_init kinds joint npl) hs).kinds_eq
      have hT := ((sourceFile_tip fuel).run _ _ (tokID_init kinds joint npl) hs).2
      simp only at hI hT
      rw [hI] at hT
      exact hT
  · cases h

/-- the same for the `expr` entry point -/
theorem parseExpr_tokId (fuel : Nat) (kinds : Array SyntaxKind) (joint : Array Bool) (npl : Nat)
    (events : Array Ev) (pos : Nat)
    (h : parseExpr fuel kinds joint npl = .ok (events, pos)) :
    tokIdE kinds 0 events.toList = true := by
  unfold parseExpr parseWith at h
  simp only [StateT.run] at h
  split at h
  · rename_i u s hs
    split at h
    · cases h
    · injection h with h
      injection h with h1 _
      subst h1
      have hI := ((entryExpr_pres (kinds := kinds) (joint := joint) fuel).run _ _
        (inv_init kinds joint npl) hs).kinds_eq
      have hT := ((entryExpr_tip fuel).run _ _ (tokID_init kinds joint npl) hs).2
      simp only at hI hT
      rw [hI] at hT
      exact hT
  · cases h

end Oq3.RenameText
