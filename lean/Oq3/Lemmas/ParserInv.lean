/-
The parser-state invariant `Inv` and its preservation by every primitive of the parser API
(`Oq3/Model/ParserApi.lean`).  Grammar-independent: any code written through the API keeps it.
-/
import Oq3.Lemmas.Process

namespace Oq3.Parser
open Oq3.Gen

/-! ### event-list measures -/

/-- weak depth machine over events in index order: tokens and errors are allowed at any depth,
a `Finish` needs an open node -/
def runW : Nat → List Ev → Option Nat
  | d, [] => some d
  | d, .start k _ :: es => if k == .TOMBSTONE then runW d es else runW (d + 1) es
  | 0, .finish :: _ => none
  | d + 1, .finish :: es => runW d es
  | d, _ :: es => runW d es

/-- raw tokens consumed according to the event list -/
def sumTok : List Ev → Nat
  | [] => 0
  | .token _ n :: es => n + sumTok es
  | _ :: es => sumTok es

/-- every token event spans `n ≥ 1` raw tokens and the raw tokens glued into one event are
marked joint in the input; `c` = raw tokens consumed before -/
def glueOK (joint : Array Bool) : Nat → List Ev → Bool
  | _, [] => true
  | c, .token _ n :: es =>
    (n ≥ 1) && (List.range (n - 1)).all (fun j => joint.getD (c + j) false) && glueOK joint (c + n) es
  | c, _ :: es => glueOK joint c es

/-- the raw tokens glued into one token event (all but its last) are never `FLOAT_NUMBER`
(`to_input` marks such a float joint even when trivia follows, so for them "joint" does not
mean "adjacent") -/
def glueKE (kinds : Array SyntaxKind) : Nat → List Ev → Bool
  | _, [] => true
  | c, .token _ n :: es =>
    (List.range (n - 1)).all (fun j => kinds.getD (c + j) .EOF != .FLOAT_NUMBER) && glueKE kinds (c + n) es
  | c, _ :: es => glueKE kinds c es

/-- forward-parent links point at `Start` events; a target that is still a tombstone is a live
marker created by `precede` and protected from being popped -/
def FpOKp (prot : List Nat) (evs : List Ev) : Prop :=
  ∀ j k f, evs[j]? = some (Ev.start k (some f)) →
    ∃ k' fp', evs[j + f]? = some (Ev.start k' fp') ∧ (k' = .TOMBSTONE → (j + f) ∈ prot)

theorem FpOKp.toFpOK {prot evs} (h : FpOKp prot evs) : FpOK evs := by
  intro j k f hj
  obtain ⟨k', fp', h1, _⟩ := h j k f hj
  exact ⟨k', fp', h1⟩

structure Inv (kinds : Array SyntaxKind) (joint : Array Bool) (s : P) : Prop where
  kinds_eq : s.kinds = kinds
  joint_eq : s.joint = joint
  dyck : runW 0 s.events.toList = some 0
  fp : FpOKp s.protectedPos s.events.toList
  tok : sumTok s.events.toList = s.pos
  pos_le : s.pos ≤ kinds.size
  glue : glueOK joint 0 s.events.toList = true
  gluek : glueKE kinds 0 s.events.toList = true

/-! ### list lemmas -/

theorem runW_append (d : Nat) (a b : List Ev) :
    runW d (a ++ b) = (runW d a).bind fun d' => runW d' b := by
  induction a generalizing d with
  | nil => simp [runW]
  | cons e es ih =>
    cases e with
    | start k fp => simp only [List.cons_append, runW]; split <;> exact ih _
    | finish =>
      cases d with
      | zero => simp [runW]
      | succ d => simp only [List.cons_append, runW]; exact ih _
    | token k n => simp only [List.cons_append, runW]; exact ih _
    | error m => simp only [List.cons_append, runW]; exact ih _

/-- shifting the weak machine up keeps it valid -/
theorem runW_shift (d r : Nat) (es : List Ev) (h : runW d es = some r) :
    runW (d + 1) es = some (r + 1) := by
  induction es generalizing d with
  | nil => simp only [runW, Option.some.injEq] at h ⊢; omega
  | cons e es ih =>
    cases e with
    | start k fp => simp only [runW] at h ⊢; split at h <;> simp_all
    | finish =>
      cases d with
      | zero => simp [runW] at h
      | succ d => simp only [runW] at h ⊢; exact ih _ h
    | token k n => simp only [runW] at h ⊢; exact ih _ h
    | error m => simp only [runW] at h ⊢; exact ih _ h

/-- completing a marker: its tombstone becomes a real `Start`, a `Finish` is appended -/
theorem runW_complete (a b : List Ev) (k : SyntaxKind) (fp fp' : Option Nat)
    (hk : (k == .TOMBSTONE) = false)
    (h : runW 0 (a ++ .start .TOMBSTONE fp :: b) = some 0) :
    runW 0 (a ++ .start k fp' :: b ++ [.finish]) = some 0 := by
  rw [runW_append] at h
  rw [List.append_assoc, runW_append]
  cases ha : runW 0 a with
  | none => simp [ha] at h
  | some da =>
    simp only [ha, Option.bind_some, runW, beq_self_eq_true, if_true] at h
    simp only [Option.bind_some, List.cons_append, runW, hk, Bool.false_eq_true, if_false]
    rw [runW_append, runW_shift _ _ _ h]
    simp [runW]

theorem sumTok_append (a b : List Ev) : sumTok (a ++ b) = sumTok a + sumTok b := by
  induction a with
  | nil => simp [sumTok]
  | cons e es ih => cases e <;> simp [sumTok, ih] <;> omega

theorem glueOK_append (joint : Array Bool) (c : Nat) (a b : List Ev) :
    glueOK joint c (a ++ b) = (glueOK joint c a && glueOK joint (c + sumTok a) b) := by
  induction a generalizing c with
  | nil => simp [glueOK, sumTok]
  | cons e es ih =>
    cases e with
    | token k n =>
      simp only [List.cons_append, glueOK, sumTok, ih, Bool.and_assoc]
      rw [show c + n + sumTok es = c + (n + sumTok es) by omega]
    | start k fp => simp [glueOK, sumTok, ih]
    | finish => simp [glueOK, sumTok, ih]
    | error m => simp [glueOK, sumTok, ih]

/-- replacing a `Start` by another `Start` changes neither token accounting nor glue -/
theorem sumTok_set_start (evs : List Ev) (t : Nat) (k k' : SyntaxKind) (fp fp' : Option Nat)
    (h : evs[t]? = some (.start k fp)) : sumTok (evs.set t (.start k' fp')) = sumTok evs := by
  induction evs generalizing t with
  | nil => simp at h
  | cons e es ih =>
    cases t with
    | zero => simp at h; subst h; simp [List.set, sumTok]
    | succ t => simp at h; cases e <;> simp [List.set, sumTok, ih t h]

theorem glueOK_set_start (joint : Array Bool) (c : Nat) (evs : List Ev) (t : Nat) (k k' : SyntaxKind)
    (fp fp' : Option Nat) (h : evs[t]? = some (.start k fp)) :
    glueOK joint c (evs.set t (.start k' fp')) = glueOK joint c evs := by
  induction evs generalizing t c with
  | nil => simp at h
  | cons e es ih =>
    cases t with
    | zero => simp at h; subst h; simp [List.set, glueOK]
    | succ t => simp at h; cases e <;> simp [List.set, glueOK, ih _ t h]

theorem glueKE_append (kinds : Array SyntaxKind) (c : Nat) (a b : List Ev) :
    glueKE kinds c (a ++ b) = (glueKE kinds c a && glueKE kinds (c + sumTok a) b) := by
  induction a generalizing c with
  | nil => simp [glueKE, sumTok]
  | cons e es ih =>
    cases e with
    | token k n =>
      simp only [List.cons_append, glueKE, sumTok, ih, Bool.and_assoc]
      rw [show c + n + sumTok es = c + (n + sumTok es) by omega]
    | start k fp => simp [glueKE, sumTok, ih]
    | finish => simp [glueKE, sumTok, ih]
    | error m => simp [glueKE, sumTok, ih]

theorem glueKE_set_start (kinds : Array SyntaxKind) (c : Nat) (evs : List Ev) (t : Nat) (k k' : SyntaxKind)
    (fp fp' : Option Nat) (h : evs[t]? = some (.start k fp)) :
    glueKE kinds c (evs.set t (.start k' fp')) = glueKE kinds c evs := by
  induction evs generalizing t c with
  | nil => simp at h
  | cons e es ih =>
    cases t with
    | zero => simp at h; subst h; simp [List.set, glueKE]
    | succ t => simp at h; cases e <;> simp [List.set, glueKE, ih _ t h]

/-- changing only the link of a `Start` does not affect the weak machine -/
theorem runW_set_fp (d : Nat) (evs : List Ev) (t : Nat) (k : SyntaxKind) (fp fp' : Option Nat)
    (h : evs[t]? = some (.start k fp)) : runW d (evs.set t (.start k fp')) = runW d evs := by
  induction evs generalizing t d with
  | nil => simp at h
  | cons e es ih =>
    cases t with
    | zero => simp at h; subst h; simp [List.set, runW]
    | succ t =>
      simp at h
      cases e with
      | start k2 fp2 => simp only [List.set, runW]; split <;> exact ih _ t h
      | finish => cases d <;> simp [List.set, runW, ih _ t h]
      | token k2 n => simp only [List.set, runW]; exact ih _ t h
      | error m => simp only [List.set, runW]; exact ih _ t h

/-! ### reasoning about successful runs in `G` -/

theorem G.bind_ok {α β} (x : G α) (f : α → G β) (s : P) (r : β × P) :
    (x >>= f) s = .ok r ↔ ∃ a s1, x s = .ok (a, s1) ∧ f a s1 = .ok r := by
  show (StateT.bind x f) s = .ok r ↔ _
  unfold StateT.bind
  simp only [bind, Except.bind]
  cases x s with
  | error e => simp
  | ok p =>
    obtain ⟨a, s1⟩ := p
    simp only [Except.ok.injEq, Prod.mk.injEq]
    constructor
    · intro h; exact ⟨a, s1, ⟨rfl, rfl⟩, h⟩
    · rintro ⟨_, _, ⟨rfl, rfl⟩, h⟩; exact h

theorem G.map_ok {α β} (f : α → β) (x : G α) (s : P) (r : β × P) :
    (f <$> x) s = .ok r ↔ ∃ a s1, x s = .ok (a, s1) ∧ r = (f a, s1) := by
  show (StateT.map f x) s = .ok r ↔ _
  unfold StateT.map
  simp only [bind, Except.bind, pure, Except.pure]
  cases x s with
  | error e => simp
  | ok p =>
    obtain ⟨a, s1⟩ := p
    simp only [Except.ok.injEq, Prod.mk.injEq]
    constructor
    · intro h; exact ⟨a, s1, ⟨rfl, rfl⟩, h.symm⟩
    · rintro ⟨_, _, ⟨rfl, rfl⟩, h⟩; exact h.symm

@[simp] theorem G.pure_ok {α} (a : α) (s : P) (r : α × P) : (pure a : G α) s = .ok r ↔ r = (a, s) := by
  show Except.ok (a, s) = Except.ok r ↔ _
  constructor <;> intro h <;> simp_all

@[simp] theorem G.get_ok (s : P) (r : P × P) : (get : G P) s = .ok r ↔ r = (s, s) := by
  show Except.ok (s, s) = Except.ok r ↔ _
  constructor <;> intro h <;> simp_all

@[simp] theorem G.set_ok (s0 s : P) (r : PUnit × P) : (set s0 : G PUnit) s = .ok r ↔ r = (⟨⟩, s0) := by
  show Except.ok (PUnit.unit, s0) = Except.ok r ↔ _
  constructor <;> intro h <;> simp_all

@[simp] theorem G.modify_ok (f : P → P) (s : P) (r : PUnit × P) :
    (modify f : G PUnit) s = .ok r ↔ r = (⟨⟩, f s) := by
  show Except.ok (PUnit.unit, f s) = Except.ok r ↔ _
  constructor <;> intro h <;> simp_all

@[simp] theorem G.panic_ok {α} (site : String) (s : P) (r : α × P) : (panic site : G α) s = .ok r ↔ False := by
  show Except.error _ = Except.ok r ↔ _
  simp

@[simp] theorem G.fail_ok {α} (o : Outcome) (s : P) (r : α × P) : (fail o : G α) s = .ok r ↔ False := by
  show Except.error _ = Except.ok r ↔ _
  simp

@[simp] theorem G.throw_ok {α} (o : Outcome) (s : P) (r : α × P) : (throw o : G α) s = .ok r ↔ False := by
  show Except.error _ = Except.ok r ↔ _
  simp

@[simp] theorem exists2_eq {α β : Type} {a0 : α} {b0 : β} {Q : α → β → Prop} :
    (∃ a b, (a = a0 ∧ b = b0) ∧ Q a b) ↔ Q a0 b0 := by
  constructor
  · rintro ⟨_, _, ⟨rfl, rfl⟩, h⟩; exact h
  · intro h; exact ⟨a0, b0, ⟨rfl, rfl⟩, h⟩


@[simp] theorem G.get_bind_ok {β} (f : P → G β) (s : P) (r : β × P) :
    (get >>= f) s = .ok r ↔ f s s = .ok r := by
  rw [G.bind_ok]; simp

@[simp] theorem G.set_bind_ok {β} (s0 : P) (f : PUnit → G β) (s : P) (r : β × P) :
    (set s0 >>= f) s = .ok r ↔ f ⟨⟩ s0 = .ok r := by
  rw [G.bind_ok]; simp
  exact ⟨fun ⟨⟨⟩, h⟩ => h, fun h => ⟨⟨⟩, h⟩⟩

@[simp] theorem G.modify_bind_ok {β} (g : P → P) (f : PUnit → G β) (s : P) (r : β × P) :
    (modify g >>= f) s = .ok r ↔ f ⟨⟩ (g s) = .ok r := by
  rw [G.bind_ok]; simp
  exact ⟨fun ⟨⟨⟩, h⟩ => h, fun h => ⟨⟨⟩, h⟩⟩

@[simp] theorem G.pure_bind_ok {α β} (a : α) (f : α → G β) (s : P) (r : β × P) :
    (pure a >>= f) s = .ok r ↔ f a s = .ok r := by
  rw [G.bind_ok]; simp

/-- `x` preserves the state predicate `I` on every successful run -/
structure Pres (I : P → Prop) {α} (x : G α) : Prop where
  run : ∀ s r, I s → x s = .ok r → I r.2

theorem Pres.bind {I : P → Prop} {α β} {x : G α} {f : α → G β} (hx : Pres I x)
    (hf : ∀ a, Pres I (f a)) : Pres I (x >>= f) := by
  refine ⟨fun s r hs h => ?_⟩
  obtain ⟨a, s1, h1, h2⟩ := (G.bind_ok x f s r).mp h
  exact (hf a).run s1 r (hx.run s (a, s1) hs h1) h2

theorem Pres.pure {I : P → Prop} {α} (a : α) : Pres I (pure a : G α) := by
  refine ⟨fun s r hs h => ?_⟩; simp at h; subst h; exact hs

theorem Pres.fail {I : P → Prop} {α} (o : Outcome) : Pres I (fail o : G α) := by
  refine ⟨fun s r _ h => ?_⟩; simp at h

theorem Pres.panic {I : P → Prop} {α} (site : String) : Pres I (panic site : G α) := by
  refine ⟨fun s r _ h => ?_⟩; simp at h

theorem pres_andM {I : P → Prop} {x y : G Bool} (hx : Pres I x) (hy : Pres I y) :
    Pres I (x <&&> y) := by
  unfold _root_.andM
  refine Pres.bind hx ?_
  intro b; cases b
  · exact Pres.pure _
  · exact hy

theorem pres_orM {I : P → Prop} {x y : G Bool} (hx : Pres I x) (hy : Pres I y) :
    Pres I (x <||> y) := by
  unfold _root_.orM
  refine Pres.bind hx ?_
  intro b; cases b
  · exact hy
  · exact Pres.pure _

theorem pres_notM {I : P → Prop} {x : G Bool} (hx : Pres I x) : Pres I (notM x) := by
  unfold _root_.notM
  refine ⟨fun s r hs h => ?_⟩
  rw [G.map_ok] at h
  obtain ⟨a, s1, h1, h2⟩ := h
  subst h2
  exact hx.run s (a, s1) hs h1

theorem Pres.ite {I : P → Prop} {α} (c : Prop) [Decidable c] {x y : G α} (hx : Pres I x)
    (hy : Pres I y) : Pres I (if c then x else y) := by
  split <;> assumption

/-- a computation that never changes the state (on success) -/
def ReadOnly {α} (x : G α) : Prop := ∀ s r, x s = .ok r → r.2 = s

theorem ReadOnly.pres {I : P → Prop} {α} {x : G α} (h : ReadOnly x) : Pres I x := by
  refine ⟨fun s r hs hr => ?_⟩; rw [h s r hr]; exact hs

/-- `Inv` only looks at five fields -/
theorem Inv.congr {kinds joint} {s s' : P} (h : Inv kinds joint s) (h1 : s'.kinds = s.kinds)
    (h2 : s'.joint = s.joint) (h3 : s'.events = s.events) (h4 : s'.pos = s.pos)
    (h5 : s'.protectedPos = s.protectedPos) : Inv kinds joint s' :=
  ⟨h1 ▸ h.kinds_eq, h2 ▸ h.joint_eq, h3 ▸ h.dyck, by rw [h3, h5]; exact h.fp, by rw [h3, h4]; exact h.tok,
   h4 ▸ h.pos_le, h3 ▸ h.glue, h3 ▸ h.gluek⟩

theorem current_ok (s : P) (r) : current s = .ok r ↔ r = (s.kindAt s.pos, s) := by
  unfold current
  simp [G.bind_ok, G.map_ok]

theorem current_readOnly : ReadOnly current := by
  intro s r h; rw [current_ok] at h; subst h; rfl

theorem nth_pres {kinds joint} (n : Nat) : Pres (Inv kinds joint) (nth n) := by
  refine ⟨fun s r hs h => ?_⟩
  unfold nth at h
  simp only [G.get_bind_ok] at h
  split at h
  · simp at h
  · split at h
    · simp at h
    · simp only [G.set_bind_ok, G.pure_ok] at h
      subst h
      exact hs.congr rfl rfl rfl rfl rfl

theorem isJoint_match_readOnly (s : P) (e : Except Outcome Bool) (r : Bool × P)
    (h : (match e with
          | .ok b => (pure b : G Bool)
          | .error er => throw er) s = .ok r) : r.2 = s := by
  cases e with
  | ok b => simp at h; subst h; rfl
  | error er => simp at h

theorem atComposite_readOnly (n : Nat) (ps : List SyntaxKind) : ReadOnly (atComposite n ps) := by
  intro s r h
  rcases ps with _ | ⟨k1, _ | ⟨k2, _ | ⟨k3, _ | ⟨k4, rest⟩⟩⟩⟩
  · simp [atComposite] at h
  · simp [atComposite] at h
  · simp only [atComposite, G.get_bind_ok] at h
    split at h
    · exact isJoint_match_readOnly s _ r h
    · simp at h; subst h; rfl
  · simp only [atComposite, G.get_bind_ok] at h
    split at h
    · cases hj : s.isJoint (s.pos + n) with
      | error e => simp [hj] at h
      | ok b =>
        cases b with
        | false => simp [hj] at h; subst h; rfl
        | true => simp only [hj] at h; exact isJoint_match_readOnly s _ r h
    · simp at h; subst h; rfl
  · simp [atComposite] at h

theorem nthAt_readOnly (n : Nat) (k : SyntaxKind) : ReadOnly (nthAt n k) := by
  intro s r h
  unfold nthAt at h
  cases hc : compositePieces k with
  | some ps => simp only [hc] at h; exact atComposite_readOnly _ _ s r h
  | none => simp [hc, G.bind_ok, G.map_ok] at h; subst h; rfl

theorem at_readOnly (k : SyntaxKind) : ReadOnly (at' k) := nthAt_readOnly 0 k

theorem containsG_readOnly (ts : TokenSet) (k : SyntaxKind) : ReadOnly (ts.containsG k) := by
  intro s r h
  unfold TokenSet.containsG at h
  simp only [G.pure_ok] at h
  subst h; rfl

theorem atTs_readOnly (ts : TokenSet) : ReadOnly (atTs ts) := by
  intro s r h
  unfold atTs at h
  simp only [G.bind_ok] at h
  obtain ⟨a, s1, h1, h2⟩ := h
  rw [current_ok] at h1
  obtain ⟨rfl, rfl⟩ := Prod.mk.inj h1
  exact containsG_readOnly _ _ _ _ h2


/-! ### pushing events -/

theorem pushEvent_ok (e : Ev) (s : P) (r : Unit × P) (h : pushEvent e s = .ok r) :
    r = ((), { s with events := s.events.push e, sinceBump := s.sinceBump + 1 }) := by
  unfold pushEvent at h
  simp only [G.get_bind_ok] at h
  split at h
  · simp at h
  · simp at h; exact h

def Ev.inert : Ev → Bool
  | .start .TOMBSTONE none => true
  | .error _ => true
  | _ => false

theorem runW_inert (d : Nat) (e : Ev) (h : e.inert = true) : runW d [e] = some d := by
  cases e with
  | start k fp => cases k <;> cases fp <;> simp_all [Ev.inert, runW]
  | error m => cases d <;> simp [runW]
  | finish => simp [Ev.inert] at h
  | token k n => simp [Ev.inert] at h

theorem sumTok_inert (e : Ev) (h : e.inert = true) : sumTok [e] = 0 := by
  cases e <;> simp_all [Ev.inert, sumTok]

theorem glueOK_inert (joint : Array Bool) (c : Nat) (e : Ev) (h : e.inert = true) :
    glueOK joint c [e] = true := by
  cases e <;> simp_all [Ev.inert, glueOK]

theorem glueKE_inert (kinds : Array SyntaxKind) (c : Nat) (e : Ev) (h : e.inert = true) :
    glueKE kinds c [e] = true := by
  cases e <;> simp_all [Ev.inert, glueKE]

theorem FpOKp.append_nolink {prot : List Nat} {l : List Ev} (h : FpOKp prot l) (e : Ev)
    (he : ∀ k f, e ≠ .start k (some f)) : FpOKp prot (l ++ [e]) := by
  intro j k f hj
  by_cases hjl : j < l.length
  · rw [List.getElem?_append_left hjl] at hj
    obtain ⟨k', fp', h1, h2⟩ := h j k f hj
    have : j + f < l.length := (List.getElem?_eq_some_iff.mp h1).1
    exact ⟨k', fp', by rw [List.getElem?_append_left this]; exact h1, h2⟩
  · have hj' := hj
    rw [List.getElem?_append_right (by omega)] at hj'
    match hm : j - l.length, hj' with
    | 0, hj' =>
      simp only [List.getElem?_cons_zero, Option.some.injEq] at hj'
      exact absurd hj' (he k f)
    | n + 1, hj' => simp at hj'

theorem Inv.push_inert {kinds joint} {s : P} (h : Inv kinds joint s) (e : Ev) (he : e.inert = true)
    (sb : Nat) : Inv kinds joint { s with events := s.events.push e, sinceBump := sb } := by
  have hnl : ∀ k f, e ≠ .start k (some f) := by
    intro k f hc; subst hc; cases k <;> simp [Ev.inert] at he
  refine ⟨h.kinds_eq, h.joint_eq, ?_, ?_, ?_, h.pos_le, ?_, ?_⟩
  · simp only [Array.toList_push, runW_append, h.dyck, Option.bind_some]; exact runW_inert 0 e he
  · simpa using h.fp.append_nolink e hnl
  · simp only [Array.toList_push, sumTok_append, sumTok_inert e he, h.tok, Nat.add_zero]
  · simp only [Array.toList_push, glueOK_append, h.glue, glueOK_inert _ _ e he, Bool.and_self]
  · simp only [Array.toList_push, glueKE_append, h.gluek, glueKE_inert _ _ e he, Bool.and_self]

theorem error_pres {kinds joint} (msg : String) : Pres (Inv kinds joint) (error msg) := by
  refine ⟨fun s r hs h => ?_⟩
  have := pushEvent_ok _ s r h
  subst this
  exact hs.push_inert _ rfl _

theorem start_ok (s : P) (r : Marker × P) (h : start s = .ok r) :
    r = ({ pos := s.events.size },
         { s with events := s.events.push Ev.tombstone, sinceBump := s.sinceBump + 1,
                  live := s.live + 1 }) := by
  unfold start at h
  simp only [G.get_bind_ok] at h
  simp only [G.bind_ok] at h
  obtain ⟨u, s2, h2, h3⟩ := h
  have := pushEvent_ok _ _ _ h2
  obtain ⟨_, rfl⟩ := Prod.mk.inj this
  obtain ⟨_, s3, h4, h5⟩ := h3
  simp at h4 h5
  subst h4
  exact h5

theorem start_pres {kinds joint} : Pres (Inv kinds joint) start := by
  refine ⟨fun s r hs h => ?_⟩
  have := start_ok s r h
  subst this
  exact (hs.push_inert Ev.tombstone rfl (s.sinceBump + 1)).congr rfl rfl rfl rfl rfl

/-! ### consuming tokens -/

theorem doBump_ok (k : SyntaxKind) (n : Nat) (s : P) (r : Unit × P) (h : doBump k n s = .ok r) :
    r = ((), { s with pos := s.pos + n, steps := 0, sinceBump := 1,
                      events := s.events.push (.token k n) }) := by
  unfold doBump at h
  simp only [G.modify_bind_ok] at h
  have := pushEvent_ok _ _ _ h
  simpa using this

theorem Inv.bump {kinds joint} {s : P} (h : Inv kinds joint s) (k : SyntaxKind) (n : Nat)
    (hfit : s.pos + n ≤ kinds.size) (hn : 1 ≤ n)
    (hj : ∀ j, j < n - 1 → joint.getD (s.pos + j) false = true)
    (hkf : ∀ j, j < n - 1 → kinds.getD (s.pos + j) .EOF ≠ .FLOAT_NUMBER) :
    Inv kinds joint { s with pos := s.pos + n, steps := 0, sinceBump := 1,
                             events := s.events.push (.token k n) } := by
  refine ⟨h.kinds_eq, h.joint_eq, ?_, ?_, ?_, hfit, ?_, ?_⟩
  · simp only [Array.toList_push, runW_append, h.dyck, Option.bind_some]; simp [runW]
  · simpa using h.fp.append_nolink (.token k n) (by intro _ _ hc; cases hc)
  · simp only [Array.toList_push, sumTok_append, h.tok]; simp [sumTok]
  · simp only [Array.toList_push, glueOK_append, h.glue, h.tok, Bool.true_and]
    simp only [glueOK, Nat.zero_add, Bool.and_true, Bool.and_eq_true, decide_eq_true_eq,
      List.all_eq_true, List.mem_range]
    exact ⟨hn, hj⟩
  · simp only [Array.toList_push, glueKE_append, h.gluek, h.tok, Bool.true_and]
    simp only [glueKE, Nat.zero_add, Bool.and_true, List.all_eq_true, List.mem_range, bne_iff_ne, ne_eq]
    exact hkf

/-- consistency of the two translated composite-token tables (checked by `decide` on the
generated tables in `Props/C02.lean`) -/
def TablesOK : Prop :=
  (∀ k ps, compositePieces k = some ps →
    (ps.length = 2 ∨ ps.length = 3) ∧ eatRawTokens k = ps.length ∧
      ∀ p ∈ ps, p ≠ SyntaxKind.EOF ∧ p ≠ SyntaxKind.FLOAT_NUMBER) ∧
  (∀ k, compositePieces k = none → eatRawTokens k = 1)

theorem kindAt_ne_eof_lt (s : P) (i : Nat) (h : s.kindAt i ≠ .EOF) : i < s.kinds.size := by
  unfold P.kindAt at h
  by_cases hi : i < s.kinds.size
  · exact hi
  · exfalso; apply h; simp [Array.getD, hi]

theorem isJoint_ok (s : P) (n : Nat) (b : Bool) (h : s.isJoint n = .ok b) :
    s.joint.getD n false = b := by
  unfold P.isJoint at h
  split at h <;> simp at h
  simpa using h

/-- what `at' kind = true` guarantees about the input at `pos` -/
theorem at_true {kinds joint} {s : P} (hT : TablesOK) (hs : Inv kinds joint s) (k : SyntaxKind)
    (hk : k ≠ .EOF) (r : Bool × P) (h : at' k s = .ok r) (hr : r.1 = true) :
    s.pos + eatRawTokens k ≤ kinds.size ∧ 1 ≤ eatRawTokens k ∧
      (∀ j, j < eatRawTokens k - 1 → joint.getD (s.pos + j) false = true) ∧
      (∀ j, j < eatRawTokens k - 1 → kinds.getD (s.pos + j) .EOF ≠ .FLOAT_NUMBER) := by
  unfold at' nthAt at h
  cases hc : compositePieces k with
  | none =>
    simp [hc, G.bind_ok, G.map_ok] at h
    subst h
    simp at hr
    have h1 := hT.2 k hc
    rw [h1]
    have : s.kindAt s.pos ≠ .EOF := by rw [hr]; exact hk
    have := kindAt_ne_eof_lt s _ this
    rw [hs.kinds_eq] at this
    exact ⟨by omega, by omega, by intro j hj; omega, by intro j hj; omega⟩
  | some ps =>
    simp only [hc] at h
    obtain ⟨hlen, heat, hne⟩ := hT.1 k ps hc
    rw [heat]
    rcases ps with _ | ⟨k1, _ | ⟨k2, _ | ⟨k3, _ | ⟨k4, rest⟩⟩⟩⟩
    · simp at hlen
    · simp at hlen
    · simp only [atComposite, G.get_bind_ok, Nat.add_zero] at h
      split at h
      · rename_i hkk
        simp only [Bool.and_eq_true, beq_iff_eq] at hkk
        cases hj : s.isJoint s.pos with
        | error e => simp [hj] at h
        | ok b =>
          simp [hj] at h; subst h; simp at hr; subst hr
          have h2 : s.kindAt (s.pos + 1) ≠ .EOF := by rw [hkk.2]; exact (hne k2 (by simp)).1
          have := kindAt_ne_eof_lt s _ h2
          rw [hs.kinds_eq] at this
          refine ⟨by simp; omega, by simp, ?_, ?_⟩
          · intro j hjlt
            have : j = 0 := by simp at hjlt; omega
            subst this
            rw [← hs.joint_eq]; exact isJoint_ok s _ _ hj
          · intro j hjlt
            have : j = 0 := by simp at hjlt; omega
            subst this
            have hk1 := hkk.1
            simp only [P.kindAt, hs.kinds_eq] at hk1
            rw [Nat.add_zero, hk1]; exact (hne k1 (by simp)).2
      · simp at h; subst h; simp at hr
    · simp only [atComposite, G.get_bind_ok, Nat.add_zero] at h
      split at h
      · rename_i hkk
        simp only [Bool.and_eq_true, beq_iff_eq] at hkk
        cases hj : s.isJoint s.pos with
        | error e => simp [hj] at h
        | ok b =>
          cases b with
          | false => simp [hj] at h; subst h; simp at hr
          | true =>
            simp only [hj] at h
            cases hj2 : s.isJoint (s.pos + 1) with
            | error e => simp [hj2] at h
            | ok b2 =>
              simp [hj2] at h; subst h; simp at hr; subst hr
              have h3 : s.kindAt (s.pos + 2) ≠ .EOF := by rw [hkk.2]; exact (hne k3 (by simp)).1
              have := kindAt_ne_eof_lt s _ h3
              rw [hs.kinds_eq] at this
              refine ⟨by simp; omega, by simp, ?_, ?_⟩
              · intro j hjlt
                simp at hjlt
                rw [← hs.joint_eq]
                rcases (show j = 0 ∨ j = 1 by omega) with rfl | rfl
                · exact isJoint_ok s _ _ hj
                · exact isJoint_ok s _ _ hj2
              · intro j hjlt
                simp at hjlt
                have hk1 := hkk.1.1
                have hk2 := hkk.1.2
                simp only [P.kindAt, hs.kinds_eq] at hk1 hk2
                rcases (show j = 0 ∨ j = 1 by omega) with rfl | rfl
                · rw [Nat.add_zero, hk1]; exact (hne k1 (by simp)).2
                · rw [hk2]; exact (hne k2 (by simp)).2
      · simp at h; subst h; simp at hr
    · simp at hlen

theorem eat_pres {kinds joint} (hT : TablesOK) (k : SyntaxKind) : Pres (Inv kinds joint) (eat k) := by
  refine ⟨fun s r hs h => ?_⟩
  unfold eat at h
  split at h
  · simp at h
  · rename_i hk
    simp only [G.bind_ok] at h
    obtain ⟨b, s1, h1, h2⟩ := h
    have hro := at_readOnly k s (b, s1) h1
    simp only at hro; subst hro
    split at h2
    · simp at h2; subst h2; exact hs
    · rename_i hb
      have h2' := (G.bind_ok _ _ _ _).mp h2
      obtain ⟨_, s3, h5, h6⟩ := h2'
      have hd := doBump_ok _ _ _ _ h5
      obtain ⟨_, rfl⟩ := Prod.mk.inj hd
      simp at h6; subst h6
      have hb' : b = true := by simpa using hb
      have hkne : k ≠ .EOF := by simpa using hk
      obtain ⟨f1, f2, f3, f4⟩ := at_true hT hs k hkne (b, s1) h1 hb'
      exact hs.bump k _ f1 f2 f3 f4


theorem bump_pres {kinds joint} (hT : TablesOK) (k : SyntaxKind) : Pres (Inv kinds joint) (bump k) := by
  unfold bump
  refine Pres.bind (eat_pres hT k) ?_
  intro b
  split
  · exact Pres.panic _
  · exact Pres.pure _

theorem bumpAny_pres {kinds joint} : Pres (Inv kinds joint) bumpAny := by
  refine ⟨fun s r hs h => ?_⟩
  unfold bumpAny at h
  simp only [G.bind_ok] at h
  obtain ⟨k, s1, h1, h2⟩ := h
  rw [current_ok] at h1
  obtain ⟨hk1, hs1⟩ := Prod.mk.inj h1
  rw [hs1, hk1] at h2
  split at h2
  · simp at h2; subst h2; exact hs
  · rename_i hk
    have hd := doBump_ok _ _ _ _ h2
    subst hd
    have hne : s.kindAt s.pos ≠ .EOF := by simpa using hk
    have := kindAt_ne_eof_lt s _ hne
    rw [hs.kinds_eq] at this
    exact hs.bump _ 1 (by omega) (by omega) (by intro j hj; omega) (by intro j hj; omega)

theorem expect_pres {kinds joint} (hT : TablesOK) (k : SyntaxKind) :
    Pres (Inv kinds joint) (expect k) := by
  unfold expect
  refine Pres.bind (eat_pres hT k) ?_
  intro b
  split
  · exact Pres.pure _
  · exact Pres.bind (error_pres _) (fun _ => Pres.pure _)

/-! ### markers -/

theorem toList_set! (a : Array Ev) (i : Nat) (x : Ev) :
    (a.setIfInBounds i x).toList = a.toList.set i x := by
  simp

theorem set_split (l : List Ev) (t : Nat) (x y : Ev) (h : l[t]? = some x) :
    l = l.take t ++ x :: l.drop (t + 1) ∧ l.set t y = l.take t ++ y :: l.drop (t + 1) := by
  refine ⟨split_at l t x h, ?_⟩
  rw [List.set_eq_take_append_cons_drop, if_pos (List.getElem?_eq_some_iff.mp h).1]

theorem getElem?_set_start (l : List Ev) (t i : Nat) (k k' : SyntaxKind) (fp fp' : Option Nat)
    (ht : l[t]? = some (.start k fp)) :
    (l.set t (.start k' fp'))[i]? =
      if i = t then some (Ev.start k' fp') else l[i]? := by
  have hl : t < l.length := (List.getElem?_eq_some_iff.mp ht).1
  split
  · rename_i h; subst h; exact List.getElem?_set_self hl
  · rename_i h; exact List.getElem?_set_ne (fun e => h e.symm)

theorem complete_pres {kinds joint} (m : Marker) (kind : SyntaxKind) :
    Pres (Inv kinds joint) (m.complete kind) := by
  refine ⟨fun s r hs h => ?_⟩
  unfold Marker.complete at h
  simp only [G.get_bind_ok] at h
  cases hm : s.events[m.pos]? with
  | none => simp [hm] at h
  | some e0 =>
  cases e0 with
  | finish => simp [hm] at h
  | token _ _ => simp [hm] at h
  | error _ => simp [hm] at h
  | start k0 fp =>
  simp only [hm] at h
  · split at h
    · simp at h
    · rename_i hk0
      split at h
      · simp at h
      · rename_i hkind
        simp only [G.set_bind_ok] at h
        simp only [G.bind_ok] at h
        obtain ⟨_, s2, h2, h3⟩ := h
        have hp := pushEvent_ok _ _ _ h2
        obtain ⟨_, rfl⟩ := Prod.mk.inj hp
        simp at h3; subst h3
        have hk0' : k0 = .TOMBSTONE := by simpa using hk0
        subst hk0'
        have hkind' : (kind == SyntaxKind.TOMBSTONE) = false := by simpa using hkind
        have hm' : s.events.toList[m.pos]? = some (.start .TOMBSTONE fp) := by
          simpa using hm
        obtain ⟨hsplit, hset⟩ := set_split _ _ _ (Ev.start kind fp) hm'
        refine ⟨hs.kinds_eq, hs.joint_eq, ?_, ?_, ?_, hs.pos_le, ?_, ?_⟩
        · simp only [Array.toList_push, toList_set!, hset]
          have := hs.dyck; rw [hsplit] at this
          exact runW_complete _ _ kind fp fp hkind' this
        · -- forward-parent links
          simp only [Array.toList_push, toList_set!]
          apply FpOKp.append_nolink _ _ (by intro _ _ hc; cases hc)
          intro j k f hj
          rw [getElem?_set_start _ _ _ _ _ _ _ hm'] at hj
          have old : ∀ jj kk ff, s.events.toList[jj]? = some (Ev.start kk (some ff)) →
              ∃ k' fp', (s.events.toList.set m.pos (Ev.start kind fp))[jj + ff]? = some (Ev.start k' fp') ∧
                (k' = .TOMBSTONE → jj + ff ∈ s.protectedPos.filter (· != m.pos)) := by
            intro jj kk ff hjj
            obtain ⟨k', fp', h1, h2⟩ := hs.fp jj kk ff hjj
            rw [getElem?_set_start _ _ _ _ _ _ _ hm']
            by_cases hjt : jj + ff = m.pos
            · simp only [hjt, if_true]
              exact ⟨kind, fp, rfl, fun e => by simp [e] at hkind'⟩
            · simp only [hjt, if_false]
              refine ⟨k', fp', h1, fun e => ?_⟩
              simp only [List.mem_filter, bne_iff_ne, ne_eq]
              exact ⟨h2 e, hjt⟩
          by_cases hjm : j = m.pos
          · simp only [hjm, if_true, Option.some.injEq, Ev.start.injEq] at hj
            obtain ⟨rfl, rfl⟩ := hj
            subst hjm
            exact old _ _ _ hm'
          · simp only [hjm, if_false] at hj
            exact old _ _ _ hj
        · simp only [Array.toList_push, toList_set!, sumTok_append,
            sumTok_set_start _ _ _ _ _ _ hm', hs.tok]; simp [sumTok]
        · simp only [Array.toList_push, toList_set!, glueOK_append,
            glueOK_set_start _ _ _ _ _ _ _ _ hm', hs.glue]; simp [glueOK]
        · simp only [Array.toList_push, toList_set!, glueKE_append,
            glueKE_set_start _ _ _ _ _ _ _ _ hm', hs.gluek]; simp [glueKE]

theorem dropLast_eq (l : List Ev) (x : Ev) (h : l.getLast? = some x) : l = l.dropLast ++ [x] := by
  have hne : l ≠ [] := by intro e; subst e; simp at h
  have := List.dropLast_concat_getLast hne
  rw [List.getLast?_eq_some_getLast hne] at h
  simp only [Option.some.injEq] at h
  rw [h] at this; exact this.symm

theorem abandon_pres {kinds joint} (m : Marker) : Pres (Inv kinds joint) m.abandon := by
  refine ⟨fun s r hs h => ?_⟩
  unfold Marker.abandon at h
  simp only [G.get_bind_ok] at h
  split at h
  · simp at h
  · rename_i hprot
    split at h
    · simp at h
    · split at h
      · rename_i hlast
        cases hback : s.events.back? with
        | none => simp [hback] at h
        | some e0 =>
        cases e0 with
        | finish => simp [hback] at h
        | token _ _ => simp [hback] at h
        | error _ => simp [hback] at h
        | start kb fpb =>
        simp only [hback] at h
        split at h
        · rename_i hkb
          simp at h; subst h
          have hkb' : kb = .TOMBSTONE ∧ fpb = none := by
            simp only [Bool.and_eq_true, beq_iff_eq, Option.isNone_iff_eq_none] at hkb; exact hkb
          obtain ⟨rfl, rfl⟩ := hkb'
          have hback' : s.events.toList.getLast? = some (.start .TOMBSTONE none) := by
            simpa [Array.back?] using hback
          have hl := dropLast_eq _ _ hback'
          have hlen : s.events.toList.length = s.events.toList.dropLast.length + 1 := by
            conv => lhs; rw [hl]
            simp
          have hmpos : m.pos = s.events.toList.dropLast.length := by
            have : m.pos = s.events.size - 1 := by simpa using hlast
            simp at hlen ⊢; omega
          have hnp : m.pos ∉ s.protectedPos := by
            intro hc
            apply hprot
            simp [List.contains_iff_mem, hc]
          refine ⟨hs.kinds_eq, hs.joint_eq, ?_, ?_, ?_, hs.pos_le, ?_, ?_⟩
          · have := hs.dyck; rw [hl, runW_append] at this
            simp only [Array.toList_pop]
            cases hd : runW 0 s.events.toList.dropLast with
            | none => simp [hd] at this
            | some d => simp [hd, runW] at this; rw [this]
          · simp only [Array.toList_pop]
            intro j k f hj
            have hjl : j < s.events.toList.dropLast.length := (List.getElem?_eq_some_iff.mp hj).1
            have hj' : s.events.toList[j]? = some (Ev.start k (some f)) := by
              rw [hl, List.getElem?_append_left hjl]; exact hj
            obtain ⟨k', fp', h1, h2⟩ := hs.fp j k f hj'
            by_cases hjf : j + f < s.events.toList.dropLast.length
            · rw [hl, List.getElem?_append_left hjf] at h1
              exact ⟨k', fp', h1, h2⟩
            · exfalso
              have hlt : j + f < s.events.toList.length := (List.getElem?_eq_some_iff.mp h1).1
              have heq : j + f = s.events.toList.dropLast.length := by omega
              rw [hl, heq, List.getElem?_append_right (Nat.le_refl _)] at h1
              simp at h1
              obtain ⟨rfl, _⟩ := h1
              have := h2 rfl
              rw [heq, ← hmpos] at this
              exact hnp this
          · have := hs.tok; rw [hl, sumTok_append] at this
            simp only [Array.toList_pop]; simp [sumTok] at this; exact this
          · have := hs.glue; rw [hl, glueOK_append] at this
            simp only [Array.toList_pop]; simp [glueOK] at this; exact this
          · have := hs.gluek; rw [hl, glueKE_append] at this
            simp only [Array.toList_pop]; simp [glueKE] at this; exact this
        · simp at h
      · simp at h; subst h; exact hs.congr rfl rfl rfl rfl rfl


/-- re-linking a `Start` event (same kind, new forward parent) -/
theorem Inv.set_link {kinds joint} {s : P} (h : Inv kinds joint s) (c : Nat) (k : SyntaxKind)
    (fp0 : Option Nat) (f : Nat) (prot' : List Nat) (live' : Nat)
    (hc : s.events.toList[c]? = some (.start k fp0))
    (hsub : ∀ x ∈ s.protectedPos, x ∈ prot')
    (htarget : ∃ k' fp', (s.events.toList.set c (Ev.start k (some f)))[c + f]? = some (Ev.start k' fp') ∧
      (k' = .TOMBSTONE → c + f ∈ prot')) :
    Inv kinds joint { s with events := s.events.setIfInBounds c (.start k (some f)),
                             protectedPos := prot', live := live' } := by
  refine ⟨h.kinds_eq, h.joint_eq, ?_, ?_, ?_, h.pos_le, ?_, ?_⟩
  · simp only [toList_set!, runW_set_fp _ _ _ _ _ _ hc, h.dyck]
  · simp only [toList_set!]
    intro j k2 f2 hj
    rw [getElem?_set_start _ _ _ _ _ _ _ hc] at hj
    by_cases hjc : j = c
    · simp only [hjc, if_true, Option.some.injEq, Ev.start.injEq] at hj
      obtain ⟨rfl, hf⟩ := hj
      subst hf; subst hjc
      exact htarget
    · simp only [hjc, if_false] at hj
      obtain ⟨k', fp', h1, h2⟩ := h.fp j k2 f2 hj
      rw [getElem?_set_start _ _ _ _ _ _ _ hc]
      by_cases hjf : j + f2 = c
      · simp only [hjf, if_true]
        rw [hjf, hc] at h1
        simp only [Option.some.injEq, Ev.start.injEq] at h1
        obtain ⟨rfl, _⟩ := h1
        exact ⟨k, some f, rfl, fun e => hsub _ (hjf ▸ h2 e)⟩
      · simp only [hjf, if_false]
        exact ⟨k', fp', h1, fun e => hsub _ (h2 e)⟩
  · simp only [toList_set!, sumTok_set_start _ _ _ _ _ _ hc, h.tok]
  · simp only [toList_set!, glueOK_set_start _ _ _ _ _ _ _ _ hc, h.glue]
  · simp only [toList_set!, glueKE_set_start _ _ _ _ _ _ _ _ hc, h.gluek]

theorem precede_pres {kinds joint} (cm : CompletedMarker) : Pres (Inv kinds joint) cm.precede := by
  refine ⟨fun s r hs h => ?_⟩
  unfold CompletedMarker.precede at h
  obtain ⟨np, s1, h1, h2⟩ := (G.bind_ok _ _ _ _).mp h
  have hst := start_ok s (np, s1) h1
  obtain ⟨hnp, hs1eq⟩ := Prod.mk.inj hst
  have hs1 := (start_pres (kinds := kinds) (joint := joint)).run s _ hs h1
  simp only at hs1
  have hsz : s1.events.toList.length = s.events.size + 1 := by rw [hs1eq]; simp
  have hnew : s1.events.toList[s.events.size]? = some Ev.tombstone := by rw [hs1eq]; simp
  have hprot : s1.protectedPos = s.protectedPos := by rw [hs1eq]
  have hnppos : np.pos = s.events.size := by rw [hnp]
  clear hs1eq hst h1
  simp only [G.get_bind_ok] at h2
  cases hm : s1.events[cm.pos]? with
  | none => simp [hm] at h2
  | some e0 =>
  cases e0 with
  | finish => simp [hm] at h2
  | token _ _ => simp [hm] at h2
  | error _ => simp [hm] at h2
  | start k fp0 =>
  simp only [hm] at h2
  split at h2
  · simp at h2
  · rename_i hle
    simp only [G.set_bind_ok, G.pure_ok] at h2; subst h2
    have hm' : s1.events.toList[cm.pos]? = some (.start k fp0) := by simpa using hm
    have hadd : cm.pos + (np.pos - cm.pos) = np.pos := by omega
    refine hs1.set_link cm.pos k fp0 (np.pos - cm.pos) (np.pos :: s1.protectedPos) s1.live hm'
      (fun x hx => List.mem_cons_of_mem _ hx) ?_
    rw [hadd, getElem?_set_start _ _ _ _ _ _ _ hm']
    by_cases hc : np.pos = cm.pos
    · rw [if_pos hc]
      exact ⟨k, _, rfl, fun _ => by simp⟩
    · rw [if_neg hc, hnppos, hnew]
      exact ⟨.TOMBSTONE, none, rfl, fun _ => by simp⟩

theorem extendTo_pres {kinds joint} (cm : CompletedMarker) (m : Marker) :
    Pres (Inv kinds joint) (cm.extendTo m) := by
  refine ⟨fun s r hs h => ?_⟩
  unfold CompletedMarker.extendTo at h
  simp only [G.get_bind_ok] at h
  cases hm : s.events[m.pos]? with
  | none => simp [hm] at h
  | some e0 =>
  cases e0 with
  | finish => simp [hm] at h
  | token _ _ => simp [hm] at h
  | error _ => simp [hm] at h
  | start k fp0 =>
  simp only [hm] at h
  split at h
  · simp at h
  · rename_i hle
    cases hc : s.events[cm.pos]? with
    | none => simp [hc] at h
    | some e1 =>
    cases e1 with
    | finish => simp [hc] at h
    | token _ _ => simp [hc] at h
    | error _ => simp [hc] at h
    | start k' fp' =>
    simp only [hc] at h
    split at h
    · simp at h
    · rename_i hk
      simp only [G.set_bind_ok, G.pure_ok] at h; subst h
      have hk' : k' ≠ .TOMBSTONE := by simpa using hk
      have hm' : s.events.toList[m.pos]? = some (.start k fp0) := by simpa using hm
      have hc' : s.events.toList[cm.pos]? = some (.start k' fp') := by simpa using hc
      have hadd : m.pos + (cm.pos - m.pos) = cm.pos := by omega
      have := hs.set_link m.pos k fp0 (cm.pos - m.pos) s.protectedPos (s.live - 1) hm' (fun _ hx => hx) (by
        rw [hadd, getElem?_set_start _ _ _ _ _ _ _ hm']
        by_cases he : cm.pos = m.pos
        · simp only [he, if_true]
          rw [he, hm'] at hc'
          simp only [Option.some.injEq, Ev.start.injEq] at hc'
          obtain ⟨rfl, _⟩ := hc'
          exact ⟨k, _, rfl, fun e => absurd e hk'⟩
        · simp only [he, if_false]
          exact ⟨k', fp', hc', fun e => absurd e hk'⟩)
      simpa [Array.set!] using this

theorem errRecover_pres {kinds joint} (msg : String) (rec : TokenSet) :
    Pres (Inv kinds joint) (errRecover msg rec) := by
  unfold errRecover
  refine Pres.bind current_readOnly.pres ?_
  intro k
  split
  · exact Pres.bind (error_pres _) (fun _ => Pres.pure _)
  · refine Pres.bind (atTs_readOnly rec).pres ?_
    intro b
    split
    · exact Pres.bind (error_pres _) (fun _ => Pres.pure _)
    · refine Pres.bind start_pres (fun m => ?_)
      refine Pres.bind (error_pres _) (fun _ => ?_)
      refine Pres.bind bumpAny_pres (fun _ => ?_)
      exact Pres.bind (complete_pres _ _) (fun _ => Pres.pure _)

theorem errAndBump_pres {kinds joint} (msg : String) : Pres (Inv kinds joint) (errAndBump msg) :=
  errRecover_pres msg []

end Oq3.Parser
