/-
Event-level Pratt round trip, part 2: `current_op` and `bump(op)` as pure functions of the input.

* `opF K J p`: the result of `current_op` with the token arrays `K`/`J` at position `p`
  (`currentOp_eq`: `current_op` is total, pure and equal to `opF`).
* `Toks s q ts`: the input of `s` holds the tokens `ts` from (absolute) position `q` on.
* for each of the 19 binary operators: `opF` at its (joint) pieces, followed by a token that can
  start an operand, is `(pow, kind, left)` (`opF_binop`), and `bump(kind)` consumes exactly the
  pieces (`bump_binop`).
-/
import Oq3.Lemmas.PrattEv
import Oq3.Lemmas.Safe
import Oq3.Lemmas.SymExec

namespace Oq3.PrattEv
open Oq3.Gen Oq3.Parser Oq3.Grammar
open Oq3.Gen.Ops (Assoc)

/-- pure version of `currentOpScan` -/
def scanF (cur : SyntaxKind) (K : Array SyntaxKind) (J : Array Bool) (p : Nat) :
    List (SyntaxKind × Option SyntaxKind × Option (Nat × SyntaxKind × Assoc)) → Nat × SyntaxKind × Assoc
  | [] => notAnOp
  | (k, guard, res) :: rows =>
    if k == cur then
      match guard with
      | none => res.getD notAnOp
      | some g => if atF g K J p then res.getD notAnOp else scanF cur K J p rows
    else scanF cur K J p rows

/-- `current_op` as a pure function of the input and the position -/
def opF (K : Array SyntaxKind) (J : Array Bool) (p : Nat) : Nat × SyntaxKind × Assoc :=
  scanF (K.getD p .EOF) K J p Ops.currentOpRows

theorem currentOpScan_eq (cur : SyntaxKind)
    (rows : List (SyntaxKind × Option SyntaxKind × Option (Nat × SyntaxKind × Assoc))) (s : P) :
    currentOpScan cur rows s = .ok (scanF cur s.kinds s.joint s.pos rows, s) := by
  induction rows with
  | nil => rfl
  | cons r rows ih =>
    obtain ⟨k, guard, res⟩ := r
    unfold currentOpScan scanF
    by_cases hk : (k == cur) = true
    · simp only [hk, if_true]
      cases guard with
      | none => rfl
      | some g =>
        simp only
        rw [G.bind_apply, at_total]
        simp only
        cases atF g s.kinds s.joint s.pos
        · simp only [Bool.false_eq_true, if_false]; exact ih
        · simp only [if_true]; rfl
    · simp only [hk]; exact ih

/-- **`current_op` is total and pure** -/
theorem currentOp_eq (s : P) : currentOp s = .ok (opF s.kinds s.joint s.pos, s) := by
  unfold currentOp
  rw [G.bind_apply, current_eq]
  exact currentOpScan_eq _ _ s

/-- the input of `s` holds the tokens `ts` from position `q` on; a `true` joint bit is required,
a `false` one is not constrained -/
def Toks (s : P) : Nat → List (SyntaxKind × Bool) → Prop
  | _, [] => True
  | q, (k, j) :: ts => s.kindAt q = k ∧ (j = true → s.joint.getD q false = true) ∧ Toks s (q + 1) ts

theorem Toks_append (s : P) (q : Nat) (a b : List (SyntaxKind × Bool)) :
    Toks s q (a ++ b) ↔ Toks s q a ∧ Toks s (q + a.length) b := by
  induction a generalizing q with
  | nil => simp [Toks]
  | cons x xs ih =>
    obtain ⟨k, j⟩ := x
    simp only [List.cons_append, Toks, ih, List.length_cons]
    rw [show q + 1 + xs.length = q + (xs.length + 1) by omega]
    constructor
    · rintro ⟨a, b, c, d⟩; exact ⟨⟨a, b, c⟩, d⟩
    · rintro ⟨⟨a, b, c⟩, d⟩; exact ⟨a, b, c, d⟩

theorem BinOp.pieces_length (o : BinOp) : o.toks.length = o.pieces.length := by
  cases o <;> rfl

/-- tokens that can start an operand of our trees -/
def operandFirst (k : SyntaxKind) : Bool :=
  k == .IDENT || k == .INT_NUMBER || k == .L_PAREN || k == .TILDE || k == .BANG || k == .MINUS

/-- an operand never starts with the second piece of a composite token -/
theorem operandFirst_ne {k : SyntaxKind} (h : operandFirst k = true) :
    k ≠ .EQ ∧ k ≠ .PLUS ∧ k ≠ .STAR ∧ k ≠ .AMP ∧ k ≠ .PIPE ∧ k ≠ .L_ANGLE ∧ k ≠ .R_ANGLE ∧ k ≠ .DOT := by
  simp only [operandFirst, Bool.or_eq_true, beq_iff_eq] at h
  rcases h with ((((h | h) | h) | h) | h) | h <;> subst h <;> decide

theorem atF_comp2 (k k1 k2 : SyntaxKind) (hc : compositePieces k = some [k1, k2])
    (K : Array SyntaxKind) (J : Array Bool) (p : Nat) :
    atF k K J p = (K.getD p .EOF == k1 && K.getD (p + 1) .EOF == k2 && J.getD p false) := by
  unfold atF; rw [hc]

theorem atF_comp3 (k k1 k2 k3 : SyntaxKind) (hc : compositePieces k = some [k1, k2, k3])
    (K : Array SyntaxKind) (J : Array Bool) (p : Nat) :
    atF k K J p = (K.getD p .EOF == k1 && K.getD (p + 1) .EOF == k2 && K.getD (p + 2) .EOF == k3
      && J.getD p false && J.getD (p + 1) false) := by
  unfold atF; rw [hc]

/-- only the rows whose first token is the current token matter -/
theorem scanF_filter (cur : SyntaxKind) (K : Array SyntaxKind) (J : Array Bool) (p : Nat)
    (rows : List (SyntaxKind × Option SyntaxKind × Option (Nat × SyntaxKind × Assoc))) :
    scanF cur K J p rows = scanF cur K J p (rows.filter (·.1 == cur)) := by
  induction rows with
  | nil => rfl
  | cons r rows ih =>
    obtain ⟨k, g, res⟩ := r
    by_cases hk : (k == cur) = true
    · simp only [List.filter, hk, scanF, if_true]
      cases g with
      | none => rfl
      | some g => simp only [ih]
    · simp only [List.filter, hk, scanF, if_false, Bool.false_eq_true]; exact ih

set_option hygiene false in
/-- proof of one `opF_<op>` lemma (names `s q h hn` of the statement) -/
macro "op_case " rows:ident : tactic => `(tactic| (
  simp only [BinOp.toks, BinOp.pieces, jointed, Toks, P.kindAt, true_implies] at h hn
  have hne := operandFirst_ne hn
  unfold opF
  rw [h.1, scanF_filter, $rows:ident]
  obtain ⟨e1, e2, e3, e4, e5, e6, e7, e8⟩ := hne
  simp only [scanF, atF_MINUSEQ, atF_NEQ, atF_STAREQ, atF_SLASHEQ, atF_AMP2, atF_AMPEQ, atF_PERCENTEQ,
    atF_CARETEQ, atF_PLUSEQ, atF_DOUBLE_PLUS, atF_DOUBLE_STAR, atF_SHL, atF_LTEQ, atF_EQ2,
    atF_FAT_ARROW, atF_GTEQ, atF_SHR, atF_PIPEEQ, atF_PIPE2, atF_SHLEQ, atF_SHREQ, h,
    e1, e2, e3, e4, e5, e6, e7, e8,
    Bool.and_eq_true, beq_iff_eq, false_and, and_false, if_false, if_true, true_and, and_true,
    Option.getD_some, Option.getD_none, notAnOp, BinOp.pow, BinOp.kind, reduceCtorEq, beq_self_eq_true,
    Bool.true_and, Bool.and_true, and_self]))

-- BEGIN GENERATED (tools/gen_prattev_ops.py)
/-- closed forms of `atF` for the composite kinds -/
theorem atF_MINUSEQ (K : Array SyntaxKind) (J : Array Bool) (p : Nat) :
    atF .MINUSEQ K J p = (K.getD p .EOF == .MINUS && K.getD (p + 1) .EOF == .EQ && J.getD p false) :=
  atF_comp2 .MINUSEQ .MINUS .EQ (by decide) K J p
theorem atF_THIN_ARROW (K : Array SyntaxKind) (J : Array Bool) (p : Nat) :
    atF .THIN_ARROW K J p = (K.getD p .EOF == .MINUS && K.getD (p + 1) .EOF == .R_ANGLE && J.getD p false) :=
  atF_comp2 .THIN_ARROW .MINUS .R_ANGLE (by decide) K J p
theorem atF_COLON2 (K : Array SyntaxKind) (J : Array Bool) (p : Nat) :
    atF .COLON2 K J p = (K.getD p .EOF == .COLON && K.getD (p + 1) .EOF == .COLON && J.getD p false) :=
  atF_comp2 .COLON2 .COLON .COLON (by decide) K J p
theorem atF_NEQ (K : Array SyntaxKind) (J : Array Bool) (p : Nat) :
    atF .NEQ K J p = (K.getD p .EOF == .BANG && K.getD (p + 1) .EOF == .EQ && J.getD p false) :=
  atF_comp2 .NEQ .BANG .EQ (by decide) K J p
theorem atF_DOT2 (K : Array SyntaxKind) (J : Array Bool) (p : Nat) :
    atF .DOT2 K J p = (K.getD p .EOF == .DOT && K.getD (p + 1) .EOF == .DOT && J.getD p false) :=
  atF_comp2 .DOT2 .DOT .DOT (by decide) K J p
theorem atF_STAREQ (K : Array SyntaxKind) (J : Array Bool) (p : Nat) :
    atF .STAREQ K J p = (K.getD p .EOF == .STAR && K.getD (p + 1) .EOF == .EQ && J.getD p false) :=
  atF_comp2 .STAREQ .STAR .EQ (by decide) K J p
theorem atF_SLASHEQ (K : Array SyntaxKind) (J : Array Bool) (p : Nat) :
    atF .SLASHEQ K J p = (K.getD p .EOF == .SLASH && K.getD (p + 1) .EOF == .EQ && J.getD p false) :=
  atF_comp2 .SLASHEQ .SLASH .EQ (by decide) K J p
theorem atF_AMP2 (K : Array SyntaxKind) (J : Array Bool) (p : Nat) :
    atF .AMP2 K J p = (K.getD p .EOF == .AMP && K.getD (p + 1) .EOF == .AMP && J.getD p false) :=
  atF_comp2 .AMP2 .AMP .AMP (by decide) K J p
theorem atF_AMPEQ (K : Array SyntaxKind) (J : Array Bool) (p : Nat) :
    atF .AMPEQ K J p = (K.getD p .EOF == .AMP && K.getD (p + 1) .EOF == .EQ && J.getD p false) :=
  atF_comp2 .AMPEQ .AMP .EQ (by decide) K J p
theorem atF_PERCENTEQ (K : Array SyntaxKind) (J : Array Bool) (p : Nat) :
    atF .PERCENTEQ K J p = (K.getD p .EOF == .PERCENT && K.getD (p + 1) .EOF == .EQ && J.getD p false) :=
  atF_comp2 .PERCENTEQ .PERCENT .EQ (by decide) K J p
theorem atF_CARETEQ (K : Array SyntaxKind) (J : Array Bool) (p : Nat) :
    atF .CARETEQ K J p = (K.getD p .EOF == .CARET && K.getD (p + 1) .EOF == .EQ && J.getD p false) :=
  atF_comp2 .CARETEQ .CARET .EQ (by decide) K J p
theorem atF_PLUSEQ (K : Array SyntaxKind) (J : Array Bool) (p : Nat) :
    atF .PLUSEQ K J p = (K.getD p .EOF == .PLUS && K.getD (p + 1) .EOF == .EQ && J.getD p false) :=
  atF_comp2 .PLUSEQ .PLUS .EQ (by decide) K J p
theorem atF_DOUBLE_PLUS (K : Array SyntaxKind) (J : Array Bool) (p : Nat) :
    atF .DOUBLE_PLUS K J p = (K.getD p .EOF == .PLUS && K.getD (p + 1) .EOF == .PLUS && J.getD p false) :=
  atF_comp2 .DOUBLE_PLUS .PLUS .PLUS (by decide) K J p
theorem atF_DOUBLE_STAR (K : Array SyntaxKind) (J : Array Bool) (p : Nat) :
    atF .DOUBLE_STAR K J p = (K.getD p .EOF == .STAR && K.getD (p + 1) .EOF == .STAR && J.getD p false) :=
  atF_comp2 .DOUBLE_STAR .STAR .STAR (by decide) K J p
theorem atF_SHL (K : Array SyntaxKind) (J : Array Bool) (p : Nat) :
    atF .SHL K J p = (K.getD p .EOF == .L_ANGLE && K.getD (p + 1) .EOF == .L_ANGLE && J.getD p false) :=
  atF_comp2 .SHL .L_ANGLE .L_ANGLE (by decide) K J p
theorem atF_LTEQ (K : Array SyntaxKind) (J : Array Bool) (p : Nat) :
    atF .LTEQ K J p = (K.getD p .EOF == .L_ANGLE && K.getD (p + 1) .EOF == .EQ && J.getD p false) :=
  atF_comp2 .LTEQ .L_ANGLE .EQ (by decide) K J p
theorem atF_EQ2 (K : Array SyntaxKind) (J : Array Bool) (p : Nat) :
    atF .EQ2 K J p = (K.getD p .EOF == .EQ && K.getD (p + 1) .EOF == .EQ && J.getD p false) :=
  atF_comp2 .EQ2 .EQ .EQ (by decide) K J p
theorem atF_FAT_ARROW (K : Array SyntaxKind) (J : Array Bool) (p : Nat) :
    atF .FAT_ARROW K J p = (K.getD p .EOF == .EQ && K.getD (p + 1) .EOF == .R_ANGLE && J.getD p false) :=
  atF_comp2 .FAT_ARROW .EQ .R_ANGLE (by decide) K J p
theorem atF_GTEQ (K : Array SyntaxKind) (J : Array Bool) (p : Nat) :
    atF .GTEQ K J p = (K.getD p .EOF == .R_ANGLE && K.getD (p + 1) .EOF == .EQ && J.getD p false) :=
  atF_comp2 .GTEQ .R_ANGLE .EQ (by decide) K J p
theorem atF_SHR (K : Array SyntaxKind) (J : Array Bool) (p : Nat) :
    atF .SHR K J p = (K.getD p .EOF == .R_ANGLE && K.getD (p + 1) .EOF == .R_ANGLE && J.getD p false) :=
  atF_comp2 .SHR .R_ANGLE .R_ANGLE (by decide) K J p
theorem atF_PIPEEQ (K : Array SyntaxKind) (J : Array Bool) (p : Nat) :
    atF .PIPEEQ K J p = (K.getD p .EOF == .PIPE && K.getD (p + 1) .EOF == .EQ && J.getD p false) :=
  atF_comp2 .PIPEEQ .PIPE .EQ (by decide) K J p
theorem atF_PIPE2 (K : Array SyntaxKind) (J : Array Bool) (p : Nat) :
    atF .PIPE2 K J p = (K.getD p .EOF == .PIPE && K.getD (p + 1) .EOF == .PIPE && J.getD p false) :=
  atF_comp2 .PIPE2 .PIPE .PIPE (by decide) K J p
theorem atF_DOT3 (K : Array SyntaxKind) (J : Array Bool) (p : Nat) :
    atF .DOT3 K J p = (K.getD p .EOF == .DOT && K.getD (p + 1) .EOF == .DOT && K.getD (p + 2) .EOF == .DOT
      && J.getD p false && J.getD (p + 1) false) :=
  atF_comp3 .DOT3 .DOT .DOT .DOT (by decide) K J p
theorem atF_DOT2EQ (K : Array SyntaxKind) (J : Array Bool) (p : Nat) :
    atF .DOT2EQ K J p = (K.getD p .EOF == .DOT && K.getD (p + 1) .EOF == .DOT && K.getD (p + 2) .EOF == .EQ
      && J.getD p false && J.getD (p + 1) false) :=
  atF_comp3 .DOT2EQ .DOT .DOT .EQ (by decide) K J p
theorem atF_SHLEQ (K : Array SyntaxKind) (J : Array Bool) (p : Nat) :
    atF .SHLEQ K J p = (K.getD p .EOF == .L_ANGLE && K.getD (p + 1) .EOF == .L_ANGLE && K.getD (p + 2) .EOF == .EQ
      && J.getD p false && J.getD (p + 1) false) :=
  atF_comp3 .SHLEQ .L_ANGLE .L_ANGLE .EQ (by decide) K J p
theorem atF_SHREQ (K : Array SyntaxKind) (J : Array Bool) (p : Nat) :
    atF .SHREQ K J p = (K.getD p .EOF == .R_ANGLE && K.getD (p + 1) .EOF == .R_ANGLE && K.getD (p + 2) .EOF == .EQ
      && J.getD p false && J.getD (p + 1) false) :=
  atF_comp3 .SHREQ .R_ANGLE .R_ANGLE .EQ (by decide) K J p

theorem rows_PIPE : Ops.currentOpRows.filter (·.1 == SyntaxKind.PIPE) =
    [(.PIPE, some .PIPE2, some (3, .PIPE2, .left)),
     (.PIPE, some .PIPEEQ, some (1, .PIPEEQ, .right)),
     (.PIPE, none, some (6, .PIPE, .left))] := by decide
theorem rows_R_ANGLE : Ops.currentOpRows.filter (·.1 == SyntaxKind.R_ANGLE) =
    [(.R_ANGLE, some .SHREQ, some (1, .SHREQ, .right)),
     (.R_ANGLE, some .SHR, some (9, .SHR, .left)),
     (.R_ANGLE, some .GTEQ, some (5, .GTEQ, .left)),
     (.R_ANGLE, none, some (5, .R_ANGLE, .left))] := by decide
theorem rows_EQ : Ops.currentOpRows.filter (·.1 == SyntaxKind.EQ) =
    [(.EQ, some .FAT_ARROW, none),
     (.EQ, some .EQ2, some (5, .EQ2, .left)),
     (.EQ, none, some (12, .EQ, .right))] := by decide
theorem rows_L_ANGLE : Ops.currentOpRows.filter (·.1 == SyntaxKind.L_ANGLE) =
    [(.L_ANGLE, some .LTEQ, some (5, .LTEQ, .left)),
     (.L_ANGLE, some .SHLEQ, some (1, .SHLEQ, .right)),
     (.L_ANGLE, some .SHL, some (9, .SHL, .left)),
     (.L_ANGLE, none, some (5, .L_ANGLE, .left))] := by decide
theorem rows_PLUS : Ops.currentOpRows.filter (·.1 == SyntaxKind.PLUS) =
    [(.PLUS, some .PLUSEQ, some (1, .PLUSEQ, .right)),
     (.PLUS, some .DOUBLE_PLUS, some (2, .DOUBLE_PLUS, .left)),
     (.PLUS, none, some (10, .PLUS, .left))] := by decide
theorem rows_STAR : Ops.currentOpRows.filter (·.1 == SyntaxKind.STAR) =
    [(.STAR, some .DOUBLE_STAR, some (7, .DOUBLE_STAR, .left)),
     (.STAR, some .STAREQ, some (1, .STAREQ, .right)),
     (.STAR, none, some (11, .STAR, .left))] := by decide
theorem rows_CARET : Ops.currentOpRows.filter (·.1 == SyntaxKind.CARET) =
    [(.CARET, some .CARETEQ, some (1, .CARETEQ, .right)),
     (.CARET, none, some (7, .CARET, .left))] := by decide
theorem rows_PERCENT : Ops.currentOpRows.filter (·.1 == SyntaxKind.PERCENT) =
    [(.PERCENT, some .PERCENTEQ, some (1, .PERCENTEQ, .right)),
     (.PERCENT, none, some (11, .PERCENT, .left))] := by decide
theorem rows_AMP : Ops.currentOpRows.filter (·.1 == SyntaxKind.AMP) =
    [(.AMP, some .AMPEQ, some (1, .AMPEQ, .right)),
     (.AMP, some .AMP2, some (4, .AMP2, .left)),
     (.AMP, none, some (8, .AMP, .left))] := by decide
theorem rows_SLASH : Ops.currentOpRows.filter (·.1 == SyntaxKind.SLASH) =
    [(.SLASH, some .SLASHEQ, some (1, .SLASHEQ, .right)),
     (.SLASH, none, some (11, .SLASH, .left))] := by decide
theorem rows_DOT : Ops.currentOpRows.filter (·.1 == SyntaxKind.DOT) =
    [(.DOT, some .DOT2EQ, some (2, .DOT2EQ, .left)),
     (.DOT, some .DOT2, some (2, .DOT2, .left))] := by decide
theorem rows_BANG : Ops.currentOpRows.filter (·.1 == SyntaxKind.BANG) =
    [(.BANG, some .NEQ, some (5, .NEQ, .left))] := by decide
theorem rows_MINUS : Ops.currentOpRows.filter (·.1 == SyntaxKind.MINUS) =
    [(.MINUS, some .MINUSEQ, some (1, .MINUSEQ, .right)),
     (.MINUS, none, some (10, .MINUS, .left))] := by decide

theorem opF_pipe2 (s : P) (q : Nat) (h : Toks s q BinOp.pipe2.toks)
    (hn : operandFirst (s.kindAt (q + 2)) = true) :
    opF s.kinds s.joint q = (BinOp.pipe2.pow, BinOp.pipe2.kind, .left) := by
  op_case rows_PIPE
theorem opF_amp2 (s : P) (q : Nat) (h : Toks s q BinOp.amp2.toks)
    (hn : operandFirst (s.kindAt (q + 2)) = true) :
    opF s.kinds s.joint q = (BinOp.amp2.pow, BinOp.amp2.kind, .left) := by
  op_case rows_AMP
theorem opF_pipe (s : P) (q : Nat) (h : Toks s q BinOp.pipe.toks)
    (hn : operandFirst (s.kindAt (q + 1)) = true) :
    opF s.kinds s.joint q = (BinOp.pipe.pow, BinOp.pipe.kind, .left) := by
  op_case rows_PIPE
theorem opF_caret (s : P) (q : Nat) (h : Toks s q BinOp.caret.toks)
    (hn : operandFirst (s.kindAt (q + 1)) = true) :
    opF s.kinds s.joint q = (BinOp.caret.pow, BinOp.caret.kind, .left) := by
  op_case rows_CARET
theorem opF_amp (s : P) (q : Nat) (h : Toks s q BinOp.amp.toks)
    (hn : operandFirst (s.kindAt (q + 1)) = true) :
    opF s.kinds s.joint q = (BinOp.amp.pow, BinOp.amp.kind, .left) := by
  op_case rows_AMP
theorem opF_eq2 (s : P) (q : Nat) (h : Toks s q BinOp.eq2.toks)
    (hn : operandFirst (s.kindAt (q + 2)) = true) :
    opF s.kinds s.joint q = (BinOp.eq2.pow, BinOp.eq2.kind, .left) := by
  op_case rows_EQ
theorem opF_neq (s : P) (q : Nat) (h : Toks s q BinOp.neq.toks)
    (hn : operandFirst (s.kindAt (q + 2)) = true) :
    opF s.kinds s.joint q = (BinOp.neq.pow, BinOp.neq.kind, .left) := by
  op_case rows_BANG
theorem opF_lt (s : P) (q : Nat) (h : Toks s q BinOp.lt.toks)
    (hn : operandFirst (s.kindAt (q + 1)) = true) :
    opF s.kinds s.joint q = (BinOp.lt.pow, BinOp.lt.kind, .left) := by
  op_case rows_L_ANGLE
theorem opF_lteq (s : P) (q : Nat) (h : Toks s q BinOp.lteq.toks)
    (hn : operandFirst (s.kindAt (q + 2)) = true) :
    opF s.kinds s.joint q = (BinOp.lteq.pow, BinOp.lteq.kind, .left) := by
  op_case rows_L_ANGLE
theorem opF_gt (s : P) (q : Nat) (h : Toks s q BinOp.gt.toks)
    (hn : operandFirst (s.kindAt (q + 1)) = true) :
    opF s.kinds s.joint q = (BinOp.gt.pow, BinOp.gt.kind, .left) := by
  op_case rows_R_ANGLE
theorem opF_gteq (s : P) (q : Nat) (h : Toks s q BinOp.gteq.toks)
    (hn : operandFirst (s.kindAt (q + 2)) = true) :
    opF s.kinds s.joint q = (BinOp.gteq.pow, BinOp.gteq.kind, .left) := by
  op_case rows_R_ANGLE
theorem opF_shl (s : P) (q : Nat) (h : Toks s q BinOp.shl.toks)
    (hn : operandFirst (s.kindAt (q + 2)) = true) :
    opF s.kinds s.joint q = (BinOp.shl.pow, BinOp.shl.kind, .left) := by
  op_case rows_L_ANGLE
theorem opF_shr (s : P) (q : Nat) (h : Toks s q BinOp.shr.toks)
    (hn : operandFirst (s.kindAt (q + 2)) = true) :
    opF s.kinds s.joint q = (BinOp.shr.pow, BinOp.shr.kind, .left) := by
  op_case rows_R_ANGLE
theorem opF_plus (s : P) (q : Nat) (h : Toks s q BinOp.plus.toks)
    (hn : operandFirst (s.kindAt (q + 1)) = true) :
    opF s.kinds s.joint q = (BinOp.plus.pow, BinOp.plus.kind, .left) := by
  op_case rows_PLUS
theorem opF_minus (s : P) (q : Nat) (h : Toks s q BinOp.minus.toks)
    (hn : operandFirst (s.kindAt (q + 1)) = true) :
    opF s.kinds s.joint q = (BinOp.minus.pow, BinOp.minus.kind, .left) := by
  op_case rows_MINUS
theorem opF_star (s : P) (q : Nat) (h : Toks s q BinOp.star.toks)
    (hn : operandFirst (s.kindAt (q + 1)) = true) :
    opF s.kinds s.joint q = (BinOp.star.pow, BinOp.star.kind, .left) := by
  op_case rows_STAR
theorem opF_slash (s : P) (q : Nat) (h : Toks s q BinOp.slash.toks)
    (hn : operandFirst (s.kindAt (q + 1)) = true) :
    opF s.kinds s.joint q = (BinOp.slash.pow, BinOp.slash.kind, .left) := by
  op_case rows_SLASH
theorem opF_percent (s : P) (q : Nat) (h : Toks s q BinOp.percent.toks)
    (hn : operandFirst (s.kindAt (q + 1)) = true) :
    opF s.kinds s.joint q = (BinOp.percent.pow, BinOp.percent.kind, .left) := by
  op_case rows_PERCENT
theorem opF_dstar (s : P) (q : Nat) (h : Toks s q BinOp.dstar.toks)
    (hn : operandFirst (s.kindAt (q + 2)) = true) :
    opF s.kinds s.joint q = (BinOp.dstar.pow, BinOp.dstar.kind, .left) := by
  op_case rows_STAR
-- END GENERATED

/-- **`current_op` on an operator of the table** followed by an operand -/
theorem opF_binop (o : BinOp) (s : P) (q : Nat) (h : Toks s q o.toks)
    (hn : operandFirst (s.kindAt (q + o.pieces.length)) = true) :
    opF s.kinds s.joint q = (o.pow, o.kind, .left) := by
  cases o
  · exact opF_pipe2 s q h hn
  · exact opF_amp2 s q h hn
  · exact opF_pipe s q h hn
  · exact opF_caret s q h hn
  · exact opF_amp s q h hn
  · exact opF_eq2 s q h hn
  · exact opF_neq s q h hn
  · exact opF_lt s q h hn
  · exact opF_lteq s q h hn
  · exact opF_gt s q h hn
  · exact opF_gteq s q h hn
  · exact opF_shl s q h hn
  · exact opF_shr s q h hn
  · exact opF_plus s q h hn
  · exact opF_minus s q h hn
  · exact opF_star s q h hn
  · exact opF_slash s q h hn
  · exact opF_percent s q h hn
  · exact opF_dstar s q h hn

/-- `p.at(op)` holds at the pieces of the operator -/
theorem atF_binop (o : BinOp) (s : P) (q : Nat) (h : Toks s q o.toks) :
    atF o.kind s.kinds s.joint q = true := by
  cases o <;>
    simp only [BinOp.toks, BinOp.pieces, jointed, Toks, P.kindAt, true_implies] at h <;>
    simp only [BinOp.kind, atF_AMP2, atF_NEQ, atF_DOUBLE_STAR, atF_SHL, atF_LTEQ, atF_EQ2, atF_GTEQ, atF_SHR,
      atF_PIPE2, h, beq_self_eq_true, Bool.and_self] <;>
    (rw [atF_simple (by decide)]; simp only [h, beq_self_eq_true])

theorem BinOp.eatRaw (o : BinOp) : eatRawTokens o.kind = o.pieces.length := by
  cases o <;> decide

theorem BinOp.kind_ne_eof (o : BinOp) : (o.kind == .EOF) = false := by cases o <;> rfl
theorem BinOp.kind_ne_eq (o : BinOp) : (o.kind == .EQ) = false := by cases o <;> rfl
theorem BinOp.pow_pos (o : BinOp) : 1 ≤ o.pow := by cases o <;> decide
theorem BinOp.pow_lt (o : BinOp) : o.pow < 255 := by cases o <;> decide
theorem BinOp.pieces_pos (o : BinOp) : 1 ≤ o.pieces.length := by cases o <;> decide

/-- the first token of an operator is not an operand token, a postfix opener or `)` -/
theorem BinOp.first_tok (o : BinOp) : ∃ k j ts, o.toks = (k, j) :: ts ∧
    k ≠ .L_PAREN ∧ k ≠ .L_BRACK ∧ k ≠ .IDENT ∧ k ≠ .HARDWAREIDENT := by
  cases o <;> exact ⟨_, _, _, rfl, by decide, by decide, by decide, by decide⟩

/-! ### `current_op` and `bump` on overlay states -/

theorem currentOp_ov (s : P) (E : List Ev) (dp st sb lv : Nat) (pr : List Nat) :
    currentOp (s.ov E dp st sb lv pr) =
      .ok (opF s.kinds s.joint (s.pos + dp), s.ov E dp st sb lv pr) :=
  currentOp_eq _

/-- `bump(kind)` when `p.at(kind)` holds -/
theorem bump_atF_ov (k : SyntaxKind) (hk : (k == .EOF) = false) (s : P) (E : List Ev)
    (dp st sb lv : Nat) (pr : List Nat) (h : atF k s.kinds s.joint (s.pos + dp) = true) :
    bump k (s.ov E dp st sb lv pr) =
      .ok ((), s.ov (E ++ [.token k (eatRawTokens k)]) (dp + eatRawTokens k) 0 1 lv pr) := by
  unfold bump eat
  simp only [hk, Bool.false_eq_true, if_false]
  rw [G.bind_apply, G.bind_apply, at_total]
  have h' : atF k (s.ov E dp st sb lv pr).kinds (s.ov E dp st sb lv pr).joint (s.ov E dp st sb lv pr).pos
      = true := h
  simp only [h', Bool.not_true, Bool.false_eq_true, if_false]
  rw [G.bind_apply, doBump_ov]
  rfl

/-- no row of `current_op` starts with the token: NOT_AN_OP -/
theorem scanF_none (cur : SyntaxKind) (K : Array SyntaxKind) (J : Array Bool) (p : Nat)
    (rows : List (SyntaxKind × Option SyntaxKind × Option (Nat × SyntaxKind × Assoc)))
    (h : rows.any (fun r => r.1 == cur) = false) : scanF cur K J p rows = notAnOp := by
  induction rows with
  | nil => rfl
  | cons r rows ih =>
    obtain ⟨k, guard, res⟩ := r
    simp only [List.any_cons, Bool.or_eq_false_iff] at h
    unfold scanF
    simp only [h.1, Bool.false_eq_true, if_false]
    exact ih h.2

/-- the tokens with which an operator of `current_op` starts -/
def startsOp (k : SyntaxKind) : Bool := Ops.currentOpRows.any (fun r => r.1 == k)

theorem opF_nonop (K : Array SyntaxKind) (J : Array Bool) (p : Nat)
    (h : startsOp (K.getD p .EOF) = false) : opF K J p = notAnOp :=
  scanF_none _ K J p _ h

/-! ### the table of `Oq3.Pratt.implTab` -/

theorem BinOp.pow_impl (o : BinOp) : Oq3.Pratt.implTab.pow o.kind = o.pow := by
  cases o <;> decide +kernel

theorem BinOp.assoc_impl (o : BinOp) : Oq3.Pratt.implTab.assoc o.kind = .left := by
  cases o <;> decide +kernel

theorem BinOp.rbp_impl (o : BinOp) : Oq3.Pratt.rbp Oq3.Pratt.implTab o.kind = o.pow + 1 := by
  unfold Oq3.Pratt.rbp
  rw [o.assoc_impl, o.pow_impl]

theorem PreOp.preOK_impl (o : PreOp) : Oq3.Pratt.implTab.preOK o.kind = true := by
  cases o <;> decide +kernel

end Oq3.PrattEv
