/-
C04 for a recursive reference language, part 4: blocks and control flow, relative to the acceptance
of the statement lists inside them (`StmtsOK`, the induction hypothesis of `Lemmas/LangEvProg.lean`).
-/
import Oq3.Lemmas.LangEvStmt
set_option linter.unusedSimpArgs false
set_option linter.unusedVariables false

namespace Oq3.LangEv
open Oq3.Gen Oq3.Parser Oq3.Grammar Oq3.SymExec Oq3.PrattEv
open Oq3.Gen.Ops (Assoc)

/-- a token that closes a statement list -/
def closer (k : SyntaxKind) : Prop := k = .R_CURLY ∨ k = .EOF

/-- the statement loop accepts the statement list `ss` (the induction hypothesis for blocks) -/
def StmtsOK (ss : Stmts) (need : Nat) : Prop :=
  ∀ (F : Nat) (s : P), need ≤ F → Rdy 8 s → Toks s s.pos (toksL ss) →
    closer (s.kindAt (s.pos + (toksL ss).length)) →
    Acc (exprBlockStatements F) s (toksL ss).length (evsL ss)

/-- `{ ss }` through `block_or_statement` -/
theorem block_acc (ss : Stmts) (need F : Nat) (ih : StmtsOK ss need) (s : P) (hF : need + 2 ≤ F) (hr : Rdy 8 s)
    (h0 : s.kindAt (s.pos + 0) = .L_CURLY) (htk : Toks s (s.pos + 1) (toksL ss))
    (hclose : s.kindAt (s.pos + (1 + (toksL ss).length)) = .R_CURLY) :
    Acc (blockOrStatement F) s ((toksL ss).length + 2) (blockEvs (evsL ss)) := by
  obtain ⟨g, rfl⟩ : ∃ g, F = g + 2 := ⟨F - 2, by omega⟩
  have hpr' : ∀ n, ∀ p ∈ s.protectedPos, p < s.events.size + n := fun n p hp => Nat.lt_add_right n (hr.prot p hp)
  obtain ⟨st', sb', hle, hbody⟩ :=
    (ih g (s.ov [.start .TOMBSTONE none, .token .L_CURLY 1] 1 0 1 (s.live + 1) s.protectedPos) (by omega)
      (Rdy_ov 8 s _ _ _ _ _ _ hr.hook (by have := hr.steps; omega) (hpr' _))
      ((Toks_ov s _ _ _ _ _ _ _ _).2 htk)
      (Or.inl (kindAt_pos hclose (by show s.pos + 1 + _ = _; omega)))).at_ov
  run_base [h0, hbody, hclose]

/-- `if (c) { thn }` not followed by `else` -/
theorem stmt_ifS (c : E) (thn : Stmts) (need F : Nat) (ih : StmtsOK thn need) (s : P) (hr : Rdy 8 s)
    (hF : max (6 * size c) need + 6 ≤ F) (htk : Toks s s.pos (toksS (.ifS c thn))) (hc : CanonE 1 c)
    (hfol : s.kindAt (s.pos + (toksS (.ifS c thn)).length) ≠ .ELSE_KW) :
    Acc (stmt F) s (toksS (.ifS c thn)).length (evsS (.ifS c thn)) := by
  obtain ⟨g, rfl⟩ : ∃ g, F = g + 4 := ⟨F - 4, by omega⟩
  simp only [toksS, Toks, Toks_append, tk, List.length_cons, List.length_append, List.length_nil] at htk hfol ⊢
  obtain ⟨h0, -, h1, -, htc, hrp, -, hlc, -, htb, hrc, -, -⟩ := htk
  rw [show s.pos = s.pos + 0 from rfl] at h0
  have hpr' : ∀ n, ∀ p ∈ s.protectedPos, p < s.events.size + n := fun n p hp => Nat.lt_add_right n (hr.prot p hp)
  have hcond := fun st sb lv E0 h1 => expr_ov c s E0 2 st sb lv s.protectedPos g hr.hook h1 (hpr' _)
    (Toks_pos htc (by omega)) hc (by rw [kindAt_pos hrp (by omega)]; rfl) (by omega)
  have hrp' : s.kindAt (s.pos + (2 + (toks c).length)) = .R_PAREN := kindAt_pos hrp (by omega)
  obtain ⟨st', sb', hle, hblk⟩ :=
    (block_acc thn need (g + 1) ih
      (s.ov ([.start .TOMBSTONE none, .token .IF_KW 1, .token .L_PAREN 1] ++ evs c ++ [.token .R_PAREN 1])
        (2 + (toks c).length + 1) 0 1 (s.live + 1) s.protectedPos) (by omega)
      (Rdy_ov 8 s _ _ _ _ _ _ hr.hook (by have := hr.steps; omega) (hpr' _))
      (kindAt_pos hlc (by show s.pos + _ + 0 = _; omega))
      ((Toks_ov s _ _ _ _ _ _ _ _).2 (Toks_pos htb (by show s.pos + _ + 1 = _; omega)))
      (kindAt_pos hrc (by show s.pos + _ + _ = _; omega))).at_ov
  have hfol' : s.kindAt (s.pos + (2 + (toks c).length + 1 + ((toksL thn).length + 2))) ≠ .ELSE_KW := by
    intro h; exact hfol (kindAt_pos h (by omega))
  simp only [List.cons_append, List.nil_append] at hblk
  run_base [h0, h1, hcond, hrp', hblk, hfol']

/-- `if (c) { thn } else { els }` -/
theorem stmt_ifElse (c : E) (thn els : Stmts) (need1 need2 F : Nat) (ih1 : StmtsOK thn need1) (ih2 : StmtsOK els need2)
    (s : P) (hr : Rdy 8 s)
    (hF : max (6 * size c) (max need1 need2) + 6 ≤ F) (htk : Toks s s.pos (toksS (.ifElse c thn els)))
    (hc : CanonE 1 c) :
    Acc (stmt F) s (toksS (.ifElse c thn els)).length (evsS (.ifElse c thn els)) := by
  obtain ⟨g, rfl⟩ : ∃ g, F = g + 4 := ⟨F - 4, by omega⟩
  simp only [toksS, Toks, Toks_append, tk, List.length_cons, List.length_append, List.length_nil] at htk ⊢
  obtain ⟨h0, -, h1, -, htc, hrp, -, hlc, -, htb, hrc, -, hel, -, hlc2, -, htb2, hrc2, -, -⟩ := htk
  rw [show s.pos = s.pos + 0 from rfl] at h0
  have hpr' : ∀ n, ∀ p ∈ s.protectedPos, p < s.events.size + n := fun n p hp => Nat.lt_add_right n (hr.prot p hp)
  have hcond := fun st sb lv E0 h1 => expr_ov c s E0 2 st sb lv s.protectedPos g hr.hook h1 (hpr' _)
    (Toks_pos htc (by omega)) hc (by rw [kindAt_pos hrp (by omega)]; rfl) (by omega)
  have hrp' : s.kindAt (s.pos + (2 + (toks c).length)) = .R_PAREN := kindAt_pos hrp (by omega)
  obtain ⟨st', sb', hle, hblk⟩ :=
    (block_acc thn need1 (g + 1) ih1
      (s.ov ([.start .TOMBSTONE none, .token .IF_KW 1, .token .L_PAREN 1] ++ evs c ++ [.token .R_PAREN 1])
        (2 + (toks c).length + 1) 0 1 (s.live + 1) s.protectedPos) (by omega)
      (Rdy_ov 8 s _ _ _ _ _ _ hr.hook (by have := hr.steps; omega) (hpr' _))
      (kindAt_pos hlc (by show s.pos + _ + 0 = _; omega))
      ((Toks_ov s _ _ _ _ _ _ _ _).2 (Toks_pos htb (by show s.pos + _ + 1 = _; omega)))
      (kindAt_pos hrc (by show s.pos + _ + _ = _; omega))).at_ov
  have hel' : s.kindAt (s.pos + (2 + (toks c).length + 1 + ((toksL thn).length + 2))) = .ELSE_KW :=
    kindAt_pos hel (by omega)
  have hlc2' : s.kindAt (s.pos + (2 + (toks c).length + 1 + ((toksL thn).length + 2) + 1)) = .L_CURLY :=
    kindAt_pos hlc2 (by omega)
  simp only [List.cons_append, List.nil_append] at hblk
  obtain ⟨st2, sb2, hle2, hblk2⟩ :=
    (block_acc els need2 (g + 1) ih2
      (s.ov (.start .TOMBSTONE none :: .token .IF_KW 1 :: .token .L_PAREN 1 :: (evs c ++ [.token .R_PAREN 1] ++ blockEvs (evsL thn)) ++
          [.token .ELSE_KW 1])
        (2 + (toks c).length + 1 + ((toksL thn).length + 2) + 1) 0 1 (s.live + 1) s.protectedPos) (by omega)
      (Rdy_ov 8 s _ _ _ _ _ _ hr.hook (by have := hr.steps; omega) (hpr' _))
      (kindAt_pos hlc2 (by show s.pos + _ + 0 = _; omega))
      ((Toks_ov s _ _ _ _ _ _ _ _).2 (Toks_pos htb2 (by show s.pos + _ + 1 = _; omega)))
      (kindAt_pos hrc2 (by show s.pos + _ + _ = _; omega))).at_ov
  simp only [List.cons_append, List.nil_append] at hblk2
  run_base [h0, h1, hcond, hrp', hblk, hel', hlc2', hblk2]

/-- `while (c) { body }` -/
theorem stmt_whileS (c : E) (body : Stmts) (need F : Nat) (ih : StmtsOK body need) (s : P) (hr : Rdy 8 s)
    (hF : max (6 * size c) need + 6 ≤ F) (htk : Toks s s.pos (toksS (.whileS c body))) (hc : CanonE 1 c) :
    Acc (stmt F) s (toksS (.whileS c body)).length (evsS (.whileS c body)) := by
  obtain ⟨g, rfl⟩ : ∃ g, F = g + 4 := ⟨F - 4, by omega⟩
  simp only [toksS, Toks, Toks_append, tk, List.length_cons, List.length_append, List.length_nil] at htk ⊢
  obtain ⟨h0, -, h1, -, htc, hrp, -, hlc, -, htb, hrc, -, -⟩ := htk
  rw [show s.pos = s.pos + 0 from rfl] at h0
  have hpr' : ∀ n, ∀ p ∈ s.protectedPos, p < s.events.size + n := fun n p hp => Nat.lt_add_right n (hr.prot p hp)
  have hcond := fun st sb lv E0 h1 => expr_ov c s E0 2 st sb lv s.protectedPos g hr.hook h1 (hpr' _)
    (Toks_pos htc (by omega)) hc (by rw [kindAt_pos hrp (by omega)]; rfl) (by omega)
  have hrp' : s.kindAt (s.pos + (2 + (toks c).length)) = .R_PAREN := kindAt_pos hrp (by omega)
  obtain ⟨st', sb', hle, hblk⟩ :=
    (block_acc body need (g + 1) ih
      (s.ov ([.start .TOMBSTONE none, .token .WHILE_KW 1, .token .L_PAREN 1] ++ evs c ++ [.token .R_PAREN 1])
        (2 + (toks c).length + 1) 0 1 (s.live + 1) s.protectedPos) (by omega)
      (Rdy_ov 8 s _ _ _ _ _ _ hr.hook (by have := hr.steps; omega) (hpr' _))
      (kindAt_pos hlc (by show s.pos + _ + 0 = _; omega))
      ((Toks_ov s _ _ _ _ _ _ _ _).2 (Toks_pos htb (by show s.pos + _ + 1 = _; omega)))
      (kindAt_pos hrc (by show s.pos + _ + _ = _; omega))).at_ov
  simp only [List.cons_append, List.nil_append] at hblk
  run_base [h0, h1, hcond, hrp', hblk]

/-- `[lo:hi]` -/
theorem range_acc (lo hi : E) (F : Nat) (s : P) (hr : Rdy 2 s) (hF : max (6 * size lo) (6 * size hi) + 1 ≤ F)
    (h0 : s.kindAt (s.pos + 0) = .L_BRACK) (htl : Toks s (s.pos + 1) (toks lo))
    (hcol : s.kindAt (s.pos + (1 + (toks lo).length)) = .COLON)
    (hth : Toks s (s.pos + (1 + (toks lo).length + 1)) (toks hi))
    (hrb : s.kindAt (s.pos + (1 + (toks lo).length + 1 + (toks hi).length)) = .R_BRACK)
    (hcl : CanonE 1 lo) (hch : CanonE 1 hi) :
    AccV (rangeExpr F) (some ⟨s.events.size + 0, .RANGE_EXPR⟩) s ((toks lo).length + (toks hi).length + 3)
      (.start .RANGE_EXPR none :: .token .L_BRACK 1 :: (evs lo ++ (.token .COLON 1 :: (evs hi ++ [.token .R_BRACK 1, .finish])))) := by
  obtain ⟨g, rfl⟩ : ∃ g, F = g + 1 := ⟨F - 1, by omega⟩
  have hpr' : ∀ n, ∀ p ∈ s.protectedPos, p < s.events.size + n := fun n p hp => Nat.lt_add_right n (hr.prot p hp)
  have hlo := fun st sb lv E0 h1 => exprBp_ov lo 1 { preferStmt := false } s E0 1 st sb lv s.protectedPos g hr.hook h1 (hpr' _)
    htl hcl (by decide) (by decide) (by rw [kindAt_pos hcol (by omega)]; rfl) (by omega)
  have hhi := fun st sb lv E0 h1 => exprBp_ov hi 1 { preferStmt := false } s E0 (1 + (toks lo).length + 1) st sb lv s.protectedPos g hr.hook h1 (hpr' _)
    hth hch (by decide) (by decide) (by rw [kindAt_pos hrb (by omega)]; rfl) (by omega)
  run_base [h0, hlo, hcol, hhi, hrb]

/-- `for ty x in [lo:hi] { body }` -/
theorem stmt_forS (ty : Ty) (lo hi : E) (body : Stmts) (need F : Nat) (ih : StmtsOK body need) (s : P) (hr : Rdy 8 s)
    (hF : max (max (6 * size lo) (6 * size hi)) need + 8 ≤ F) (htk : Toks s s.pos (toksS (.forS ty lo hi body)))
    (hcl : CanonE 1 lo) (hch : CanonE 1 hi) :
    Acc (stmt F) s (toksS (.forS ty lo hi body)).length (evsS (.forS ty lo hi body)) := by
  obtain ⟨g, rfl⟩ : ∃ g, F = g + 7 := ⟨F - 7, by omega⟩
  simp only [toksS, Toks, Toks_append, tk, List.length_cons, List.length_append, List.length_nil] at htk ⊢
  obtain ⟨h0, -, h1, -, h2, -, h3, -, h4, -, htl, hcol, -, hth, hrb, -, hlc, -, htb, hrc, -, -⟩ := htk
  rw [show s.pos = s.pos + 0 from rfl] at h0
  rw [show s.pos + 1 + 1 = s.pos + 2 from rfl] at h2
  rw [show s.pos + 1 + 1 + 1 = s.pos + 3 from rfl] at h3
  rw [show s.pos + 1 + 1 + 1 + 1 = s.pos + 4 from rfl] at h4
  have hpr' : ∀ n, ∀ p ∈ s.protectedPos, p < s.events.size + n := fun n p hp => Nat.lt_add_right n (hr.prot p hp)
  obtain ⟨str, sbr, hler, hrange⟩ :=
    (range_acc lo hi (g + 4)
      (s.ov [.start .TOMBSTONE none, .token .FOR_KW 1, .start .SCALAR_TYPE none, .token ty.kind 1, .finish,
          .start .NAME none, .token .IDENT 1, .finish, .token .IN_KW 1, .start .TOMBSTONE none]
        4 0 2 (s.live + 1 + 1) s.protectedPos)
      (Rdy_ov 2 s _ _ _ _ _ _ hr.hook (by have := hr.steps; omega) (hpr' _)) (by omega)
      h4 ((Toks_ov s _ _ _ _ _ _ _ _).2 (Toks_pos htl (by show s.pos + 4 + 1 = _; omega)))
      (kindAt_pos hcol (by show s.pos + 4 + _ = _; omega))
      ((Toks_ov s _ _ _ _ _ _ _ _).2 (Toks_pos hth (by show s.pos + 4 + _ = _; omega)))
      (kindAt_pos hrb (by show s.pos + 4 + _ = _; omega)) hcl hch).at_ov
  obtain rfl : str = 0 := by omega
  simp only [List.cons_append, List.nil_append] at hrange
  obtain ⟨st', sb', hle, hblk⟩ :=
    (block_acc body need (g + 4) ih
      (s.ov (.start .TOMBSTONE none :: .token .FOR_KW 1 :: .start .SCALAR_TYPE none :: .token ty.kind 1 :: .finish ::
          .start .NAME none :: .token .IDENT 1 :: .finish :: .token .IN_KW 1 :: .start .FOR_ITERABLE none ::
          .start .RANGE_EXPR none :: .token .L_BRACK 1 :: (evs lo ++ (.token .COLON 1 :: (evs hi ++ [.token .R_BRACK 1, .finish]))) ++ [.finish])
        (4 + ((toks lo).length + (toks hi).length + 3)) 0 (sbr + 1) (s.live + 1) s.protectedPos) (by omega)
      (Rdy_ov 8 s _ _ _ _ _ _ hr.hook (by have := hr.steps; omega) (hpr' _))
      (kindAt_pos hlc (by show s.pos + _ + 0 = _; omega))
      ((Toks_ov s _ _ _ _ _ _ _ _).2 (Toks_pos htb (by show s.pos + _ + 1 = _; omega)))
      (kindAt_pos hrc (by show s.pos + _ + _ = _; omega))).at_ov
  simp only [List.cons_append, List.nil_append] at hblk
  cases ty <;> simp only [Ty.kind] at h1 hrange hblk <;> run_base [h0, h1, h2, h3, h4, hrange, hblk]

end Oq3.LangEv
