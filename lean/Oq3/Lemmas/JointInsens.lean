/-
The parser reads a joint bit only to glue a composite operator.

`Parser::at` (the only reader of `Input::is_joint`) looks at the joint bit of position `p` only after
it has compared the kinds at `p`, `p+1` (and `p+2`) with the pieces of a composite token.  So a
run is reproduced verbatim on an input whose joint bits differ only at positions whose two
neighbouring kinds are not adjacent pieces of any composite (`gluePair`): `JI`.

Primitive lemmas here; the grammar functions are lifted by the generated `Lemmas/GrammarJI.lean`
(tools/gen_grammar_ji.py, same scheme as gen_grammar_loc.py).
-/
import Oq3.Lemmas.SafeTok
set_option linter.unusedVariables false
set_option linter.unusedSimpArgs false

namespace Oq3.Parser
open Oq3.Gen

/-- adjacent pairs of a list -/
def adjPairs : List SyntaxKind → List (SyntaxKind × SyntaxKind)
  | a :: b :: l => (a, b) :: adjPairs (b :: l)
  | _ => []

/-- `a b` are adjacent pieces of some composite token: `at` may read the joint bit between them -/
def gluePair (a b : SyntaxKind) : Bool :=
  Ops.compositeTable.any fun p => (adjPairs p.2).contains (a, b)

/-- the joint arrays agree wherever a composite could be glued -/
def JAgree (K : Array SyntaxKind) (J J' : Array Bool) : Prop :=
  ∀ i, gluePair (K.getD i .EOF) (K.getD (i + 1) .EOF) = true → J.getD i false = J'.getD i false

theorem JAgree.symm {K J J'} (h : JAgree K J J') : JAgree K J' J := fun i hi => (h i hi).symm
theorem JAgree.refl (K J) : JAgree K J J := fun _ _ => rfl

theorem compositePieces_mem {k : SyntaxKind} {ps : List SyntaxKind} (h : compositePieces k = some ps) :
    (k, ps) ∈ Ops.compositeTable := by
  simp only [compositePieces, Option.map_eq_some_iff] at h
  obtain ⟨p, hp, hps⟩ := h
  have hm := List.mem_of_find?_eq_some hp
  have hk := List.find?_some hp
  have : p.1 = k := by simpa using hk
  obtain ⟨a, b⟩ := p
  simp only at this hps
  subst this; subst hps
  exact hm

theorem gluePair_of_pieces {k : SyntaxKind} {ps : List SyntaxKind} (h : compositePieces k = some ps)
    {a b : SyntaxKind} (hab : (a, b) ∈ adjPairs ps) : gluePair a b = true := by
  simp only [gluePair, List.any_eq_true]
  exact ⟨(k, ps), compositePieces_mem h, by simpa using hab⟩

/-- **`at` is insensitive to the joint bits outside glue positions** -/
theorem atF_jagree (k : SyntaxKind) (K : Array SyntaxKind) (J J' : Array Bool) (p : Nat)
    (h : JAgree K J J') : atF k K J p = atF k K J' p := by
  unfold atF
  cases hc : compositePieces k with
  | none => rfl
  | some ps =>
    rcases ps with _ | ⟨k1, _ | ⟨k2, _ | ⟨k3, _ | ⟨k4, rest⟩⟩⟩⟩
    · rfl
    · rfl
    · simp only
      by_cases hk : (K.getD p .EOF == k1 && K.getD (p + 1) .EOF == k2) = true
      · have hk' := hk
        simp only [Bool.and_eq_true, beq_iff_eq] at hk'
        have hg : gluePair (K.getD p .EOF) (K.getD (p + 1) .EOF) = true := by
          rw [hk'.1, hk'.2]; exact gluePair_of_pieces hc (by simp [adjPairs])
        rw [h p hg]
      · have : (K.getD p .EOF == k1 && K.getD (p + 1) .EOF == k2) = false := by simpa using hk
        simp only [this, Bool.false_and]
    · simp only
      by_cases hk : (K.getD p .EOF == k1 && K.getD (p + 1) .EOF == k2 && K.getD (p + 2) .EOF == k3) = true
      · have hk' := hk
        simp only [Bool.and_eq_true, beq_iff_eq] at hk'
        have hg1 : gluePair (K.getD p .EOF) (K.getD (p + 1) .EOF) = true := by
          rw [hk'.1.1, hk'.1.2]; exact gluePair_of_pieces hc (by simp [adjPairs])
        have hg2 : gluePair (K.getD (p + 1) .EOF) (K.getD (p + 1 + 1) .EOF) = true := by
          rw [hk'.1.2, show p + 1 + 1 = p + 2 by omega, hk'.2]
          exact gluePair_of_pieces hc (by simp [adjPairs])
        rw [h p hg1, h (p + 1) hg2]
      · have : (K.getD p .EOF == k1 && K.getD (p + 1) .EOF == k2 && K.getD (p + 2) .EOF == k3) = false := by
          simpa using hk
        simp only [this, Bool.false_and]
    · rfl

/-- `s'` is `s` with other joint bits outside the glue positions -/
def JEq (s s' : P) : Prop := ∃ J', s' = { s with joint := J' } ∧ JAgree s.kinds s.joint J'

theorem JEq.symm {s s' : P} (h : JEq s s') : JEq s' s := by
  obtain ⟨J', rfl, hA⟩ := h
  exact ⟨s.joint, rfl, hA.symm⟩

/-- **joint-insensitivity**: a successful run is reproduced verbatim (same value, same state up to
the joint array) on every input with other joint bits outside the glue positions -/
structure JI {α} (x : G α) : Prop where
  run : ∀ s s' r, JEq s s' → x s = .ok r → ∃ t', x s' = .ok (r.1, t') ∧ JEq r.2 t'

theorem JI.bind {α β} {x : G α} {f : α → G β} (hx : JI x) (hf : ∀ a, JI (f a)) : JI (x >>= f) := by
  refine ⟨fun s s' r hA h => ?_⟩
  obtain ⟨a, s1, h1, h2⟩ := (G.bind_ok x f s r).mp h
  obtain ⟨t1, ht1, hA1⟩ := hx.run s s' (a, s1) hA h1
  obtain ⟨t2, ht2, hA2⟩ := (hf a).run s1 t1 r hA1 h2
  exact ⟨t2, (G.bind_ok x f s' _).mpr ⟨a, t1, ht1, ht2⟩, hA2⟩

theorem JI.pure {α} (a : α) : JI (pure a : G α) := by
  refine ⟨fun s s' r hA h => ?_⟩
  simp at h; subst h
  exact ⟨s', by simp, hA⟩

theorem JI.fail {α} (o : Outcome) : JI (fail o : G α) := ⟨fun _ _ _ _ h => by simp at h⟩
theorem JI.panic {α} (site : String) : JI (panic site : G α) := ⟨fun _ _ _ _ h => by simp at h⟩

theorem JI.ite {α} (c : Prop) [Decidable c] {x y : G α} (hx : JI x) (hy : JI y) :
    JI (if c then x else y) := by
  split <;> assumption

theorem ji_andM {x y : G Bool} (hx : JI x) (hy : JI y) : JI (x <&&> y) := by
  unfold _root_.andM
  refine JI.bind hx ?_
  intro b; cases b
  · exact JI.pure _
  · exact hy

theorem ji_orM {x y : G Bool} (hx : JI x) (hy : JI y) : JI (x <||> y) := by
  unfold _root_.orM
  refine JI.bind hx ?_
  intro b; cases b
  · exact hy
  · exact JI.pure _

theorem ji_map {α β} (f : α → β) {x : G α} (hx : JI x) : JI (f <$> x) := by
  refine ⟨fun s s' r hA h => ?_⟩
  rw [G.map_ok] at h
  obtain ⟨a, s1, h1, h2⟩ := h
  subst h2
  obtain ⟨t1, ht1, hA1⟩ := hx.run s s' (a, s1) hA h1
  exact ⟨t1, (G.map_ok f x s' _).mpr ⟨a, t1, ht1, rfl⟩, hA1⟩

theorem ji_notM {x : G Bool} (hx : JI x) : JI (notM x) := by
  unfold _root_.notM
  exact ji_map _ hx

/-- a primitive whose closed form does not mention the joint array and keeps the input -/
theorem JI.of_closed {α} {x : G α} (F : P → Except Outcome (α × P))
    (hx : ∀ s, x s = F s)
    (hF : ∀ s J' r, F s = .ok r →
      F { s with joint := J' } = .ok (r.1, { r.2 with joint := J' }) ∧ r.2.kinds = s.kinds ∧ r.2.joint = s.joint) :
    JI x := by
  refine ⟨fun s s' r hA h => ?_⟩
  obtain ⟨J', rfl, hJ⟩ := hA
  rw [hx] at h ⊢
  obtain ⟨h1, h2, h3⟩ := hF s J' r h
  exact ⟨_, h1, J', rfl, by rw [h2, h3]; exact hJ⟩

theorem current_ji : JI current := by
  refine ⟨fun s s' r hA h => ?_⟩
  obtain ⟨J', rfl, hJ⟩ := hA
  rw [current_eq] at h ⊢
  injection h with h; subst h
  exact ⟨_, rfl, J', rfl, hJ⟩

theorem at_ji (k : SyntaxKind) : JI (at' k) := by
  refine ⟨fun s s' r hA h => ?_⟩
  obtain ⟨J', rfl, hJ⟩ := hA
  rw [at_total] at h ⊢
  injection h with h; subst h
  refine ⟨_, ?_, J', rfl, hJ⟩
  show Except.ok (atF k s.kinds J' s.pos, _) = _
  rw [← atF_jagree k s.kinds s.joint J' s.pos hJ]

theorem atTs_ji (ts : TokenSet) : JI (atTs ts) := by
  refine ⟨fun s s' r hA h => ?_⟩
  obtain ⟨J', rfl, hJ⟩ := hA
  rw [atTs_eq] at h ⊢
  injection h with h; subst h
  exact ⟨_, rfl, J', rfl, hJ⟩

theorem nth_ji (n : Nat) : JI (nth n) := by
  refine ⟨fun s s' r hA h => ?_⟩
  obtain ⟨J', rfl, hJ⟩ := hA
  rw [nth_eq] at h ⊢
  split at h
  · cases h
  · rename_i h1
    split at h
    · cases h
    · rename_i h2
      injection h with h; subst h
      refine ⟨_, ?_, J', rfl, hJ⟩
      simp only [h1, if_false]
      have : ¬ ({ s with joint := J' } : P).steps > ({ s with joint := J' } : P).stepLimit := h2
      simp only [this, if_false]
      rfl

theorem start_ji : JI start := by
  refine ⟨fun s s' r hA h => ?_⟩
  obtain ⟨J', rfl, hJ⟩ := hA
  rw [start_eq] at h ⊢
  split at h
  · cases h
  · rename_i h1
    injection h with h; subst h
    have : ({ s with joint := J' } : P).hookTrip = s.hookTrip := rfl
    simp only [this, h1, if_false]
    exact ⟨_, rfl, J', rfl, hJ⟩

theorem error_ji (msg : String) : JI (error msg) := by
  refine ⟨fun s s' r hA h => ?_⟩
  obtain ⟨J', rfl, hJ⟩ := hA
  rw [error_eq] at h ⊢
  split at h
  · cases h
  · rename_i h1
    injection h with h; subst h
    have : ({ s with joint := J' } : P).hookTrip = s.hookTrip := rfl
    simp only [this, h1, if_false]
    exact ⟨_, rfl, J', rfl, hJ⟩

theorem eat_ji (k : SyntaxKind) : JI (eat k) := by
  refine ⟨fun s s' r hA h => ?_⟩
  obtain ⟨J', rfl, hJ⟩ := hA
  by_cases hk : (k == .EOF) = true
  · unfold eat at h; simp only [hk, if_true] at h; cases h
  · have hk' : (k == .EOF) = false := by simpa using hk
    rw [eat_eq' k hk'] at h ⊢
    have e : atF k ({ s with joint := J' } : P).kinds ({ s with joint := J' } : P).joint
        ({ s with joint := J' } : P).pos = atF k s.kinds s.joint s.pos :=
      (atF_jagree k s.kinds s.joint J' s.pos hJ).symm
    rw [e]
    split at h
    · rename_i ha
      injection h with h; subst h
      simp only [ha, if_true]
      exact ⟨_, rfl, J', rfl, hJ⟩
    · rename_i ha
      injection h with h; subst h
      simp only [ha, if_false]
      exact ⟨_, rfl, J', rfl, hJ⟩

theorem bumpAny_ji : JI bumpAny := by
  refine ⟨fun s s' r hA h => ?_⟩
  obtain ⟨J', rfl, hJ⟩ := hA
  rw [bumpAny_eq] at h ⊢
  split at h
  · rename_i h1
    injection h with h; subst h
    have : (({ s with joint := J' } : P).kindAt ({ s with joint := J' } : P).pos == SyntaxKind.EOF) = true := h1
    simp only [this, if_true]
    exact ⟨_, rfl, J', rfl, hJ⟩
  · rename_i h1
    injection h with h; subst h
    have : ¬ (({ s with joint := J' } : P).kindAt ({ s with joint := J' } : P).pos == SyntaxKind.EOF) = true := h1
    simp only [this, if_false]
    exact ⟨_, rfl, J', rfl, hJ⟩

theorem complete_ji (m : Marker) (kind : SyntaxKind) : JI (m.complete kind) := by
  refine ⟨fun s s' r hA h => ?_⟩
  obtain ⟨J', rfl, hJ⟩ := hA
  rw [complete_eq] at h ⊢
  have e1 : ({ s with joint := J' } : P).events = s.events := rfl
  have e2 : ({ s with joint := J' } : P).hookTrip = s.hookTrip := rfl
  simp only [e1, e2]
  split at h
  · rename_i x k0 fp heq
    try simp only [heq]
    split at h
    · cases h
    · rename_i h1
      split at h
      · cases h
      · rename_i h2
        split at h
        · cases h
        · rename_i h3
          injection h with h; subst h
          simp only [h1, h2, h3, if_false]
          exact ⟨_, rfl, J', rfl, hJ⟩
  · cases h

theorem abandon_ji (m : Marker) : JI m.abandon := by
  refine ⟨fun s s' r hA h => ?_⟩
  obtain ⟨J', rfl, hJ⟩ := hA
  rw [abandon_eq] at h ⊢
  have e1 : ({ s with joint := J' } : P).events = s.events := rfl
  have e2 : ({ s with joint := J' } : P).protectedPos = s.protectedPos := rfl
  simp only [e1, e2]
  split at h
  · cases h
  · rename_i h1
    split at h
    · cases h
    · rename_i h2
      split at h
      · rename_i h3
        split at h
        · rename_i x k fp heq
          split at h
          · rename_i h4
            injection h with h; subst h
            simp only [h1, h2, h3, heq, h4, if_true, if_false]
            exact ⟨_, rfl, J', rfl, hJ⟩
          · cases h
        · cases h
      · rename_i h3
        injection h with h; subst h
        simp only [h1, h2, h3, if_false]
        exact ⟨_, rfl, J', rfl, hJ⟩

theorem precede_ji (cm : CompletedMarker) : JI cm.precede := by
  refine ⟨fun s s' r hA h => ?_⟩
  obtain ⟨J', rfl, hJ⟩ := hA
  rw [precede_eq] at h ⊢
  have e1 : ({ s with joint := J' } : P).events = s.events := rfl
  have e2 : ({ s with joint := J' } : P).hookTrip = s.hookTrip := rfl
  have e3 : ({ s with joint := J' } : P).started.events = s.started.events := rfl
  simp only [e1, e2, e3]
  split at h
  · cases h
  · rename_i h1
    simp only [h1, if_false]
    split at h
    · rename_i x k fp heq
      try simp only [heq]
      split at h
      · cases h
      · rename_i h2
        injection h with h; subst h
        simp only [h2, if_false]
        exact ⟨_, rfl, J', rfl, hJ⟩
    · cases h

theorem extendTo_ji (cm : CompletedMarker) (m : Marker) : JI (cm.extendTo m) := by
  refine ⟨fun s s' r hA h => ?_⟩
  obtain ⟨J', rfl, hJ⟩ := hA
  rw [extendTo_eq] at h ⊢
  have e1 : ({ s with joint := J' } : P).events = s.events := rfl
  simp only [e1]
  split at h
  · rename_i x k fp heq
    try simp only [heq]
    split at h
    · cases h
    · rename_i h1
      simp only [h1, if_false]
      split at h
      · rename_i x2 k2 fp2 heq2
        try simp only [heq2]
        split at h
        · cases h
        · rename_i h2
          injection h with h; subst h
          simp only [h2, if_false]
          exact ⟨_, rfl, J', rfl, hJ⟩
      · cases h
  · cases h

/-! ### proof search of the generated file -/

syntax "ji_lemma" : tactic
macro_rules | `(tactic| ji_lemma) => `(tactic| fail "no lemma")
syntax "ji_ih" : tactic
macro_rules | `(tactic| ji_ih) => `(tactic| fail "no ih")

macro "ji_step" : tactic => `(tactic| first
  | with_reducible exact JI.pure _
  | with_reducible exact JI.panic _
  | with_reducible exact JI.fail _
  | with_reducible exact current_ji
  | with_reducible exact at_ji _
  | with_reducible exact atTs_ji _
  | with_reducible exact nth_ji _
  | with_reducible exact start_ji
  | with_reducible exact error_ji _
  | with_reducible exact eat_ji _
  | with_reducible exact bumpAny_ji
  | with_reducible exact complete_ji _ _
  | with_reducible exact abandon_ji _
  | with_reducible exact precede_ji _
  | with_reducible exact extendTo_ji _ _
  | ji_lemma
  | ji_ih
  | with_reducible apply JI.bind
  | with_reducible apply ji_andM
  | with_reducible apply ji_orM
  | with_reducible apply ji_notM
  | intro _
  | with_reducible apply JI.ite
  | split
  | dsimp only)

macro "ji" : tactic => `(tactic| repeat' ji_step)

theorem bump_ji (k : SyntaxKind) : JI (bump k) := by unfold bump; ji
macro_rules | `(tactic| ji_lemma) => `(tactic| with_reducible exact bump_ji _)
theorem expect_ji (k : SyntaxKind) : JI (expect k) := by unfold expect; ji
macro_rules | `(tactic| ji_lemma) => `(tactic| with_reducible exact expect_ji _)
theorem errRecover_ji (msg : String) (rec : TokenSet) : JI (errRecover msg rec) := by unfold errRecover; ji
macro_rules | `(tactic| ji_lemma) => `(tactic| with_reducible exact errRecover_ji _ _)
theorem errAndBump_ji (msg : String) : JI (errAndBump msg) := errRecover_ji msg []
macro_rules | `(tactic| ji_lemma) => `(tactic| with_reducible exact errAndBump_ji _)

end Oq3.Parser
