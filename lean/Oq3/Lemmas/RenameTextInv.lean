/-
Parser-state invariant `TokID` (for C17, renaming through lexer and parser): the token events
account for exactly the raw tokens consumed so far (`sumTok = pos`), and every token event
`token k n` pushed at raw-token cursor `c` satisfies `tokId1`: if `n = 1` its kind is the kind of
raw token `c`; otherwise (a glued composite operator) neither `k` nor any of the glued raw tokens is
an `IDENT`.

Primitive lemmas in the `Pres` style of `Lemmas/ParserInv.lean` / `Lemmas/TokKinds.lean`; the
grammar functions are lifted by the generated `Lemmas/RenameTextGrammar.lean`
(tools/gen_grammar_tokid.py).
-/
import Oq3.Lemmas.SafeTok
import Oq3.Lemmas.ParserInv
import Oq3.Lemmas.RenameTextDefs
set_option linter.unusedVariables false
set_option linter.unusedSimpArgs false

namespace Oq3.Parser
open Oq3.Gen Oq3.RenameText

/-! ### both measures only look at the token events -/

/-- the token events of an event list -/
def tokOnly : List Ev → List (SyntaxKind × Nat)
  | [] => []
  | .token k n :: es => (k, n) :: tokOnly es
  | _ :: es => tokOnly es

def sumT : List (SyntaxKind × Nat) → Nat
  | [] => 0
  | (_, n) :: ts => n + sumT ts

def tokIdT (K : Array SyntaxKind) : Nat → List (SyntaxKind × Nat) → Bool
  | _, [] => true
  | c, (k, n) :: ts => tokId1 (fun i => K.getD i .EOF) c k n && tokIdT K (c + n) ts

theorem sumTok_tokOnly (l : List Ev) : sumTok l = sumT (tokOnly l) := by
  induction l with
  | nil => rfl
  | cons e es ih => cases e <;> simp [sumTok, tokOnly, sumT, ih]

theorem tokIdE_tokOnly (K : Array SyntaxKind) (c : Nat) (l : List Ev) :
    tokIdE K c l = tokIdT K c (tokOnly l) := by
  induction l generalizing c with
  | nil => rfl
  | cons e es ih => cases e <;> simp [tokIdE, tokOnly, tokIdT, ih]

theorem tokOnly_append (a b : List Ev) : tokOnly (a ++ b) = tokOnly a ++ tokOnly b := by
  induction a with
  | nil => rfl
  | cons e es ih => cases e <;> simp [tokOnly, ih]

theorem tokOnly_set_start (l : List Ev) (t : Nat) (k k' : SyntaxKind) (fp fp' : Option Nat)
    (h : l[t]? = some (.start k fp)) : tokOnly (l.set t (.start k' fp')) = tokOnly l := by
  induction l generalizing t with
  | nil => simp at h
  | cons e es ih =>
    cases t with
    | zero => simp at h; subst h; simp [List.set, tokOnly]
    | succ t => simp at h; cases e <;> simp [List.set, tokOnly, ih t h]

theorem tokIdE_append (K : Array SyntaxKind) (c : Nat) (a b : List Ev) :
    tokIdE K c (a ++ b) = (tokIdE K c a && tokIdE K (c + sumTok a) b) := by
  induction a generalizing c with
  | nil => simp [tokIdE, sumTok]
  | cons e es ih =>
    cases e with
    | token k n =>
      simp only [List.cons_append, tokIdE, sumTok, ih, Bool.and_assoc]
      rw [show c + n + sumTok es = c + (n + sumTok es) by omega]
    | start k fp => simp [tokIdE, sumTok, ih]
    | finish => simp [tokIdE, sumTok, ih]
    | error m => simp [tokIdE, sumTok, ih]

/-! ### the invariant -/

/-- the token events account for the consumed raw tokens, and each of them passes `tokId1` -/
def TokID (s : P) : Prop :=
  sumTok s.events.toList = s.pos ∧ tokIdE s.kinds 0 s.events.toList = true

/-- `TokID` only looks at the kinds, the position and the token events -/
theorem TokID.congr {s s' : P} (h : TokID s) (h1 : s'.kinds = s.kinds) (hp : s'.pos = s.pos)
    (h2 : tokOnly s'.events.toList = tokOnly s.events.toList) : TokID s' := by
  obtain ⟨ha, hb⟩ := h
  rw [sumTok_tokOnly] at ha
  rw [tokIdE_tokOnly] at hb
  refine ⟨?_, ?_⟩
  · rw [sumTok_tokOnly, h2, hp]; exact ha
  · rw [tokIdE_tokOnly, h2, h1]; exact hb

/-- pushing an event that is not a token -/
theorem TokID.push {s s' : P} (h : TokID s) (e : Ev) (he : tokOnly [e] = []) (h1 : s'.kinds = s.kinds)
    (hp : s'.pos = s.pos) (h2 : s'.events = s.events.push e) : TokID s' := by
  refine h.congr h1 hp ?_
  rw [h2, Array.toList_push, tokOnly_append, he, List.append_nil]

/-- replacing a `Start` event by a `Start` event -/
theorem TokID.set {s s' : P} (h : TokID s) (i : Nat) (k k0 : SyntaxKind) (fp fp0 : Option Nat)
    (hi : s.events[i]? = some (.start k0 fp0)) (h1 : s'.kinds = s.kinds) (hp : s'.pos = s.pos)
    (h2 : s'.events = s.events.set! i (.start k fp)) : TokID s' := by
  refine h.congr h1 hp ?_
  rw [h2, Array.set!_eq_setIfInBounds, Array.toList_setIfInBounds]
  exact tokOnly_set_start _ _ _ _ _ _ (by simpa using hi)

/-- pushing a token event that passes the check at the current cursor -/
theorem TokID.pushTok {s s' : P} (h : TokID s) (k : SyntaxKind) (n : Nat)
    (hk : tokId1 (fun i => s.kinds.getD i .EOF) s.pos k n = true) (h1 : s'.kinds = s.kinds)
    (hp : s'.pos = s.pos + n) (h2 : s'.events = s.events.push (.token k n)) : TokID s' := by
  obtain ⟨ha, hb⟩ := h
  refine ⟨?_, ?_⟩
  · rw [h2, Array.toList_push, sumTok_append, ha, hp]; simp [sumTok]
  · rw [h2, Array.toList_push, tokIdE_append, h1, hb, ha]
    simp only [tokIdE, Nat.zero_add, Bool.and_true]; exact hk

/-! ### table facts: no composite operator involves an `IDENT` -/

theorem composite_not_ident :
    ∀ p ∈ Ops.compositeTable, p.1 ≠ SyntaxKind.IDENT ∧ ∀ q ∈ p.2, q ≠ SyntaxKind.IDENT := by decide

theorem compositePieces_not_ident {k : SyntaxKind} {ps : List SyntaxKind}
    (h : compositePieces k = some ps) : k ≠ .IDENT ∧ ∀ q ∈ ps, q ≠ SyntaxKind.IDENT := by
  simp only [compositePieces, Option.map_eq_some_iff] at h
  obtain ⟨p, hp, hps⟩ := h
  have hm := List.mem_of_find?_eq_some hp
  have hk := List.find?_some hp
  have : p.1 = k := by simpa using hk
  rw [← this, ← hps]; exact composite_not_ident p hm

/-- a kind that `at` accepts passes the check with the number of raw tokens `eat` consumes -/
theorem atF_tokId1 {k : SyntaxKind} {K : Array SyntaxKind} {J : Array Bool} {p : Nat}
    (ha : atF k K J p = true) : tokId1 (fun i => K.getD i .EOF) p k (eatRawTokens k) = true := by
  cases hc : compositePieces k with
  | none =>
    rw [atF_simple hc] at ha
    rw [tablesOK.2 k hc]
    simpa [tokId1] using ha
  | some ps =>
    obtain ⟨hlen, heat, _⟩ := tablesOK.1 k ps hc
    obtain ⟨hk, hps⟩ := compositePieces_not_ident hc
    rw [heat]
    rcases ps with _ | ⟨k1, _ | ⟨k2, _ | ⟨k3, _ | ⟨k4, rest⟩⟩⟩⟩
    · simp at hlen
    · simp at hlen
    · simp only [atF, hc, Bool.and_eq_true, beq_iff_eq] at ha
      obtain ⟨⟨a1, a2⟩, _⟩ := ha
      have n1 := hps k1 (by simp)
      have n2 := hps k2 (by simp)
      subst a1 a2
      simp [tokId1, List.range_succ, hk]
      exact ⟨by simpa using n1, by simpa using n2⟩
    · simp only [atF, hc, Bool.and_eq_true, beq_iff_eq] at ha
      obtain ⟨⟨⟨⟨a1, a2⟩, a3⟩, _⟩, _⟩ := ha
      have n1 := hps k1 (by simp)
      have n2 := hps k2 (by simp)
      have n3 := hps k3 (by simp)
      subst a1 a2 a3
      simp [tokId1, List.range_succ, hk]
      exact ⟨by simpa using n1, by simpa using n2, by simpa using n3⟩
    · simp at hlen

/-! ### the primitives -/

section
variable {α : Type}

theorem nth_ti (n : Nat) : Pres TokID (nth n) := by
  refine ⟨fun s r hs h => ?_⟩
  rw [nth_eq] at h
  split at h
  · cases h
  · split at h
    · cases h
    · injection h with h; subst h; exact hs.congr rfl rfl rfl

theorem start_ti : Pres TokID start := by
  refine ⟨fun s r hs h => ?_⟩
  rw [start_eq] at h
  split at h
  · cases h
  · injection h with h; subst h; exact hs.push Ev.tombstone rfl rfl rfl rfl

theorem error_ti (msg : String) : Pres TokID (error msg) := by
  refine ⟨fun s r hs h => ?_⟩
  rw [error_eq] at h
  split at h
  · cases h
  · injection h with h; subst h; exact hs.push (.error msg) rfl rfl rfl rfl

theorem eat_ti (k : SyntaxKind) : Pres TokID (eat k) := by
  refine ⟨fun s r hs h => ?_⟩
  by_cases hk : (k == .EOF) = true
  · unfold eat at h; simp only [hk, if_true] at h; cases h
  · have hk' : (k == .EOF) = false := by simpa using hk
    rw [eat_eq' k hk'] at h
    split at h
    · rename_i ha
      injection h with h; subst h
      exact hs.pushTok k _ (atF_tokId1 ha) rfl rfl rfl
    · injection h with h; subst h; exact hs

theorem bump_ti (k : SyntaxKind) : Pres TokID (bump k) := by
  unfold bump
  refine Pres.bind (eat_ti k) ?_
  intro b
  split
  · exact Pres.panic _
  · exact Pres.pure _

theorem bumpAny_ti : Pres TokID bumpAny := by
  refine ⟨fun s r hs h => ?_⟩
  rw [bumpAny_eq] at h
  split at h
  · injection h with h; subst h; exact hs
  · injection h with h; subst h
    exact hs.pushTok _ 1 (by simp [tokId1, P.kindAt]) rfl rfl rfl

theorem expect_ti (k : SyntaxKind) : Pres TokID (expect k) := by
  unfold expect
  refine Pres.bind (eat_ti k) ?_
  intro b
  split
  · exact Pres.pure _
  · exact Pres.bind (error_ti _) (fun _ => Pres.pure _)

theorem complete_ti (m : Marker) (kind : SyntaxKind) : Pres TokID (m.complete kind) := by
  refine ⟨fun s r hs h => ?_⟩
  rw [complete_eq] at h
  split at h
  · rename_i k0 fp heq
    split at h
    · cases h
    · split at h
      · cases h
      · split at h
        · cases h
        · injection h with h; subst h
          have h1 : TokID (s.slotSet m.pos kind fp) := hs.set m.pos kind k0 fp fp heq rfl rfl rfl
          exact h1.push .finish rfl rfl rfl rfl
  · cases h

theorem abandon_ti (m : Marker) : Pres TokID m.abandon := by
  refine ⟨fun s r hs h => ?_⟩
  rw [abandon_eq] at h
  split at h
  · cases h
  · split at h
    · cases h
    · split at h
      · split at h
        · rename_i kb fpb hback
          split at h
          · injection h with h; subst h
            have hback' : s.events.toList.getLast? = some (.start kb fpb) := by
              simpa [Array.back?] using hback
            have hl := dropLast_eq _ _ hback'
            refine hs.congr rfl rfl ?_
            simp only [Array.toList_pop]
            conv => rhs; rw [hl, tokOnly_append]
            simp [tokOnly]
          · cases h
        · cases h
      · injection h with h; subst h; exact hs.congr rfl rfl rfl

theorem precede_ti (cm : CompletedMarker) : Pres TokID cm.precede := by
  refine ⟨fun s r hs h => ?_⟩
  rw [precede_eq] at h
  split at h
  · cases h
  · split at h
    · rename_i k fp0 heq
      split at h
      · cases h
      · injection h with h; subst h
        have h1 : TokID s.started := hs.push Ev.tombstone rfl rfl rfl rfl
        exact h1.set _ _ _ _ _ heq rfl rfl rfl
    · cases h

theorem extendTo_ti (cm : CompletedMarker) (m : Marker) : Pres TokID (cm.extendTo m) := by
  refine ⟨fun s r hs h => ?_⟩
  rw [extendTo_eq] at h
  split at h
  · rename_i k fp0 heq
    split at h
    · cases h
    · split at h
      · split at h
        · cases h
        · injection h with h; subst h
          exact hs.set _ _ _ _ _ heq rfl rfl rfl
      · cases h
  · cases h

theorem errRecover_ti (msg : String) (rec : TokenSet) : Pres TokID (errRecover msg rec) := by
  unfold errRecover
  refine Pres.bind current_readOnly.pres ?_
  intro k
  split
  · exact Pres.bind (error_ti _) (fun _ => Pres.pure _)
  · refine Pres.bind (atTs_readOnly _).pres ?_
    intro b
    split
    · exact Pres.bind (error_ti _) (fun _ => Pres.pure _)
    · refine Pres.bind start_ti ?_
      intro m
      refine Pres.bind (error_ti _) ?_
      intro _
      refine Pres.bind bumpAny_ti ?_
      intro _
      exact Pres.bind (complete_ti _ _) (fun _ => Pres.pure _)

theorem errAndBump_ti (msg : String) : Pres TokID (errAndBump msg) := errRecover_ti msg []

end

end Oq3.Parser
