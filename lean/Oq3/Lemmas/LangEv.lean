/-
C04 for a recursive reference language, part 1: DEFINITIONS.

A small OpenQASM 3 fragment with NESTING — expressions (`Oq3.PrattEv.E`, arbitrary depth) inside
statements, statement lists inside the blocks of `if` / `while` / `for` / `gate` / `def` — together with its print
as parser input (`toksL`), the event list the model grammar emits for it (`evsL`, compositional,
with `Oq3.PrattEv.evs` inside) and the pre-order node sequence `process` makes of it (`nodesL`).

Identifiers and literals are token KINDS (`IDENT`, `INT_NUMBER`), as everywhere in the parser
model; a "name" therefore carries no data.
-/
import Oq3.Lemmas.PrattEv

namespace Oq3.LangEv
open Oq3.Gen Oq3.Parser Oq3.PrattEv

/-- scalar types of declarations and loop variables -/
inductive Ty | int | uint | float | angle | bit | bool
  deriving DecidableEq, Repr, Inhabited

def Ty.kind : Ty → SyntaxKind
  | .int => .INT_TY | .uint => .UINT_TY | .float => .FLOAT_TY | .angle => .ANGLE_TY
  | .bit => .BIT_TY | .bool => .BOOL_TY

/-- may the type take a designator `[width]`? (`type_can_have_designator`) -/
def Ty.wide : Ty → Bool
  | .bool => false
  | _ => true

/-- parameter types of subroutines: a scalar type or `qubit` -/
inductive PTy | cls (ty : Ty) | qubit
  deriving DecidableEq, Repr, Inhabited

def PTy.kind : PTy → SyntaxKind
  | .cls ty => ty.kind
  | .qubit => .QUBIT_KW

mutual
/-- statements -/
inductive Stmt
  /-- `ty x;` `ty[w] x;` `ty x = e;` `ty[w] x = e;` -/
  | decl (ty : Ty) (w : Option E) (init : Option E)
  /-- `x = rhs;` — `rhs` must not be a bare binary expression (F06), see `WF` -/
  | assign (rhs : E)
  /-- `e;` -/
  | exprS (e : E)
  /-- `g q0, …, q_nq;` (no arguments) or `g(a0, …) q0, …, q_nq;` -/
  | gate (args : List E) (nq : Nat)
  /-- `measure q;` -/
  | measure
  /-- `x = measure q;` -/
  | assignMeasure
  /-- `reset q;` -/
  | reset
  /-- `barrier q0, …, q_nq;` -/
  | barrier (nq : Nat)
  | brk | cont | endS
  /-- `if (c) { thn }` -/
  | ifS (c : E) (thn : Stmts)
  /-- `if (c) { thn } else { els }` -/
  | ifElse (c : E) (thn els : Stmts)
  /-- `while (c) { body }` -/
  | whileS (c : E) (body : Stmts)
  /-- `for ty x in [lo:hi] { body }` -/
  | forS (ty : Ty) (lo hi : E) (body : Stmts)
  /-- `gate g q0, …, q_nq { body }` (`params = none`) or `gate g(p0, …, p_k) q0, …, q_nq { body }` (`params = some k`) -/
  | gateDef (params : Option Nat) (nq : Nat) (body : Stmts)
  /-- `def f(ty x, …) { body }` / `def f(ty x, …) -> ty { body }` -/
  | defS (params : List PTy) (ret : Option Ty) (body : Stmts)
  /-- `return;` / `return e;` -/
  | ret (e : Option E)
/-- statement lists -/
inductive Stmts
  | nil
  | cons (s : Stmt) (ss : Stmts)
end

/-! ### print -/

abbrev Tok := SyntaxKind × Bool

def tk (k : SyntaxKind) : Tok := (k, false)

/-- `q0, …, q_n` -/
def qubitToks : Nat → List Tok
  | 0 => [tk .IDENT]
  | n + 1 => tk .IDENT :: tk .COMMA :: qubitToks n

/-- `a0, a1, …` -/
def argToks : List E → List Tok
  | [] => []
  | [a] => toks a
  | a :: as => toks a ++ (tk .COMMA :: argToks as)

/-- `ty0 x0, ty1 x1, …` -/
def typedToks : List PTy → List Tok
  | [] => []
  | [p] => [tk p.kind, tk .IDENT]
  | p :: ps => tk p.kind :: tk .IDENT :: tk .COMMA :: typedToks ps

/-- `-> ty` (the arrow is the joint pair `-` `>`) -/
def retToks : Option Ty → List Tok
  | none => []
  | some ty => [(.MINUS, true), tk .R_ANGLE, tk ty.kind]

def tyToks (ty : Ty) (w : Option E) : List Tok :=
  match w with
  | none => [tk ty.kind]
  | some w => tk ty.kind :: tk .L_BRACK :: (toks w ++ [tk .R_BRACK])

mutual
def toksS : Stmt → List Tok
  | .decl ty w none => tyToks ty w ++ [tk .IDENT, tk .SEMICOLON]
  | .decl ty w (some e) => tyToks ty w ++ (tk .IDENT :: tk .EQ :: (toks e ++ [tk .SEMICOLON]))
  | .assign rhs => tk .IDENT :: tk .EQ :: (toks rhs ++ [tk .SEMICOLON])
  | .exprS e => toks e ++ [tk .SEMICOLON]
  | .gate [] nq => tk .IDENT :: (qubitToks nq ++ [tk .SEMICOLON])
  | .gate (a :: as) nq =>
    tk .IDENT :: tk .L_PAREN :: (argToks (a :: as) ++ (tk .R_PAREN :: (qubitToks nq ++ [tk .SEMICOLON])))
  | .measure => [tk .MEASURE_KW, tk .IDENT, tk .SEMICOLON]
  | .assignMeasure => [tk .IDENT, tk .EQ, tk .MEASURE_KW, tk .IDENT, tk .SEMICOLON]
  | .reset => [tk .RESET_KW, tk .IDENT, tk .SEMICOLON]
  | .barrier nq => tk .BARRIER_KW :: (qubitToks nq ++ [tk .SEMICOLON])
  | .brk => [tk .BREAK_KW, tk .SEMICOLON]
  | .cont => [tk .CONTINUE_KW, tk .SEMICOLON]
  | .endS => [tk .END_KW, tk .SEMICOLON]
  | .ifS c thn => tk .IF_KW :: tk .L_PAREN :: (toks c ++ (tk .R_PAREN :: tk .L_CURLY :: (toksL thn ++ [tk .R_CURLY])))
  | .ifElse c thn els =>
    tk .IF_KW :: tk .L_PAREN :: (toks c ++ (tk .R_PAREN :: tk .L_CURLY :: (toksL thn ++
      (tk .R_CURLY :: tk .ELSE_KW :: tk .L_CURLY :: (toksL els ++ [tk .R_CURLY])))))
  | .whileS c body =>
    tk .WHILE_KW :: tk .L_PAREN :: (toks c ++ (tk .R_PAREN :: tk .L_CURLY :: (toksL body ++ [tk .R_CURLY])))
  | .forS ty lo hi body =>
    tk .FOR_KW :: tk ty.kind :: tk .IDENT :: tk .IN_KW :: tk .L_BRACK :: (toks lo ++ (tk .COLON :: (toks hi ++
      (tk .R_BRACK :: tk .L_CURLY :: (toksL body ++ [tk .R_CURLY])))))
  | .gateDef none nq body =>
    tk .GATE_KW :: tk .IDENT :: (qubitToks nq ++ (tk .L_CURLY :: (toksL body ++ [tk .R_CURLY])))
  | .gateDef (some k) nq body =>
    tk .GATE_KW :: tk .IDENT :: tk .L_PAREN :: (qubitToks k ++ (tk .R_PAREN :: (qubitToks nq ++
      (tk .L_CURLY :: (toksL body ++ [tk .R_CURLY])))))
  | .defS ps ret body =>
    tk .DEF_KW :: tk .IDENT :: tk .L_PAREN :: (typedToks ps ++ (tk .R_PAREN :: (retToks ret ++
      (tk .L_CURLY :: (toksL body ++ [tk .R_CURLY])))))
  | .ret none => [tk .RETURN_KW, tk .SEMICOLON]
  | .ret (some e) => tk .RETURN_KW :: (toks e ++ [tk .SEMICOLON])
def toksL : Stmts → List Tok
  | .nil => []
  | .cons s ss => toksS s ++ toksL ss
end

/-! ### events -/

def qubitEvs : Nat → List Ev
  | 0 => [.start .IDENTIFIER none, .token .IDENT 1, .finish]
  | n + 1 => .start .IDENTIFIER none :: .token .IDENT 1 :: .finish :: .token .COMMA 1 :: qubitEvs n

def argEvs : List E → List Ev
  | [] => []
  | [a] => evs a
  | a :: as => evs a ++ (.token .COMMA 1 :: argEvs as)

def paramEvs : Nat → List Ev
  | 0 => [.start .PARAM none, .token .IDENT 1, .finish]
  | n + 1 => .start .PARAM none :: .token .IDENT 1 :: .finish :: .token .COMMA 1 :: paramEvs n

def typedEvs : List PTy → List Ev
  | [] => []
  | [p] => [.start .TYPED_PARAM none, .start .SCALAR_TYPE none, .token p.kind 1, .finish, .start .NAME none,
            .token .IDENT 1, .finish, .finish]
  | p :: ps => .start .TYPED_PARAM none :: .start .SCALAR_TYPE none :: .token p.kind 1 :: .finish :: .start .NAME none ::
      .token .IDENT 1 :: .finish :: .finish :: .token .COMMA 1 :: typedEvs ps

def retEvs : Option Ty → List Ev
  | none => []
  | some ty => [.start .RETURN_SIGNATURE none, .token .THIN_ARROW 2, .start .SCALAR_TYPE none, .token ty.kind 1,
                .finish, .finish]

def tyEvs (ty : Ty) (w : Option E) : List Ev :=
  match w with
  | none => [.start .SCALAR_TYPE none, .token ty.kind 1, .finish]
  | some w =>
    .start .SCALAR_TYPE none :: .token ty.kind 1 :: .start .DESIGNATOR none :: .token .L_BRACK 1 ::
      (evs w ++ [.token .R_BRACK 1, .finish, .finish])

/-- `{ … }` around already computed events -/
def blockEvs (inner : List Ev) : List Ev :=
  .start .BLOCK_EXPR none :: .token .L_CURLY 1 :: (inner ++ [.token .R_CURLY 1, .finish])

/-- the `EXPR_STMT` wrapper that `stmt` puts around an expression by `precede` -/
def exprStmtTail : List Ev := [.start .EXPR_STMT none, .token .SEMICOLON 1, .finish]

mutual
def evsS : Stmt → List Ev
  | .decl ty w none =>
    .start .CLASSICAL_DECLARATION_STATEMENT none :: .start .TOMBSTONE none ::
      (tyEvs ty w ++ [.start .NAME none, .token .IDENT 1, .finish, .token .SEMICOLON 1, .finish])
  | .decl ty w (some e) =>
    .start .CLASSICAL_DECLARATION_STATEMENT none :: .start .TOMBSTONE none ::
      (tyEvs ty w ++ (.start .NAME none :: .token .IDENT 1 :: .finish :: .token .EQ 1 ::
        (evs e ++ [.token .SEMICOLON 1, .finish])))
  | .assign rhs =>
    tombLink :: .start .IDENTIFIER (some 3) :: .token .IDENT 1 :: .finish ::
      .start .ASSIGNMENT_STMT none :: .token .EQ 1 :: (evs rhs ++ [.token .SEMICOLON 1, .finish])
  | .exprS e => tombLink :: (body e (some (len e - 1 - rootOff e)) ++ exprStmtTail)
  | .gate [] nq =>
    tombLink :: .start .GATE_CALL_EXPR (some ((qubitEvs nq).length + 7)) :: .start .IDENTIFIER none ::
      .token .IDENT 1 :: .finish :: .start .QUBIT_LIST none :: (qubitEvs nq ++ (.finish :: .finish :: exprStmtTail))
  | .gate (a :: as) nq =>
    .start .TOMBSTONE (some 4) :: .start .IDENTIFIER (some 3) :: .token .IDENT 1 :: .finish ::
      .start .GATE_CALL_EXPR (some ((argEvs (a :: as)).length + (qubitEvs nq).length + 10)) ::
      .start .ARG_LIST none :: .start .EXPRESSION_LIST none :: .token .L_PAREN 1 ::
      (argEvs (a :: as) ++ (.token .R_PAREN 1 :: .finish :: .finish :: .start .QUBIT_LIST none ::
        (qubitEvs nq ++ (.finish :: .finish :: exprStmtTail))))
  | .measure =>
    tombLink :: .start .MEASURE_EXPRESSION (some 6) :: .token .MEASURE_KW 1 :: .start .IDENTIFIER none ::
      .token .IDENT 1 :: .finish :: .finish :: exprStmtTail
  | .assignMeasure =>
    [tombLink, .start .IDENTIFIER (some 3), .token .IDENT 1, .finish, .start .ASSIGNMENT_STMT none, .token .EQ 1,
     tombLink, .start .MEASURE_EXPRESSION none, .token .MEASURE_KW 1, .start .IDENTIFIER none, .token .IDENT 1,
     .finish, .finish, .token .SEMICOLON 1, .finish]
  | .reset =>
    [.start .RESET none, .token .RESET_KW 1, .start .IDENTIFIER none, .token .IDENT 1, .finish,
     .token .SEMICOLON 1, .finish]
  | .barrier nq =>
    .start .BARRIER none :: .token .BARRIER_KW 1 :: .start .QUBIT_LIST none ::
      (qubitEvs nq ++ [.finish, .token .SEMICOLON 1, .finish])
  | .brk => [.start .BREAK_STMT none, .token .BREAK_KW 1, .token .SEMICOLON 1, .finish]
  | .cont => [.start .CONTINUE_STMT none, .token .CONTINUE_KW 1, .token .SEMICOLON 1, .finish]
  | .endS => [.start .END_STMT none, .token .END_KW 1, .token .SEMICOLON 1, .finish]
  | .ifS c thn =>
    .start .IF_STMT none :: .token .IF_KW 1 :: .token .L_PAREN 1 ::
      (evs c ++ (.token .R_PAREN 1 :: (blockEvs (evsL thn) ++ [.finish])))
  | .ifElse c thn els =>
    .start .IF_STMT none :: .token .IF_KW 1 :: .token .L_PAREN 1 ::
      (evs c ++ (.token .R_PAREN 1 :: (blockEvs (evsL thn) ++ (.token .ELSE_KW 1 :: (blockEvs (evsL els) ++ [.finish])))))
  | .whileS c body =>
    .start .WHILE_STMT none :: .token .WHILE_KW 1 :: .token .L_PAREN 1 ::
      (evs c ++ (.token .R_PAREN 1 :: (blockEvs (evsL body) ++ [.finish])))
  | .forS ty lo hi body =>
    .start .FOR_STMT none :: .token .FOR_KW 1 :: .start .SCALAR_TYPE none :: .token ty.kind 1 :: .finish ::
      .start .NAME none :: .token .IDENT 1 :: .finish :: .token .IN_KW 1 :: .start .FOR_ITERABLE none ::
      .start .RANGE_EXPR none :: .token .L_BRACK 1 ::
      (evs lo ++ (.token .COLON 1 :: (evs hi ++ (.token .R_BRACK 1 :: .finish :: .finish ::
        (blockEvs (evsL body) ++ [.finish])))))
  | .gateDef none nq body =>
    .start .GATE none :: .token .GATE_KW 1 :: .start .NAME none :: .token .IDENT 1 :: .finish ::
      .start .PARAM_LIST none :: (paramEvs nq ++ (.finish :: (blockEvs (evsL body) ++ [.finish])))
  | .gateDef (some k) nq body =>
    .start .GATE none :: .token .GATE_KW 1 :: .start .NAME none :: .token .IDENT 1 :: .finish ::
      .start .PARAM_LIST none :: .token .L_PAREN 1 :: (paramEvs k ++ (.token .R_PAREN 1 :: .finish ::
        .start .PARAM_LIST none :: (paramEvs nq ++ (.finish :: (blockEvs (evsL body) ++ [.finish])))))
  | .defS ps ret body =>
    .start .DEF none :: .token .DEF_KW 1 :: .start .NAME none :: .token .IDENT 1 :: .finish ::
      .start .TYPED_PARAM_LIST none :: .token .L_PAREN 1 :: (typedEvs ps ++ (.token .R_PAREN 1 :: .finish ::
        (retEvs ret ++ (blockEvs (evsL body) ++ [.finish]))))
  | .ret none => tombLink :: .start .RETURN_EXPR (some 3) :: .token .RETURN_KW 1 :: .finish :: exprStmtTail
  | .ret (some e) =>
    tombLink :: .start .RETURN_EXPR (some (len e + 3)) :: .token .RETURN_KW 1 :: (evs e ++ (.finish :: exprStmtTail))
def evsL : Stmts → List Ev
  | .nil => []
  | .cons s ss => evsS s ++ evsL ss
end

/-- events of a whole program: `source_file` -/
def evsP (p : Stmts) : List Ev := .start .SOURCE_FILE none :: (evsL p ++ [.finish])

/-! ### nodes -/

def qubitNodes : Nat → List Step
  | 0 => [.enter .IDENTIFIER, .token .IDENT 1, .exit]
  | n + 1 => .enter .IDENTIFIER :: .token .IDENT 1 :: .exit :: .token .COMMA 1 :: qubitNodes n

def argNodes : List E → List Step
  | [] => []
  | [a] => nodes a
  | a :: as => nodes a ++ (.token .COMMA 1 :: argNodes as)

def paramNodes : Nat → List Step
  | 0 => [.enter .PARAM, .token .IDENT 1, .exit]
  | n + 1 => .enter .PARAM :: .token .IDENT 1 :: .exit :: .token .COMMA 1 :: paramNodes n

def typedNodes : List PTy → List Step
  | [] => []
  | [p] => [.enter .TYPED_PARAM, .enter .SCALAR_TYPE, .token p.kind 1, .exit, .enter .NAME, .token .IDENT 1, .exit, .exit]
  | p :: ps => .enter .TYPED_PARAM :: .enter .SCALAR_TYPE :: .token p.kind 1 :: .exit :: .enter .NAME ::
      .token .IDENT 1 :: .exit :: .exit :: .token .COMMA 1 :: typedNodes ps

def retNodes : Option Ty → List Step
  | none => []
  | some ty => [.enter .RETURN_SIGNATURE, .token .THIN_ARROW 2, .enter .SCALAR_TYPE, .token ty.kind 1, .exit, .exit]

def tyNodes (ty : Ty) (w : Option E) : List Step :=
  match w with
  | none => [.enter .SCALAR_TYPE, .token ty.kind 1, .exit]
  | some w =>
    .enter .SCALAR_TYPE :: .token ty.kind 1 :: .enter .DESIGNATOR :: .token .L_BRACK 1 ::
      (nodes w ++ [.token .R_BRACK 1, .exit, .exit])

def blockNodes (inner : List Step) : List Step :=
  .enter .BLOCK_EXPR :: .token .L_CURLY 1 :: (inner ++ [.token .R_CURLY 1, .exit])

mutual
def nodesS : Stmt → List Step
  | .decl ty w none =>
    .enter .CLASSICAL_DECLARATION_STATEMENT ::
      (tyNodes ty w ++ [.enter .NAME, .token .IDENT 1, .exit, .token .SEMICOLON 1, .exit])
  | .decl ty w (some e) =>
    .enter .CLASSICAL_DECLARATION_STATEMENT ::
      (tyNodes ty w ++ (.enter .NAME :: .token .IDENT 1 :: .exit :: .token .EQ 1 ::
        (nodes e ++ [.token .SEMICOLON 1, .exit])))
  | .assign rhs =>
    .enter .ASSIGNMENT_STMT :: .enter .IDENTIFIER :: .token .IDENT 1 :: .exit :: .token .EQ 1 ::
      (nodes rhs ++ [.token .SEMICOLON 1, .exit])
  | .exprS e => .enter .EXPR_STMT :: (nodes e ++ [.token .SEMICOLON 1, .exit])
  | .gate [] nq =>
    .enter .EXPR_STMT :: .enter .GATE_CALL_EXPR :: .enter .IDENTIFIER :: .token .IDENT 1 :: .exit ::
      .enter .QUBIT_LIST :: (qubitNodes nq ++ [.exit, .exit, .token .SEMICOLON 1, .exit])
  | .gate (a :: as) nq =>
    .enter .EXPR_STMT :: .enter .GATE_CALL_EXPR :: .enter .IDENTIFIER :: .token .IDENT 1 :: .exit ::
      .enter .ARG_LIST :: .enter .EXPRESSION_LIST :: .token .L_PAREN 1 ::
      (argNodes (a :: as) ++ (.token .R_PAREN 1 :: .exit :: .exit :: .enter .QUBIT_LIST ::
        (qubitNodes nq ++ [.exit, .exit, .token .SEMICOLON 1, .exit])))
  | .measure =>
    [.enter .EXPR_STMT, .enter .MEASURE_EXPRESSION, .token .MEASURE_KW 1, .enter .IDENTIFIER, .token .IDENT 1,
     .exit, .exit, .token .SEMICOLON 1, .exit]
  | .assignMeasure =>
    [.enter .ASSIGNMENT_STMT, .enter .IDENTIFIER, .token .IDENT 1, .exit, .token .EQ 1,
     .enter .MEASURE_EXPRESSION, .token .MEASURE_KW 1, .enter .IDENTIFIER, .token .IDENT 1, .exit, .exit,
     .token .SEMICOLON 1, .exit]
  | .reset =>
    [.enter .RESET, .token .RESET_KW 1, .enter .IDENTIFIER, .token .IDENT 1, .exit, .token .SEMICOLON 1, .exit]
  | .barrier nq =>
    .enter .BARRIER :: .token .BARRIER_KW 1 :: .enter .QUBIT_LIST ::
      (qubitNodes nq ++ [.exit, .token .SEMICOLON 1, .exit])
  | .brk => [.enter .BREAK_STMT, .token .BREAK_KW 1, .token .SEMICOLON 1, .exit]
  | .cont => [.enter .CONTINUE_STMT, .token .CONTINUE_KW 1, .token .SEMICOLON 1, .exit]
  | .endS => [.enter .END_STMT, .token .END_KW 1, .token .SEMICOLON 1, .exit]
  | .ifS c thn =>
    .enter .IF_STMT :: .token .IF_KW 1 :: .token .L_PAREN 1 ::
      (nodes c ++ (.token .R_PAREN 1 :: (blockNodes (nodesL thn) ++ [.exit])))
  | .ifElse c thn els =>
    .enter .IF_STMT :: .token .IF_KW 1 :: .token .L_PAREN 1 ::
      (nodes c ++ (.token .R_PAREN 1 :: (blockNodes (nodesL thn) ++
        (.token .ELSE_KW 1 :: (blockNodes (nodesL els) ++ [.exit])))))
  | .whileS c body =>
    .enter .WHILE_STMT :: .token .WHILE_KW 1 :: .token .L_PAREN 1 ::
      (nodes c ++ (.token .R_PAREN 1 :: (blockNodes (nodesL body) ++ [.exit])))
  | .forS ty lo hi body =>
    .enter .FOR_STMT :: .token .FOR_KW 1 :: .enter .SCALAR_TYPE :: .token ty.kind 1 :: .exit ::
      .enter .NAME :: .token .IDENT 1 :: .exit :: .token .IN_KW 1 :: .enter .FOR_ITERABLE ::
      .enter .RANGE_EXPR :: .token .L_BRACK 1 ::
      (nodes lo ++ (.token .COLON 1 :: (nodes hi ++ (.token .R_BRACK 1 :: .exit :: .exit ::
        (blockNodes (nodesL body) ++ [.exit])))))
  | .gateDef none nq body =>
    .enter .GATE :: .token .GATE_KW 1 :: .enter .NAME :: .token .IDENT 1 :: .exit ::
      .enter .PARAM_LIST :: (paramNodes nq ++ (.exit :: (blockNodes (nodesL body) ++ [.exit])))
  | .gateDef (some k) nq body =>
    .enter .GATE :: .token .GATE_KW 1 :: .enter .NAME :: .token .IDENT 1 :: .exit ::
      .enter .PARAM_LIST :: .token .L_PAREN 1 :: (paramNodes k ++ (.token .R_PAREN 1 :: .exit ::
        .enter .PARAM_LIST :: (paramNodes nq ++ (.exit :: (blockNodes (nodesL body) ++ [.exit])))))
  | .defS ps ret body =>
    .enter .DEF :: .token .DEF_KW 1 :: .enter .NAME :: .token .IDENT 1 :: .exit ::
      .enter .TYPED_PARAM_LIST :: .token .L_PAREN 1 :: (typedNodes ps ++ (.token .R_PAREN 1 :: .exit ::
        (retNodes ret ++ (blockNodes (nodesL body) ++ [.exit]))))
  | .ret none => [.enter .EXPR_STMT, .enter .RETURN_EXPR, .token .RETURN_KW 1, .exit, .token .SEMICOLON 1, .exit]
  | .ret (some e) =>
    .enter .EXPR_STMT :: .enter .RETURN_EXPR :: .token .RETURN_KW 1 :: (nodes e ++ [.exit, .token .SEMICOLON 1, .exit])
def nodesL : Stmts → List Step
  | .nil => []
  | .cons s ss => nodesS s ++ nodesL ss
end

/-- nodes of a whole program -/
def nodesP (p : Stmts) : List Step := .enter .SOURCE_FILE :: (nodesL p ++ [.exit])

end Oq3.LangEv
