/-
C04 for a recursive reference language, part 6: the top level — `item` versus `stmt`
(`Props/C16.lean`: on item-first statements `item` is `stmt` plus a check for a stray `;`; on the
others it hands the whole rest of the input to the statement loop), `source_file_contents`,
`source_file`.
-/
import Oq3.Lemmas.LangEvProg
set_option linter.unusedSimpArgs false
set_option linter.unusedVariables false

namespace Oq3.LangEv
open Oq3.Gen Oq3.Parser Oq3.Grammar Oq3.SymExec Oq3.PrattEv
open Oq3.Gen.Ops (Assoc)

/-- statements on which the top-level dispatcher `item` parses one statement itself (`opt_item`
succeeds); on the others it hands the whole rest of the input to the statement loop -/
def isItem : Stmt → Bool
  | .assign _ | .exprS _ | .gate _ _ | .measure | .assignMeasure | .ret _ => false
  | _ => true

theorem isItem_first (st : Stmt) (h : isItem st = true) (s : P) (htk : Toks s s.pos (toksS st)) :
    Oq3.Props.C16.itemFirst (s.kindAt s.pos) (s.kindAt (s.pos + 1)) = true ∧ s.kindAt s.pos ≠ .LET_KW := by
  cases st with
  | decl ty w init =>
    have h1 : s.kindAt s.pos = ty.kind ∧ s.kindAt (s.pos + 1) ≠ .L_PAREN := by
      cases w <;> cases init <;>
        simp only [toksS, tyToks, Toks, Toks_append, tk, List.cons_append, List.nil_append] at htk <;>
        exact ⟨htk.1, by rw [htk.2.2.1]; decide⟩
    rw [h1.1]
    have h2 := h1.2
    cases ty <;> simp [Oq3.Props.C16.itemFirst, isClassicalType, SyntaxKind.isScalarType, Ty.kind, h2]
  | assign _ => cases h
  | exprS _ => cases h
  | gate _ _ => cases h
  | measure => cases h
  | assignMeasure => cases h
  | ret _ => cases h
  | gateDef ps nq body =>
    cases ps <;> simp only [toksS, Toks, tk] at htk <;> rw [htk.1] <;>
      exact ⟨by simp [Oq3.Props.C16.itemFirst, Oq3.Props.C16.itemKeyword], by decide⟩
  | _ =>
    simp only [toksS, Toks, tk] at htk
    rw [htk.1]
    exact ⟨by simp [Oq3.Props.C16.itemFirst, Oq3.Props.C16.itemKeyword], by decide⟩

theorem notItem_first (st : Stmt) (h : isItem st = false) : exprStmtFirst (firstTokS st) = true := by
  cases st <;> first | (cases h; done) | rfl | exact operandFirst_exprStmtFirst (firstTokE_operand _)

/-- `item` on a statement that `opt_item` parses: `stmt` plus the check for a stray `;` -/
theorem item_of_stmt (g : Nat) (s : P) (n : Nat) (E : List Ev) (h : Acc (stmt (g + 1)) s n E)
    (hk : Oq3.Props.C16.itemFirst (s.kindAt s.pos) (s.kindAt (s.pos + 1)) = true)
    (hlet : s.kindAt s.pos ≠ .LET_KW) (hsemi : s.kindAt (s.pos + n) ≠ .SEMICOLON) :
    Acc (item (g + 1) false) s n E := by
  obtain ⟨st, sb, hle, hx⟩ := h
  refine ⟨st, sb, hle, ?_⟩
  rw [Oq3.Props.C16.dispatch_equiv_partial g s hk hlet, G.bind_apply, hx]
  simp only
  unfold Oq3.Props.C16.semiCheck
  rw [G.bind_apply, at_ov _ _ _ _ _ _ _ .SEMICOLON (by decide)]
  have : (s.kindAt (s.pos + n) == SyntaxKind.SEMICOLON) = false := beq_false_of_ne hsemi
  simp only [this, Bool.false_eq_true, if_false]
  rfl

/-- `item` on a statement that `opt_item` does not parse: the rest of the input goes to the statement loop -/
theorem item_rest (g : Nat) (s : P) (hr : Rdy 8 s) (k0 : SyntaxKind) (hk0 : exprStmtFirst k0 = true)
    (h0 : s.kindAt (s.pos + 0) = k0) (S'' : P)
    (hrest : exprBlockStatements (g + 1) (s.ov [] 0 (s.steps + 1) (s.sinceBump + 1) s.live s.protectedPos) = .ok ((), S'')) :
    item (g + 2) false s = .ok ((), S'') := by
  have hnp := hr.hook
  have hpr := hr.prot
  have hst : s.steps ≤ s.stepLimit := by have := hr.steps; omega
  simp only [exprStmtFirst, Bool.or_eq_true, beq_iff_eq] at hk0
  refine of_ov _ _ _ ?_
  rcases hk0 with ((((((hk | hk) | hk) | hk) | hk) | hk) | hk) | hk <;> subst hk <;>
  (sym_eval [filter_base s hpr, contains_base s hpr, h0, hrest]; rfl)


/-- the top-level loop at the end of the input -/
theorem sfc_nil (F : Nat) (s : P) (hk : s.kindAt s.pos = .EOF) : Acc (sourceFileContents (F + 1) false) s 0 [] := by
  refine ⟨s.steps, s.sinceBump, Nat.le_refl _, of_ov _ _ _ ?_⟩
  have h0 : s.kindAt (s.pos + 0) = .EOF := hk
  show _ = _
  sym_eval [h0]
  rfl

/-- acceptance without the bound on the step counter (for the top level) -/
def AccW (x : G Unit) (s : P) (n : Nat) (E : List Ev) : Prop :=
  ∃ st sb, x s = .ok ((), s.ov E n st sb s.live s.protectedPos)

/-- one iteration of the top-level loop -/
theorem sfc_cons (F : Nat) (s : P) (n1 n2 : Nat) (E1 E2 : List Ev) (st1 sb1 : Nat)
    (hk1 : s.kindAt s.pos ≠ .EOF) (hk2 : s.kindAt s.pos ≠ .R_CURLY)
    (hx : item F false s = .ok ((), s.ov E1 n1 st1 sb1 s.live s.protectedPos))
    (h2 : AccW (sourceFileContents F false) (s.ov E1 n1 st1 sb1 s.live s.protectedPos) n2 E2) :
    AccW (sourceFileContents (F + 1) false) s (n1 + n2) (E1 ++ E2) := by
  obtain ⟨st2, sb2, hy⟩ := h2
  refine ⟨st2, sb2, of_ov _ _ _ ?_⟩
  have b1 : (s.kindAt (s.pos + 0) == SyntaxKind.EOF) = false := beq_false_of_ne hk1
  have b2 : (s.kindAt (s.pos + 0) == SyntaxKind.R_CURLY) = false := beq_false_of_ne hk2
  have hx' : item F false (s.ov [] 0 s.steps s.sinceBump s.live s.protectedPos) =
      .ok ((), s.ov E1 n1 st1 sb1 s.live s.protectedPos) := by rw [P.ov_base]; exact hx
  rw [ov_ov] at hy
  have hy' : sourceFileContents F false (s.ov E1 n1 st1 sb1 s.live s.protectedPos) =
      .ok ((), s.ov (E1 ++ E2) (n1 + n2) st2 sb2 s.live s.protectedPos) := hy
  show _ = _
  sym_eval [b1, b2, hx', hy']
  rfl

/-- **the top-level loop accepts every well-formed program** -/
theorem sfc_ok : ∀ (p : Stmts) (F : Nat) (s : P), needL p + 3 ≤ F → Rdy 9 s → Toks s s.pos (toksL p) →
    s.kindAt (s.pos + (toksL p).length) = .EOF → WFL p →
    AccW (sourceFileContents F false) s (toksL p).length (evsL p)
  | .nil, F, s, hF, hr, htk, heof, _ => by
    obtain ⟨g, rfl⟩ : ∃ g, F = g + 1 := ⟨F - 1, by omega⟩
    obtain ⟨st, sb, -, h⟩ := sfc_nil g s heof
    exact ⟨st, sb, h⟩
  | .cons st ss, F, s, hF, hr, htk, heof, hwf => by
    obtain ⟨g, rfl⟩ : ∃ g, F = g + 1 + 1 + 1 := ⟨F - 3, by omega⟩
    have hF' := hF
    simp only [needL] at hF'
    obtain ⟨j, ts, hts⟩ := toksS_firstTok st
    have htk' := htk
    simp only [toksL, Toks_append, List.length_append] at htk' heof ⊢
    have h0 : s.kindAt s.pos = firstTokS st := by have := htk'.1; rw [hts] at this; exact this.1
    obtain ⟨hne1, hne2, -, -⟩ := firstTokS_props st
    cases hit : isItem st with
    | true =>
      obtain ⟨hif, hlet⟩ := isItem_first st hit s htk'.1
      have hnext : s.kindAt (s.pos + (toksS st).length) ≠ .SEMICOLON := by
        cases ss with
        | nil => simp only [toksL, List.length_nil, Nat.add_zero] at heof; rw [heof]; decide
        | cons st' ss' =>
          obtain ⟨j', ts', hts'⟩ := toksS_firstTok st'
          have := htk'.2
          simp only [toksL, Toks_append, hts', Toks] at this
          rw [this.1.1]
          intro h
          cases st' <;> simp only [firstTokS] at h <;> first | (cases h; done) | skip
          · rename_i ty _ _; cases ty <;> cases h
          · rename_i e; have := firstTokE_operand e; rw [h] at this; cases this
      obtain ⟨st1, sb1, hle1, hx⟩ := item_of_stmt (g + 1) s _ _
          (stmt_ok st (g + 1 + 1) s (by omega) (hr.mono (by omega)) htk'.1 hwf.1
            (followS_next st ss s _ htk'.2 (Or.inr (by rw [Nat.add_assoc]; exact heof)) hwf.2.2))
          hif hlet hnext
      exact sfc_cons (g + 1 + 1) s _ _ _ _ st1 sb1 (by rw [h0]; exact hne1) (by rw [h0]; exact hne2) hx
        (sfc_ok ss (g + 1 + 1) _ (by omega)
          (Rdy_ov 9 s _ _ _ _ _ _ hr.hook (by have := hr.steps; omega) (fun p hp => Nat.lt_add_right _ (hr.prot p hp)))
          ((Toks_ov s _ _ _ _ _ _ _ _).2 htk'.2)
          (by show s.kindAt (s.pos + _ + _) = _; rw [Nat.add_assoc]; exact heof) hwf.2.1)
    | false =>
      have hall := stmts_ok (.cons st ss) (g + 1)
        (s.ov [] 0 (s.steps + 1) (s.sinceBump + 1) s.live s.protectedPos) (by omega)
        (Rdy_ov 8 s _ _ _ _ _ _ hr.hook (by have := hr.steps; omega) (fun p hp => Nat.lt_add_right _ (hr.prot p hp)))
        ((Toks_ov s _ _ _ _ _ _ _ _).2 (by rw [Nat.add_zero]; exact htk))
        (Or.inr (by show s.kindAt (s.pos + 0 + _) = _; rw [Nat.add_zero]; simp only [toksL, List.length_append]; exact heof)) hwf
      obtain ⟨st', sb', hle, hrest⟩ := hall.at_ov
      simp only [List.nil_append, Nat.zero_add] at hrest
      have hitem := item_rest g s (hr.mono (by omega)) _ (notItem_first st hit) h0 _ hrest
      obtain ⟨st2, sb2, -, hnil⟩ := sfc_nil (g + 1) (s.ov (evsL (.cons st ss)) (toksL (.cons st ss)).length st' sb' s.live s.protectedPos)
        (by show s.kindAt (s.pos + _) = _; simp only [toksL, List.length_append]; exact heof)
      have := sfc_cons (g + 2) s _ 0 _ [] st' sb' (by rw [h0]; exact hne1) (by rw [h0]; exact hne2) hitem ⟨st2, sb2, hnil⟩
      simpa [toksL, evsL] using this

/-- **`source_file` accepts every well-formed program**, from any ready state whose input is the
print of the program followed by the end of the input -/
theorem sourceFile_ok (p : Stmts) (F : Nat) (s : P) (hF : needL p + 3 ≤ F) (hr : Rdy 9 s)
    (htk : Toks s s.pos (toksL p)) (heof : s.kindAt (s.pos + (toksL p).length) = .EOF) (hwf : WFL p) :
    AccW (sourceFile F) s (toksL p).length (evsP p) := by
  have hnp := hr.hook
  have hpr := hr.prot
  obtain ⟨st, sb, hrun⟩ := sfc_ok p F (s.ov [.start .TOMBSTONE none] 0 s.steps (s.sinceBump + 1) (s.live + 1) s.protectedPos)
    hF (Rdy_ov 9 s _ _ _ _ _ _ hr.hook hr.steps (fun p hp => Nat.lt_add_right _ (hr.prot p hp)))
    ((Toks_ov s _ _ _ _ _ _ _ _).2 (by rw [Nat.add_zero]; exact htk))
    (by show s.kindAt (s.pos + 0 + _) = _; rw [Nat.add_zero]; exact heof) hwf
  rw [ov_ov] at hrun
  have hrun' : sourceFileContents F false (s.ov [Ev.start SyntaxKind.TOMBSTONE none] 0 s.steps (s.sinceBump + 1) (s.live + 1) s.protectedPos) =
      .ok ((), s.ov ([Ev.start SyntaxKind.TOMBSTONE none] ++ evsL p) (0 + (toksL p).length) st sb (s.live + 1) s.protectedPos) := hrun
  refine ⟨st, sb + 1, of_ov _ _ _ ?_⟩
  unfold sourceFile
  sym_eval [filter_base s hpr, hrun']
  refine ok_ov_congr _ _ _ _ _ _ _ _ _ _ _ rfl ?_ (by omega)
  simp only [evsP, List.cons_append, List.nil_append]

end Oq3.LangEv
