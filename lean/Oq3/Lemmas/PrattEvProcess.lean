/-
Event-level Pratt round trip, part 4: `process` on the event encoding.

`process (evs t) = some (nodes t)` (`process_evs`), in the compositional form `go_evs`: wherever
the segment `evs t` sits in an event list, the main loop of `process` walks over it, appends
`nodes t` to its output and leaves the events after the segment untouched.
-/
import Oq3.Lemmas.PrattEv

namespace Oq3.PrattEv
open Oq3.Gen Oq3.Parser

/-- kinds along the forward-parent chain of one `expr_bp` call, outermost first -/
def spineKinds : E → List SyntaxKind
  | .bin _ l _ => .BIN_EXPR :: spineKinds l
  | t => [t.kind]

/-- `body t _` after the chain walk: the `Start`s of the spine are tombstones -/
def sbody : E → List Ev
  | .id => [Ev.tombstone, .token .IDENT 1, .finish]
  | .int => [Ev.tombstone, .token .INT_NUMBER 1, .finish]
  | .pre o e => [Ev.tombstone, .token o.kind 1] ++ (evs e ++ [.finish])
  | .paren e => [Ev.tombstone, .token .L_PAREN 1] ++ (evs e ++ [.token .R_PAREN 1, .finish])
  | .bin o l r => sbody l ++ ([Ev.tombstone, .token o.kind o.pieces.length] ++ (evs r ++ [.finish]))

/-- the steps of `sbody t`: `nodes t` without the leading `Enter`s of the spine -/
def snodes : E → List Step
  | .id => [.token .IDENT 1, .exit]
  | .int => [.token .INT_NUMBER 1, .exit]
  | .pre o e => [.token o.kind 1] ++ (nodes e ++ [.exit])
  | .paren e => [.token .L_PAREN 1] ++ (nodes e ++ [.token .R_PAREN 1, .exit])
  | .bin o l r => snodes l ++ ([.token o.kind o.pieces.length] ++ (nodes r ++ [.exit]))

theorem nodes_eq (t : E) : nodes t = (spineKinds t).map .enter ++ snodes t := by
  induction t with
  | bin o l r ihl ihr => simp only [nodes, spineKinds, snodes, ihl, List.map_cons, List.cons_append, List.nil_append, List.append_assoc]
  | _ => rfl

theorem spineKinds_length (t : E) : (spineKinds t).length = cF t := by
  induction t with
  | bin o l r ihl ihr => simp only [spineKinds, cF, List.length_cons, ihl]
  | _ => rfl

theorem spineKinds_noTomb (t : E) : (spineKinds t).filter (· != .TOMBSTONE) = spineKinds t := by
  induction t with
  | bin o l r ihl ihr => simp only [spineKinds, List.filter_cons, ihl]; rfl
  | _ => rfl

theorem sbody_length (t : E) : (sbody t).length + 1 = len t := by
  induction t with
  | id => rfl
  | int => rfl
  | pre o e ih =>
    have := body_length e none
    simp only [sbody, evs, len, List.length_append, List.length_cons, List.length_nil]; omega
  | paren e ih =>
    have := body_length e none
    simp only [sbody, evs, len, List.length_append, List.length_cons, List.length_nil]; omega
  | bin o l r ihl ihr =>
    have := body_length r none
    simp only [sbody, evs, len, List.length_append, List.length_cons, List.length_nil]; omega

theorem rootOff_le (t : E) : rootOff t + 1 ≤ len t - 1 + 1 ∧ 1 ≤ len t := by
  have h := body_length t none
  cases t with
  | bin o l r =>
    have := body_length l none
    simp only [rootOff, len]; omega
  | _ => simp only [rootOff]; omega

/-! ### the chain walk -/

theorem get_mid (A R : List Ev) (x : Ev) : (A ++ (x :: R))[A.length]? = some x := by
  rw [List.getElem?_append_right (Nat.le_refl _)]; simp

theorem set_mid (A R : List Ev) (x y : Ev) : (A ++ (x :: R)).set A.length y = A ++ (y :: R) := by
  rw [List.set_append_right _ _ (Nat.le_refl _)]; simp

/-- **the forward-parent chain of one `expr_bp` call**: entering `body t fp` at its first event,
`chain` collects the kinds of the spine, replaces its `Start`s by tombstones, and then stops
(`fp = none`) or leaves the segment through the link of the root -/
theorem chain_body (t : E) : ∀ (g : Nat) (A R : List Ev) (fp : Option Nat) (idx fwd : Nat)
    (acc : List SyntaxKind), idx + fwd = A.length →
    chain (g + cF t) (A ++ (body t fp ++ R)) idx fwd acc =
      match fp with
      | none => some (spineKinds t ++ acc, A ++ (sbody t ++ R))
      | some d => chain g (A ++ (sbody t ++ R)) (A.length + rootOff t) d (spineKinds t ++ acc) := by
  induction t with
  | id =>
    intro g A R fp idx fwd acc h
    simp only [cF, body, sbody, spineKinds, rootOff, E.kind, List.cons_append, List.nil_append, chain, h, get_mid,
      set_mid, Nat.add_zero]
    cases fp <;> rfl
  | int =>
    intro g A R fp idx fwd acc h
    simp only [cF, body, sbody, spineKinds, rootOff, E.kind, List.cons_append, List.nil_append, chain, h, get_mid,
      set_mid, Nat.add_zero]
    cases fp <;> rfl
  | pre o e ih =>
    intro g A R fp idx fwd acc h
    simp only [cF, body, sbody, spineKinds, rootOff, E.kind, evs, List.cons_append, List.nil_append, chain, h,
      get_mid, set_mid, Nat.add_zero, List.append_assoc]
    cases fp <;> rfl
  | paren e ih =>
    intro g A R fp idx fwd acc h
    simp only [cF, body, sbody, spineKinds, rootOff, E.kind, evs, List.cons_append, List.nil_append, chain, h,
      get_mid, set_mid, Nat.add_zero, List.append_assoc]
    cases fp <;> rfl
  | bin o l r ihl ihr =>
    intro g A R fp idx fwd acc h
    have hl := sbody_length l
    have hr := rootOff_le l
    simp only [cF, body, List.append_assoc]
    rw [show g + (cF l + 1) = (g + 1) + cF l by omega, ihl (g + 1) A _ _ idx fwd acc h]
    simp only
    have hpos : A.length + rootOff l + (len l - 1 - rootOff l) = (A ++ sbody l).length := by
      rw [List.length_append]; omega
    have hlist : ∀ X : List Ev, A ++ (sbody l ++ X) = (A ++ sbody l) ++ X := fun X => (List.append_assoc _ _ _).symm
    rw [hlist]
    simp only [chain, hpos, List.cons_append, List.nil_append, get_mid, set_mid]
    have hro : rootOff (E.bin o l r) = len l - 1 := rfl
    have hpos2 : (A ++ sbody l).length = A.length + (len l - 1) := by rw [List.length_append]; omega
    cases fp with
    | none =>
      simp only [sbody, spineKinds, evs, List.append_assoc, List.cons_append, List.nil_append]
    | some d =>
      simp only [sbody, spineKinds, evs, List.append_assoc, List.cons_append, List.nil_append, hro, hpos2]

/-! ### the main loop of `process` on a segment -/

theorem cntFp_append (a b : List Ev) : cntFp (a ++ b) = cntFp a + cntFp b := by
  induction a with
  | nil => simp [cntFp]
  | cons x xs ih => simp only [List.cons_append, cntFp, ih]; omega

theorem cntFp_body (t : E) (fp : Option Nat) : cF t ≤ cntFp (body t fp) + (if fp.isSome then 0 else 1) := by
  induction t generalizing fp with
  | id => cases fp <;> simp [body, cntFp, Ev.hasFp, cF]
  | int => cases fp <;> simp [body, cntFp, Ev.hasFp, cF]
  | pre o e ih => cases fp <;> simp [body, cntFp, Ev.hasFp, cF, cntFp_append] <;> omega
  | paren e ih => cases fp <;> simp [body, cntFp, Ev.hasFp, cF, cntFp_append] <;> omega
  | bin o l r ihl ihr =>
    have := ihl (some (len l - 1 - rootOff l))
    cases fp <;> simp [body, cntFp, Ev.hasFp, cF, cntFp_append] at this ⊢ <;> omega

theorem cntFp_evs (t : E) : cF t ≤ cntFp (evs t) := by
  have := cntFp_body t none
  simp [evs, cntFp, tombLink, Ev.hasFp] at this ⊢
  omega

/-- the loop of `process`, started at the first event of the segment `seg`, walks over it, appends
`steps` to the output and goes on with the events `R` after the segment unchanged -/
def GoSeg (seg : List Ev) (steps : List Step) : Prop :=
  ∀ (n : Nat) (A R : List Ev) (out : List Step), ∃ A' : List Ev,
    processGo (n + seg.length) A.length (A ++ (seg ++ R)) out = processGo n A'.length (A' ++ R) (out ++ steps)

theorem GoSeg.nil : GoSeg [] [] := by
  intro n A R out; exact ⟨A, by simp⟩

theorem GoSeg.append {a b : List Ev} {sa sb : List Step} (ha : GoSeg a sa) (hb : GoSeg b sb) :
    GoSeg (a ++ b) (sa ++ sb) := by
  intro n A R out
  obtain ⟨A1, h1⟩ := ha (n + b.length) A (b ++ R) out
  obtain ⟨A2, h2⟩ := hb n A1 R (out ++ sa)
  refine ⟨A2, ?_⟩
  rw [List.length_append, show n + (a.length + b.length) = n + b.length + a.length by omega,
    List.append_assoc, h1, h2, List.append_assoc]

theorem go_shift (A R : List Ev) : A ++ (Ev.tombstone :: R) = (A ++ [Ev.tombstone]) ++ R := by simp

theorem GoSeg.token (k : SyntaxKind) (m : Nat) : GoSeg [.token k m] [.token k m] := by
  intro n A R out
  refine ⟨A ++ [Ev.tombstone], ?_⟩
  show processGo (n + 1) A.length (A ++ (Ev.token k m :: R)) out = _
  rw [processGo, get_mid]
  simp only
  rw [set_mid, go_shift, List.length_append]
  rfl

theorem GoSeg.finish : GoSeg [.finish] [.exit] := by
  intro n A R out
  refine ⟨A ++ [Ev.tombstone], ?_⟩
  show processGo (n + 1) A.length (A ++ (Ev.finish :: R)) out = _
  rw [processGo, get_mid]
  simp only
  rw [set_mid, go_shift, List.length_append]
  rfl

theorem GoSeg.tomb : GoSeg [Ev.tombstone] [] := by
  intro n A R out
  refine ⟨A ++ [Ev.tombstone], ?_⟩
  show processGo (n + 1) A.length (A ++ (Ev.start .TOMBSTONE none :: R)) out = _
  rw [processGo, get_mid]
  simp only
  rw [set_mid, go_shift, List.length_append, show enters [SyntaxKind.TOMBSTONE] = [] from rfl]
  rfl

/-- the segment after the chain walk, given the sub-expressions -/
theorem goSeg_sbody (t : E) (ih : ∀ e, size e < size t → GoSeg (evs e) (nodes e)) :
    GoSeg (sbody t) (snodes t) := by
  induction t with
  | id => exact GoSeg.tomb.append ((GoSeg.token _ _).append GoSeg.finish)
  | int => exact GoSeg.tomb.append ((GoSeg.token _ _).append GoSeg.finish)
  | pre o e _ =>
    exact (GoSeg.tomb.append (GoSeg.token _ _)).append ((ih e (by simp [size])).append GoSeg.finish)
  | paren e _ =>
    exact (GoSeg.tomb.append (GoSeg.token _ _)).append
      ((ih e (by simp [size])).append ((GoSeg.token _ _).append GoSeg.finish))
  | bin o l r ihl _ =>
    exact (ihl (fun e he => ih e (by simp only [size]; omega))).append
      ((GoSeg.tomb.append (GoSeg.token _ _)).append ((ih r (by simp only [size]; omega)).append GoSeg.finish))

/-- **`process` on the events of a tree** (compositional form) -/
theorem goSeg_evs (t : E) : GoSeg (evs t) (nodes t) := by
  induction h : size t using Nat.strongRecOn generalizing t with
  | _ k ih =>
    subst h
    have hs := goSeg_sbody t (fun e he => ih (size e) he e rfl)
    intro n A R out
    obtain ⟨A', h'⟩ := hs n (A ++ [Ev.tombstone]) R (out ++ (spineKinds t).map .enter)
    refine ⟨A', ?_⟩
    rw [nodes_eq, ← List.append_assoc out, ← h']
    have hlen : (evs t).length = (sbody t).length + 1 := by
      rw [evs_length]; exact (sbody_length t).symm
    have hc := cntFp_evs t
    rw [hlen, ← Nat.add_assoc]
    simp only [evs, List.cons_append, processGo, get_mid, tombLink, set_mid]
    obtain ⟨g, hg⟩ : ∃ g, cntFp (A ++ (Ev.start SyntaxKind.TOMBSTONE (some 1) :: (body t none ++ R))) + 1 = g + cF t := by
      refine ⟨cntFp (A ++ (Ev.start SyntaxKind.TOMBSTONE (some 1) :: (body t none ++ R))) + 1 - cF t, ?_⟩
      have : cntFp (evs t) ≤ cntFp (A ++ (Ev.start SyntaxKind.TOMBSTONE (some 1) :: (body t none ++ R))) := by
        rw [cntFp_append, show Ev.start SyntaxKind.TOMBSTONE (some 1) :: (body t none ++ R) = evs t ++ R from rfl,
          cntFp_append]
        omega
      omega
    rw [hg, go_shift, chain_body t g (A ++ [Ev.tombstone]) R none A.length 1 _ (by simp)]
    simp only [List.length_append, List.length_cons, List.length_nil]
    congr 1
    simp only [enters, List.filter_append, spineKinds_noTomb, List.map_append]
    rw [show List.filter (fun x => x != SyntaxKind.TOMBSTONE) [SyntaxKind.TOMBSTONE] = [] from rfl]
    simp

/-- **`process` turns the events of a tree into its pre-order node sequence** -/
theorem process_evs (t : E) : process (evs t) = some (nodes t) := by
  obtain ⟨A', h⟩ := goSeg_evs t 0 [] [] []
  unfold process
  simp only [Nat.zero_add, List.nil_append, List.append_nil, List.length_nil] at h
  rw [h]
  rfl

/-! ### the node sequence determines the tree -/

theorem BinOp.kind_inj (o o' : BinOp) (h : o.kind = o'.kind) : o = o' := by
  cases o <;> cases o' <;> first | rfl | (simp [BinOp.kind] at h)

theorem PreOp.kind_inj (o o' : PreOp) (h : o.kind = o'.kind) : o = o' := by
  cases o <;> cases o' <;> first | rfl | (simp [PreOp.kind] at h)

/-- the node sequence is a prefix code: it determines the tree (and what follows it) -/
theorem nodes_prefix (t : E) : ∀ (t' : E) (x y : List Step), nodes t ++ x = nodes t' ++ y → t = t' ∧ x = y := by
  induction t with
  | id =>
    intro t' x y h
    cases t' <;> simp [nodes] at h
    exact ⟨rfl, h⟩
  | int =>
    intro t' x y h
    cases t' <;> simp [nodes] at h
    exact ⟨rfl, h⟩
  | pre o e ih =>
    intro t' x y h
    cases t' with
    | pre o' e' =>
      simp only [nodes, List.cons_append, List.nil_append, List.append_assoc, List.cons.injEq, true_and,
        Step.token.injEq, and_true] at h
      obtain ⟨ho, h⟩ := h
      obtain ⟨he, h2⟩ := ih e' _ _ h
      exact ⟨by rw [PreOp.kind_inj o o' ho, he], (List.cons.inj h2).2⟩
    | _ => simp [nodes] at h
  | paren e ih =>
    intro t' x y h
    cases t' with
    | paren e' =>
      simp only [nodes, List.cons_append, List.nil_append, List.append_assoc, List.cons.injEq, true_and] at h
      obtain ⟨he, h2⟩ := ih e' _ _ h
      exact ⟨by rw [he], (List.cons.inj (List.cons.inj h2).2).2⟩
    | _ => simp [nodes] at h
  | bin o l r ihl ihr =>
    intro t' x y h
    cases t' with
    | bin o' l' r' =>
      simp only [nodes, List.cons_append, List.nil_append, List.append_assoc, List.cons.injEq, true_and] at h
      obtain ⟨hl, h2⟩ := ihl l' _ _ h
      simp only [List.cons.injEq, Step.token.injEq] at h2
      obtain ⟨⟨ho, -⟩, h3⟩ := h2
      obtain ⟨hr, h4⟩ := ihr r' _ _ h3
      exact ⟨by rw [BinOp.kind_inj o o' ho, hl, hr], (List.cons.inj h4).2⟩
    | _ => simp [nodes] at h

theorem nodes_injective (t t' : E) (h : nodes t = nodes t') : t = t' :=
  (nodes_prefix t t' [] [] (by simpa using h)).1

end Oq3.PrattEv
