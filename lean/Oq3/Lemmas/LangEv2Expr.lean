/-
C04, extended reference language, part 5: the run of `expr_bp` on extended expressions, by mutual
induction over `X` / `Prim` / the lists inside postfix operators (`exprX_ok`).
-/
import Oq3.Lemmas.LangEv2List
set_option linter.unusedSimpArgs false
set_option linter.unusedVariables false

namespace Oq3.LangEv2
open Oq3.Gen Oq3.Parser Oq3.Grammar Oq3.SymExec Oq3.PrattEv Oq3.LangEv

/-! ### fuel -/

/-- number of postfix operators of a primary (an indexed identifier counts one) -/
def dP : Prim → Nat
  | .idIdx _ => 1
  | .call p _ => dP p + 1
  | .index p _ => dP p + 1
  | _ => 0

mutual
/-- fuel that must be left for the loop of `expr_bp` -/
def needX : X → Nat
  | .prim p => lhsNeed p + dP p + 4
  | .pre _ e => needX e + cFX e + 1
  | .bin _ l r => needX l + needX r + cFX r
/-- fuel for `lhs` on a primary -/
def lhsNeed : Prim → Nat
  | .id => 4
  | .lit _ => 4
  | .timing _ => 4
  | .hw => 4
  | .measureE => 6
  | .measureHw => 6
  | .measureIdx ixs => sumIdx ixs + needIdxL ixs + 6
  | .paren e => needX e + cFX e + 8
  | .cast0 _ e => needX e + cFX e + 9
  | .castW _ w e => (needX w + cFX w) + (needX e + cFX e) + 10
  | .idIdx ixs => sumIdx ixs + needIdxL ixs + 6
  | .call p args => lhsNeed p + sumXs args + countXs args + 8
  | .index p items => lhsNeed p + sumItems items + countItems items + 10
def sumXs : XList → Nat
  | .nil => 0
  | .cons x xs => needX x + cFX x + sumXs xs
def sumItem : Item → Nat
  | .ex x => needX x + cFX x
  | .r2 lo hi => (needX lo + cFX lo) + (needX hi + cFX hi)
  | .r3 lo mid hi => (needX lo + cFX lo) + (needX mid + cFX mid) + (needX hi + cFX hi)
def sumItems : ItemList → Nat
  | .one i => sumItem i
  | .cons i is => sumItem i + sumItems is
def sumIdx : IdxList → Nat
  | .one is => sumItems is
  | .cons is rest => sumItems is + sumIdx rest
end

/-- **explicit fuel bound for an expression**: `expr_bp` accepts `x` with every fuel ≥ `fuelX x` -/
def fuelX (x : X) : Nat := needX x + cFX x

theorem ExprOK.mono {x : X} {n n' : Nat} (h : ExprOK x n) (hn : n ≤ n') : ExprOK x n' :=
  fun bp f r s E0 dp st sb lv pr a b b' c d e g hf => h bp f r s E0 dp st sb lv pr a b b' c d e g (Nat.le_trans hn hf)

theorem XsOK.mono : ∀ {xs : XList} {n n' : Nat}, XsOK xs n → n ≤ n' → XsOK xs n'
  | .nil, _, _, _, _ => trivial
  | .cons x xs, _, _, h, hn => ⟨h.1.mono hn, XsOK.mono h.2 hn⟩

theorem ItemOK.mono {i : Item} {n n' : Nat} (h : ItemOK i n) (hn : n ≤ n') : ItemOK i n' := by
  cases i with
  | ex x => exact ExprOK.mono h hn
  | r2 lo hi => exact ⟨ExprOK.mono h.1 hn, ExprOK.mono h.2 hn⟩
  | r3 lo mid hi => exact ⟨ExprOK.mono h.1 hn, ExprOK.mono h.2.1 hn, ExprOK.mono h.2.2 hn⟩

theorem ItemsOK.mono : ∀ {is : ItemList} {n n' : Nat}, ItemsOK is n → n ≤ n' → ItemsOK is n'
  | .one i, _, _, h, hn => ItemOK.mono h hn
  | .cons i is, _, _, h, hn => ⟨ItemOK.mono h.1 hn, ItemsOK.mono h.2 hn⟩

theorem IdxOK.mono : ∀ {ixs : IdxList} {n n' : Nat}, IdxOK ixs n → n ≤ n' → IdxOK ixs n'
  | .one is, _, _, h, hn => ItemsOK.mono h hn
  | .cons is rest, _, _, h, hn => ⟨ItemsOK.mono h.1 hn, IdxOK.mono h.2 hn⟩

/-! ### `lhs` on primaries, continuation form -/

theorem firstP_notPre : ∀ p : Prim, firstP p ≠ .TILDE ∧ firstP p ≠ .BANG ∧ firstP p ≠ .MINUS
  | .id => by decide
  | .lit k => by cases k <;> decide
  | .timing k => by cases k <;> decide
  | .hw => by decide
  | .paren _ => by simp only [firstP]; decide
  | .cast0 ty _ => by cases ty <;> simp only [firstP, Ty.kind] <;> decide
  | .castW ty _ _ => by cases ty <;> simp only [firstP, Ty.kind] <;> decide
  | .measureE => by decide
  | .measureHw => by decide
  | .measureIdx _ => by simp only [firstP]; decide
  | .idIdx _ => by simp only [firstP]; decide
  | .call p _ => firstP_notPre p
  | .index p _ => firstP_notPre p

theorem Prim.kind_ne_tomb (p : Prim) : (p.kind == .TOMBSTONE) = false := by cases p <;> rfl

/-- `lhs` = `atom_expr`, then the loop of `postfix_expr` -/
theorem lhs_of_atom (f : Nat) (r : Restrictions) (s : P) (k0 : SyntaxKind) (h0 : s.kindAt (s.pos + 0) = k0)
    (hk0 : k0 ≠ .TILDE ∧ k0 ≠ .BANG ∧ k0 ≠ .MINUS) (kind : SyntaxKind) (B : List Ev) (nb sbb : Nat)
    (hatom : atomExpr (f + 1) r s = .ok (some (⟨s.events.size + 0, kind⟩, .notBlock), s.ov B nb 0 sbb s.live s.protectedPos))
    (res : CompletedMarker × BlockLike) (S'' : P)
    (hk : postfixExpr (f + 1) ⟨s.events.size + 0, kind⟩ .notBlock true (s.ov B nb 0 sbb s.live s.protectedPos) =
      .ok (res, S'')) :
    lhs (f + 2) r s = .ok (some res, S'') := by
  have hatom' : atomExpr (f + 1) r (s.ov [] 0 s.steps s.sinceBump s.live s.protectedPos) =
      .ok (some (⟨s.events.size + 0, kind⟩, .notBlock), s.ov B nb 0 sbb s.live s.protectedPos) := by
    rw [P.ov_base]; exact hatom
  have b1 := beq_false_of_ne (h0 ▸ hk0.1)
  have b2 := beq_false_of_ne (h0 ▸ hk0.2.1)
  have b3 := beq_false_of_ne (h0 ▸ hk0.2.2)
  have hallow : (!(r.preferStmt && BlockLike.notBlock.isBlock)) = true := by cases r.preferStmt <;> rfl
  have hk' : postfixExpr (f + 1) ⟨s.events.size + 0, kind⟩ .notBlock (!(r.preferStmt && BlockLike.notBlock.isBlock))
      (s.ov B nb 0 sbb s.live s.protectedPos) = .ok (res, S'') := by rw [hallow]; exact hk
  apply of_ov
  sym_eval [b1, b2, b3, hatom', hk']
  rfl

/-- continuation form for a primary: `lhs` on its print is the loop of `postfix_expr` continued after it -/
def LhsCPS (p : Prim) : Prop :=
  ∀ (f : Nat) (r : Restrictions) (s : P) (res : CompletedMarker × BlockLike) (S'' : P),
    lhsNeed p ≤ f → RdyL 3 s → Toks s s.pos (toksP p) → EndIn (lastP p) (s.kindAt (s.pos + (toksP p).length)) → CanonP p →
    postfixExpr (f + 1) ⟨s.events.size + rootP p, p.kind⟩ .notBlock true
      (s.ov (bodyP p none) (toksP p).length 0 (sbP p) s.live s.protectedPos) = .ok (res, S'') →
    lhs (f + dP p + 2) r s = .ok (some res, S'')

theorem lhsC_id : LhsCPS .id := by
  intro f r s res S'' hf hr htk hend hc hk
  simp only [toksP, Toks, tk, List.length_cons, List.length_nil, Nat.zero_add] at htk hend
  obtain ⟨f', rfl⟩ : ∃ f', f = f' + 1 := ⟨f - 1, by simp only [lhsNeed] at hf; omega⟩
  exact lhs_of_atom (f' + 1) r s _ htk.1 (by decide) _ _ _ _
    (atom_id (f' + 1) r s (hr.mono (by omega)) htk.1 hend.1 hend.2) res S'' hk

theorem lhsC_lit (k : Lit) : LhsCPS (.lit k) := by
  intro f r s res S'' hf hr htk hend hc hk
  simp only [toksP, Toks, tk, List.length_cons, List.length_nil, Nat.zero_add] at htk hend
  obtain ⟨f', rfl⟩ : ∃ f', f = f' + 1 := ⟨f - 1, by simp only [lhsNeed] at hf; omega⟩
  exact lhs_of_atom (f' + 1) r s _ htk.1 (by cases k <;> decide) _ _ _ _
    (atom_lit k (f' + 1) r s (hr.mono (by omega)) htk.1 hend) res S'' hk

theorem lhsC_timing (k : Num) : LhsCPS (.timing k) := by
  intro f r s res S'' hf hr htk hend hc hk
  simp only [toksP, Toks, tk, List.length_cons, List.length_nil, Nat.zero_add] at htk hend
  obtain ⟨f', rfl⟩ : ∃ f', f = f' + 1 := ⟨f - 1, by simp only [lhsNeed] at hf; omega⟩
  exact lhs_of_atom (f' + 1) r s _ htk.1 (by cases k <;> decide) _ _ _ _
    (atom_timing k (f' + 1) r s (hr.mono (by omega)) htk.1 htk.2.2.1) res S'' hk

theorem lhsC_hw : LhsCPS .hw := by
  intro f r s res S'' hf hr htk hend hc hk
  simp only [toksP, Toks, tk, List.length_cons, List.length_nil, Nat.zero_add] at htk hend
  obtain ⟨f', rfl⟩ : ∃ f', f = f' + 1 := ⟨f - 1, by simp only [lhsNeed] at hf; omega⟩
  exact lhs_of_atom (f' + 1) r s _ htk.1 (by decide) _ _ _ _
    (atom_hw (f' + 1) r s (hr.mono (by omega)) htk.1) res S'' hk

theorem lhsC_measure : LhsCPS .measureE := by
  intro f r s res S'' hf hr htk hend hc hk
  simp only [toksP, Toks, tk, List.length_cons, List.length_nil, Nat.zero_add] at htk hend
  obtain ⟨f', rfl⟩ : ∃ f', f = f' + 3 := ⟨f - 3, by simp only [lhsNeed] at hf; omega⟩
  exact lhs_of_atom (f' + 3) r s _ htk.1 (by decide) _ _ _ _
    (atom_measure (f' + 1) r s (hr.mono (by omega)) htk.1 htk.2.2.1 hend) res S'' hk

theorem lhsC_measureHw : LhsCPS .measureHw := by
  intro f r s res S'' hf hr htk hend hc hk
  simp only [toksP, Toks, tk, List.length_cons, List.length_nil, Nat.zero_add] at htk hend
  obtain ⟨f', rfl⟩ : ∃ f', f = f' + 3 := ⟨f - 3, by simp only [lhsNeed] at hf; omega⟩
  exact lhs_of_atom (f' + 3) r s _ htk.1 (by decide) _ _ _ _
    (atom_measureHw (f' + 1) r s (hr.mono (by omega)) htk.1 htk.2.2.1) res S'' hk

theorem lhsC_measureIdx (ixs : IdxList) (hixs : IdxOK ixs (sumIdx ixs)) : LhsCPS (.measureIdx ixs) := by
  intro f r s res S'' hf hr htk hend hc hk
  simp only [toksP, Toks, tk, List.length_cons] at htk hend hk
  obtain ⟨h0, -, h1, -, hti⟩ := htk
  simp only [lhsNeed] at hf
  simp only [CanonP] at hc
  unfold EndIn at hend
  simp only [lastP] at hend
  have e : (toksIdx ixs).length + 1 + 1 = (toksIdx ixs).length + 2 := rfl
  rw [e] at hk
  exact lhs_of_atom f r s _ h0 (by decide) _ _ _ _
    (atom_measureIdx ixs (sumIdx ixs) (f + 1) r s hixs (by omega) hr h0 h1 hti
      (by intro h; exact hend (kindAt_pos h (by omega))) hc.1 hc.2) res S'' hk

theorem lhsC_paren (e : X) (he : ExprOK e (fuelX e)) : LhsCPS (.paren e) := by
  intro f r s res S'' hf hr htk hend hc hk
  simp only [toksP, Toks, Toks_append, tk, List.length_cons, List.length_append, List.length_nil] at htk hend hk
  obtain ⟨h0, -, hte, hrp, -, -⟩ := htk
  simp only [lhsNeed] at hf
  obtain ⟨f', rfl⟩ : ∃ f', f = f' + 1 := ⟨f - 1, by omega⟩
  simp only [CanonP] at hc
  exact lhs_of_atom (f' + 1) r s _ h0 (by decide) _ _ _ _
    (atom_paren e _ he (f' + 1 + 1) r s (hr.mono (by omega)) (by unfold fuelX; omega) h0 hte
      (kindAt_pos hrp (by omega)) hc) res S'' (by
      rw [show (toksX e).length + 2 = (toksX e).length + 1 + 1 by omega]; exact hk)

theorem lhsC_cast0 (ty : Ty) (e : X) (he : ExprOK e (fuelX e)) : LhsCPS (.cast0 ty e) := by
  intro f r s res S'' hf hr htk hend hc hk
  simp only [toksP, Toks, Toks_append, tk, List.length_cons, List.length_append, List.length_nil] at htk hend hk
  obtain ⟨h0, -, h1, -, hte, hrp, -, -⟩ := htk
  simp only [lhsNeed] at hf
  obtain ⟨f', rfl⟩ : ∃ f', f = f' + 1 := ⟨f - 1, by omega⟩
  simp only [CanonP] at hc
  have hk0 : ty.kind ≠ .TILDE ∧ ty.kind ≠ .BANG ∧ ty.kind ≠ .MINUS := by cases ty <;> decide
  exact lhs_of_atom (f' + 1) r s _ h0 hk0 _ _ _ _
    (atom_cast0 ty e _ he (f' + 1 + 1) r s hr (by unfold fuelX; omega) h0 h1 (Toks_pos hte (by omega))
      (kindAt_pos hrp (by omega)) hc) res S'' (by
      rw [show (toksX e).length + 3 = (toksX e).length + 1 + 1 + 1 by omega]; exact hk)

theorem lhsC_castW (ty : Ty) (w e : X) (hw : ExprOK w (fuelX w)) (he : ExprOK e (fuelX e)) : LhsCPS (.castW ty w e) := by
  intro f r s res S'' hf hr htk hend hc hk
  simp only [toksP, Toks, Toks_append, tk, List.length_cons, List.length_append, List.length_nil] at htk hend hk
  obtain ⟨h0, -, h1, -, htw, hrb, -, hlp, -, hte, hrp, -, -⟩ := htk
  simp only [lhsNeed] at hf
  obtain ⟨f', rfl⟩ : ∃ f', f = f' + 1 := ⟨f - 1, by omega⟩
  simp only [CanonP] at hc
  have hk0 : ty.kind ≠ .TILDE ∧ ty.kind ≠ .BANG ∧ ty.kind ≠ .MINUS := by cases ty <;> decide
  exact lhs_of_atom (f' + 1) r s _ h0 hk0 _ _ _ _
    (atom_castW ty w e _ _ hw he (f' + 1 + 1) r s hr (by unfold fuelX; omega) hc.1 h0 h1 (Toks_pos htw (by omega))
      (kindAt_pos hrb (by omega)) (kindAt_pos hlp (by omega)) (Toks_pos hte (by omega)) (kindAt_pos hrp (by omega))
      hc.2.2.2.1 hc.2.2.2.2 hc.2.1 hc.2.2.1) res S'' (by
      rw [show (toksX w).length + (toksX e).length + 5 = (toksX w).length + ((toksX e).length + 1 + 1 + 1) + 1 + 1 by omega]
      exact hk)

theorem ov_congr (s : P) (E E' : List Ev) (n n' st sb lv : Nat) (pr : List Nat) (hE : E = E') (hn : n = n') :
    s.ov E n st sb lv pr = s.ov E' n' st sb lv pr := by rw [hE, hn]

theorem endIn_lparen (l : LastTok) : EndIn l .L_PAREN := by cases l <;> simp [EndIn]

theorem lhsC_call (p : Prim) (args : XList) (ihp : LhsCPS p) (hargs : XsOK args (sumXs args)) : LhsCPS (.call p args) := by
  intro f r s res S'' hf hr htk hend hc hk
  simp only [toksP, Toks_append, Toks, tk, List.length_cons, List.length_append, List.length_nil] at htk hend hk
  obtain ⟨htp, hlp, -, hta, hrp, -, -⟩ := htk
  simp only [lhsNeed] at hf
  simp only [CanonP] at hc
  show lhs (f + (dP p + 1) + 2) r s = _
  rw [show f + (dP p + 1) + 2 = (f + 1) + dP p + 2 by omega]
  apply ihp (f + 1) r s res S'' (by omega) hr htp (by rw [hlp]; exact endIn_lparen _) hc.1
  -- one iteration of `postfix_expr` from the state after `p`
  have hroot := lenP_pos p
  generalize hs₁ : s.ov (bodyP p none) (toksP p).length 0 (sbP p) s.live s.protectedPos = s₁
  have h1k : s₁.kinds = s.kinds := by rw [← hs₁]; rfl
  have h1j : s₁.joint = s.joint := by rw [← hs₁]; rfl
  have h1p : s₁.pos = s.pos + (toksP p).length := by rw [← hs₁]; rfl
  have h1n : s₁.noProgressLimit = 0 := by rw [← hs₁]; exact hr.hook
  have h1l : s₁.live = s.live := by rw [← hs₁]; rfl
  have h1pr : s₁.protectedPos = s.protectedPos := by rw [← hs₁]; rfl
  have h1st : s₁.steps = 0 := by rw [← hs₁]; rfl
  have h1lim : s₁.stepLimit = s.stepLimit := by rw [← hs₁]; rfl
  have hsz : s₁.events.size = s.events.size + lenP p := by rw [← hs₁, ← bodyP_length p none]; exact ov_size _ _
  have hp : s₁.events[s.events.size + rootP p]? = some (.start p.kind none) := by
    rw [← hs₁]
    show (s.events ++ (bodyP p none).toArray)[s.events.size + rootP p]? = _
    rw [ov_get, bodyP_root]
  generalize hs₂ : s₁.setEv (s.events.size + rootP p) (.start p.kind (some (s₁.events.size + 0 - (s.events.size + rootP p)))) = s₂
  have h2k : s₂.kinds = s.kinds := by rw [← hs₂]; exact h1k
  have h2j : s₂.joint = s.joint := by rw [← hs₂]; exact h1j
  have h2p : s₂.pos = s.pos + (toksP p).length := by rw [← hs₂]; exact h1p
  have h2n : s₂.noProgressLimit = 0 := by rw [← hs₂]; exact h1n
  have h2lim : s₂.stepLimit = s.stepLimit := by rw [← hs₂]; exact h1lim
  have h2sz : s₂.events.size = s.events.size + lenP p := by rw [← hs₂, setEv_size]; exact hsz
  have hca := callArgsX args (sumXs args) f
    (s₂.ov [Ev.start SyntaxKind.TOMBSTONE none] 0 s₁.steps (s₁.sinceBump + 1) (s₁.live + 1) ((s₁.events.size + 0) :: s₁.protectedPos))
    hargs (by omega)
    (RdyL_ov 6 s₂ _ _ _ _ _ _ h2n (by rw [h1st, h2lim]; have := hr.lim; omega) (by
      intro q hq
      simp only [h2sz, hsz, h1pr, List.length_cons, List.length_nil] at hq ⊢
      rcases List.mem_cons.1 hq with h | h
      · omega
      · have := hr.prot q h; omega) (by rw [h2lim]; exact hr.lim))
    (by show s₂.kindAt (s₂.pos + 0 + 0) = _; rw [h2p]; simp only [P.kindAt, h2k]; exact kindAt_pos hlp (by omega))
    ((Toks_ov s₂ _ _ _ _ _ _ _ _).2 ((Toks_kinds s s₂ h2k h2j _ _).2 (by show Toks s (s₂.pos + 0 + 1) _; rw [h2p]; exact Toks_pos hta (by omega))))
    (by show s₂.kindAt (s₂.pos + 0 + _) = _; rw [h2p]; simp only [P.kindAt, h2k]; exact kindAt_pos hrp (by omega)) hc.2
  rw [ov_ov] at hca
  simp only [List.cons_append, List.nil_append, Nat.zero_add, ov_live, ov_prot] at hca
  refine post_iter_call s₁ h1n (by intro q hq; rw [h1pr] at hq; rw [hsz]; exact Nat.lt_add_right _ (hr.prot q hq))
    _ p.kind p.kind none hp (by rw [h1p]; simp only [P.kindAt, h1k]; exact kindAt_pos hlp (by omega)) f .notBlock
    _ _ 0 3 (by rw [hs₂]; exact hca) ?_ ?_ (res, S'') ?_
  · rw [h1p]; simp only [P.kindAt, h1k]
    have := hend.1; simp only [P.kindAt] at this
    intro h; exact this (by rw [← h]; congr 1; omega)
  · rw [h1p]; simp only [P.kindAt, h1k]
    have := hend.2; simp only [P.kindAt] at this
    intro h; exact this (by rw [← h]; congr 1; omega)
  · rw [hs₂]
    have eP : s₁.events.size + 0 = s.events.size + rootP (.call p args) := by rw [hsz]; rfl
    have eD : s₁.events.size + 0 - (s.events.size + rootP p) = lenP p - rootP p := by rw [hsz]; omega
    have eS : s₂.ov (Ev.start SyntaxKind.CALL_EXPR none :: ((Ev.start SyntaxKind.ARG_LIST none ::
          Ev.start SyntaxKind.EXPRESSION_LIST none :: Ev.token SyntaxKind.L_PAREN 1 ::
          (evsXs args ++ [Ev.token SyntaxKind.R_PAREN 1, Ev.finish, Ev.finish])) ++ [Ev.finish]))
        ((toksXs args).length + 2) 0 (3 + 1) s₁.live s₁.protectedPos =
        s.ov (bodyP (.call p args) none) ((toksP p).length + ((toksXs args).length + (0 + 1) + 1)) 0 (sbP (.call p args))
          s.live s.protectedPos := by
      rw [h1l, h1pr, ← hs₂, eD, ← hs₁, setEv_ov_ov, bodyP_set_root]
      refine ov_congr _ _ _ _ _ _ _ _ _ ?_ (by omega)
      simp only [bodyP, List.cons_append, List.nil_append, List.append_assoc]
    rw [eP, eS]
    exact hk
theorem endIn_lbrack (p : Prim) (h : indexable p = true) : EndIn (lastP p) .L_BRACK := by
  cases p <;> simp_all [indexable, lastP, EndIn]

theorem lhsC_index (p : Prim) (items : ItemList) (ihp : LhsCPS p) (hitems : ItemsOK items (sumItems items)) : LhsCPS (.index p items) := by
  intro f r s res S'' hf hr htk hend hc hk
  simp only [toksP, Toks_append, Toks, tk, List.length_cons, List.length_append, List.length_nil] at htk hend hk
  obtain ⟨htp, hlp, -, hta, hrp, -, -⟩ := htk
  have hkc : indexBaseKind p.kind = true := by
    have := hc.2.1
    cases p <;> simp_all [indexable, indexBaseKind, Prim.kind, X.kind]
  simp only [lhsNeed] at hf
  simp only [CanonP] at hc
  show lhs (f + (dP p + 1) + 2) r s = _
  rw [show f + (dP p + 1) + 2 = (f + 1) + dP p + 2 by omega]
  apply ihp (f + 1) r s res S'' (by omega) hr htp (by rw [hlp]; exact endIn_lbrack p hc.2.1) hc.1
  -- one iteration of `postfix_expr` from the state after `p`
  have hroot := lenP_pos p
  generalize hs₁ : s.ov (bodyP p none) (toksP p).length 0 (sbP p) s.live s.protectedPos = s₁
  have h1k : s₁.kinds = s.kinds := by rw [← hs₁]; rfl
  have h1j : s₁.joint = s.joint := by rw [← hs₁]; rfl
  have h1p : s₁.pos = s.pos + (toksP p).length := by rw [← hs₁]; rfl
  have h1n : s₁.noProgressLimit = 0 := by rw [← hs₁]; exact hr.hook
  have h1l : s₁.live = s.live := by rw [← hs₁]; rfl
  have h1pr : s₁.protectedPos = s.protectedPos := by rw [← hs₁]; rfl
  have h1st : s₁.steps = 0 := by rw [← hs₁]; rfl
  have h1lim : s₁.stepLimit = s.stepLimit := by rw [← hs₁]; rfl
  have hsz : s₁.events.size = s.events.size + lenP p := by rw [← hs₁, ← bodyP_length p none]; exact ov_size _ _
  have hp : s₁.events[s.events.size + rootP p]? = some (.start p.kind none) := by
    rw [← hs₁]
    show (s.events ++ (bodyP p none).toArray)[s.events.size + rootP p]? = _
    rw [ov_get, bodyP_root]
  generalize hs₂ : s₁.setEv (s.events.size + rootP p) (.start p.kind (some (s₁.events.size + 0 - (s.events.size + rootP p)))) = s₂
  have h2k : s₂.kinds = s.kinds := by rw [← hs₂]; exact h1k
  have h2j : s₂.joint = s.joint := by rw [← hs₂]; exact h1j
  have h2p : s₂.pos = s.pos + (toksP p).length := by rw [← hs₂]; exact h1p
  have h2n : s₂.noProgressLimit = 0 := by rw [← hs₂]; exact h1n
  have h2lim : s₂.stepLimit = s.stepLimit := by rw [← hs₂]; exact h1lim
  have h2sz : s₂.events.size = s.events.size + lenP p := by rw [← hs₂, setEv_size]; exact hsz
  have hca := indexOp_acc items (sumItems items) f
    (s₂.ov [Ev.start SyntaxKind.TOMBSTONE none] 0 s₁.steps (s₁.sinceBump + 1) (s₁.live + 1) ((s₁.events.size + 0) :: s₁.protectedPos))
    hitems (by omega)
    (RdyL_ov 6 s₂ _ _ _ _ _ _ h2n (by rw [h1st, h2lim]; have := hr.lim; omega) (by
      intro q hq
      simp only [h2sz, hsz, h1pr, List.length_cons, List.length_nil] at hq ⊢
      rcases List.mem_cons.1 hq with h | h
      · omega
      · have := hr.prot q h; omega) (by rw [h2lim]; exact hr.lim))
    (by show s₂.kindAt (s₂.pos + 0 + 0) = _; rw [h2p]; simp only [P.kindAt, h2k]; exact kindAt_pos hlp (by omega))
    ((Toks_ov s₂ _ _ _ _ _ _ _ _).2 ((Toks_kinds s s₂ h2k h2j _ _).2 (by show Toks s (s₂.pos + 0 + 1) _; rw [h2p]; exact Toks_pos hta (by omega))))
    (by show s₂.kindAt (s₂.pos + 0 + _) = _; rw [h2p]; simp only [P.kindAt, h2k]; exact kindAt_pos hrp (by omega)) hc.2.2.1 hc.2.2.2
  rw [ov_ov] at hca
  simp only [List.cons_append, List.nil_append, Nat.zero_add, ov_live, ov_prot] at hca
  refine post_iter_index s₁ h1n (by intro q hq; rw [h1pr] at hq; rw [hsz]; exact Nat.lt_add_right _ (hr.prot q hq))
    _ p.kind p.kind hkc none hp (by rw [h1p]; simp only [P.kindAt, h1k]; exact kindAt_pos hlp (by omega)) f .notBlock
    _ _ 0 2 (by rw [hs₂]; exact hca) (res, S'') ?_
  · rw [hs₂]
    have eP : s₁.events.size + 0 = s.events.size + rootP (.index p items) := by rw [hsz]; rfl
    have eD : s₁.events.size + 0 - (s.events.size + rootP p) = lenP p - rootP p := by rw [hsz]; omega
    have eS : s₂.ov (Ev.start SyntaxKind.INDEX_EXPR none :: ((Ev.start SyntaxKind.INDEX_OPERATOR none ::
          Ev.token SyntaxKind.L_BRACK 1 :: Ev.start SyntaxKind.EXPRESSION_LIST none ::
          (evsItems items ++ [Ev.finish, Ev.token SyntaxKind.R_BRACK 1, Ev.finish])) ++ [Ev.finish]))
        ((toksItems items).length + 2) 0 (2 + 1) s₁.live s₁.protectedPos =
        s.ov (bodyP (.index p items) none) ((toksP p).length + ((toksItems items).length + (0 + 1) + 1)) 0 (sbP (.index p items))
          s.live s.protectedPos := by
      rw [h1l, h1pr, ← hs₂, eD, ← hs₁, setEv_ov_ov, bodyP_set_root]
      refine ov_congr _ _ _ _ _ _ _ _ _ ?_ (by omega)
      simp only [bodyP, List.cons_append, List.nil_append, List.append_assoc]
    rw [eP, eS]
    exact hk

theorem lhsC_idIdx (ixs : IdxList) (hixs : IdxOK ixs (sumIdx ixs)) : LhsCPS (.idIdx ixs) := by
  intro f r s res S'' hf hr htk hend hc hk
  simp only [toksP, Toks, tk, List.length_cons] at htk hend hk
  obtain ⟨h0, -, hti⟩ := htk
  rw [show s.pos = s.pos + 0 from rfl] at h0
  have h1 : s.kindAt (s.pos + 1) = .L_BRACK := by
    obtain ⟨ts, hts⟩ := toksIdx_head ixs
    rw [hts] at hti; exact hti.1
  simp only [lhsNeed] at hf
  simp only [CanonP] at hc
  show lhs (f + 1 + 2) r s = _
  refine lhs_of_atom (f + 1) r s _ h0 (by decide) _ _ _ _
    (atom_id (f + 1) r s (hr.mono (by omega)) h0 (by rw [h1]; decide) (by rw [h1]; decide)) res S'' ?_
  generalize hs₁ : s.ov (bodyP .id none) 1 0 2 s.live s.protectedPos = s₁
  have h1k : s₁.kinds = s.kinds := by rw [← hs₁]; rfl
  have h1j : s₁.joint = s.joint := by rw [← hs₁]; rfl
  have h1p : s₁.pos = s.pos + 1 := by rw [← hs₁]; rfl
  have h1n : s₁.noProgressLimit = 0 := by rw [← hs₁]; exact hr.hook
  have h1l : s₁.live = s.live := by rw [← hs₁]; rfl
  have h1pr : s₁.protectedPos = s.protectedPos := by rw [← hs₁]; rfl
  have h1st : s₁.steps = 0 := by rw [← hs₁]; rfl
  have h1lim : s₁.stepLimit = s.stepLimit := by rw [← hs₁]; rfl
  have hsz : s₁.events.size = s.events.size + 3 := by rw [← hs₁]; exact ov_size _ _
  have hp : s₁.events[s.events.size + 0]? = some (.start .IDENTIFIER none) := by
    rw [← hs₁]
    show (s.events ++ (bodyP .id none).toArray)[s.events.size + 0]? = _
    rw [ov_get]; rfl
  generalize hs₂ : s₁.setEv (s.events.size + 0) (.start .IDENTIFIER (some (s₁.events.size + 0 - (s.events.size + 0)))) = s₂
  have h2k : s₂.kinds = s.kinds := by rw [← hs₂]; exact h1k
  have h2j : s₂.joint = s.joint := by rw [← hs₂]; exact h1j
  have h2p : s₂.pos = s.pos + 1 := by rw [← hs₂]; exact h1p
  have h2n : s₂.noProgressLimit = 0 := by rw [← hs₂]; exact h1n
  have h2lim : s₂.stepLimit = s.stepLimit := by rw [← hs₂]; exact h1lim
  have h2sz : s₂.events.size = s.events.size + 3 := by rw [← hs₂, setEv_size]; exact hsz
  have hca := idxLoop ixs (sumIdx ixs) f
    (s₂.ov [Ev.start SyntaxKind.TOMBSTONE none] 0 s₁.steps (s₁.sinceBump + 1) (s₁.live + 1) ((s₁.events.size + 0) :: s₁.protectedPos))
    hixs (by omega)
    (RdyL_ov 6 s₂ _ _ _ _ _ _ h2n (by rw [h1st, h2lim]; have := hr.lim; omega) (by
      intro q hq
      simp only [h2sz, hsz, h1pr, List.length_cons, List.length_nil] at hq ⊢
      rcases List.mem_cons.1 hq with h | h
      · omega
      · have := hr.prot q h; omega) (by rw [h2lim]; exact hr.lim))
    ((Toks_ov s₂ _ _ _ _ _ _ _ _).2 ((Toks_kinds s s₂ h2k h2j _ _).2 (by show Toks s (s₂.pos + 0) _; rw [h2p]; exact hti)))
    (by show s₂.kindAt (s₂.pos + 0 + _) ≠ _; rw [h2p]; simp only [P.kindAt, h2k]
        have := hend; simp only [EndIn, lastP, P.kindAt] at this
        intro h; exact this (by rw [← h]; congr 1; omega)) hc.1 hc.2
  rw [ov_ov] at hca
  simp only [List.cons_append, List.nil_append, Nat.zero_add, ov_live, ov_prot] at hca
  refine post_iter_idIdx s₁ h1n (by intro q hq; rw [h1pr] at hq; rw [hsz]; exact Nat.lt_add_right _ (hr.prot q hq))
    _ .IDENTIFIER none hp (by rw [h1p]; simp only [P.kindAt, h1k]; exact kindAt_pos h1 (by omega)) f .notBlock
    _ _ 0 2 (by rw [hs₂]; exact hca) (res, S'') ?_
  rw [hs₂]
  have eP : s₁.events.size + 0 = s.events.size + rootP (.idIdx ixs) := by rw [hsz]; rfl
  have eS : s₂.ov (Ev.start SyntaxKind.INDEXED_IDENTIFIER none :: (evsIdx ixs ++ [Ev.finish]))
      (toksIdx ixs).length 0 (2 + 1) s₁.live s₁.protectedPos =
      s.ov (bodyP (.idIdx ixs) none) ((toksIdx ixs).length + 1) 0 (sbP (.idIdx ixs)) s.live s.protectedPos := by
    rw [h1l, h1pr, ← hs₂, hsz, ← hs₁, setEv_ov_ov]
    refine ov_congr _ _ _ _ _ _ _ _ _ ?_ (by omega)
    simp only [bodyP, List.set_cons_zero, List.cons_append, List.nil_append, List.append_assoc]
    rw [show s.events.size + 3 + 0 - (s.events.size + 0) = 3 by omega]
  rw [eP, eS]
  exact hk

/-! ### the induction over `X` -/

theorem kindAt_ne_pos {s : P} {A B : Nat} {K : SyntaxKind} (h : s.kindAt B ≠ K) (e : A = B) : s.kindAt A ≠ K := e ▸ h

/-- value form of `lhs` on a primary, from an overlay state -/
theorem lhsX_ov (p : Prim) (h : LhsCPS p) (F : Nat) (r : Restrictions) (s : P) (E0 : List Ev) (dp st sb lv : Nat)
    (pr : List Nat) (hnp : s.noProgressLimit = 0) (hst : st + 3 ≤ s.stepLimit) (hlim : 16 ≤ s.stepLimit)
    (hpr : ∀ q ∈ pr, q < s.events.size + E0.length) (htk : Toks s (s.pos + dp) (toksP p))
    (hend : EndOKL (lastP p) (s.kindAt (s.pos + dp + (toksP p).length))) (hc : CanonP p)
    (hF : lhsNeed p + dP p + 3 ≤ F) :
    lhs F r (s.ov E0 dp st sb lv pr) =
      .ok (some (⟨s.events.size + E0.length + rootP p, p.kind⟩, .notBlock),
        s.ov (E0 ++ bodyP p none) (dp + (toksP p).length) 0 (sbP p) lv pr) := by
  obtain ⟨f, rfl⟩ : ∃ f, F = (f + 1) + dP p + 2 := ⟨F - dP p - 3, by omega⟩
  have e1 : (s.ov E0 dp st sb lv pr).events.size = s.events.size + E0.length := ov_size _ _
  have := h (f + 1) r (s.ov E0 dp st sb lv pr) (⟨s.events.size + E0.length + rootP p, p.kind⟩, .notBlock)
    (s.ov (E0 ++ bodyP p none) (dp + (toksP p).length) 0 (sbP p) lv pr) (by omega)
    (RdyL_ov 3 s _ _ _ _ _ _ hnp hst hpr hlim) ((Toks_ov s _ _ _ _ _ _ _ _).2 htk) hend.2.2 hc
    (by
      rw [e1, ov_ov]
      exact post_stop s _ (dp + (toksP p).length) _ _ _ _ (f + 1) _ _ (kindAt_ne_pos hend.1 (by omega)) (kindAt_ne_pos hend.2.1 (by omega)))
  exact this

/-- continuation form of the round trip for one expression, from a base state -/
def MBaseX (x : X) : Prop :=
  ∀ (bp f : Nat) (r : Restrictions) (s : P) (a : Option (CompletedMarker × BlockLike)) (S'' : P),
    RdyL 5 s → FitsX x s s.pos → CanonX bp x → needX x ≤ f →
    exprBpLoop f r bp ⟨s.events.size + (rootX x + 1), x.kind⟩
      (s.ov (evsX x) (toksX x).length 0 (sbX x) s.live s.protectedPos) = .ok (a, S'') →
    exprBp (f + cFX x) none r bp s = .ok (a, S'')

def isTyKw (k : SyntaxKind) : Bool :=
  k == .INT_TY || k == .UINT_TY || k == .FLOAT_TY || k == .ANGLE_TY || k == .BIT_TY || k == .BOOL_TY

def isEF (k : SyntaxKind) : Bool := decide (k.toNat < 128) && TokenSets.EXPR_FIRST.contains k

theorem isEF_true : [SyntaxKind.IDENT, .INT_NUMBER, .FLOAT_NUMBER, .BIT_STRING, .TRUE_KW, .FALSE_KW, .HARDWAREIDENT, .L_PAREN,
    .MEASURE_KW].all isEF = true := by decide
theorem isEF_ty (ty : Ty) : isEF ty.kind = false ∧ isClassicalType ty.kind = true := by cases ty <;> decide

/-- a primary starts with a token of `EXPR_FIRST`, or it is a cast: a type keyword followed by `(` or `[` -/
theorem firstP_cases : ∀ p : Prim,
    isEF (firstP p) = true ∨
    (isEF (firstP p) = false ∧ isClassicalType (firstP p) = true ∧
      ∃ j k2 j2 ts, toksP p = (firstP p, j) :: (k2, j2) :: ts ∧ (k2 = .L_PAREN ∨ k2 = .L_BRACK))
  | .id => Or.inl (by have := isEF_true; simp only [List.all_cons, Bool.and_eq_true] at this; exact this.1)
  | .lit k => Or.inl (by
      have := isEF_true; simp only [List.all_cons, Bool.and_eq_true] at this
      cases k
      · exact this.2.1
      · exact this.2.2.1
      · exact this.2.2.2.1
      · exact this.2.2.2.2.1
      · exact this.2.2.2.2.2.1)
  | .timing k => Or.inl (by
      have := isEF_true; simp only [List.all_cons, Bool.and_eq_true] at this
      cases k
      · exact this.2.1
      · exact this.2.2.1)
  | .hw => Or.inl (by have := isEF_true; simp only [List.all_cons, Bool.and_eq_true] at this; exact this.2.2.2.2.2.2.1)
  | .paren _ => Or.inl (by have := isEF_true; simp only [List.all_cons, Bool.and_eq_true] at this; exact this.2.2.2.2.2.2.2.1)
  | .measureE => Or.inl (by have := isEF_true; simp only [List.all_cons, Bool.and_eq_true] at this; exact this.2.2.2.2.2.2.2.2.1)
  | .measureHw => Or.inl (by have := isEF_true; simp only [List.all_cons, Bool.and_eq_true] at this; exact this.2.2.2.2.2.2.2.2.1)
  | .measureIdx _ => Or.inl (by have := isEF_true; simp only [List.all_cons, Bool.and_eq_true] at this; exact this.2.2.2.2.2.2.2.2.1)
  | .idIdx _ => Or.inl (by have := isEF_true; simp only [List.all_cons, Bool.and_eq_true] at this; exact this.1)
  | .cast0 ty e => Or.inr ⟨(isEF_ty ty).1, (isEF_ty ty).2, _, _, _, _, rfl, Or.inl rfl⟩
  | .castW ty w e => Or.inr ⟨(isEF_ty ty).1, (isEF_ty ty).2, _, _, _, _, rfl, Or.inr rfl⟩
  | .call p args => by
    rcases firstP_cases p with h | ⟨h1, h2, j, k2, j2, ts, ht, hk⟩
    · exact Or.inl h
    · exact Or.inr ⟨h1, h2, j, k2, j2, ts ++ (tk .L_PAREN :: (toksXs args ++ [tk .R_PAREN])), by simp [toksP, firstP, ht], hk⟩
  | .index p items => by
    rcases firstP_cases p with h | ⟨h1, h2, j, k2, j2, ts, ht, hk⟩
    · exact Or.inl h
    · exact Or.inr ⟨h1, h2, j, k2, j2, ts ++ (tk .L_BRACK :: (toksItems items ++ [tk .R_BRACK])), by simp [toksP, firstP, ht], hk⟩

theorem MX_prim (p : Prim) (h : LhsCPS p) : MBaseX (.prim p) := by
  intro bp f r s a S'' hr hfit hcan hf hloop
  obtain ⟨htk, hend, -⟩ := hfit
  simp only [toksX, lastX, EndOKX] at htk hend hloop
  simp only [CanonX] at hcan
  simp only [needX] at hf
  obtain ⟨j, ts, hts⟩ := toksP_first p
  have h0 : s.kindAt (s.pos + 0) = firstP p := by rw [hts] at htk; exact htk.1
  have hpr' : ∀ n, ∀ q ∈ s.protectedPos, q < s.events.size + n := fun n q hq => Nat.lt_add_right n (hr.prot q hq)
  have hl : ∀ st, st + 3 ≤ s.stepLimit → lhs f r (s.ov [Ev.start SyntaxKind.TOMBSTONE none] 0 st (s.sinceBump + 1) (s.live + 1) s.protectedPos) = _ :=
    fun st hst => lhsX_ov p h f r s _ 0 st _ _ _ hr.hook hst hr.lim (hpr' _) (by rw [Nat.add_zero]; exact htk)
      (by rw [Nat.add_zero]; exact hend) hcan (by omega)
  have e1 : s.events.size + 1 + rootP p = s.events.size + (rootP p + 1) := by omega
  simp only [List.cons_append, List.nil_append, List.length_cons, List.length_nil, Nat.zero_add, e1] at hl
  have hnp := hr.hook
  have hpr := hr.prot
  have hsteps := hr.steps
  have hst : s.steps ≤ s.stepLimit := by omega
  have hroot := bodyP_root p none
  have hkt := Prim.kind_ne_tomb p
  show exprBp (f + 1) none r bp s = _
  apply of_ov
  have hloop' : exprBpLoop f r bp ⟨s.events.size + (rootP p + 1), p.kind⟩
      (s.ov (Ev.start SyntaxKind.TOMBSTONE (some (rootP p + 1)) :: bodyP p none) (toksP p).length 0 (sbP p) s.live
        s.protectedPos) = .ok (a, S'') := hloop
  rcases firstP_cases p with hEF | ⟨hEF, hICT, j, k2, j2, ts2, ht2, hk2⟩
  · rw [← h0] at hEF
    unfold isEF at hEF
    show _ = _
    sym_eval [filter_base s hpr, contains_base s hpr, hEF, hl, hroot, hkt, Nat.sub_zero, hloop']
    rfl
  · rw [← h0] at hEF hICT
    unfold isEF at hEF
    have h1 : s.kindAt (s.pos + 1) = k2 := by rw [ht2] at htk; exact htk.2.2.1
    have hla : (s.kindAt (s.pos + 1) == SyntaxKind.L_PAREN || s.kindAt (s.pos + 1) == SyntaxKind.L_BRACK) = true := by
      rw [h1]; rcases hk2 with h | h <;> rw [h] <;> rfl
    show _ = _
    sym_eval [filter_base s hpr, contains_base s hpr, hEF, hICT, hla, hl, hroot, hkt, Nat.sub_zero, hloop']
    rfl

theorem cFX_pos (x : X) : 1 ≤ cFX x := by cases x <;> simp only [cFX] <;> omega

theorem needX_pos (x : X) : 1 ≤ needX x := by
  cases x with
  | prim p => simp only [needX]; omega
  | pre o e => simp only [needX]; omega
  | bin o l r => have := cFX_pos r; simp only [needX]; omega

theorem RightStopsX_kinds (s s' : P) (hk : s'.kinds = s.kinds) (hj : s'.joint = s.joint) :
    ∀ (x : X) (q : Nat), RightStopsX x s' q ↔ RightStopsX x s q
  | .prim _, _ => Iff.rfl
  | .pre o e, q => by simp only [RightStopsX, RightStopsX_kinds s s' hk hj e q, StopsAt_kinds s s' hk hj]
  | .bin o l r, q => by simp only [RightStopsX, RightStopsX_kinds s s' hk hj r q, StopsAt_kinds s s' hk hj]

theorem FitsX_kinds (s s' : P) (hk : s'.kinds = s.kinds) (hj : s'.joint = s.joint) (x : X) (q : Nat) :
    FitsX x s' q ↔ FitsX x s q := by
  constructor
  · rintro ⟨a, b, c⟩
    exact ⟨(Toks_kinds s s' hk hj _ _).1 a, by simpa only [P.kindAt, hk] using b,
      (RightStopsX_kinds s s' hk hj _ _).1 c⟩
  · rintro ⟨a, b, c⟩
    exact ⟨(Toks_kinds s s' hk hj _ _).2 a, by simpa only [P.kindAt, hk] using b,
      (RightStopsX_kinds s s' hk hj _ _).2 c⟩

/-- the value form from the continuation form (the loop stops at the follow token) -/
theorem ExprOK_of_MBaseX (x : X) (h : MBaseX x) : ExprOK x (needX x + cFX x) := by
  intro bp f r s E0 dp st sb lv pr hnp hst hlim hpr hfit hcan hstop hf
  have hn := needX_pos x
  obtain ⟨g, rfl⟩ : ∃ g, f = (g + 1) + cFX x := ⟨f - cFX x - 1, by omega⟩
  have e1 : (s.ov E0 dp st sb lv pr).events.size = s.events.size + E0.length := ov_size _ _
  have hfit' : FitsX x (s.ov E0 dp st sb lv pr) (s.ov E0 dp st sb lv pr).pos :=
    (FitsX_kinds s (s.ov E0 dp st sb lv pr) rfl rfl x _).2 hfit
  have hstop' : StopsAt (s.ov E0 dp st sb lv pr) ((s.ov E0 dp st sb lv pr).pos + (toksX x).length) bp :=
    (StopsAt_kinds s (s.ov E0 dp st sb lv pr) rfl rfl _ _).2 hstop
  have := h bp (g + 1) r (s.ov E0 dp st sb lv pr) _ _ (RdyL_ov 5 s _ _ _ _ _ _ hnp hst hpr hlim) hfit' hcan (by omega)
    (loop_stop (s.ov E0 dp st sb lv pr) (evsX x) (toksX x).length 0 (sbX x) lv pr g bp r _ hstop')
  rw [this, ov_ov, e1]

theorem MX_pre (o : PreOp) (e : X) (ih : MBaseX e) : MBaseX (.pre o e) := by
  intro bp f r s a S'' hr hfit hcan hf hloop
  obtain ⟨g, rfl⟩ : ∃ g, f = g + 1 := ⟨f - 1, by simp only [needX] at hf; omega⟩
  have hg : needX e + cFX e ≤ g := by simp only [needX] at hf; omega
  obtain ⟨htk, hend, hright⟩ := hfit
  simp only [toksX, Toks, List.length_cons, lastX, EndOKX] at htk hend hright
  obtain ⟨h0, -, htk⟩ := htk
  simp only [CanonX] at hcan
  have hfit' : FitsX e s (s.pos + 1) :=
    ⟨htk, by rw [Nat.add_assoc, Nat.add_comm 1]; exact hend,
      by rw [Nat.add_assoc, Nat.add_comm 1]; exact hright.2⟩
  have hpr' : ∀ n, ∀ p ∈ s.protectedPos, p < s.events.size + n := fun n p hp => Nat.lt_add_right n (hr.prot p hp)
  have hsub := fun st sb lv E0 h1 => ExprOK_of_MBaseX e ih 255 g r s E0 1 st sb lv s.protectedPos hr.hook h1 hr.lim (hpr' _) hfit' hcan
    (by rw [Nat.add_assoc, Nat.add_comm 1]; exact hright.1) hg
  rw [show s.pos = s.pos + 0 from rfl] at h0
  have hloop' : exprBpLoop (g + 1) r bp ⟨s.events.size + 1, .PREFIX_EXPR⟩
      (s.ov (.start .TOMBSTONE (some 1) :: .start .PREFIX_EXPR none :: .token o.kind 1 :: (evsX e ++ [.finish]))
        (1 + (toksX e).length) 0 (sbX e + 1) s.live s.protectedPos) = .ok (a, S'') := by
    rw [show (toksX (.pre o e)).length = 1 + (toksX e).length from by simp only [toksX, List.length_cons, Nat.add_comm]]
      at hloop
    exact hloop
  have hnp := hr.hook
  have hpr := hr.prot
  have hsteps := hr.steps
  have hlim := hr.lim
  have hst : s.steps ≤ s.stepLimit := by omega
  show exprBp (g + 1 + 1) none r bp s = _
  apply of_ov
  cases o <;> simp only [PreOp.kind] at h0 hloop' <;>
  (sym_eval [filter_base s hpr, contains_base s hpr, h0, hsub, hloop']; rfl)


theorem MX_bin (o : BinOp) (l r : X) (ihl : MBaseX l) (ihr : MBaseX r) : MBaseX (.bin o l r) := by
  intro bp f r' s a S'' hrd hfit hcan hf hloop
  simp only [needX] at hf
  obtain ⟨htk, hend, hright⟩ := hfit
  simp only [toksX, Toks_append, List.length_append, BinOp.pieces_length, lastX, EndOKX] at htk hend hright
  obtain ⟨htl, hto, htr⟩ := htk
  simp only [CanonX] at hcan
  obtain ⟨hbp, hcr, hcl⟩ := hcan
  obtain ⟨jr, tsr, htsr⟩ := toksX_first r
  have hnext : NoSecond (s.kindAt (s.pos + (toksX l).length + o.pieces.length)) := by
    rw [htsr] at htr; rw [htr.1]; exact (xFirst_ne (firstX_xFirst r)).1
  have hop := opF_binop2 o s _ hto hnext
  have hnp := hrd.hook
  have hpr := hrd.prot
  -- the left operand
  have hcl' : CanonX bp l := by cases l <;> first | exact hcl | exact hcl.2
  have hfitl : FitsX l s s.pos := by
    refine ⟨htl, ?_, ?_⟩
    · obtain ⟨k, j, ts, hk, h1, h2, h3, h4⟩ := o.first_tok
      rw [hk] at hto
      rw [hto.1]
      unfold EndOKX EndOKL
      refine ⟨h1, h2, ?_⟩
      cases lastX l
      · exact ⟨h3, h4⟩
      · exact h3
      · exact ⟨h3, h4⟩
      · exact h2
      · trivial
    · cases l with
      | prim p => trivial
      | pre o' e' =>
        simp only [CanonX] at hcl
        have h255 : StopsAt s (s.pos + (toksX (X.pre o' e')).length) 255 := by
          unfold StopsAt; rw [hop]; exact o.pow_lt
        exact ⟨h255, rightStopsX_of_canon e' 255 s _ hcl h255 (Nat.le_refl _)⟩
      | bin o' l' r' =>
        obtain ⟨hlt, hcl2⟩ := hcl
        simp only [CanonX] at hcl2
        have hs : StopsAt s (s.pos + (toksX (X.bin o' l' r')).length) (o'.pow + 1) := by
          unfold StopsAt; rw [hop]; exact hlt
        exact ⟨hs, rightStopsX_of_canon r' (o'.pow + 1) s _ hcl2.2.1 hs (by have := o'.pow_lt; omega)⟩
  show exprBp (f + (cFX l + 1)) none r' bp s = _
  rw [show f + (cFX l + 1) = (f + 1) + cFX l by omega]
  apply ihl bp (f + 1) r' s a S'' hrd hfitl hcl' (by omega)
  -- one iteration of the loop, from the state after the left operand
  have hlen := lenX_pos l
  generalize hs₁ : s.ov (evsX l) (toksX l).length 0 (sbX l) s.live s.protectedPos = s₁
  have h1k : s₁.kinds = s.kinds := by rw [← hs₁]; rfl
  have h1j : s₁.joint = s.joint := by rw [← hs₁]; rfl
  have h1p : s₁.pos = s.pos + (toksX l).length := by rw [← hs₁]; rfl
  have h1n : s₁.noProgressLimit = 0 := by rw [← hs₁]; exact hnp
  have h1l : s₁.live = s.live := by rw [← hs₁]; rfl
  have h1pr : s₁.protectedPos = s.protectedPos := by rw [← hs₁]; rfl
  have h1lim : s₁.stepLimit = s.stepLimit := by rw [← hs₁]; rfl
  have hsz : s₁.events.size = s.events.size + (lenX l + 1) := by rw [← hs₁, ← evsX_length]; exact ov_size _ _
  have hp : s₁.events[s.events.size + (rootX l + 1)]? = some (.start l.kind none) := by
    rw [← hs₁]
    show (s.events ++ (evsX l).toArray)[s.events.size + (rootX l + 1)]? = _
    rw [ov_get, evsX_root]
  -- the right operand, from the rebased state
  have hfitr : FitsX r s (s.pos + (toksX l).length + o.pieces.length) :=
    ⟨htr, by rw [Nat.add_assoc, Nat.add_assoc]; exact hend,
      by rw [Nat.add_assoc, Nat.add_assoc]; exact hright.2⟩
  have hstopr : StopsAt s (s.pos + (toksX l).length + o.pieces.length + (toksX r).length) (o.pow + 1) := by
    rw [Nat.add_assoc, Nat.add_assoc]; exact hright.1
  generalize hs₂ : s₁.setEv (s.events.size + (rootX l + 1))
    (.start l.kind (some (s₁.events.size + 0 - (s.events.size + (rootX l + 1))))) = s₂
  have h2k : s₂.kinds = s.kinds := by rw [← hs₂]; exact h1k
  have h2j : s₂.joint = s.joint := by rw [← hs₂]; exact h1j
  have h2p : s₂.pos = s.pos + (toksX l).length := by rw [← hs₂]; exact h1p
  have h2n : s₂.noProgressLimit = 0 := by rw [← hs₂]; exact h1n
  have h2lim : s₂.stepLimit = s.stepLimit := by rw [← hs₂]; exact h1lim
  have h2sz : s₂.events.size = s.events.size + (lenX l + 1) := by rw [← hs₂, setEv_size]; exact hsz
  have hr := ExprOK_of_MBaseX r ihr (o.pow + 1) f { preferStmt := false } s₂
    [.start .TOMBSTONE none, .token o.kind o.pieces.length] (0 + o.pieces.length) 0 1 (s₁.live + 1)
    ((s₁.events.size + 0) :: s₁.protectedPos) h2n (by rw [h2lim]; have := hrd.lim; omega) (by rw [h2lim]; exact hrd.lim)
    (by
      intro p hp
      simp only [h2sz, hsz, h1pr, List.length_cons, List.length_nil] at hp ⊢
      rcases List.mem_cons.1 hp with h | h
      · omega
      · have := hpr p h; omega)
    ((FitsX_kinds s s₂ h2k h2j r _).2 (by rw [h2p, Nat.zero_add]; exact hfitr)) hcr
    ((StopsAt_kinds s s₂ h2k h2j _ _).2 (by rw [h2p, Nat.zero_add]; exact hstopr)) (by omega)
  have h1tk : Toks s₁ s₁.pos o.toks := (Toks_kinds s s₁ h1k h1j _ _).2 (by rw [h1p]; exact hto)
  have h1next : NoSecond (s₁.kindAt (s₁.pos + o.pieces.length)) := by
    rw [h1p]; simp only [P.kindAt, h1k]; exact hnext
  refine loop_iter2 s₁ h1n (by intro p hp; rw [h1pr] at hp; rw [hsz]; exact Nat.lt_add_right _ (hpr p hp))
    _ l.kind l.kind none hp o h1tk h1next bp hbp f r' _ (evsX r) (toksX r).length (sbX r)
    (by rw [hs₂]; exact hr) a S'' ?hk
  case hk =>
    have eP : s₁.events.size + 0 = s.events.size + (rootX (X.bin o l r) + 1) := by
      rw [hsz]; show _ = s.events.size + (lenX l + 1); omega
    have eD : s₁.events.size + 0 - (s.events.size + (rootX l + 1)) = lenX l - rootX l := by
      rw [hsz]; omega
    have eS : s₂.ov (Ev.start SyntaxKind.BIN_EXPR none :: Ev.token o.kind o.pieces.length :: (evsX r ++ [Ev.finish]))
        (0 + o.pieces.length + (toksX r).length) 0 (sbX r + 1) s₁.live s₁.protectedPos =
        s.ov (evsX (X.bin o l r)) (toksX (X.bin o l r)).length 0 (sbX (X.bin o l r)) s.live s.protectedPos := by
      rw [h1l, h1pr, ← hs₂, eD, ← hs₁, setEv_ov_ov, evsX_set_root]
      have e1 : (Ev.start SyntaxKind.TOMBSTONE (some (headOff l + 1)) :: bodyX l (some (lenX l - rootX l))) ++
          (Ev.start SyntaxKind.BIN_EXPR none :: Ev.token o.kind o.pieces.length :: (evsX r ++ [Ev.finish])) =
          evsX (X.bin o l r) := by
        simp only [evsX, bodyX, headOff, List.cons_append, List.nil_append, List.append_assoc]
      have e2 : (toksX l).length + (0 + o.pieces.length + (toksX r).length) = (toksX (X.bin o l r)).length := by
        simp only [toksX, List.length_append, BinOp.pieces_length]; omega
      rw [e1, e2]
      rfl
    rw [hs₂, eP, eS]
    exact hloop


mutual
/-- **continuation form of the round trip of extended expressions** -/
theorem mbaseX : ∀ x : X, MBaseX x
  | .prim p => MX_prim p (lhsCPS p)
  | .pre o e => MX_pre o e (mbaseX e)
  | .bin o l r => MX_bin o l r (mbaseX l) (mbaseX r)
theorem lhsCPS : ∀ p : Prim, LhsCPS p
  | .id => lhsC_id
  | .lit k => lhsC_lit k
  | .timing k => lhsC_timing k
  | .hw => lhsC_hw
  | .measureE => lhsC_measure
  | .measureHw => lhsC_measureHw
  | .measureIdx ixs => lhsC_measureIdx ixs (idxOK ixs)
  | .paren e => lhsC_paren e (ExprOK_of_MBaseX e (mbaseX e))
  | .cast0 ty e => lhsC_cast0 ty e (ExprOK_of_MBaseX e (mbaseX e))
  | .castW ty w e => lhsC_castW ty w e (ExprOK_of_MBaseX w (mbaseX w)) (ExprOK_of_MBaseX e (mbaseX e))
  | .idIdx ixs => lhsC_idIdx ixs (idxOK ixs)
  | .call p args => lhsC_call p args (lhsCPS p) (xsOK args)
  | .index p items => lhsC_index p items (lhsCPS p) (itemsOK items)
theorem xsOK : ∀ xs : XList, XsOK xs (sumXs xs)
  | .nil => trivial
  | .cons x xs => ⟨(ExprOK_of_MBaseX x (mbaseX x)).mono (by simp only [sumXs]; omega),
      (xsOK xs).mono (by simp only [sumXs]; omega)⟩
theorem itemOK : ∀ i : Item, ItemOK i (sumItem i)
  | .ex x => ExprOK_of_MBaseX x (mbaseX x)
  | .r2 lo hi => ⟨(ExprOK_of_MBaseX lo (mbaseX lo)).mono (by simp only [sumItem]; omega),
      (ExprOK_of_MBaseX hi (mbaseX hi)).mono (by simp only [sumItem]; omega)⟩
  | .r3 lo mid hi => ⟨(ExprOK_of_MBaseX lo (mbaseX lo)).mono (by simp only [sumItem]; omega),
      (ExprOK_of_MBaseX mid (mbaseX mid)).mono (by simp only [sumItem]; omega),
      (ExprOK_of_MBaseX hi (mbaseX hi)).mono (by simp only [sumItem]; omega)⟩
theorem itemsOK : ∀ is : ItemList, ItemsOK is (sumItems is)
  | .one i => itemOK i
  | .cons i is => ⟨(itemOK i).mono (by simp only [sumItems]; omega), (itemsOK is).mono (by simp only [sumItems]; omega)⟩
theorem idxOK : ∀ ixs : IdxList, IdxOK ixs (sumIdx ixs)
  | .one is => itemsOK is
  | .cons is rest => ⟨(itemsOK is).mono (by simp only [sumIdx]; omega), (idxOK rest).mono (by simp only [sumIdx]; omega)⟩
end

/-- **the expression rule for the extended expressions**: `expr_bp` parses the print of `x` with exactly
the events `evsX x`, for every fuel ≥ `fuelX x` -/
theorem exprX_ok (x : X) : ExprOK x (fuelX x) := ExprOK_of_MBaseX x (mbaseX x)

end Oq3.LangEv2
