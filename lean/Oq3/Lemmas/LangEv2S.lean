/-
C04, extended reference language, part 6: STATEMENTS `Stmt2` over the extended expressions `X` —
definitions (print `toksS2`, events `evsS2`, nodes `nodesS2`).

New with respect to `Oq3.LangEv.Stmt`: `const`, `input` / `output`, `qubit`, `qreg` / `creg`, `let`,
assignment to an indexed identifier, qubit operands `q` / `$0` / `q[i]…`, gate modifiers, `gphase`, `delay`,
pragma / annotation lines, `include`, the version line, `extern`, `cal`, `else if` chains, brace-less bodies,
`switch`, bare blocks, `for … in {…}` / `in e` / `[a:b:c]`, designators on the loop variable.
-/
import Oq3.Lemmas.LangEv2

namespace Oq3.LangEv2
open Oq3.Gen Oq3.Parser Oq3.PrattEv Oq3.LangEv

/-! ### pieces -/

/-- qubit operand of a gate call / `reset` / `barrier` / `delay` (`arg_gate_call_qubit`) -/
inductive Q
  | id
  | hw
  | idx (ixs : IdxList)

/-- `q0, q1, …` (at least one) -/
inductive QList
  | one (q : Q)
  | cons (q : Q) (qs : QList)

/-- gate modifiers -/
inductive Mod
  | inv
  | pow (e : X)
  | ctrl (e : Option X)
  | negctrl (e : Option X)

/-- the iterable of a `for` loop -/
inductive Iter
  | range2 (lo hi : X)
  | range3 (lo mid hi : X)
  | set (is : ItemList)
  | ex (x : X)

def toksQ : Q → List Tok
  | .id => [tk .IDENT]
  | .hw => [tk .HARDWAREIDENT]
  | .idx ixs => tk .IDENT :: toksIdx ixs

def toksQs : QList → List Tok
  | .one q => toksQ q
  | .cons q qs => toksQ q ++ (tk .COMMA :: toksQs qs)

def evsQ : Q → List Ev
  | .id => [.start .IDENTIFIER none, .token .IDENT 1, .finish]
  | .hw => [.start .HARDWARE_QUBIT none, .token .HARDWAREIDENT 1, .finish]
  | .idx ixs =>
    [.start .IDENTIFIER (some 3), .token .IDENT 1, .finish, .start .INDEXED_IDENTIFIER none] ++ (evsIdx ixs ++ [.finish])

def evsQs : QList → List Ev
  | .one q => evsQ q
  | .cons q qs => evsQ q ++ (.token .COMMA 1 :: evsQs qs)

def nodesQ : Q → List Step
  | .id => [.enter .IDENTIFIER, .token .IDENT 1, .exit]
  | .hw => [.enter .HARDWARE_QUBIT, .token .HARDWAREIDENT 1, .exit]
  | .idx ixs => [.enter .INDEXED_IDENTIFIER, .enter .IDENTIFIER, .token .IDENT 1, .exit] ++ (nodesIdx ixs ++ [.exit])

def nodesQs : QList → List Step
  | .one q => nodesQ q
  | .cons q qs => nodesQ q ++ (.token .COMMA 1 :: nodesQs qs)

def parenToks (e : X) : List Tok := tk .L_PAREN :: (toksX e ++ [tk .R_PAREN])
def parenEvs (e : X) : List Ev := .start .PAREN_EXPR none :: .token .L_PAREN 1 :: (evsX e ++ [.token .R_PAREN 1, .finish])
def parenNodes (e : X) : List Step := .enter .PAREN_EXPR :: .token .L_PAREN 1 :: (nodesX e ++ [.token .R_PAREN 1, .exit])

def toksMod : Mod → List Tok
  | .inv => [tk .INV_KW, tk .AT]
  | .pow e => tk .POW_KW :: (parenToks e ++ [tk .AT])
  | .ctrl none => [tk .CTRL_KW, tk .AT]
  | .ctrl (some e) => tk .CTRL_KW :: (parenToks e ++ [tk .AT])
  | .negctrl none => [tk .NEGCTRL_KW, tk .AT]
  | .negctrl (some e) => tk .NEGCTRL_KW :: (parenToks e ++ [tk .AT])

def evsMod : Mod → List Ev
  | .inv => [.start .INV_MODIFIER none, .token .INV_KW 1, .token .AT 1, .finish]
  | .pow e => .start .POW_MODIFIER none :: .token .POW_KW 1 :: (parenEvs e ++ [.token .AT 1, .finish])
  | .ctrl none => [.start .CTRL_MODIFIER none, .token .CTRL_KW 1, .token .AT 1, .finish]
  | .ctrl (some e) => .start .CTRL_MODIFIER none :: .token .CTRL_KW 1 :: (parenEvs e ++ [.token .AT 1, .finish])
  | .negctrl none => [.start .NEG_CTRL_MODIFIER none, .token .NEGCTRL_KW 1, .token .AT 1, .finish]
  | .negctrl (some e) => .start .NEG_CTRL_MODIFIER none :: .token .NEGCTRL_KW 1 :: (parenEvs e ++ [.token .AT 1, .finish])

def nodesMod : Mod → List Step
  | .inv => [.enter .INV_MODIFIER, .token .INV_KW 1, .token .AT 1, .exit]
  | .pow e => .enter .POW_MODIFIER :: .token .POW_KW 1 :: (parenNodes e ++ [.token .AT 1, .exit])
  | .ctrl none => [.enter .CTRL_MODIFIER, .token .CTRL_KW 1, .token .AT 1, .exit]
  | .ctrl (some e) => .enter .CTRL_MODIFIER :: .token .CTRL_KW 1 :: (parenNodes e ++ [.token .AT 1, .exit])
  | .negctrl none => [.enter .NEG_CTRL_MODIFIER, .token .NEGCTRL_KW 1, .token .AT 1, .exit]
  | .negctrl (some e) => .enter .NEG_CTRL_MODIFIER :: .token .NEGCTRL_KW 1 :: (parenNodes e ++ [.token .AT 1, .exit])

def toksMods : List Mod → List Tok
  | [] => []
  | m :: ms => toksMod m ++ toksMods ms
def evsMods : List Mod → List Ev
  | [] => []
  | m :: ms => evsMod m ++ evsMods ms
def nodesMods : List Mod → List Step
  | [] => []
  | m :: ms => nodesMod m ++ nodesMods ms

/-- `ty` / `ty[w]` -/
def tyToksX (ty : Ty) (w : Option X) : List Tok :=
  match w with
  | none => [tk ty.kind]
  | some w => tk ty.kind :: tk .L_BRACK :: (toksX w ++ [tk .R_BRACK])

def tyEvsX (ty : Ty) (w : Option X) : List Ev :=
  match w with
  | none => [.start .SCALAR_TYPE none, .token ty.kind 1, .finish]
  | some w =>
    .start .SCALAR_TYPE none :: .token ty.kind 1 :: .start .DESIGNATOR none :: .token .L_BRACK 1 ::
      (evsX w ++ [.token .R_BRACK 1, .finish, .finish])

def tyNodesX (ty : Ty) (w : Option X) : List Step :=
  match w with
  | none => [.enter .SCALAR_TYPE, .token ty.kind 1, .exit]
  | some w =>
    .enter .SCALAR_TYPE :: .token ty.kind 1 :: .enter .DESIGNATOR :: .token .L_BRACK 1 ::
      (nodesX w ++ [.token .R_BRACK 1, .exit, .exit])

/-- `[w]` -/
def desigToks (w : X) : List Tok := tk .L_BRACK :: (toksX w ++ [tk .R_BRACK])
def desigEvs (w : X) : List Ev := .start .DESIGNATOR none :: .token .L_BRACK 1 :: (evsX w ++ [.token .R_BRACK 1, .finish])
def desigNodes (w : X) : List Step := .enter .DESIGNATOR :: .token .L_BRACK 1 :: (nodesX w ++ [.token .R_BRACK 1, .exit])

/-- `( args )` of a gate call inside `gate_call_expr` / `call_expr`; nothing for an empty list -/
def argListToks : XList → List Tok
  | .nil => []
  | .cons a as => tk .L_PAREN :: (toksXs (.cons a as) ++ [tk .R_PAREN])
def argListEvs : XList → List Ev
  | .nil => []
  | .cons a as =>
    .start .ARG_LIST none :: .start .EXPRESSION_LIST none :: .token .L_PAREN 1 ::
      (evsXs (.cons a as) ++ [.token .R_PAREN 1, .finish, .finish])
def argListNodes : XList → List Step
  | .nil => []
  | .cons a as =>
    .enter .ARG_LIST :: .enter .EXPRESSION_LIST :: .token .L_PAREN 1 :: (nodesXs (.cons a as) ++ [.token .R_PAREN 1, .exit, .exit])

def qlistEvs (qs : QList) : List Ev := .start .QUBIT_LIST none :: (evsQs qs ++ [.finish])
def qlistNodes (qs : QList) : List Step := .enter .QUBIT_LIST :: (nodesQs qs ++ [.exit])

/-- an expression-like statement: root node `k` with events `inner` after its `Start`, wrapped into an
`EXPR_STMT` by `stmt` (`precede`) -/
def wrapStmt (k : SyntaxKind) (inner : List Ev) : List Ev :=
  tombLink :: .start k (some (inner.length + 1)) :: (inner ++ exprStmtTail)

def wrapNodes (k : SyntaxKind) (inner : List Step) : List Step :=
  .enter .EXPR_STMT :: .enter k :: (inner ++ [.token .SEMICOLON 1, .exit])

def iterToks : Iter → List Tok
  | .range2 lo hi => tk .L_BRACK :: (toksX lo ++ (tk .COLON :: (toksX hi ++ [tk .R_BRACK])))
  | .range3 lo mid hi => tk .L_BRACK :: (toksX lo ++ (tk .COLON :: (toksX mid ++ (tk .COLON :: (toksX hi ++ [tk .R_BRACK])))))
  | .set is => tk .L_CURLY :: (toksItems is ++ [tk .R_CURLY])
  | .ex x => toksX x

def iterEvs : Iter → List Ev
  | .range2 lo hi =>
    .start .RANGE_EXPR none :: .token .L_BRACK 1 :: (evsX lo ++ (.token .COLON 1 :: (evsX hi ++ [.token .R_BRACK 1, .finish])))
  | .range3 lo mid hi =>
    .start .RANGE_EXPR none :: .token .L_BRACK 1 :: (evsX lo ++ (.token .COLON 1 :: (evsX mid ++ (.token .COLON 1 ::
      (evsX hi ++ [.token .R_BRACK 1, .finish])))))
  | .set is =>
    .start .SET_EXPRESSION none :: .token .L_CURLY 1 :: .start .EXPRESSION_LIST none ::
      (evsItems is ++ [.finish, .token .R_CURLY 1, .finish])
  | .ex x => evsX x

def iterNodes : Iter → List Step
  | .range2 lo hi =>
    .enter .RANGE_EXPR :: .token .L_BRACK 1 :: (nodesX lo ++ (.token .COLON 1 :: (nodesX hi ++ [.token .R_BRACK 1, .exit])))
  | .range3 lo mid hi =>
    .enter .RANGE_EXPR :: .token .L_BRACK 1 :: (nodesX lo ++ (.token .COLON 1 :: (nodesX mid ++ (.token .COLON 1 ::
      (nodesX hi ++ [.token .R_BRACK 1, .exit])))))
  | .set is =>
    .enter .SET_EXPRESSION :: .token .L_CURLY 1 :: .enter .EXPRESSION_LIST :: (nodesItems is ++ [.exit, .token .R_CURLY 1, .exit])
  | .ex x => nodesX x

/-- `ty0, ty1, …` of an `extern` declaration -/
def tyListToks : List Ty → List Tok
  | [] => []
  | [t] => [tk t.kind]
  | t :: ts => tk t.kind :: tk .COMMA :: tyListToks ts
def tyListEvs : List Ty → List Ev
  | [] => []
  | [t] => [.start .SCALAR_TYPE none, .start .SCALAR_TYPE none, .token t.kind 1, .finish, .finish]
  | t :: ts => .start .SCALAR_TYPE none :: .start .SCALAR_TYPE none :: .token t.kind 1 :: .finish :: .finish ::
      .token .COMMA 1 :: tyListEvs ts
def tyListNodes : List Ty → List Step
  | [] => []
  | [t] => [.enter .SCALAR_TYPE, .enter .SCALAR_TYPE, .token t.kind 1, .exit, .exit]
  | t :: ts => .enter .SCALAR_TYPE :: .enter .SCALAR_TYPE :: .token t.kind 1 :: .exit :: .exit :: .token .COMMA 1 :: tyListNodes ts

/-- the target of an assignment: `x` or `x[…]…` -/
def lhsP : Option IdxList → Prim
  | none => .id
  | some ixs => .idIdx ixs

/-! ### statements -/

mutual
inductive Stmt2
  /-- `[const] ty[w] x [= e];` -/
  | decl (cst : Bool) (ty : Ty) (w : Option X) (init : Option X)
  /-- `input ty[w] x;` / `output ty[w] x;` -/
  | io (out : Bool) (ty : Ty) (w : Option X)
  /-- `qubit q;` / `qubit[w] q;` -/
  | qubit (w : Option X)
  /-- `qreg q[items];` / `creg c[items];` -/
  | oldReg (c : Bool) (items : ItemList)
  /-- `let x = e;` inside blocks and after the first statement that `item` does not dispatch (LET_STMT) -/
  | letS (e : X)
  /-- `let x = e;` where the top-level dispatcher `item` parses it (ALIAS_DECLARATION_STATEMENT) -/
  | alias (e : X)
  /-- `x = rhs;` / `x[…] = rhs;` -/
  | assign (ixs : Option IdxList) (rhs : X)
  /-- `e;` -/
  | exprS (x : X)
  /-- `g qs;` / `g(args) qs;` -/
  | gate (args : XList) (qs : QList)
  /-- `mods g qs;` / `mods g(args) qs;` with at least one modifier -/
  | modGate (m : Mod) (ms : List Mod) (args : XList) (qs : QList)
  /-- `gphase e;` (`gphase(θ);` with `e` a parenthesised expression) -/
  | gphase (x : X)
  | modGphase (m : Mod) (ms : List Mod) (x : X)
  | reset (q : Q)
  | barrier (qs : QList)
  /-- `delay[d] qs;` -/
  | delay (d : X) (qs : QList)
  | brk | cont | endS
  | pragma | annot
  /-- `include "file";` -/
  | incl
  /-- `OPENQASM 3.0;` -/
  | version
  /-- `extern f(tys) -> ret;` -/
  | externS (tys : List Ty) (ret : Ty)
  | ifS (c : X) (thn : Body)
  | ifElse (c : X) (thn els : Body)
  | whileS (c : X) (body : Body)
  /-- `for ty[w] x in it body` -/
  | forS (ty : Ty) (w : Option X) (it : Iter) (body : Body)
  /-- `switch (c) { case vals {…} … default {…} }` -/
  | switchS (c : X) (cases : Cases)
  /-- a bare block `{ … }` as a statement (not the last statement of a block: F09d) -/
  | block (ss : Stmts2)
  | gateDef (params : Option Nat) (nq : Nat) (body : Stmts2)
  | defS (params : List PTy) (ret : Option Ty) (body : Stmts2)
  /-- `cal { … }` with OpenQASM statements inside -/
  | cal (body : Stmts2)
  | ret (e : Option X)
/-- the body of `if` / `else` / `while` / `for`: a block or a single statement -/
inductive Body
  | blk (ss : Stmts2)
  | one (s : Stmt2)
/-- the cases of a `switch`; `default` is last -/
inductive Cases
  | nil
  | dflt (body : Stmts2)
  | cons (vals : ItemList) (body : Stmts2) (rest : Cases)
inductive Stmts2
  | nil
  | cons (s : Stmt2) (ss : Stmts2)
end

/-! ### print -/

mutual
def toksS2 : Stmt2 → List Tok
  | .decl cst ty w none =>
    (if cst then [tk .CONST_KW] else []) ++ (tyToksX ty w ++ [tk .IDENT, tk .SEMICOLON])
  | .decl cst ty w (some e) =>
    (if cst then [tk .CONST_KW] else []) ++ (tyToksX ty w ++ (tk .IDENT :: tk .EQ :: (toksX e ++ [tk .SEMICOLON])))
  | .io out ty w => tk (if out then .OUTPUT_KW else .INPUT_KW) :: (tyToksX ty w ++ [tk .IDENT, tk .SEMICOLON])
  | .qubit none => [tk .QUBIT_KW, tk .IDENT, tk .SEMICOLON]
  | .qubit (some w) => tk .QUBIT_KW :: (desigToks w ++ [tk .IDENT, tk .SEMICOLON])
  | .oldReg c items =>
    tk (if c then .CREG_KW else .QREG_KW) :: tk .IDENT :: tk .L_BRACK :: (toksItems items ++ [tk .R_BRACK, tk .SEMICOLON])
  | .letS e => tk .LET_KW :: tk .IDENT :: tk .EQ :: (toksX e ++ [tk .SEMICOLON])
  | .alias e => tk .LET_KW :: tk .IDENT :: tk .EQ :: (toksX e ++ [tk .SEMICOLON])
  | .assign ixs rhs => toksP (lhsP ixs) ++ (tk .EQ :: (toksX rhs ++ [tk .SEMICOLON]))
  | .exprS x => toksX x ++ [tk .SEMICOLON]
  | .gate args qs => tk .IDENT :: (argListToks args ++ (toksQs qs ++ [tk .SEMICOLON]))
  | .modGate m ms args qs => toksMods (m :: ms) ++ (tk .IDENT :: (argListToks args ++ (toksQs qs ++ [tk .SEMICOLON])))
  | .gphase x => tk .GPHASE_KW :: (toksX x ++ [tk .SEMICOLON])
  | .modGphase m ms x => toksMods (m :: ms) ++ (tk .GPHASE_KW :: (toksX x ++ [tk .SEMICOLON]))
  | .reset q => tk .RESET_KW :: (toksQ q ++ [tk .SEMICOLON])
  | .barrier qs => tk .BARRIER_KW :: (toksQs qs ++ [tk .SEMICOLON])
  | .delay d qs => tk .DELAY_KW :: (desigToks d ++ (toksQs qs ++ [tk .SEMICOLON]))
  | .brk => [tk .BREAK_KW, tk .SEMICOLON]
  | .cont => [tk .CONTINUE_KW, tk .SEMICOLON]
  | .endS => [tk .END_KW, tk .SEMICOLON]
  | .pragma => [tk .PRAGMA]
  | .annot => [tk .ANNOTATION]
  | .incl => [tk .INCLUDE_KW, tk .STRING, tk .SEMICOLON]
  | .version => [tk .O_P_E_N_Q_A_S_M_KW, tk .FLOAT_NUMBER, tk .SEMICOLON]
  | .externS tys ret =>
    tk .EXTERN_KW :: tk .IDENT :: tk .L_PAREN :: (tyListToks tys ++ (tk .R_PAREN :: (retToks (some ret) ++ [tk .SEMICOLON])))
  | .ifS c thn => tk .IF_KW :: (parenToks c ++ toksB thn)
  | .ifElse c thn els => tk .IF_KW :: (parenToks c ++ (toksB thn ++ (tk .ELSE_KW :: toksB els)))
  | .whileS c body => tk .WHILE_KW :: (parenToks c ++ toksB body)
  | .forS ty w it body => tk .FOR_KW :: (tyToksX ty w ++ (tk .IDENT :: tk .IN_KW :: (iterToks it ++ toksB body)))
  | .switchS c cases => tk .SWITCH_KW :: (parenToks c ++ (tk .L_CURLY :: (toksC cases ++ [tk .R_CURLY])))
  | .block ss => tk .L_CURLY :: (toksL2 ss ++ [tk .R_CURLY])
  | .gateDef none nq body =>
    tk .GATE_KW :: tk .IDENT :: (qubitToks nq ++ (tk .L_CURLY :: (toksL2 body ++ [tk .R_CURLY])))
  | .gateDef (some k) nq body =>
    tk .GATE_KW :: tk .IDENT :: tk .L_PAREN :: (qubitToks k ++ (tk .R_PAREN :: (qubitToks nq ++
      (tk .L_CURLY :: (toksL2 body ++ [tk .R_CURLY])))))
  | .defS ps ret body =>
    tk .DEF_KW :: tk .IDENT :: tk .L_PAREN :: (typedToks ps ++ (tk .R_PAREN :: (retToks ret ++
      (tk .L_CURLY :: (toksL2 body ++ [tk .R_CURLY])))))
  | .cal body => tk .CAL_KW :: tk .L_CURLY :: (toksL2 body ++ [tk .R_CURLY])
  | .ret none => [tk .RETURN_KW, tk .SEMICOLON]
  | .ret (some e) => tk .RETURN_KW :: (toksX e ++ [tk .SEMICOLON])
def toksB : Body → List Tok
  | .blk ss => tk .L_CURLY :: (toksL2 ss ++ [tk .R_CURLY])
  | .one s => toksS2 s
def toksC : Cases → List Tok
  | .nil => []
  | .dflt body => tk .DEFAULT_KW :: tk .L_CURLY :: (toksL2 body ++ [tk .R_CURLY])
  | .cons vals body rest => tk .CASE_KW :: (toksItems vals ++ (tk .L_CURLY :: (toksL2 body ++ (tk .R_CURLY :: toksC rest))))
def toksL2 : Stmts2 → List Tok
  | .nil => []
  | .cons s ss => toksS2 s ++ toksL2 ss
end

/-! ### events -/

def nameEvs : List Ev := [.start .NAME none, .token .IDENT 1, .finish]
def nameNodes : List Step := [.enter .NAME, .token .IDENT 1, .exit]

/-- events of `gate_call_expr` after the root `Start` -/
def gateCallInner (args : XList) (qs : QList) : List Ev :=
  .start .IDENTIFIER none :: .token .IDENT 1 :: .finish :: (argListEvs args ++ (qlistEvs qs ++ [.finish]))

def gateCallInnerNodes (args : XList) (qs : QList) : List Step :=
  .enter .IDENTIFIER :: .token .IDENT 1 :: .exit :: (argListNodes args ++ (qlistNodes qs ++ [.exit]))

mutual
def evsS2 : Stmt2 → List Ev
  | .decl cst ty w none =>
    .start .CLASSICAL_DECLARATION_STATEMENT none :: ((if cst then [.token .CONST_KW 1] else []) ++ (.start .TOMBSTONE none ::
      (tyEvsX ty w ++ (nameEvs ++ [.token .SEMICOLON 1, .finish]))))
  | .decl cst ty w (some e) =>
    .start .CLASSICAL_DECLARATION_STATEMENT none :: ((if cst then [.token .CONST_KW 1] else []) ++ (.start .TOMBSTONE none ::
      (tyEvsX ty w ++ (nameEvs ++ (.token .EQ 1 :: (evsX e ++ [.token .SEMICOLON 1, .finish]))))))
  | .io out ty w =>
    .start .I_O_DECLARATION_STATEMENT none :: .token (if out then .OUTPUT_KW else .INPUT_KW) 1 ::
      (tyEvsX ty w ++ (nameEvs ++ [.token .SEMICOLON 1, .finish]))
  | .qubit none =>
    .start .QUANTUM_DECLARATION_STATEMENT none :: .start .QUBIT_TYPE none :: .token .QUBIT_KW 1 :: .finish ::
      (nameEvs ++ [.token .SEMICOLON 1, .finish])
  | .qubit (some w) =>
    .start .QUANTUM_DECLARATION_STATEMENT none :: .start .QUBIT_TYPE none :: .token .QUBIT_KW 1 ::
      (desigEvs w ++ (.finish :: (nameEvs ++ [.token .SEMICOLON 1, .finish])))
  | .oldReg c items =>
    .start .OLD_STYLE_DECLARATION_STATEMENT none :: .start .OLD_TYPED_PARAM none ::
      .token (if c then .CREG_KW else .QREG_KW) 1 :: .token .IDENT 1 :: .start .INDEX_OPERATOR none :: .token .L_BRACK 1 ::
      .start .EXPRESSION_LIST none :: (evsItems items ++ [.finish, .token .R_BRACK 1, .finish, .finish, .token .SEMICOLON 1, .finish])
  | .letS e =>
    .start .LET_STMT none :: .token .LET_KW 1 :: .token .IDENT 1 :: .token .EQ 1 :: (evsX e ++ [.token .SEMICOLON 1, .finish])
  | .alias e =>
    .start .ALIAS_DECLARATION_STATEMENT none :: .token .LET_KW 1 :: (nameEvs ++ (.token .EQ 1 :: (evsX e ++ [.token .SEMICOLON 1, .finish])))
  | .assign ixs rhs =>
    .start .TOMBSTONE (some (rootP (lhsP ixs) + 1)) :: (bodyP (lhsP ixs) (some (lenP (lhsP ixs) - rootP (lhsP ixs))) ++
      (.start .ASSIGNMENT_STMT none :: .token .EQ 1 :: (evsX rhs ++ [.token .SEMICOLON 1, .finish])))
  | .exprS x => .start .TOMBSTONE (some (headOff x + 1)) :: (bodyX x (some (lenX x - rootX x)) ++ exprStmtTail)
  | .gate .nil qs => wrapStmt .GATE_CALL_EXPR (gateCallInner .nil qs)
  | .gate (.cons a as) qs =>
    .start .TOMBSTONE (some 4) :: .start .IDENTIFIER (some 3) :: .token .IDENT 1 :: .finish ::
      .start .GATE_CALL_EXPR (some ((argListEvs (.cons a as)).length + (qlistEvs qs).length + 2)) ::
      (argListEvs (.cons a as) ++ (qlistEvs qs ++ (.finish :: exprStmtTail)))
  | .modGate m ms args qs =>
    wrapStmt .MODIFIED_GATE_CALL_EXPR (evsMods (m :: ms) ++ (.start .GATE_CALL_EXPR none :: (gateCallInner args qs ++ [.finish])))
  | .gphase x => wrapStmt .G_PHASE_CALL_EXPR (.token .GPHASE_KW 1 :: (evsX x ++ [.finish]))
  | .modGphase m ms x =>
    wrapStmt .MODIFIED_GATE_CALL_EXPR (evsMods (m :: ms) ++ (.start .G_PHASE_CALL_EXPR none :: .token .GPHASE_KW 1 ::
      (evsX x ++ [.finish, .finish])))
  | .reset q => .start .RESET none :: .token .RESET_KW 1 :: (evsQ q ++ [.token .SEMICOLON 1, .finish])
  | .barrier qs => .start .BARRIER none :: .token .BARRIER_KW 1 :: (qlistEvs qs ++ [.token .SEMICOLON 1, .finish])
  | .delay d qs =>
    .start .DELAY_STMT none :: .token .DELAY_KW 1 :: (desigEvs d ++ (qlistEvs qs ++ [.token .SEMICOLON 1, .finish]))
  | .brk => [.start .BREAK_STMT none, .token .BREAK_KW 1, .token .SEMICOLON 1, .finish]
  | .cont => [.start .CONTINUE_STMT none, .token .CONTINUE_KW 1, .token .SEMICOLON 1, .finish]
  | .endS => [.start .END_STMT none, .token .END_KW 1, .token .SEMICOLON 1, .finish]
  | .pragma => [.start .PRAGMA_STATEMENT none, .token .PRAGMA 1, .finish]
  | .annot => [.start .ANNOTATION_STATEMENT none, .token .ANNOTATION 1, .finish]
  | .incl =>
    [.start .INCLUDE none, .token .INCLUDE_KW 1, .start .FILE_PATH none, .token .STRING 1, .finish, .token .SEMICOLON 1, .finish]
  | .version =>
    [.start .VERSION_STRING none, .token .O_P_E_N_Q_A_S_M_KW 1, .start .VERSION none, .token .FLOAT_NUMBER 1,
     .token .SEMICOLON 1, .finish, .finish]
  | .externS tys ret =>
    .start .EXTERN_STMT none :: .token .EXTERN_KW 1 :: (nameEvs ++ (.start .TYPE_LIST none :: .token .L_PAREN 1 ::
      (tyListEvs tys ++ (.token .R_PAREN 1 :: .finish :: (retEvs (some ret) ++ [.token .SEMICOLON 1, .finish])))))
  | .ifS c thn =>
    .start .IF_STMT none :: .token .IF_KW 1 :: .token .L_PAREN 1 :: (evsX c ++ (.token .R_PAREN 1 :: (evsB thn ++ [.finish])))
  | .ifElse c thn els =>
    .start .IF_STMT none :: .token .IF_KW 1 :: .token .L_PAREN 1 ::
      (evsX c ++ (.token .R_PAREN 1 :: (evsB thn ++ (.token .ELSE_KW 1 :: (evsB els ++ [.finish])))))
  | .whileS c body =>
    .start .WHILE_STMT none :: .token .WHILE_KW 1 :: .token .L_PAREN 1 :: (evsX c ++ (.token .R_PAREN 1 :: (evsB body ++ [.finish])))
  | .forS ty w it body =>
    .start .FOR_STMT none :: .token .FOR_KW 1 :: (tyEvsX ty w ++ (nameEvs ++ (.token .IN_KW 1 :: .start .FOR_ITERABLE none ::
      (iterEvs it ++ (.finish :: (evsB body ++ [.finish]))))))
  | .switchS c cases =>
    .start .SWITCH_CASE_STMT none :: .token .SWITCH_KW 1 :: .token .L_PAREN 1 :: (evsX c ++ (.token .R_PAREN 1 :: .token .L_CURLY 1 ::
      (evsC cases ++ [.token .R_CURLY 1, .finish])))
  | .block ss =>
    tombLink :: .start .BLOCK_EXPR (some ((evsL2 ss).length + 4)) :: .token .L_CURLY 1 ::
      (evsL2 ss ++ [.token .R_CURLY 1, .finish, .start .EXPR_STMT none, .finish])
  | .gateDef none nq body =>
    .start .GATE none :: .token .GATE_KW 1 :: .start .NAME none :: .token .IDENT 1 :: .finish ::
      .start .PARAM_LIST none :: (paramEvs nq ++ (.finish :: (blockEvs (evsL2 body) ++ [.finish])))
  | .gateDef (some k) nq body =>
    .start .GATE none :: .token .GATE_KW 1 :: .start .NAME none :: .token .IDENT 1 :: .finish ::
      .start .PARAM_LIST none :: .token .L_PAREN 1 :: (paramEvs k ++ (.token .R_PAREN 1 :: .finish ::
        .start .PARAM_LIST none :: (paramEvs nq ++ (.finish :: (blockEvs (evsL2 body) ++ [.finish])))))
  | .defS ps ret body =>
    .start .DEF none :: .token .DEF_KW 1 :: .start .NAME none :: .token .IDENT 1 :: .finish ::
      .start .TYPED_PARAM_LIST none :: .token .L_PAREN 1 :: (typedEvs ps ++ (.token .R_PAREN 1 :: .finish ::
        (retEvs ret ++ (blockEvs (evsL2 body) ++ [.finish]))))
  | .cal body => .start .CAL none :: .token .CAL_KW 1 :: (blockEvs (evsL2 body) ++ [.finish])
  | .ret none => wrapStmt .RETURN_EXPR [.token .RETURN_KW 1, .finish]
  | .ret (some e) => wrapStmt .RETURN_EXPR (.token .RETURN_KW 1 :: (evsX e ++ [.finish]))
def evsB : Body → List Ev
  | .blk ss => blockEvs (evsL2 ss)
  | .one s => evsS2 s
def evsC : Cases → List Ev
  | .nil => []
  | .dflt body => .token .DEFAULT_KW 1 :: blockEvs (evsL2 body)
  | .cons vals body rest =>
    .start .CASE_EXPR none :: .token .CASE_KW 1 :: .start .EXPRESSION_LIST none ::
      (evsItems vals ++ (.finish :: (blockEvs (evsL2 body) ++ (.finish :: evsC rest))))
def evsL2 : Stmts2 → List Ev
  | .nil => []
  | .cons s ss => evsS2 s ++ evsL2 ss
end

/-- events of a whole program -/
def evsP2 (p : Stmts2) : List Ev := .start .SOURCE_FILE none :: (evsL2 p ++ [.finish])

/-! ### nodes -/

mutual
def nodesS2 : Stmt2 → List Step
  | .decl cst ty w none =>
    .enter .CLASSICAL_DECLARATION_STATEMENT :: ((if cst then [.token .CONST_KW 1] else []) ++
      (tyNodesX ty w ++ (nameNodes ++ [.token .SEMICOLON 1, .exit])))
  | .decl cst ty w (some e) =>
    .enter .CLASSICAL_DECLARATION_STATEMENT :: ((if cst then [.token .CONST_KW 1] else []) ++
      (tyNodesX ty w ++ (nameNodes ++ (.token .EQ 1 :: (nodesX e ++ [.token .SEMICOLON 1, .exit])))))
  | .io out ty w =>
    .enter .I_O_DECLARATION_STATEMENT :: .token (if out then .OUTPUT_KW else .INPUT_KW) 1 ::
      (tyNodesX ty w ++ (nameNodes ++ [.token .SEMICOLON 1, .exit]))
  | .qubit none =>
    .enter .QUANTUM_DECLARATION_STATEMENT :: .enter .QUBIT_TYPE :: .token .QUBIT_KW 1 :: .exit ::
      (nameNodes ++ [.token .SEMICOLON 1, .exit])
  | .qubit (some w) =>
    .enter .QUANTUM_DECLARATION_STATEMENT :: .enter .QUBIT_TYPE :: .token .QUBIT_KW 1 ::
      (desigNodes w ++ (.exit :: (nameNodes ++ [.token .SEMICOLON 1, .exit])))
  | .oldReg c items =>
    .enter .OLD_STYLE_DECLARATION_STATEMENT :: .enter .OLD_TYPED_PARAM ::
      .token (if c then .CREG_KW else .QREG_KW) 1 :: .token .IDENT 1 :: .enter .INDEX_OPERATOR :: .token .L_BRACK 1 ::
      .enter .EXPRESSION_LIST :: (nodesItems items ++ [.exit, .token .R_BRACK 1, .exit, .exit, .token .SEMICOLON 1, .exit])
  | .letS e =>
    .enter .LET_STMT :: .token .LET_KW 1 :: .token .IDENT 1 :: .token .EQ 1 :: (nodesX e ++ [.token .SEMICOLON 1, .exit])
  | .alias e =>
    .enter .ALIAS_DECLARATION_STATEMENT :: .token .LET_KW 1 :: (nameNodes ++ (.token .EQ 1 :: (nodesX e ++ [.token .SEMICOLON 1, .exit])))
  | .assign ixs rhs =>
    .enter .ASSIGNMENT_STMT :: (nodesP (lhsP ixs) ++ (.token .EQ 1 :: (nodesX rhs ++ [.token .SEMICOLON 1, .exit])))
  | .exprS x => .enter .EXPR_STMT :: (nodesX x ++ [.token .SEMICOLON 1, .exit])
  | .gate args qs => wrapNodes .GATE_CALL_EXPR (gateCallInnerNodes args qs)
  | .modGate m ms args qs =>
    wrapNodes .MODIFIED_GATE_CALL_EXPR (nodesMods (m :: ms) ++ (.enter .GATE_CALL_EXPR :: (gateCallInnerNodes args qs ++ [.exit])))
  | .gphase x => wrapNodes .G_PHASE_CALL_EXPR (.token .GPHASE_KW 1 :: (nodesX x ++ [.exit]))
  | .modGphase m ms x =>
    wrapNodes .MODIFIED_GATE_CALL_EXPR (nodesMods (m :: ms) ++ (.enter .G_PHASE_CALL_EXPR :: .token .GPHASE_KW 1 ::
      (nodesX x ++ [.exit, .exit])))
  | .reset q => .enter .RESET :: .token .RESET_KW 1 :: (nodesQ q ++ [.token .SEMICOLON 1, .exit])
  | .barrier qs => .enter .BARRIER :: .token .BARRIER_KW 1 :: (qlistNodes qs ++ [.token .SEMICOLON 1, .exit])
  | .delay d qs =>
    .enter .DELAY_STMT :: .token .DELAY_KW 1 :: (desigNodes d ++ (qlistNodes qs ++ [.token .SEMICOLON 1, .exit]))
  | .brk => [.enter .BREAK_STMT, .token .BREAK_KW 1, .token .SEMICOLON 1, .exit]
  | .cont => [.enter .CONTINUE_STMT, .token .CONTINUE_KW 1, .token .SEMICOLON 1, .exit]
  | .endS => [.enter .END_STMT, .token .END_KW 1, .token .SEMICOLON 1, .exit]
  | .pragma => [.enter .PRAGMA_STATEMENT, .token .PRAGMA 1, .exit]
  | .annot => [.enter .ANNOTATION_STATEMENT, .token .ANNOTATION 1, .exit]
  | .incl =>
    [.enter .INCLUDE, .token .INCLUDE_KW 1, .enter .FILE_PATH, .token .STRING 1, .exit, .token .SEMICOLON 1, .exit]
  | .version =>
    [.enter .VERSION_STRING, .token .O_P_E_N_Q_A_S_M_KW 1, .enter .VERSION, .token .FLOAT_NUMBER 1, .token .SEMICOLON 1, .exit, .exit]
  | .externS tys ret =>
    .enter .EXTERN_STMT :: .token .EXTERN_KW 1 :: (nameNodes ++ (.enter .TYPE_LIST :: .token .L_PAREN 1 ::
      (tyListNodes tys ++ (.token .R_PAREN 1 :: .exit :: (retNodes (some ret) ++ [.token .SEMICOLON 1, .exit])))))
  | .ifS c thn =>
    .enter .IF_STMT :: .token .IF_KW 1 :: .token .L_PAREN 1 :: (nodesX c ++ (.token .R_PAREN 1 :: (nodesB thn ++ [.exit])))
  | .ifElse c thn els =>
    .enter .IF_STMT :: .token .IF_KW 1 :: .token .L_PAREN 1 ::
      (nodesX c ++ (.token .R_PAREN 1 :: (nodesB thn ++ (.token .ELSE_KW 1 :: (nodesB els ++ [.exit])))))
  | .whileS c body =>
    .enter .WHILE_STMT :: .token .WHILE_KW 1 :: .token .L_PAREN 1 :: (nodesX c ++ (.token .R_PAREN 1 :: (nodesB body ++ [.exit])))
  | .forS ty w it body =>
    .enter .FOR_STMT :: .token .FOR_KW 1 :: (tyNodesX ty w ++ (nameNodes ++ (.token .IN_KW 1 :: .enter .FOR_ITERABLE ::
      (iterNodes it ++ (.exit :: (nodesB body ++ [.exit]))))))
  | .switchS c cases =>
    .enter .SWITCH_CASE_STMT :: .token .SWITCH_KW 1 :: .token .L_PAREN 1 :: (nodesX c ++ (.token .R_PAREN 1 :: .token .L_CURLY 1 ::
      (nodesC cases ++ [.token .R_CURLY 1, .exit])))
  | .block ss => .enter .EXPR_STMT :: (blockNodes (nodesL2 ss) ++ [.exit])
  | .gateDef none nq body =>
    .enter .GATE :: .token .GATE_KW 1 :: .enter .NAME :: .token .IDENT 1 :: .exit ::
      .enter .PARAM_LIST :: (paramNodes nq ++ (.exit :: (blockNodes (nodesL2 body) ++ [.exit])))
  | .gateDef (some k) nq body =>
    .enter .GATE :: .token .GATE_KW 1 :: .enter .NAME :: .token .IDENT 1 :: .exit ::
      .enter .PARAM_LIST :: .token .L_PAREN 1 :: (paramNodes k ++ (.token .R_PAREN 1 :: .exit ::
        .enter .PARAM_LIST :: (paramNodes nq ++ (.exit :: (blockNodes (nodesL2 body) ++ [.exit])))))
  | .defS ps ret body =>
    .enter .DEF :: .token .DEF_KW 1 :: .enter .NAME :: .token .IDENT 1 :: .exit ::
      .enter .TYPED_PARAM_LIST :: .token .L_PAREN 1 :: (typedNodes ps ++ (.token .R_PAREN 1 :: .exit ::
        (retNodes ret ++ (blockNodes (nodesL2 body) ++ [.exit]))))
  | .cal body => .enter .CAL :: .token .CAL_KW 1 :: (blockNodes (nodesL2 body) ++ [.exit])
  | .ret none => wrapNodes .RETURN_EXPR [.token .RETURN_KW 1, .exit]
  | .ret (some e) => wrapNodes .RETURN_EXPR (.token .RETURN_KW 1 :: (nodesX e ++ [.exit]))
def nodesB : Body → List Step
  | .blk ss => blockNodes (nodesL2 ss)
  | .one s => nodesS2 s
def nodesC : Cases → List Step
  | .nil => []
  | .dflt body => .token .DEFAULT_KW 1 :: blockNodes (nodesL2 body)
  | .cons vals body rest =>
    .enter .CASE_EXPR :: .token .CASE_KW 1 :: .enter .EXPRESSION_LIST ::
      (nodesItems vals ++ (.exit :: (blockNodes (nodesL2 body) ++ (.exit :: nodesC rest))))
def nodesL2 : Stmts2 → List Step
  | .nil => []
  | .cons s ss => nodesS2 s ++ nodesL2 ss
end

/-- nodes of a whole program -/
def nodesP2 (p : Stmts2) : List Step := .enter .SOURCE_FILE :: (nodesL2 p ++ [.exit])

end Oq3.LangEv2
