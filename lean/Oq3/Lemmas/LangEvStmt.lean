/-
C04 for a recursive reference language, part 3: the flat statements (expressions of arbitrary depth
inside), each as an acceptance of `stmt` from an arbitrary `Ready` state.
-/
import Oq3.Lemmas.LangEvRun
set_option linter.unusedSimpArgs false
set_option linter.unusedVariables false

namespace Oq3.LangEv
open Oq3.Gen Oq3.Parser Oq3.Grammar Oq3.SymExec Oq3.PrattEv
open Oq3.Gen.Ops (Assoc)

/-- first tokens of the statements that `stmt` hands to `expr_stmt` -/
def exprStmtFirst (k : SyntaxKind) : Bool :=
  k == .IDENT || k == .INT_NUMBER || k == .L_PAREN || k == .TILDE || k == .BANG || k == .MINUS || k == .MEASURE_KW ||
    k == .RETURN_KW

theorem ov_rebase (s : P) (X : List Ev) (n st sb lv : Nat) (pr : List Nat) :
    s.ov X n st sb lv pr = (s.ov X n st sb lv pr).ov [] 0 st sb lv pr := by
  rw [ov_ov]; simp

/-- **the `EXPR_STMT` wrapper of `stmt`**: whatever `expr_stmt` parsed (result `X`, root `Start` at
offset `off`), followed by `;`, becomes an expression statement by `precede` -/
theorem stmt_wrap (f : Nat) (s : P) (hr : Rdy 8 s) (k0 : SyntaxKind) (hk0 : exprStmtFirst k0 = true)
    (h0 : s.kindAt (s.pos + 0) = k0) (X : List Ev) (n off sbx : Nat) (kr : SyntaxKind)
    (hsub : exprStmt (f + 1) (some { pos := s.events.size + 0 })
        (s.ov [Ev.start SyntaxKind.TOMBSTONE none] 0 (s.steps + 1) (s.sinceBump + 1) (s.live + 1) s.protectedPos) =
      .ok (some (⟨s.events.size + off, kr⟩, .notBlock), s.ov X n 0 sbx s.live s.protectedPos))
    (hroot : X[off]? = some (.start kr none)) (hkr : (kr == .ASSIGNMENT_STMT) = false)
    (hsemi : s.kindAt (s.pos + n) = .SEMICOLON) :
    Acc (stmt (f + 2)) s (n + 1)
      (X.set off (.start kr (some (X.length - off))) ++ exprStmtTail) := by
  have hnp := hr.hook
  have hpr := hr.prot
  have hst : s.steps ≤ s.stepLimit := by have := hr.steps; omega
  have hoff : off < X.length := by
    rcases Nat.lt_or_ge off X.length with h | h
    · exact h
    · rw [List.getElem?_eq_none h] at hroot; cases hroot
  generalize hs₁ : s.ov X n 0 sbx s.live s.protectedPos = s₁
  have h1n : s₁.noProgressLimit = 0 := by rw [← hs₁]; exact hnp
  have h1l : s₁.live = s.live := by rw [← hs₁]; rfl
  have h1pr : s₁.protectedPos = s.protectedPos := by rw [← hs₁]; rfl
  have h1lim : s₁.stepLimit = s.stepLimit := by rw [← hs₁]; rfl
  have hsz : s₁.events.size = s.events.size + X.length := by rw [← hs₁]; exact ov_size _ _
  have hpr₁ : ∀ p ∈ s₁.protectedPos, p < s₁.events.size := by
    intro p hp; rw [h1pr] at hp; rw [hsz]; exact Nat.lt_add_right _ (hpr p hp)
  have hp : s₁.events[s.events.size + off]? = some (.start kr none) := by
    rw [← hs₁]
    show (s.events ++ X.toArray)[s.events.size + off]? = _
    rw [ov_get, hroot]
  have h1semi : s₁.kindAt (s₁.pos + 0) = .SEMICOLON := by rw [← hs₁]; exact hsemi
  have hsub' : exprStmt (f + 1) (some { pos := s.events.size + 0 })
        (s.ov [Ev.start SyntaxKind.TOMBSTONE none] 0 (s.steps + 1) (s.sinceBump + 1) (s.live + 1) s.protectedPos) =
      .ok (some (⟨s.events.size + off, kr⟩, .notBlock), s₁.ov [] 0 0 sbx s₁.live s₁.protectedPos) := by
    rw [hsub, ov_rebase s X n 0 sbx, hs₁, h1l, h1pr]
  have hpre := precede_base s₁ h1n (s.events.size + off) kr kr none hp
  have hcomp := fun E dp st sb lv pr i b kind =>
    complete_ov (s₁.setEv (s.events.size + off) (.start kr (some (s₁.events.size + 0 - (s.events.size + off))))) E dp st sb lv pr h1n i b kind
  simp only [setEv_size] at hcomp
  have hfin : ∀ sb, (Except.ok ((), (s₁.setEv (s.events.size + off)
        (.start kr (some (s₁.events.size + 0 - (s.events.size + off))))).ov
        [Ev.start SyntaxKind.EXPR_STMT none, Ev.token SyntaxKind.SEMICOLON 1, Ev.finish] 1 0 sb s₁.live s₁.protectedPos) :
        Except Outcome (Unit × P)) =
      .ok ((), s.ov (X.set off (.start kr (some (X.length - off))) ++ exprStmtTail) (n + 1) 0 sb s.live s.protectedPos) := by
    intro sb
    rw [h1l, h1pr, hsz, ← hs₁, setEv_ov_ov, show s.events.size + X.length + 0 - (s.events.size + off) = X.length - off by omega]
    rfl
  simp only [exprStmtFirst, Bool.or_eq_true, beq_iff_eq] at hk0
  refine ⟨0, 2, Nat.zero_le _, of_ov _ _ _ ?_⟩
  rcases hk0 with ((((((hk | hk) | hk) | hk) | hk) | hk) | hk) | hk <;> subst hk <;>
  sym_eval [filter_base s hpr, contains_base s hpr, h0, hsub', hkr, hpre, hcomp, h1semi, setEv_size, setEv_kindAt, setEv_pos,
    setEv_npl, setEv_stepLimit, filter_base s₁ hpr₁, contains_base s₁ hpr₁, bne_self_eq_false]
  all_goals exact hfin 2

theorem operandFirst_exprStmtFirst {k : SyntaxKind} (h : operandFirst k = true) : exprStmtFirst k = true := by
  simp only [operandFirst, exprStmtFirst, Bool.or_eq_true, beq_iff_eq] at h ⊢
  rcases h with ((((h | h) | h) | h) | h) | h <;> simp [h]

theorem kind_ne_assign (e : E) : (e.kind == .ASSIGNMENT_STMT) = false := by cases e <;> rfl

/-- `e ;` -/
theorem stmt_exprS (e : E) (F : Nat) (s : P) (hr : Rdy 8 s) (hF : 6 * size e + 3 ≤ F)
    (htk : Toks s s.pos (toksS (.exprS e))) (hc : CanonE 1 e) :
    Acc (stmt F) s (toksS (.exprS e)).length (evsS (.exprS e)) := by
  obtain ⟨f, rfl⟩ : ∃ f, F = f + 1 + 2 := ⟨F - 3, by omega⟩
  simp only [toksS, Toks_append, Toks, tk, List.length_append, List.length_cons, List.length_nil] at htk ⊢
  obtain ⟨hte, hsemi, -, -⟩ := htk
  obtain ⟨k0, j0, ts, hts, hk0⟩ := toks_first e
  have h0 : s.kindAt (s.pos + 0) = k0 := by rw [hts] at hte; exact hte.1
  have hsub : exprStmt (f + 1 + 1) (some { pos := s.events.size + 0 })
      (s.ov [Ev.start SyntaxKind.TOMBSTONE none] 0 (s.steps + 1) (s.sinceBump + 1) (s.live + 1) s.protectedPos) =
      .ok (some (⟨s.events.size + (rootOff e + 1), e.kind⟩, .notBlock),
        s.ov (evs e) (toks e).length 0 (sbOf e) s.live s.protectedPos) := by
    rw [exprStmt.run_2]
    have := exprBp_some f { preferStmt := true } 1 s hr.hook [] 0 (s.steps + 1) s.sinceBump s.live s.protectedPos
    simp only [List.nil_append, List.length_nil] at this
    rw [this, exprBp_ov e 1 _ s [] 0 _ _ _ _ (f + 1) hr.hook (by have := hr.steps; omega)
      (fun p hp => Nat.lt_add_right _ (hr.prot p hp)) hte hc (Nat.le_refl _) (by decide)
      (by rw [Nat.add_zero, hsemi]; rfl) (by omega)]
    simp only [List.nil_append, List.length_nil, Nat.add_zero, Nat.zero_add]
  have := stmt_wrap (f + 1) s hr k0 (operandFirst_exprStmtFirst hk0) h0 (evs e) (toks e).length (rootOff e + 1)
    (sbOf e) e.kind hsub (evs_root e) (kind_ne_assign e) hsemi
  rw [evs_set_root, evs_length, show len e - (rootOff e + 1) = len e - 1 - rootOff e by omega] at this
  exact this

theorem AccV.congr {α} {x : G α} {a : α} {s : P} {n n' : Nat} {E E' : List Ev} (h : AccV x a s n E)
    (hE : E = E') (hn : n = n') : AccV x a s n' E' := by subst hE; subst hn; exact h

theorem Toks_pos {s : P} {A B : Nat} {ts : List Tok} (h : Toks s B ts) (e : A = B) : Toks s A ts := e ▸ h
theorem kindAt_pos {s : P} {A B : Nat} {K : SyntaxKind} (h : s.kindAt B = K) (e : A = B) : s.kindAt A = K := e ▸ h

/-- `measure q ;` -/
theorem stmt_measure (F : Nat) (s : P) (hr : Rdy 8 s) (hF : 8 ≤ F)
    (htk : Toks s s.pos (toksS .measure)) :
    Acc (stmt F) s (toksS .measure).length (evsS .measure) := by
  obtain ⟨f, rfl⟩ : ∃ f, F = f + 6 + 2 := ⟨F - 8, by omega⟩
  simp only [toksS, Toks, tk] at htk
  obtain ⟨h0, -, h1, -, h2, -, -⟩ := htk
  rw [show s.pos = s.pos + 0 from rfl] at h0
  rw [show s.pos + 1 + 1 = s.pos + 2 from rfl] at h2
  have hnp := hr.hook
  have hpr := hr.prot
  have hst : s.steps + 1 ≤ s.stepLimit := by have := hr.steps; omega
  have hsub : exprStmt (f + 6 + 1) (some { pos := s.events.size + 0 })
      (s.ov [Ev.start SyntaxKind.TOMBSTONE none] 0 (s.steps + 1) (s.sinceBump + 1) (s.live + 1) s.protectedPos) =
      .ok (some (⟨s.events.size + 1, .MEASURE_EXPRESSION⟩, .notBlock),
        s.ov [tombLink, .start .MEASURE_EXPRESSION none, .token .MEASURE_KW 1, .start .IDENTIFIER none,
          .token .IDENT 1, .finish, .finish] 2 0 3 s.live s.protectedPos) := by
    sym_eval [filter_base s hpr, contains_base s hpr, h0, h1, h2]
    rfl
  exact stmt_wrap (f + 6) s hr _ (by decide) h0 _ 2 1 3 _ hsub rfl rfl h2

theorem qubitToks_head (n : Nat) : ∃ ts, qubitToks n = tk .IDENT :: ts := by
  cases n <;> exact ⟨_, rfl⟩

/-- `g q0, …, q_nq ;` -/
theorem stmt_gate_nil (nq F : Nat) (s : P) (hr : Rdy 8 s) (hF : nq + 11 ≤ F)
    (htk : Toks s s.pos (toksS (.gate [] nq))) :
    Acc (stmt F) s (toksS (.gate [] nq)).length (evsS (.gate [] nq)) := by
  obtain ⟨g, rfl⟩ : ∃ g, F = (g + nq + 5) + 4 + 2 := ⟨F - nq - 11, by omega⟩
  simp only [toksS, Toks, Toks_append, tk, List.length_cons, List.length_append, List.length_nil] at htk ⊢
  obtain ⟨h0, -, htq, hsemi, -, -⟩ := htk
  rw [show s.pos = s.pos + 0 from rfl] at h0
  have h1 : s.kindAt (s.pos + 1) = .IDENT := by
    obtain ⟨ts, hts⟩ := qubitToks_head nq
    rw [hts] at htq; exact htq.1
  have hnp := hr.hook
  have hpr := hr.prot
  have hst : s.steps + 1 ≤ s.stepLimit := by have := hr.steps; omega
  have hpr' : ∀ n, ∀ p ∈ s.protectedPos, p < s.events.size + n := fun n p hp => Nat.lt_add_right n (hr.prot p hp)
  obtain ⟨st', sb', hle, hq⟩ :=
    (qubitList_acc nq g (s.ov [.start .TOMBSTONE none, .start .TOMBSTONE none, .start .IDENTIFIER none,
        .token .IDENT 1, .finish] 1 0 2 (s.live + 1 + 1) s.protectedPos)
      (Rdy_ov 2 s _ _ _ _ _ _ hr.hook (by have := hr.steps; omega) (hpr' _))
      ((Toks_ov s _ _ _ _ _ _ _ _).2 htq) hsemi).at_ov
  have hsemi' : s.kindAt (s.pos + (1 + (qubitToks nq).length)) = .SEMICOLON := by
    rw [← Nat.add_assoc]; exact hsemi
  obtain rfl : st' = 0 := by omega
  have hsub : exprStmt ((g + nq + 5) + 4 + 1) (some { pos := s.events.size + 0 })
      (s.ov [Ev.start SyntaxKind.TOMBSTONE none] 0 (s.steps + 1) (s.sinceBump + 1) (s.live + 1) s.protectedPos) =
      .ok (some (⟨s.events.size + 1, .GATE_CALL_EXPR⟩, .notBlock),
        s.ov (tombLink :: .start .GATE_CALL_EXPR none :: .start .IDENTIFIER none :: .token .IDENT 1 :: .finish ::
          .start .QUBIT_LIST none :: (qubitEvs nq ++ [.finish, .finish])) (1 + (qubitToks nq).length) 0 (sb' + 1) s.live s.protectedPos) := by
    sym_eval [filter_base s hpr, contains_base s hpr, h0, h1, hq, hsemi']
    refine ok_ov_congr _ _ _ _ _ _ _ _ _ _ _ rfl ?_ rfl
    simp only [tombLink, List.cons_append, List.nil_append, List.append_assoc]
  refine (stmt_wrap _ s hr _ (by decide) h0 _ _ 1 _ _ hsub rfl rfl hsemi').congr ?_ ?_
  · simp only [evsS, tombLink, exprStmtTail, List.set_cons_succ, List.set_cons_zero, List.cons_append, List.nil_append,
      List.append_assoc, List.length_cons, List.length_append, List.length_nil, qubitEvs_length]
    congr 3
  · omega

/-- `g(a0, …) q0, …, q_nq ;` -/
theorem stmt_gate_cons (a : E) (as : List E) (nq F : Nat) (s : P) (hr : Rdy 8 s)
    (hF : argsNeed (a :: as) + nq + 13 ≤ F)
    (htk : Toks s s.pos (toksS (.gate (a :: as) nq))) (hc : ∀ x ∈ a :: as, CanonE 1 x) :
    Acc (stmt F) s (toksS (.gate (a :: as) nq)).length (evsS (.gate (a :: as) nq)) := by
  obtain ⟨g, rfl⟩ : ∃ g, F = (g + nq + 5) + 6 := ⟨F - nq - 11, by omega⟩
  simp only [toksS, Toks, Toks_append, tk, List.length_cons, List.length_append, List.length_nil] at htk ⊢
  obtain ⟨h0, -, h1, -, hta, hrp, -, htq, hsemi, -, -⟩ := htk
  rw [show s.pos = s.pos + 0 from rfl] at h0
  have hnp := hr.hook
  have hpr := hr.prot
  have hst : s.steps + 1 ≤ s.stepLimit := by have := hr.steps; omega
  have hpr' : ∀ n, ∀ p ∈ s.protectedPos, p < s.events.size + n := fun n p hp => Nat.lt_add_right n (hr.prot p hp)
  obtain ⟨sta, sba, hlea, hargs⟩ :=
    (callArgs_acc a as (g + nq + 5)
      (s.ov [.start .TOMBSTONE none, .start .IDENTIFIER (some 3), .token .IDENT 1, .finish, .start .TOMBSTONE none]
        1 0 3 (s.live + 1 + 1) ((s.events.size + 4) :: s.protectedPos))
      (by omega) (Rdy_ov 2 s _ _ _ _ _ _ hr.hook (by have := hr.steps; omega) (by
        intro p hp
        simp only [List.length_cons, List.length_nil]
        rcases List.mem_cons.1 hp with h | h
        · omega
        · have := hpr p h; omega))
      h1 ((Toks_ov s _ _ _ _ _ _ _ _).2 hta)
      (kindAt_pos hrp (by show s.pos + 1 + _ = _; omega)) hc).at_ov
  obtain rfl : sta = 0 := by omega
  simp only [List.cons_append, List.nil_append] at hargs
  obtain ⟨st', sb', hle, hq⟩ :=
    (qubitList_acc nq g (s.ov (.start .TOMBSTONE none :: .start .IDENTIFIER (some 3) :: .token .IDENT 1 :: .finish :: .start .TOMBSTONE none ::
        .start .ARG_LIST none :: .start .EXPRESSION_LIST none :: .token .L_PAREN 1 ::
          (argEvs (a :: as) ++ [.token .R_PAREN 1, .finish, .finish]))
        (1 + ((argToks (a :: as)).length + 2)) 0 sba (s.live + 1 + 1) ((s.events.size + 4) :: s.protectedPos))
      (Rdy_ov 2 s _ _ _ _ _ _ hr.hook (by have := hr.steps; omega) (by
        intro p hp
        simp only [List.length_cons, List.length_nil, List.length_append]
        rcases List.mem_cons.1 hp with h | h
        · omega
        · have := hpr p h; omega))
      ((Toks_ov s _ _ _ _ _ _ _ _).2 (Toks_pos htq (by show s.pos + _ = _; omega)))
      (kindAt_pos hsemi (by show s.pos + _ + _ = _; omega))).at_ov
  obtain rfl : st' = 0 := by omega
  have hq0 : s.kindAt (s.pos + (1 + ((argToks (a :: as)).length + 2))) = .IDENT := by
    obtain ⟨ts, hts⟩ := qubitToks_head nq
    rw [hts] at htq; exact kindAt_pos htq.1 (by omega)
  have hsemi' : s.kindAt (s.pos + (1 + ((argToks (a :: as)).length + 2) + (qubitToks nq).length)) = .SEMICOLON :=
    kindAt_pos hsemi (by omega)
  have hsub : exprStmt ((g + nq + 5) + 4 + 1) (some { pos := s.events.size + 0 })
      (s.ov [Ev.start SyntaxKind.TOMBSTONE none] 0 (s.steps + 1) (s.sinceBump + 1) (s.live + 1) s.protectedPos) =
      .ok (some (⟨s.events.size + 4, .GATE_CALL_EXPR⟩, .notBlock),
        s.ov (Ev.start SyntaxKind.TOMBSTONE (some 4) :: Ev.start SyntaxKind.IDENTIFIER (some 3) ::
            Ev.token SyntaxKind.IDENT 1 :: Ev.finish :: Ev.start SyntaxKind.GATE_CALL_EXPR none ::
            Ev.start SyntaxKind.ARG_LIST none :: Ev.start SyntaxKind.EXPRESSION_LIST none :: Ev.token SyntaxKind.L_PAREN 1 ::
            (argEvs (a :: as) ++ [Ev.token SyntaxKind.R_PAREN 1, Ev.finish, Ev.finish] ++
              Ev.start SyntaxKind.QUBIT_LIST none :: (qubitEvs nq ++ [Ev.finish]) ++ [Ev.finish]))
          (1 + ((argToks (a :: as)).length + 2) + (qubitToks nq).length) 0 (sb' + 1) s.live s.protectedPos) := by
    sym_eval [filter_base s hpr, contains_base s hpr, h0, h1, hargs, hq, hq0, hsemi', bne_self_eq_false]
    rfl
  refine (stmt_wrap _ s hr _ (by decide) h0 _ _ 4 _ _ hsub rfl rfl hsemi').congr ?_ ?_
  · simp only [evsS, tombLink, exprStmtTail, List.set_cons_succ, List.set_cons_zero, List.cons_append, List.nil_append,
      List.append_assoc, List.length_cons, List.length_append, List.length_nil, qubitEvs_length]
    congr 6
  · omega

/-- `current_op` at the `=` of an assignment -/
theorem opF_assign (s : P) (q : Nat) (h0 : s.kindAt q = .EQ) (h1 : s.kindAt (q + 1) ≠ .EQ)
    (h2 : s.kindAt (q + 1) ≠ .R_ANGLE) : opF s.kinds s.joint q = (12, .EQ, .right) := by
  simp only [P.kindAt] at h0 h1 h2
  unfold opF
  rw [h0, scanF_filter, rows_EQ]
  simp only [scanF, atF_FAT_ARROW, atF_EQ2, h0, h1, h2, Bool.and_eq_true, beq_iff_eq, false_and, and_false, if_false,
    Option.getD_some, reduceCtorEq, true_and, if_true]

/-- `x = rhs ;` where `rhs` is not a bare binary expression (F06), and the token after the `;` does
not continue the assignment as a binary expression (F09e) -/
theorem stmt_assign (rhs : E) (F : Nat) (s : P) (hr : Rdy 8 s) (hF : 6 * size rhs + 6 ≤ F)
    (htk : Toks s s.pos (toksS (.assign rhs))) (hc : CanonE 12 rhs)
    (hfol : StopsAt s (s.pos + (toksS (.assign rhs)).length) 1) :
    Acc (stmt F) s (toksS (.assign rhs)).length (evsS (.assign rhs)) := by
  obtain ⟨f, rfl⟩ : ∃ f, F = f + 6 := ⟨F - 6, by omega⟩
  simp only [toksS, Toks, Toks_append, tk, List.length_cons, List.length_append, List.length_nil] at htk hfol ⊢
  obtain ⟨h0, -, h1, -, htr, hsemi, -, -⟩ := htk
  rw [show s.pos = s.pos + 0 from rfl] at h0
  have hnp := hr.hook
  have hpr := hr.prot
  have hst : s.steps ≤ s.stepLimit := by have := hr.steps; omega
  have hst1 : s.steps + 1 ≤ s.stepLimit := by have := hr.steps; omega
  have hpr' : ∀ n, ∀ p ∈ s.protectedPos, p < s.events.size + n := fun n p hp => Nat.lt_add_right n (hr.prot p hp)
  obtain ⟨k2, j2, ts, hts, hk2⟩ := toks_first rhs
  have h2 : s.kindAt (s.pos + 1 + 1) = k2 := by rw [hts] at htr; exact htr.1
  have hne := operandFirst_ne (h2 ▸ hk2)
  have hop : ∀ E st sb lv pr, currentOp (s.ov E 1 st sb lv pr) =
      .ok ((12, SyntaxKind.EQ, Assoc.right), s.ov E 1 st sb lv pr) := by
    intro E st sb lv pr
    rw [currentOp_ov, opF_assign s (s.pos + 1) h1 hne.1 hne.2.2.2.2.2.2.1]
  have hrhs := fun st sb lv E0 (h : 4 < E0.length) h1 =>
    exprBp_ov rhs 12 { preferStmt := false } s E0 2 st sb lv ((s.events.size + 4) :: s.protectedPos) (f + 2) hr.hook h1
      (by
        intro p hp
        rcases List.mem_cons.1 hp with h' | h'
        · omega
        · have := hpr p h'; omega)
      htr hc (by decide) (by decide) (by rw [show s.pos + 2 + (toks rhs).length = s.pos + 1 + 1 + (toks rhs).length by omega, hsemi]; rfl)
      (by omega)
  have hsemi' : s.kindAt (s.pos + (2 + (toks rhs).length)) = .SEMICOLON := kindAt_pos hsemi (by omega)
  have hop2 : ∀ E st sb lv pr, currentOp (s.ov E (2 + (toks rhs).length + 1) st sb lv pr) =
      .ok (opF s.kinds s.joint (s.pos + (2 + (toks rhs).length + 1)), s.ov E (2 + (toks rhs).length + 1) st sb lv pr) :=
    fun E st sb lv pr => currentOp_ov s E _ st sb lv pr
  unfold StopsAt at hfol
  rw [show s.pos + ((toks rhs).length + (0 + 1) + 1 + 1) = s.pos + (2 + (toks rhs).length + 1) by omega] at hfol
  generalize opF s.kinds s.joint (s.pos + (2 + (toks rhs).length + 1)) = x at hfol hop2
  obtain ⟨pw, op, as⟩ := x
  have hlt : (pw < 1) = True := eq_true hfol
  refine ⟨0, ?_, Nat.zero_le _, of_ov _ _ _ ?_⟩
  rotate_left 1
  sym_eval [filter_base s hpr, contains_base s hpr, h0, h1, hop, hrhs, hsemi', hop2, hlt, bne_self_eq_false]
  close_ov

/-- `x = measure q ;` -/
theorem stmt_assignMeasure (F : Nat) (s : P) (hr : Rdy 8 s) (hF : 12 ≤ F)
    (htk : Toks s s.pos (toksS .assignMeasure))
    (hfol : StopsAt s (s.pos + (toksS .assignMeasure).length) 1) :
    Acc (stmt F) s (toksS .assignMeasure).length (evsS .assignMeasure) := by
  obtain ⟨f, rfl⟩ : ∃ f, F = f + 12 := ⟨F - 12, by omega⟩
  simp only [toksS, Toks, tk, List.length_cons, List.length_nil] at htk hfol ⊢
  obtain ⟨h0, -, h1, -, h2, -, h3, -, h4, -, -⟩ := htk
  rw [show s.pos = s.pos + 0 from rfl] at h0
  rw [show s.pos + 1 + 1 = s.pos + 2 from rfl] at h2
  rw [show s.pos + 1 + 1 + 1 = s.pos + 3 from rfl] at h3
  rw [show s.pos + 1 + 1 + 1 + 1 = s.pos + 4 from rfl] at h4
  have hop : ∀ E st sb lv pr, currentOp (s.ov E 1 st sb lv pr) =
      .ok ((12, SyntaxKind.EQ, Assoc.right), s.ov E 1 st sb lv pr) := by
    intro E st sb lv pr
    rw [currentOp_ov, opF_assign s (s.pos + 1) h1 (by rw [h2]; decide) (by rw [h2]; decide)]
  have hop2 : ∀ E st sb lv pr, currentOp (s.ov E 5 st sb lv pr) =
      .ok (opF s.kinds s.joint (s.pos + 5), s.ov E 5 st sb lv pr) :=
    fun E st sb lv pr => currentOp_ov s E _ st sb lv pr
  unfold StopsAt at hfol
  simp only [Nat.reduceAdd] at hfol
  generalize opF s.kinds s.joint (s.pos + 5) = x at hfol hop2
  obtain ⟨pw, op, as⟩ := x
  have hlt : (pw < 1) = True := eq_true hfol
  run_base [h0, h1, h2, h3, h4, hop, hop2, hlt, bne_self_eq_false]

/-- `reset q ;` -/
theorem stmt_reset (F : Nat) (s : P) (hr : Rdy 8 s) (hF : 8 ≤ F) (htk : Toks s s.pos (toksS .reset)) :
    Acc (stmt F) s (toksS .reset).length (evsS .reset) := by
  obtain ⟨f, rfl⟩ : ∃ f, F = f + 8 := ⟨F - 8, by omega⟩
  simp only [toksS, Toks, tk] at htk
  obtain ⟨h0, -, h1, -, h2, -, -⟩ := htk
  rw [show s.pos = s.pos + 0 from rfl] at h0
  rw [show s.pos + 1 + 1 = s.pos + 2 from rfl] at h2
  run_base [h0, h1, h2]

theorem stmt_brk (F : Nat) (s : P) (hr : Rdy 8 s) (hF : 8 ≤ F) (htk : Toks s s.pos (toksS .brk)) :
    Acc (stmt F) s (toksS .brk).length (evsS .brk) := by
  obtain ⟨f, rfl⟩ : ∃ f, F = f + 8 := ⟨F - 8, by omega⟩
  simp only [toksS, Toks, tk] at htk
  obtain ⟨h0, -, h1, -, -⟩ := htk
  rw [show s.pos = s.pos + 0 from rfl] at h0
  run_base [h0, h1]

theorem stmt_cont (F : Nat) (s : P) (hr : Rdy 8 s) (hF : 8 ≤ F) (htk : Toks s s.pos (toksS .cont)) :
    Acc (stmt F) s (toksS .cont).length (evsS .cont) := by
  obtain ⟨f, rfl⟩ : ∃ f, F = f + 8 := ⟨F - 8, by omega⟩
  simp only [toksS, Toks, tk] at htk
  obtain ⟨h0, -, h1, -, -⟩ := htk
  rw [show s.pos = s.pos + 0 from rfl] at h0
  run_base [h0, h1]

theorem stmt_endS (F : Nat) (s : P) (hr : Rdy 8 s) (hF : 8 ≤ F) (htk : Toks s s.pos (toksS .endS)) :
    Acc (stmt F) s (toksS .endS).length (evsS .endS) := by
  obtain ⟨f, rfl⟩ : ∃ f, F = f + 8 := ⟨F - 8, by omega⟩
  simp only [toksS, Toks, tk] at htk
  obtain ⟨h0, -, h1, -, -⟩ := htk
  rw [show s.pos = s.pos + 0 from rfl] at h0
  run_base [h0, h1]

/-- `barrier q0, …, q_nq ;` -/
theorem stmt_barrier (nq F : Nat) (s : P) (hr : Rdy 8 s) (hF : nq + 8 ≤ F)
    (htk : Toks s s.pos (toksS (.barrier nq))) :
    Acc (stmt F) s (toksS (.barrier nq)).length (evsS (.barrier nq)) := by
  obtain ⟨g, rfl⟩ : ∃ g, F = (g + nq + 5) + 3 := ⟨F - nq - 8, by omega⟩
  simp only [toksS, Toks, Toks_append, tk, List.length_cons, List.length_append, List.length_nil] at htk ⊢
  obtain ⟨h0, -, htq, hsemi, -, -⟩ := htk
  rw [show s.pos = s.pos + 0 from rfl] at h0
  have h1 : s.kindAt (s.pos + 1) = .IDENT := by
    obtain ⟨ts, hts⟩ := qubitToks_head nq
    rw [hts] at htq; exact htq.1
  have hpr' : ∀ n, ∀ p ∈ s.protectedPos, p < s.events.size + n := fun n p hp => Nat.lt_add_right n (hr.prot p hp)
  obtain ⟨st', sb', hle, hq⟩ :=
    (qubitList_acc nq g (s.ov [.start .TOMBSTONE none, .token .BARRIER_KW 1] 1 0 1 (s.live + 1) s.protectedPos)
      (Rdy_ov 2 s _ _ _ _ _ _ hr.hook (by have := hr.steps; omega) (hpr' _))
      ((Toks_ov s _ _ _ _ _ _ _ _).2 htq) hsemi).at_ov
  have hsemi' : s.kindAt (s.pos + (1 + (qubitToks nq).length)) = .SEMICOLON := kindAt_pos hsemi (by omega)
  run_base [h0, h1, hq, hsemi']

def optNeed : Option E → Nat
  | none => 0
  | some e => 6 * size e

/-- `ty` or `ty[w]` -/
theorem typeSpec_acc (ty : Ty) (w : Option E) (f : Nat) (s : P) (hr : Rdy 2 s)
    (hwide : w.isSome = true → ty.wide = true) (htk : Toks s s.pos (tyToks ty w))
    (hnext : w = none → s.kindAt (s.pos + 1) ≠ .L_BRACK)
    (hc : ∀ e, w = some e → CanonE 1 e) (hf : ∀ e, w = some e → 6 * size e ≤ f) :
    AccV (typeSpec (f + 4)) true s (tyToks ty w).length (tyEvs ty w) := by
  cases w with
  | none =>
    simp only [tyToks, Toks, tk] at htk
    exact typeSpec_plain ty (f + 1) s hr (by rw [Nat.add_zero]; exact htk.1) (hnext rfl)
  | some e =>
    exact (typeSpec_wide ty e f s hr (hwide rfl) htk (hc e rfl) (hf e rfl)).congr rfl
      (by simp only [tyToks, List.length_cons, List.length_append, List.length_nil])

/-- `Marker::abandon` of a marker that is not the last event -/
theorem abandon_mid (s : P) (hpr : ∀ p ∈ s.protectedPos, p < s.events.size) (E : List Ev) (dp st sb lv i : Nat)
    (h : i + 1 < E.length) :
    Marker.abandon { pos := s.events.size + i, isFp := false } (s.ov E dp st sb lv s.protectedPos) =
      .ok ((), s.ov E dp st sb (lv - 1) s.protectedPos) := by
  rw [abandon_ov _ _ _ _ _ _ _ _ (by intro h0; rw [h0] at h; simp at h), contains_base s hpr]
  have : (i + 1 == E.length) = false := by
    rw [beq_eq_false_iff_ne]; omega
  simp only [this, Bool.false_eq_true, if_false]

theorem tyEvs_length (ty : Ty) (w : Option E) : 3 ≤ (tyEvs ty w).length := by
  cases w <;> simp [tyEvs]

theorem tyToks_head (ty : Ty) (w : Option E) : ∃ ts, tyToks ty w = tk ty.kind :: ts := by
  cases w <;> exact ⟨_, rfl⟩

/-- `ty x ;` and `ty[w] x ;` -/
theorem stmt_decl_none (ty : Ty) (w : Option E) (F : Nat) (s : P) (hr : Rdy 8 s)
    (hF : optNeed w + 8 ≤ F)
    (hwide : w.isSome = true → ty.wide = true) (hc : ∀ e, w = some e → CanonE 1 e)
    (htk : Toks s s.pos (toksS (.decl ty w none))) :
    Acc (stmt F) s (toksS (.decl ty w none)).length (evsS (.decl ty w none)) := by
  obtain ⟨g, rfl⟩ : ∃ g, F = g + 8 := ⟨F - 8, by omega⟩
  simp only [toksS, Toks, Toks_append, tk, List.length_cons, List.length_append, List.length_nil] at htk ⊢
  obtain ⟨htt, hid, -, hsemi, -, -⟩ := htk
  have hpr' : ∀ n, ∀ p ∈ s.protectedPos, p < s.events.size + n := fun n p hp => Nat.lt_add_right n (hr.prot p hp)
  have h0 : s.kindAt (s.pos + 0) = ty.kind := by
    obtain ⟨ts, hts⟩ := tyToks_head ty w
    rw [hts] at htt; exact htt.1
  have h1 : s.kindAt (s.pos + 1) ≠ .L_PAREN := by
    cases w with
    | none => simp only [tyToks, List.length_cons, List.length_nil] at hid; rw [hid]; decide
    | some e => simp only [tyToks, Toks, tk] at htt; rw [htt.2.2.1]; decide
  obtain ⟨st1, sb1, hle1, hty⟩ :=
    (typeSpec_acc ty w g (s.ov [Ev.start SyntaxKind.TOMBSTONE none, Ev.start SyntaxKind.TOMBSTONE none] 0 (s.steps + 1)
        (s.sinceBump + 1 + 1) (s.live + 1 + 1) s.protectedPos)
      (Rdy_ov 2 s _ _ _ _ _ _ hr.hook (by have := hr.steps; omega) (hpr' _)) hwide
      ((Toks_ov s _ _ _ _ _ _ _ _).2 htt)
      (by intro hw; subst hw; simp only [tyToks, List.length_cons, List.length_nil] at hid
          show s.kindAt (s.pos + 0 + 1) ≠ _; rw [Nat.add_zero, hid]; decide)
      hc (by intro e he; subst he; simp only [optNeed] at hF; omega)).at_ov
  have hidk : s.kindAt (s.pos + (0 + (tyToks ty w).length)) = .IDENT := kindAt_pos hid (by omega)
  obtain ⟨st2, sb2, hle2, hvn⟩ :=
    (varName_acc (s.ov ([Ev.start SyntaxKind.TOMBSTONE none, Ev.start SyntaxKind.TOMBSTONE none] ++ tyEvs ty w)
        (0 + (tyToks ty w).length) st1 sb1 (s.live + 1) s.protectedPos)
      (Rdy_ov 2 s _ _ _ _ _ _ hr.hook (by have := hr.steps; omega) (hpr' _))
      (by show s.kindAt (s.pos + _ + 0) = _; exact kindAt_pos hid (by omega))).at_ov
  have hsemi' : s.kindAt (s.pos + (0 + (tyToks ty w).length + 1)) = .SEMICOLON := kindAt_pos hsemi (by omega)
  have hst1 : st1 ≤ s.stepLimit := by have := hr.steps; omega
  have hab := fun dp st sb lv => abandon_mid s hr.prot
    (Ev.start SyntaxKind.TOMBSTONE none :: Ev.start SyntaxKind.TOMBSTONE none :: tyEvs ty w) dp st sb lv 1
    (by have := tyEvs_length ty w; simp only [List.length_cons]; omega)
  simp only [List.cons_append, List.nil_append] at hvn
  cases ty <;> simp only [Ty.kind] at h0 <;> run_base [h0, h1, hty, hab, hidk, hvn, hsemi']

/-- `ty x = e ;` and `ty[w] x = e ;` -/
theorem stmt_decl_some (ty : Ty) (w : Option E) (e : E) (F : Nat) (s : P) (hr : Rdy 8 s)
    (hF : optNeed w + 8 ≤ F) (hFe : 6 * size e + 5 ≤ F) (hce : CanonE 1 e)
    (hwide : w.isSome = true → ty.wide = true) (hc : ∀ e, w = some e → CanonE 1 e)
    (htk : Toks s s.pos (toksS (.decl ty w (some e)))) :
    Acc (stmt F) s (toksS (.decl ty w (some e))).length (evsS (.decl ty w (some e))) := by
  obtain ⟨g, rfl⟩ : ∃ g, F = g + 8 := ⟨F - 8, by omega⟩
  simp only [toksS, Toks, Toks_append, tk, List.length_cons, List.length_append, List.length_nil] at htk ⊢
  obtain ⟨htt, hid, -, heq, -, hte, hsemi, -, -⟩ := htk
  have hpr' : ∀ n, ∀ p ∈ s.protectedPos, p < s.events.size + n := fun n p hp => Nat.lt_add_right n (hr.prot p hp)
  have h0 : s.kindAt (s.pos + 0) = ty.kind := by
    obtain ⟨ts, hts⟩ := tyToks_head ty w
    rw [hts] at htt; exact htt.1
  have h1 : s.kindAt (s.pos + 1) ≠ .L_PAREN := by
    cases w with
    | none => simp only [tyToks, List.length_cons, List.length_nil] at hid; rw [hid]; decide
    | some e => simp only [tyToks, Toks, tk] at htt; rw [htt.2.2.1]; decide
  obtain ⟨st1, sb1, hle1, hty⟩ :=
    (typeSpec_acc ty w g (s.ov [Ev.start SyntaxKind.TOMBSTONE none, Ev.start SyntaxKind.TOMBSTONE none] 0 (s.steps + 1)
        (s.sinceBump + 1 + 1) (s.live + 1 + 1) s.protectedPos)
      (Rdy_ov 2 s _ _ _ _ _ _ hr.hook (by have := hr.steps; omega) (hpr' _)) hwide
      ((Toks_ov s _ _ _ _ _ _ _ _).2 htt)
      (by intro hw; subst hw; simp only [tyToks, List.length_cons, List.length_nil] at hid
          show s.kindAt (s.pos + 0 + 1) ≠ _; rw [Nat.add_zero, hid]; decide)
      hc (by intro e he; subst he; simp only [optNeed] at hF; omega)).at_ov
  have hidk : s.kindAt (s.pos + (0 + (tyToks ty w).length)) = .IDENT := kindAt_pos hid (by omega)
  obtain ⟨st2, sb2, hle2, hvn⟩ :=
    (varName_acc (s.ov ([Ev.start SyntaxKind.TOMBSTONE none, Ev.start SyntaxKind.TOMBSTONE none] ++ tyEvs ty w)
        (0 + (tyToks ty w).length) st1 sb1 (s.live + 1) s.protectedPos)
      (Rdy_ov 2 s _ _ _ _ _ _ hr.hook (by have := hr.steps; omega) (hpr' _))
      (by show s.kindAt (s.pos + _ + 0) = _; exact kindAt_pos hid (by omega))).at_ov
  have heq' : s.kindAt (s.pos + (0 + (tyToks ty w).length + 1)) = .EQ := kindAt_pos heq (by omega)
  have he := fun st sb lv E0 h1 => expr_ov e s E0 (0 + (tyToks ty w).length + 1 + 1) st sb lv s.protectedPos (g + 3) hr.hook h1 (hpr' _)
    (Toks_pos hte (by omega)) hce (by rw [kindAt_pos hsemi (by omega)]; rfl) (by omega)
  have hsemi' : s.kindAt (s.pos + (0 + (tyToks ty w).length + 1 + 1 + (toks e).length)) = .SEMICOLON :=
    kindAt_pos hsemi (by omega)
  have hst1 : st1 ≤ s.stepLimit := by have := hr.steps; omega
  have hab := fun dp st sb lv => abandon_mid s hr.prot
    (Ev.start SyntaxKind.TOMBSTONE none :: Ev.start SyntaxKind.TOMBSTONE none :: tyEvs ty w) dp st sb lv 1
    (by have := tyEvs_length ty w; simp only [List.length_cons]; omega)
  simp only [List.cons_append, List.nil_append] at hvn
  cases ty <;> simp only [Ty.kind] at h0 <;> run_base [h0, h1, hty, hab, hidk, hvn, heq', he, hsemi']

end Oq3.LangEv
