/-
Helper lemmas for `Oq3.Props.C14`: every scanner of the lexer model returns a suffix of its
input, every recorded assertion holds, `utf8Len` arithmetic, byte slicing.
Core only (no Mathlib).
-/
import Oq3.Model.Lexer
import Oq3.Model.Lexed

namespace Oq3.Lemmas.Lexer
open Oq3.Lexer

/-! ### `utf8Len` -/

theorem utf8Len_append (a b : List Char) : utf8Len (a ++ b) = utf8Len a + utf8Len b := by
  induction a with
  | nil => simp [utf8Len]
  | cons c cs ih => simp [utf8Len, ih, Nat.add_assoc]

theorem utf8Len_pos {s : List Char} (h : s ≠ []) : 0 < utf8Len s := by
  cases s with
  | nil => exact absurd rfl h
  | cons c cs => have := Char.utf8Size_pos c; simp only [utf8Len]; omega

theorem utf8Len_suffix {r s : List Char} (h : r <:+ s) : utf8Len r ≤ utf8Len s := by
  obtain ⟨p, rfl⟩ := h
  rw [utf8Len_append]; omega

theorem length_le_utf8Len (s : List Char) : s.length ≤ utf8Len s := by
  induction s with
  | nil => simp [utf8Len]
  | cons c cs ih => have := Char.utf8Size_pos c; simp only [utf8Len, List.length_cons]; omega

/-! ### suffix lemmas, one per scanner -/

theorem bump_suffix (s : Cursor) : bump s <:+ s := List.tail_suffix s

theorem eatWhile_suffix (p : Char → Bool) (s : Cursor) : eatWhile p s <:+ s := by
  induction s with
  | nil => simp [eatWhile]
  | cons x xs ih =>
    simp only [eatWhile]; split
    · exact ih.trans (List.suffix_cons x xs)
    · exact List.suffix_refl _

theorem blockCommentLoop_suffix (d : Nat) (ok : Bool) (s : Cursor) :
    (blockCommentLoop d ok s).rest <:+ s := by
  fun_induction blockCommentLoop d ok s <;>
    first
    | (simp; done)
    | (rename_i ih; exact ih.trans ((List.suffix_cons _ _).trans (List.suffix_cons _ _)))
    | exact (List.suffix_cons _ _).trans (List.suffix_cons _ _)
    | (rename_i ih; exact ih.trans (List.suffix_cons _ _))


/-- goal-directed form: to show `bump r <:+ s` show `r <:+ s` -/
theorem sfx_bump {r s : Cursor} (h : r <:+ s) : bump r <:+ s := (bump_suffix r).trans h
theorem sfx_tail {r s : Cursor} (h : r <:+ s) : r.tail <:+ s := (List.tail_suffix r).trans h
theorem sfx_eatWhile {p : Char → Bool} {r s : Cursor} (h : r <:+ s) : eatWhile p r <:+ s :=
  (eatWhile_suffix p r).trans h
theorem sfx_cons {c : Char} {r s : Cursor} (h : (c :: r) <:+ s) : r <:+ s :=
  (List.suffix_cons c r).trans h

/-- one step of the suffix prover; extended by `macro_rules` after each scanner lemma -/
syntax "sfx_step" : tactic
macro_rules | `(tactic| sfx_step) => `(tactic| exact List.suffix_refl _)
macro_rules | `(tactic| sfx_step) => `(tactic| assumption)
macro_rules | `(tactic| sfx_step) => `(tactic| with_reducible apply sfx_bump)
macro_rules | `(tactic| sfx_step) => `(tactic| with_reducible apply sfx_eatWhile)
macro_rules | `(tactic| sfx_step) => `(tactic| exact List.suffix_cons _ _)
macro_rules | `(tactic| sfx_step) => `(tactic| exact List.nil_suffix _)
/-- proves `X <:+ s` where `X` is obtained from `s` by scanners -/
macro "sfx" : tactic => `(tactic| repeat sfx_step)

theorem sfx_blockCommentLoop {d : Nat} {ok : Bool} {r s : Cursor} (h : r <:+ s) :
    (blockCommentLoop d ok r).rest <:+ s := (blockCommentLoop_suffix d ok r).trans h
macro_rules | `(tactic| sfx_step) => `(tactic| with_reducible apply sfx_blockCommentLoop)

theorem sfx_lineComment {p : Char} {r s : Cursor} (h : r <:+ s) : (lineComment p r).rest <:+ s := by
  simp only [lineComment]; sfx
macro_rules | `(tactic| sfx_step) => `(tactic| with_reducible apply sfx_lineComment)

theorem sfx_blockComment {p : Char} {r s : Cursor} (h : r <:+ s) :
    (blockComment p r).rest <:+ s := by
  simp only [blockComment]; sfx
macro_rules | `(tactic| sfx_step) => `(tactic| with_reducible apply sfx_blockComment)

theorem sfx_whitespace {p : Char} {r s : Cursor} (h : r <:+ s) : (whitespace p r).rest <:+ s := by
  simp only [whitespace]; sfx
macro_rules | `(tactic| sfx_step) => `(tactic| with_reducible apply sfx_whitespace)

theorem sfx_haveDim {r s : Cursor} (h : r <:+ s) : (haveDim r).rest <:+ s := by
  simp only [haveDim]; (repeat' split) <;> sfx
macro_rules | `(tactic| sfx_step) => `(tactic| with_reducible apply sfx_haveDim)

theorem sfx_havePragma {p : Char} {r s : Cursor} (h : r <:+ s) : (havePragma p r).rest <:+ s := by
  simp only [havePragma]; (repeat' split) <;> sfx
macro_rules | `(tactic| sfx_step) => `(tactic| with_reducible apply sfx_havePragma)

theorem sfx_haveOpenqasm {p : Char} {r s : Cursor} (h : r <:+ s) :
    (haveOpenqasm p r).rest <:+ s := by
  simp only [haveOpenqasm]; (repeat' split) <;> sfx
macro_rules | `(tactic| sfx_step) => `(tactic| with_reducible apply sfx_haveOpenqasm)

theorem eatDecimalDigitsLoop_suffix (b : Bool) (s : Cursor) :
    (eatDecimalDigitsLoop b s).rest <:+ s := by
  fun_induction eatDecimalDigitsLoop b s <;>
    first
    | (simp; done)
    | (rename_i ih; exact ih.trans (List.suffix_cons _ _))

theorem sfx_eatDecimalDigits {r s : Cursor} (h : r <:+ s) : (eatDecimalDigits r).rest <:+ s :=
  (eatDecimalDigitsLoop_suffix _ r).trans h
macro_rules | `(tactic| sfx_step) => `(tactic| with_reducible apply sfx_eatDecimalDigits)

theorem eatHexadecimalDigitsLoop_suffix (b : Bool) (s : Cursor) :
    (eatHexadecimalDigitsLoop b s).rest <:+ s := by
  fun_induction eatHexadecimalDigitsLoop b s <;>
    first
    | (simp; done)
    | (rename_i ih; exact ih.trans (List.suffix_cons _ _))

theorem sfx_eatHexadecimalDigits {r s : Cursor} (h : r <:+ s) :
    (eatHexadecimalDigits r).rest <:+ s :=
  (eatHexadecimalDigitsLoop_suffix _ r).trans h
macro_rules | `(tactic| sfx_step) => `(tactic| with_reducible apply sfx_eatHexadecimalDigits)

theorem sfx_eatFloatExponent {p : Char} {r s : Cursor} (h : r <:+ s) :
    (eatFloatExponent p r).rest <:+ s := by
  simp only [eatFloatExponent]; split <;> sfx
macro_rules | `(tactic| sfx_step) => `(tactic| with_reducible apply sfx_eatFloatExponent)

theorem sfx_openqasmVersion {r s : Cursor} (h : r <:+ s) : (openqasmVersion r).rest <:+ s := by
  simp only [openqasmVersion]; (repeat' split) <;> sfx
macro_rules | `(tactic| sfx_step) => `(tactic| with_reducible apply sfx_openqasmVersion)

theorem sfx_fakeIdentOrUnknownPrefix {uc : UC} {r s : Cursor} (h : r <:+ s) :
    (fakeIdentOrUnknownPrefix uc r).rest <:+ s := by
  simp only [fakeIdentOrUnknownPrefix]; sfx
macro_rules | `(tactic| sfx_step) => `(tactic| with_reducible apply sfx_fakeIdentOrUnknownPrefix)

theorem sfx_identOrUnknownPrefix {uc : UC} {p : Char} {r s : Cursor} (h : r <:+ s) :
    (identOrUnknownPrefix uc p r).rest <:+ s := by
  simp only [identOrUnknownPrefix]; split <;> sfx
macro_rules | `(tactic| sfx_step) => `(tactic| with_reducible apply sfx_identOrUnknownPrefix)

theorem sfx_pragmaOrIdentOrUnknownPrefix {uc : UC} {p : Char} {r s : Cursor} (h : r <:+ s) :
    (pragmaOrIdentOrUnknownPrefix uc p r).rest <:+ s := by
  simp only [pragmaOrIdentOrUnknownPrefix]; split <;> sfx
macro_rules | `(tactic| sfx_step) => `(tactic| with_reducible apply sfx_pragmaOrIdentOrUnknownPrefix)

theorem sfx_hardwareIdent {uc : UC} {r s : Cursor} (h : r <:+ s) :
    (hardwareIdent uc r).rest <:+ s := by
  simp only [hardwareIdent]; (repeat' split) <;> sfx
macro_rules | `(tactic| sfx_step) => `(tactic| with_reducible apply sfx_hardwareIdent)

theorem sfx_optExponent {r s : Cursor} (h : r <:+ s) : (optExponent r).rest <:+ s := by
  simp only [optExponent]; split <;> sfx
macro_rules | `(tactic| sfx_step) => `(tactic| with_reducible apply sfx_optExponent)

theorem sfx_floatWithNoLeadingDigit {r s : Cursor} (h : r <:+ s) :
    (floatWithNoLeadingDigit r).rest <:+ s := by
  simp only [floatWithNoLeadingDigit]; sfx
macro_rules | `(tactic| sfx_step) => `(tactic| with_reducible apply sfx_floatWithNoLeadingDigit)

theorem sfx_numberTail {b : Base} {r s : Cursor} (h : r <:+ s) :
    (numberTail b r).rest <:+ s := by
  simp only [numberTail]; (repeat' split) <;> sfx
macro_rules | `(tactic| sfx_step) => `(tactic| with_reducible apply sfx_numberTail)

theorem sfx_number {p c : Char} {r s : Cursor} (h : r <:+ s) : (number p c r).rest <:+ s := by
  simp only [number]; (repeat' split) <;> sfx
macro_rules | `(tactic| sfx_step) => `(tactic| with_reducible apply sfx_number)

theorem quotedStringLoop_suffix (q : Char) (st : StrState) (s : Cursor) :
    (quotedStringLoop q st s).rest <:+ s := by
  fun_induction quotedStringLoop q st s <;>
    first
    | (simp; done)
    | (rename_i ih; exact ih.trans ((List.suffix_cons _ _).trans (List.suffix_cons _ _)))
    | (rename_i ih; exact ih.trans (List.suffix_cons _ _))
    | exact List.suffix_cons _ _

theorem sfx_doubleQuotedString {p : Char} {r s : Cursor} (h : r <:+ s) :
    (doubleQuotedString p r).rest <:+ s := (quotedStringLoop_suffix _ _ r).trans h
macro_rules | `(tactic| sfx_step) => `(tactic| with_reducible apply sfx_doubleQuotedString)

theorem sfx_singleQuotedString {p : Char} {r s : Cursor} (h : r <:+ s) :
    (singleQuotedString p r).rest <:+ s := (quotedStringLoop_suffix _ _ r).trans h
macro_rules | `(tactic| sfx_step) => `(tactic| with_reducible apply sfx_singleQuotedString)

theorem sfx_eatIdentifier {uc : UC} {r s : Cursor} (h : r <:+ s) : eatIdentifier uc r <:+ s := by
  simp only [eatIdentifier]; split <;> sfx
macro_rules | `(tactic| sfx_step) => `(tactic| with_reducible apply sfx_eatIdentifier)

theorem sfx_eatLiteralSuffix {uc : UC} {r s : Cursor} (h : r <:+ s) :
    eatLiteralSuffix uc r <:+ s := sfx_eatIdentifier h
macro_rules | `(tactic| sfx_step) => `(tactic| with_reducible apply sfx_eatLiteralSuffix)

theorem sfx_numericLiteral {uc : UC} {st : Cursor} {lit : Scan LiteralKind} {s : Cursor}
    (h : lit.rest <:+ s) : (numericLiteral uc st lit).rest <:+ s := by
  simp only [numericLiteral]; split <;> sfx

theorem sfx_stringLiteral {uc : UC} {st : Cursor} {r : Scan (Bool × Bool × Bool)} {s : Cursor}
    (h : r.rest <:+ s) : (stringLiteral uc st r).rest <:+ s := by
  simp only [stringLiteral]; split <;> sfx

theorem sfx_ite {α : Type} {c : Prop} [Decidable c] {a b : Scan α} {s : Cursor}
    (ha : a.rest <:+ s) (hb : b.rest <:+ s) : (if c then a else b).rest <:+ s := by
  split <;> assumption

/-- `advance_token` progress, kind part: the scanner continues from `cs` -/
theorem advanceKind_suffix (uc : UC) (c : Char) (cs : Cursor) :
    (advanceKind uc c cs).rest <:+ cs := by
  simp only [advanceKind]
  repeat' (first | apply sfx_ite | split)
  all_goals
    first
    | (sfx; done)
    | (apply sfx_numericLiteral; sfx; done)
    | (apply sfx_stringLiteral; sfx; done)


/-! ### the recorded assertions hold -/

/-- What `debug_assert!(is_id_start(self.prev()))` in `ident_or_unknown_prefix` needs from the
Unicode tables: the arms `'p'` and `'O'` of `advance_token` reach it without having tested
`is_id_start`, with `prev()` one of the letters of `pragma` / `OPENQASM`. -/
def KeywordLettersAreIdStart (uc : UC) : Prop :=
  ∀ c ∈ ['p', 'r', 'a', 'g', 'm', 'O', 'P', 'E', 'N', 'Q', 'A', 'S', 'M'], isIdStart uc c = true

theorem blockCommentLoop_ok (d : Nat) (ok : Bool) (s : Cursor) (hd : 0 < d) :
    (blockCommentLoop d ok s).ok = ok := by
  fun_induction blockCommentLoop d ok s
  case case1 => rfl
  case case2 => rfl
  case case3 ih => exact ih (by omega)
  case case4 => rename_i ok' depth' _ _; simp [ok', hd]
  case case5 => rename_i ok' depth' _ _ _ _ _; simp [ok', hd]
  case case6 =>
    rename_i ok' depth' _ _ hne _ _ ih
    have h0 : 0 < depth' := by
      have : depth' ≠ 0 := by simpa using hne
      omega
    rw [ih h0]; simp [ok', hd]
  case case7 ih => exact ih hd

theorem blockComment_ok (p : Char) (s : Cursor) (h1 : p = '/') (h2 : first s = '*') :
    (blockComment p s).ok = true := by
  simp only [blockComment]
  rw [blockCommentLoop_ok _ _ _ (by omega)]; simp [h1, h2]

theorem eatDecimalDigitsLoop_ok (b : Bool) (s : Cursor) : (eatDecimalDigitsLoop b s).ok = true := by
  fun_induction eatDecimalDigitsLoop b s <;> simp_all

theorem eatDecimalDigits_ok (s : Cursor) : (eatDecimalDigits s).ok = true :=
  eatDecimalDigitsLoop_ok _ _

theorem eatHexadecimalDigitsLoop_ok (b : Bool) (s : Cursor) :
    (eatHexadecimalDigitsLoop b s).ok = true := by
  fun_induction eatHexadecimalDigitsLoop b s <;> simp_all

theorem optExponent_ok (s : Cursor) : (optExponent s).ok = true := by
  simp only [optExponent]; split
  · simp only [eatFloatExponent]; assumption
  · rfl

theorem floatWithNoLeadingDigit_ok (s : Cursor) (h : isDecDigit (first s) = true) :
    (floatWithNoLeadingDigit s).ok = true := by
  simp [floatWithNoLeadingDigit, h, optExponent_ok]

theorem numberTail_ok (b : Base) (s : Cursor) : (numberTail b s).ok = true := by
  simp only [numberTail]
  (repeat' split) <;> first | rfl | exact optExponent_ok _ | (simp only [eatFloatExponent]; assumption)

theorem number_ok (p c : Char) (s : Cursor) (h : isDecDigit p = true) :
    (number p c s).ok = true := by
  simp only [isDecDigit] at h
  simp only [number, h, Bool.true_and]
  (repeat' split) <;> first | rfl | exact numberTail_ok _ _

theorem identOrUnknownPrefix_ok (uc : UC) (p : Char) (s : Cursor) (h : isIdStart uc p = true) :
    (identOrUnknownPrefix uc p s).ok = true := by
  simp only [identOrUnknownPrefix]; split <;> simp [h, fakeIdentOrUnknownPrefix]

theorem havePragma_prev (uc : UC) (hu : KeywordLettersAreIdStart uc) (p : Char) (s : Cursor)
    (hp : isIdStart uc p = true) : isIdStart uc (havePragma p s).prev = true := by
  simp only [havePragma]
  (repeat' split) <;> first | exact hp | (apply hu; simp)

theorem haveOpenqasm_prev (uc : UC) (hu : KeywordLettersAreIdStart uc) (p : Char) (s : Cursor)
    (hp : isIdStart uc p = true) : isIdStart uc (haveOpenqasm p s).prev = true := by
  simp only [haveOpenqasm]
  (repeat' split) <;> first | exact hp | (apply hu; simp)

theorem pragmaOrIdentOrUnknownPrefix_ok (uc : UC) (hu : KeywordLettersAreIdStart uc) (p : Char)
    (s : Cursor) (hp : isIdStart uc p = true) :
    (pragmaOrIdentOrUnknownPrefix uc p s).ok = true := by
  simp only [pragmaOrIdentOrUnknownPrefix]; split
  · rfl
  · exact identOrUnknownPrefix_ok _ _ _ (havePragma_prev uc hu p s hp)

theorem haveDim_ok (s : Cursor) : (haveDim s).ok = true := by
  simp only [haveDim]; (repeat' split) <;> rfl

theorem openqasmVersion_ok (s : Cursor) : (openqasmVersion s).ok = true := by
  simp only [openqasmVersion]; (repeat' split) <;> rfl

theorem hardwareIdent_ok (uc : UC) (s : Cursor) : (hardwareIdent uc s).ok = true := by
  simp only [hardwareIdent]; (repeat' split) <;> rfl

theorem ok_ite {α : Type} {c : Prop} [Decidable c] {a b : Scan α}
    (ha : c → a.ok = true) (hb : ¬c → b.ok = true) : (if c then a else b).ok = true := by
  split
  · exact ha ‹_›
  · exact hb ‹_›

/-- every `debug_assert!` evaluated by `advance_token` (and the `depth` guard) holds -/
theorem advanceKind_ok (uc : UC) (hu : KeywordLettersAreIdStart uc) (c : Char) (cs : Cursor) :
    (advanceKind uc c cs).ok = true := by
  simp only [advanceKind]
  refine ok_ite (fun h1 => ok_ite (fun h2 => ?_) (fun _ => ok_ite (fun h3 => ?_) (fun _ => rfl)))
    (fun _ => ok_ite (fun hw => ?_) (fun _ => ok_ite (fun hp => ?_) (fun _ => ok_ite (fun hO => ?_)
    (fun _ => ok_ite (fun hi => ?_) (fun _ => ok_ite (fun hd => ?_) (fun _ => ok_ite (fun _ => ?_)
    (fun _ => ok_ite (fun _ => ?_) (fun _ => ok_ite (fun _ => ?_) (fun _ => ok_ite (fun _ => ?_)
    (fun _ => ?_))))))))))
  · simp at h1 h2; simp [lineComment, h1, h2]
  · simp at h1 h3; exact blockComment_ok _ _ h1 h3
  · exact hw
  · simp at hp; subst hp
    exact pragmaOrIdentOrUnknownPrefix_ok uc hu _ _ (hu _ (by simp))
  · simp at hO; subst hO
    split
    · exact openqasmVersion_ok _
    · exact identOrUnknownPrefix_ok _ _ _ (haveOpenqasm_prev uc hu _ _ (hu _ (by simp)))
  · exact identOrUnknownPrefix_ok _ _ _ hi
  · simp only [numericLiteral]; exact number_ok _ _ _ hd
  · (repeat' split) <;> first | rfl | exact haveDim_ok _
  · split <;> rfl
  · split
    · simp only [numericLiteral]; exact floatWithNoLeadingDigit_ok _ ‹_›
    · rfl
  · exact hardwareIdent_ok _ _
  · split
    · rfl
    · refine ok_ite (fun h => ?_) (fun _ => ok_ite (fun h => ?_) (fun _ => ?_))
      · simp at h; simp [stringLiteral, doubleQuotedString, h]
      · simp at h; simp [stringLiteral, singleQuotedString, h]
      · split <;> rfl


/-! ### kinds returned by `advance_token` on non-empty input -/

/-- neither `Eof` nor a `Literal` -/
def plainKind : TokenKind → Bool
  | .eof => false
  | .literal _ _ => false
  | _ => true

/-- the token kind is not `Eof`, and a `Literal`'s `suffix_start` does not exceed the position
reached (`start` = cursor at the token start) -/
def GoodKind (start : Cursor) (r : Scan TokenKind) : Prop :=
  match r.val with
  | .eof => False
  | .literal _ suf => suf ≤ posWithinToken start r.rest
  | _ => True

theorem good_of_plain {start : Cursor} {r : Scan TokenKind} (h : plainKind r.val = true) :
    GoodKind start r := by
  unfold GoodKind; split <;> simp_all [plainKind]

theorem good_ite {c : Prop} [Decidable c] {start : Cursor} {a b : Scan TokenKind}
    (ha : c → GoodKind start a) (hb : ¬c → GoodKind start b) :
    GoodKind start (if c then a else b) := by
  split
  · exact ha ‹_›
  · exact hb ‹_›

theorem identOrUnknownPrefix_plain (uc : UC) (p : Char) (s : Cursor) :
    plainKind (identOrUnknownPrefix uc p s).val = true := by
  simp only [identOrUnknownPrefix]; split <;> rfl

theorem pragmaOrIdentOrUnknownPrefix_plain (uc : UC) (p : Char) (s : Cursor) :
    plainKind (pragmaOrIdentOrUnknownPrefix uc p s).val = true := by
  simp only [pragmaOrIdentOrUnknownPrefix]; split
  · rfl
  · exact identOrUnknownPrefix_plain _ _ _

theorem hardwareIdent_plain (uc : UC) (s : Cursor) :
    plainKind (hardwareIdent uc s).val = true := by
  simp only [hardwareIdent]; (repeat' split) <;> rfl

theorem ite_some_plain {c : Prop} [Decidable c] {a : TokenKind} {b : Option TokenKind}
    {k : TokenKind} (ha : plainKind a = true) (hb : b = some k → plainKind k = true) :
    (if c then some a else b) = some k → plainKind k = true := by
  split
  · intro h; cases h; exact ha
  · exact hb

theorem oneSymbol_plain {c : Char} {k : TokenKind} (h : oneSymbol c = some k) :
    plainKind k = true := by
  revert h; unfold oneSymbol
  repeat (refine ite_some_plain rfl ?_)
  intro h; cases h

theorem posWithinToken_mono {start r1 r2 : Cursor} (h : r2 <:+ r1) :
    posWithinToken start r1 ≤ posWithinToken start r2 := by
  have := utf8Len_suffix h
  unfold posWithinToken; omega

theorem numericLiteral_good (uc : UC) (start : Cursor) (lit : Scan LiteralKind) :
    GoodKind start (numericLiteral uc start lit) := by
  simp only [numericLiteral, GoodKind]
  apply posWithinToken_mono
  split <;> sfx

theorem stringLiteral_good (uc : UC) (start : Cursor) (r : Scan (Bool × Bool × Bool)) :
    GoodKind start (stringLiteral uc start r) := by
  simp only [stringLiteral, GoodKind]
  apply posWithinToken_mono
  split <;> sfx

theorem advanceKind_good (uc : UC) (c : Char) (cs : Cursor) :
    GoodKind (c :: cs) (advanceKind uc c cs) := by
  simp only [advanceKind]
  refine good_ite (fun _ => good_ite (fun _ => ?_) (fun _ => good_ite (fun _ => ?_) (fun _ => ?_)))
    (fun _ => good_ite (fun _ => ?_) (fun _ => good_ite (fun _ => ?_) (fun _ => good_ite (fun _ => ?_)
    (fun _ => good_ite (fun _ => ?_) (fun _ => good_ite (fun _ => ?_) (fun _ => good_ite (fun _ => ?_)
    (fun _ => good_ite (fun _ => ?_) (fun _ => good_ite (fun _ => ?_) (fun _ => good_ite (fun _ => ?_)
    (fun _ => ?_))))))))))
  · exact good_of_plain rfl
  · exact good_of_plain rfl
  · exact good_of_plain rfl
  · exact good_of_plain rfl
  · exact good_of_plain (pragmaOrIdentOrUnknownPrefix_plain _ _ _)
  · split
    · exact good_of_plain rfl
    · exact good_of_plain (identOrUnknownPrefix_plain _ _ _)
  · exact good_of_plain (identOrUnknownPrefix_plain _ _ _)
  · exact numericLiteral_good _ _ _
  · (repeat' split) <;> exact good_of_plain rfl
  · split <;> exact good_of_plain rfl
  · split
    · exact numericLiteral_good _ _ _
    · exact good_of_plain rfl
  · exact good_of_plain (hardwareIdent_plain _ _)
  · split
    · exact good_of_plain (oneSymbol_plain ‹_›)
    · refine good_ite (fun _ => ?_) (fun _ => good_ite (fun _ => ?_) (fun _ => ?_))
      · exact stringLiteral_good _ _ _
      · exact stringLiteral_good _ _ _
      · split <;> exact good_of_plain rfl

/-! ### `advance_token` -/

theorem advanceToken_rest_suffix (uc : UC) (c : Char) (cs : Cursor) :
    (advanceToken uc (c :: cs)).rest <:+ cs := advanceKind_suffix uc c cs

theorem advanceToken_kind_ne_eof (uc : UC) (c : Char) (cs : Cursor) :
    (advanceToken uc (c :: cs)).kind ≠ .eof := by
  have h := advanceKind_good uc c cs
  simp only [advanceToken]
  intro he
  simp only [GoodKind, he] at h

theorem advanceToken_rest_length_lt (uc : UC) (c : Char) (cs : Cursor) :
    (advanceToken uc (c :: cs)).rest.length < (c :: cs).length := by
  have := (advanceToken_rest_suffix uc c cs).length_le
  simp only [List.length_cons]; omega

/-! ### `consumed` -/

theorem consumed_append {s r : Cursor} (h : r <:+ s) : consumed s r ++ r = s := by
  obtain ⟨p, rfl⟩ := h
  simp [consumed]

theorem utf8Len_consumed {s r : Cursor} (h : r <:+ s) :
    utf8Len (consumed s r) = posWithinToken s r := by
  have h1 := congrArg utf8Len (consumed_append h)
  rw [utf8Len_append] at h1
  unfold posWithinToken; omega

theorem consumed_ne_nil {s r : Cursor} (h : r.length < s.length) : consumed s r ≠ [] := by
  unfold consumed
  intro h0
  have := congrArg List.length h0
  simp at this; omega

/-! ### `tokenize` -/

/-- the token `tokenize` emits at `s` -/
def tokenAt (uc : UC) (s : Cursor) : Token :=
  let a := advanceToken uc s
  ⟨a.kind, a.len, consumed s a.rest, a.ok⟩

theorem tokenizeFuel_nil (uc : UC) (fuel : Nat) : tokenizeFuel uc fuel [] = [] := by
  cases fuel <;> simp [tokenizeFuel, advanceToken]

theorem tokenizeFuel_cons (uc : UC) (fuel : Nat) (c : Char) (cs : Cursor) :
    tokenizeFuel uc (fuel + 1) (c :: cs) =
      tokenAt uc (c :: cs) :: tokenizeFuel uc fuel (advanceToken uc (c :: cs)).rest := by
  simp only [tokenizeFuel, tokenAt]
  have := advanceToken_kind_ne_eof uc c cs
  simp [this]

/-- any fuel `≥` the number of characters gives the same token stream -/
theorem tokenizeFuel_irrel (uc : UC) : ∀ (f1 f2 : Nat) (s : Cursor),
    s.length ≤ f1 → s.length ≤ f2 → tokenizeFuel uc f1 s = tokenizeFuel uc f2 s := by
  intro f1
  induction f1 with
  | zero =>
    intro f2 s h1 _
    have : s = [] := List.eq_nil_of_length_eq_zero (by omega)
    subst this; simp [tokenizeFuel_nil]
  | succ n ih =>
    intro f2 s h1 h2
    cases s with
    | nil => simp [tokenizeFuel_nil]
    | cons c cs =>
      cases f2 with
      | zero => simp at h2
      | succ m =>
        rw [tokenizeFuel_cons, tokenizeFuel_cons]
        have hl := advanceToken_rest_length_lt uc c cs
        simp only [List.length_cons] at hl h1 h2
        rw [ih m _ (by omega) (by omega)]

theorem tokenize_nil (uc : UC) : tokenize uc [] = [] := rfl

theorem tokenize_cons (uc : UC) (c : Char) (cs : Cursor) :
    tokenize uc (c :: cs) =
      tokenAt uc (c :: cs) :: tokenize uc (advanceToken uc (c :: cs)).rest := by
  unfold tokenize
  rw [List.length_cons, tokenizeFuel_cons]
  have hl := advanceToken_rest_length_lt uc c cs
  simp only [List.length_cons] at hl
  rw [tokenizeFuel_irrel uc cs.length _ _ (by omega) (Nat.le_refl _)]

/-- induction along the token stream -/
theorem tokenize_induction (uc : UC) (P : Cursor → List Token → Prop)
    (hnil : P [] [])
    (hcons : ∀ c cs, P (advanceToken uc (c :: cs)).rest (tokenize uc (advanceToken uc (c :: cs)).rest) →
      P (c :: cs) (tokenAt uc (c :: cs) :: tokenize uc (advanceToken uc (c :: cs)).rest))
    (s : Cursor) : P s (tokenize uc s) := by
  suffices h : ∀ n (s : Cursor), s.length ≤ n → P s (tokenize uc s) from h _ s (Nat.le_refl _)
  intro n
  induction n with
  | zero =>
    intro s hs
    have : s = [] := List.eq_nil_of_length_eq_zero (by omega)
    subst this; exact hnil
  | succ n ih =>
    intro s hs
    cases s with
    | nil => exact hnil
    | cons c cs =>
      rw [tokenize_cons]
      apply hcons
      have hl := advanceToken_rest_length_lt uc c cs
      simp only [List.length_cons] at hl hs
      exact ih _ (by omega)


/-! ### facts about single tokens -/

theorem tokenAt_text_append (uc : UC) (c : Char) (cs : Cursor) :
    (tokenAt uc (c :: cs)).text ++ (advanceToken uc (c :: cs)).rest = c :: cs :=
  consumed_append ((advanceToken_rest_suffix uc c cs).trans (List.suffix_cons _ _))

theorem tokenAt_len (uc : UC) (c : Char) (cs : Cursor) :
    (tokenAt uc (c :: cs)).len = utf8Len (tokenAt uc (c :: cs)).text := by
  simp only [tokenAt]
  rw [utf8Len_consumed ((advanceToken_rest_suffix uc c cs).trans (List.suffix_cons _ _))]
  rfl

theorem tokenAt_text_ne_nil (uc : UC) (c : Char) (cs : Cursor) :
    (tokenAt uc (c :: cs)).text ≠ [] :=
  consumed_ne_nil (advanceToken_rest_length_lt uc c cs)

theorem tokenAt_ok (uc : UC) (hu : KeywordLettersAreIdStart uc) (c : Char) (cs : Cursor) :
    (tokenAt uc (c :: cs)).ok = true := advanceKind_ok uc hu c cs

theorem tokenAt_kind_ne_eof (uc : UC) (c : Char) (cs : Cursor) :
    (tokenAt uc (c :: cs)).kind ≠ .eof := advanceToken_kind_ne_eof uc c cs

theorem tokenAt_suffix_start (uc : UC) (c : Char) (cs : Cursor) (k : LiteralKind) (suf : Nat)
    (h : (tokenAt uc (c :: cs)).kind = .literal k suf) : suf ≤ (tokenAt uc (c :: cs)).len := by
  have hg := advanceKind_good uc c cs
  simp only [tokenAt, advanceToken] at h ⊢
  simp only [GoodKind, h] at hg
  exact hg

/-- a property of every `tokenAt` holds for every token of the stream -/
theorem forall_tokenize (uc : UC) (Q : Token → Prop)
    (h : ∀ c cs, Q (tokenAt uc (c :: cs))) (s : Cursor) : ∀ t ∈ tokenize uc s, Q t := by
  refine tokenize_induction uc (fun _ ts => ∀ t ∈ ts, Q t) (by simp) ?_ s
  intro c cs ih t ht
  rcases List.mem_cons.mp ht with rfl | ht
  · exact h c cs
  · exact ih t ht

theorem tokenize_texts (uc : UC) (s : Cursor) :
    ((tokenize uc s).map (·.text)).flatten = s := by
  refine tokenize_induction uc (fun s ts => (ts.map (·.text)).flatten = s) rfl ?_ s
  intro c cs ih
  simp only [List.map_cons, List.flatten_cons, ih]
  exact tokenAt_text_append uc c cs

end Oq3.Lemmas.Lexer
