/-
C04 for a recursive reference language, part 7: `process` on the events of a program yields the
pre-order node sequence of the derivation (`process_evsP`).

The forward-parent chains of statements are handled uniformly: a `Spine` is an event segment whose
first event starts a chain that ends in (or leaves through) its root; `goSeg_spine` (the chain ends
in the root: expressions, assignments) and `goSeg_spine_wrap` (the root links to a wrapper `Start`
pushed by `precede` right after the segment: `EXPR_STMT`) turn a spine into a step of `process`.
-/
import Oq3.Lemmas.PrattEvProcess
import Oq3.Lemmas.LangEv

namespace Oq3.LangEv
open Oq3.Gen Oq3.Parser Oq3.PrattEv

/-- see the module doc: `X fp` is the segment with forward-parent link `fp` at its root, `sX` the
segment after the chain walk, `ks` the kinds collected (outermost first), `c` the number of links,
`off` the offset of the root -/
structure Spine (X : Option Nat → List Ev) (sX : List Ev) (ks : List SyntaxKind) (c off : Nat) : Prop where
  walk : ∀ (g : Nat) (A R : List Ev) (fp : Option Nat) (idx fwd : Nat) (acc : List SyntaxKind),
    idx + fwd = A.length →
    chain (g + c) (A ++ (X fp ++ R)) idx fwd acc =
      match fp with
      | none => some (ks ++ acc, A ++ (sX ++ R))
      | some d => chain g (A ++ (sX ++ R)) (A.length + off) d (ks ++ acc)
  len : ∀ fp, (X fp).length = sX.length
  fuel : ∀ fp, c ≤ cntFp (X fp) + (if fp.isSome then 0 else 1)
  noTomb : ks.filter (· != .TOMBSTONE) = ks

/-- expressions -/
theorem spine_body (e : E) : Spine (body e) (sbody e) (spineKinds e) (cF e) (rootOff e) :=
  ⟨chain_body e, fun fp => by have := body_length e fp; have := sbody_length e; omega,
    cntFp_body e, spineKinds_noTomb e⟩

/-- a single node whose `Start` carries the link -/
theorem spine_prim (k : SyntaxKind) (hk : (k != .TOMBSTONE) = true) (rest : List Ev) :
    Spine (fun fp => .start k fp :: rest) (Ev.tombstone :: rest) [k] 1 0 := by
  refine ⟨?_, fun _ => rfl, ?_, by simp [List.filter, hk]⟩
  · intro g A R fp idx fwd acc h
    simp only [List.cons_append, chain, h, get_mid, set_mid, Nat.add_zero]
    cases fp <;> rfl
  · intro fp; cases fp <;> simp [cntFp, Ev.hasFp]

/-- `x = …`: `IDENTIFIER` linked to the `ASSIGNMENT_STMT` that `precede` put after it -/
theorem spine_assign (rest : List Ev) :
    Spine (fun fp => .start .IDENTIFIER (some 3) :: .token .IDENT 1 :: .finish :: .start .ASSIGNMENT_STMT fp :: rest)
      (Ev.tombstone :: .token .IDENT 1 :: .finish :: Ev.tombstone :: rest) [.ASSIGNMENT_STMT, .IDENTIFIER] 2 3 := by
  refine ⟨?_, fun _ => rfl, ?_, rfl⟩
  · intro g A R fp idx fwd acc h
    have e1 : ∀ (x y z w : Ev) (L : List Ev), A ++ (x :: y :: z :: w :: L) = (A ++ [x, y, z]) ++ (w :: L) := by
      intro x y z w L; simp
    have e2 : (A ++ [Ev.tombstone, Ev.token SyntaxKind.IDENT 1, Ev.finish]).length = A.length + 3 := by simp
    simp only [List.cons_append, chain, h, get_mid, set_mid]
    rw [e1, ← e2]
    simp only [get_mid, set_mid]
    cases fp <;> simp [e2]
  · intro fp; cases fp <;> simp [cntFp, Ev.hasFp] <;> omega

theorem GoSeg.start (k : SyntaxKind) (hk : (k != .TOMBSTONE) = true) : GoSeg [.start k none] [.enter k] := by
  intro n A R out
  refine ⟨A ++ [Ev.tombstone], ?_⟩
  show processGo (n + 1) A.length (A ++ (Ev.start k none :: R)) out = _
  rw [processGo, get_mid]
  simp only
  rw [set_mid, go_shift, List.length_append]
  simp [enters, List.filter, hk]

/-- **a spine whose chain ends in its root** (expressions, assignments) -/
theorem goSeg_spine {X : Option Nat → List Ev} {sX : List Ev} {ks : List SyntaxKind} {c off : Nat}
    (hS : Spine X sX ks c off) {st : List Step} (hs : GoSeg sX st) :
    GoSeg (tombLink :: X none) (ks.map .enter ++ st) := by
  intro n A R out
  obtain ⟨A', h'⟩ := hs n (A ++ [Ev.tombstone]) R (out ++ ks.map .enter)
  refine ⟨A', ?_⟩
  rw [← List.append_assoc out, ← h']
  have hc := hS.fuel none
  simp only [Option.isSome_none, Bool.false_eq_true, if_false] at hc
  rw [List.length_cons, hS.len none, ← Nat.add_assoc]
  simp only [List.cons_append, processGo, get_mid, tombLink, set_mid]
  obtain ⟨g, hg⟩ : ∃ g, cntFp (A ++ (Ev.start SyntaxKind.TOMBSTONE (some 1) :: (X none ++ R))) + 1 = g + c := by
    refine ⟨cntFp (A ++ (Ev.start SyntaxKind.TOMBSTONE (some 1) :: (X none ++ R))) + 1 - c, ?_⟩
    have : cntFp (X none) + 1 ≤ cntFp (A ++ (Ev.start SyntaxKind.TOMBSTONE (some 1) :: (X none ++ R))) := by
      rw [cntFp_append]
      simp only [cntFp, Ev.hasFp, if_true, cntFp_append]
      omega
    omega
  rw [hg, go_shift, hS.walk g (A ++ [Ev.tombstone]) R none A.length 1 _ (by simp)]
  simp only [List.length_append, List.length_cons, List.length_nil]
  congr 1
  simp only [enters, List.filter_append, hS.noTomb, List.map_append]
  rw [show List.filter (fun x => x != SyntaxKind.TOMBSTONE) [SyntaxKind.TOMBSTONE] = [] from rfl]
  simp

/-- **a spine whose root links to a wrapper `Start` pushed right after it** (`EXPR_STMT`) -/
theorem goSeg_spine_wrap {X : Option Nat → List Ev} {sX : List Ev} {ks : List SyntaxKind} {c off : Nat}
    (hS : Spine X sX ks c off) (hoff : off ≤ sX.length) (W : SyntaxKind) (hW : (W != .TOMBSTONE) = true)
    (tail : List Ev) {st stTail : List Step} (hs : GoSeg sX st) (ht : GoSeg (Ev.tombstone :: tail) stTail) :
    GoSeg (tombLink :: (X (some (sX.length - off)) ++ (.start W none :: tail)))
      (.enter W :: (ks.map .enter ++ (st ++ stTail))) := by
  intro n A R out
  obtain ⟨A1, h1⟩ := hs (n + (tail.length + 1)) (A ++ [Ev.tombstone]) ((Ev.tombstone :: tail) ++ R)
    (out ++ (.enter W :: ks.map .enter))
  obtain ⟨A2, h2⟩ := ht n A1 R (out ++ (.enter W :: ks.map .enter) ++ st)
  refine ⟨A2, ?_⟩
  have e1 : out ++ (Step.enter W :: (ks.map Step.enter ++ (st ++ stTail))) =
      out ++ (Step.enter W :: ks.map Step.enter) ++ st ++ stTail := by simp
  rw [e1, ← h2, show (Ev.tombstone :: tail).length = tail.length + 1 from rfl, ← h1]
  have hc : c ≤ cntFp (X (some (sX.length - off))) := by
    have := hS.fuel (some (sX.length - off))
    simpa using this
  have hlen : (tombLink :: (X (some (sX.length - off)) ++ (Ev.start W none :: tail))).length =
      (tail.length + 1) + sX.length + 1 := by
    simp only [List.length_cons, List.length_append, hS.len]; omega
  rw [hlen, ← Nat.add_assoc, ← Nat.add_assoc]
  simp only [List.cons_append, List.append_assoc, processGo, get_mid, tombLink, set_mid]
  have hge : c + 2 ≤ cntFp (A ++ (Ev.start SyntaxKind.TOMBSTONE (some 1) ::
      (X (some (sX.length - off)) ++ (Ev.start W none :: (tail ++ R))))) + 1 := by
    rw [cntFp_append]
    simp only [cntFp, Ev.hasFp, if_true, cntFp_append]
    omega
  obtain ⟨g, hg0⟩ := Nat.exists_eq_add_of_le hge
  have hg : cntFp (A ++ (Ev.start SyntaxKind.TOMBSTONE (some 1) ::
      (X (some (sX.length - off)) ++ (Ev.start W none :: (tail ++ R))))) + 1 = (g + 1 + 1) + c := by omega
  rw [hg, go_shift, hS.walk (g + 1 + 1) (A ++ [Ev.tombstone]) _ _ A.length 1 _ (by simp)]
  simp only
  have hpos : (A ++ [Ev.tombstone]).length + off + (sX.length - off) = ((A ++ [Ev.tombstone]) ++ sX).length := by
    simp only [List.length_append]; omega
  have hl : ∀ Y : List Ev, (A ++ [Ev.tombstone]) ++ (sX ++ Y) = ((A ++ [Ev.tombstone]) ++ sX) ++ Y :=
    fun Y => (List.append_assoc _ _ _).symm
  rw [hl, chain, hpos, get_mid]
  simp only [set_mid]
  rw [← hl]
  simp only [List.length_append, List.length_cons, List.length_nil, List.nil_append, List.append_assoc, List.cons_append]
  congr 1
  simp only [enters, List.filter_append, List.filter_cons, hW, hS.noTomb, if_true, List.map_append, List.map_cons]
  simp

/-- the same with events `P` between the first event and the spine (the callee of a call: its link
points at the spine's root, which the chain walk has already turned into a tombstone) -/
theorem goSeg_spine_wrapP {X : Option Nat → List Ev} {sX : List Ev} {ks : List SyntaxKind} {c off : Nat}
    (hS : Spine X sX ks c off) (hoff : off ≤ sX.length) (W : SyntaxKind) (hW : (W != .TOMBSTONE) = true)
    (P tail : List Ev) {stP st stTail : List Step}
    (hP : ∀ (n : Nat) (A R : List Ev) (out : List Step), ∃ A' : List Ev,
      processGo (n + P.length) A.length (A ++ (P ++ (sX ++ R))) out = processGo n A'.length (A' ++ (sX ++ R)) (out ++ stP))
    (hs : GoSeg sX st) (ht : GoSeg (Ev.tombstone :: tail) stTail) :
    GoSeg (.start .TOMBSTONE (some (P.length + 1)) :: (P ++ (X (some (sX.length - off)) ++ (.start W none :: tail))))
      (.enter W :: (ks.map .enter ++ (stP ++ (st ++ stTail)))) := by
  intro n A R out
  obtain ⟨A0, h0⟩ := hP (n + (tail.length + 1) + sX.length) (A ++ [Ev.tombstone]) ((Ev.tombstone :: tail) ++ R)
    (out ++ (.enter W :: ks.map .enter))
  obtain ⟨A1, h1⟩ := hs (n + (tail.length + 1)) A0 ((Ev.tombstone :: tail) ++ R)
    (out ++ (.enter W :: ks.map .enter) ++ stP)
  obtain ⟨A2, h2⟩ := ht n A1 R (out ++ (.enter W :: ks.map .enter) ++ stP ++ st)
  refine ⟨A2, ?_⟩
  have e1 : out ++ (Step.enter W :: (ks.map Step.enter ++ (stP ++ (st ++ stTail)))) =
      out ++ (Step.enter W :: ks.map Step.enter) ++ stP ++ st ++ stTail := by simp
  rw [e1, ← h2, show (Ev.tombstone :: tail).length = tail.length + 1 from rfl, ← h1, ← h0]
  have hc : c ≤ cntFp (X (some (sX.length - off))) := by
    have := hS.fuel (some (sX.length - off))
    simpa using this
  have hlen : (Ev.start SyntaxKind.TOMBSTONE (some (P.length + 1)) ::
      (P ++ (X (some (sX.length - off)) ++ (Ev.start W none :: tail)))).length =
      (tail.length + 1) + sX.length + P.length + 1 := by
    simp only [List.length_cons, List.length_append, hS.len]; omega
  rw [hlen, ← Nat.add_assoc, ← Nat.add_assoc, ← Nat.add_assoc]
  simp only [List.cons_append, List.append_assoc, processGo, get_mid, set_mid]
  have hge : c + 2 ≤ cntFp (A ++ (Ev.start SyntaxKind.TOMBSTONE (some (P.length + 1)) ::
      (P ++ (X (some (sX.length - off)) ++ (Ev.start W none :: (tail ++ R)))))) + 1 := by
    rw [cntFp_append]
    simp only [cntFp, Ev.hasFp, if_true, cntFp_append]
    omega
  obtain ⟨g, hg0⟩ := Nat.exists_eq_add_of_le hge
  have hg : cntFp (A ++ (Ev.start SyntaxKind.TOMBSTONE (some (P.length + 1)) ::
      (P ++ (X (some (sX.length - off)) ++ (Ev.start W none :: (tail ++ R)))))) + 1 = (g + 1 + 1) + c := by omega
  have hre : ∀ Y : List Ev, A ++ (Ev.tombstone :: (P ++ Y)) = (A ++ (Ev.tombstone :: P)) ++ Y := by
    intro Y; simp
  rw [hg, hre, hS.walk (g + 1 + 1) (A ++ (Ev.tombstone :: P)) _ _ A.length (P.length + 1) _ (by simp)]
  simp only
  have hpos : (A ++ (Ev.tombstone :: P)).length + off + (sX.length - off) = ((A ++ (Ev.tombstone :: P)) ++ sX).length := by
    simp only [List.length_append]; omega
  have hl : ∀ Y : List Ev, (A ++ (Ev.tombstone :: P)) ++ (sX ++ Y) = ((A ++ (Ev.tombstone :: P)) ++ sX) ++ Y :=
    fun Y => (List.append_assoc _ _ _).symm
  rw [hl, chain, hpos, get_mid]
  simp only [set_mid]
  rw [← hl]
  simp only [List.length_append, List.length_cons, List.length_nil, List.nil_append, List.append_assoc, List.cons_append]
  congr 1
  simp only [enters, List.filter_append, List.filter_cons, hW, hS.noTomb, if_true, List.map_append, List.map_cons]
  simp

/-- the callee `IDENTIFIER` of a call, after the chain walk turned the `GATE_CALL_EXPR` it links to
into a tombstone -/
theorem go_callee (rest : List Ev) (n : Nat) (A R : List Ev) (out : List Step) : ∃ A' : List Ev,
    processGo (n + [Ev.start SyntaxKind.IDENTIFIER (some 3), Ev.token SyntaxKind.IDENT 1, Ev.finish].length) A.length
      (A ++ ([Ev.start SyntaxKind.IDENTIFIER (some 3), Ev.token SyntaxKind.IDENT 1, Ev.finish] ++ ((Ev.tombstone :: rest) ++ R))) out =
    processGo n A'.length (A' ++ ((Ev.tombstone :: rest) ++ R))
      (out ++ [Step.enter SyntaxKind.IDENTIFIER, Step.token SyntaxKind.IDENT 1, Step.exit]) := by
  obtain ⟨A1, h1⟩ := ((GoSeg.token SyntaxKind.IDENT 1).append GoSeg.finish) n (A ++ [Ev.tombstone])
    ((Ev.tombstone :: rest) ++ R) (out ++ [Step.enter SyntaxKind.IDENTIFIER])
  refine ⟨A1, ?_⟩
  have e : out ++ [Step.enter SyntaxKind.IDENTIFIER, Step.token SyntaxKind.IDENT 1, Step.exit] =
      out ++ [Step.enter SyntaxKind.IDENTIFIER] ++ ([Step.token SyntaxKind.IDENT 1] ++ [Step.exit]) := by simp
  rw [e, ← h1]
  show processGo (n + 2 + 1) A.length
    (A ++ (Ev.start SyntaxKind.IDENTIFIER (some 3) :: (Ev.token SyntaxKind.IDENT 1 :: Ev.finish :: Ev.tombstone :: (rest ++ R)))) out = _
  have e1 : ∀ (x y : Ev) (L : List Ev), A ++ (Ev.tombstone :: x :: y :: Ev.tombstone :: L) =
      (A ++ [Ev.tombstone, x, y]) ++ (Ev.tombstone :: L) := by intro x y L; simp
  have e2 : (A ++ [Ev.tombstone, Ev.token SyntaxKind.IDENT 1, Ev.finish]).length = A.length + 3 := by simp
  rw [processGo, get_mid]
  simp only
  rw [set_mid, e1, chain, ← e2, get_mid]
  simp only [Ev.tombstone]
  simp [enters, List.filter]
  rfl

theorem GoSeg.cast {a a' : List Ev} {sa sa' : List Step} (h : GoSeg a sa) (ha : a = a') (hs : sa = sa') :
    GoSeg a' sa' := by subst ha; subst hs; exact h

/-! ### the pieces of statements -/

theorem goSeg_qubits (n : Nat) : GoSeg (qubitEvs n) (qubitNodes n) := by
  induction n with
  | zero => exact (GoSeg.start _ (by decide)).append ((GoSeg.token _ _).append GoSeg.finish)
  | succ n ih =>
    exact (GoSeg.start _ (by decide)).append ((GoSeg.token _ _).append (GoSeg.finish.append ((GoSeg.token _ _).append ih)))

theorem goSeg_args (as : List E) : GoSeg (argEvs as) (argNodes as) := by
  induction as with
  | nil => exact GoSeg.nil
  | cons a as ih =>
    cases as with
    | nil => exact goSeg_evs a
    | cons b bs => exact (goSeg_evs a).append ((GoSeg.token _ _).append ih)

theorem goSeg_ty (ty : Ty) (w : Option E) : GoSeg (tyEvs ty w) (tyNodes ty w) := by
  cases w with
  | none => exact (GoSeg.start _ (by decide)).append ((GoSeg.token _ _).append GoSeg.finish)
  | some w =>
    exact (GoSeg.start _ (by decide)).append ((GoSeg.token _ _).append ((GoSeg.start _ (by decide)).append
      ((GoSeg.token _ _).append ((goSeg_evs w).append ((GoSeg.token _ _).append (GoSeg.finish.append GoSeg.finish))))))

theorem goSeg_block {inner : List Ev} {st : List Step} (h : GoSeg inner st) : GoSeg (blockEvs inner) (blockNodes st) :=
  (GoSeg.start _ (by decide)).append ((GoSeg.token _ _).append (h.append ((GoSeg.token _ _).append GoSeg.finish)))


theorem goSeg_params (n : Nat) : GoSeg (paramEvs n) (paramNodes n) := by
  induction n with
  | zero => exact (GoSeg.start _ (by decide)).append ((GoSeg.token _ _).append GoSeg.finish)
  | succ n ih =>
    exact (GoSeg.start _ (by decide)).append ((GoSeg.token _ _).append (GoSeg.finish.append ((GoSeg.token _ _).append ih)))

theorem goSeg_typed1 (p : PTy) : GoSeg [Ev.start .TYPED_PARAM none, .start .SCALAR_TYPE none, .token p.kind 1, .finish,
      .start .NAME none, .token .IDENT 1, .finish, .finish]
    [Step.enter .TYPED_PARAM, .enter .SCALAR_TYPE, .token p.kind 1, .exit, .enter .NAME, .token .IDENT 1, .exit, .exit] :=
  (GoSeg.start .TYPED_PARAM (by decide)).append ((GoSeg.start .SCALAR_TYPE (by decide)).append ((GoSeg.token p.kind 1).append
    (GoSeg.finish.append ((GoSeg.start .NAME (by decide)).append ((GoSeg.token .IDENT 1).append (GoSeg.finish.append GoSeg.finish))))))

theorem goSeg_typed (ps : List PTy) : GoSeg (typedEvs ps) (typedNodes ps) := by
  induction ps with
  | nil => exact GoSeg.nil
  | cons p ps ih =>
    cases ps with
    | nil => exact goSeg_typed1 p
    | cons q qs => exact GoSeg.cast ((goSeg_typed1 p).append ((GoSeg.token .COMMA 1).append ih)) (by simp [typedEvs]) (by simp [typedNodes])

theorem goSeg_retSig (ret : Option Ty) : GoSeg (retEvs ret) (retNodes ret) := by
  cases ret with
  | none => exact GoSeg.nil
  | some ty =>
    exact (GoSeg.start .RETURN_SIGNATURE (by decide)).append ((GoSeg.token .THIN_ARROW 2).append
      ((GoSeg.start .SCALAR_TYPE (by decide)).append ((GoSeg.token ty.kind 1).append (GoSeg.finish.append GoSeg.finish))))

theorem goSeg_exprStmtTail : GoSeg (Ev.tombstone :: [.token .SEMICOLON 1, .finish]) [.token .SEMICOLON 1, .exit] :=
  GoSeg.tomb.append ((GoSeg.token _ _).append GoSeg.finish)

theorem goSeg_sbody' (e : E) : GoSeg (sbody e) (snodes e) := goSeg_sbody e (fun e' _ => goSeg_evs e')

/-! ### statements and programs -/

mutual
theorem goSeg_S : ∀ st : Stmt, GoSeg (evsS st) (nodesS st)
  | .decl ty w none =>
    GoSeg.cast ((GoSeg.start .CLASSICAL_DECLARATION_STATEMENT (by decide)).append ((GoSeg.tomb).append ((goSeg_ty ty w).append ((GoSeg.start .NAME (by decide)).append ((GoSeg.token .IDENT 1).append ((GoSeg.finish).append ((GoSeg.token .SEMICOLON 1).append (GoSeg.finish))))))))
      (by simp [evsS, Ev.tombstone]) (by simp [nodesS])
  | .decl ty w (some e) =>
    GoSeg.cast ((GoSeg.start .CLASSICAL_DECLARATION_STATEMENT (by decide)).append ((GoSeg.tomb).append ((goSeg_ty ty w).append ((GoSeg.start .NAME (by decide)).append ((GoSeg.token .IDENT 1).append ((GoSeg.finish).append ((GoSeg.token .EQ 1).append ((goSeg_evs e).append ((GoSeg.token .SEMICOLON 1).append (GoSeg.finish))))))))))
      (by simp [evsS, Ev.tombstone]) (by simp [nodesS])
  | .assign rhs =>
    GoSeg.cast (goSeg_spine (spine_assign (Ev.token .EQ 1 :: (evs rhs ++ [Ev.token .SEMICOLON 1, Ev.finish])))
      (GoSeg.cast ((GoSeg.tomb).append ((GoSeg.token .IDENT 1).append ((GoSeg.finish).append ((GoSeg.tomb).append ((GoSeg.token .EQ 1).append ((goSeg_evs rhs).append ((GoSeg.token .SEMICOLON 1).append (GoSeg.finish)))))))) (by simp) rfl))
      (by simp [evsS]) (by simp [nodesS])
  | .exprS e =>
    GoSeg.cast (goSeg_spine_wrap (spine_body e) (by have := rootOff_le e; have := sbody_length e; omega) .EXPR_STMT (by decide)
      [Ev.token .SEMICOLON 1, Ev.finish] (goSeg_sbody' e) goSeg_exprStmtTail)
      (by
        have := sbody_length e
        simp only [evsS, exprStmtTail]
        rw [show (sbody e).length - rootOff e = len e - 1 - rootOff e by omega])
      (by simp [nodesS, nodes_eq])
  | .gate [] nq =>
    GoSeg.cast (goSeg_spine_wrap (spine_prim .GATE_CALL_EXPR (by decide)
        (Ev.start .IDENTIFIER none :: Ev.token .IDENT 1 :: Ev.finish :: Ev.start .QUBIT_LIST none :: (qubitEvs nq ++ [Ev.finish, Ev.finish])))
      (Nat.zero_le _) .EXPR_STMT (by decide) [Ev.token .SEMICOLON 1, Ev.finish]
      (GoSeg.cast ((GoSeg.tomb).append ((GoSeg.start .IDENTIFIER (by decide)).append ((GoSeg.token .IDENT 1).append ((GoSeg.finish).append ((GoSeg.start .QUBIT_LIST (by decide)).append ((goSeg_qubits nq).append ((GoSeg.finish).append (GoSeg.finish)))))))) (by simp) rfl)
      goSeg_exprStmtTail)
      (by simp [evsS, exprStmtTail]) (by simp [nodesS])
  | .gate (a :: as) nq =>
    GoSeg.cast (goSeg_spine_wrapP (spine_prim .GATE_CALL_EXPR (by decide)
        (Ev.start .ARG_LIST none :: Ev.start .EXPRESSION_LIST none :: Ev.token .L_PAREN 1 ::
          (argEvs (a :: as) ++ (Ev.token .R_PAREN 1 :: Ev.finish :: Ev.finish :: Ev.start .QUBIT_LIST none ::
            (qubitEvs nq ++ [Ev.finish, Ev.finish])))))
      (Nat.zero_le _) .EXPR_STMT (by decide)
      [Ev.start .IDENTIFIER (some 3), Ev.token .IDENT 1, Ev.finish] [Ev.token .SEMICOLON 1, Ev.finish]
      (go_callee _)
      (GoSeg.cast ((GoSeg.tomb).append ((GoSeg.start .ARG_LIST (by decide)).append ((GoSeg.start .EXPRESSION_LIST (by decide)).append ((GoSeg.token .L_PAREN 1).append ((goSeg_args (a :: as)).append ((GoSeg.token .R_PAREN 1).append ((GoSeg.finish).append ((GoSeg.finish).append ((GoSeg.start .QUBIT_LIST (by decide)).append ((goSeg_qubits nq).append ((GoSeg.finish).append (GoSeg.finish)))))))))))) (by simp) rfl)
      goSeg_exprStmtTail)
      (by simp [evsS, exprStmtTail]; omega) (by simp [nodesS])
  | .measure =>
    GoSeg.cast (goSeg_spine_wrap (spine_prim .MEASURE_EXPRESSION (by decide)
        [Ev.token .MEASURE_KW 1, Ev.start .IDENTIFIER none, Ev.token .IDENT 1, Ev.finish, Ev.finish])
      (Nat.zero_le _) .EXPR_STMT (by decide) [Ev.token .SEMICOLON 1, Ev.finish]
      (GoSeg.cast ((GoSeg.tomb).append ((GoSeg.token .MEASURE_KW 1).append ((GoSeg.start .IDENTIFIER (by decide)).append ((GoSeg.token .IDENT 1).append ((GoSeg.finish).append (GoSeg.finish)))))) (by simp) rfl)
      goSeg_exprStmtTail)
      (by simp [evsS, exprStmtTail]) (by simp [nodesS])
  | .assignMeasure =>
    GoSeg.cast (goSeg_spine (spine_assign [Ev.token .EQ 1, tombLink, Ev.start .MEASURE_EXPRESSION none, Ev.token .MEASURE_KW 1,
        Ev.start .IDENTIFIER none, Ev.token .IDENT 1, Ev.finish, Ev.finish, Ev.token .SEMICOLON 1, Ev.finish])
      (GoSeg.cast ((GoSeg.tomb).append ((GoSeg.token .IDENT 1).append ((GoSeg.finish).append ((GoSeg.tomb).append ((GoSeg.token .EQ 1).append
        ((goSeg_spine (spine_prim .MEASURE_EXPRESSION (by decide)
            [Ev.token .MEASURE_KW 1, Ev.start .IDENTIFIER none, Ev.token .IDENT 1, Ev.finish, Ev.finish])
          (GoSeg.cast ((GoSeg.tomb).append ((GoSeg.token .MEASURE_KW 1).append ((GoSeg.start .IDENTIFIER (by decide)).append ((GoSeg.token .IDENT 1).append ((GoSeg.finish).append (GoSeg.finish)))))) (by simp) rfl)).append
          ((GoSeg.token .SEMICOLON 1).append GoSeg.finish))))))) (by simp) rfl))
      (by simp [evsS]) (by simp [nodesS])
  | .reset => GoSeg.cast ((GoSeg.start .RESET (by decide)).append ((GoSeg.token .RESET_KW 1).append ((GoSeg.start .IDENTIFIER (by decide)).append ((GoSeg.token .IDENT 1).append ((GoSeg.finish).append ((GoSeg.token .SEMICOLON 1).append (GoSeg.finish))))))) (by simp [evsS]) (by simp [nodesS])
  | .barrier nq => GoSeg.cast ((GoSeg.start .BARRIER (by decide)).append ((GoSeg.token .BARRIER_KW 1).append ((GoSeg.start .QUBIT_LIST (by decide)).append ((goSeg_qubits nq).append ((GoSeg.finish).append ((GoSeg.token .SEMICOLON 1).append (GoSeg.finish))))))) (by simp [evsS]) (by simp [nodesS])
  | .brk => GoSeg.cast ((GoSeg.start .BREAK_STMT (by decide)).append ((GoSeg.token .BREAK_KW 1).append ((GoSeg.token .SEMICOLON 1).append (GoSeg.finish)))) (by simp [evsS]) (by simp [nodesS])
  | .cont => GoSeg.cast ((GoSeg.start .CONTINUE_STMT (by decide)).append ((GoSeg.token .CONTINUE_KW 1).append ((GoSeg.token .SEMICOLON 1).append (GoSeg.finish)))) (by simp [evsS]) (by simp [nodesS])
  | .endS => GoSeg.cast ((GoSeg.start .END_STMT (by decide)).append ((GoSeg.token .END_KW 1).append ((GoSeg.token .SEMICOLON 1).append (GoSeg.finish)))) (by simp [evsS]) (by simp [nodesS])
  | .ifS c thn => GoSeg.cast ((GoSeg.start .IF_STMT (by decide)).append ((GoSeg.token .IF_KW 1).append ((GoSeg.token .L_PAREN 1).append ((goSeg_evs c).append ((GoSeg.token .R_PAREN 1).append ((goSeg_block (goSeg_L thn)).append (GoSeg.finish))))))) (by simp [evsS, blockEvs]) (by simp [nodesS, blockNodes])
  | .ifElse c thn els => GoSeg.cast ((GoSeg.start .IF_STMT (by decide)).append ((GoSeg.token .IF_KW 1).append ((GoSeg.token .L_PAREN 1).append ((goSeg_evs c).append ((GoSeg.token .R_PAREN 1).append ((goSeg_block (goSeg_L thn)).append ((GoSeg.token .ELSE_KW 1).append ((goSeg_block (goSeg_L els)).append (GoSeg.finish))))))))) (by simp [evsS, blockEvs]) (by simp [nodesS, blockNodes])
  | .whileS c body => GoSeg.cast ((GoSeg.start .WHILE_STMT (by decide)).append ((GoSeg.token .WHILE_KW 1).append ((GoSeg.token .L_PAREN 1).append ((goSeg_evs c).append ((GoSeg.token .R_PAREN 1).append ((goSeg_block (goSeg_L body)).append (GoSeg.finish))))))) (by simp [evsS, blockEvs]) (by simp [nodesS, blockNodes])
  | .forS ty lo hi body => GoSeg.cast ((GoSeg.start .FOR_STMT (by decide)).append ((GoSeg.token .FOR_KW 1).append ((GoSeg.start .SCALAR_TYPE (by decide)).append ((GoSeg.token ty.kind 1).append ((GoSeg.finish).append ((GoSeg.start .NAME (by decide)).append ((GoSeg.token .IDENT 1).append ((GoSeg.finish).append ((GoSeg.token .IN_KW 1).append ((GoSeg.start .FOR_ITERABLE (by decide)).append ((GoSeg.start .RANGE_EXPR (by decide)).append ((GoSeg.token .L_BRACK 1).append ((goSeg_evs lo).append ((GoSeg.token .COLON 1).append ((goSeg_evs hi).append ((GoSeg.token .R_BRACK 1).append ((GoSeg.finish).append ((GoSeg.finish).append ((goSeg_block (goSeg_L body)).append (GoSeg.finish)))))))))))))))))))) (by simp [evsS, blockEvs]) (by simp [nodesS, blockNodes])
  | .gateDef none nq body => GoSeg.cast ((GoSeg.start .GATE (by decide)).append ((GoSeg.token .GATE_KW 1).append ((GoSeg.start .NAME (by decide)).append ((GoSeg.token .IDENT 1).append ((GoSeg.finish).append ((GoSeg.start .PARAM_LIST (by decide)).append ((goSeg_params nq).append ((GoSeg.finish).append ((goSeg_block (goSeg_L body)).append (GoSeg.finish)))))))))) (by simp [evsS, blockEvs]) (by simp [nodesS, blockNodes])
  | .gateDef (some k) nq body => GoSeg.cast ((GoSeg.start .GATE (by decide)).append ((GoSeg.token .GATE_KW 1).append ((GoSeg.start .NAME (by decide)).append ((GoSeg.token .IDENT 1).append ((GoSeg.finish).append ((GoSeg.start .PARAM_LIST (by decide)).append ((GoSeg.token .L_PAREN 1).append ((goSeg_params k).append ((GoSeg.token .R_PAREN 1).append ((GoSeg.finish).append ((GoSeg.start .PARAM_LIST (by decide)).append ((goSeg_params nq).append ((GoSeg.finish).append ((goSeg_block (goSeg_L body)).append (GoSeg.finish))))))))))))))) (by simp [evsS, blockEvs]) (by simp [nodesS, blockNodes])
  | .defS ps ret body => GoSeg.cast ((GoSeg.start .DEF (by decide)).append ((GoSeg.token .DEF_KW 1).append ((GoSeg.start .NAME (by decide)).append ((GoSeg.token .IDENT 1).append ((GoSeg.finish).append ((GoSeg.start .TYPED_PARAM_LIST (by decide)).append ((GoSeg.token .L_PAREN 1).append ((goSeg_typed ps).append ((GoSeg.token .R_PAREN 1).append ((GoSeg.finish).append ((goSeg_retSig ret).append ((goSeg_block (goSeg_L body)).append (GoSeg.finish))))))))))))) (by simp [evsS, blockEvs]) (by simp [nodesS, blockNodes])
  | .ret none =>
    GoSeg.cast (goSeg_spine_wrap (spine_prim .RETURN_EXPR (by decide) [Ev.token .RETURN_KW 1, Ev.finish])
      (Nat.zero_le _) .EXPR_STMT (by decide) [Ev.token .SEMICOLON 1, Ev.finish]
      (GoSeg.cast ((GoSeg.tomb).append ((GoSeg.token .RETURN_KW 1).append (GoSeg.finish))) (by simp) rfl) goSeg_exprStmtTail)
      (by simp [evsS, exprStmtTail]) (by simp [nodesS])
  | .ret (some e) =>
    GoSeg.cast (goSeg_spine_wrap (spine_prim .RETURN_EXPR (by decide) (Ev.token .RETURN_KW 1 :: (evs e ++ [Ev.finish])))
      (Nat.zero_le _) .EXPR_STMT (by decide) [Ev.token .SEMICOLON 1, Ev.finish]
      (GoSeg.cast ((GoSeg.tomb).append ((GoSeg.token .RETURN_KW 1).append ((goSeg_evs e).append (GoSeg.finish)))) (by simp) rfl) goSeg_exprStmtTail)
      (by simp [evsS, exprStmtTail, evs_length]) (by simp [nodesS])
theorem goSeg_L : ∀ ss : Stmts, GoSeg (evsL ss) (nodesL ss)
  | .nil => GoSeg.nil
  | .cons st ss => (goSeg_S st).append (goSeg_L ss)
end

/-- **`process` turns the events of a program into the pre-order node sequence of its derivation** -/
theorem process_evsP (p : Stmts) : process (evsP p) = some (nodesP p) := by
  have h := ((GoSeg.start .SOURCE_FILE (by decide)).append ((goSeg_L p).append GoSeg.finish)) 0 [] [] []
  obtain ⟨A', h⟩ := h
  unfold process
  simp only [Nat.zero_add, List.nil_append, List.append_nil, List.length_nil] at h
  have e1 : evsP p = [Ev.start SyntaxKind.SOURCE_FILE none] ++ (evsL p ++ [Ev.finish]) := rfl
  have e2 : nodesP p = [Step.enter SyntaxKind.SOURCE_FILE] ++ (nodesL p ++ [Step.exit]) := rfl
  rw [e1, e2, h]
  rfl

end Oq3.LangEv
