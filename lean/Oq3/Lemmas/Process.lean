/-
Helper lemmas about `event::process` (`Oq3/Model/Process.lean`): a three-state depth machine
run over events (index order) and over output steps, and the fact that hoisting a `Start`
event to an earlier position never invalidates a run.
-/
import Oq3.Model.Process
import Oq3.Lemmas.Builder

namespace Oq3.Parser
open Oq3.Gen

/-- machine state: `none` = root not opened yet, `some d` = depth (0 = root closed) -/
abbrev MS := Option Nat

def MS.enter : MS → Option MS
  | none => some (some 1)
  | some 0 => none
  | some (d + 1) => some (some (d + 2))

def MS.exit : MS → Option MS
  | some (d + 1) => some (some d)
  | _ => none

def MS.inside : MS → Option MS
  | some (d + 1) => some (some (d + 1))
  | _ => none

def stepM (st : MS) : Step → Option MS
  | .enter _ => st.enter
  | .exit => st.exit
  | _ => st.inside

def runM (st : MS) : List Step → Option MS
  | [] => some st
  | s :: ss => (stepM st s).bind fun st' => runM st' ss

def evM (st : MS) : Ev → Option MS
  | .start k _ => if k == .TOMBSTONE then some st else st.enter
  | .finish => st.exit
  | _ => st.inside

def runE (st : MS) : List Ev → Option MS
  | [] => some st
  | e :: es => (evM st e).bind fun st' => runE st' es

theorem runM_append (st : MS) (a b : List Step) :
    runM st (a ++ b) = (runM st a).bind fun st' => runM st' b := by
  induction a generalizing st with
  | nil => simp [runM]
  | cons x xs ih =>
    simp only [List.cons_append, runM]
    cases stepM st x with
    | none => rfl
    | some st' => exact ih st'

theorem runE_append (st : MS) (a b : List Ev) :
    runE st (a ++ b) = (runE st a).bind fun st' => runE st' b := by
  induction a generalizing st with
  | nil => simp [runE]
  | cons x xs ih =>
    simp only [List.cons_append, runE]
    cases evM st x with
    | none => rfl
    | some st' => exact ih st'

/-- `rooted` (builder side) is acceptance by the machine -/
theorem wf_iff_runM (d : Nat) (ss : List Step) :
    Oq3.Builder.wf d ss = true ↔ runM (some d) ss = some (some 0) := by
  induction ss generalizing d with
  | nil => simp [Oq3.Builder.wf, runM]
  | cons s ss ih =>
    cases d with
    | zero => cases s <;> simp [Oq3.Builder.wf, runM, stepM, MS.enter, MS.exit, MS.inside]
    | succ d =>
      cases s <;> simp [Oq3.Builder.wf, runM, stepM, MS.enter, MS.exit, MS.inside, ih]

theorem rooted_iff_runM (ss : List Step) :
    Oq3.Builder.rooted ss = true ↔ (runM none ss = some (some 0)) := by
  cases ss with
  | nil => simp [Oq3.Builder.rooted, runM]
  | cons s ss =>
    cases s <;> simp [Oq3.Builder.rooted, runM, stepM, MS.enter, MS.exit, MS.inside, wf_iff_runM]

/-! ### hoisting an enter -/

/-- one level deeper -/
def MS.up : MS → MS
  | none => some 1
  | some d => some (d + 1)

theorem MS.enter_eq_up {st : MS} (h : st ≠ some 0) : st.enter = some st.up := by
  match st, h with
  | none, _ => rfl
  | some (d + 1), _ => rfl

/-- Shifting a valid run one level up keeps it valid, as long as it does not end with the
root closed. -/
theorem runE_up (st : MS) (a : List Ev) (sa : MS) (h : runE st a = some sa) (hsa : sa ≠ some 0) :
    runE st.up a = some sa.up ∧ st ≠ some 0 := by
  induction a generalizing st with
  | nil => simp only [runE, Option.some.injEq] at h; subst h; exact ⟨rfl, hsa⟩
  | cons e a ih =>
    simp only [runE] at h ⊢
    cases he : evM st e with
    | none => simp [he] at h
    | some st1 =>
      simp only [he, Option.bind_some] at h
      obtain ⟨ih1, ih2⟩ := ih st1 h
      cases e with
      | start k fp =>
        simp only [evM] at he ⊢
        split at he
        · rename_i hk
          simp only [Option.some.injEq] at he; subst he
          simp only [hk, if_true, Option.bind_some]; exact ⟨ih1, ih2⟩
        · rename_i hk
          match st, he with
          | none, he =>
            simp only [MS.enter, Option.some.injEq] at he; subst he
            simp only [hk, MS.up, MS.enter, Bool.false_eq_true, if_false, Option.bind_some]
            exact ⟨ih1, by simp⟩
          | some (d + 1), he =>
            simp only [MS.enter, Option.some.injEq] at he; subst he
            simp only [hk, MS.up, MS.enter, Bool.false_eq_true, if_false, Option.bind_some]
            exact ⟨ih1, by simp⟩
      | finish =>
        match st, he with
        | some (d + 1), he =>
          simp only [evM, MS.exit, Option.some.injEq] at he; subst he
          cases d with
          | zero => exact absurd rfl ih2
          | succ d => simp only [evM, MS.up, MS.exit, Option.bind_some]; exact ⟨ih1, by simp⟩
      | token k n =>
        match st, he with
        | some (d + 1), he =>
          simp only [evM, MS.inside, Option.some.injEq] at he; subst he
          simp only [evM, MS.up, MS.inside, Option.bind_some]; exact ⟨ih1, by simp⟩
      | error m =>
        match st, he with
        | some (d + 1), he =>
          simp only [evM, MS.inside, Option.some.injEq] at he; subst he
          simp only [evM, MS.up, MS.inside, Option.bind_some]; exact ⟨ih1, by simp⟩

/-- **Hoisting.** A non-tombstone `Start` further on can be entered now instead: the run over
the list with that event tombstoned, started one level deeper, ends in the same state. -/
theorem runE_hoist (st : MS) (a b : List Ev) (k : SyntaxKind) (fp : Option Nat) (fin : MS)
    (hk : (k == .TOMBSTONE) = false)
    (h : runE st (a ++ .start k fp :: b) = some fin) :
    st.enter = some st.up ∧ runE st.up (a ++ Ev.tombstone :: b) = some fin := by
  rw [runE_append] at h
  cases ha : runE st a with
  | none => simp [ha] at h
  | some sa =>
    simp only [ha, Option.bind_some, runE, evM, hk, Bool.false_eq_true, if_false] at h
    cases hb : sa.enter with
    | none => simp [hb] at h
    | some sb =>
      simp only [hb, Option.bind_some] at h
      have hsa : sa ≠ some 0 := by intro e; subst e; simp [MS.enter] at hb
      obtain ⟨h1, h2⟩ := runE_up st a sa ha hsa
      refine ⟨MS.enter_eq_up h2, ?_⟩
      rw [runE_append, h1]
      simp only [Option.bind_some, runE, evM, Ev.tombstone, beq_self_eq_true, if_true]
      rw [MS.enter_eq_up hsa] at hb
      simp only [Option.some.injEq] at hb
      rw [hb]; exact h

/-- replacing a tombstone-kind `Start` (whatever its link) by the plain tombstone changes
nothing for the machine -/
theorem runE_retomb (st : MS) (a b : List Ev) (fp : Option Nat) :
    runE st (a ++ .start .TOMBSTONE fp :: b) = runE st (a ++ Ev.tombstone :: b) := by
  rw [runE_append, runE_append]
  cases runE st a with
  | none => rfl
  | some sa => simp [runE, evM, Ev.tombstone]


/-! ### the forward-parent chain -/

def enterN : Nat → MS → Option MS
  | 0, st => some st
  | n + 1, st => st.enter.bind (enterN n)

theorem enterN_add (a b : Nat) (st : MS) :
    enterN (a + b) st = (enterN a st).bind (enterN b) := by
  induction a generalizing st with
  | zero => simp [enterN]
  | succ a ih =>
    rw [Nat.succ_add]
    simp only [enterN]
    cases st.enter with
    | none => rfl
    | some st' => exact ih st'

def nonTombCount (ks : List SyntaxKind) : Nat := (ks.filter (· != .TOMBSTONE)).length

theorem nonTombCount_append (a b : List SyntaxKind) :
    nonTombCount (a ++ b) = nonTombCount a + nonTombCount b := by
  simp [nonTombCount]

theorem runM_enters (st : MS) (ks : List SyntaxKind) :
    runM st (enters ks) = enterN (nonTombCount ks) st := by
  unfold enters nonTombCount
  generalize ks.filter (· != .TOMBSTONE) = l
  induction l generalizing st with
  | nil => rfl
  | cons x xs ih =>
    simp only [List.map_cons, runM, stepM, List.length_cons, enterN]
    cases st.enter with
    | none => rfl
    | some st' => exact ih st'

theorem drop_set_gt {α} (l : List α) (i t : Nat) (x : α) (h : i < t) :
    (l.set t x).drop (i + 1) = (l.drop (i + 1)).set (t - (i + 1)) x := by
  rw [List.drop_set]; simp [show ¬ t < i + 1 by omega]

theorem drop_set_le {α} (l : List α) (i t : Nat) (x : α) (h : t ≤ i) :
    (l.set t x).drop (i + 1) = l.drop (i + 1) := by
  rw [List.drop_set]; simp [show t < i + 1 by omega]

theorem split_at {α} (l : List α) (j : Nat) (x : α) (h : l[j]? = some x) :
    l = l.take j ++ x :: l.drop (j + 1) := by
  have hj : j < l.length := (List.getElem?_eq_some_iff.mp h).1
  have hx : l[j] = x := (List.getElem?_eq_some_iff.mp h).2
  rw [← hx]
  conv => lhs; rw [← List.take_append_drop j l]
  rw [List.drop_eq_getElem_cons hj]


theorem nonTombCount_single (k : SyntaxKind) :
    nonTombCount [k] = if (k == .TOMBSTONE) = true then 0 else 1 := by
  unfold nonTombCount
  cases h : (k == SyntaxKind.TOMBSTONE) <;> simp [List.filter, bne, h]

/-- visiting one chain target at index `t ≥ i` while the events after `i` are still to be run -/
theorem visit (evs : List Ev) (i t : Nat) (k : SyntaxKind) (fp : Option Nat) (st fin : MS)
    (hi : evs[i]? = some Ev.tombstone) (hit : i ≤ t) (ht : evs[t]? = some (.start k fp))
    (hrun : runE st (evs.drop (i + 1)) = some fin) :
    ∃ st', enterN (nonTombCount [k]) st = some st' ∧
      runE st' ((evs.set t Ev.tombstone).drop (i + 1)) = some fin ∧
      (evs.set t Ev.tombstone)[i]? = some Ev.tombstone := by
  by_cases hti : t = i
  · subst hti
    rw [hi] at ht
    simp only [Ev.tombstone, Option.some.injEq, Ev.start.injEq] at ht
    obtain ⟨rfl, rfl⟩ := ht
    refine ⟨st, by simp [nonTombCount_single, enterN], ?_, ?_⟩
    · rw [drop_set_le _ _ _ _ (Nat.le_refl _)]; exact hrun
    · rw [List.getElem?_set_self (List.getElem?_eq_some_iff.mp hi).1]
  · have hlt : i < t := by omega
    have hi' : (evs.set t Ev.tombstone)[i]? = some Ev.tombstone := by
      rw [List.getElem?_set_ne (by omega)]; exact hi
    rw [drop_set_gt _ _ _ _ hlt]
    have hR : (evs.drop (i + 1))[t - (i + 1)]? = some (.start k fp) := by
      rw [List.getElem?_drop]; rw [show i + 1 + (t - (i + 1)) = t by omega]; exact ht
    have hjl : t - (i + 1) < (evs.drop (i + 1)).length := (List.getElem?_eq_some_iff.mp hR).1
    have hsplit := split_at _ _ _ hR
    rw [List.set_eq_take_append_cons_drop, if_pos hjl]
    rw [hsplit] at hrun
    cases hk : (k == SyntaxKind.TOMBSTONE) with
    | false =>
      obtain ⟨h1, h2⟩ := runE_hoist st _ _ k fp fin hk hrun
      exact ⟨st.up, by simp [nonTombCount_single, hk, enterN, h1], h2, hi'⟩
    | true =>
      have : k = .TOMBSTONE := by simpa using hk
      subst this
      rw [runE_retomb] at hrun
      exact ⟨st, by simp [nonTombCount_single, enterN], hrun, hi'⟩

theorem chain_spec (fuel : Nat) (evs : List Ev) (i idx fwd : Nat) (acc ks : List SyntaxKind)
    (evs' : List Ev) (st fin : MS)
    (hc : chain fuel evs idx fwd acc = some (ks, evs'))
    (hi : evs[i]? = some Ev.tombstone) (hidx : i ≤ idx)
    (hrun : runE st (evs.drop (i + 1)) = some fin) :
    ∃ new st', ks = new ++ acc ∧ enterN (nonTombCount new) st = some st' ∧
      runE st' (evs'.drop (i + 1)) = some fin ∧ evs'.length = evs.length := by
  induction fuel generalizing evs idx fwd acc st with
  | zero => simp [chain] at hc
  | succ fuel ih =>
    simp only [chain] at hc
    split at hc
    · rename_i k ht
      simp only [Option.some.injEq, Prod.mk.injEq] at hc
      obtain ⟨rfl, rfl⟩ := hc
      obtain ⟨st', h1, h2, _⟩ := visit evs i (idx + fwd) k none st fin hi (by omega) ht hrun
      exact ⟨[k], st', rfl, h1, h2, by simp⟩
    · rename_i k f ht
      obtain ⟨st1, h1, h2, h3⟩ := visit evs i (idx + fwd) k (some f) st fin hi (by omega) ht hrun
      obtain ⟨new, st', hks, hn, hr, hl⟩ := ih _ _ _ _ _ hc h3 (by omega) h2
      refine ⟨new ++ [k], st', by simp [hks], ?_, hr, by simpa using hl⟩
      rw [nonTombCount_append, Nat.add_comm, enterN_add, h1]; exact hn
    · simp at hc

/-! ### the main loop -/

theorem processGo_rooted (n i : Nat) (evs : List Ev) (out res : List Step) (st : MS)
    (hgo : processGo n i evs out = some res) (hlen : n + i = evs.length)
    (hout : runM none out = some st) (hrest : runE st (evs.drop i) = some (some 0)) :
    runM none res = some (some 0) := by
  induction n generalizing i evs out st with
  | zero =>
    simp only [processGo, Option.some.injEq] at hgo; subst hgo
    have : evs.drop i = [] := by simp; omega
    rw [this] at hrest
    simp only [runE, Option.some.injEq] at hrest
    rw [hout, hrest]
  | succ n ih =>
    have hi : i < evs.length := by omega
    have hd : evs.drop i = evs[i] :: evs.drop (i + 1) := List.drop_eq_getElem_cons hi
    have hget : evs[i]? = some evs[i] := List.getElem?_eq_getElem hi
    simp only [processGo, hget] at hgo
    rw [hd] at hrest
    simp only [runE] at hrest
    have hlen' : n + (i + 1) = (evs.set i Ev.tombstone).length := by simp; omega
    have hdrop : (evs.set i Ev.tombstone).drop (i + 1) = evs.drop (i + 1) :=
      drop_set_le _ _ _ _ (Nat.le_refl _)
    cases he : evs[i] with
    | start k fp =>
      rw [he] at hgo hrest
      cases hst1 : evM st (.start k fp) with
      | none => simp [hst1] at hrest
      | some st1 =>
        simp only [hst1, Option.bind_some] at hrest
        have hst1' : enterN (nonTombCount [k]) st = some st1 := by
          simp only [evM] at hst1
          rw [nonTombCount_single]
          split at hst1
          · rename_i hk; simp only [Option.some.injEq] at hst1; subst hst1; simp [hk, enterN]
          · rename_i hk; simp [hk, enterN, hst1]
        cases fp with
        | none =>
          simp only at hgo
          refine ih (i + 1) _ _ st1 hgo hlen' ?_ (by rw [hdrop]; exact hrest)
          rw [runM_append, hout]; simp only [Option.bind_some, runM_enters]; exact hst1'
        | some f =>
          simp only at hgo
          split at hgo
          · simp at hgo
          · rename_i ks evs' hch
            have hti : (evs.set i Ev.tombstone)[i]? = some Ev.tombstone :=
              List.getElem?_set_self hi
            obtain ⟨new, st', hks, hn, hr, hl⟩ := chain_spec _ _ i i f [k] ks evs' st1 (some 0) hch hti
              (Nat.le_refl _) (by rw [hdrop]; exact hrest)
            refine ih (i + 1) evs' _ st' hgo (by rw [hl]; exact hlen') ?_ hr
            rw [runM_append, hout]; simp only [Option.bind_some, runM_enters]
            rw [hks, nonTombCount_append, Nat.add_comm, enterN_add, hst1']; exact hn
    | finish =>
      rw [he] at hgo hrest
      simp only at hgo
      cases hst1 : evM st .finish with
      | none => simp [hst1] at hrest
      | some st1 =>
        simp only [hst1, Option.bind_some] at hrest
        refine ih (i + 1) _ _ st1 hgo hlen' ?_ (by rw [hdrop]; exact hrest)
        rw [runM_append, hout]; simpa [runM, stepM, evM] using hst1
    | token k m =>
      rw [he] at hgo hrest
      simp only at hgo
      cases hst1 : evM st (.token k m) with
      | none => simp [hst1] at hrest
      | some st1 =>
        simp only [hst1, Option.bind_some] at hrest
        refine ih (i + 1) _ _ st1 hgo hlen' ?_ (by rw [hdrop]; exact hrest)
        rw [runM_append, hout]; simpa [runM, stepM, evM] using hst1
    | error msg =>
      rw [he] at hgo hrest
      simp only at hgo
      cases hst1 : evM st (.error msg) with
      | none => simp [hst1] at hrest
      | some st1 =>
        simp only [hst1, Option.bind_some] at hrest
        refine ih (i + 1) _ _ st1 hgo hlen' ?_ (by rw [hdrop]; exact hrest)
        rw [runM_append, hout]; simpa [runM, stepM, evM] using hst1

/-! ### totality: no `unreachable!()`, no index out of bounds -/

/-- every forward-parent link points at a `Start` event -/
def FpOK (evs : List Ev) : Prop :=
  ∀ j k f, evs[j]? = some (Ev.start k (some f)) → ∃ k' fp', evs[j + f]? = some (Ev.start k' fp')

theorem cntFp_set_tomb_lt (evs : List Ev) (i : Nat) (k : SyntaxKind) (f : Nat)
    (h : evs[i]? = some (.start k (some f))) : cntFp (evs.set i Ev.tombstone) < cntFp evs := by
  induction evs generalizing i with
  | nil => simp at h
  | cons e es ih =>
    cases i with
    | zero =>
      simp at h; subst h
      simp [List.set, cntFp, Ev.hasFp, Ev.tombstone]
    | succ i =>
      simp at h
      have := ih i h
      simp only [List.set, cntFp]; omega

theorem cntFp_set_tomb_le (evs : List Ev) (i : Nat) : cntFp (evs.set i Ev.tombstone) ≤ cntFp evs := by
  induction evs generalizing i with
  | nil => simp [List.set]
  | cons e es ih =>
    cases i with
    | zero => cases h : e.hasFp <;> simp [List.set, cntFp, Ev.hasFp, Ev.tombstone, h]
    | succ i => have := ih i; simp only [List.set, cntFp]; omega

theorem FpOK.set_tomb {evs : List Ev} (h : FpOK evs) (t : Nat) : FpOK (evs.set t Ev.tombstone) := by
  intro j k f hj
  by_cases hjt : j = t
  · subst hjt
    have hl : j < evs.length := by
      have := (List.getElem?_eq_some_iff.mp hj).1; simpa using this
    rw [List.getElem?_set_self hl] at hj
    simp [Ev.tombstone] at hj
  · rw [List.getElem?_set_ne (by omega)] at hj
    obtain ⟨k', fp', h'⟩ := h j k f hj
    by_cases hjf : j + f = t
    · have hl : t < evs.length := by rw [← hjf]; exact (List.getElem?_eq_some_iff.mp h').1
      exact ⟨.TOMBSTONE, none, by rw [hjf, List.getElem?_set_self hl]; rfl⟩
    · exact ⟨k', fp', by rw [List.getElem?_set_ne (by omega)]; exact h'⟩

theorem chain_total (fuel : Nat) (evs : List Ev) (idx fwd : Nat) (acc : List SyntaxKind)
    (hfp : FpOK evs) (ht : ∃ k fp, evs[idx + fwd]? = some (.start k fp))
    (hfuel : cntFp evs < fuel) :
    ∃ ks evs', chain fuel evs idx fwd acc = some (ks, evs') ∧ FpOK evs' ∧
      evs'.length = evs.length ∧ cntFp evs' ≤ cntFp evs := by
  induction fuel generalizing evs idx fwd acc with
  | zero => omega
  | succ fuel ih =>
    obtain ⟨k, fp, ht⟩ := ht
    simp only [chain, ht]
    cases fp with
    | none => exact ⟨_, _, rfl, hfp.set_tomb _, by simp, cntFp_set_tomb_le _ _⟩
    | some f =>
      have hlt := cntFp_set_tomb_lt evs _ k f ht
      have htl : idx + fwd < evs.length := (List.getElem?_eq_some_iff.mp ht).1
      obtain ⟨k', fp', h'⟩ := hfp _ k f ht
      have ht2 : ∃ k fp, (evs.set (idx + fwd) Ev.tombstone)[idx + fwd + f]? = some (.start k fp) := by
        by_cases hf : f = 0
        · subst hf; exact ⟨.TOMBSTONE, none, by simp [List.getElem?_set_self htl]; rfl⟩
        · exact ⟨k', fp', by rw [List.getElem?_set_ne (by omega)]; exact h'⟩
      obtain ⟨ks, evs', h1, h2, h3, h4⟩ := ih _ (idx + fwd) f (k :: acc) (hfp.set_tomb _) ht2 (by omega)
      exact ⟨ks, evs', h1, h2, by simpa using h3, by omega⟩

theorem processGo_total (n i : Nat) (evs : List Ev) (out : List Step) (hfp : FpOK evs)
    (hlen : n + i = evs.length) : ∃ res, processGo n i evs out = some res := by
  induction n generalizing i evs out with
  | zero => exact ⟨out, rfl⟩
  | succ n ih =>
    have hi : i < evs.length := by omega
    have hget : evs[i]? = some evs[i] := List.getElem?_eq_getElem hi
    have hlen' : n + (i + 1) = (evs.set i Ev.tombstone).length := by simp; omega
    simp only [processGo, hget]
    cases he : evs[i] with
    | start k fp =>
      cases fp with
      | none => exact ih _ _ _ (hfp.set_tomb _) hlen'
      | some f =>
        simp only
        rw [he] at hget
        obtain ⟨k', fp', h'⟩ := hfp i k f hget
        have ht2 : ∃ k fp, (evs.set i Ev.tombstone)[i + f]? = some (.start k fp) := by
          by_cases hf : f = 0
          · subst hf; exact ⟨.TOMBSTONE, none, by simp [List.getElem?_set_self hi]; rfl⟩
          · exact ⟨k', fp', by rw [List.getElem?_set_ne (by omega)]; exact h'⟩
        have hlt := cntFp_set_tomb_lt evs i k f hget
        obtain ⟨ks, evs', h1, h2, h3, _⟩ := chain_total (cntFp evs + 1) _ i f [k] (hfp.set_tomb _) ht2 (by omega)
        rw [h1]
        exact ih _ _ _ h2 (by rw [h3]; exact hlen')
    | finish => exact ih _ _ _ (hfp.set_tomb _) hlen'
    | token k m => exact ih _ _ _ (hfp.set_tomb _) hlen'
    | error msg => exact ih _ _ _ (hfp.set_tomb _) hlen'

/-- **`process` is total** on event lists whose forward-parent links point at `Start`
events: it never reaches `unreachable!()` and never indexes out of bounds. -/
theorem process_total (evs : List Ev) (hfp : FpOK evs) : ∃ res, process evs = some res :=
  processGo_total evs.length 0 evs [] hfp (by simp)

/-! ### tokens and errors pass through in order -/

/-- the non-structural content of an event list / a step list: tokens and errors in order -/
inductive Item | token (k : SyntaxKind) (n : Nat) | error (msg : String)
  deriving DecidableEq, Repr

def itemsE : List Ev → List Item
  | [] => []
  | .token k n :: es => .token k n :: itemsE es
  | .error m :: es => .error m :: itemsE es
  | _ :: es => itemsE es

def itemsS : List Step → List Item
  | [] => []
  | .token k n :: ss => .token k n :: itemsS ss
  | .error m :: ss => .error m :: itemsS ss
  | _ :: ss => itemsS ss

theorem itemsS_append (a b : List Step) : itemsS (a ++ b) = itemsS a ++ itemsS b := by
  induction a with
  | nil => rfl
  | cons x xs ih => cases x <;> simp [itemsS, ih]

theorem itemsS_enters (ks : List SyntaxKind) : itemsS (enters ks) = [] := by
  unfold enters
  generalize ks.filter (· != .TOMBSTONE) = l
  induction l with
  | nil => rfl
  | cons x xs ih => simp [itemsS, ih]

theorem itemsE_set_start (evs : List Ev) (t : Nat) (k : SyntaxKind) (fp : Option Nat)
    (h : evs[t]? = some (.start k fp)) : itemsE (evs.set t Ev.tombstone) = itemsE evs := by
  induction evs generalizing t with
  | nil => simp at h
  | cons e es ih =>
    cases t with
    | zero => simp at h; subst h; simp [List.set, itemsE, Ev.tombstone]
    | succ t => simp at h; cases e <;> simp [List.set, itemsE, ih t h]

theorem chain_items_drop (fuel : Nat) (evs : List Ev) (i idx fwd : Nat) (acc ks : List SyntaxKind)
    (evs' : List Ev) (hc : chain fuel evs idx fwd acc = some (ks, evs')) (hidx : i ≤ idx) :
    itemsE (evs'.drop (i + 1)) = itemsE (evs.drop (i + 1)) := by
  have visit_items : ∀ (e : List Ev) (t : Nat) (k : SyntaxKind) (fp : Option Nat),
      e[t]? = some (Ev.start k fp) →
      itemsE ((e.set t Ev.tombstone).drop (i + 1)) = itemsE (e.drop (i + 1)) := by
    intro e t k fp ht
    by_cases hti : t ≤ i
    · rw [drop_set_le _ _ _ _ hti]
    · rw [drop_set_gt _ _ _ _ (by omega)]
      apply itemsE_set_start _ _ k fp
      rw [List.getElem?_drop, show i + 1 + (t - (i + 1)) = t by omega]; exact ht
  induction fuel generalizing evs idx fwd acc with
  | zero => simp [chain] at hc
  | succ fuel ih =>
    simp only [chain] at hc
    split at hc
    · rename_i k ht
      simp only [Option.some.injEq, Prod.mk.injEq] at hc
      obtain ⟨_, rfl⟩ := hc
      exact visit_items _ _ _ _ ht
    · rename_i k f ht
      rw [ih _ _ _ _ hc (by omega)]; exact visit_items _ _ _ _ ht
    · simp at hc

theorem chain_length (fuel : Nat) (evs : List Ev) (idx fwd : Nat) (acc ks : List SyntaxKind)
    (evs' : List Ev) (hc : chain fuel evs idx fwd acc = some (ks, evs')) :
    evs'.length = evs.length := by
  induction fuel generalizing evs idx fwd acc with
  | zero => simp [chain] at hc
  | succ fuel ih =>
    simp only [chain] at hc
    split at hc
    · simp only [Option.some.injEq, Prod.mk.injEq] at hc
      obtain ⟨_, rfl⟩ := hc; simp
    · have := ih _ _ _ _ hc; simpa using this
    · simp at hc

theorem itemsE_drop (evs : List Ev) (i : Nat) (hi : i < evs.length) :
    itemsE (evs.drop i) = itemsE [evs[i]] ++ itemsE (evs.drop (i + 1)) := by
  rw [List.drop_eq_getElem_cons hi]
  cases evs[i] <;> simp [itemsE]

theorem drop_succ_set_self (evs : List Ev) (i : Nat) (x : Ev) :
    (evs.set i x).drop (i + 1) = evs.drop (i + 1) := drop_set_le _ _ _ _ (Nat.le_refl _)

theorem processGo_items (n i : Nat) (evs : List Ev) (out res : List Step)
    (hgo : processGo n i evs out = some res) (hlen : n + i = evs.length) :
    itemsS res = itemsS out ++ itemsE (evs.drop i) := by
  induction n generalizing i evs out with
  | zero =>
    simp only [processGo, Option.some.injEq] at hgo; subst hgo
    have : evs.drop i = [] := by simp; omega
    simp [this, itemsE]
  | succ n ih =>
    have hi : i < evs.length := by omega
    have hget : evs[i]? = some evs[i] := List.getElem?_eq_getElem hi
    have hlen' : n + (i + 1) = (evs.set i Ev.tombstone).length := by simp; omega
    simp only [processGo, hget] at hgo
    rw [itemsE_drop evs i hi]
    cases he : evs[i] with
    | start k fp =>
      rw [he] at hgo
      cases fp with
      | none =>
        simp only at hgo
        rw [ih _ _ _ hgo hlen', drop_succ_set_self, itemsS_append, itemsS_enters]
        simp [itemsE]
      | some f =>
        simp only at hgo
        split at hgo
        · simp at hgo
        · rename_i ks evs' hch
          have hl := chain_length _ _ _ _ _ _ _ hch
          have h1 := chain_items_drop _ _ i _ _ _ _ _ hch (Nat.le_refl _)
          rw [drop_succ_set_self] at h1
          rw [ih _ evs' _ hgo (by rw [hl]; exact hlen'), itemsS_append, itemsS_enters, h1]
          simp [itemsE]
    | finish =>
      rw [he] at hgo; simp only at hgo
      rw [ih _ _ _ hgo hlen', drop_succ_set_self, itemsS_append]; simp [itemsS, itemsE]
    | token k m =>
      rw [he] at hgo; simp only at hgo
      rw [ih _ _ _ hgo hlen', drop_succ_set_self, itemsS_append]; simp [itemsS, itemsE]
    | error msg =>
      rw [he] at hgo; simp only at hgo
      rw [ih _ _ _ hgo hlen', drop_succ_set_self, itemsS_append]; simp [itemsS, itemsE]

/-- tokens and errors come out of `process` exactly as they went in, in order -/
theorem process_items (evs : List Ev) (res : List Step) (hp : process evs = some res) :
    itemsS res = itemsE evs := by
  have := processGo_items evs.length 0 evs [] res hp (by simp)
  simpa [itemsS] using this

/-- **`process` keeps the tree shape.** If the events, read in index order by the depth
machine, form one rooted balanced node, so do the output steps — whatever forward-parent
links there are. -/
theorem process_rooted (evs : List Ev) (res : List Step)
    (hev : runE none evs = some (some 0)) (hp : process evs = some res) :
    Oq3.Builder.rooted res = true := by
  rw [rooted_iff_runM]
  exact processGo_rooted evs.length 0 evs [] res none hp (by simp) rfl (by simpa using hev)

end Oq3.Parser
