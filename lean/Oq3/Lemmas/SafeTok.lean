/-
Token-level assertions of the grammar: the rules used by the generated proof
`Lemmas/GrammarSafeTok.lean` that no `assert!(p.at(..))`, no `Parser::bump` assertion, no
`nth(n)` with `n > 3`, no out-of-range `Input::is_joint` and no `eat(EOF)` is reachable.

Errors of the marker primitives are tolerated here (`A1`); they are excluded by
`Lemmas/SafeMark.lean` / `Lemmas/GrammarSafeMark.lean`.
-/
import Oq3.Lemmas.Safe
import Oq3.Model.Grammar
set_option linter.unusedSimpArgs false

namespace Oq3.Parser
open Oq3.Gen

/-- the failure sites that concern tokens -/
def tokSites : List Outcome := [
  .panic "continue_", .panic "end_", .panic "switch_case_stmt", .panic "if_stmt", .panic "while_stmt",
  .panic "for_stmt", .panic "qubit_declaration_stmt", .panic "def_stmt", .panic "extern_stmt",
  .panic "alias_stmt", .panic "range_expr", .panic "call_expr", .panic "array_type_spec",
  .panic "complex_type_spec", .panic "qubit_type_spec", .panic "designator", .panic "index_expr",
  .panic "indexed_identifier", .panic "set_expression", .panic "index_operator", .panic "call_arg_list",
  .panic "gphase_call_expr", .panic "tuple_expr", .panic "array_expr", .panic "block_expr",
  .panic "return_expr", .panic "box_expr", .panic "at_list_end_token", .panic "delay_stmt",
  .panic "Parser::bump assertion", .panic "Parser::nth assertion n <= 3",
  .panic "Input::is_joint index out of bounds",
  .modelError "Parser::eat(EOF)", .modelError "atComposite: bad pieces"]

/-- tolerated in the token-level proof: the hang detectors and the failures of the marker API
(a positive list: the proof also shows that no other failure exists) -/
def A1 (o : Outcome) : Prop := o ∈ hangSites ++ markSites

instance (o : Outcome) : Decidable (A1 o) := by unfold A1; infer_instance

/-- close a goal `wp …` that has been reduced to a tolerated failure -/
macro "dec1" : tactic => `(tactic| (show A1 _; decide))

theorem wp_def {α} {A : Outcome → Prop} {x : G α} {Q : α → P → Prop} {s : P} (h : post A Q (x s)) :
    wp A x Q s := h

section
variable {α : Type} {s : P}

/-- a computation all of whose failures are tolerated, used without any knowledge of its result -/
theorem wp1_any {x : G α} {Q : α → P → Prop} (he : ∀ o, x s = .error o → A1 o)
    (h : ∀ a s', Q a s') : wp A1 x Q s := by
  unfold wp post
  cases hx : x s with
  | error e => exact he e hx
  | ok p => exact h _ _

/-- a computation that keeps the token view -/
theorem wp1_keep {x : G α} {Q : α → P → Prop} (he : ∀ o, x s = .error o → A1 o)
    (hk : ∀ a s', x s = .ok (a, s') → s'.tv = s.tv) (h : ∀ a s', s'.tv = s.tv → Q a s') :
    wp A1 x Q s := by
  unfold wp post
  cases hx : x s with
  | error e => exact he e hx
  | ok p => exact h _ _ (hk _ _ hx)

theorem wp1_nth {n : Nat} (hn : n ≤ 3) {Q : SyntaxKind → P → Prop}
    (h : ∀ s', s'.tv = s.tv → Q (s.kindAt (s.pos + n)) s') : wp A1 (nth n) Q s := by
  apply wp_def
  rw [nth_eq]
  have h1 : ¬ n > 3 := by omega
  simp only [h1, if_false]
  split
  · dec1
  · exact h _ rfl

theorem wp1_start {Q : Marker → P → Prop} (h : ∀ m s', s'.tv = s.tv → Q m s') : wp A1 start Q s := by
  apply wp_def; rw [start_eq]
  split
  · dec1
  · exact h _ _ rfl

theorem wp1_error {msg : String} {Q : Unit → P → Prop} (h : ∀ s', s'.tv = s.tv → Q () s') :
    wp A1 (error msg) Q s := by
  apply wp_def; rw [error_eq]
  split
  · dec1
  · exact h _ rfl

theorem wp1_complete {m : Marker} {kind : SyntaxKind} {Q : CompletedMarker → P → Prop}
    (h : ∀ cm s', s'.tv = s.tv → cm.kind = kind → Q cm s') : wp A1 (m.complete kind) Q s := by
  apply wp_def; rw [complete_eq]
  cases s.events[m.pos]? with
  | none => dec1
  | some e =>
    cases e with
    | finish => dec1
    | token _ _ => dec1
    | error _ => dec1
    | start k0 fp =>
      simp only
      split
      · dec1
      · split
        · dec1
        · split
          · dec1
          · exact h _ _ rfl rfl

theorem wp1_abandon {m : Marker} {Q : Unit → P → Prop} (h : ∀ s', s'.tv = s.tv → Q () s') :
    wp A1 m.abandon Q s := by
  apply wp_def; rw [abandon_eq]
  split
  · dec1
  · split
    · dec1
    · split
      · cases s.events.back? with
        | none => dec1
        | some e =>
          cases e with
          | finish => dec1
          | token _ _ => dec1
          | error _ => dec1
          | start k fp =>
            simp only
            split
            · exact h _ rfl
            · dec1
      · exact h _ rfl

theorem wp1_precede {cm : CompletedMarker} {Q : Marker → P → Prop}
    (h : ∀ m s', s'.tv = s.tv → Q m s') : wp A1 cm.precede Q s := by
  apply wp_def; rw [precede_eq]
  split
  · dec1
  · cases s.started.events[cm.pos]? with
    | none => dec1
    | some e =>
      cases e with
      | finish => dec1
      | token _ _ => dec1
      | error _ => dec1
      | start k fp =>
        simp only
        split
        · dec1
        · exact h _ _ rfl

theorem wp1_extendTo {cm : CompletedMarker} {m : Marker} {Q : CompletedMarker → P → Prop}
    (h : ∀ s', s'.tv = s.tv → Q cm s') : wp A1 (cm.extendTo m) Q s := by
  apply wp_def; rw [extendTo_eq]
  cases s.events[m.pos]? with
  | none => dec1
  | some e =>
    cases e with
    | finish => dec1
    | token _ _ => dec1
    | error _ => dec1
    | start k fp =>
      simp only
      split
      · dec1
      · cases s.events[cm.pos]? with
        | none => dec1
        | some e2 =>
          cases e2 with
          | finish => dec1
          | token _ _ => dec1
          | error _ => dec1
          | start k' fp' =>
            simp only
            split
            · dec1
            · exact h _ rfl

theorem eat_eq' (k : SyntaxKind) (hk : (k == .EOF) = false) (s : P) :
    eat k s = if atF k s.kinds s.joint s.pos = true then
        .ok (true, { s with pos := s.pos + eatRawTokens k, steps := 0, sinceBump := 1,
                            events := s.events.push (.token k (eatRawTokens k)) })
      else .ok (false, s) := by
  unfold eat
  simp only [hk, Bool.false_eq_true, if_false]
  rw [G.bind_apply, at_total]
  simp only
  cases hb : atF k s.kinds s.joint s.pos with
  | false => simp only [Bool.not_false, if_true, Bool.false_eq_true, if_false]; rfl
  | true =>
    simp only [Bool.not_true, Bool.false_eq_true, if_false, if_true]
    rw [G.bind_apply, doBump_eq]; rfl

theorem wp1_eat {k : SyntaxKind} (hk : (k == .EOF) = false) {Q : Bool → P → Prop}
    (h1 : atF k s.kinds s.joint s.pos = false → Q false s)
    (h2 : atF k s.kinds s.joint s.pos = true → ∀ s', Q true s') : wp A1 (eat k) Q s := by
  apply wp_def; rw [eat_eq' k hk]
  cases hb : atF k s.kinds s.joint s.pos with
  | false => simp only [Bool.false_eq_true, if_false]; exact h1 hb
  | true => simp only [if_true]; exact h2 hb _

theorem wp1_bump {k : SyntaxKind} (hk : (k == .EOF) = false) {Q : Unit → P → Prop}
    (h : atF k s.kinds s.joint s.pos = true) (h2 : ∀ s', Q () s') : wp A1 (bump k) Q s := by
  unfold bump
  apply wp_bind
  apply wp1_eat hk
  · intro hf; rw [h] at hf; cases hf
  · intro _ s'; exact wp_pure (h2 s')

theorem wp1_bumpAny {Q : Unit → P → Prop} (h : ∀ s', Q () s') : wp A1 bumpAny Q s := by
  apply wp_def; rw [bumpAny_eq]
  split <;> exact h _

theorem wp1_expect {k : SyntaxKind} (hk : (k == .EOF) = false) {Q : Bool → P → Prop}
    (h : ∀ b s', Q b s') : wp A1 (expect k) Q s := by
  unfold expect
  apply wp_bind
  apply wp1_eat hk
  · intro _
    simp only [Bool.false_eq_true, if_false]
    apply wp_bind
    apply wp1_error
    intro s' _
    exact wp_pure (h _ _)
  · intro _ s'
    simp only [if_true]
    exact wp_pure (h _ _)

theorem wp1_errRecover {msg : String} {rec : TokenSet} {Q : Unit → P → Prop} (h : ∀ s', Q () s') :
    wp A1 (errRecover msg rec) Q s := by
  unfold errRecover
  apply wp_bind; apply wp_current
  split
  · apply wp_bind; apply wp1_error; intro s' _; exact wp_pure (h _)
  · apply wp_bind; apply wp_atTs
    split
    · apply wp_bind; apply wp1_error; intro s' _; exact wp_pure (h _)
    · apply wp_bind; apply wp1_start; intro m s1 _
      apply wp_bind; apply wp1_error; intro s2 _
      apply wp_bind; apply wp1_bumpAny; intro s3
      apply wp_bind; apply wp1_complete; intro cm s4 _ _
      exact wp_pure (h _)

theorem wp1_errAndBump {msg : String} {Q : Unit → P → Prop} (h : ∀ s', Q () s') :
    wp A1 (errAndBump msg) Q s := wp1_errRecover h

end

end Oq3.Parser

namespace Oq3.Grammar
open Oq3.Gen Oq3.Parser
open Oq3.Gen.Ops (Assoc)

/-! ### `current_op` hands `bump` an operator that is really there -/

/-- the property of the translated operator table that `expr_bp` relies on: a row's result
operator is the row's guard, or (without guard) the row's first token, which is then a simple
token; no operator is `EOF` -/
def rowsOK (rows : List (SyntaxKind × Option SyntaxKind × Option (Nat × SyntaxKind × Assoc))) : Bool :=
  rows.all fun r =>
    match r.2.2 with
    | none => true
    | some (_, op, _) =>
      match r.2.1 with
      | some g => op == g && op != .EOF
      | none => op == r.1 && compositePieces op == none && op != .EOF

theorem currentOpRows_ok : rowsOK Ops.currentOpRows = true := by decide +kernel

/-- what `expr_bp` needs from `current_op` -/
def OpGood (s : P) (r : Nat × SyntaxKind × Assoc) : Prop :=
  r.1 = 0 ∨ (atF r.2.1 s.kinds s.joint s.pos = true ∧ (r.2.1 == SyntaxKind.EOF) = false)

theorem currentOpScan_spec (s : P)
    (rows : List (SyntaxKind × Option SyntaxKind × Option (Nat × SyntaxKind × Assoc)))
    (h : rowsOK rows = true) :
    ∃ r, currentOpScan (s.kindAt s.pos) rows s = .ok (r, s) ∧ OpGood s r := by
  induction rows with
  | nil => exact ⟨notAnOp, rfl, Or.inl rfl⟩
  | cons row rows ih =>
    obtain ⟨k, guard, res⟩ := row
    simp only [rowsOK, List.all_cons, Bool.and_eq_true] at h
    obtain ⟨hrow, hrest⟩ := h
    have ih' := ih (by simpa [rowsOK] using hrest)
    unfold currentOpScan
    by_cases hk : (k == s.kindAt s.pos) = true
    · simp only [hk, if_true]
      cases guard with
      | none =>
        simp only
        cases res with
        | none => exact ⟨notAnOp, rfl, Or.inl rfl⟩
        | some t =>
          obtain ⟨bp, op, a⟩ := t
          simp only [Bool.and_eq_true, beq_iff_eq, bne_iff_ne, ne_eq] at hrow
          obtain ⟨⟨h1, h2⟩, h3⟩ := hrow
          refine ⟨(bp, op, a), rfl, Or.inr ⟨?_, by simpa using h3⟩⟩
          have hk' : k = s.kindAt s.pos := by simpa using hk
          have hc : compositePieces op = none := by
            cases hcp : compositePieces op with
            | none => rfl
            | some ps => rw [hcp] at h2; simp at h2
          show atF op s.kinds s.joint s.pos = true
          rw [atF_simple hc]
          simp only [beq_iff_eq]
          show s.kindAt s.pos = op
          rw [← hk', ← h1]
      | some g =>
        simp only
        rw [G.bind_apply, at_total]
        simp only
        by_cases hg : atF g s.kinds s.joint s.pos = true
        · simp only [hg, if_true]
          cases res with
          | none => exact ⟨notAnOp, rfl, Or.inl rfl⟩
          | some t =>
            obtain ⟨bp, op, a⟩ := t
            simp only [Bool.and_eq_true, beq_iff_eq, bne_iff_ne, ne_eq] at hrow
            obtain ⟨h1, h3⟩ := hrow
            exact ⟨(bp, op, a), rfl, Or.inr ⟨by show atF op _ _ _ = true; rw [h1]; exact hg, by simpa using h3⟩⟩
        · simp only [hg, if_false]
          exact ih'
    · simp only [hk, if_false]
      exact ih'

theorem wp_currentOp {A : Outcome → Prop} {s : P} {Q : Nat × SyntaxKind × Assoc → P → Prop}
    (h : ∀ r, OpGood s r → Q r s) : wp A currentOp Q s := by
  unfold currentOp
  apply wp_bind; apply wp_current
  obtain ⟨r, hr, hg⟩ := currentOpScan_spec s _ currentOpRows_ok
  apply wp_def; rw [hr]; exact h r hg

/-! ### `type_name` bumps a simple, non-`EOF` token -/

theorem isType_simple_all :
    (SyntaxKind.all.all fun k => !isType k || (compositePieces k == none && k != .EOF)) = true := by
  decide +kernel

theorem isType_simple (k : SyntaxKind) (h : isType k = true) :
    compositePieces k = none ∧ (k == SyntaxKind.EOF) = false := by
  have := (List.all_eq_true.mp isType_simple_all) k (mem_all k)
  simp only [h, Bool.not_true, Bool.false_or, Bool.and_eq_true, beq_iff_eq, bne_iff_ne, ne_eq] at this
  refine ⟨?_, by simpa using this.2⟩
  cases hc : compositePieces k with
  | none => rfl
  | some ps => rw [hc] at this; simp at this

theorem wp1_typeName {s : P} {Q : Unit → P → Prop} (h : ∀ s', Q () s') : wp A1 typeName Q s := by
  unfold typeName
  apply wp_bind; apply wp_current
  split
  · apply wp_bind; apply wp1_error; intro s' _; exact wp_pure (h _)
  · rename_i ht
    apply wp_bind; apply wp_current
    have ht' : isType (s.kindAt s.pos) = true := by simpa using ht
    obtain ⟨hc, hne⟩ := isType_simple _ ht'
    apply wp1_bump hne
    · rw [atF_simple hc]; simp [P.kindAt]
    · exact h

theorem atF_of_kind {k : SyntaxKind} (hc : compositePieces k = none) {K : Array SyntaxKind}
    {J : Array Bool} {p : Nat} (h : K.getD p .EOF = k) : atF k K J p = true := by
  rw [atF_simple hc, h]; simp

/-! ### the proof-search tactic of the generated file -/

/-- extensible: specifications of already-treated leaf functions -/
syntax "tok_lemma" : tactic
macro_rules | `(tactic| tok_lemma) => `(tactic| fail "no lemma")

/-- extensible: induction hypotheses of the mutual block -/
syntax "tok_ih" : tactic
macro_rules | `(tactic| tok_ih) => `(tactic| fail "no ih")

/-- close a side goal (a precondition, a tolerated failure, a contradiction) from the facts
collected on the way -/
macro "tok_close" : tactic => `(tactic| first
  | exact trivial
  | decide
  | (simp_all [P.tv, OpGood]; done)
  | (refine atF_of_kind (by decide) ?_; simp_all [P.tv, P.kindAt]; done)
  | omega
  | (have hg := ‹OpGood _ _›
     rcases hg with h0 | ⟨h1, h2⟩
     · exfalso; omega
     · simp_all [P.tv]; done))

macro "tok_step" : tactic => `(tactic| first
  | with_reducible intro _
  | wp_rule [Pure.pure wp_pure, Bind.bind wp_bind, ite wp_ite, andM wp_andM, orM wp_orM, notM wp_notM,
      Functor.map wp_map, at' wp_at, current wp_current, atTs wp_atTs, start wp1_start, error wp1_error,
      Marker.complete wp1_complete, Marker.abandon wp1_abandon, CompletedMarker.precede wp1_precede,
      CompletedMarker.extendTo wp1_extendTo, eat wp1_eat, bump wp1_bump, bumpAny wp1_bumpAny,
      expect wp1_expect, errRecover wp1_errRecover, errAndBump wp1_errAndBump, typeName wp1_typeName,
      currentOp wp_currentOp]
  | with_reducible apply wp1_nth (by decide)
  | (with_reducible apply wp_fail; decide)
  | wp_call tok
  | split
  | dsimp only
  | tok_close)

macro "tok" : tactic => `(tactic| repeat' tok_step)

end Oq3.Grammar
