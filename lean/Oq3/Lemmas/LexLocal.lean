/-
Scanner-level "append" lemmas for C15/C11: what each scanner of the lexer model does on an input
of the form `lexeme ++ rest`, and the hypothesis record `AsciiUC` on the Unicode class functions.
Core only (no Mathlib).
-/
import Oq3.Lemmas.Lexer
import Oq3.Ref.Lexeme

namespace Oq3.Lemmas.LexLocal
open Oq3.Lexer Oq3.Lemmas.Lexer Oq3.Ref

/-! ### characters -/

def isAsciiLetter (c : Char) : Bool := ('a' ≤ c && c ≤ 'z') || ('A' ≤ c && c ≤ 'Z')

/-- the 11 characters of `is_whitespace` -/
def wsChars : List Char :=
  ['\u0009', '\u000A', '\u000B', '\u000C', '\u000D', ' ', '\u0085', '\u200e', '\u200f',
   '\u2028', '\u2029']

/-- all 128 ASCII characters -/
def asciiChars : List Char := (List.range 128).map Char.ofNat

/-- What the C15/C11 theorems assume about `unicode-xid` / `unicode-properties`
(checked against the real tables at run time; all fields are finite checks). -/
structure AsciiUC (uc : UC) : Prop where
  /-- on ASCII, `XID_Start` = letters -/
  start_ascii : ∀ c ∈ asciiChars, uc.xidStart c = isAsciiLetter c
  /-- on ASCII, `XID_Continue` = letters, digits, `_` -/
  cont_ascii : ∀ c ∈ asciiChars, uc.xidContinue c = (isAsciiLetter c || isDecDigit c || c == '_')
  /-- no `is_whitespace` character is `XID_Start` -/
  ws_start : ∀ c ∈ wsChars, uc.xidStart c = false
  /-- no `is_whitespace` character is `XID_Continue` -/
  ws_cont : ∀ c ∈ wsChars, uc.xidContinue c = false
  /-- no non-ASCII `is_whitespace` character is an emoji character -/
  ws_emoji : ∀ c ∈ wsChars, isNonAsciiEmoji uc c = false

/-- executable form of `AsciiUC` -/
def AsciiUC.check (uc : UC) : Bool :=
  asciiChars.all (fun c => uc.xidStart c == isAsciiLetter c) &&
  asciiChars.all (fun c => uc.xidContinue c == (isAsciiLetter c || isDecDigit c || c == '_')) &&
  wsChars.all (fun c => !uc.xidStart c) && wsChars.all (fun c => !uc.xidContinue c) &&
  wsChars.all (fun c => !isNonAsciiEmoji uc c)

theorem AsciiUC.of_check {uc : UC} (h : AsciiUC.check uc = true) : AsciiUC uc := by
  simp only [AsciiUC.check, Bool.and_eq_true, List.all_eq_true, beq_iff_eq, Bool.not_eq_true'] at h
  obtain ⟨⟨⟨⟨h1, h2⟩, h3⟩, h4⟩, h5⟩ := h
  exact ⟨h1, h2, h3, h4, h5⟩

theorem char_le_iff (a b : Char) : a ≤ b ↔ a.toNat ≤ b.toNat := by
  rw [Char.le_def, UInt32.le_iff_toNat_le]; rfl

theorem mem_asciiChars {c : Char} (h : c.toNat < 128) : c ∈ asciiChars := by
  simp only [asciiChars, List.mem_map, List.mem_range]
  exact ⟨c.toNat, h, Char.ofNat_toNat c⟩

theorem isWhitespace_iff (c : Char) : isWhitespace c = true ↔ c ∈ wsChars := by
  simp [isWhitespace, wsChars, or_assoc]

theorem isAscii_iff (c : Char) : isAscii c = true ↔ c.toNat < 128 := by
  simp [isAscii]

theorem mem_of_toNat_range (c : Char) (lo hi : Nat) (h1 : lo ≤ c.toNat) (h2 : c.toNat ≤ hi) :
    c ∈ (List.range (hi + 1 - lo)).map (fun i => Char.ofNat (lo + i)) := by
  simp only [List.mem_map, List.mem_range]
  refine ⟨c.toNat - lo, by omega, ?_⟩
  rw [show lo + (c.toNat - lo) = c.toNat by omega]
  exact Char.ofNat_toNat c

def digitChars : List Char := ['0', '1', '2', '3', '4', '5', '6', '7', '8', '9']

theorem isDecDigit_iff (c : Char) : isDecDigit c = true ↔ 48 ≤ c.toNat ∧ c.toNat ≤ 57 := by
  simp only [isDecDigit, Bool.and_eq_true, decide_eq_true_eq, char_le_iff]
  rfl

theorem isDecDigit_mem {c : Char} (h : isDecDigit c = true) : c ∈ digitChars := by
  obtain ⟨h1, h2⟩ := (isDecDigit_iff c).mp h
  have := mem_of_toNat_range c 48 57 h1 h2
  revert this
  simp [digitChars, List.range, List.range.loop]

theorem isDecDigit_ascii {c : Char} (h : isDecDigit c = true) : c ∈ asciiChars := by
  obtain ⟨_, h2⟩ := (isDecDigit_iff c).mp h
  exact mem_asciiChars (by omega)

variable {uc : UC}

theorem isIdStart_ascii (hu : AsciiUC uc) {c : Char} (h : c ∈ asciiChars) :
    isIdStart uc c = (c == '_' || isAsciiLetter c) := by
  simp [isIdStart, hu.start_ascii c h]

theorem isIdContinue_ascii (hu : AsciiUC uc) {c : Char} (h : c ∈ asciiChars) :
    isIdContinue uc c = (isAsciiLetter c || isDecDigit c || c == '_') := by
  simp [isIdContinue, hu.cont_ascii c h]

/-- an identifier start is not a whitespace character -/
theorem idStart_not_ws (hu : AsciiUC uc) {c : Char} (h : isIdStart uc c = true) :
    isWhitespace c = false := by
  cases hw : isWhitespace c with
  | false => rfl
  | true =>
    have hm := (isWhitespace_iff c).mp hw
    have := hu.ws_start c hm
    simp only [isIdStart, this, Bool.or_false, beq_iff_eq] at h
    subst h; simp [isWhitespace] at hw

/-- an ASCII identifier start is `_` or a letter -/
theorem idStart_cases (hu : AsciiUC uc) {c : Char} (h : isIdStart uc c = true) :
    128 ≤ c.toNat ∨ (c ∈ asciiChars ∧ (c == '_' || isAsciiLetter c) = true) := by
  by_cases h128 : c.toNat < 128
  · right
    have hm := mem_asciiChars h128
    exact ⟨hm, by rw [← isIdStart_ascii hu hm]; exact h⟩
  · left; omega

theorem ascii_start_facts : ∀ c ∈ asciiChars, (c == '_' || isAsciiLetter c) = true →
    c ≠ '/' ∧ isDecDigit c = false := by decide +kernel

theorem idStart_ne_slash (hu : AsciiUC uc) {c : Char} (h : isIdStart uc c = true) : c ≠ '/' := by
  rcases idStart_cases hu h with h | ⟨hm, h⟩
  · intro he; subst he; simp at h
  · exact (ascii_start_facts c hm h).1


/-! ### generic scanner facts -/

@[simp] theorem first_cons (c : Char) (s : Cursor) : first (c :: s) = c := rfl
@[simp] theorem first_nil : first [] = '\x00' := rfl
@[simp] theorem bump_cons (c : Char) (s : Cursor) : bump (c :: s) = s := rfl
@[simp] theorem second_cons (c d : Char) (s : Cursor) : second (c :: d :: s) = d := rfl

theorem first_eq_cons {s : Cursor} {c : Char} (h : first s = c) (hc : c ≠ '\x00') :
    s = c :: bump s := by
  cases s with
  | nil => simp at h; exact absurd h.symm hc
  | cons a t => simp at h; simp [h]

theorem eatWhile_all_append (p : Char → Bool) (a rest : Cursor) (h : a.all p = true) :
    eatWhile p (a ++ rest) = eatWhile p rest := by
  induction a with
  | nil => rfl
  | cons c cs ih =>
    simp only [List.all_cons, Bool.and_eq_true] at h
    simp [eatWhile, h.1, ih h.2]

theorem eatWhile_stop (p : Char → Bool) (rest : Cursor) (h : headSat p rest = false) :
    eatWhile p rest = rest := by
  cases rest with
  | nil => rfl
  | cons c cs => simp only [headSat] at h; simp [eatWhile, h]

theorem eatWhile_exact (p : Char → Bool) (a rest : Cursor) (h : a.all p = true)
    (hr : headSat p rest = false) : eatWhile p (a ++ rest) = rest := by
  rw [eatWhile_all_append p a rest h, eatWhile_stop p rest hr]

theorem eatWhile_bump (p : Char → Bool) {s : Cursor} {c : Char} (h : (first s == c) = true)
    (hc : c ≠ '\x00') (hp : p c = true) : eatWhile p (bump s) = eatWhile p s := by
  have := first_eq_cons (beq_iff_eq.mp h) hc
  conv => rhs; rw [this]
  simp [eatWhile, hp]

theorem headSat_or (p q : Char → Bool) (s : Cursor) :
    headSat (fun c => p c || q c) s = (headSat p s || headSat q s) := by
  cases s <;> simp [headSat]

theorem headSat_false_of_imp {p q : Char → Bool} {s : Cursor} (h : ∀ c, q c = true → p c = true)
    (hp : headSat p s = false) : headSat q s = false := by
  cases s with
  | nil => rfl
  | cons c cs =>
    simp only [headSat] at hp ⊢
    cases hq : q c with
    | false => rfl
    | true => rw [h c hq] at hp; exact absurd hp (by simp)

theorem eatDecimalDigitsLoop_exact (a rest : Cursor) (ha : a.all isDigitU = true)
    (hr : headSat isDigitU rest = false) (b : Bool) :
    eatDecimalDigitsLoop b (a ++ rest) = ⟨b || a.any isDecDigit, rest, true⟩ := by
  induction a generalizing b with
  | nil =>
    cases rest with
    | nil => simp [eatDecimalDigitsLoop]
    | cons c cs =>
      simp only [headSat, isDigitU, Bool.or_eq_false_iff, beq_eq_false_iff_ne] at hr
      simp [eatDecimalDigitsLoop, hr.1, hr.2]
  | cons c cs ih =>
    simp only [List.all_cons, Bool.and_eq_true] at ha
    simp only [List.cons_append, eatDecimalDigitsLoop, List.any_cons]
    by_cases hc : c = '_'
    · subst hc; simp [ih ha.2, isDecDigit]
    · have hd : isDecDigit c = true := by simpa [isDigitU, hc] using ha.1
      simp [hc, hd, ih ha.2]

theorem eatDecimalDigits_exact (a rest : Cursor) (ha : a.all isDigitU = true)
    (hr : headSat isDigitU rest = false) :
    eatDecimalDigits (a ++ rest) = ⟨a.any isDecDigit, rest, true⟩ := by
  simp [eatDecimalDigits, eatDecimalDigitsLoop_exact a rest ha hr]

theorem eatHexadecimalDigitsLoop_exact (a rest : Cursor) (ha : a.all isHexU = true)
    (hr : headSat isHexU rest = false) (b : Bool) :
    eatHexadecimalDigitsLoop b (a ++ rest) = ⟨b || a.any isHexDigit, rest, true⟩ := by
  induction a generalizing b with
  | nil =>
    cases rest with
    | nil => simp [eatHexadecimalDigitsLoop]
    | cons c cs =>
      simp only [headSat, isHexU, Bool.or_eq_false_iff, beq_eq_false_iff_ne] at hr
      simp [eatHexadecimalDigitsLoop, hr.1, hr.2]
  | cons c cs ih =>
    simp only [List.all_cons, Bool.and_eq_true] at ha
    simp only [List.cons_append, eatHexadecimalDigitsLoop, List.any_cons]
    by_cases hc : c = '_'
    · subst hc; simp [ih ha.2, isHexDigit]
    · have hd : isHexDigit c = true := by simpa [isHexU, hc] using ha.1
      simp [hc, hd, ih ha.2]

/-! ### `AsciiUC` consequences -/

theorem letters_ok (hu : AsciiUC uc) : KeywordLettersAreIdStart uc := by
  intro c hc
  have h128 : c ∈ asciiChars := by
    simp only [List.mem_cons, List.not_mem_nil, or_false] at hc
    rcases hc with rfl | rfl | rfl | rfl | rfl | rfl | rfl | rfl | rfl | rfl | rfl | rfl | rfl <;>
      exact mem_asciiChars (by decide)
  rw [isIdStart_ascii hu h128]
  simp only [List.mem_cons, List.not_mem_nil, or_false] at hc
  rcases hc with rfl | rfl | rfl | rfl | rfl | rfl | rfl | rfl | rfl | rfl | rfl | rfl | rfl <;> decide

theorem idStart_nul (hu : AsciiUC uc) : isIdStart uc '\x00' = false := by
  rw [isIdStart_ascii hu (mem_asciiChars (by decide))]; decide

theorem cont_letter (hu : AsciiUC uc) (c : Char) (h : c.toNat < 128)
    (hl : (isAsciiLetter c || isDecDigit c || c == '_') = true) : isIdContinue uc c = true := by
  rw [isIdContinue_ascii hu (mem_asciiChars h)]; exact hl

/-! ### `have_pragma`, `have_openqasm` -/

theorem cons_of_first {s : Cursor} {c : Char} (h : (first s == c) = true) (hc : c ≠ '\x00') :
    ∃ t, s = c :: t ∧ bump s = t := by
  have := first_eq_cons (beq_iff_eq.mp h) hc
  exact ⟨bump s, this, rfl⟩

theorem havePragma_true {prev : Char} {s : Cursor} (h : (havePragma prev s).val = true) :
    ∃ w tail, s = 'r' :: 'a' :: 'g' :: 'm' :: 'a' :: w :: tail ∧ isWhitespace w = true := by
  simp only [havePragma] at h
  split at h <;> try (simp at h; done)
  split at h <;> try (simp at h; done)
  split at h <;> try (simp at h; done)
  split at h <;> try (simp at h; done)
  split at h <;> try (simp at h; done)
  split at h <;> try (simp at h; done)
  rename_i h1 h2 h3 h4 h5 h6
  obtain ⟨t1, rfl, e1⟩ := cons_of_first h1 (by decide)
  rw [e1] at h2 h3 h4 h5 h6
  obtain ⟨t2, rfl, e2⟩ := cons_of_first h2 (by decide)
  rw [e2] at h3 h4 h5 h6
  obtain ⟨t3, rfl, e3⟩ := cons_of_first h3 (by decide)
  rw [e3] at h4 h5 h6
  obtain ⟨t4, rfl, e4⟩ := cons_of_first h4 (by decide)
  rw [e4] at h5 h6
  obtain ⟨t5, rfl, e5⟩ := cons_of_first h5 (by decide)
  rw [e5] at h6
  cases t5 with
  | nil => simp [isWhitespace] at h6
  | cons w tail => exact ⟨w, tail, rfl, h6⟩


theorem havePragma_false_eatWhile (hu : AsciiUC uc) {prev : Char} {s : Cursor}
    (h : (havePragma prev s).val = false) :
    eatWhile (isIdContinue uc) (havePragma prev s).rest = eatWhile (isIdContinue uc) s := by
  have cr : isIdContinue uc 'r' = true := cont_letter hu _ (by decide) (by decide)
  have ca : isIdContinue uc 'a' = true := cont_letter hu _ (by decide) (by decide)
  have cg : isIdContinue uc 'g' = true := cont_letter hu _ (by decide) (by decide)
  have cm : isIdContinue uc 'm' = true := cont_letter hu _ (by decide) (by decide)
  simp only [havePragma] at h ⊢
  repeat' split
  all_goals try (simp [*] at h; done)
  all_goals
    simp only [] 
    repeat (first
      | rfl
      | rw [eatWhile_bump (isIdContinue uc) ‹(first _ == 'r') = true› (by decide) cr]
      | rw [eatWhile_bump (isIdContinue uc) ‹(first _ == 'a') = true› (by decide) ca]
      | rw [eatWhile_bump (isIdContinue uc) ‹(first _ == 'g') = true› (by decide) cg]
      | rw [eatWhile_bump (isIdContinue uc) ‹(first _ == 'm') = true› (by decide) cm])

theorem haveOpenqasm_true {prev : Char} {s : Cursor} (h : (haveOpenqasm prev s).val = true) :
    ∃ w tail, s = 'P' :: 'E' :: 'N' :: 'Q' :: 'A' :: 'S' :: 'M' :: w :: tail ∧
      isWhitespace w = true ∧ (haveOpenqasm prev s).rest = w :: tail := by
  simp only [haveOpenqasm] at h ⊢
  split at h <;> try (simp at h; done)
  split at h <;> try (simp at h; done)
  split at h <;> try (simp at h; done)
  split at h <;> try (simp at h; done)
  split at h <;> try (simp at h; done)
  split at h <;> try (simp at h; done)
  split at h <;> try (simp at h; done)
  rename_i h1 h2 h3 h4 h5 h6 h7
  simp only [h1, h2, h3, h4, h5, h6, h7, if_true]
  obtain ⟨t1, rfl, e1⟩ := cons_of_first h1 (by decide)
  rw [e1] at h2 h3 h4 h5 h6 h7 h ⊢
  obtain ⟨t2, rfl, e2⟩ := cons_of_first h2 (by decide)
  rw [e2] at h3 h4 h5 h6 h7 h ⊢
  obtain ⟨t3, rfl, e3⟩ := cons_of_first h3 (by decide)
  rw [e3] at h4 h5 h6 h7 h ⊢
  obtain ⟨t4, rfl, e4⟩ := cons_of_first h4 (by decide)
  rw [e4] at h5 h6 h7 h ⊢
  obtain ⟨t5, rfl, e5⟩ := cons_of_first h5 (by decide)
  rw [e5] at h6 h7 h ⊢
  obtain ⟨t6, rfl, e6⟩ := cons_of_first h6 (by decide)
  rw [e6] at h7 h ⊢
  obtain ⟨t7, rfl, e7⟩ := cons_of_first h7 (by decide)
  rw [e7] at h ⊢
  cases t7 with
  | nil => simp [isWhitespace] at h
  | cons w tail => exact ⟨w, tail, rfl, h, rfl⟩

theorem haveOpenqasm_eatWhile (hu : AsciiUC uc) (prev : Char) (s : Cursor) :
    eatWhile (isIdContinue uc) (haveOpenqasm prev s).rest = eatWhile (isIdContinue uc) s := by
  have cP : isIdContinue uc 'P' = true := cont_letter hu _ (by decide) (by decide)
  have cE : isIdContinue uc 'E' = true := cont_letter hu _ (by decide) (by decide)
  have cN : isIdContinue uc 'N' = true := cont_letter hu _ (by decide) (by decide)
  have cQ : isIdContinue uc 'Q' = true := cont_letter hu _ (by decide) (by decide)
  have cA : isIdContinue uc 'A' = true := cont_letter hu _ (by decide) (by decide)
  have cS : isIdContinue uc 'S' = true := cont_letter hu _ (by decide) (by decide)
  have cM : isIdContinue uc 'M' = true := cont_letter hu _ (by decide) (by decide)
  simp only [haveOpenqasm]
  repeat' split
  all_goals
    simp only []
    repeat (first
      | rfl
      | rw [eatWhile_bump (isIdContinue uc) ‹(first _ == 'P') = true› (by decide) cP]
      | rw [eatWhile_bump (isIdContinue uc) ‹(first _ == 'E') = true› (by decide) cE]
      | rw [eatWhile_bump (isIdContinue uc) ‹(first _ == 'N') = true› (by decide) cN]
      | rw [eatWhile_bump (isIdContinue uc) ‹(first _ == 'Q') = true› (by decide) cQ]
      | rw [eatWhile_bump (isIdContinue uc) ‹(first _ == 'A') = true› (by decide) cA]
      | rw [eatWhile_bump (isIdContinue uc) ‹(first _ == 'S') = true› (by decide) cS]
      | rw [eatWhile_bump (isIdContinue uc) ‹(first _ == 'M') = true› (by decide) cM])

/-- two decompositions of the same text into a maximal run of `p`-characters and a rest agree -/
theorem run_unique (p : Char → Bool) {t rest pre rest' : Cursor} (ht : t.all p = true)
    (hr : headSat p rest = false) (hpre : pre.all p = true) (hr' : headSat p rest' = false)
    (heq : t ++ rest = pre ++ rest') : t = pre ∧ rest = rest' := by
  have h1 := eatWhile_exact p t rest ht hr
  have h2 := eatWhile_exact p pre rest' hpre hr'
  rw [heq, h2] at h1
  subst h1
  exact ⟨List.append_cancel_right heq, rfl⟩


/-! ### digits and numbers -/

theorem digit_facts : ∀ c ∈ digitChars,
    (c == '/') = false ∧ isWhitespace c = false ∧ (c == 'p') = false ∧ (c == 'O') = false ∧
    (c == '_' || isAsciiLetter c) = false ∧ (c == 'b') = false ∧ (c == 'o') = false ∧
    (c == 'x') = false ∧ (c == '.') = false ∧ (c == 'e') = false ∧ (c == 'E') = false ∧
    (c == '-') = false ∧ (c == '+') = false ∧ (c == '_') = false := by decide

theorem digit_not_idStart (hu : AsciiUC uc) {c : Char} (h : isDecDigit c = true) :
    isIdStart uc c = false := by
  rw [isIdStart_ascii hu (isDecDigit_ascii h)]
  exact (digit_facts c (isDecDigit_mem h)).2.2.2.2.1

theorem digit_not_emoji {c : Char} (h : isDecDigit c = true) : isNonAsciiEmoji uc c = false := by
  obtain ⟨_, h2⟩ := (isDecDigit_iff c).mp h
  have : isAscii c = true := (isAscii_iff c).mpr (by omega)
  simp [isNonAsciiEmoji, this]

/-- the `'0'..='9'` arm of `advance_token` -/
theorem advanceKind_digit (hu : AsciiUC uc) {c : Char} (h : isDecDigit c = true) (cs : Cursor) :
    advanceKind uc c cs = numericLiteral uc (c :: cs) (number c c cs) := by
  obtain ⟨h1, h2, h3, h4, _⟩ := digit_facts c (isDecDigit_mem h)
  simp [advanceKind, h1, h2, h3, h4, digit_not_idStart hu h, h]

theorem all_digitU_of_all {p : Char → Bool} (hp : ∀ c, p c = true → isDecDigit c = true)
    {ds : List Char} (h : ds.all (fun c => p c || c == '_') = true) : ds.all isDigitU = true := by
  simp only [List.all_eq_true, Bool.or_eq_true] at h ⊢
  intro c hc
  rcases h c hc with h | h
  · simp [isDigitU, hp c h]
  · simp [isDigitU, h]

theorem any_of_headSat {p q : Char → Bool} (hp : ∀ c, p c = true → q c = true) {ds : List Char}
    (h : headSat p ds = true) : ds.any q = true := by
  cases ds with
  | nil => simp [headSat] at h
  | cons c cs => simp only [headSat] at h; simp [hp c h]

theorem headSat_append {p : Char → Bool} {a : List Char} (b : List Char) (h : a ≠ []) :
    headSat p (a ++ b) = headSat p a := by
  cases a with
  | nil => exact absurd rfl h
  | cons c cs => rfl

theorem first_append {a : List Char} (b : List Char) (h : a ≠ []) : first (a ++ b) = first a := by
  cases a with
  | nil => exact absurd rfl h
  | cons c cs => rfl

theorem first_of_headSat {p : Char → Bool} {s : List Char} (h : headSat p s = true) :
    p (first s) = true := by
  cases s with
  | nil => simp [headSat] at h
  | cons c cs => exact h

theorem ne_nil_of_headSat {p : Char → Bool} {s : List Char} (h : headSat p s = true) : s ≠ [] := by
  cases s with
  | nil => simp [headSat] at h
  | cons c cs => simp

theorem headSat_false_first {p : Char → Bool} {s : List Char} (h : headSat p s = false)
    (h0 : p '\x00' = false) : p (first s) = false := by
  cases s with
  | nil => exact h0
  | cons c cs => exact h

/-- `suffixFree` excludes every ASCII letter (and `_`) that does not start a unit -/
theorem suffixFree_ne (hu : AsciiUC uc) {rest : List Char} (hs : Lexeme.suffixFree uc rest = true)
    {c : Char} (hc : c ∈ ['b', 'o', 'x', 'e', 'E', '_', 'a', 'c', 'f', 'A', 'B', 'C', 'D', 'F']) :
    (first rest == c) = false := by
  cases hf : first rest == c with
  | false => rfl
  | true =>
    exfalso
    have hfc : first rest = c := beq_iff_eq.mp hf
    simp only [Lexeme.suffixFree, hasTimingOrImaginarySuffix, hfc, Bool.or_eq_true,
      Bool.not_eq_true'] at hs
    have hid : isIdStart uc c = true := by
      have h128 : c ∈ asciiChars := by
        simp only [List.mem_cons, List.not_mem_nil, or_false] at hc
        rcases hc with rfl | rfl | rfl | rfl | rfl | rfl | rfl | rfl | rfl | rfl | rfl | rfl | rfl | rfl <;>
          exact mem_asciiChars (by decide)
      rw [isIdStart_ascii hu h128]
      simp only [List.mem_cons, List.not_mem_nil, or_false] at hc
      rcases hc with rfl | rfl | rfl | rfl | rfl | rfl | rfl | rfl | rfl | rfl | rfl | rfl | rfl | rfl <;> decide
    rcases hs with hs | hs
    · simp only [List.mem_cons, List.not_mem_nil, or_false] at hc
      rcases hc with rfl | rfl | rfl | rfl | rfl | rfl | rfl | rfl | rfl | rfl | rfl | rfl | rfl | rfl <;>
        simp at hs
    · rw [hid] at hs; exact absurd hs (by simp)

theorem numberTail_int (b : Base) (rest : List Char) (h1 : (first rest == '.') = false)
    (h2 : (first rest == 'e') = false) (h3 : (first rest == 'E') = false) :
    numberTail b rest = ⟨.int b false, rest, true⟩ := by
  simp [numberTail, h1, h2, h3]

theorem eatIdentifier_noop {rest : List Char} (h : isIdStart uc (first rest) = false) :
    eatLiteralSuffix uc rest = rest := by
  simp [eatLiteralSuffix, eatIdentifier, h]

theorem numericLiteral_exact (start : Cursor) (lit : Scan LiteralKind) (rest : List Char)
    (hr : lit.rest = rest) (hs : Lexeme.suffixFree uc rest = true) :
    (numericLiteral uc start lit).val = .literal lit.val (posWithinToken start rest) ∧
    (numericLiteral uc start lit).rest = rest := by
  simp only [numericLiteral, hr, true_and]
  simp only [Lexeme.suffixFree, Bool.or_eq_true, Bool.not_eq_true'] at hs
  cases ht : hasTimingOrImaginarySuffix rest with
  | true => simp
  | false =>
    rcases hs with hs | hs
    · rw [ht] at hs; exact absurd hs (by simp)
    · simp [eatIdentifier_noop hs]

/-- `number` on a decimal digit run `c :: t` followed by `X`, where `X` cannot continue the
digits and does not start with a radix letter: the integer part is consumed and the scanner is
at `numberTail .decimal X` -/
theorem number_decimal {c : Char} {t X : List Char} (hc : isDecDigit c = true)
    (ht : t.all isDigitU = true) (hX : headSat isDigitU X = false)
    (hb : (first X == 'b') = false) (ho : (first X == 'o') = false) (hx : (first X == 'x') = false) :
    (number c c (t ++ X)).val = (numberTail .decimal X).val ∧
    (number c c (t ++ X)).rest = (numberTail .decimal X).rest := by
  have hok : ('0' ≤ c && c ≤ '9') = true := hc
  have hed : (eatDecimalDigits (t ++ X)).rest = X := by rw [eatDecimalDigits_exact t X ht hX]
  simp only [number]
  by_cases h0 : c = '0'
  · subst h0
    simp only [beq_self_eq_true, if_true]
    cases t with
    | nil =>
      simp only [List.nil_append, hb, ho, hx, Bool.false_eq_true, if_false]
      have hdu : (isDecDigit (first X) || first X == '_') = false := by
        have := headSat_false_first (p := isDigitU) hX (by decide)
        simpa [isDigitU] using this
      simp only [hdu, Bool.false_eq_true, if_false]
      by_cases hdot : (first X == '.' || first X == 'e' || first X == 'E') = true
      · simp [hdot]
      · have hdot' : (first X == '.' || first X == 'e' || first X == 'E') = false := by simpa using hdot
        simp only [hdot', Bool.false_eq_true, if_false]
        simp only [Bool.or_eq_false_iff] at hdot'
        rw [numberTail_int _ _ hdot'.1.1 hdot'.1.2 hdot'.2]
        simp
    | cons d t' =>
      simp only [List.all_cons, Bool.and_eq_true] at ht
      have hd : (isDecDigit d || d == '_') = true := ht.1
      have hnb : (d == 'b') = false ∧ (d == 'o') = false ∧ (d == 'x') = false := by
        simp only [Bool.or_eq_true, beq_iff_eq] at hd
        rcases hd with hd | hd
        · have := digit_facts d (isDecDigit_mem hd)
          exact ⟨this.2.2.2.2.2.1, this.2.2.2.2.2.2.1, this.2.2.2.2.2.2.2.1⟩
        · subst hd; decide
      simp only [List.cons_append, first_cons, hnb.1, hnb.2.1, hnb.2.2, hd, Bool.false_eq_true,
        if_false, if_true]
      rw [← List.cons_append, hed]
      simp
  · have h0' : (c == '0') = false := by simpa using h0
    simp only [h0', Bool.false_eq_true, if_false, hed]
    simp


/-! ### exponents and floats -/

theorem digitRun_all {p : Char → Bool} (hp : ∀ c, p c = true → isDecDigit c = true)
    {ds : List Char} (h : digitRun p ds = true) :
    ds.all isDigitU = true ∧ ds.any isDecDigit = true ∧ headSat isDecDigit ds = true ∧ ds ≠ [] := by
  simp only [digitRun, Bool.and_eq_true] at h
  have h1 : headSat isDecDigit ds = true := by
    cases ds with
    | nil => simp [headSat] at h
    | cons c cs => exact hp c h.1.1
  exact ⟨all_digitU_of_all hp h.1.2, any_of_headSat (fun _ h => h) h1, h1, ne_nil_of_headSat h1⟩

theorem digitU_nul : isDigitU '\x00' = false := by decide

/-- the text of an optional exponent -/
def exText : Option Exponent → List Char
  | some e => e.text
  | none => []

theorem eatFloatExponent_exact (prev : Char) (sign : Option Char) (ds rest : List Char)
    (hs : sign.all (fun c => c == '+' || c == '-') = true) (hd : digitRun isDecDigit ds = true)
    (hr : headSat isDigitU rest = false) :
    (eatFloatExponent prev (sign.toList ++ (ds ++ rest))).val = true ∧
    (eatFloatExponent prev (sign.toList ++ (ds ++ rest))).rest = rest := by
  obtain ⟨hall, hany, hhead, hne⟩ := digitRun_all (fun _ h => h) hd
  have hfd : isDecDigit (first (ds ++ rest)) = true := by
    rw [first_append rest hne]; exact first_of_headSat hhead
  cases sign with
  | none =>
    have hm := digit_facts _ (isDecDigit_mem hfd)
    simp only [Option.toList_none, List.nil_append, eatFloatExponent, hm.2.2.2.2.2.2.2.2.2.2.2.1,
      hm.2.2.2.2.2.2.2.2.2.2.2.2.1, Bool.or_self, Bool.false_eq_true, if_false]
    simp [eatDecimalDigits_exact ds rest hall hr, hany]
  | some c =>
    simp only [Option.all_some, Bool.or_eq_true, beq_iff_eq] at hs
    have hc : (c == '-' || c == '+') = true := by
      rcases hs with rfl | rfl <;> decide
    simp only [Option.toList_some, List.cons_append, List.nil_append, eatFloatExponent, first_cons,
      hc, if_true, bump_cons]
    simp [eatDecimalDigits_exact ds rest hall hr, hany]

theorem optExponent_exact (hu : AsciiUC uc) (ex : Option Exponent)
    (hwf : (match ex with | some e => e.WF | none => true) = true) (rest : List Char)
    (hr : headSat isDigitU rest = false) (hs : Lexeme.suffixFree uc rest = true) :
    (optExponent (exText ex ++ rest)).val = false ∧ (optExponent (exText ex ++ rest)).rest = rest := by
  cases ex with
  | none =>
    have h1 := suffixFree_ne hu hs (c := 'e') (by simp)
    have h2 := suffixFree_ne hu hs (c := 'E') (by simp)
    simp [exText, optExponent, h1, h2]
  | some e =>
    simp only [Exponent.WF, Bool.and_eq_true] at hwf
    have hm : (e.marker == 'e' || e.marker == 'E') = true := hwf.1.1
    have := eatFloatExponent_exact e.marker e.sign e.digits rest hwf.1.2 hwf.2 hr
    simp only [exText, Exponent.text, List.cons_append, optExponent, first_cons, hm, if_true,
      bump_cons]
    simp [this.1, this.2]

theorem exText_head (ex : Option Exponent)
    (hwf : (match ex with | some e => e.WF | none => true) = true) (rest : List Char)
    (hr : headSat isDigitU rest = false) : headSat isDigitU (exText ex ++ rest) = false := by
  cases ex with
  | none => exact hr
  | some e =>
    simp only [Exponent.WF, Bool.and_eq_true, Bool.or_eq_true, beq_iff_eq] at hwf
    simp only [exText, Exponent.text, List.cons_append, headSat]
    rcases hwf.1.1 with h | h <;> (rw [h]; decide)

/-- the text of the optional `.fraction` -/
def fracText : Option (List Char) → List Char
  | some f => '.' :: f
  | none => []

/-- `numberTail` on `[.frac][exp] ++ rest` of a well-formed float -/
theorem numberTail_float (hu : AsciiUC uc) (b : Base) (fp : Option (List Char))
    (ex : Option Exponent) (rest : List Char)
    (hfp : (match fp with | some f => f.isEmpty || digitRun isDecDigit f | none => true) = true)
    (hex : (match ex with | some e => e.WF | none => true) = true)
    (hsome : (fp.isSome || ex.isSome) = true)
    (hdotexp : (!(fp == some [] && ex.isSome)) = true)
    (hr : headSat isDigitU rest = false) (hs : Lexeme.suffixFree uc rest = true) :
    (numberTail b (fracText fp ++ exText ex ++ rest)).val = .float b false ∧
    (numberTail b (fracText fp ++ exText ex ++ rest)).rest = rest := by
  cases fp with
  | some f =>
    simp only [fracText, List.cons_append, numberTail, first_cons, beq_self_eq_true, if_true,
      bump_cons]
    cases f with
    | nil =>
      have hexn : ex = none := by
        cases ex with
        | none => rfl
        | some e => simp at hdotexp
      subst hexn
      have hnd : isDecDigit (first rest) = false := by
        have := headSat_false_first (p := isDigitU) hr digitU_nul
        simp only [isDigitU, Bool.or_eq_false_iff] at this
        exact this.1
      simp [exText, hnd]
    | cons d f' =>
      have hrun : digitRun isDecDigit (d :: f') = true := by simpa using hfp
      obtain ⟨hall, hany, hhead, hne⟩ := digitRun_all (fun _ h => h) hrun
      have hd : isDecDigit d = true := hhead
      have hoe := optExponent_exact hu ex hex rest hr hs
      have hed := eatDecimalDigits_exact (d :: f') (exText ex ++ rest) hall (exText_head ex hex rest hr)
      simp only [List.cons_append, first_cons, hd, if_true]
      rw [List.append_assoc, ← List.cons_append, hed]
      simp [hoe.1, hoe.2]
  | none =>
    cases ex with
    | none => simp at hsome
    | some e =>
      simp only [Exponent.WF, Bool.and_eq_true] at hex
      have hm : (e.marker == 'e' || e.marker == 'E') = true := hex.1.1
      have hnd : (e.marker == '.') = false := by
        simp only [Bool.or_eq_true, beq_iff_eq] at hm
        rcases hm with h | h <;> (rw [h]; decide)
      have := eatFloatExponent_exact e.marker e.sign e.digits rest hex.1.2 hex.2 hr
      simp only [fracText, exText, Exponent.text, List.nil_append, List.cons_append, numberTail,
        first_cons, hnd, Bool.false_eq_true, if_false, hm, if_true, bump_cons]
      simp [this.1, this.2]


/-! ### strings -/

theorem hasConsec_cons_cons (a b : Char) (l : List Char) :
    hasConsecUnderscores (a :: b :: l) = ((a == '_' && b == '_') || hasConsecUnderscores (b :: l)) := by
  simp [hasConsecUnderscores]

theorem hasConsec_single (a : Char) : hasConsecUnderscores [a] = false := by
  simp [hasConsecUnderscores]

/-- the string loop on a body without quote, backslash or newline, followed by the closing quote -/
theorem quotedStringLoop_exact (q : Char) (body rest : List Char)
    (hb : body.all (fun c => c != q && c != '\\' && c != '\n') = true) (st : StrState)
    (hn : st.countNewlines = 0) :
    quotedStringLoop q st (body ++ q :: rest) =
      ⟨(true, st.onlyOnesAndZeros && body.all isBitChar,
        st.consecutiveUnderscores || hasConsecUnderscores (st.prevChar :: body)), rest, true⟩ := by
  induction body generalizing st with
  | nil => rw [List.nil_append, quotedStringLoop.eq_def]; simp [hn, hasConsec_single]
  | cons c cs ih =>
    simp only [List.all_cons, Bool.and_eq_true, bne_iff_ne, ne_eq] at hb
    obtain ⟨⟨⟨hq, hbs⟩, hnl⟩, hrest⟩ := hb
    have hq' : (c == q) = false := by simpa using hq
    have hbs' : (c == '\\') = false := by simpa using hbs
    have hnl' : (c == '\n') = false := by simpa using hnl
    rw [List.cons_append, quotedStringLoop.eq_def]
    simp only [hq', hbs', hnl', Bool.false_and, Bool.false_eq_true, if_false]
    rw [hasConsec_cons_cons]
    by_cases hu : c = '_'
    · subst hu
      simp only [beq_self_eq_true, if_true]
      rw [ih hrest]
      · simp only [isBitChar, List.all_cons]
        cases st.prevChar == '_' <;> simp
      · exact hn
    · have hu' : (c == '_') = false := by simpa using hu
      simp only [hu', Bool.false_eq_true, if_false]
      by_cases h01 : (c == '0' || c == '1') = true
      · simp only [h01, if_true]
        rw [ih hrest]
        · simp [isBitChar, h01, hu']
        · exact hn
      · have h01' : (c == '0' || c == '1') = false := by simpa using h01
        simp only [h01', Bool.false_eq_true, if_false]
        rw [ih hrest]
        · simp [isBitChar, h01', hu']
        · exact hn

/-! ### block comments -/

theorem blockCommentLoop_exact (rest : List Char) (d : Nat) (body : List Char)
    (h : blockCloses d body = true) (ok : Bool) :
    (blockCommentLoop (d + 1) ok (body ++ rest)).val = 0 ∧
    (blockCommentLoop (d + 1) ok (body ++ rest)).rest = rest := by
  fun_induction blockCloses d body generalizing ok
  case case1 => simp at h
  case case2 => simp at h
  case case3 d c _ ds hc ih =>
    rw [List.cons_append, blockCommentLoop.eq_def]
    simp only [List.cons_append, first_cons] at hc ⊢
    simp only [hc, if_true]
    exact ih h ok
  case case4 => simp at h
  case case5 d c _ ds hd hc1 hc2 =>
    have hd0 : d = 0 := by simpa using hd
    subst hd0
    have hds : ds = [] := by simpa using h
    subst hds
    rw [List.cons_append, blockCommentLoop.eq_def]
    simp only [List.cons_append, first_cons] at hc1 hc2 ⊢
    simp [hc1, hc2]
  case case6 d c _ ds hd hc1 hc2 ih =>
    have hd0 : d ≠ 0 := by simpa using hd
    obtain ⟨e, rfl⟩ : ∃ e, d = e + 1 := ⟨d - 1, by omega⟩
    rw [List.cons_append, blockCommentLoop.eq_def]
    simp only [List.cons_append, first_cons] at hc1 hc2 ⊢
    simp only [hc1, hc2, if_true, Bool.false_eq_true, if_false]
    simp only [Nat.add_sub_cancel] at ih h ⊢
    simp only [show (e + 1 == 0) = false by simp, Bool.false_eq_true, if_false]
    exact ih h _
  case case7 d c cs hc1 hc2 ih =>
    cases cs with
    | nil => simp [blockCloses] at h
    | cons c' cs' =>
      rw [List.cons_append, blockCommentLoop.eq_def]
      simp only [List.cons_append, first_cons] at hc1 hc2 ⊢
      simp only [hc1, hc2, Bool.false_eq_true, if_false]
      exact ih h ok

end Oq3.Lemmas.LexLocal
