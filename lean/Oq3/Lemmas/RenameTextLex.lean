/-
C17 (renaming through lexer and parser) — the lexer / bridge half.

Two layouts `items₁`, `items₂ : List (Lexeme × Sep)` (C15, `Props/C17Lex.lean`) are related by the
renaming `ρ` (`renItems ρ items₁ items₂`, a Boolean check) when they have the same length and,
position by position, the same separator, the same lexeme kind and the text `phi ρ kind text`:
the text of an `IDENT` lexeme is `ρ` of the old text, every other lexeme has the same text.

* `renItems_kinds`, `renItems_joint`: same kinds, same `jointOf` — so `to_input` of the two texts
  is the same parser input (`Props/C17RenameText.lean: rename_same_input`);
* `renItems_raw`: the raw token table of the second text is the raw token table of the first
  with `rnTok ρ` applied to every entry (kinds kept, `IDENT` texts renamed, trivia untouched);
* `parse_fits`: what a parser run on the input of a lexed text gives the builder — a rooted step
  list that fits the token table (`fitsGo`) and satisfies `tokIdI` (the new parser invariant of
  `Lemmas/RenameTextParse.lean`).
-/
import Oq3.Props.C17Lex
import Oq3.Lemmas.RenameTextParse
import Oq3.Lemmas.RenameTextAcc

namespace Oq3.RenameText
open Oq3.Gen Oq3.Lexer Oq3.Lexed Oq3.Ref Oq3.Parser Oq3.Grammar Oq3.Builder Oq3.Bridge
open Oq3.Lemmas.Lexer Oq3.Lemmas.Lexed Oq3.Lemmas.LexLocal Oq3.Props.C15 Oq3.BuilderLayout
open Oq3.C17Lex Oq3.C17Rename

variable {uc : UC}

/-- a raw token after the renaming: same kind, `IDENT` text renamed -/
def rnTok (ρ : Ren) (x : RawTok) : RawTok := ⟨x.kind, phi ρ x.kind x.text⟩

/-- the two layouts are related by the renaming (see the file header) -/
def renItems (ρ : Ren) : List (Lexeme × Sep) → List (Lexeme × Sep) → Bool
  | [], [] => true
  | (l, s) :: r, (l', s') :: r' =>
    l'.kind == l.kind && l'.text == phi ρ l.kind l.text && s' == s && renItems ρ r r'
  | _, _ => false

variable {ρ : Ren}

theorem rnTok_trivia (x : RawTok) (h : x.kind.isTrivia = true) : rnTok ρ x = x := by
  have : x.kind ≠ .IDENT := by intro e; rw [e] at h; exact absurd h (by decide)
  unfold rnTok; rw [phi_ne ρ _ this]

theorem sepRaw_rn (s : Sep) : (sepRaw s).map (rnTok ρ) = sepRaw s := by
  have h := sepRaw_trivia s
  generalize sepRaw s = l at h
  induction l with
  | nil => rfl
  | cons x xs ih =>
    rw [List.map_cons, rnTok_trivia x (h x (by simp)), ih (fun t ht => h t (by simp [ht]))]

theorem renItems_cons {l l' : Lexeme} {s s' : Sep} {r r' : List (Lexeme × Sep)}
    (h : renItems ρ ((l, s) :: r) ((l', s') :: r') = true) :
    l'.kind = l.kind ∧ l'.text = phi ρ l.kind l.text ∧ s' = s ∧ renItems ρ r r' = true := by
  simp only [renItems, Bool.and_eq_true, beq_iff_eq] at h
  exact ⟨h.1.1.1, h.1.1.2, h.1.2, h.2⟩

theorem renItems_kinds : ∀ {items₁ items₂ : List (Lexeme × Sep)}, renItems ρ items₁ items₂ = true →
    items₂.map (·.1.kind) = items₁.map (·.1.kind)
  | [], [], _ => rfl
  | [], _ :: _, h => by simp [renItems] at h
  | _ :: _, [], h => by simp [renItems] at h
  | (l, s) :: r, (l', s') :: r', h => by
    obtain ⟨hk, _, _, hr⟩ := renItems_cons h
    simp only [List.map_cons, hk, renItems_kinds hr]

theorem renItems_isEmpty : ∀ {items₁ items₂ : List (Lexeme × Sep)}, renItems ρ items₁ items₂ = true →
    items₂.isEmpty = items₁.isEmpty
  | [], [], _ => rfl
  | [], _ :: _, h => by simp [renItems] at h
  | _ :: _, [], h => by simp [renItems] at h
  | _ :: _, _ :: _, _ => rfl

theorem floatJoint_rn {l l' : Lexeme} (hk : l'.kind = l.kind) (ht : l'.text = phi ρ l.kind l.text) :
    floatJoint l' = floatJoint l := by
  unfold floatJoint
  rw [hk, ht]
  by_cases hf : (l.kind == SyntaxKind.FLOAT_NUMBER) = true
  · have : l.kind ≠ .IDENT := by rw [eq_of_beq hf]; decide
    rw [phi_ne ρ _ this]
  · simp [hf]

theorem renItems_joint : ∀ {items₁ items₂ : List (Lexeme × Sep)}, renItems ρ items₁ items₂ = true →
    jointOf items₂ = jointOf items₁
  | [], [], _ => rfl
  | [], _ :: _, h => by simp [renItems] at h
  | _ :: _, [], h => by simp [renItems] at h
  | (l, s) :: r, (l', s') :: r', h => by
    obtain ⟨hk, ht, hs, hr⟩ := renItems_cons h
    simp only [jointOf, hs, renItems_isEmpty hr, floatJoint_rn hk ht, renItems_joint hr]

theorem renItems_raw : ∀ {items₁ items₂ : List (Lexeme × Sep)}, renItems ρ items₁ items₂ = true →
    itemsRaw items₂ = (itemsRaw items₁).map (rnTok ρ)
  | [], [], _ => rfl
  | [], _ :: _, h => by simp [renItems] at h
  | _ :: _, [], h => by simp [renItems] at h
  | (l, s) :: r, (l', s') :: r', h => by
    obtain ⟨hk, ht, hs, hr⟩ := renItems_cons h
    simp only [itemsRaw, List.map_cons, List.map_append, sepRaw_rn, hs, renItems_raw hr, rnTok, hk, ht]

/-- **the raw token table of the renamed text** -/
theorem rename_rawToks (hu : AsciiUC uc) (lead : Sep) (items₁ items₂ : List (Lexeme × Sep))
    (hren : renItems ρ items₁ items₂ = true)
    (h1 : sepOK lead (itemsText items₁) = true) (h1' : itemsOK uc items₁ = true)
    (h2 : sepOK lead (itemsText items₂) = true) (h2' : itemsOK uc items₂ = true) :
    rawToksOf (lexedOf uc (sepText lead ++ itemsText items₂)) =
      (rawToksOf (lexedOf uc (sepText lead ++ itemsText items₁))).map (rnTok ρ) := by
  rw [layout_rawToks hu lead items₁ h1 h1', layout_rawToks hu lead items₂ h2 h2', List.map_append,
    sepRaw_rn, renItems_raw hren]

/-- what a parser run on the input of a lexed text gives the builder: a rooted step list that fits
the token table and satisfies the token-identity invariant -/
theorem parse_fits (uc : UC) (s : List Char) (inp : Input) (fuel npl : Nat) (events : Array Ev)
    (pos : Nat) (steps : List Step) (hi : (lexedOf uc s).toInput = some inp)
    (hp : parseSourceFile fuel inp.kind.toArray inp.joint.toArray npl = .ok (events, pos))
    (hs : process events.toList = some steps) :
    rooted steps = true ∧ fitsGo (rawToksOf (lexedOf uc s)) (itemsS steps) = true ∧
      tokIdI (ntKinds (rawToksOf (lexedOf uc s))) 0 (itemsS steps) = true := by
  have hinp := toInput_exact uc s
  rw [hi] at hinp
  simp only [Option.some.injEq] at hinp
  subst hinp
  have hpok := Oq3.Props.C01.parse_ok fuel _ _ npl events pos hp
  have hne : ∀ i, (hi : i < (ntKinds (rawToksOf (lexedOf uc s))).toArray.size) →
      (ntKinds (rawToksOf (lexedOf uc s))).toArray[i] ≠ SyntaxKind.EOF := by
    intro i hi
    have hmem : (ntKinds (rawToksOf (lexedOf uc s))).toArray[i] ∈ ntKinds (rawToksOf (lexedOf uc s)) := by
      simp
    simp only [ntKinds, List.mem_map, List.mem_filter] at hmem
    obtain ⟨t, ⟨ht, _⟩, hkt⟩ := hmem
    intro he
    exact rawToks_kind_ne_eof uc s t ht (hkt.trans he)
  obtain ⟨_, hsum⟩ := Oq3.Props.C01.parse_consumes_all fuel _ _ npl events pos hp hne
  have hrooted := process_rooted _ _ hpok.rootedE hs
  have hitems := process_items _ _ hs
  have hglue : glueI (jointSpec (rawToksOf (lexedOf uc s))) 0 (itemsE events.toList) = true := by
    rw [← Oq3.Props.C02.glueOK_items]; exact hpok.glue
  have hgk : Oq3.Props.C02.glueK (ntKinds (rawToksOf (lexedOf uc s))) 0 (itemsE events.toList) = true := by
    rw [← Oq3.Props.C02.glueKE_items]
    have := hpok.gluek
    have e : ∀ (K : Array SyntaxKind) (c : Nat) (evs : List Ev),
        Oq3.Props.C02.glueKE K c evs = Oq3.Parser.glueKE K c evs := by
      intro K c evs
      induction evs generalizing c with
      | nil => rfl
      | cons e es ih => cases e <;> simp [Oq3.Props.C02.glueKE, Oq3.Parser.glueKE, ih]
    rw [e]; exact this
  have hadj := Oq3.Props.C02.glueI_adj _ (adjBits (rawToksOf (lexedOf uc s))) _
    (fun i h1 h2 => joint_exact _ i h1 h2) _ 0 hglue hgk
  have hfit : fitsGo (rawToksOf (lexedOf uc s)) (itemsS steps) = true := by
    rw [hitems]
    apply fits_of_adj _ _ hadj
    rw [← Oq3.Props.C02.sumTok_items, hsum]; simp
  refine ⟨hrooted, hfit, ?_⟩
  rw [hitems, ← tokIdE_items]
  exact parse_tokId fuel _ _ npl events pos hp

end Oq3.RenameText
