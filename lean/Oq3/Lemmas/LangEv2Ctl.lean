/-
C04, extended reference language, part 9: blocks, brace-less bodies, control flow (`if` / `else` /
`else if`, `while`, `for` over ranges / sets / expressions, `switch`), bare blocks, `gate` / `def` / `cal`
definitions — relative to the acceptance of the statements and statement lists inside them.
-/
import Oq3.Lemmas.LangEv2Flat
set_option linter.unusedSimpArgs false
set_option linter.unusedVariables false

namespace Oq3.LangEv2
open Oq3.Gen Oq3.Parser Oq3.Grammar Oq3.SymExec Oq3.PrattEv Oq3.LangEv
open Oq3.Gen.Ops (Assoc)

/-! ### what a statement needs of the token after it -/

mutual
/-- the statement ends (through brace-less bodies) with an assignment: the loop of `expr_bp` looks at the
next token for a binary operator (F09e) -/
def endsAssign : Stmt2 → Bool
  | .assign _ _ => true
  | .ifS _ b => endsAssignB b
  | .ifElse _ _ b => endsAssignB b
  | .whileS _ b => endsAssignB b
  | .forS _ _ _ b => endsAssignB b
  | _ => false
def endsAssignB : Body → Bool
  | .blk _ => false
  | .one s => endsAssign s
end

mutual
/-- the statement ends with an `if` without `else`: a following `else` would be taken by it -/
def endsIf : Stmt2 → Bool
  | .ifS _ _ => true
  | .ifElse _ _ b => endsIfB b
  | .whileS _ b => endsIfB b
  | .forS _ _ _ b => endsIfB b
  | _ => false
def endsIfB : Body → Bool
  | .blk _ => false
  | .one s => endsIf s
end

mutual
/-- the statement ends with a bare block: `stmt` wraps it into an `EXPR_STMT` only if the next token is
not `}` (F09d) -/
def endsBlock : Stmt2 → Bool
  | .block _ => true
  | .ifS _ b => endsBlockB b
  | .ifElse _ _ b => endsBlockB b
  | .whileS _ b => endsBlockB b
  | .forS _ _ _ b => endsBlockB b
  | _ => false
def endsBlockB : Body → Bool
  | .blk _ => false
  | .one s => endsBlock s
end

/-- **the Follow condition of a statement** at the position `q` of the token after it -/
structure FollowS2 (st : Stmt2) (s : P) (q : Nat) : Prop where
  assign : endsAssign st = true → StopsAt s q 1
  noElse : endsIf st = true → s.kindAt q ≠ .ELSE_KW
  noCurly : endsBlock st = true → s.kindAt q ≠ .R_CURLY
  noSemi : endsBlock st = true → s.kindAt q ≠ .SEMICOLON

structure FollowB (b : Body) (s : P) (q : Nat) : Prop where
  assign : endsAssignB b = true → StopsAt s q 1
  noElse : endsIfB b = true → s.kindAt q ≠ .ELSE_KW
  noCurly : endsBlockB b = true → s.kindAt q ≠ .R_CURLY
  noSemi : endsBlockB b = true → s.kindAt q ≠ .SEMICOLON

theorem FollowB.one {st : Stmt2} {s : P} {q : Nat} (h : FollowB (.one st) s q) : FollowS2 st s q := ⟨h.assign, h.noElse, h.noCurly, h.noSemi⟩

theorem FollowS2_kinds (st : Stmt2) (s s' : P) (hk : s'.kinds = s.kinds) (hj : s'.joint = s.joint) (q : Nat) :
    FollowS2 st s' q ↔ FollowS2 st s q := by
  constructor
  · rintro ⟨a, b, c, d⟩
    exact ⟨fun h => (StopsAt_kinds s s' hk hj _ _).1 (a h), fun h => by simpa only [P.kindAt, hk] using b h,
      fun h => by simpa only [P.kindAt, hk] using c h, fun h => by simpa only [P.kindAt, hk] using d h⟩
  · rintro ⟨a, b, c, d⟩
    exact ⟨fun h => (StopsAt_kinds s s' hk hj _ _).2 (a h), fun h => by simpa only [P.kindAt, hk] using b h,
      fun h => by simpa only [P.kindAt, hk] using c h, fun h => by simpa only [P.kindAt, hk] using d h⟩

theorem FollowB_kinds (b : Body) (s s' : P) (hk : s'.kinds = s.kinds) (hj : s'.joint = s.joint) (q : Nat) :
    FollowB b s' q ↔ FollowB b s q := by
  constructor
  · rintro ⟨a, b, c, d⟩
    exact ⟨fun h => (StopsAt_kinds s s' hk hj _ _).1 (a h), fun h => by simpa only [P.kindAt, hk] using b h,
      fun h => by simpa only [P.kindAt, hk] using c h, fun h => by simpa only [P.kindAt, hk] using d h⟩
  · rintro ⟨a, b, c, d⟩
    exact ⟨fun h => (StopsAt_kinds s s' hk hj _ _).2 (a h), fun h => by simpa only [P.kindAt, hk] using b h,
      fun h => by simpa only [P.kindAt, hk] using c h, fun h => by simpa only [P.kindAt, hk] using d h⟩

theorem FollowS2_ov (st : Stmt2) (s : P) (E0 : List Ev) (dp st0 sb lv : Nat) (pr : List Nat) (q : Nat) :
    FollowS2 st (s.ov E0 dp st0 sb lv pr) q ↔ FollowS2 st s q := FollowS2_kinds st s (s.ov E0 dp st0 sb lv pr) rfl rfl q

theorem FollowB_ov (b : Body) (s : P) (E0 : List Ev) (dp st0 sb lv : Nat) (pr : List Nat) (q : Nat) :
    FollowB b (s.ov E0 dp st0 sb lv pr) q ↔ FollowB b s q := FollowB_kinds b s (s.ov E0 dp st0 sb lv pr) rfl rfl q

/-! ### induction hypotheses -/

/-- the statement loop accepts the statement list `ss` inside a block (closed by `}`) -/
def StmtsOK2 (ss : Stmts2) (need : Nat) : Prop :=
  ∀ (F : Nat) (s : P), need ≤ F → RdyL 8 s → Toks s s.pos (toksL2 ss) →
    s.kindAt (s.pos + (toksL2 ss).length) = .R_CURLY →
    Acc (exprBlockStatements F) s (toksL2 ss).length (evsL2 ss)

/-- `stmt` accepts the statement `st` -/
def StmtOK2 (st : Stmt2) (need : Nat) : Prop :=
  ∀ (F : Nat) (s : P), need ≤ F → RdyL 8 s → Toks s s.pos (toksS2 st) →
    FollowS2 st s (s.pos + (toksS2 st).length) →
    Acc (stmt F) s (toksS2 st).length (evsS2 st)

/-- `block_or_statement` accepts the body `b` -/
def BodyOK (b : Body) (need : Nat) : Prop :=
  ∀ (F : Nat) (s : P), need ≤ F → RdyL 8 s → Toks s s.pos (toksB b) →
    FollowB b s (s.pos + (toksB b).length) →
    Acc (blockOrStatement F) s (toksB b).length (evsB b)

/-- `{ ss }` through `block_expr` (the step counter is 0 afterwards: the last action is the bump of `}`) -/
theorem blockExpr_exact (ss : Stmts2) (need F : Nat) (ih : StmtsOK2 ss need) (s : P) (hF : need + 1 ≤ F) (hr : RdyL 1 s)
    (h0 : s.kindAt (s.pos + 0) = .L_CURLY) (htk : Toks s (s.pos + 1) (toksL2 ss))
    (hclose : s.kindAt (s.pos + (1 + (toksL2 ss).length)) = .R_CURLY) :
    ∃ sb, blockExpr F s = .ok (⟨s.events.size + 0, .BLOCK_EXPR⟩,
      s.ov (blockEvs (evsL2 ss)) ((toksL2 ss).length + 2) 0 sb s.live s.protectedPos) := by
  obtain ⟨g, rfl⟩ : ∃ g, F = g + 1 := ⟨F - 1, by omega⟩
  have hpr' : ∀ n, ∀ p ∈ s.protectedPos, p < s.events.size + n := fun n p hp => Nat.lt_add_right n (hr.prot p hp)
  obtain ⟨st', sb', hle, hbody⟩ :=
    (ih g (s.ov [.start .TOMBSTONE none, .token .L_CURLY 1] 1 0 1 (s.live + 1) s.protectedPos) (by omega)
      (RdyL_ov 8 s _ _ _ _ _ _ hr.hook (by have := hr.lim; omega) (hpr' _) hr.lim)
      ((Toks_ov s _ _ _ _ _ _ _ _).2 htk)
      (kindAt_pos hclose (by show s.pos + 1 + _ = _; omega))).at_ov
  have hnp := hr.hook
  have hsteps := hr.steps
  have hlim := hr.lim
  have hst : s.steps ≤ s.stepLimit := by omega
  have hpr := hr.prot
  refine ⟨?_, of_ov _ _ _ ?_⟩
  rotate_left 1
  sym_eval [filter_base s hpr, contains_base s hpr, h0, hbody, hclose]
  all_goals close_ov3

theorem blockExpr_acc (ss : Stmts2) (need F : Nat) (ih : StmtsOK2 ss need) (s : P) (hF : need + 1 ≤ F) (hr : RdyL 1 s)
    (h0 : s.kindAt (s.pos + 0) = .L_CURLY) (htk : Toks s (s.pos + 1) (toksL2 ss))
    (hclose : s.kindAt (s.pos + (1 + (toksL2 ss).length)) = .R_CURLY) :
    AccV (blockExpr F) ⟨s.events.size + 0, .BLOCK_EXPR⟩ s ((toksL2 ss).length + 2) (blockEvs (evsL2 ss)) := by
  obtain ⟨sb, h⟩ := blockExpr_exact ss need F ih s hF hr h0 htk hclose
  exact ⟨0, sb, Nat.zero_le _, h⟩

/-- `{ ss }` through `block_or_statement` -/
theorem block_acc2 (ss : Stmts2) (need : Nat) (ih : StmtsOK2 ss need) : BodyOK (.blk ss) (need + 2) := by
  intro F s hF hr htk _
  obtain ⟨g, rfl⟩ : ∃ g, F = g + 1 := ⟨F - 1, by omega⟩
  simp only [toksB, Toks, Toks_append, tk, List.length_cons, List.length_append, List.length_nil] at htk ⊢
  obtain ⟨h0, -, htb, hrc, -, -⟩ := htk
  rw [show s.pos = s.pos + 0 from rfl] at h0
  obtain ⟨stb, sbb, hleb, hblk⟩ := (blockExpr_acc ss need g ih (s.ov [] 0 s.steps s.sinceBump s.live s.protectedPos) (by omega)
    (RdyL_ov 1 s _ _ _ _ _ _ hr.hook (by have := hr.steps; omega) (fun p hp => Nat.lt_add_right _ (hr.prot p hp)) hr.lim) h0
    ((Toks_ov s _ _ _ _ _ _ _ _).2 (Toks_pos htb (by show s.pos + 0 + 1 = _; omega)))
    (kindAt_pos hrc (by show s.pos + 0 + _ = _; omega))).at_ov
  simp only [List.nil_append, Nat.zero_add] at hblk
  run_base3 [h0, hblk]

/-- `{ ss }` through `try_block_expr` -/
theorem tryBlock_acc2 (ss : Stmts2) (need F : Nat) (ih : StmtsOK2 ss need) (s : P) (hF : need + 2 ≤ F) (hr : RdyL 8 s)
    (h0 : s.kindAt (s.pos + 0) = .L_CURLY) (htk : Toks s (s.pos + 1) (toksL2 ss))
    (hclose : s.kindAt (s.pos + (1 + (toksL2 ss).length)) = .R_CURLY) :
    Acc (tryBlockExpr F) s ((toksL2 ss).length + 2) (blockEvs (evsL2 ss)) := by
  obtain ⟨g, rfl⟩ : ∃ g, F = g + 1 := ⟨F - 1, by omega⟩
  obtain ⟨stb, sbb, hleb, hblk⟩ := (blockExpr_acc ss need g ih (s.ov [] 0 s.steps s.sinceBump s.live s.protectedPos) (by omega)
    (RdyL_ov 1 s _ _ _ _ _ _ hr.hook (by have := hr.steps; omega) (fun p hp => Nat.lt_add_right _ (hr.prot p hp)) hr.lim) h0
    ((Toks_ov s _ _ _ _ _ _ _ _).2 (Toks_pos htk (by show s.pos + 0 + 1 = _; omega)))
    (kindAt_pos hclose (by show s.pos + 0 + _ = _; omega))).at_ov
  simp only [List.nil_append, Nat.zero_add] at hblk
  run_base3 [h0, hblk]

/-! ### bodies, `if` -/

def firstTokS2 : Stmt2 → SyntaxKind
  | .decl cst ty _ _ => if cst then .CONST_KW else ty.kind
  | .io out _ _ => if out then .OUTPUT_KW else .INPUT_KW
  | .qubit _ => .QUBIT_KW
  | .oldReg c _ => if c then .CREG_KW else .QREG_KW
  | .letS _ => .LET_KW
  | .alias _ => .LET_KW
  | .assign _ _ => .IDENT
  | .exprS x => firstX x
  | .gate _ _ => .IDENT
  | .modGate m _ _ _ => firstMod m
  | .gphase _ => .GPHASE_KW
  | .modGphase m _ _ => firstMod m
  | .reset _ => .RESET_KW
  | .barrier _ => .BARRIER_KW
  | .delay _ _ => .DELAY_KW
  | .brk => .BREAK_KW
  | .cont => .CONTINUE_KW
  | .endS => .END_KW
  | .pragma => .PRAGMA
  | .annot => .ANNOTATION
  | .incl => .INCLUDE_KW
  | .version => .O_P_E_N_Q_A_S_M_KW
  | .externS _ _ => .EXTERN_KW
  | .ifS _ _ => .IF_KW
  | .ifElse _ _ _ => .IF_KW
  | .whileS _ _ => .WHILE_KW
  | .forS _ _ _ _ => .FOR_KW
  | .switchS _ _ => .SWITCH_KW
  | .block _ => .L_CURLY
  | .gateDef _ _ _ => .GATE_KW
  | .defS _ _ _ => .DEF_KW
  | .cal _ => .CAL_KW
  | .ret _ => .RETURN_KW

theorem toksS2_first (st : Stmt2) : ∃ j ts, toksS2 st = (firstTokS2 st, j) :: ts := by
  cases st with
  | decl cst ty w init =>
    obtain ⟨ts, h⟩ := tyToksX_head ty w
    cases cst <;> cases init <;> simp only [toksS2, firstTokS2, h, tk, Bool.false_eq_true, if_false, if_true, List.nil_append,
      List.cons_append] <;> exact ⟨_, _, rfl⟩
  | io out ty w => exact ⟨_, _, rfl⟩
  | qubit w => cases w <;> exact ⟨_, _, rfl⟩
  | oldReg c items => exact ⟨_, _, rfl⟩
  | assign ixs rhs =>
    obtain ⟨ts, h⟩ := toksP_lhsP_first ixs
    exact ⟨false, ts ++ (tk .EQ :: (toksX rhs ++ [tk .SEMICOLON])), by simp [toksS2, firstTokS2, h, tk]⟩
  | exprS x =>
    obtain ⟨j, ts, h⟩ := toksX_first x
    exact ⟨j, ts ++ [tk .SEMICOLON], by simp [toksS2, firstTokS2, h]⟩
  | modGate m ms args qs =>
    obtain ⟨ts, h⟩ := toksMod_first m
    exact ⟨false, _, by simp only [toksS2, toksMods, h, firstTokS2, tk, List.cons_append]; rfl⟩
  | modGphase m ms x =>
    obtain ⟨ts, h⟩ := toksMod_first m
    exact ⟨false, _, by simp only [toksS2, toksMods, h, firstTokS2, tk, List.cons_append]; rfl⟩
  | gateDef ps nq body => cases ps <;> exact ⟨_, _, rfl⟩
  | ret e => cases e <;> exact ⟨_, _, rfl⟩
  | _ => exact ⟨_, _, rfl⟩

/-- a single statement through `block_or_statement` -/
theorem one_acc (st : Stmt2) (need : Nat) (ih : StmtOK2 st need) (hf : firstTokS2 st ≠ .L_CURLY) : BodyOK (.one st) (need + 1) := by
  intro F s hF hr htk hfol
  obtain ⟨g, rfl⟩ : ∃ g, F = g + 1 := ⟨F - 1, by omega⟩
  simp only [toksB] at htk hfol ⊢
  obtain ⟨j, ts, hts⟩ := toksS2_first st
  have h0 : s.kindAt (s.pos + 0) = firstTokS2 st := by rw [hts] at htk; exact htk.1
  have hne := beq_false_of_ne (h0 ▸ hf)
  obtain ⟨st', sb', hle, hs⟩ := ih g s (by omega) hr htk hfol.one
  refine ⟨st', sb', hle, of_ov _ _ _ ?_⟩
  have hs' : stmt g (s.ov [] 0 s.steps s.sinceBump s.live s.protectedPos) =
      .ok ((), s.ov (evsS2 st) (toksS2 st).length st' sb' s.live s.protectedPos) := by rw [P.ov_base]; exact hs
  show _ = _
  sym_eval [hne, hs']
  rfl

/-- `if_stmt` with the marker the caller has just started accepts the `if` statement `st` -/
def IfAcc (st : Stmt2) (need : Nat) : Prop :=
  ∀ (F : Nat) (s : P), need ≤ F → RdyL 8 s → Toks s s.pos (toksS2 st) → FollowS2 st s (s.pos + (toksS2 st).length) →
    ∀ (st0 sb0 lv : Nat), ∃ sb',
      ifStmt F { pos := s.events.size + 0, isFp := false } (s.ov [.start .TOMBSTONE none] 0 st0 sb0 (lv + 1) s.protectedPos) =
        .ok ((), s.ov (evsS2 st) (toksS2 st).length 0 sb' lv s.protectedPos)

def firstTokB : Body → SyntaxKind
  | .blk _ => .L_CURLY
  | .one s => firstTokS2 s

theorem toksB_first (b : Body) : ∃ j ts, toksB b = (firstTokB b, j) :: ts := by
  cases b with
  | blk ss => exact ⟨_, _, rfl⟩
  | one s => exact toksS2_first s

theorem parenToks_len (c : X) : (parenToks c).length = (toksX c).length + 2 := by
  simp only [parenToks, List.length_cons, List.length_append, List.length_nil]

/-- `if (c) body` not followed by `else` -/
theorem ifS_acc (c : X) (thn : Body) (need : Nat) (ih : BodyOK thn need) (hc : CanonX 1 c) : IfAcc (.ifS c thn) (max (fuelX c + 1) need + 1) := by
  intro F s hF hr htk hfol st0 sb0 lv
  obtain ⟨g, rfl⟩ : ∃ g, F = g + 1 := ⟨F - 1, by omega⟩
  simp only [toksS2, parenToks, Toks, Toks_append, tk, List.length_cons, List.length_append, List.length_nil] at htk hfol ⊢
  obtain ⟨h0, -, ⟨h1, -, htc, hrp, -, -⟩, htb⟩ := htk
  rw [show s.pos = s.pos + 0 from rfl] at h0
  have hnp := hr.hook
  have hpr := hr.prot
  have hlim := hr.lim
  have hpr' : ∀ n, ∀ p ∈ s.protectedPos, p < s.events.size + n := fun n p hp => Nat.lt_add_right n (hr.prot p hp)
  obtain ⟨g', rfl⟩ : ∃ g', g = g' + 1 := ⟨g - 1, by have := fuelX_pos c; omega⟩
  have hcond : ∀ st sb lv E0, st + 5 ≤ s.stepLimit → Oq3.Grammar.expr (g' + 1) (s.ov E0 2 st sb lv s.protectedPos) = _ :=
    fun st sb lv E0 h1 => (exprX_ok c).expr g' s E0 2 st sb lv s.protectedPos hr.hook h1 hr.lim (hpr' _)
      (Toks_pos htc (by omega)) hc (by rw [kindAt_pos hrp (by omega)]; rfl) (by omega)
  have hrp' : s.kindAt (s.pos + (2 + (toksX c).length)) = .R_PAREN := kindAt_pos hrp (by omega)
  obtain ⟨st', sb', hle, hblk⟩ :=
    (ih (g' + 1)
      (s.ov ([.start .TOMBSTONE none, .token .IF_KW 1, .token .L_PAREN 1] ++ evsX c ++ [.token .R_PAREN 1])
        (2 + (toksX c).length + 1) 0 1 (lv + 1) s.protectedPos) (by omega)
      (RdyL_ov 8 s _ _ _ _ _ _ hr.hook (by omega) (hpr' _) hr.lim)
      ((Toks_ov s _ _ _ _ _ _ _ _).2 (Toks_pos htb (by show s.pos + _ = _; omega)))
      ((FollowB_ov _ s _ _ _ _ _ _ _).2 (by
        show FollowB thn s (s.pos + (2 + (toksX c).length + 1) + (toksB thn).length)
        rw [show s.pos + (2 + (toksX c).length + 1) + (toksB thn).length = s.pos + ((toksX c).length + (0 + 1) + 1 + (toksB thn).length + 1) by omega]
        exact ⟨hfol.assign, fun _ => hfol.noElse rfl, hfol.noCurly, hfol.noSemi⟩))).at_ov
  have hfol' : s.kindAt (s.pos + (2 + (toksX c).length + 1 + (toksB thn).length)) ≠ .ELSE_KW := by
    intro h; exact hfol.noElse rfl (kindAt_pos h (by omega))
  simp only [List.cons_append, List.nil_append] at hblk
  obtain rfl : st' = 0 := by omega
  refine ⟨?_, ?_⟩
  rotate_left 1
  show _ = _
  sym_eval [filter_base s hpr, contains_base s hpr, h0, h1, hcond, hrp', hblk, hfol']
  close_ov3


/-- the `then` branch of an `if` with `else`: the token after it is `else` -/
theorem followB_else (thn : Body) (s : P) (q : Nat) (hq : s.kindAt q = .ELSE_KW) (hif : endsIfB thn = false) : FollowB thn s q := by
  refine ⟨fun _ => ?_, fun h => (by rw [hif] at h; cases h), fun _ => (by rw [hq]; decide), fun _ => (by rw [hq]; decide)⟩
  unfold StopsAt
  rw [opF_nonop _ _ _ (by rw [show s.kinds.getD q .EOF = _ from hq]; decide)]
  decide

/-- `if (c) thn else els` where `els` is a block or a statement that is not an `if` -/
theorem ifElse_acc (c : X) (thn els : Body) (need1 need2 : Nat) (ih1 : BodyOK thn need1) (ih2 : BodyOK els need2) (hc : CanonX 1 c)
    (hif : endsIfB thn = false) (hels : firstTokB els ≠ .IF_KW) :
    IfAcc (.ifElse c thn els) (max (fuelX c + 1) (max need1 need2) + 1) := by
  intro F s hF hr htk hfol st0 sb0 lv
  obtain ⟨g, rfl⟩ : ∃ g, F = g + 1 := ⟨F - 1, by omega⟩
  simp only [toksS2, parenToks, Toks, Toks_append, tk, List.length_cons, List.length_append, List.length_nil] at htk hfol ⊢
  obtain ⟨h0, -, ⟨h1, -, htc, hrp, -, -⟩, htb, hel, -, hte⟩ := htk
  rw [show s.pos = s.pos + 0 from rfl] at h0
  have hnp := hr.hook
  have hpr := hr.prot
  have hlim := hr.lim
  have hpr' : ∀ n, ∀ p ∈ s.protectedPos, p < s.events.size + n := fun n p hp => Nat.lt_add_right n (hr.prot p hp)
  obtain ⟨g', rfl⟩ : ∃ g', g = g' + 1 := ⟨g - 1, by have := fuelX_pos c; omega⟩
  have hcond : ∀ st sb lv E0, st + 5 ≤ s.stepLimit → Oq3.Grammar.expr (g' + 1) (s.ov E0 2 st sb lv s.protectedPos) = _ :=
    fun st sb lv E0 h1 => (exprX_ok c).expr g' s E0 2 st sb lv s.protectedPos hr.hook h1 hr.lim (hpr' _)
      (Toks_pos htc (by omega)) hc (by rw [kindAt_pos hrp (by omega)]; rfl) (by omega)
  have hrp' : s.kindAt (s.pos + (2 + (toksX c).length)) = .R_PAREN := kindAt_pos hrp (by omega)
  have hel' : s.kindAt (s.pos + (2 + (toksX c).length + 1 + (toksB thn).length)) = .ELSE_KW := kindAt_pos hel (by omega)
  obtain ⟨st', sb', hle, hblk⟩ :=
    (ih1 (g' + 1)
      (s.ov ([.start .TOMBSTONE none, .token .IF_KW 1, .token .L_PAREN 1] ++ evsX c ++ [.token .R_PAREN 1])
        (2 + (toksX c).length + 1) 0 1 (lv + 1) s.protectedPos) (by omega)
      (RdyL_ov 8 s _ _ _ _ _ _ hr.hook (by omega) (hpr' _) hr.lim)
      ((Toks_ov s _ _ _ _ _ _ _ _).2 (Toks_pos htb (by show s.pos + _ = _; omega)))
      ((FollowB_ov _ s _ _ _ _ _ _ _).2 (followB_else thn s _ (kindAt_pos hel' (by show s.pos + _ + _ = _; omega)) hif))).at_ov
  simp only [List.cons_append, List.nil_append] at hblk
  obtain ⟨st2, sb2, hle2, hblk2⟩ :=
    (ih2 (g' + 1)
      (s.ov (.start .TOMBSTONE none :: .token .IF_KW 1 :: .token .L_PAREN 1 :: (evsX c ++ [.token .R_PAREN 1] ++ evsB thn) ++
          [.token .ELSE_KW 1])
        (2 + (toksX c).length + 1 + (toksB thn).length + 1) 0 1 (lv + 1) s.protectedPos) (by omega)
      (RdyL_ov 8 s _ _ _ _ _ _ hr.hook (by omega) (hpr' _) hr.lim)
      ((Toks_ov s _ _ _ _ _ _ _ _).2 (Toks_pos hte (by show s.pos + _ = _; omega)))
      ((FollowB_ov _ s _ _ _ _ _ _ _).2 (by
        show FollowB els s (s.pos + (2 + (toksX c).length + 1 + (toksB thn).length + 1) + (toksB els).length)
        rw [show s.pos + (2 + (toksX c).length + 1 + (toksB thn).length + 1) + (toksB els).length =
          s.pos + ((toksX c).length + (0 + 1) + 1 + ((toksB thn).length + ((toksB els).length + 1)) + 1) by omega]
        exact ⟨hfol.assign, hfol.noElse, hfol.noCurly, hfol.noSemi⟩))).at_ov
  simp only [List.cons_append, List.nil_append] at hblk2
  obtain ⟨j, ts, hts⟩ := toksB_first els
  have hfe : s.kindAt (s.pos + (2 + (toksX c).length + 1 + (toksB thn).length + 1)) = firstTokB els := by
    rw [hts] at hte; exact kindAt_pos hte.1 (by omega)
  have hne := beq_false_of_ne (hfe ▸ hels)
  obtain rfl : st2 = 0 := by omega
  refine ⟨?_, ?_⟩
  rotate_left 1
  show _ = _
  sym_eval [filter_base s hpr, contains_base s hpr, h0, h1, hcond, hrp', hblk, hel', hne, hblk2]
  close_ov3


/-- `if (c) thn else s'` where `s'` is an `if` statement (`else if`): the parser calls `if_stmt` directly -/
theorem ifElseIf_acc (c : X) (thn : Body) (s' : Stmt2) (need1 need2 : Nat) (ih1 : BodyOK thn need1) (ih2 : IfAcc s' need2) (hc : CanonX 1 c)
    (hif : endsIfB thn = false) (hels : firstTokS2 s' = .IF_KW) :
    IfAcc (.ifElse c thn (.one s')) (max (fuelX c + 1) (max need1 need2) + 1) := by
  intro F s hF hr htk hfol st0 sb0 lv
  obtain ⟨g, rfl⟩ : ∃ g, F = g + 1 := ⟨F - 1, by omega⟩
  simp only [toksS2, toksB, parenToks, Toks, Toks_append, tk, List.length_cons, List.length_append, List.length_nil] at htk hfol ⊢
  obtain ⟨h0, -, ⟨h1, -, htc, hrp, -, -⟩, htb, hel, -, hte⟩ := htk
  rw [show s.pos = s.pos + 0 from rfl] at h0
  have hnp := hr.hook
  have hpr := hr.prot
  have hlim := hr.lim
  have hpr' : ∀ n, ∀ p ∈ s.protectedPos, p < s.events.size + n := fun n p hp => Nat.lt_add_right n (hr.prot p hp)
  obtain ⟨g', rfl⟩ : ∃ g', g = g' + 1 := ⟨g - 1, by have := fuelX_pos c; omega⟩
  have hcond : ∀ st sb lv E0, st + 5 ≤ s.stepLimit → Oq3.Grammar.expr (g' + 1) (s.ov E0 2 st sb lv s.protectedPos) = _ :=
    fun st sb lv E0 h1 => (exprX_ok c).expr g' s E0 2 st sb lv s.protectedPos hr.hook h1 hr.lim (hpr' _)
      (Toks_pos htc (by omega)) hc (by rw [kindAt_pos hrp (by omega)]; rfl) (by omega)
  have hrp' : s.kindAt (s.pos + (2 + (toksX c).length)) = .R_PAREN := kindAt_pos hrp (by omega)
  have hel' : s.kindAt (s.pos + (2 + (toksX c).length + 1 + (toksB thn).length)) = .ELSE_KW := kindAt_pos hel (by omega)
  obtain ⟨st', sb', hle, hblk⟩ :=
    (ih1 (g' + 1)
      (s.ov ([.start .TOMBSTONE none, .token .IF_KW 1, .token .L_PAREN 1] ++ evsX c ++ [.token .R_PAREN 1])
        (2 + (toksX c).length + 1) 0 1 (lv + 1) s.protectedPos) (by omega)
      (RdyL_ov 8 s _ _ _ _ _ _ hr.hook (by omega) (hpr' _) hr.lim)
      ((Toks_ov s _ _ _ _ _ _ _ _).2 (Toks_pos htb (by show s.pos + _ = _; omega)))
      ((FollowB_ov _ s _ _ _ _ _ _ _).2 (followB_else thn s _ (kindAt_pos hel' (by show s.pos + _ + _ = _; omega)) hif))).at_ov
  simp only [List.cons_append, List.nil_append] at hblk
  obtain ⟨sb2, hif2⟩ :=
    ih2 (g' + 1)
      (s.ov (.start .TOMBSTONE none :: .token .IF_KW 1 :: .token .L_PAREN 1 :: (evsX c ++ [.token .R_PAREN 1] ++ evsB thn) ++
          [.token .ELSE_KW 1])
        (2 + (toksX c).length + 1 + (toksB thn).length + 1) 0 1 (lv + 1) s.protectedPos) (by omega)
      (RdyL_ov 8 s _ _ _ _ _ _ hr.hook (by omega) (hpr' _) hr.lim)
      ((Toks_ov s _ _ _ _ _ _ _ _).2 (Toks_pos hte (by show s.pos + _ = _; omega)))
      ((FollowS2_ov _ s _ _ _ _ _ _ _).2 (by
        show FollowS2 s' s (s.pos + (2 + (toksX c).length + 1 + (toksB thn).length + 1) + (toksS2 s').length)
        rw [show s.pos + (2 + (toksX c).length + 1 + (toksB thn).length + 1) + (toksS2 s').length =
          s.pos + ((toksX c).length + (0 + 1) + 1 + ((toksB thn).length + ((toksS2 s').length + 1)) + 1) by omega]
        exact ⟨hfol.assign, hfol.noElse, hfol.noCurly, hfol.noSemi⟩)) 0 2 (lv + 1)
  rw [ov_ov, ov_ov] at hif2
  simp only [List.cons_append, List.nil_append, ov_events_size, ov_prot, List.length_cons, List.length_nil,
    Nat.add_zero] at hif2
  obtain ⟨j, ts, hts⟩ := toksS2_first s'
  have hfe : s.kindAt (s.pos + (2 + (toksX c).length + 1 + (toksB thn).length + 1)) = .IF_KW := by
    rw [hts, hels] at hte; exact kindAt_pos hte.1 (by omega)
  refine ⟨?_, ?_⟩
  rotate_left 1
  show _ = _
  sym_eval [filter_base s hpr, contains_base s hpr, h0, h1, hcond, hrp', hblk, hel', hfe, hif2]
  close_ov3


/-- an `if` statement through `stmt` -/
theorem stmt_of_ifAcc (st : Stmt2) (need : Nat) (h : IfAcc st need) (hf : firstTokS2 st = .IF_KW) : StmtOK2 st (need + 2) := by
  intro F s hF hr htk hfol
  obtain ⟨g, rfl⟩ : ∃ g, F = g + 2 := ⟨F - 2, by omega⟩
  obtain ⟨j, ts, hts⟩ := toksS2_first st
  have h0 : s.kindAt (s.pos + 0) = .IF_KW := by rw [hts, hf] at htk; exact htk.1
  obtain ⟨sb', hif⟩ := h g s (by omega) hr htk hfol (s.steps + 1) (s.sinceBump + 1) s.live
  have hnp := hr.hook
  have hpr := hr.prot
  have hst : s.steps ≤ s.stepLimit := by have := hr.steps; omega
  refine ⟨0, sb', Nat.zero_le _, of_ov _ _ _ ?_⟩
  show _ = _
  sym_eval [filter_base s hpr, contains_base s hpr, h0, hif]
  rfl

/-! ### `while`, `for` -/

/-- `while (c) body` -/
theorem stmt_whileS2 (c : X) (body : Body) (need : Nat) (ih : BodyOK body need) (hc : CanonX 1 c) :
    StmtOK2 (.whileS c body) (max (fuelX c + 1) need + 4) := by
  intro F s hF hr htk hfol
  obtain ⟨g, rfl⟩ : ∃ g, F = g + 1 + 3 := ⟨F - 4, by omega⟩
  simp only [toksS2, parenToks, Toks, Toks_append, tk, List.length_cons, List.length_append, List.length_nil] at htk hfol ⊢
  obtain ⟨h0, -, ⟨h1, -, htc, hrp, -, -⟩, htb⟩ := htk
  rw [show s.pos = s.pos + 0 from rfl] at h0
  have hpr' : ∀ n, ∀ p ∈ s.protectedPos, p < s.events.size + n := fun n p hp => Nat.lt_add_right n (hr.prot p hp)
  have hcond : ∀ st sb lv E0, st + 5 ≤ s.stepLimit → Oq3.Grammar.expr (g + 1) (s.ov E0 2 st sb lv s.protectedPos) = _ :=
    fun st sb lv E0 h1 => (exprX_ok c).expr g s E0 2 st sb lv s.protectedPos hr.hook h1 hr.lim (hpr' _)
      (Toks_pos htc (by omega)) hc (by rw [kindAt_pos hrp (by omega)]; rfl) (by omega)
  have hrp' : s.kindAt (s.pos + (2 + (toksX c).length)) = .R_PAREN := kindAt_pos hrp (by omega)
  obtain ⟨st', sb', hle, hblk⟩ :=
    (ih (g + 1)
      (s.ov ([.start .TOMBSTONE none, .token .WHILE_KW 1, .token .L_PAREN 1] ++ evsX c ++ [.token .R_PAREN 1])
        (2 + (toksX c).length + 1) 0 1 (s.live + 1) s.protectedPos) (by omega)
      (RdyL_ov 8 s _ _ _ _ _ _ hr.hook (by have := hr.lim; omega) (hpr' _) hr.lim)
      ((Toks_ov s _ _ _ _ _ _ _ _).2 (Toks_pos htb (by show s.pos + _ = _; omega)))
      ((FollowB_ov _ s _ _ _ _ _ _ _).2 (by
        show FollowB body s (s.pos + (2 + (toksX c).length + 1) + (toksB body).length)
        rw [show s.pos + (2 + (toksX c).length + 1) + (toksB body).length = s.pos + ((toksX c).length + (0 + 1) + 1 + (toksB body).length + 1) by omega]
        exact ⟨hfol.assign, hfol.noElse, hfol.noCurly, hfol.noSemi⟩))).at_ov
  simp only [List.cons_append, List.nil_append] at hblk
  run_base3 [h0, h1, hcond, hrp', hblk]

/-- `[lo:hi]` -/
theorem range2_acc (lo hi : X) (F : Nat) (s : P) (hr : RdyL 6 s) (hF : max (fuelX lo) (fuelX hi) + 1 ≤ F)
    (h0 : s.kindAt (s.pos + 0) = .L_BRACK) (htl : Toks s (s.pos + 1) (toksX lo))
    (hcol : s.kindAt (s.pos + (1 + (toksX lo).length)) = .COLON)
    (hth : Toks s (s.pos + (1 + (toksX lo).length + 1)) (toksX hi))
    (hrb : s.kindAt (s.pos + (1 + (toksX lo).length + 1 + (toksX hi).length)) = .R_BRACK)
    (hcl : CanonX 1 lo) (hch : CanonX 1 hi) :
    AccV (rangeExpr F) (some ⟨s.events.size + 0, .RANGE_EXPR⟩) s (iterToks (.range2 lo hi)).length (iterEvs (.range2 lo hi)) := by
  obtain ⟨g, rfl⟩ : ∃ g, F = g + 1 := ⟨F - 1, by omega⟩
  have hpr' : ∀ n, ∀ p ∈ s.protectedPos, p < s.events.size + n := fun n p hp => Nat.lt_add_right n (hr.prot p hp)
  have hlo : ∀ st sb lv E0, st + 5 ≤ s.stepLimit → exprBp g none { preferStmt := false } 1 (s.ov E0 1 st sb lv s.protectedPos) = _ :=
    fun st sb lv E0 h1 => (exprX_ok lo).atEnd 1 g _ s E0 1 st sb lv s.protectedPos hr.hook h1 hr.lim (hpr' _)
      htl hcl (by decide) (by decide) (by rw [kindAt_pos hcol (by omega)]; rfl) (by omega)
  have hhi : ∀ st sb lv E0, st + 5 ≤ s.stepLimit →
      exprBp g none { preferStmt := false } 1 (s.ov E0 (1 + (toksX lo).length + 1) st sb lv s.protectedPos) = _ :=
    fun st sb lv E0 h1 => (exprX_ok hi).atEnd 1 g _ s E0 _ st sb lv s.protectedPos hr.hook h1 hr.lim (hpr' _)
      hth hch (by decide) (by decide) (by rw [kindAt_pos hrb (by omega)]; rfl) (by omega)
  have hnc : s.kindAt (s.pos + (1 + (toksX lo).length + 1 + (toksX hi).length)) ≠ .COLON := by rw [hrb]; decide
  run_base3 [h0, hlo, hcol, hhi, hnc, hrb]

/-- `[lo:mid:hi]` -/
theorem range3_acc (lo mid hi : X) (F : Nat) (s : P) (hr : RdyL 6 s) (hF : max (fuelX lo) (max (fuelX mid) (fuelX hi)) + 1 ≤ F)
    (h0 : s.kindAt (s.pos + 0) = .L_BRACK) (htl : Toks s (s.pos + 1) (toksX lo))
    (hcol : s.kindAt (s.pos + (1 + (toksX lo).length)) = .COLON)
    (htm : Toks s (s.pos + (1 + (toksX lo).length + 1)) (toksX mid))
    (hcol2 : s.kindAt (s.pos + (1 + (toksX lo).length + 1 + (toksX mid).length)) = .COLON)
    (hth : Toks s (s.pos + (1 + (toksX lo).length + 1 + (toksX mid).length + 1)) (toksX hi))
    (hrb : s.kindAt (s.pos + (1 + (toksX lo).length + 1 + (toksX mid).length + 1 + (toksX hi).length)) = .R_BRACK)
    (hcl : CanonX 1 lo) (hcm : CanonX 1 mid) (hch : CanonX 1 hi) :
    AccV (rangeExpr F) (some ⟨s.events.size + 0, .RANGE_EXPR⟩) s (iterToks (.range3 lo mid hi)).length (iterEvs (.range3 lo mid hi)) := by
  obtain ⟨g, rfl⟩ : ∃ g, F = g + 1 := ⟨F - 1, by omega⟩
  have hpr' : ∀ n, ∀ p ∈ s.protectedPos, p < s.events.size + n := fun n p hp => Nat.lt_add_right n (hr.prot p hp)
  have hlo : ∀ st sb lv E0, st + 5 ≤ s.stepLimit → exprBp g none { preferStmt := false } 1 (s.ov E0 1 st sb lv s.protectedPos) = _ :=
    fun st sb lv E0 h1 => (exprX_ok lo).atEnd 1 g _ s E0 1 st sb lv s.protectedPos hr.hook h1 hr.lim (hpr' _)
      htl hcl (by decide) (by decide) (by rw [kindAt_pos hcol (by omega)]; rfl) (by omega)
  have hmid : ∀ st sb lv E0, st + 5 ≤ s.stepLimit →
      exprBp g none { preferStmt := false } 1 (s.ov E0 (1 + (toksX lo).length + 1) st sb lv s.protectedPos) = _ :=
    fun st sb lv E0 h1 => (exprX_ok mid).atEnd 1 g _ s E0 _ st sb lv s.protectedPos hr.hook h1 hr.lim (hpr' _)
      htm hcm (by decide) (by decide) (by rw [kindAt_pos hcol2 (by omega)]; rfl) (by omega)
  have hhi : ∀ st sb lv E0, st + 5 ≤ s.stepLimit →
      exprBp g none { preferStmt := false } 1 (s.ov E0 (1 + (toksX lo).length + 1 + (toksX mid).length + 1) st sb lv s.protectedPos) = _ :=
    fun st sb lv E0 h1 => (exprX_ok hi).atEnd 1 g _ s E0 _ st sb lv s.protectedPos hr.hook h1 hr.lim (hpr' _)
      hth hch (by decide) (by decide) (by rw [kindAt_pos hrb (by omega)]; rfl) (by omega)
  run_base3 [h0, hlo, hcol, hmid, hcol2, hhi, hrb]

/-- `{ items }` as the iterable of a `for` loop -/
theorem set_acc (is : ItemList) (F : Nat) (s : P) (hr : RdyL 6 s) (hF : sumItems is + countItems is + 7 ≤ F)
    (h0 : s.kindAt (s.pos + 0) = .L_CURLY) (hti : Toks s (s.pos + 1) (toksItems is))
    (hrc : s.kindAt (s.pos + (1 + (toksItems is).length)) = .R_CURLY) (hc : CanonItems is) (hfo : ItemsFirstOK is) :
    Acc (setExpression F) s (iterToks (.set is)).length (iterEvs (.set is)) := by
  obtain ⟨g, rfl⟩ : ∃ g, F = g + 3 := ⟨F - 3, by omega⟩
  have hpr' : ∀ n, ∀ p ∈ s.protectedPos, p < s.events.size + n := fun n p hp => Nat.lt_add_right n (hr.prot p hp)
  obtain ⟨st', sb', hle, hloop⟩ :=
    (itemsLoopSet is (sumItems is) g 0
      (s.ov [.start .TOMBSTONE none, .token .L_CURLY 1, .start .TOMBSTONE none] 1 0 2 (s.live + 1 + 1) s.protectedPos)
      (itemsOK is) (by omega) (RdyL_ov 6 s _ _ _ _ _ _ hr.hook (by have := hr.lim; omega) (hpr' _) hr.lim)
      ((Toks_ov s _ _ _ _ _ _ _ _).2 hti) (kindAt_pos hrc (by show s.pos + 1 + _ = _; omega)) hc hfo).at_ov
  have hnum : (0 + countItems is + 1 < 1) = False := eq_false (by omega)
  run_base3 [h0, hloop, hnum, hrc]


def CanonIter : Iter → Prop
  | .range2 lo hi => CanonX 1 lo ∧ CanonX 1 hi
  | .range3 lo mid hi => CanonX 1 lo ∧ CanonX 1 mid ∧ CanonX 1 hi
  | .set is => CanonItems is ∧ ItemsFirstOK is
  | .ex x => CanonX 1 x

def needIter : Iter → Nat
  | .range2 lo hi => max (fuelX lo) (fuelX hi) + 1
  | .range3 lo mid hi => max (fuelX lo) (max (fuelX mid) (fuelX hi)) + 1
  | .set is => sumItems is + countItems is + 7
  | .ex x => fuelX x + 1

/-- an expression as iterable needs a block as loop body (the token after the expression must end it) -/
def iterBodyOK : Iter → Body → Prop
  | .ex _, .one _ => False
  | _, _ => True


theorem name_acc (s : P) (hr : Rdy 2 s) (h0 : s.kindAt (s.pos + 0) = .IDENT) : Acc name s 1 nameEvs := by
  unfold name
  run_base [h0]

/-- `for ty[w] x in it body` -/
theorem stmt_forS2 (ty : Ty) (w : Option X) (it : Iter) (body : Body) (need : Nat) (ih : BodyOK body need)
    (hwide : w.isSome = true → ty.wide = true) (hcw : WidthOK w) (hci : CanonIter it) (hib : iterBodyOK it body) :
    StmtOK2 (.forS ty w it body) (max (max (optFuel w + 4) (needIter it)) need + 5) := by
  intro F s hF hr htk hfol
  have hnp1 : 1 ≤ needIter it := by cases it <;> simp only [needIter] <;> omega
  obtain ⟨g, rfl⟩ : ∃ g, F = g + 1 + 1 + 3 := ⟨F - 5, by omega⟩
  simp only [toksS2, Toks, Toks_append, tk, List.length_cons, List.length_append, List.length_nil] at htk hfol ⊢
  obtain ⟨h0, -, htt, hid, -, hin, -, hti, htb⟩ := htk
  rw [show s.pos = s.pos + 0 from rfl] at h0
  have hpr' : ∀ n, ∀ p ∈ s.protectedPos, p < s.events.size + n := fun n p hp => Nat.lt_add_right n (hr.prot p hp)
  obtain ⟨st1, sb1, hle1, hty⟩ :=
    (typeSpecX_acc ty w (g + 1 + 1) (s.ov [Ev.start SyntaxKind.TOMBSTONE none, .token .FOR_KW 1] 1 0 1 (s.live + 1) s.protectedPos)
      (RdyL_ov 2 s _ _ _ _ _ _ hr.hook (by have := hr.lim; omega) (hpr' _) hr.lim) (by omega) hwide
      ((Toks_ov s _ _ _ _ _ _ _ _).2 htt)
      (by intro hw; subst hw; simp only [tyToksX, List.length_cons, List.length_nil] at hid
          show s.kindAt (s.pos + 1 + 1) ≠ _; rw [hid]; decide) hcw).at_ov
  simp only [List.cons_append, List.nil_append] at hty
  obtain rfl : st1 = 0 := by omega
  obtain ⟨st2, sb2, hle2, hnm⟩ :=
    (name_acc (s.ov (Ev.start SyntaxKind.TOMBSTONE none :: .token .FOR_KW 1 :: tyEvsX ty w) (1 + (tyToksX ty w).length) 0 sb1
        (s.live + 1) s.protectedPos)
      (Rdy_ov 2 s _ _ _ _ _ _ hr.hook (by have := hr.lim; omega) (hpr' _))
      (by show s.kindAt (s.pos + _ + 0) = _; exact kindAt_pos hid (by omega))).at_ov
  simp only [List.cons_append, List.nil_append] at hnm
  obtain rfl : st2 = 0 := by omega
  have hin' : s.kindAt (s.pos + (1 + (tyToksX ty w).length + 1)) = .IN_KW := kindAt_pos hin (by omega)
  have hget : ∀ (IE : List Ev), (tyEvsX ty w ++ nameEvs ++ [Ev.token SyntaxKind.IN_KW 1] ++ [Ev.start SyntaxKind.TOMBSTONE none] ++ IE)[
      (tyEvsX ty w ++ nameEvs ++ [Ev.token SyntaxKind.IN_KW 1]).length]? = some (Ev.start SyntaxKind.TOMBSTONE none) := by
    intro IE; rw [List.append_assoc, List.getElem?_append_right (Nat.le_refl _)]; simp
  have hset : ∀ (IE : List Ev) (y : Ev), (tyEvsX ty w ++ nameEvs ++ [Ev.token SyntaxKind.IN_KW 1] ++ [Ev.start SyntaxKind.TOMBSTONE none] ++ IE).set
      (tyEvsX ty w ++ nameEvs ++ [Ev.token SyntaxKind.IN_KW 1]).length y =
      tyEvsX ty w ++ nameEvs ++ [Ev.token SyntaxKind.IN_KW 1] ++ [y] ++ IE := by
    intro IE y; rw [List.append_assoc, List.set_append_right _ _ (Nat.le_refl _)]; simp
  have hfb : FollowB body s (s.pos + (1 + (tyToksX ty w).length + 1 + 1 + (iterToks it).length) + (toksB body).length) := by
    rw [show s.pos + (1 + (tyToksX ty w).length + 1 + 1 + (iterToks it).length) + (toksB body).length =
      s.pos + ((tyToksX ty w).length + ((iterToks it).length + (toksB body).length + 1 + 1) + 1) by omega]
    exact ⟨hfol.assign, hfol.noElse, hfol.noCurly, hfol.noSemi⟩
  have hbody := fun (sb : Nat) =>
    (ih (g + 1 + 1) (s.ov (Ev.start SyntaxKind.TOMBSTONE none :: Ev.token SyntaxKind.FOR_KW 1 ::
          (tyEvsX ty w ++ nameEvs ++ [Ev.token SyntaxKind.IN_KW 1] ++ [Ev.start SyntaxKind.FOR_ITERABLE none] ++
            iterEvs it ++ [Ev.finish]))
        (1 + (tyToksX ty w).length + 1 + 1 + (iterToks it).length) 0 sb (s.live + 1) s.protectedPos) (by omega)
      (RdyL_ov 8 s _ _ _ _ _ _ hr.hook (by have := hr.lim; omega) (hpr' _) hr.lim)
      ((Toks_ov s _ _ _ _ _ _ _ _).2 (Toks_pos htb (by show s.pos + _ = _; omega)))
      ((FollowB_ov _ s _ _ _ _ _ _ _).2 hfb)).at_ov
  have hrdy : RdyL 6 (s.ov (Ev.start SyntaxKind.TOMBSTONE none :: Ev.token SyntaxKind.FOR_KW 1 ::
          (tyEvsX ty w ++ nameEvs ++ [Ev.token SyntaxKind.IN_KW 1] ++ [Ev.start SyntaxKind.TOMBSTONE none]))
        (1 + (tyToksX ty w).length + 1 + 1) 0 2 (s.live + 1 + 1) s.protectedPos) :=
    RdyL_ov 6 s _ _ _ _ _ _ hr.hook (by have := hr.lim; omega) (hpr' _) hr.lim
  cases it with
  | range2 lo hi =>
    simp only [iterToks, Toks, Toks_append, tk, List.length_cons, List.length_append, List.length_nil] at hti
    obtain ⟨h4, -, htl, hcol, -, hth, hrb, -, -⟩ := hti
    have h4' : s.kindAt (s.pos + (1 + (tyToksX ty w).length + 1 + 1)) = .L_BRACK := kindAt_pos h4 (by omega)
    obtain ⟨str, sbr, hler, hrange⟩ :=
      (range2_acc lo hi (g + 2) _ hrdy (by simp only [needIter] at hF; omega)
        (kindAt_pos h4 (by show s.pos + _ + 0 = _; omega)) ((Toks_ov s _ _ _ _ _ _ _ _).2 (Toks_pos htl (by show s.pos + _ + 1 = _; omega)))
        (kindAt_pos hcol (by show s.pos + _ + _ = _; omega))
        ((Toks_ov s _ _ _ _ _ _ _ _).2 (Toks_pos hth (by show s.pos + _ + _ = _; omega)))
        (kindAt_pos hrb (by show s.pos + _ + _ = _; omega)) hci.1 hci.2).at_ov
    obtain rfl : str = 0 := by omega
    simp only [List.cons_append, List.nil_append] at hrange
    obtain ⟨st', sb', hle, hblk⟩ := hbody (sbr + 1)
    simp only [List.cons_append, List.nil_append] at hblk
    run_base3 [h0, hty, hnm, hin', h4', hrange, hget, hset, hblk]
  | range3 lo mid hi =>
    simp only [iterToks, Toks, Toks_append, tk, List.length_cons, List.length_append, List.length_nil] at hti
    obtain ⟨h4, -, htl, hcol, -, htm, hcol2, -, hth, hrb, -, -⟩ := hti
    have h4' : s.kindAt (s.pos + (1 + (tyToksX ty w).length + 1 + 1)) = .L_BRACK := kindAt_pos h4 (by omega)
    obtain ⟨str, sbr, hler, hrange⟩ :=
      (range3_acc lo mid hi (g + 2) _ hrdy (by simp only [needIter] at hF; omega)
        (kindAt_pos h4 (by show s.pos + _ + 0 = _; omega)) ((Toks_ov s _ _ _ _ _ _ _ _).2 (Toks_pos htl (by show s.pos + _ + 1 = _; omega)))
        (kindAt_pos hcol (by show s.pos + _ + _ = _; omega))
        ((Toks_ov s _ _ _ _ _ _ _ _).2 (Toks_pos htm (by show s.pos + _ + _ = _; omega)))
        (kindAt_pos hcol2 (by show s.pos + _ + _ = _; omega))
        ((Toks_ov s _ _ _ _ _ _ _ _).2 (Toks_pos hth (by show s.pos + _ + _ = _; omega)))
        (kindAt_pos hrb (by show s.pos + _ + _ = _; omega)) hci.1 hci.2.1 hci.2.2).at_ov
    obtain rfl : str = 0 := by omega
    simp only [List.cons_append, List.nil_append] at hrange
    obtain ⟨st', sb', hle, hblk⟩ := hbody (sbr + 1)
    simp only [List.cons_append, List.nil_append] at hblk
    run_base3 [h0, hty, hnm, hin', h4', hrange, hget, hset, hblk]
  | set is =>
    simp only [iterToks, Toks, Toks_append, tk, List.length_cons, List.length_append, List.length_nil] at hti
    obtain ⟨h4, -, htis, hrc, -, -⟩ := hti
    have h4' : s.kindAt (s.pos + (1 + (tyToksX ty w).length + 1 + 1)) = .L_CURLY := kindAt_pos h4 (by omega)
    obtain ⟨str, sbr, hler, hset'⟩ :=
      (set_acc is (g + 2) _ hrdy (by simp only [needIter] at hF; omega)
        (kindAt_pos h4 (by show s.pos + _ + 0 = _; omega)) ((Toks_ov s _ _ _ _ _ _ _ _).2 (Toks_pos htis (by show s.pos + _ + 1 = _; omega)))
        (kindAt_pos hrc (by show s.pos + _ + _ = _; omega)) hci.1 hci.2).at_ov
    obtain rfl : str = 0 := by omega
    simp only [List.cons_append, List.nil_append] at hset'
    obtain ⟨st', sb', hle, hblk⟩ := hbody (sbr + 1)
    simp only [List.cons_append, List.nil_append] at hblk
    run_base3 [h0, hty, hnm, hin', h4', hset', hget, hset, hblk]
  | ex x =>
    have hbl : ∃ ts, toksB body = tk .L_CURLY :: ts := by
      cases body with
      | one st => exact absurd hib (by simp [iterBodyOK])
      | blk ss => exact ⟨_, rfl⟩
    obtain ⟨tsb, htsb⟩ := hbl
    simp only [iterToks] at hti htb
    obtain ⟨j, ts, hts⟩ := toksX_first x
    have h4 : s.kindAt (s.pos + (1 + (tyToksX ty w).length + 1 + 1)) = firstX x := by rw [hts] at hti; exact kindAt_pos hti.1 (by omega)
    obtain ⟨-, -, -, -, -, -, -, -, e1, e2, -⟩ := xFirst_ne (h4 ▸ firstX_xFirst x)
    have hlc : s.kindAt (s.pos + (1 + (tyToksX ty w).length + 1 + 1 + (toksX x).length)) = .L_CURLY := by
      rw [htsb] at htb; exact kindAt_pos htb.1 (by omega)
    have hex : ∀ st sb lv E0, st + 5 ≤ s.stepLimit →
        Oq3.Grammar.expr (g + 1 + 1) (s.ov E0 (1 + (tyToksX ty w).length + 1 + 1) st sb lv s.protectedPos) = _ :=
      fun st sb lv E0 h1 => (exprX_ok x).expr (g + 1) s E0 _ st sb lv s.protectedPos hr.hook h1 hr.lim (hpr' _)
        (Toks_pos hti (by omega)) hci (by rw [kindAt_pos hlc (by omega)]; rfl) (by simp only [needIter] at hF; omega)
    obtain ⟨st', sb', hle, hblk⟩ := hbody (sbX x + 1)
    simp only [List.cons_append, List.nil_append, iterEvs, iterToks] at hblk
    run_base3 [h0, hty, hnm, hin', e1, e2, hex, hget, hset, hblk]


/-! ### `switch` -/

/-- the `case` part of the cases of a `switch` -/
def cToks : Cases → List Tok
  | .cons vals body rest => tk .CASE_KW :: (toksItems vals ++ (tk .L_CURLY :: (toksL2 body ++ (tk .R_CURLY :: cToks rest))))
  | _ => []
def cEvs : Cases → List Ev
  | .cons vals body rest =>
    .start .CASE_EXPR none :: .token .CASE_KW 1 :: .start .EXPRESSION_LIST none ::
      (evsItems vals ++ (.finish :: (blockEvs (evsL2 body) ++ (.finish :: cEvs rest))))
  | _ => []
/-- the `default` part -/
def dToks : Cases → List Tok
  | .nil => []
  | .dflt body => tk .DEFAULT_KW :: tk .L_CURLY :: (toksL2 body ++ [tk .R_CURLY])
  | .cons _ _ rest => dToks rest
def dEvs : Cases → List Ev
  | .nil => []
  | .dflt body => .token .DEFAULT_KW 1 :: blockEvs (evsL2 body)
  | .cons _ _ rest => dEvs rest

theorem toksC_split : ∀ cs : Cases, toksC cs = cToks cs ++ dToks cs
  | .nil => rfl
  | .dflt _ => rfl
  | .cons vals body rest => by simp only [toksC, cToks, dToks, toksC_split rest, List.cons_append, List.append_assoc]

theorem evsC_split : ∀ cs : Cases, evsC cs = cEvs cs ++ dEvs cs
  | .nil => rfl
  | .dflt _ => rfl
  | .cons vals body rest => by simp only [evsC, cEvs, dEvs, evsC_split rest, List.cons_append, List.append_assoc]

/-- the values of a `case` -/
theorem caseVals_acc (vals : ItemList) (F : Nat) (s : P) (hr : RdyL 6 s) (hF : sumItems vals + countItems vals + 6 ≤ F)
    (hti : Toks s s.pos (toksItems vals)) (hlc : s.kindAt (s.pos + (toksItems vals).length) = .L_CURLY)
    (hc : CanonItems vals) (hfo : ItemsFirstOK vals) :
    Acc (caseValueList F) s (toksItems vals).length (.start .EXPRESSION_LIST none :: (evsItems vals ++ [.finish])) := by
  obtain ⟨g, rfl⟩ : ∃ g, F = g + 2 := ⟨F - 2, by omega⟩
  have hpr' : ∀ n, ∀ p ∈ s.protectedPos, p < s.events.size + n := fun n p hp => Nat.lt_add_right n (hr.prot p hp)
  obtain ⟨st', sb', hle, hloop⟩ :=
    (itemsLoopCase vals (sumItems vals) g 0
      (s.ov [.start .TOMBSTONE none] 0 s.steps (s.sinceBump + 1) (s.live + 1) s.protectedPos)
      (itemsOK vals) (by omega) (RdyL_ov 6 s _ _ _ _ _ _ hr.hook hr.steps (hpr' _) hr.lim)
      ((Toks_ov s _ _ _ _ _ _ _ _).2 (by rw [Nat.add_zero]; exact hti)) (kindAt_pos hlc (by show s.pos + 0 + _ = _; omega)) hc hfo).at_ov
  have hnum : (0 + countItems vals + 1 < 1) = False := eq_false (by omega)
  simp only [List.cons_append, List.nil_append] at hloop
  run_base3 [hloop, hnum]

/-- all blocks of the cases are accepted -/
def CasesOK : Cases → Nat → Prop
  | .nil, _ => True
  | .dflt body, n => StmtsOK2 body n
  | .cons _ body rest, n => StmtsOK2 body n ∧ CasesOK rest n

def CanonCases : Cases → Prop
  | .cons vals _ rest => (CanonItems vals ∧ ItemsFirstOK vals) ∧ CanonCases rest
  | _ => True

def needCases (n : Nat) : Cases → Nat
  | .cons vals _ rest => max (max (n + 2) (sumItems vals + countItems vals + 6)) (needCases n rest) + 1
  | _ => 1

/-- the token after the `case` part: `default` or the closing brace -/
def caseEnd (k : SyntaxKind) : Prop := k = .DEFAULT_KW ∨ k = .R_CURLY

/-- the `case` loop of `switch_case_stmt` -/
theorem caseLoop_acc : ∀ (cs : Cases) (n F : Nat) (s : P), CasesOK cs n → needCases n cs ≤ F → RdyL 8 s →
    Toks s s.pos (cToks cs) → caseEnd (s.kindAt (s.pos + (cToks cs).length)) → CanonCases cs →
    Acc (switchCaseLoop F) s (cToks cs).length (cEvs cs)
  | .nil, n, F, s, hok, hF, hr, htk, hend, hc => by
    obtain ⟨g, rfl⟩ : ∃ g, F = g + 1 := ⟨F - 1, by simp only [needCases] at hF; omega⟩
    simp only [cToks, List.length_nil, Nat.add_zero] at hend
    have h0 : s.kindAt (s.pos + 0) ≠ .CASE_KW := by rcases hend with h | h <;> (rw [Nat.add_zero, h]; decide)
    run_base3 [h0]
  | .dflt body, n, F, s, hok, hF, hr, htk, hend, hc => by
    obtain ⟨g, rfl⟩ : ∃ g, F = g + 1 := ⟨F - 1, by simp only [needCases] at hF; omega⟩
    simp only [cToks, List.length_nil, Nat.add_zero] at hend
    have h0 : s.kindAt (s.pos + 0) ≠ .CASE_KW := by rcases hend with h | h <;> (rw [Nat.add_zero, h]; decide)
    run_base3 [h0]
  | .cons vals body rest, n, F, s, hok, hF, hr, htk, hend, hc => by
    obtain ⟨g, rfl⟩ : ∃ g, F = g + 1 := ⟨F - 1, by simp only [needCases] at hF; omega⟩
    simp only [needCases] at hF
    simp only [cToks, Toks, Toks_append, tk, List.length_cons, List.length_append] at htk hend ⊢
    obtain ⟨h0, -, htv, hlc, -, htb, hrc, -, htrest⟩ := htk
    rw [show s.pos = s.pos + 0 from rfl] at h0
    have hpr' : ∀ n, ∀ p ∈ s.protectedPos, p < s.events.size + n := fun n p hp => Nat.lt_add_right n (hr.prot p hp)
    obtain ⟨st1, sb1, hle1, hvals⟩ :=
      (caseVals_acc vals g (s.ov [.start .TOMBSTONE none, .token .CASE_KW 1] 1 0 1 (s.live + 1) s.protectedPos)
        (RdyL_ov 6 s _ _ _ _ _ _ hr.hook (by have := hr.lim; omega) (hpr' _) hr.lim) (by omega)
        ((Toks_ov s _ _ _ _ _ _ _ _).2 htv) hlc hc.1.1 hc.1.2).at_ov
    simp only [List.cons_append, List.nil_append] at hvals
    obtain rfl : st1 = 0 := by omega
    obtain ⟨st2, sb2, hle2, hblk⟩ :=
      (tryBlock_acc2 body n g hok.1
        (s.ov (.start .TOMBSTONE none :: .token .CASE_KW 1 :: .start .EXPRESSION_LIST none :: (evsItems vals ++ [.finish]))
          (1 + (toksItems vals).length) 0 sb1 (s.live + 1) s.protectedPos) (by omega)
        (RdyL_ov 8 s _ _ _ _ _ _ hr.hook (by have := hr.lim; omega) (hpr' _) hr.lim)
        (kindAt_pos hlc (by show s.pos + _ + 0 = _; omega))
        ((Toks_ov s _ _ _ _ _ _ _ _).2 (Toks_pos htb (by show s.pos + _ + 1 = _; omega)))
        (kindAt_pos hrc (by show s.pos + _ + _ = _; omega))).at_ov
    simp only [List.cons_append, List.nil_append] at hblk
    obtain rfl : st2 = 0 := by omega
    obtain ⟨st3, sb3, hle3, hrec⟩ :=
      (caseLoop_acc rest n g
        (s.ov (.start .CASE_EXPR none :: .token .CASE_KW 1 :: .start .EXPRESSION_LIST none :: (evsItems vals ++ [.finish] ++
            blockEvs (evsL2 body) ++ [.finish]))
          (1 + (toksItems vals).length + ((toksL2 body).length + 2)) 0 (sb2 + 1) s.live s.protectedPos)
        hok.2 (by omega) (RdyL_ov 8 s _ _ _ _ _ _ hr.hook (by have := hr.lim; omega) (hpr' _) hr.lim)
        ((Toks_ov s _ _ _ _ _ _ _ _).2 (Toks_pos htrest (by show s.pos + _ = _; omega)))
        (by show caseEnd (s.kindAt (s.pos + _ + _))
            rw [show s.pos + (1 + (toksItems vals).length + ((toksL2 body).length + 2)) + (cToks rest).length =
              s.pos + ((toksItems vals).length + ((toksL2 body).length + ((cToks rest).length + 1) + 1) + 1) by omega]
            exact hend) hc.2).at_ov
    simp only [List.cons_append, List.nil_append] at hrec
    show Acc (switchCaseLoop (g + 1)) s _ (.start .CASE_EXPR none :: .token .CASE_KW 1 :: .start .EXPRESSION_LIST none ::
      (evsItems vals ++ (.finish :: (blockEvs (evsL2 body) ++ (.finish :: cEvs rest)))))
    run_base3 [h0, hvals, hblk, hrec]


def dfltOf : Cases → Option Stmts2
  | .nil => none
  | .dflt body => some body
  | .cons _ _ rest => dfltOf rest

theorem dToks_eq : ∀ cs : Cases, dToks cs = (match dfltOf cs with
    | none => []
    | some body => tk .DEFAULT_KW :: tk .L_CURLY :: (toksL2 body ++ [tk .R_CURLY]))
  | .nil => rfl
  | .dflt _ => rfl
  | .cons _ _ rest => by simp only [dToks, dfltOf]; exact dToks_eq rest

theorem dEvs_eq : ∀ cs : Cases, dEvs cs = (match dfltOf cs with
    | none => []
    | some body => .token .DEFAULT_KW 1 :: blockEvs (evsL2 body))
  | .nil => rfl
  | .dflt _ => rfl
  | .cons _ _ rest => by simp only [dEvs, dfltOf]; exact dEvs_eq rest

theorem casesOK_dflt : ∀ (cs : Cases) (n : Nat), CasesOK cs n → ∀ body, dfltOf cs = some body → StmtsOK2 body n
  | .nil, _, _, _, h => by cases h
  | .dflt b, _, hok, body, h => by simp only [dfltOf, Option.some.injEq] at h; subst h; exact hok
  | .cons _ _ rest, n, hok, body, h => casesOK_dflt rest n hok.2 body h

/-- `switch (c) { cases }` with at least one `case` or a `default` -/
theorem stmt_switchS (c : X) (cs : Cases) (n : Nat) (hok : CasesOK cs n) (hc : CanonX 1 c) (hcc : CanonCases cs) (hne : cs ≠ .nil) :
    StmtOK2 (.switchS c cs) (max (fuelX c + 1) (needCases n cs + n + 2) + 3) := by
  intro F s hF hr htk _
  obtain ⟨g, rfl⟩ : ∃ g, F = g + 3 := ⟨F - 3, by omega⟩
  simp only [toksS2, parenToks, toksC_split, Toks, Toks_append, tk, List.length_cons, List.length_append, List.length_nil] at htk ⊢
  obtain ⟨h0, -, ⟨h1, -, htc, hrp, -, -⟩, hlc, -, ⟨htcs, htd⟩, hrc, -, -⟩ := htk
  rw [show s.pos = s.pos + 0 from rfl] at h0
  have hpr' : ∀ n, ∀ p ∈ s.protectedPos, p < s.events.size + n := fun n p hp => Nat.lt_add_right n (hr.prot p hp)
  obtain ⟨g', rfl⟩ : ∃ g', g = g' + 1 := ⟨g - 1, by have := fuelX_pos c; omega⟩
  have hcond : ∀ st sb lv E0, st + 5 ≤ s.stepLimit → Oq3.Grammar.expr (g' + 1) (s.ov E0 2 st sb lv s.protectedPos) = _ :=
    fun st sb lv E0 h1 => (exprX_ok c).expr g' s E0 2 st sb lv s.protectedPos hr.hook h1 hr.lim (hpr' _)
      (Toks_pos htc (by omega)) hc (by rw [kindAt_pos hrp (by omega)]; rfl) (by omega)
  have hrp' : s.kindAt (s.pos + (2 + (toksX c).length)) = .R_PAREN := kindAt_pos hrp (by omega)
  have hlc' : s.kindAt (s.pos + (2 + (toksX c).length + 1)) = .L_CURLY := kindAt_pos hlc (by omega)
  have hfirst : s.kindAt (s.pos + (2 + (toksX c).length + 1 + 1)) = .CASE_KW ∨
      s.kindAt (s.pos + (2 + (toksX c).length + 1 + 1)) = .DEFAULT_KW := by
    cases cs with
    | nil => exact absurd rfl hne
    | dflt b =>
      simp only [dToks, cToks, List.length_nil, Nat.add_zero, Toks, tk] at htd
      exact Or.inr (kindAt_pos htd.1 (by omega))
    | cons v b r =>
      simp only [cToks, Toks, tk] at htcs
      exact Or.inl (kindAt_pos htcs.1 (by omega))
  have hloop := fun (hce : caseEnd (s.kindAt (s.pos + (2 + (toksX c).length + 1 + 1 + (cToks cs).length)))) =>
    (caseLoop_acc cs n (g' + 1)
      (s.ov (.start .TOMBSTONE none :: .token .SWITCH_KW 1 :: .token .L_PAREN 1 :: (evsX c ++ [.token .R_PAREN 1] ++ [.token .L_CURLY 1]))
        (2 + (toksX c).length + 1 + 1) 0 1 (s.live + 1) s.protectedPos) hok (by omega)
      (RdyL_ov 8 s _ _ _ _ _ _ hr.hook (by have := hr.lim; omega) (hpr' _) hr.lim)
      ((Toks_ov s _ _ _ _ _ _ _ _).2 (Toks_pos htcs (by show s.pos + _ = _; omega)))
      (by show caseEnd (s.kindAt (s.pos + (2 + (toksX c).length + 1 + 1) + (cToks cs).length)); rw [Nat.add_assoc]; exact hce) hcc).at_ov
  rw [dToks_eq] at htd hrc ⊢
  rw [show evsS2 (.switchS c cs) = .start .SWITCH_CASE_STMT none :: .token .SWITCH_KW 1 :: .token .L_PAREN 1 :: (evsX c ++ (.token .R_PAREN 1 :: .token .L_CURLY 1 ::
      ((cEvs cs ++ dEvs cs) ++ [.token .R_CURLY 1, .finish]))) from by simp only [evsS2, evsC_split], dEvs_eq]
  cases hd : dfltOf cs with
  | none =>
    simp only [hd, List.length_nil, Nat.add_zero] at htd hrc ⊢
    have hrc' : s.kindAt (s.pos + (2 + (toksX c).length + 1 + 1 + (cToks cs).length)) = .R_CURLY := kindAt_pos hrc (by omega)
    obtain ⟨st1, sb1, hle1, hl⟩ := hloop (Or.inr hrc')
    simp only [List.cons_append, List.nil_append] at hl
    have hnd : s.kindAt (s.pos + (2 + (toksX c).length + 1 + 1 + (cToks cs).length)) ≠ .DEFAULT_KW := by rw [hrc']; decide
    rcases hfirst with hf | hf <;> run_base3 [h0, h1, hcond, hrp', hlc', hf, hl, hnd, hrc']
  | some body =>
    simp only [hd, Toks, Toks_append, tk, List.length_cons, List.length_append, List.length_nil] at htd hrc ⊢
    obtain ⟨hdk, -, hdl, -, htb, hdr, -, -⟩ := htd
    have hdk' : s.kindAt (s.pos + (2 + (toksX c).length + 1 + 1 + (cToks cs).length)) = .DEFAULT_KW := kindAt_pos hdk (by omega)
    obtain ⟨st1, sb1, hle1, hl⟩ := hloop (Or.inl hdk')
    simp only [List.cons_append, List.nil_append] at hl
    obtain rfl : st1 = 0 := by omega
    obtain ⟨st2, sb2, hle2, hblk⟩ :=
      (tryBlock_acc2 body n (g' + 1) (casesOK_dflt cs n hok body hd)
        (s.ov (.start .TOMBSTONE none :: .token .SWITCH_KW 1 :: .token .L_PAREN 1 :: (evsX c ++ [.token .R_PAREN 1] ++ [.token .L_CURLY 1] ++
            cEvs cs ++ [.token .DEFAULT_KW 1]))
          (2 + (toksX c).length + 1 + 1 + (cToks cs).length + 1) 0 1 (s.live + 1) s.protectedPos) (by omega)
        (RdyL_ov 8 s _ _ _ _ _ _ hr.hook (by have := hr.lim; omega) (hpr' _) hr.lim)
        (kindAt_pos hdl (by show s.pos + _ + 0 = _; omega))
        ((Toks_ov s _ _ _ _ _ _ _ _).2 (Toks_pos htb (by show s.pos + _ + 1 = _; omega)))
        (kindAt_pos hdr (by show s.pos + _ + _ = _; omega))).at_ov
    simp only [List.cons_append, List.nil_append] at hblk
    have hrc' : s.kindAt (s.pos + (2 + (toksX c).length + 1 + 1 + (cToks cs).length + 1 + ((toksL2 body).length + 2))) = .R_CURLY :=
      kindAt_pos hrc (by omega)
    rcases hfirst with hf | hf <;> run_base3 [h0, h1, hcond, hrp', hlc', hf, hl, hdk', hblk, hrc']

/-! ### bare blocks, definitions -/

/-- the `EXPR_STMT` wrapper of `stmt` around a block-like expression (a bare block) that is followed by
neither `}` nor `;` -/
theorem stmt_wrapB (f : Nat) (s : P) (hr : RdyL 8 s)
    (h0 : s.kindAt (s.pos + 0) = .L_CURLY) (X : List Ev) (n off sbx : Nat) (kr : SyntaxKind)
    (hsub : exprStmt (f + 1) (some { pos := s.events.size + 0 })
        (s.ov [Ev.start SyntaxKind.TOMBSTONE none] 0 (s.steps + 1) (s.sinceBump + 1) (s.live + 1) s.protectedPos) =
      .ok (some (⟨s.events.size + off, kr⟩, .block), s.ov X n 0 sbx s.live s.protectedPos))
    (hroot : X[off]? = some (.start kr none)) (hkr : (kr == .ASSIGNMENT_STMT) = false)
    (hn1 : s.kindAt (s.pos + n) ≠ .R_CURLY) (hn2 : s.kindAt (s.pos + n) ≠ .SEMICOLON) :
    Acc (stmt (f + 2)) s n
      (X.set off (.start kr (some (X.length - off))) ++ [.start .EXPR_STMT none, .finish]) := by
  have hnp := hr.hook
  have hpr := hr.prot
  have hst : s.steps ≤ s.stepLimit := by have := hr.steps; omega
  have hoff : off < X.length := by
    rcases Nat.lt_or_ge off X.length with h | h
    · exact h
    · rw [List.getElem?_eq_none h] at hroot; cases hroot
  generalize hs₁ : s.ov X n 0 sbx s.live s.protectedPos = s₁
  have h1n : s₁.noProgressLimit = 0 := by rw [← hs₁]; exact hnp
  have h1l : s₁.live = s.live := by rw [← hs₁]; rfl
  have h1pr : s₁.protectedPos = s.protectedPos := by rw [← hs₁]; rfl
  have h1lim : s₁.stepLimit = s.stepLimit := by rw [← hs₁]; rfl
  have hsz : s₁.events.size = s.events.size + X.length := by rw [← hs₁]; exact ov_size _ _
  have hpr₁ : ∀ p ∈ s₁.protectedPos, p < s₁.events.size := by
    intro p hp; rw [h1pr] at hp; rw [hsz]; exact Nat.lt_add_right _ (hpr p hp)
  have hp : s₁.events[s.events.size + off]? = some (.start kr none) := by
    rw [← hs₁]
    show (s.events ++ X.toArray)[s.events.size + off]? = _
    rw [ov_get, hroot]
  have h1a : (s₁.kindAt (s₁.pos + 0) == .R_CURLY) = false := by rw [← hs₁]; exact beq_false_of_ne hn1
  have h1b : (s₁.kindAt (s₁.pos + 0) == .SEMICOLON) = false := by rw [← hs₁]; exact beq_false_of_ne hn2
  have hsub' : exprStmt (f + 1) (some { pos := s.events.size + 0 })
        (s.ov [Ev.start SyntaxKind.TOMBSTONE none] 0 (s.steps + 1) (s.sinceBump + 1) (s.live + 1) s.protectedPos) =
      .ok (some (⟨s.events.size + off, kr⟩, .block), s₁.ov [] 0 0 sbx s₁.live s₁.protectedPos) := by
    rw [hsub, ov_rebase s X n 0 sbx, hs₁, h1l, h1pr]
  have hpre := precede_base s₁ h1n (s.events.size + off) kr kr none hp
  have hcomp := fun E dp st sb lv pr i b kind =>
    complete_ov (s₁.setEv (s.events.size + off) (.start kr (some (s₁.events.size + 0 - (s.events.size + off))))) E dp st sb lv pr h1n i b kind
  simp only [setEv_size] at hcomp
  have hfin : ∀ st sb, (Except.ok ((), (s₁.setEv (s.events.size + off)
        (.start kr (some (s₁.events.size + 0 - (s.events.size + off))))).ov
        [Ev.start SyntaxKind.EXPR_STMT none, Ev.finish] 0 st sb s₁.live s₁.protectedPos) :
        Except Outcome (Unit × P)) =
      .ok ((), s.ov (X.set off (.start kr (some (X.length - off))) ++ [.start .EXPR_STMT none, .finish]) n st sb s.live s.protectedPos) := by
    intro st sb
    rw [h1l, h1pr, hsz, ← hs₁, setEv_ov_ov, show s.events.size + X.length + 0 - (s.events.size + off) = X.length - off by omega]
    rfl
  refine ⟨0, ?_, Nat.zero_le _, of_ov _ _ _ ?_⟩
  rotate_left 1
  sym_eval [filter_base s hpr, contains_base s hpr, h0, hsub', hkr, hpre, hcomp, h1a, h1b, setEv_size, setEv_kindAt, setEv_pos,
    setEv_npl, setEv_stepLimit, filter_base s₁ hpr₁, contains_base s₁ hpr₁, bne_self_eq_false]
  exact hfin _ _

/-- a bare block `{ ss }` as a statement, followed by a token that is neither `}` nor `;` -/
theorem stmt_block (ss : Stmts2) (need : Nat) (ih : StmtsOK2 ss need) : StmtOK2 (.block ss) (need + 7) := by
  intro F s hF hr htk hfol
  obtain ⟨g, rfl⟩ : ∃ g, F = g + 4 + 2 := ⟨F - 6, by omega⟩
  simp only [toksS2, Toks, Toks_append, tk, List.length_cons, List.length_append, List.length_nil] at htk hfol ⊢
  obtain ⟨h0, -, htb, hrc, -, -⟩ := htk
  rw [show s.pos = s.pos + 0 from rfl] at h0
  have hnp := hr.hook
  have hpr := hr.prot
  have hlim := hr.lim
  have hst : s.steps + 2 ≤ s.stepLimit := by have := hr.steps; omega
  have hpr' : ∀ n, ∀ p ∈ s.protectedPos, p < s.events.size + n := fun n p hp => Nat.lt_add_right n (hr.prot p hp)
  obtain ⟨sbb, hblk⟩ := blockExpr_exact ss need (g + 1) ih
    (s.ov [.start .TOMBSTONE none] 0 (s.steps + 1 + 1) (s.sinceBump + 1) (s.live + 1) s.protectedPos) (by omega)
    (RdyL_ov 1 s _ _ _ _ _ _ hr.hook (by have := hr.steps; omega) (hpr' _) hr.lim) h0
    ((Toks_ov s _ _ _ _ _ _ _ _).2 (Toks_pos htb (by show s.pos + 0 + 1 = _; omega)))
    (kindAt_pos hrc (by show s.pos + 0 + _ = _; omega))
  rw [ov_ov] at hblk
  simp only [List.cons_append, List.nil_append, ov_events_size, ov_live, ov_prot, List.length_cons, List.length_nil, Nat.zero_add, Nat.add_zero,
    blockEvs] at hblk
  have hn1 : s.kindAt (s.pos + ((toksL2 ss).length + 2)) ≠ .R_CURLY := by
    intro h; exact hfol.noCurly rfl (kindAt_pos h (by omega))
  have hn2 : s.kindAt (s.pos + ((toksL2 ss).length + 2)) ≠ .SEMICOLON := by
    intro h; exact hfol.noSemi rfl (kindAt_pos h (by omega))
  have hsub : exprStmt (g + 4 + 1) (some { pos := s.events.size + 0 })
      (s.ov [Ev.start SyntaxKind.TOMBSTONE none] 0 (s.steps + 1) (s.sinceBump + 1) (s.live + 1) s.protectedPos) =
      .ok (some (⟨s.events.size + 1, .BLOCK_EXPR⟩, .block),
        s.ov (tombLink :: .start .BLOCK_EXPR none :: .token .L_CURLY 1 :: (evsL2 ss ++ [.token .R_CURLY 1, .finish]))
          ((toksL2 ss).length + 2) 0 sbb s.live s.protectedPos) := by
    sym_eval [filter_base s hpr, contains_base s hpr, h0, hblk]
    rfl
  refine (stmt_wrapB _ s hr h0 _ _ 1 _ _ hsub rfl rfl hn1 hn2).congr ?_ ?_
  · simp only [evsS2, tombLink, List.set_cons_succ, List.set_cons_zero, List.cons_append, List.nil_append,
      List.append_assoc, List.length_cons, List.length_append, List.length_nil]
    congr 3
  · omega

/-- `gate g q0, …, q_nq { body }` -/
theorem stmt_gateDef_none2 (nq : Nat) (body : Stmts2) (need F : Nat) (ih : StmtsOK2 body need) (s : P) (hr : RdyL 8 s)
    (hF : max (nq + 5) (need + 3) + 3 ≤ F) (htk : Toks s s.pos (toksS2 (.gateDef none nq body))) :
    Acc (stmt F) s (toksS2 (.gateDef none nq body)).length (evsS2 (.gateDef none nq body)) := by
  obtain ⟨g, rfl⟩ : ∃ g, F = g + 3 := ⟨F - 3, by omega⟩
  simp only [toksS2, Toks, Toks_append, tk, List.length_cons, List.length_append, List.length_nil] at htk ⊢
  obtain ⟨h0, -, h1, -, htq, hlc, -, htb, hrc, -, -⟩ := htk
  rw [show s.pos = s.pos + 0 from rfl] at h0
  have h2 : s.kindAt (s.pos + 2) = .IDENT := by
    obtain ⟨ts, hts⟩ := qubitToks_head nq
    rw [hts] at htq; exact htq.1
  have hpr' : ∀ n, ∀ p ∈ s.protectedPos, p < s.events.size + n := fun n p hp => Nat.lt_add_right n (hr.prot p hp)
  obtain ⟨st1, sb1, hle1, hq⟩ :=
    (gateQubits_acc' nq g (by omega)
      (s.ov [.start .TOMBSTONE none, .token .GATE_KW 1, .start .NAME none, .token .IDENT 1, .finish] 2 0 2 (s.live + 1) s.protectedPos)
      (Rdy_ov 2 s _ _ _ _ _ _ hr.hook (by have := hr.steps; omega) (hpr' _))
      ((Toks_ov s _ _ _ _ _ _ _ _).2 htq) hlc).at_ov
  obtain rfl : st1 = 0 := by omega
  simp only [List.cons_append, List.nil_append] at hq
  obtain ⟨st2, sb2, hle2, hblk⟩ :=
    (tryBlock_acc2 body need g ih
      (s.ov (.start .TOMBSTONE none :: .token .GATE_KW 1 :: .start .NAME none :: .token .IDENT 1 :: .finish ::
          .start .PARAM_LIST none :: (paramEvs nq ++ [.finish]))
        (2 + (qubitToks nq).length) 0 sb1 (s.live + 1) s.protectedPos) (by omega)
      (RdyL_ov 8 s _ _ _ _ _ _ hr.hook (by have := hr.lim; omega) (hpr' _) hr.lim)
      (kindAt_pos hlc (by show s.pos + _ + 0 = _; omega))
      ((Toks_ov s _ _ _ _ _ _ _ _).2 (Toks_pos htb (by show s.pos + _ + 1 = _; omega)))
      (kindAt_pos hrc (by show s.pos + _ + _ = _; omega))).at_ov
  simp only [List.cons_append, List.nil_append] at hblk
  run_base3 [h0, h1, h2, hq, hblk]

/-- `gate g(p0, …, p_k) q0, …, q_nq { body }` -/
theorem stmt_gateDef_some2 (k nq : Nat) (body : Stmts2) (need F : Nat) (ih : StmtsOK2 body need) (s : P) (hr : RdyL 8 s)
    (hF : max (max (k + 5) (nq + 5)) (need + 3) + 3 ≤ F) (htk : Toks s s.pos (toksS2 (.gateDef (some k) nq body))) :
    Acc (stmt F) s (toksS2 (.gateDef (some k) nq body)).length (evsS2 (.gateDef (some k) nq body)) := by
  obtain ⟨g, rfl⟩ : ∃ g, F = g + 3 := ⟨F - 3, by omega⟩
  simp only [toksS2, Toks, Toks_append, tk, List.length_cons, List.length_append, List.length_nil] at htk ⊢
  obtain ⟨h0, -, h1, -, h2, -, htp, hrp, -, htq, hlc, -, htb, hrc, -, -⟩ := htk
  rw [show s.pos = s.pos + 0 from rfl] at h0
  rw [show s.pos + 1 + 1 = s.pos + 2 from rfl] at h2
  have hpr' : ∀ n, ∀ p ∈ s.protectedPos, p < s.events.size + n := fun n p hp => Nat.lt_add_right n (hr.prot p hp)
  obtain ⟨st0, sb0, hle0, hp⟩ :=
    (gateParams_acc' k g (by omega)
      (s.ov [.start .TOMBSTONE none, .token .GATE_KW 1, .start .NAME none, .token .IDENT 1, .finish] 2 0 2 (s.live + 1) s.protectedPos)
      (Rdy_ov 2 s _ _ _ _ _ _ hr.hook (by have := hr.steps; omega) (hpr' _))
      h2 ((Toks_ov s _ _ _ _ _ _ _ _).2 (Toks_pos htp (by show s.pos + 2 + 1 = _; omega)))
      (kindAt_pos hrp (by show s.pos + 2 + _ = _; omega))).at_ov
  obtain rfl : st0 = 0 := by omega
  simp only [List.cons_append, List.nil_append] at hp
  obtain ⟨st1, sb1, hle1, hq⟩ :=
    (gateQubits_acc' nq g (by omega)
      (s.ov (.start .TOMBSTONE none :: .token .GATE_KW 1 :: .start .NAME none :: .token .IDENT 1 :: .finish ::
          .start .PARAM_LIST none :: .token .L_PAREN 1 :: (paramEvs k ++ [.token .R_PAREN 1, .finish]))
        (2 + ((qubitToks k).length + 2)) 0 sb0 (s.live + 1) s.protectedPos)
      (Rdy_ov 2 s _ _ _ _ _ _ hr.hook (by have := hr.steps; omega) (hpr' _))
      ((Toks_ov s _ _ _ _ _ _ _ _).2 (Toks_pos htq (by show s.pos + _ = _; omega)))
      (kindAt_pos hlc (by show s.pos + _ + _ = _; omega))).at_ov
  obtain rfl : st1 = 0 := by omega
  simp only [List.cons_append, List.nil_append] at hq
  have hq0 : s.kindAt (s.pos + (2 + ((qubitToks k).length + 2))) ≠ .L_PAREN := by
    obtain ⟨ts, hts⟩ := qubitToks_head nq
    rw [hts] at htq; rw [kindAt_pos htq.1 (by omega)]; decide
  obtain ⟨st2, sb2, hle2, hblk⟩ :=
    (tryBlock_acc2 body need g ih
      (s.ov (.start .TOMBSTONE none :: .token .GATE_KW 1 :: .start .NAME none :: .token .IDENT 1 :: .finish ::
          .start .PARAM_LIST none :: .token .L_PAREN 1 :: (paramEvs k ++ [.token .R_PAREN 1, .finish]) ++
          .start .PARAM_LIST none :: (paramEvs nq ++ [.finish]))
        (2 + ((qubitToks k).length + 2) + (qubitToks nq).length) 0 sb1 (s.live + 1) s.protectedPos) (by omega)
      (RdyL_ov 8 s _ _ _ _ _ _ hr.hook (by have := hr.lim; omega) (hpr' _) hr.lim)
      (kindAt_pos hlc (by show s.pos + _ + 0 = _; omega))
      ((Toks_ov s _ _ _ _ _ _ _ _).2 (Toks_pos htb (by show s.pos + _ + 1 = _; omega)))
      (kindAt_pos hrc (by show s.pos + _ + _ = _; omega))).at_ov
  simp only [List.cons_append, List.nil_append] at hblk
  run_base3 [h0, h1, h2, hp, hq, hblk]

/-- `def f(ty x, …) { body }` / `def f(ty x, …) -> ty { body }` -/
theorem stmt_defS2 (ps : List PTy) (ret : Option Ty) (body : Stmts2) (need F : Nat) (ih : StmtsOK2 body need) (s : P)
    (hr : RdyL 8 s) (hF : max (ps.length + 6) (need + 3) + 3 ≤ F) (htk : Toks s s.pos (toksS2 (.defS ps ret body))) :
    Acc (stmt F) s (toksS2 (.defS ps ret body)).length (evsS2 (.defS ps ret body)) := by
  obtain ⟨g, rfl⟩ : ∃ g, F = g + 3 := ⟨F - 3, by omega⟩
  simp only [toksS2, Toks, Toks_append, tk, List.length_cons, List.length_append, List.length_nil] at htk ⊢
  obtain ⟨h0, -, h1, -, h2, -, htp, hrp, -, htr, hlc, -, htb, hrc, -, -⟩ := htk
  rw [show s.pos = s.pos + 0 from rfl] at h0
  rw [show s.pos + 1 + 1 = s.pos + 2 from rfl] at h2
  have hpr' : ∀ n, ∀ p ∈ s.protectedPos, p < s.events.size + n := fun n p hp => Nat.lt_add_right n (hr.prot p hp)
  obtain ⟨st0, sb0, hle0, hp⟩ :=
    (defParams_acc' ps g (by omega)
      (s.ov [.start .TOMBSTONE none, .token .DEF_KW 1, .start .NAME none, .token .IDENT 1, .finish] 2 0 2 (s.live + 1) s.protectedPos)
      (Rdy_ov 2 s _ _ _ _ _ _ hr.hook (by have := hr.steps; omega) (hpr' _))
      h2 ((Toks_ov s _ _ _ _ _ _ _ _).2 (Toks_pos htp (by show s.pos + 2 + 1 = _; omega)))
      (kindAt_pos hrp (by show s.pos + 2 + _ = _; omega))).at_ov
  obtain rfl : st0 = 0 := by omega
  simp only [List.cons_append, List.nil_append] at hp
  obtain ⟨st1, sb1, hle1, hrs⟩ :=
    (retSig_acc' ret g (by omega)
      (s.ov (.start .TOMBSTONE none :: .token .DEF_KW 1 :: .start .NAME none :: .token .IDENT 1 :: .finish ::
          .start .TYPED_PARAM_LIST none :: .token .L_PAREN 1 :: (typedEvs ps ++ [.token .R_PAREN 1, .finish]))
        (2 + ((typedToks ps).length + 2)) 0 sb0 (s.live + 1) s.protectedPos)
      (Rdy_ov 2 s _ _ _ _ _ _ hr.hook (by have := hr.steps; omega) (hpr' _))
      ((Toks_ov s _ _ _ _ _ _ _ _).2 (Toks_pos htr (by show s.pos + _ = _; omega)))
      (kindAt_pos hlc (by show s.pos + _ + _ = _; omega))).at_ov
  obtain rfl : st1 = 0 := by omega
  simp only [List.cons_append, List.nil_append] at hrs
  obtain ⟨st2, sb2, hle2, hblk⟩ :=
    (tryBlock_acc2 body need g ih
      (s.ov (.start .TOMBSTONE none :: .token .DEF_KW 1 :: .start .NAME none :: .token .IDENT 1 :: .finish ::
          .start .TYPED_PARAM_LIST none :: .token .L_PAREN 1 :: (typedEvs ps ++ [.token .R_PAREN 1, .finish]) ++ retEvs ret)
        (2 + ((typedToks ps).length + 2) + (retToks ret).length) 0 sb1 (s.live + 1) s.protectedPos) (by omega)
      (RdyL_ov 8 s _ _ _ _ _ _ hr.hook (by have := hr.lim; omega) (hpr' _) hr.lim)
      (kindAt_pos hlc (by show s.pos + _ + 0 = _; omega))
      ((Toks_ov s _ _ _ _ _ _ _ _).2 (Toks_pos htb (by show s.pos + _ + 1 = _; omega)))
      (kindAt_pos hrc (by show s.pos + _ + _ = _; omega))).at_ov
  simp only [List.cons_append, List.nil_append] at hblk
  run_base3 [h0, h1, h2, hp, hrs, hblk]


/-- `cal { body }` -/
theorem stmt_cal (body : Stmts2) (need F : Nat) (ih : StmtsOK2 body need) (s : P) (hr : RdyL 8 s)
    (hF : need + 6 ≤ F) (htk : Toks s s.pos (toksS2 (.cal body))) :
    Acc (stmt F) s (toksS2 (.cal body)).length (evsS2 (.cal body)) := by
  obtain ⟨g, rfl⟩ : ∃ g, F = g + 3 := ⟨F - 3, by omega⟩
  simp only [toksS2, Toks, Toks_append, tk, List.length_cons, List.length_append, List.length_nil] at htk ⊢
  obtain ⟨h0, -, hlc, -, htb, hrc, -, -⟩ := htk
  rw [show s.pos = s.pos + 0 from rfl] at h0
  have hpr' : ∀ n, ∀ p ∈ s.protectedPos, p < s.events.size + n := fun n p hp => Nat.lt_add_right n (hr.prot p hp)
  obtain ⟨st2, sb2, hle2, hblk⟩ :=
    (tryBlock_acc2 body need g ih
      (s.ov [.start .TOMBSTONE none, .token .CAL_KW 1] 1 0 1 (s.live + 1) s.protectedPos) (by omega)
      (RdyL_ov 8 s _ _ _ _ _ _ hr.hook (by have := hr.lim; omega) (hpr' _) hr.lim)
      hlc ((Toks_ov s _ _ _ _ _ _ _ _).2 (Toks_pos htb (by show s.pos + 1 + 1 = _; omega)))
      (kindAt_pos hrc (by show s.pos + 1 + _ = _; omega))).at_ov
  simp only [List.cons_append, List.nil_append] at hblk
  run_base3 [h0, hblk]

end Oq3.LangEv2
