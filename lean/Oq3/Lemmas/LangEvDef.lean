/-
C04 for a recursive reference language, part 4b: definitions (`gate`, `def`) and `return`.
-/
import Oq3.Lemmas.LangEvCtl
set_option linter.unusedSimpArgs false
set_option linter.unusedVariables false

namespace Oq3.LangEv
open Oq3.Gen Oq3.Parser Oq3.Grammar Oq3.SymExec Oq3.PrattEv
open Oq3.Gen.Ops (Assoc)

theorem paramEvs_length (n : Nat) : (paramEvs n).length = 4 * n + 3 := by
  induction n with
  | zero => rfl
  | succ n ih => simp only [paramEvs, List.length_cons, ih]; omega

/-- the item loop of `_param_list_openqasm` on the parameters of a gate definition, `( p0, …, pn )` -/
theorem gateParamLoop_acc (n : Nat) : ∀ (g k : Nat) (s : P), Rdy 2 s → Toks s s.pos (qubitToks n) →
    s.kindAt (s.pos + (qubitToks n).length) = .R_PAREN →
    AccV (paramListOpenqasmLoop (g + n + 3) .gateParams k) (k + n + 1) s (qubitToks n).length (paramEvs n) := by
  induction n with
  | zero =>
    intro g k s hr htk hend
    simp only [qubitToks, Toks, tk, List.length_cons, List.length_nil] at htk hend
    obtain ⟨h0, -, -⟩ := htk
    rw [show s.pos = s.pos + 0 from rfl] at h0
    simp only [Nat.zero_add] at hend
    run_base [h0, hend]
  | succ n ih =>
    intro g k s hr htk hend
    simp only [qubitToks, Toks, tk, List.length_cons] at htk hend
    obtain ⟨h0, -, h1, -, htk⟩ := htk
    rw [show s.pos = s.pos + 0 from rfl] at h0
    have hpr' : ∀ n, ∀ p ∈ s.protectedPos, p < s.events.size + n := fun n p hp => Nat.lt_add_right n (hr.prot p hp)
    obtain ⟨st', sb', hle, hrec'⟩ :=
      (ih g (k + 1) (s.ov [.start .PARAM none, .token .IDENT 1, .finish, .token .COMMA 1] 2 0 1 s.live s.protectedPos)
        (Rdy_ov 2 s _ 2 0 1 s.live s.protectedPos hr.hook (by have := hr.steps; omega) (hpr' _))
        ((Toks_ov s _ 2 0 1 s.live s.protectedPos _ _).2 (by rw [Nat.add_assoc] at htk; exact htk))
        (by rw [← hend]; show s.kindAt (s.pos + 2 + _) = _; congr 1; omega)).at_ov
    show AccV (paramListOpenqasmLoop ((g + n + 3) + 1) .gateParams k) _ s _ _
    run_base [h0, h1, hrec']
/-- the item loop of `_param_list_openqasm` on the qubits of a gate definition, `q0, …, qn {` -/
theorem gateQubitLoop_acc (n : Nat) : ∀ (g k : Nat) (s : P), Rdy 2 s → Toks s s.pos (qubitToks n) →
    s.kindAt (s.pos + (qubitToks n).length) = .L_CURLY →
    AccV (paramListOpenqasmLoop (g + n + 3) .gateQubits k) (k + n + 1) s (qubitToks n).length (paramEvs n) := by
  induction n with
  | zero =>
    intro g k s hr htk hend
    simp only [qubitToks, Toks, tk, List.length_cons, List.length_nil] at htk hend
    obtain ⟨h0, -, -⟩ := htk
    rw [show s.pos = s.pos + 0 from rfl] at h0
    simp only [Nat.zero_add] at hend
    run_base [h0, hend]
  | succ n ih =>
    intro g k s hr htk hend
    simp only [qubitToks, Toks, tk, List.length_cons] at htk hend
    obtain ⟨h0, -, h1, -, htk⟩ := htk
    rw [show s.pos = s.pos + 0 from rfl] at h0
    have hpr' : ∀ n, ∀ p ∈ s.protectedPos, p < s.events.size + n := fun n p hp => Nat.lt_add_right n (hr.prot p hp)
    obtain ⟨st', sb', hle, hrec'⟩ :=
      (ih g (k + 1) (s.ov [.start .PARAM none, .token .IDENT 1, .finish, .token .COMMA 1] 2 0 1 s.live s.protectedPos)
        (Rdy_ov 2 s _ 2 0 1 s.live s.protectedPos hr.hook (by have := hr.steps; omega) (hpr' _))
        ((Toks_ov s _ 2 0 1 s.live s.protectedPos _ _).2 (by rw [Nat.add_assoc] at htk; exact htk))
        (by rw [← hend]; show s.kindAt (s.pos + 2 + _) = _; congr 1; omega)).at_ov
    show AccV (paramListOpenqasmLoop ((g + n + 3) + 1) .gateQubits k) _ s _ _
    run_base [h0, h1, hrec']

/-- `param_list_gate_params` on `( p0, …, pn )` -/
theorem gateParams_acc (n g : Nat) (s : P) (hr : Rdy 2 s) (h0 : s.kindAt (s.pos + 0) = .L_PAREN)
    (htk : Toks s (s.pos + 1) (qubitToks n))
    (hend : s.kindAt (s.pos + (1 + (qubitToks n).length)) = .R_PAREN) :
    Acc (paramListGateParams (g + n + 5)) s ((qubitToks n).length + 2)
      (.start .PARAM_LIST none :: .token .L_PAREN 1 :: (paramEvs n ++ [.token .R_PAREN 1, .finish])) := by
  have hpr' : ∀ n, ∀ p ∈ s.protectedPos, p < s.events.size + n := fun n p hp => Nat.lt_add_right n (hr.prot p hp)
  obtain ⟨st', sb', hle, hloop⟩ :=
    (gateParamLoop_acc n g 0 (s.ov [.start .TOMBSTONE none, .token .L_PAREN 1] 1 0 1 (s.live + 1) s.protectedPos)
      (Rdy_ov 2 s _ _ _ _ _ _ hr.hook (by have := hr.steps; omega) (hpr' _))
      ((Toks_ov s _ _ _ _ _ _ _ _).2 htk) (kindAt_pos hend (by show s.pos + 1 + _ = _; omega))).at_ov
  have hnum : (0 + n + 1 < 1) = False := eq_false (by omega)
  show Acc (paramListGateParams ((g + n + 3) + 1 + 1)) _ _ _
  run_base [h0, hloop, hend, hnum]

/-- `param_list_gate_qubits` on `q0, …, qn {` -/
theorem gateQubits_acc (n g : Nat) (s : P) (hr : Rdy 2 s) (htk : Toks s s.pos (qubitToks n))
    (hend : s.kindAt (s.pos + (qubitToks n).length) = .L_CURLY) :
    Acc (paramListGateQubits (g + n + 5)) s (qubitToks n).length
      (.start .PARAM_LIST none :: (paramEvs n ++ [.finish])) := by
  have hpr' : ∀ n, ∀ p ∈ s.protectedPos, p < s.events.size + n := fun n p hp => Nat.lt_add_right n (hr.prot p hp)
  obtain ⟨st', sb', hle, hloop⟩ :=
    (gateQubitLoop_acc n g 0 (s.ov [.start .TOMBSTONE none] 0 s.steps (s.sinceBump + 1) (s.live + 1) s.protectedPos)
      (Rdy_ov 2 s _ _ _ _ _ _ hr.hook hr.steps (hpr' _))
      ((Toks_ov s _ _ _ _ _ _ _ _).2 htk) hend).at_ov
  show Acc (paramListGateQubits ((g + n + 3) + 1 + 1)) _ _ _
  run_base [hloop]

/-- the item loop of `_param_list_openqasm` on the typed parameters of a subroutine -/
theorem typedLoop_acc (ps : List PTy) : ∀ (p : PTy) (g k : Nat) (s : P), Rdy 2 s → Toks s s.pos (typedToks (p :: ps)) →
    s.kindAt (s.pos + (typedToks (p :: ps)).length) = .R_PAREN →
    AccV (paramListOpenqasmLoop (g + ps.length + 5) .defParams k) (k + ps.length + 1) s (typedToks (p :: ps)).length
      (typedEvs (p :: ps)) := by
  induction ps with
  | nil =>
    intro p g k s hr htk hend
    simp only [typedToks, Toks, tk, List.length_cons, List.length_nil] at htk hend
    obtain ⟨h0, -, h1, -, -⟩ := htk
    rw [show s.pos = s.pos + 0 from rfl] at h0
    simp only [Nat.zero_add, Nat.reduceAdd] at hend
    rcases p with ty | _
    · cases ty <;> simp only [PTy.kind, Ty.kind] at h0 <;> run_base [h0, h1, hend]
    · simp only [PTy.kind] at h0; run_base [h0, h1, hend]
  | cons q qs ih =>
    intro p g k s hr htk hend
    rw [show typedToks (p :: q :: qs) = tk p.kind :: tk .IDENT :: tk .COMMA :: typedToks (q :: qs) from rfl] at htk hend
    simp only [Toks, tk, List.length_cons] at htk hend
    obtain ⟨h0, -, h1, -, h2, -, htk⟩ := htk
    rw [show s.pos = s.pos + 0 from rfl] at h0
    rw [show s.pos + 1 + 1 = s.pos + 2 from rfl] at h2
    have hpr' : ∀ n, ∀ p ∈ s.protectedPos, p < s.events.size + n := fun n p hp => Nat.lt_add_right n (hr.prot p hp)
    obtain ⟨st', sb', hle, hrec'⟩ :=
      (ih q g (k + 1) (s.ov [.start .TYPED_PARAM none, .start .SCALAR_TYPE none, .token p.kind 1, .finish, .start .NAME none,
          .token .IDENT 1, .finish, .finish, .token .COMMA 1] 3 0 1 s.live s.protectedPos)
        (Rdy_ov 2 s _ _ _ _ _ _ hr.hook (by have := hr.steps; omega) (hpr' _))
        ((Toks_ov s _ _ _ _ _ _ _ _).2 (Toks_pos htk (by show s.pos + 3 = _; omega)))
        (kindAt_pos hend (by show s.pos + 3 + _ = _; omega))).at_ov
    show AccV (paramListOpenqasmLoop ((g + qs.length + 5) + 1) .defParams k) _ s _ _
    rcases p with ty | _
    · cases ty <;> simp only [PTy.kind, Ty.kind] at h0 hrec' <;> run_base [h0, h1, h2, hrec']
    · simp only [PTy.kind] at h0 hrec'; run_base [h0, h1, h2, hrec']

/-- `param_list_def_params` on `( ty0 x0, … )` (possibly empty) -/
theorem defParams_acc (ps : List PTy) (g : Nat) (s : P) (hr : Rdy 2 s) (h0 : s.kindAt (s.pos + 0) = .L_PAREN)
    (htk : Toks s (s.pos + 1) (typedToks ps))
    (hend : s.kindAt (s.pos + (1 + (typedToks ps).length)) = .R_PAREN) :
    Acc (paramListDefParams (g + ps.length + 6)) s ((typedToks ps).length + 2)
      (.start .TYPED_PARAM_LIST none :: .token .L_PAREN 1 :: (typedEvs ps ++ [.token .R_PAREN 1, .finish])) := by
  cases ps with
  | nil =>
    simp only [typedToks, List.length_nil, Nat.add_zero] at hend
    run_base [h0, hend]
  | cons p ps =>
    have hpr' : ∀ n, ∀ p ∈ s.protectedPos, p < s.events.size + n := fun n p hp => Nat.lt_add_right n (hr.prot p hp)
    obtain ⟨st', sb', hle, hloop⟩ :=
      (typedLoop_acc ps p g 0 (s.ov [.start .TOMBSTONE none, .token .L_PAREN 1] 1 0 1 (s.live + 1) s.protectedPos)
        (Rdy_ov 2 s _ _ _ _ _ _ hr.hook (by have := hr.steps; omega) (hpr' _))
        ((Toks_ov s _ _ _ _ _ _ _ _).2 htk) (kindAt_pos hend (by show s.pos + 1 + _ = _; omega))).at_ov
    show Acc (paramListDefParams ((g + ps.length + 5) + 1 + 1)) _ _ _
    run_base [h0, hloop, hend]

theorem Ty.isScalar (ty : Ty) : ty.kind.isScalarType = true := by cases ty <;> rfl

/-- `opt_return_signature`: nothing, or `-> ty` -/
theorem retSig_acc (ret : Option Ty) (g : Nat) (s : P) (hr : Rdy 2 s) (htk : Toks s s.pos (retToks ret))
    (hnext : s.kindAt (s.pos + (retToks ret).length) = .L_CURLY) :
    AccV (optReturnSignature (g + 5)) ret.isSome s (retToks ret).length (retEvs ret) := by
  cases ret with
  | none =>
    simp only [retToks, List.length_nil] at hnext
    have hnp := hr.hook
    refine ⟨s.steps, s.sinceBump, Nat.le_refl _, of_ov _ _ _ ?_⟩
    sym_eval [hnext]
    rfl
  | some ty =>
    simp only [retToks, Toks, tk, List.length_cons, List.length_nil, true_implies] at htk hnext
    obtain ⟨h0, hj, h1, -, h2, -, -⟩ := htk
    have h3 : s.kindAt (s.pos + 3) = .L_CURLY := kindAt_pos hnext (by omega)
    rw [show s.pos = s.pos + 0 from rfl] at h0
    rw [show s.pos + 1 + 1 = s.pos + 2 from rfl] at h2
    have hatF : atF .THIN_ARROW s.kinds s.joint (s.pos + 0) = true := by
      rw [atF_THIN_ARROW]
      simp only [P.kindAt] at h0 h1
      simp only [Nat.add_zero] at h0 ⊢
      simp only [h0, h1, hj, beq_self_eq_true, Bool.and_self]
    have hat : ∀ E st sb lv pr, at' .THIN_ARROW (s.ov E 0 st sb lv pr) = .ok (true, s.ov E 0 st sb lv pr) := by
      intro E st sb lv pr; rw [at_total]; exact congrArg (fun b => Except.ok (b, _)) hatF
    have hjr : ∀ E st sb lv pr, (s.ov E 0 st sb lv pr).jointRes (s.pos + 0) = .ok (true, s.ov E 0 st sb lv pr) := by
      intro E st sb lv pr
      unfold P.jointRes
      rw [isJoint_in_range _ _ (by show s.kindAt (s.pos + 0 + 1) ≠ _; rw [Nat.add_zero, h1]; decide)]
      have : (s.ov E 0 st sb lv pr).joint.getD (s.pos + 0) false = true := by rw [Nat.add_zero]; exact hj
      rw [this]
    have hbump := fun E st sb lv pr => bump_atF_ov .THIN_ARROW (by decide) s E 0 st sb lv pr hatF
    rw [show eatRawTokens .THIN_ARROW = 2 from by decide] at hbump
    cases ty <;> simp only [Ty.kind] at h2 <;> run_base [h0, h1, hjr, hat, hbump, h2, h3]

theorem operandFirst_exprFirst {k : SyntaxKind} (h : operandFirst k = true) :
    (decide (k.toNat < 128) && TokenSets.EXPR_FIRST.contains k) = true := by
  simp only [operandFirst, Bool.or_eq_true, beq_iff_eq] at h
  rcases h with ((((h | h) | h) | h) | h) | h <;> subst h <;> decide

/-- `return ;` -/
theorem stmt_ret_none (F : Nat) (s : P) (hr : Rdy 8 s) (hF : 8 ≤ F) (htk : Toks s s.pos (toksS (.ret none))) :
    Acc (stmt F) s (toksS (.ret none)).length (evsS (.ret none)) := by
  obtain ⟨f, rfl⟩ : ∃ f, F = f + 6 + 2 := ⟨F - 8, by omega⟩
  simp only [toksS, Toks, tk] at htk
  obtain ⟨h0, -, h1, -, -⟩ := htk
  rw [show s.pos = s.pos + 0 from rfl] at h0
  have hnp := hr.hook
  have hpr := hr.prot
  have hst : s.steps + 1 ≤ s.stepLimit := by have := hr.steps; omega
  have hsub : exprStmt (f + 6 + 1) (some { pos := s.events.size + 0 })
      (s.ov [Ev.start SyntaxKind.TOMBSTONE none] 0 (s.steps + 1) (s.sinceBump + 1) (s.live + 1) s.protectedPos) =
      .ok (some (⟨s.events.size + 1, .RETURN_EXPR⟩, .notBlock),
        s.ov [tombLink, .start .RETURN_EXPR none, .token .RETURN_KW 1, .finish] 1 0 2 s.live s.protectedPos) := by
    sym_eval [filter_base s hpr, contains_base s hpr, h0, h1]
    rfl
  exact stmt_wrap (f + 6) s hr _ (by decide) h0 _ 1 1 2 _ hsub rfl rfl h1

/-- `return e ;` -/
theorem stmt_ret_some (e : E) (F : Nat) (s : P) (hr : Rdy 8 s) (hF : 6 * size e + 9 ≤ F)
    (htk : Toks s s.pos (toksS (.ret (some e)))) (hc : CanonE 1 e) :
    Acc (stmt F) s (toksS (.ret (some e))).length (evsS (.ret (some e))) := by
  obtain ⟨f, rfl⟩ : ∃ f, F = f + 7 + 2 := ⟨F - 9, by omega⟩
  simp only [toksS, Toks, Toks_append, tk, List.length_cons, List.length_append, List.length_nil] at htk ⊢
  obtain ⟨h0, -, hte, hsemi, -, -⟩ := htk
  rw [show s.pos = s.pos + 0 from rfl] at h0
  have hnp := hr.hook
  have hpr := hr.prot
  have hst : s.steps + 1 ≤ s.stepLimit := by have := hr.steps; omega
  have hpr' : ∀ n, ∀ p ∈ s.protectedPos, p < s.events.size + n := fun n p hp => Nat.lt_add_right n (hr.prot p hp)
  obtain ⟨k1, j1, ts, hts, hk1⟩ := toks_first e
  have h1 : s.kindAt (s.pos + 1) = k1 := by rw [hts] at hte; exact hte.1
  have hEF := operandFirst_exprFirst (h1 ▸ hk1)
  have he := fun st sb lv E0 h1 => expr_ov e s E0 1 st sb lv s.protectedPos (f + 2) hr.hook h1 (hpr' _)
    hte hc (by rw [hsemi]; rfl) (by omega)
  have hsemi' : s.kindAt (s.pos + (1 + (toks e).length)) = .SEMICOLON := kindAt_pos hsemi (by omega)
  have hsub : exprStmt (f + 7 + 1) (some { pos := s.events.size + 0 })
      (s.ov [Ev.start SyntaxKind.TOMBSTONE none] 0 (s.steps + 1) (s.sinceBump + 1) (s.live + 1) s.protectedPos) =
      .ok (some (⟨s.events.size + 1, .RETURN_EXPR⟩, .notBlock),
        s.ov (tombLink :: .start .RETURN_EXPR none :: .token .RETURN_KW 1 :: (evs e ++ [.finish])) (1 + (toks e).length) 0
          (sbOf e + 1) s.live s.protectedPos) := by
    sym_eval [filter_base s hpr, contains_base s hpr, h0, hEF, he, hsemi']
    rfl
  refine (stmt_wrap _ s hr _ (by decide) h0 _ _ 1 _ _ hsub rfl rfl hsemi').congr ?_ ?_
  · simp only [evsS, tombLink, exprStmtTail, List.set_cons_succ, List.set_cons_zero, List.cons_append, List.nil_append,
      List.append_assoc, List.length_cons, List.length_append, List.length_nil, evs_length]
    congr 3
  · omega

theorem gateParams_acc' (n F : Nat) (hF : n + 5 ≤ F) (s : P) (hr : Rdy 2 s) (h0 : s.kindAt (s.pos + 0) = .L_PAREN)
    (htk : Toks s (s.pos + 1) (qubitToks n)) (hend : s.kindAt (s.pos + (1 + (qubitToks n).length)) = .R_PAREN) :
    Acc (paramListGateParams F) s ((qubitToks n).length + 2)
      (.start .PARAM_LIST none :: .token .L_PAREN 1 :: (paramEvs n ++ [.token .R_PAREN 1, .finish])) := by
  obtain ⟨g, rfl⟩ : ∃ g, F = g + n + 5 := ⟨F - n - 5, by omega⟩
  exact gateParams_acc n g s hr h0 htk hend

theorem gateQubits_acc' (n F : Nat) (hF : n + 5 ≤ F) (s : P) (hr : Rdy 2 s) (htk : Toks s s.pos (qubitToks n))
    (hend : s.kindAt (s.pos + (qubitToks n).length) = .L_CURLY) :
    Acc (paramListGateQubits F) s (qubitToks n).length (.start .PARAM_LIST none :: (paramEvs n ++ [.finish])) := by
  obtain ⟨g, rfl⟩ : ∃ g, F = g + n + 5 := ⟨F - n - 5, by omega⟩
  exact gateQubits_acc n g s hr htk hend

theorem defParams_acc' (ps : List PTy) (F : Nat) (hF : ps.length + 6 ≤ F) (s : P) (hr : Rdy 2 s)
    (h0 : s.kindAt (s.pos + 0) = .L_PAREN) (htk : Toks s (s.pos + 1) (typedToks ps))
    (hend : s.kindAt (s.pos + (1 + (typedToks ps).length)) = .R_PAREN) :
    Acc (paramListDefParams F) s ((typedToks ps).length + 2)
      (.start .TYPED_PARAM_LIST none :: .token .L_PAREN 1 :: (typedEvs ps ++ [.token .R_PAREN 1, .finish])) := by
  obtain ⟨g, rfl⟩ : ∃ g, F = g + ps.length + 6 := ⟨F - ps.length - 6, by omega⟩
  exact defParams_acc ps g s hr h0 htk hend

theorem retSig_acc' (ret : Option Ty) (F : Nat) (hF : 5 ≤ F) (s : P) (hr : Rdy 2 s) (htk : Toks s s.pos (retToks ret))
    (hnext : s.kindAt (s.pos + (retToks ret).length) = .L_CURLY) :
    AccV (optReturnSignature F) ret.isSome s (retToks ret).length (retEvs ret) := by
  obtain ⟨g, rfl⟩ : ∃ g, F = g + 5 := ⟨F - 5, by omega⟩
  exact retSig_acc ret g s hr htk hnext

/-- `{ ss }` through `try_block_expr` -/
theorem tryBlock_acc (ss : Stmts) (need F : Nat) (ih : StmtsOK ss need) (s : P) (hF : need + 3 ≤ F) (hr : Rdy 8 s)
    (h0 : s.kindAt (s.pos + 0) = .L_CURLY) (htk : Toks s (s.pos + 1) (toksL ss))
    (hclose : s.kindAt (s.pos + (1 + (toksL ss).length)) = .R_CURLY) :
    Acc (tryBlockExpr F) s ((toksL ss).length + 2) (blockEvs (evsL ss)) := by
  obtain ⟨g, rfl⟩ : ∃ g, F = g + 2 := ⟨F - 2, by omega⟩
  have hpr' : ∀ n, ∀ p ∈ s.protectedPos, p < s.events.size + n := fun n p hp => Nat.lt_add_right n (hr.prot p hp)
  obtain ⟨st', sb', hle, hbody⟩ :=
    (ih g (s.ov [.start .TOMBSTONE none, .token .L_CURLY 1] 1 0 1 (s.live + 1) s.protectedPos) (by omega)
      (Rdy_ov 8 s _ _ _ _ _ _ hr.hook (by have := hr.steps; omega) (hpr' _))
      ((Toks_ov s _ _ _ _ _ _ _ _).2 htk)
      (Or.inl (kindAt_pos hclose (by show s.pos + 1 + _ = _; omega)))).at_ov
  run_base [h0, hbody, hclose]

/-- `gate g q0, …, q_nq { body }` -/
theorem stmt_gateDef_none (nq : Nat) (body : Stmts) (need F : Nat) (ih : StmtsOK body need) (s : P) (hr : Rdy 8 s)
    (hF : max (nq + 5) (need + 3) + 3 ≤ F) (htk : Toks s s.pos (toksS (.gateDef none nq body))) :
    Acc (stmt F) s (toksS (.gateDef none nq body)).length (evsS (.gateDef none nq body)) := by
  obtain ⟨g, rfl⟩ : ∃ g, F = g + 3 := ⟨F - 3, by omega⟩
  simp only [toksS, Toks, Toks_append, tk, List.length_cons, List.length_append, List.length_nil] at htk ⊢
  obtain ⟨h0, -, h1, -, htq, hlc, -, htb, hrc, -, -⟩ := htk
  rw [show s.pos = s.pos + 0 from rfl] at h0
  have h2 : s.kindAt (s.pos + 2) = .IDENT := by
    obtain ⟨ts, hts⟩ := qubitToks_head nq
    rw [hts] at htq; exact htq.1
  have hpr' : ∀ n, ∀ p ∈ s.protectedPos, p < s.events.size + n := fun n p hp => Nat.lt_add_right n (hr.prot p hp)
  obtain ⟨st1, sb1, hle1, hq⟩ :=
    (gateQubits_acc' nq g (by omega)
      (s.ov [.start .TOMBSTONE none, .token .GATE_KW 1, .start .NAME none, .token .IDENT 1, .finish] 2 0 2 (s.live + 1) s.protectedPos)
      (Rdy_ov 2 s _ _ _ _ _ _ hr.hook (by have := hr.steps; omega) (hpr' _))
      ((Toks_ov s _ _ _ _ _ _ _ _).2 htq) hlc).at_ov
  obtain rfl : st1 = 0 := by omega
  simp only [List.cons_append, List.nil_append] at hq
  obtain ⟨st2, sb2, hle2, hblk⟩ :=
    (tryBlock_acc body need g ih
      (s.ov (.start .TOMBSTONE none :: .token .GATE_KW 1 :: .start .NAME none :: .token .IDENT 1 :: .finish ::
          .start .PARAM_LIST none :: (paramEvs nq ++ [.finish]))
        (2 + (qubitToks nq).length) 0 sb1 (s.live + 1) s.protectedPos) (by omega)
      (Rdy_ov 8 s _ _ _ _ _ _ hr.hook (by have := hr.steps; omega) (hpr' _))
      (kindAt_pos hlc (by show s.pos + _ + 0 = _; omega))
      ((Toks_ov s _ _ _ _ _ _ _ _).2 (Toks_pos htb (by show s.pos + _ + 1 = _; omega)))
      (kindAt_pos hrc (by show s.pos + _ + _ = _; omega))).at_ov
  simp only [List.cons_append, List.nil_append] at hblk
  run_base [h0, h1, h2, hq, hblk]

/-- `gate g(p0, …, p_k) q0, …, q_nq { body }` -/
theorem stmt_gateDef_some (k nq : Nat) (body : Stmts) (need F : Nat) (ih : StmtsOK body need) (s : P) (hr : Rdy 8 s)
    (hF : max (max (k + 5) (nq + 5)) (need + 3) + 3 ≤ F) (htk : Toks s s.pos (toksS (.gateDef (some k) nq body))) :
    Acc (stmt F) s (toksS (.gateDef (some k) nq body)).length (evsS (.gateDef (some k) nq body)) := by
  obtain ⟨g, rfl⟩ : ∃ g, F = g + 3 := ⟨F - 3, by omega⟩
  simp only [toksS, Toks, Toks_append, tk, List.length_cons, List.length_append, List.length_nil] at htk ⊢
  obtain ⟨h0, -, h1, -, h2, -, htp, hrp, -, htq, hlc, -, htb, hrc, -, -⟩ := htk
  rw [show s.pos = s.pos + 0 from rfl] at h0
  rw [show s.pos + 1 + 1 = s.pos + 2 from rfl] at h2
  have hpr' : ∀ n, ∀ p ∈ s.protectedPos, p < s.events.size + n := fun n p hp => Nat.lt_add_right n (hr.prot p hp)
  obtain ⟨st0, sb0, hle0, hp⟩ :=
    (gateParams_acc' k g (by omega)
      (s.ov [.start .TOMBSTONE none, .token .GATE_KW 1, .start .NAME none, .token .IDENT 1, .finish] 2 0 2 (s.live + 1) s.protectedPos)
      (Rdy_ov 2 s _ _ _ _ _ _ hr.hook (by have := hr.steps; omega) (hpr' _))
      h2 ((Toks_ov s _ _ _ _ _ _ _ _).2 (Toks_pos htp (by show s.pos + 2 + 1 = _; omega)))
      (kindAt_pos hrp (by show s.pos + 2 + _ = _; omega))).at_ov
  obtain rfl : st0 = 0 := by omega
  simp only [List.cons_append, List.nil_append] at hp
  obtain ⟨st1, sb1, hle1, hq⟩ :=
    (gateQubits_acc' nq g (by omega)
      (s.ov (.start .TOMBSTONE none :: .token .GATE_KW 1 :: .start .NAME none :: .token .IDENT 1 :: .finish ::
          .start .PARAM_LIST none :: .token .L_PAREN 1 :: (paramEvs k ++ [.token .R_PAREN 1, .finish]))
        (2 + ((qubitToks k).length + 2)) 0 sb0 (s.live + 1) s.protectedPos)
      (Rdy_ov 2 s _ _ _ _ _ _ hr.hook (by have := hr.steps; omega) (hpr' _))
      ((Toks_ov s _ _ _ _ _ _ _ _).2 (Toks_pos htq (by show s.pos + _ = _; omega)))
      (kindAt_pos hlc (by show s.pos + _ + _ = _; omega))).at_ov
  obtain rfl : st1 = 0 := by omega
  simp only [List.cons_append, List.nil_append] at hq
  have hq0 : s.kindAt (s.pos + (2 + ((qubitToks k).length + 2))) ≠ .L_PAREN := by
    obtain ⟨ts, hts⟩ := qubitToks_head nq
    rw [hts] at htq; rw [kindAt_pos htq.1 (by omega)]; decide
  obtain ⟨st2, sb2, hle2, hblk⟩ :=
    (tryBlock_acc body need g ih
      (s.ov (.start .TOMBSTONE none :: .token .GATE_KW 1 :: .start .NAME none :: .token .IDENT 1 :: .finish ::
          .start .PARAM_LIST none :: .token .L_PAREN 1 :: (paramEvs k ++ [.token .R_PAREN 1, .finish]) ++
          .start .PARAM_LIST none :: (paramEvs nq ++ [.finish]))
        (2 + ((qubitToks k).length + 2) + (qubitToks nq).length) 0 sb1 (s.live + 1) s.protectedPos) (by omega)
      (Rdy_ov 8 s _ _ _ _ _ _ hr.hook (by have := hr.steps; omega) (hpr' _))
      (kindAt_pos hlc (by show s.pos + _ + 0 = _; omega))
      ((Toks_ov s _ _ _ _ _ _ _ _).2 (Toks_pos htb (by show s.pos + _ + 1 = _; omega)))
      (kindAt_pos hrc (by show s.pos + _ + _ = _; omega))).at_ov
  simp only [List.cons_append, List.nil_append] at hblk
  run_base [h0, h1, h2, hp, hq, hblk]

/-- `def f(ty x, …) { body }` / `def f(ty x, …) -> ty { body }` -/
theorem stmt_defS (ps : List PTy) (ret : Option Ty) (body : Stmts) (need F : Nat) (ih : StmtsOK body need) (s : P)
    (hr : Rdy 8 s) (hF : max (ps.length + 6) (need + 3) + 3 ≤ F) (htk : Toks s s.pos (toksS (.defS ps ret body))) :
    Acc (stmt F) s (toksS (.defS ps ret body)).length (evsS (.defS ps ret body)) := by
  obtain ⟨g, rfl⟩ : ∃ g, F = g + 3 := ⟨F - 3, by omega⟩
  simp only [toksS, Toks, Toks_append, tk, List.length_cons, List.length_append, List.length_nil] at htk ⊢
  obtain ⟨h0, -, h1, -, h2, -, htp, hrp, -, htr, hlc, -, htb, hrc, -, -⟩ := htk
  rw [show s.pos = s.pos + 0 from rfl] at h0
  rw [show s.pos + 1 + 1 = s.pos + 2 from rfl] at h2
  have hpr' : ∀ n, ∀ p ∈ s.protectedPos, p < s.events.size + n := fun n p hp => Nat.lt_add_right n (hr.prot p hp)
  obtain ⟨st0, sb0, hle0, hp⟩ :=
    (defParams_acc' ps g (by omega)
      (s.ov [.start .TOMBSTONE none, .token .DEF_KW 1, .start .NAME none, .token .IDENT 1, .finish] 2 0 2 (s.live + 1) s.protectedPos)
      (Rdy_ov 2 s _ _ _ _ _ _ hr.hook (by have := hr.steps; omega) (hpr' _))
      h2 ((Toks_ov s _ _ _ _ _ _ _ _).2 (Toks_pos htp (by show s.pos + 2 + 1 = _; omega)))
      (kindAt_pos hrp (by show s.pos + 2 + _ = _; omega))).at_ov
  obtain rfl : st0 = 0 := by omega
  simp only [List.cons_append, List.nil_append] at hp
  obtain ⟨st1, sb1, hle1, hrs⟩ :=
    (retSig_acc' ret g (by omega)
      (s.ov (.start .TOMBSTONE none :: .token .DEF_KW 1 :: .start .NAME none :: .token .IDENT 1 :: .finish ::
          .start .TYPED_PARAM_LIST none :: .token .L_PAREN 1 :: (typedEvs ps ++ [.token .R_PAREN 1, .finish]))
        (2 + ((typedToks ps).length + 2)) 0 sb0 (s.live + 1) s.protectedPos)
      (Rdy_ov 2 s _ _ _ _ _ _ hr.hook (by have := hr.steps; omega) (hpr' _))
      ((Toks_ov s _ _ _ _ _ _ _ _).2 (Toks_pos htr (by show s.pos + _ = _; omega)))
      (kindAt_pos hlc (by show s.pos + _ + _ = _; omega))).at_ov
  obtain rfl : st1 = 0 := by omega
  simp only [List.cons_append, List.nil_append] at hrs
  obtain ⟨st2, sb2, hle2, hblk⟩ :=
    (tryBlock_acc body need g ih
      (s.ov (.start .TOMBSTONE none :: .token .DEF_KW 1 :: .start .NAME none :: .token .IDENT 1 :: .finish ::
          .start .TYPED_PARAM_LIST none :: .token .L_PAREN 1 :: (typedEvs ps ++ [.token .R_PAREN 1, .finish]) ++ retEvs ret)
        (2 + ((typedToks ps).length + 2) + (retToks ret).length) 0 sb1 (s.live + 1) s.protectedPos) (by omega)
      (Rdy_ov 8 s _ _ _ _ _ _ hr.hook (by have := hr.steps; omega) (hpr' _))
      (kindAt_pos hlc (by show s.pos + _ + 0 = _; omega))
      ((Toks_ov s _ _ _ _ _ _ _ _).2 (Toks_pos htb (by show s.pos + _ + 1 = _; omega)))
      (kindAt_pos hrc (by show s.pos + _ + _ = _; omega))).at_ov
  simp only [List.cons_append, List.nil_append] at hblk
  run_base [h0, h1, h2, hp, hrs, hblk]

end Oq3.LangEv
