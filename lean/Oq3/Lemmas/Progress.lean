/-
Progress and fuel: the rules used by the generated proof `Lemmas/GrammarProg*.lean` that
(1) no function of the grammar moves the position backwards or past the end of the input,
(2) each function consumes at least one token under its stated condition — in particular every
    loop iteration consumes a token or exits —, and
(3) fuel `rank f + K * (remaining tokens)` is enough: the model never runs out of fuel.

Only fuel exhaustion is excluded here (`A3`); all other failures are the subject of
`Props/C01Safe.lean`.
-/
import Oq3.Lemmas.SafeTok
set_option linter.unusedSimpArgs false
set_option linter.unusedVariables false

namespace Oq3.Parser
open Oq3.Gen

/-- tolerated in the fuel proof: every failure except fuel exhaustion -/
def A3 (o : Outcome) : Prop := o ≠ .fuel

macro "dec3" : tactic => `(tactic| (show A3 _; decide))

instance (o : Outcome) : Decidable (A3 o) := by unfold A3; infer_instance

/-- from `s` to `s'` the input is the same, the position did not move backwards and is still
inside the input -/
structure Adv (s s' : P) : Prop where
  kinds : s'.kinds = s.kinds
  joint : s'.joint = s.joint
  size : s'.kinds.size = s.kinds.size
  le : s.pos ≤ s'.pos
  /-- a consumed token was there -/
  inb : s.pos < s'.pos → s'.pos ≤ s'.kinds.size

theorem Adv.refl (s : P) : Adv s s := ⟨rfl, rfl, rfl, Nat.le_refl _, fun h => absurd h (Nat.lt_irrefl _)⟩
theorem Adv.trans {s s' s'' : P} (h1 : Adv s s') (h2 : Adv s' s'') : Adv s s'' :=
  ⟨h2.kinds.trans h1.kinds, h2.joint.trans h1.joint, h2.size.trans h1.size, Nat.le_trans h1.le h2.le, by
    have := h1.inb; have := h2.inb; have := h1.le; have := h2.le; have := h2.size; omega⟩
theorem Adv.of_tv {s s' : P} (h : s'.tv = s.tv) : Adv s s' := by
  simp only [P.tv, Prod.mk.injEq] at h
  exact ⟨h.1, h.2.1, by rw [h.1], by rw [h.2.2]; exact Nat.le_refl _, by rw [h.2.2]; intro h; exact absurd h (Nat.lt_irrefl _)⟩
theorem tv_size {s s' : P} (h : s'.tv = s.tv) : s'.kinds.size = s.kinds.size := by
  simp only [P.tv, Prod.mk.injEq] at h; rw [h.1]
theorem tv_pos {s s' : P} (h : s'.tv = s.tv) : s'.pos = s.pos := by
  simp only [P.tv, Prod.mk.injEq] at h; exact h.2.2
/-- no token consumed: the token view is unchanged -/
theorem Adv.tv_of_eq {s s' : P} (h : Adv s s') (he : s'.pos = s.pos) : s'.tv = s.tv := by
  simp only [P.tv, h.kinds, h.joint, he]

/-- `at` holds: the tokens it matched exist -/
theorem atF_inb {k : SyntaxKind} {s : P} (h : atF k s.kinds s.joint s.pos = true) (hk : (k == .EOF) = false) :
    s.pos + eatRawTokens k ≤ s.kinds.size ∧ 1 ≤ eatRawTokens k := by
  have hne : k ≠ .EOF := by simpa using hk
  unfold atF at h
  cases hc : compositePieces k with
  | none =>
    rw [hc] at h
    have h1 := tablesOK.2 k hc
    have : s.kindAt s.pos ≠ .EOF := by
      have : s.kindAt s.pos = k := by simpa [P.kindAt] using h
      rw [this]; exact hne
    have := kindAt_ne_eof_lt s _ this
    omega
  | some ps =>
    rw [hc] at h
    obtain ⟨hlen, heat, hpne⟩ := tablesOK.1 k ps hc
    rcases ps with _ | ⟨k1, _ | ⟨k2, _ | ⟨k3, _ | ⟨k4, rest⟩⟩⟩⟩
    · simp at hlen
    · simp at hlen
    · simp only [Bool.and_eq_true, beq_iff_eq] at h
      have : s.kindAt (s.pos + 1) ≠ .EOF := by
        show s.kinds.getD (s.pos + 1) .EOF ≠ _
        rw [h.1.2]; exact (hpne k2 (by simp)).1
      have := kindAt_ne_eof_lt s _ this
      simp at heat; omega
    · simp only [Bool.and_eq_true, beq_iff_eq] at h
      have : s.kindAt (s.pos + 2) ≠ .EOF := by
        show s.kinds.getD (s.pos + 2) .EOF ≠ _
        rw [h.1.1.2]; exact (hpne k3 (by simp)).1
      have := kindAt_ne_eof_lt s _ this
      simp at heat; omega
    · simp at hlen

section
variable {α : Type} {s : P}

theorem wp3_keep {x : G α} {Q : α → P → Prop} (he : ∀ o, x s = .error o → A3 o)
    (hk : ∀ a s', x s = .ok (a, s') → s'.tv = s.tv) (h : ∀ a s', s'.tv = s.tv → Q a s') :
    wp A3 x Q s := by
  unfold wp post
  cases hx : x s with
  | error e => exact he e hx
  | ok p => exact h _ _ (hk _ _ hx)

theorem wp3_nth {n : Nat} {Q : SyntaxKind → P → Prop}
    (h : ∀ s', s'.tv = s.tv → Q (s.kindAt (s.pos + n)) s') : wp A3 (nth n) Q s := by
  apply wp_def'; rw [nth_eq]
  split
  · dec3
  · split
    · dec3
    · exact h _ rfl

theorem wp3_start {Q : Marker → P → Prop} (h : ∀ m s', s'.tv = s.tv → Q m s') : wp A3 start Q s := by
  apply wp_def'; rw [start_eq]
  split
  · dec3
  · exact h _ _ rfl

theorem wp3_error {msg : String} {Q : Unit → P → Prop} (h : ∀ s', s'.tv = s.tv → Q () s') :
    wp A3 (error msg) Q s := by
  apply wp_def'; rw [error_eq]
  split
  · dec3
  · exact h _ rfl

theorem wp3_complete {m : Marker} {kind : SyntaxKind} {Q : CompletedMarker → P → Prop}
    (h : ∀ cm s', s'.tv = s.tv → cm.kind = kind → Q cm s') : wp A3 (m.complete kind) Q s := by
  apply wp_def'; rw [complete_eq]
  cases s.events[m.pos]? with
  | none => dec3
  | some e =>
    cases e with
    | finish => dec3
    | token _ _ => dec3
    | error _ => dec3
    | start k0 fp =>
      simp only
      split
      · dec3
      · split
        · dec3
        · split
          · dec3
          · exact h _ _ rfl rfl

theorem wp3_abandon {m : Marker} {Q : Unit → P → Prop} (h : ∀ s', s'.tv = s.tv → Q () s') :
    wp A3 m.abandon Q s := by
  apply wp_def'; rw [abandon_eq]
  split
  · dec3
  · split
    · dec3
    · split
      · cases s.events.back? with
        | none => dec3
        | some e =>
          cases e with
          | finish => dec3
          | token _ _ => dec3
          | error _ => dec3
          | start k fp =>
            simp only
            split
            · exact h _ rfl
            · dec3
      · exact h _ rfl

theorem wp3_precede {cm : CompletedMarker} {Q : Marker → P → Prop}
    (h : ∀ m s', s'.tv = s.tv → Q m s') : wp A3 cm.precede Q s := by
  apply wp_def'; rw [precede_eq]
  split
  · dec3
  · cases s.started.events[cm.pos]? with
    | none => dec3
    | some e =>
      cases e with
      | finish => dec3
      | token _ _ => dec3
      | error _ => dec3
      | start k fp =>
        simp only
        split
        · dec3
        · exact h _ _ rfl

theorem wp3_extendTo {cm : CompletedMarker} {m : Marker} {Q : CompletedMarker → P → Prop}
    (h : ∀ s', s'.tv = s.tv → Q cm s') : wp A3 (cm.extendTo m) Q s := by
  apply wp_def'; rw [extendTo_eq]
  cases s.events[m.pos]? with
  | none => dec3
  | some e =>
    cases e with
    | finish => dec3
    | token _ _ => dec3
    | error _ => dec3
    | start k fp =>
      simp only
      split
      · dec3
      · cases s.events[cm.pos]? with
        | none => dec3
        | some e2 =>
          cases e2 with
          | finish => dec3
          | token _ _ => dec3
          | error _ => dec3
          | start k' fp' =>
            simp only
            split
            · dec3
            · exact h _ rfl

/-- `Parser::eat`: either nothing happens, or exactly the tokens of `k` are consumed -/
theorem wp3_eat {k : SyntaxKind} {Q : Bool → P → Prop}
    (h1 : atF k s.kinds s.joint s.pos = false → Q false s)
    (h2 : atF k s.kinds s.joint s.pos = true → ∀ s', Adv s s' → s.pos < s'.pos → Q true s') :
    wp A3 (eat k) Q s := by
  by_cases hk : (k == .EOF) = true
  · unfold eat; simp only [hk, if_true]; exact wp_fail (by decide)
  · have hk' : (k == .EOF) = false := by simpa using hk
    apply wp_def'; rw [eat_eq' k hk']
    cases hb : atF k s.kinds s.joint s.pos with
    | false => simp only [Bool.false_eq_true, if_false]; exact h1 hb
    | true =>
      simp only [if_true]
      obtain ⟨hin, h1le⟩ := atF_inb hb hk'
      refine h2 hb _ ⟨rfl, rfl, rfl, Nat.le_add_right _ _, fun _ => hin⟩ ?_
      show s.pos < s.pos + eatRawTokens k
      omega

theorem wp3_bump {k : SyntaxKind} {Q : Unit → P → Prop}
    (h : atF k s.kinds s.joint s.pos = true → ∀ s', Adv s s' → s.pos < s'.pos → Q () s') : wp A3 (bump k) Q s := by
  unfold bump
  apply wp_bind
  apply wp3_eat
  · intro _; exact wp_panic (by decide)
  · intro hb s' ha hl; exact wp_pure (h hb s' ha hl)

theorem wp3_bumpAny {Q : Unit → P → Prop}
    (h1 : s.kindAt s.pos = .EOF → Q () s)
    (h2 : s.kindAt s.pos ≠ .EOF → ∀ s', Adv s s' → s.pos < s'.pos → Q () s') : wp A3 bumpAny Q s := by
  apply wp_def'; rw [bumpAny_eq]
  split
  · rename_i he; exact h1 (by simpa using he)
  · rename_i he
    have hne : s.kindAt s.pos ≠ .EOF := by simpa using he
    have := kindAt_ne_eof_lt s _ hne
    exact h2 hne _ ⟨rfl, rfl, rfl, Nat.le_add_right _ _, fun _ => by show s.pos + 1 ≤ s.kinds.size; omega⟩
      (by show s.pos < s.pos + 1; omega)

theorem wp3_expect {k : SyntaxKind} {Q : Bool → P → Prop}
    (h1 : atF k s.kinds s.joint s.pos = false → ∀ s', s'.tv = s.tv → Q false s')
    (h2 : atF k s.kinds s.joint s.pos = true → ∀ s', Adv s s' → s.pos < s'.pos → Q true s') :
    wp A3 (expect k) Q s := by
  unfold expect
  apply wp_bind
  apply wp3_eat
  · intro hb
    simp only [Bool.false_eq_true, if_false]
    apply wp_bind; apply wp3_error; intro s' htv
    exact wp_pure (h1 hb s' htv)
  · intro hb s' ha hl
    simp only [if_true]
    exact wp_pure (h2 hb s' ha hl)

/-- the tokens at which `err_recover` does not consume anything -/
def recStop (rec : TokenSet) (k : SyntaxKind) : Bool :=
  (k == .L_CURLY || k == .R_CURLY) || (decide (k.toNat < 128) && rec.contains k) || k == .EOF

theorem wp3_errRecover {msg : String} {rec : TokenSet} {Q : Unit → P → Prop}
    (h1 : recStop rec (s.kindAt s.pos) = true → ∀ s', s'.tv = s.tv → Q () s')
    (h2 : recStop rec (s.kindAt s.pos) = false → ∀ s', Adv s s' → s.pos < s'.pos → Q () s') :
    wp A3 (errRecover msg rec) Q s := by
  unfold errRecover
  apply wp_bind; apply wp_current
  split
  · rename_i hc
    apply wp_bind; apply wp3_error; intro s' htv
    exact wp_pure (h1 (by simp only [recStop, hc, Bool.true_or]) s' htv)
  · rename_i hc
    apply wp_bind; apply wp_atTs
    split
    · rename_i ht
      apply wp_bind; apply wp3_error; intro s' htv
      exact wp_pure (h1 (by simp only [recStop, ht, Bool.true_or, Bool.or_true]) s' htv)
    · rename_i ht
      apply wp_bind; apply wp3_start; intro m s1 htv1
      apply wp_bind; apply wp3_error; intro s2 htv2
      have htv : s2.tv = s.tv := htv2.trans htv1
      have hk2 : s2.kindAt s2.pos = s.kindAt s.pos := by
        simp only [P.tv, Prod.mk.injEq] at htv
        simp only [P.kindAt, htv.1, htv.2.2]
      apply wp_bind
      apply wp3_bumpAny
      · intro he
        apply wp_bind; apply wp3_complete; intro cm s4 htv4 _
        refine wp_pure (h1 ?_ s4 (htv4.trans htv))
        rw [hk2] at he
        simp only [recStop, he, beq_self_eq_true, Bool.or_true]
      · intro hne s3 ha3 hl3
        apply wp_bind; apply wp3_complete; intro cm s4 htv4 _
        have ha : Adv s s4 := (Adv.of_tv htv).trans (ha3.trans (Adv.of_tv htv4))
        have hl : s.pos < s4.pos := by
          have e1 : s2.pos = s.pos := by simp only [P.tv, Prod.mk.injEq] at htv; exact htv.2.2
          have e2 : s4.pos = s3.pos := by simp only [P.tv, Prod.mk.injEq] at htv4; exact htv4.2.2
          omega
        refine wp_pure (h2 ?_ s4 ha hl)
        rw [hk2] at hne
        have hc' : (s.kindAt s.pos == SyntaxKind.L_CURLY || s.kindAt s.pos == SyntaxKind.R_CURLY) = false := by
          simpa using hc
        have ht' : (decide ((s.kindAt s.pos).toNat < 128) && rec.contains (s.kindAt s.pos)) = false := by
          simpa using ht
        have he' : (s.kindAt s.pos == SyntaxKind.EOF) = false := by simpa using hne
        simp only [recStop, hc', ht', he', Bool.or_self]

theorem wp3_errAndBump {msg : String} {Q : Unit → P → Prop}
    (h1 : recStop [] (s.kindAt s.pos) = true → ∀ s', s'.tv = s.tv → Q () s')
    (h2 : recStop [] (s.kindAt s.pos) = false → ∀ s', Adv s s' → s.pos < s'.pos → Q () s') :
    wp A3 (errAndBump msg) Q s := wp3_errRecover h1 h2

end

/-! ### one-continuation forms (no case split unless the proof needs one) -/

section
variable {s : P}

theorem wp3m_bumpAny {Q : Unit → P → Prop}
    (h : ∀ s', Adv s s' → (s.kindAt s.pos ≠ .EOF → s.pos < s'.pos) → (s.kindAt s.pos = .EOF → s'.tv = s.tv) → Q () s') :
    wp A3 bumpAny Q s :=
  wp3_bumpAny (fun he => h s (Adv.refl s) (fun hne => absurd he hne) (fun _ => rfl))
    (fun hne s' ha hl => h s' ha (fun _ => hl) (fun he => absurd he hne))

theorem wp3m_expect {k : SyntaxKind} {Q : Bool → P → Prop}
    (h : ∀ s', Adv s s' → (atF k s.kinds s.joint s.pos = true → s.pos < s'.pos) →
      (atF k s.kinds s.joint s.pos = false → s'.tv = s.tv) → Q (atF k s.kinds s.joint s.pos) s') :
    wp A3 (expect k) Q s :=
  wp3_expect
    (fun hb s' htv => by
      have := h s' (Adv.of_tv htv) (fun ht => by rw [hb] at ht; cases ht) (fun _ => htv)
      rwa [hb] at this)
    (fun hb s' ha hl => by
      have := h s' ha (fun _ => hl) (fun hf => by rw [hb] at hf; cases hf)
      rwa [hb] at this)

theorem wp3m_errRecover {msg : String} {rec : TokenSet} {Q : Unit → P → Prop}
    (h : ∀ s', Adv s s' → (recStop rec (s.kindAt s.pos) = false → s.pos < s'.pos) →
      (recStop rec (s.kindAt s.pos) = true → s'.tv = s.tv) → Q () s') :
    wp A3 (errRecover msg rec) Q s :=
  wp3_errRecover
    (fun hb s' htv => h s' (Adv.of_tv htv) (fun hf => by rw [hb] at hf; cases hf) (fun _ => htv))
    (fun hb s' ha hl => h s' ha (fun _ => hl) (fun ht => by rw [hb] at ht; cases ht))

theorem wp3m_errAndBump {msg : String} {Q : Unit → P → Prop}
    (h : ∀ s', Adv s s' → (recStop [] (s.kindAt s.pos) = false → s.pos < s'.pos) →
      (recStop [] (s.kindAt s.pos) = true → s'.tv = s.tv) → Q () s') :
    wp A3 (errAndBump msg) Q s := wp3m_errRecover h

end

/-! ### token-class facts used by the progress conditions -/

/-- `at_ts` as a function of the current token -/
def inSet (ts : TokenSet) (k : SyntaxKind) : Bool := decide (k.toNat < 128) && ts.contains k

theorem wp3_atTs {ts : TokenSet} {s : P} {Q : Bool → P → Prop}
    (h : Q (inSet ts (s.kindAt s.pos)) s) : wp A3 (atTs ts) Q s := wp_atTs h

theorem recStop_eq (rec : TokenSet) (k : SyntaxKind) :
    recStop rec k = ((k == .L_CURLY || k == .R_CURLY) || inSet rec k || k == .EOF) := rfl

/-- tokens at which `expr_bp` (hence `expr`, `expr_or_range_expr`, `expr_stmt`) consumes nothing -/
def exprHalt (k : SyntaxKind) : Bool := k == .R_CURLY || k == .EOF || k == .R_PAREN || k == .R_BRACK
/-- tokens at which `atom_expr`, `lhs`, `stmt` consume nothing -/
def atomHalt (k : SyntaxKind) : Bool := k == .R_CURLY || k == .EOF
/-- the gate modifiers -/
def modHead (k : SyntaxKind) : Bool := k == .INV_KW || k == .POW_KW || k == .CTRL_KW || k == .NEGCTRL_KW
/-- the guard of the item loop of `_param_list_openqasm` -/
def itemGuard (k : SyntaxKind) (inner : Bool) : Bool :=
  isType k || inSet Oq3.Gen.TokenSets.PARAM_FIRST k || inner || isCregOrQreg k

theorem allKinds {f : SyntaxKind → Bool} (h : SyntaxKind.all.all f = true) (k : SyntaxKind) : f k = true :=
  (List.all_eq_true.mp h) k (mem_all k)

open Oq3.Gen.TokenSets in
theorem halt_facts (k : SyntaxKind) :
    (recStop EXPR_RECOVERY_SET k = true → exprHalt k = false → inSet EXPR_FIRST k = true) ∧
    (recStop [] k = true → atomHalt k = false → inSet EXPR_FIRST k = true) ∧
    (inSet EXPR_FIRST k = true → exprHalt k = false) ∧
    (isClassicalType k = true → exprHalt k = false) ∧
    (exprHalt k = false → atomHalt k = false) ∧
    (inSet LITERAL_FIRST k = true → k ≠ .EOF) ∧
    (isType k = true → k ≠ .EOF) ∧
    (isClassicalType k = true → isType k = true) ∧
    (∀ inner, itemGuard k inner = true → (inner = true → k = .L_CURLY) → k ≠ .EOF → exprHalt k = false) := by
  have h := allKinds (f := fun k =>
    (!(recStop EXPR_RECOVERY_SET k) || exprHalt k || inSet EXPR_FIRST k) &&
    (!(recStop [] k) || atomHalt k || inSet EXPR_FIRST k) &&
    (!(inSet EXPR_FIRST k) || !exprHalt k) &&
    (!(isClassicalType k) || !exprHalt k) &&
    (exprHalt k || !atomHalt k) &&
    (!(inSet LITERAL_FIRST k) || k != .EOF) &&
    (!(isType k) || k != .EOF) &&
    (!(isClassicalType k) || isType k) &&
    ([true, false].all fun inner => !(itemGuard k inner) || (inner && k != .L_CURLY) || k == .EOF || !exprHalt k))
    (by decide +kernel) k
  simp only [Bool.and_eq_true, Bool.or_eq_true, Bool.not_eq_true', bne_iff_ne, ne_eq, List.all_cons,
    List.all_nil, Bool.and_true, beq_iff_eq] at h
  obtain ⟨⟨⟨⟨⟨⟨⟨⟨h1, h2⟩, h3⟩, h4⟩, h5⟩, h6⟩, h7⟩, h8⟩, h9a, h9b⟩ := h
  refine ⟨?_, ?_, ?_, ?_, ?_, ?_, ?_, ?_, ?_⟩
  · intro a b; rcases h1 with (h | h) | h <;> simp_all
  · intro a b; rcases h2 with (h | h) | h <;> simp_all
  · intro a; rcases h3 with h | h <;> simp_all
  · intro a; rcases h4 with h | h <;> simp_all
  · intro a; rcases h5 with h | h <;> simp_all
  · intro a; rcases h6 with h | h <;> simp_all
  · intro a; rcases h7 with h | h <;> simp_all
  · intro a; rcases h8 with h | h <;> simp_all
  · intro inner a b c
    cases inner
    · rcases h9b with ((h | h) | h) | h <;> simp_all
    · rcases h9a with ((h | h) | h) | h <;> simp_all

open Oq3.Gen.TokenSets in
theorem hf_exprRec {k : SyntaxKind} (h1 : recStop EXPR_RECOVERY_SET k = true) (h2 : exprHalt k = false) :
    inSet EXPR_FIRST k = true := (halt_facts k).1 h1 h2
open Oq3.Gen.TokenSets in
theorem hf_atomRec {k : SyntaxKind} (h1 : recStop [] k = true) (h2 : atomHalt k = false) :
    inSet EXPR_FIRST k = true := (halt_facts k).2.1 h1 h2
open Oq3.Gen.TokenSets in
theorem hf_first {k : SyntaxKind} (h : inSet EXPR_FIRST k = true) : exprHalt k = false := (halt_facts k).2.2.1 h
theorem hf_classical {k : SyntaxKind} (h : isClassicalType k = true) : exprHalt k = false := (halt_facts k).2.2.2.1 h
theorem hf_atom {k : SyntaxKind} (h : exprHalt k = false) : atomHalt k = false := (halt_facts k).2.2.2.2.1 h
open Oq3.Gen.TokenSets in
theorem hf_lit {k : SyntaxKind} (h : inSet LITERAL_FIRST k = true) : (k = .EOF) = False :=
  eq_false ((halt_facts k).2.2.2.2.2.1 h)
theorem hf_type {k : SyntaxKind} (h : isType k = true) : (k = .EOF) = False :=
  eq_false ((halt_facts k).2.2.2.2.2.2.1 h)
theorem hf_ctype {k : SyntaxKind} (h : isClassicalType k = true) : isType k = true := (halt_facts k).2.2.2.2.2.2.2.1 h
theorem hf_guard {k : SyntaxKind} {inner : Bool} (h1 : itemGuard k inner = true) (h2 : inner = true → k = .L_CURLY)
    (h3 : ¬ k = .EOF) : exprHalt k = false := (halt_facts k).2.2.2.2.2.2.2.2 inner h1 h2 h3
theorem hf_guardF {k : SyntaxKind} (h1 : itemGuard k false = true) (h3 : ¬ k = .EOF) : exprHalt k = false :=
  hf_guard h1 (by simp) h3
theorem inSet_nil (k : SyntaxKind) : inSet [] k = false := by simp [inSet]
theorem opt_none {α} {o : Option α} : (∀ a, o = some a → False) ↔ o = none := by
  cases o <;> simp
theorem opt_none' {α} {o : Option α} : (∀ a, ¬ o = some a) ↔ o = none := by
  cases o <;> simp

/-- `type_name`: consumes a token exactly when the current token is a type name -/
theorem wp3_typeName {s : P} {Q : Unit → P → Prop}
    (h1 : isType (s.kindAt s.pos) = false → ∀ s', s'.tv = s.tv → Q () s')
    (h2 : isType (s.kindAt s.pos) = true → ∀ s', Adv s s' → s.pos < s'.pos → Q () s') :
    wp A3 Oq3.Grammar.typeName Q s := by
  unfold Oq3.Grammar.typeName
  apply wp_bind; apply wp_current
  split
  · rename_i ht
    apply wp_bind; apply wp3_error; intro s' htv
    exact wp_pure (h1 (by simpa using ht) s' htv)
  · rename_i ht
    apply wp_bind; apply wp_current
    apply wp3_bump
    intro _ s' ha hl
    exact h2 (by simpa using ht) s' ha hl

theorem wp3m_typeName {s : P} {Q : Unit → P → Prop}
    (h : ∀ s', Adv s s' → (isType (s.kindAt s.pos) = true → s.pos < s'.pos) →
      (isType (s.kindAt s.pos) = false → s'.tv = s.tv) → Q () s') :
    wp A3 Oq3.Grammar.typeName Q s :=
  wp3_typeName
    (fun hb s' htv => h s' (Adv.of_tv htv) (fun ht => by rw [hb] at ht; cases ht) (fun _ => htv))
    (fun hb s' ha hl => h s' ha (fun _ => hl) (fun hf => by rw [hb] at hf; cases hf))

theorem isSome_of_isNone {α} {o : Option α} (h : o.isNone = false) : o.isSome = true := by
  cases o <;> simp_all
theorem isOk_ok {ε α} (a : α) : (Except.ok a : Except ε α).isOk = true := rfl
theorem isOk_error {ε α} (e : ε) : (Except.error e : Except ε α).isOk = false := rfl

/-! ### proof search of the generated files

The context is kept in a normal form incrementally: every hypothesis is simplified once, when it
is introduced, with the hypotheses already present (`pg_nf`).  Equations `s'.kinds = s.kinds`,
`s'.pos = s.pos` are oriented towards the oldest state, so all token facts end up stated about
the oldest state with the same token view; a progress clause whose premise is known collapses to
its conclusion; a contradictory branch is closed when the contradicting fact arrives. -/

theorem tv_kinds {s s' : P} (h : s'.tv = s.tv) : s'.kinds = s.kinds := by
  simp only [P.tv, Prod.mk.injEq] at h; exact h.1
theorem tv_joint {s s' : P} (h : s'.tv = s.tv) : s'.joint = s.joint := by
  simp only [P.tv, Prod.mk.injEq] at h; exact h.2.1
theorem kinds_size {a b : Array SyntaxKind} (h : a = b) : a.size = b.size := by rw [h]

theorem Adv_iff {s s' : P} : Adv s s' ↔
    (s'.kinds = s.kinds ∧ s'.joint = s.joint ∧ s.pos ≤ s'.pos ∧ (s.pos < s'.pos → s'.pos ≤ s.kinds.size)) := by
  constructor
  · intro h; exact ⟨h.kinds, h.joint, h.le, fun hl => by have := h.inb hl; rw [h.size] at this; exact this⟩
  · intro ⟨h1, h2, h3, h4⟩; exact ⟨h1, h2, by rw [h1], h3, fun hl => by rw [h1]; exact h4 hl⟩

theorem atomHalt_of_ne {k : SyntaxKind} (h1 : ¬ k = .EOF) (h2 : ¬ k = .R_CURLY) : atomHalt k = false := by
  simp [atomHalt, h1, h2]
theorem exprHalt_of_ne {k : SyntaxKind} (h1 : ¬ k = .EOF) (h2 : ¬ k = .R_CURLY) (h3 : ¬ k = .R_PAREN)
    (h4 : ¬ k = .R_BRACK) : exprHalt k = false := by
  simp [exprHalt, h1, h2, h3, h4]
theorem modHead_of_ne {k : SyntaxKind} (h1 : ¬ k = .INV_KW) (h2 : ¬ k = .POW_KW) (h3 : ¬ k = .CTRL_KW)
    (h4 : ¬ k = .NEGCTRL_KW) : modHead k = false := by
  simp [modHead, h1, h2, h3, h4]
open Oq3.Gen.TokenSets in
theorem recStop_expr {k : SyntaxKind} (h1 : inSet EXPR_FIRST k = false) (h2 : exprHalt k = false) :
    recStop EXPR_RECOVERY_SET k = false := by
  cases h : recStop EXPR_RECOVERY_SET k with
  | false => rfl
  | true => rw [hf_exprRec h h2] at h1; cases h1
open Oq3.Gen.TokenSets in
theorem recStop_atom {k : SyntaxKind} (h1 : inSet EXPR_FIRST k = false) (h2 : atomHalt k = false) :
    recStop [] k = false := by
  cases h : recStop [] k with
  | false => rfl
  | true => rw [hf_atomRec h h2] at h1; cases h1
theorem recStop_atom' {k : SyntaxKind} (h1 : ¬ k = .L_CURLY) (h2 : atomHalt k = false) :
    recStop [] k = false := by
  simp only [atomHalt, Bool.or_eq_false_iff, beq_eq_false_iff_ne, ne_eq] at h2
  simp [recStop_eq, inSet_nil, h1, h2.1, h2.2]
theorem hf_classical_atom {k : SyntaxKind} (h : isClassicalType k = true) : atomHalt k = false :=
  hf_atom (hf_classical h)
theorem hf_first_atom {k : SyntaxKind} (h : inSet Oq3.Gen.TokenSets.EXPR_FIRST k = true) : atomHalt k = false :=
  hf_atom (hf_first h)
theorem hf_lit' {k : SyntaxKind} (h : inSet Oq3.Gen.TokenSets.LITERAL_FIRST k = true) : ¬ k = .EOF := by
  rw [hf_lit h]; exact not_false
theorem hf_type' {k : SyntaxKind} (h : isType k = true) : ¬ k = .EOF := by
  rw [hf_type h]; exact not_false

/-- the normal-form simp of the generated proofs (the generated file adds `atF_K` for the simple kinds) -/
syntax "pg_nf" (Lean.Parser.Tactic.location)? : tactic
macro_rules
  | `(tactic| pg_nf $[$loc]?) => `(tactic|
    simp +decide [*, P.tv, P.kindAt, Prod.mk.injEq, Adv_iff, isOk_ok, isOk_error, isSome_of_isNone] $[$loc]?)

/-- fallback simp sets (`simp_all`) -/
syntax "pg_simp" : tactic
macro_rules | `(tactic| pg_simp) => `(tactic|
  simp_all +decide [P.tv, P.kindAt, Except.isOk, Except.toBool, recStop_eq, exprHalt, atomHalt])
syntax "pg_sets" : tactic
macro_rules | `(tactic| pg_sets) => `(tactic| simp_all +decide [P.tv, P.kindAt])

open Lean Elab Tactic Meta in
/-- is `ty` a progress clause `A → x < y` / `A → (equation)`? -/
def isProgClause (ty : Expr) : Bool :=
  ty.isArrow &&
    (let concl := ty.bindingBody!
     concl.isAppOfArity ``LT.lt 4 || concl.isAppOfArity ``Eq 3 || concl.isAppOfArity ``And 2)

open Lean in
/-- a linear-arithmetic atom: `<`, `≤` -/
def isArith (e : Expr) : Bool := e.isAppOfArity ``LT.lt 4 || e.isAppOfArity ``LE.le 4

open Lean Elab Tactic Meta in
/-- succeeds iff the goal is a statement for `omega` -/
elab "arith_goal" : tactic => withMainContext do
  let t ← instantiateMVars (← (← getMainGoal).getType)
  let t := t.headBeta
  let ok := isArith t || t.isConstOf ``False ||
    (t.isAppOfArity ``Eq 3 && t.getAppArgs[0]!.isConstOf ``Nat) ||
    (t.isAppOfArity ``Not 1 && (isArith t.appArg! || (t.appArg!.isAppOfArity ``Eq 3 && t.appArg!.getAppArgs[0]!.isConstOf ``Nat)))
  unless ok do throwError "not arithmetic"

open Lean Elab Tactic Meta in
/-- normalise the hypothesis with the (accessible) name `nm` with the hypotheses already present,
split it, and make the name inaccessible again -/
def absorbName (nm : Name) : TacticM Unit := do
  let g ← getMainGoal
  let some d := (← g.getDecl).lctx.findFromUserName? nm | return
  if (← g.withContext (isProp d.type)) then
    let ty ← instantiateMVars d.type
    let ty' := ty.headBeta
    let g ← if ty' != ty then g.replaceLocalDeclDefEq d.fvarId ty' else pure g
    replaceMainGoal [g]
    -- nothing to normalise in an opaque fact or in arithmetic over positions and counters
    let plain := ty'.getAppFn.isConstOf `Oq3.Parser.Lim ||
      (isArith ty' && (ty'.find? (fun e => e.isConstOf ``Array.size || e.isConstOf ``Oq3.Parser.P.kindAt)).isNone)
    unless plain do
      let hn := mkIdent nm
      evalTactic (← `(tactic| try pg_nf at $hn:ident))
    if (← getGoals).isEmpty then return
    let g ← getMainGoal
    let before := (← g.getDecl).lctx.getFVarIds
    let g ← g.casesAnd
    replaceMainGoal [g]
    -- implications between arithmetic facts (`Adv.inb`, discount clauses): decide them now if the
    -- context already knows, so that `omega` does not have to split on them in every side goal
    let fresh := (← g.getDecl).lctx.getFVarIds.filter fun f => !before.contains f || f == d.fvarId
    for f in fresh do
      let gs ← getGoals
      let some gcur := gs.head? | return
      let go ← gcur.withContext do
        let some dd := (← getLCtx).find? f | return false
        let ty ← instantiateMVars dd.type
        return ty.isArrow && isArith ty.bindingDomain! && isArith ty.bindingBody!
      if go then
        let saved ← saveState
        let ok ← try
          gcur.withContext do
            let ty ← instantiateMVars (← f.getType)
            let concl ← mkFreshExprSyntheticOpaqueMVar ty.bindingBody!
            let rest ← Lean.Elab.Tactic.run concl.mvarId! (do evalTactic (← `(tactic| omega)))
            if rest.isEmpty then
              let g1 ← gcur.assert `harith ty.bindingBody! (← instantiateMVars concl)
              let (_, g2) ← g1.intro1P
              let g3 ← g2.tryClear f
              replaceMainGoal [g3]
              pure true
            else pure false
          catch _ => pure false
        unless ok do
          saved.restore
          let saved2 ← saveState
          let ok2 ← try
            gcur.withContext do
              let ty ← instantiateMVars (← f.getType)
              let neg ← mkFreshExprSyntheticOpaqueMVar (mkNot ty.bindingDomain!)
              let rest ← Lean.Elab.Tactic.run neg.mvarId! (do evalTactic (← `(tactic| omega)))
              if rest.isEmpty then
                let g3 ← gcur.tryClear f
                replaceMainGoal [g3]
                pure true
              else pure false
            catch _ => pure false
          unless ok2 do saved2.restore
  let g ← getMainGoal
  if let some d := (← g.getDecl).lctx.findFromUserName? nm then
    let g ← g.rename d.fvarId (← Lean.Core.mkFreshUserName nm)
    replaceMainGoal [g]

elab "pg_absorb" : tactic => absorbName `hnew

set_option hygiene false in
macro "pg_intro" : tactic => `(tactic| (with_reducible intro hnew; pg_absorb))

open Lean Elab Tactic Meta in
/-- `split`, then normalise the hypotheses it introduced -/
elab "pg_split" : tactic => withMainContext do
  let g ← getMainGoal
  let old := (← g.getDecl).lctx.getFVarIds
  evalTactic (← `(tactic| split))
  let gs ← getGoals
  let mut out : List MVarId := []
  for gi in gs do
    setGoals [gi]
    let fresh := (← gi.getDecl).lctx.getFVarIds.filter fun f => !old.contains f
    for f in fresh do
      let gs' ← getGoals
      let some gcur := gs'.head? | break
      let isP ← gcur.withContext do
        let some d := (← getLCtx).find? f | return false
        isProp d.type
      if isP then
        let g' ← gcur.rename f `hfix
        replaceMainGoal [g']
        absorbName `hfix
    out := out ++ (← getGoals)
  setGoals out

open Lean Elab Tactic Meta in
/-- re-normalise the progress clauses that are still implications (their premises may be known by now) -/
elab "imp_fwd" : tactic => withMainContext do
  let g ← getMainGoal
  let fvars := (← g.getDecl).lctx.getFVarIds
  for fv in fvars do
    let gs ← getGoals
    let some gcur := gs.head? | return
    let go ← gcur.withContext do
      let some d := (← getLCtx).find? fv | return false
      if d.isImplementationDetail then return false
      return isProgClause (← instantiateMVars d.type)
    if go then
      let g' ← gcur.rename fv `hfix
      replaceMainGoal [g']
      absorbName `hfix

open Lean Elab Tactic Meta in
/-- case split on the premise of the first progress clause that is still an implication -/
elab "clause_cases" : tactic => withMainContext do
  let g ← getMainGoal
  for d in (← g.getDecl).lctx do
    if d.isImplementationDetail then continue
    let ty ← instantiateMVars d.type
    if isProgClause ty then
      let prem ← Lean.Elab.Term.exprToSyntax ty.bindingDomain!
      let hn := mkIdent `hfix
      evalTactic (← `(tactic| by_cases $hn:ident : $prem))
      let gs ← getGoals
      let mut out : List MVarId := []
      for gi in gs do
        setGoals [gi]
        absorbName `hfix
        out := out ++ (← getGoals)
      setGoals out
      return
  throwError "clause_cases: no clause"

end Oq3.Parser

namespace Oq3.Grammar
open Oq3.Gen Oq3.Parser

theorem atF_kind {k : SyntaxKind} (hc : compositePieces k = none) {K : Array SyntaxKind}
    {J : Array Bool} {p : Nat} (h : atF k K J p = true) : K.getD p .EOF = k := by
  rw [atF_simple hc] at h; simpa using h

open Lean Elab Tactic Meta in
/-- `goal_kind wp` / `pi` / `and`: succeeds iff the goal (after beta) is a `wp` statement / a `∀`,`→` /
a conjunction; a beta-redex is reduced on the way -/
elab "goal_kind " k:ident : tactic => withMainContext do
  let g ← getMainGoal
  let t ← instantiateMVars (← g.getType)
  let t' := t.cleanupAnnotations.headBeta
  let kind :=
    if t'.isAppOfArity ``Oq3.Parser.wp 5 || (← whnfR t').isAppOfArity ``Oq3.Parser.wp 5 then `wp
    else if t'.isForall then `pi
    else if t'.isAppOfArity ``And 2 then `and
    else `other
  unless kind == k.getId.eraseMacroScopes do throwError "goal_kind: {kind}"
  if t' != t then
    replaceMainGoal [← g.replaceTargetDefEq t']

/-- extensible: normalisation of rank tables before `omega` -/
syntax "pg_norm" : tactic
macro_rules | `(tactic| pg_norm) => `(tactic| skip)

/-- close a side goal from the (normalised) facts collected on the way -/
macro "pg_fin" : tactic => `(tactic| first
  | assumption
  | (arith_goal; first | omega | (pg_norm; omega) | ((try pg_nf); pg_norm; omega))
  | (pg_nf; done)
  | ((try pg_nf); (repeat' apply And.intro) <;> first | assumption | (arith_goal; pg_norm; omega)))

macro "pg_fin2" : tactic => `(tactic| first
  | pg_fin
  | (imp_fwd; pg_fin)
  | (pg_simp; done)
  | (pg_simp; omega)
  | (pg_sets; done)
  | (pg_sets; omega))

macro "pg_close" : tactic => `(tactic| first
  | exact trivial
  | (with_reducible rfl)
  | decide
  | pg_fin2
  | (clause_cases <;> first | pg_fin2 | (clause_cases <;> pg_fin2)))

macro "pg_step" : tactic => `(tactic| first
  | (goal_kind wp; first
      | wp_rule [Pure.pure wp_pure, Bind.bind wp_bind, ite wp_ite, andM wp_andM, orM wp_orM, notM wp_notM,
          Functor.map wp_map, at' wp_at, current wp_current, atTs wp3_atTs, nth wp3_nth, start wp3_start,
          error wp3_error, Marker.complete wp3_complete, Marker.abandon wp3_abandon,
          CompletedMarker.precede wp3_precede, CompletedMarker.extendTo wp3_extendTo, eat wp3_eat,
          bump wp3_bump, bumpAny wp3_bumpAny, expect wp3m_expect, errRecover wp3m_errRecover,
          errAndBump wp3m_errAndBump, typeName wp3m_typeName, currentOp wp_currentOp]
      | (with_reducible apply wp_fail; decide)
      | (with_reducible apply wp_panic; decide)
      | wp_call prog
      | pg_split
      | dsimp only)
  | (goal_kind pi; pg_intro)
  | (goal_kind and; with_reducible apply And.intro)
  | pg_close
  | pg_split
  | dsimp only)

set_option hygiene false in
/-- absorb the hypothesis `hpre` of the statement, then run -/
macro "pg" : tactic => `(tactic| (revert hpre; repeat' pg_step))

end Oq3.Grammar
