/-
C17 (renaming through lexer and parser) — shared definitions.

* `tokId1`, `tokIdE`, `tokIdI`: the parser invariant "a token event of ONE raw token has the kind of
  that raw token; a token event of several raw tokens (a composite operator) is not an `IDENT` and
  glues no raw `IDENT`" — over events (`Lemmas/RenameTextInv.lean`, generated
  `Lemmas/RenameTextGrammar.lean`, `Lemmas/RenameTextParse.lean`) and over token items (builder).
* `mapTree`, `mapC`: a function `φ kind text` applied to every leaf text of a model tree / of a
  concrete syntax tree (kinds, shape and — for `mapC` — ranges kept).
-/
import Oq3.Lemmas.BuilderFit
import Oq3.Model.CNode

namespace Oq3.RenameText
open Oq3.Gen Oq3.Parser Oq3.Builder Oq3.Acc

/-- the check for one token event `token k n` at raw-token cursor `c`; `κ i` = kind of the `i`-th
raw (non-trivia) token -/
def tokId1 (κ : Nat → SyntaxKind) (c : Nat) (k : SyntaxKind) (n : Nat) : Bool :=
  if n = 1 then κ c == k
  else k != .IDENT && (List.range n).all fun j => κ (c + j) != .IDENT

/-- over parser events; `c` = raw tokens consumed before -/
def tokIdE (K : Array SyntaxKind) : Nat → List Ev → Bool
  | _, [] => true
  | c, .token k n :: es => tokId1 (fun i => K.getD i .EOF) c k n && tokIdE K (c + n) es
  | c, _ :: es => tokIdE K c es

/-- over token / error items -/
def tokIdI (K : List SyntaxKind) : Nat → List Item → Bool
  | _, [] => true
  | c, .token k n :: is => tokId1 (fun i => K.getD i .EOF) c k n && tokIdI K (c + n) is
  | c, .error _ :: is => tokIdI K c is

theorem tokIdE_items (K : List SyntaxKind) (c : Nat) (evs : List Ev) :
    tokIdE K.toArray c evs = tokIdI K c (itemsE evs) := by
  induction evs generalizing c with
  | nil => rfl
  | cons e es ih => cases e <;> simp [tokIdE, tokIdI, itemsE, ih]

mutual
/-- `φ kind text` applied to every leaf text -/
def mapTree (φ : SyntaxKind → List Char → List Char) : Tree → Tree
  | .leaf k t => .leaf k (φ k t)
  | .node k cs => .node k (mapTrees φ cs)
def mapTrees (φ : SyntaxKind → List Char → List Char) : List Tree → List Tree
  | [] => []
  | c :: cs => mapTree φ c :: mapTrees φ cs
end

mutual
/-- `φ kind text` applied to every token text of a concrete syntax tree; ranges kept -/
def mapC (φ : SyntaxKind → List Char → List Char) : CNode → CNode
  | .node k s e cs => .node k s e (mapCs φ cs)
  | .token k s e t => .token k s e (φ k t)
def mapCs (φ : SyntaxKind → List Char → List Char) : List CNode → List CNode
  | [] => []
  | c :: cs => mapC φ c :: mapCs φ cs
end

theorem mapCs_eq (φ : SyntaxKind → List Char → List Char) (cs : List CNode) :
    mapCs φ cs = cs.map (mapC φ) := by
  induction cs with
  | nil => rfl
  | cons c cs ih => simp [mapCs, ih]

theorem mapTrees_eq (φ : SyntaxKind → List Char → List Char) (cs : List Tree) :
    mapTrees φ cs = cs.map (mapTree φ) := by
  induction cs with
  | nil => rfl
  | cons c cs ih => simp [mapTrees, ih]

end Oq3.RenameText
