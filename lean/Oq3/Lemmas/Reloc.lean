/-
Relocation of parser runs (for C16): the events a grammar function produces do not depend on
where it runs.

A run from a state `s0` — input `K0`, position `q`, events `X` — is reproduced from every state
`lift c s0` whose input has `K0` as the suffix from position `c.p` on, whose position is `c.p + q`
and whose events are `c.E0 ++ X`: it produces the same new events (forward-parent links are
relative offsets, so the event list itself is position independent) and returns the same value up to
the shift of marker positions by `|c.E0|` (`Sh`).  `protectedPos` (a ghost list of absolute event
indices) is shifted likewise.

Primitive lemmas here; the grammar functions are lifted by the generated `Lemmas/GrammarReloc.lean`
(tools/gen_grammar_reloc.py).
-/
import Oq3.Lemmas.SafeTok
set_option linter.unusedVariables false
set_option linter.unusedSimpArgs false

namespace Oq3.Parser
open Oq3.Gen

/-! ### shifting the event indices in values -/

class Sh (α : Type) where
  sh : Nat → α → α

instance : Sh Unit := ⟨fun _ a => a⟩
instance : Sh Bool := ⟨fun _ a => a⟩
instance : Sh Nat := ⟨fun _ a => a⟩
instance : Sh SyntaxKind := ⟨fun _ a => a⟩
instance : Sh Marker := ⟨fun n m => { m with pos := m.pos + n }⟩
instance : Sh CompletedMarker := ⟨fun n c => { c with pos := c.pos + n }⟩
instance {α} [Sh α] : Sh (Option α) := ⟨fun n o => o.map (Sh.sh n)⟩
instance {α β} [Sh α] [Sh β] : Sh (α × β) := ⟨fun n p => (Sh.sh n p.1, Sh.sh n p.2)⟩
instance : Sh (Except Marker Unit) :=
  ⟨fun n e => match e with | .ok u => .ok u | .error m => .error (Sh.sh n m)⟩

instance : Sh Oq3.Grammar.BlockLike := ⟨fun _ a => a⟩
instance : Sh Oq3.Gen.Ops.Assoc := ⟨fun _ a => a⟩
@[simp] theorem sh_blockLike (n : Nat) (a : Oq3.Grammar.BlockLike) : Sh.sh n a = a := rfl
@[simp] theorem sh_assoc (n : Nat) (a : Oq3.Gen.Ops.Assoc) : Sh.sh n a = a := rfl
@[simp] theorem sh_unit (n : Nat) (a : Unit) : Sh.sh n a = a := rfl
@[simp] theorem sh_bool (n : Nat) (a : Bool) : Sh.sh n a = a := rfl
@[simp] theorem sh_nat (n : Nat) (a : Nat) : Sh.sh n a = a := rfl
@[simp] theorem sh_kind (n : Nat) (a : SyntaxKind) : Sh.sh n a = a := rfl
@[simp] theorem sh_none {α} [Sh α] (n : Nat) : Sh.sh n (none : Option α) = none := rfl
@[simp] theorem sh_some {α} [Sh α] (n : Nat) (a : α) : Sh.sh n (some a) = some (Sh.sh n a) := rfl
@[simp] theorem sh_pair {α β} [Sh α] [Sh β] (n : Nat) (a : α) (b : β) :
    Sh.sh n (a, b) = (Sh.sh n a, Sh.sh n b) := rfl
@[simp] theorem sh_ok (n : Nat) (u : Unit) : Sh.sh n (Except.ok u : Except Marker Unit) = .ok u := rfl
@[simp] theorem sh_error (n : Nat) (m : Marker) :
    Sh.sh n (Except.error m : Except Marker Unit) = .error (Sh.sh n m) := rfl
@[simp] theorem sh_cm_kind (n : Nat) (c : CompletedMarker) : (Sh.sh n c).kind = c.kind := rfl
@[simp] theorem sh_cm_pos (n : Nat) (c : CompletedMarker) : (Sh.sh n c).pos = c.pos + n := rfl
@[simp] theorem sh_m_pos (n : Nat) (m : Marker) : (Sh.sh n m).pos = m.pos + n := rfl
@[simp] theorem sh_m_isFp (n : Nat) (m : Marker) : (Sh.sh n m).isFp = m.isFp := rfl
@[simp] theorem sh_isSome {α} [Sh α] (n : Nat) (o : Option α) : (Sh.sh n o).isSome = o.isSome := by
  cases o <;> rfl
@[simp] theorem sh_isNone {α} [Sh α] (n : Nat) (o : Option α) : (Sh.sh n o).isNone = o.isNone := by
  cases o <;> rfl

/-! ### the context a run is relocated into -/

structure Ctx where
  K : Array SyntaxKind
  J : Array Bool
  p : Nat
  E0 : Array Ev
  P0 : List Nat

/-- the relocated state -/
def lift (c : Ctx) (s0 : P) : P :=
  { s0 with kinds := c.K, joint := c.J, pos := c.p + s0.pos, events := c.E0 ++ s0.events,
            protectedPos := s0.protectedPos.map (· + c.E0.size) ++ c.P0 }

/-- the input of `s0` is the suffix of the context's input from `c.p` on; the context's protected
positions lie in its own events -/
structure Fits (c : Ctx) (s0 : P) : Prop where
  kinds : ∀ i, c.K.getD (c.p + i) .EOF = s0.kinds.getD i .EOF
  joint : ∀ i, c.J.getD (c.p + i) false = s0.joint.getD i false
  prot : ∀ q ∈ c.P0, q < c.E0.size

theorem Fits.congr {c : Ctx} {s0 s1 : P} (h : Fits c s0) (hk : s1.kinds = s0.kinds) (hj : s1.joint = s0.joint) :
    Fits c s1 := ⟨by rw [hk]; exact h.kinds, by rw [hj]; exact h.joint, h.prot⟩

/-- **relocation**: `x` (the same computation as `x0` with its marker arguments shifted by `n`)
reproduces every successful run of `x0` in every context with `n` events -/
structure RL {α} [Sh α] (n : Nat) (x0 x : G α) : Prop where
  run : ∀ c s0 r0, c.E0.size = n → Fits c s0 → x0 s0 = .ok r0 →
    x (lift c s0) = .ok (Sh.sh n r0.1, lift c r0.2) ∧ Fits c r0.2

section
variable {α β : Type} [Sh α] [Sh β] {n : Nat}

theorem RL.bind {x0 x : G α} {f0 f : α → G β} (hx : RL n x0 x)
    (hf : ∀ a0, RL n (f0 a0) (f (Sh.sh n a0))) : RL n (x0 >>= f0) (x >>= f) := by
  refine ⟨fun c s0 r0 hn hF h => ?_⟩
  obtain ⟨a, s1, h1, h2⟩ := (G.bind_ok x0 f0 s0 r0).mp h
  obtain ⟨e1, hF1⟩ := hx.run c s0 (a, s1) hn hF h1
  obtain ⟨e2, hF2⟩ := (hf a).run c s1 r0 hn hF1 h2
  exact ⟨(G.bind_ok x f _ _).mpr ⟨_, _, e1, e2⟩, hF2⟩

theorem RL.pure {a0 a : α} (h : a = Sh.sh n a0) : RL n (pure a0 : G α) (pure a) := by
  refine ⟨fun c s0 r0 hn hF hr => ?_⟩
  simp at hr; subst hr; subst h
  exact ⟨by simp, hF⟩

theorem RL.fail (o : Outcome) (x : G α) : RL n (fail o : G α) x := ⟨fun _ _ _ _ _ h => by simp at h⟩
theorem RL.panic (site : String) (x : G α) : RL n (panic site : G α) x := ⟨fun _ _ _ _ _ h => by simp at h⟩

theorem RL.ite (c : Prop) [Decidable c] {x0 y0 x y : G α} (hx : RL n x0 x) (hy : RL n y0 y) :
    RL n (if c then x0 else y0) (if c then x else y) := by
  split <;> assumption

theorem rl_andM {x0 y0 x y : G Bool} (hx : RL n x0 x) (hy : RL n y0 y) : RL n (x0 <&&> y0) (x <&&> y) := by
  unfold _root_.andM
  refine RL.bind hx ?_
  intro b; cases b
  · exact RL.pure rfl
  · exact hy

theorem rl_orM {x0 y0 x y : G Bool} (hx : RL n x0 x) (hy : RL n y0 y) : RL n (x0 <||> y0) (x <||> y) := by
  unfold _root_.orM
  refine RL.bind hx ?_
  intro b; cases b
  · exact hy
  · exact RL.pure rfl

theorem rl_map {f0 f : α → β} {x0 x : G α} (hx : RL n x0 x) (hf : ∀ a0, f (Sh.sh n a0) = Sh.sh n (f0 a0)) :
    RL n (f0 <$> x0) (f <$> x) := by
  refine ⟨fun c s0 r0 hn hF h => ?_⟩
  rw [G.map_ok] at h
  obtain ⟨a, s1, h1, h2⟩ := h
  subst h2
  obtain ⟨e1, hF1⟩ := hx.run c s0 (a, s1) hn hF h1
  exact ⟨(G.map_ok f x _ _).mpr ⟨_, _, e1, by rw [hf]⟩, hF1⟩

theorem rl_notM {x0 x : G Bool} (hx : RL n x0 x) : RL n (notM x0) (notM x) := by
  unfold _root_.notM
  exact rl_map hx (fun _ => rfl)

end

/-! ### the look-ahead primitives -/

theorem lift_kindAt (c : Ctx) (s0 : P) (hF : Fits c s0) (i : Nat) :
    (lift c s0).kindAt ((lift c s0).pos + i) = s0.kindAt (s0.pos + i) := by
  show c.K.getD (c.p + s0.pos + i) .EOF = s0.kinds.getD (s0.pos + i) .EOF
  rw [Nat.add_assoc]; exact hF.kinds _

theorem lift_atF (k : SyntaxKind) (c : Ctx) (s0 : P) (hF : Fits c s0) :
    atF k (lift c s0).kinds (lift c s0).joint (lift c s0).pos = atF k s0.kinds s0.joint s0.pos := by
  have hk : ∀ i, c.K.getD (c.p + s0.pos + i) .EOF = s0.kinds.getD (s0.pos + i) .EOF := by
    intro i; rw [Nat.add_assoc]; exact hF.kinds _
  have hj : ∀ i, c.J.getD (c.p + s0.pos + i) false = s0.joint.getD (s0.pos + i) false := by
    intro i; rw [Nat.add_assoc]; exact hF.joint _
  have hk0 := hk 0
  have hj0 := hj 0
  simp only [Nat.add_zero] at hk0 hj0
  have e1 : (lift c s0).kinds = c.K := rfl
  have e2 : (lift c s0).joint = c.J := rfl
  have e3 : (lift c s0).pos = c.p + s0.pos := rfl
  rw [e1, e2, e3]
  unfold atF
  cases hc : compositePieces k with
  | none => simp only [hk0]
  | some ps =>
    rcases ps with _ | ⟨k1, _ | ⟨k2, _ | ⟨k3, _ | ⟨k4, rest⟩⟩⟩⟩
    · rfl
    · rfl
    · simp only [hk0, hj0, hk 1]
    · simp only [hk0, hj0, hk 1, hk 2, hj 1]
    · rfl

theorem current_rl {n : Nat} : RL n current current := by
  refine ⟨fun c s0 r0 hn hF h => ?_⟩
  rw [current_eq] at h ⊢
  injection h with h; subst h
  have := lift_kindAt c s0 hF 0
  simp only [Nat.add_zero] at this
  exact ⟨by rw [this]; rfl, hF⟩

theorem at_rl {n : Nat} (k : SyntaxKind) : RL n (at' k) (at' k) := by
  refine ⟨fun c s0 r0 hn hF h => ?_⟩
  rw [at_total] at h ⊢
  injection h with h; subst h
  exact ⟨by rw [lift_atF k c s0 hF]; rfl, hF⟩

theorem atTs_rl {n : Nat} (ts : TokenSet) : RL n (atTs ts) (atTs ts) := by
  refine ⟨fun c s0 r0 hn hF h => ?_⟩
  rw [atTs_eq] at h ⊢
  injection h with h; subst h
  have := lift_kindAt c s0 hF 0
  simp only [Nat.add_zero] at this
  exact ⟨by rw [this]; rfl, hF⟩

theorem nth_rl {n : Nat} (k : Nat) : RL n (nth k) (nth k) := by
  refine ⟨fun c s0 r0 hn hF h => ?_⟩
  rw [nth_eq] at h ⊢
  split at h
  · cases h
  · rename_i h1
    split at h
    · cases h
    · rename_i h2
      injection h with h; subst h
      have e2 : ¬ (lift c s0).steps > (lift c s0).stepLimit := h2
      simp only [h1, e2, if_false]
      rw [lift_kindAt c s0 hF k]
      exact ⟨rfl, hF.congr rfl rfl⟩

/-! ### events -/

theorem lift_hookTrip (c : Ctx) (s0 : P) : (lift c s0).hookTrip = s0.hookTrip := rfl

theorem append_push (a b : Array Ev) (e : Ev) : (a ++ b).push e = a ++ b.push e := by
  apply Array.ext'
  simp

theorem start_rl {n : Nat} : RL n start start := by
  refine ⟨fun c s0 r0 hn hF h => ?_⟩
  rw [start_eq] at h ⊢
  rw [lift_hookTrip]
  split at h
  · cases h
  · rename_i h1
    injection h with h; subst h
    simp only [h1, if_false, Bool.false_eq_true]
    refine ⟨?_, hF.congr rfl rfl⟩
    have hsz : (lift c s0).events.size = s0.events.size + n := by
      show (c.E0 ++ s0.events).size = _
      rw [Array.size_append, hn]; omega
    simp only [hsz]
    refine congrArg Except.ok (Prod.ext rfl ?_)
    simp only [lift, append_push]

theorem error_rl {n : Nat} (msg : String) : RL n (error msg) (error msg) := by
  refine ⟨fun c s0 r0 hn hF h => ?_⟩
  rw [error_eq] at h ⊢
  rw [lift_hookTrip]
  split at h
  · cases h
  · rename_i h1
    injection h with h; subst h
    simp only [h1, if_false, Bool.false_eq_true]
    refine ⟨?_, hF.congr rfl rfl⟩
    refine congrArg Except.ok (Prod.ext rfl ?_)
    simp only [lift, append_push]

/-! ### array lemmas for the relocated event list -/

theorem app_getElem? (a b : Array Ev) (i : Nat) : (a ++ b)[i + a.size]? = b[i]? := by
  rw [Array.getElem?_append_right (by omega)]
  congr 1; omega

theorem app_set (a b : Array Ev) (i : Nat) (e : Ev) : (a ++ b).set! (i + a.size) e = a ++ b.set! i e := by
  apply Array.ext'
  simp only [Array.set!_eq_setIfInBounds, Array.toList_setIfInBounds, Array.toList_append]
  rw [List.set_append_right _ _ (by simp)]
  congr 2
  simp

theorem app_size (a b : Array Ev) : (a ++ b).size = b.size + a.size := by
  rw [Array.size_append]; omega

theorem app_pop (a b : Array Ev) (h : b.size ≠ 0) : (a ++ b).pop = a ++ b.pop := by
  apply Array.ext'
  simp only [Array.toList_pop, Array.toList_append]
  rw [List.dropLast_append_of_ne_nil]
  intro hb
  have : b.toList.length = 0 := by rw [hb]; rfl
  simp at this
  exact h (by rw [this]; rfl)

theorem app_back? (a b : Array Ev) (h : b.size ≠ 0) : (a ++ b).back? = b.back? := by
  simp only [Array.back?]
  rw [Array.size_append, show a.size + b.size - 1 = (b.size - 1) + a.size by omega, app_getElem?]

/-! ### bumps -/

theorem eat_rl {n : Nat} (k : SyntaxKind) : RL n (eat k) (eat k) := by
  refine ⟨fun c s0 r0 hn hF h => ?_⟩
  by_cases hk : (k == .EOF) = true
  · unfold eat at h; simp only [hk, if_true] at h; cases h
  · have hk' : (k == .EOF) = false := by simpa using hk
    rw [eat_eq' k hk'] at h ⊢
    rw [lift_atF k c s0 hF]
    split at h
    · rename_i ha
      injection h with h; subst h
      simp only [ha, if_true]
      refine ⟨congrArg Except.ok (Prod.ext rfl ?_), hF.congr rfl rfl⟩
      simp only [lift, append_push, Nat.add_assoc]
    · rename_i ha
      injection h with h; subst h
      simp only [ha, if_false]
      exact ⟨rfl, hF⟩

theorem bumpAny_rl {n : Nat} : RL n bumpAny bumpAny := by
  refine ⟨fun c s0 r0 hn hF h => ?_⟩
  rw [bumpAny_eq] at h ⊢
  have hk := lift_kindAt c s0 hF 0
  simp only [Nat.add_zero] at hk
  rw [hk]
  split at h
  · rename_i h1
    injection h with h; subst h
    simp only [h1, if_true]
    exact ⟨trivial, hF⟩
  · rename_i h1
    injection h with h; subst h
    simp only [h1, if_false]
    refine ⟨congrArg Except.ok (Prod.ext rfl ?_), hF.congr rfl rfl⟩
    simp only [lift, append_push, Nat.add_assoc]

/-! ### markers -/

theorem prot_filter (l P0 : List Nat) (n i : Nat) (h : ∀ q ∈ P0, q < n) :
    (l.map (· + n) ++ P0).filter (· != i + n) = (l.filter (· != i)).map (· + n) ++ P0 := by
  rw [List.filter_append, List.filter_map]
  congr 1
  · congr 1
    apply List.filter_congr
    intro x _
    show ((x + n != i + n) = (x != i))
    rw [Bool.eq_iff_iff]
    simp
  · rw [List.filter_eq_self]
    intro q hq
    have := h q hq
    simp; omega

theorem prot_contains (l P0 : List Nat) (n i : Nat) (h : ∀ q ∈ P0, q < n) :
    (l.map (· + n) ++ P0).contains (i + n) = l.contains i := by
  rw [Bool.eq_iff_iff]
  simp only [List.contains_iff_mem, List.mem_append, List.mem_map]
  constructor
  · rintro (⟨x, hx, he⟩ | hq)
    · have : x = i := by omega
      rw [← this]; exact hx
    · have := h _ hq; omega
  · intro hi; exact Or.inl ⟨i, hi, rfl⟩

theorem lift_events (c : Ctx) (s0 : P) : (lift c s0).events = c.E0 ++ s0.events := rfl

theorem complete_rl {n : Nat} (m0 : Marker) (kind : SyntaxKind) :
    RL n (m0.complete kind) ((Sh.sh n m0).complete kind) := by
  refine ⟨fun c s0 r0 hn hF h => ?_⟩
  subst hn
  rw [complete_eq] at h ⊢
  rw [lift_hookTrip, lift_events, sh_m_pos, app_getElem?]
  split at h
  · rename_i x k0 fp heq
    split at h
    · cases h
    · rename_i h1
      split at h
      · cases h
      · rename_i h2
        split at h
        · cases h
        · rename_i h3
          injection h with h; subst h
          simp only [h1, h2, h3, if_false]
          refine ⟨congrArg Except.ok (Prod.ext rfl ?_), hF.congr rfl rfl⟩
          simp only [lift, P.slotSet, app_set, append_push, prot_filter _ _ _ _ hF.prot]
  · cases h

theorem abandon_rl {n : Nat} (m0 : Marker) : RL n m0.abandon (Sh.sh n m0).abandon := by
  refine ⟨fun c s0 r0 hn hF h => ?_⟩
  subst hn
  rw [abandon_eq] at h ⊢
  have hprot : (lift c s0).protectedPos = s0.protectedPos.map (· + c.E0.size) ++ c.P0 := rfl
  rw [sh_m_isFp, sh_m_pos, hprot, prot_contains _ _ _ _ hF.prot, lift_events, app_size]
  split at h
  · cases h
  · rename_i h1
    split at h
    · cases h
    · rename_i h2
      have hsz : s0.events.size ≠ 0 := by simpa using h2
      have hz : (s0.events.size + c.E0.size == 0) = false := by
        simp only [beq_eq_false_iff_ne, ne_eq]; omega
      simp only [h1, hz, if_false, Bool.false_eq_true]
      split at h
      · rename_i h3
        have h3' : m0.pos = s0.events.size - 1 := by simpa using h3
        have hpos : (m0.pos + c.E0.size == s0.events.size + c.E0.size - 1) = true := by
          simp only [beq_iff_eq]; omega
        simp only [hpos, if_true]
        rw [app_back? _ _ hsz]
        split at h
        · rename_i x k fp heq
          split at h
          · rename_i h4
            injection h with h; subst h
            simp only [h4, if_true]
            refine ⟨congrArg Except.ok (Prod.ext rfl ?_), hF.congr rfl rfl⟩
            simp only [lift, app_pop _ _ hsz]
          · cases h
        · cases h
      · rename_i h3
        have h3' : ¬ m0.pos = s0.events.size - 1 := by simpa using h3
        have hpos : (m0.pos + c.E0.size == s0.events.size + c.E0.size - 1) = false := by
          simp only [beq_eq_false_iff_ne, ne_eq]; omega
        injection h with h; subst h
        simp only [hpos, if_false, Bool.false_eq_true]
        exact ⟨rfl, hF.congr rfl rfl⟩

theorem lift_started (c : Ctx) (s0 : P) : (lift c s0).started = lift c s0.started := by
  simp only [P.started, lift, append_push]

theorem precede_rl {n : Nat} (cm0 : CompletedMarker) : RL n cm0.precede (Sh.sh n cm0).precede := by
  refine ⟨fun c s0 r0 hn hF h => ?_⟩
  subst hn
  rw [precede_eq] at h ⊢
  rw [lift_hookTrip, lift_started, lift_events, lift_events, sh_cm_pos, app_getElem?, app_size]
  split at h
  · cases h
  · rename_i h1
    simp only [h1, if_false]
    split at h
    · rename_i x k fp heq
      split at h
      · cases h
      · rename_i h2
        have h2' : ¬ s0.events.size + c.E0.size < cm0.pos + c.E0.size := by omega
        injection h with h; subst h
        simp only [h2', if_false]
        refine ⟨congrArg Except.ok (Prod.ext rfl ?_), hF.congr rfl rfl⟩
        simp only [lift, P.started, app_set, append_push, Nat.add_sub_add_right, List.map_cons, List.cons_append]
    · cases h

theorem extendTo_rl {n : Nat} (cm0 : CompletedMarker) (m0 : Marker) :
    RL n (cm0.extendTo m0) ((Sh.sh n cm0).extendTo (Sh.sh n m0)) := by
  refine ⟨fun c s0 r0 hn hF h => ?_⟩
  subst hn
  rw [extendTo_eq] at h ⊢
  rw [lift_events, sh_m_pos, sh_cm_pos, app_getElem?, app_getElem?]
  split at h
  · rename_i x k fp heq
    split at h
    · cases h
    · rename_i h1
      have h1' : ¬ cm0.pos + c.E0.size < m0.pos + c.E0.size := by omega
      simp only [h1', if_false]
      split at h
      · rename_i x2 k2 fp2 heq2
        split at h
        · cases h
        · rename_i h2
          injection h with h; subst h
          simp only [h2, if_false]
          refine ⟨congrArg Except.ok (Prod.ext rfl ?_), hF.congr rfl rfl⟩
          simp only [lift, app_set, Nat.add_sub_add_right]
      · cases h
  · cases h

/-! ### proof search of the generated file -/

open Lean Elab Tactic Meta in
/-- case analysis of a value of type `Option _`, `_ × _`, `Except _ _` down to its positions -/
partial def shCases (g : MVarId) (fv : FVarId) : MetaM (List MVarId) := g.withContext do
  let ty ← whnfR (← inferType (mkFVar fv))
  let fn := ty.getAppFn
  if fn.isConstOf ``Option || fn.isConstOf ``Prod || fn.isConstOf ``Except then
    let subs ← g.cases fv
    let mut out : List MVarId := []
    for s in subs do
      let mut gs : List MVarId := [s.mvarId]
      for f in s.fields do
        if let .fvar fid := f then
          let mut gs' : List MVarId := []
          for gi in gs do
            gs' := gs' ++ (← shCases gi fid)
          gs := gs'
      out := out ++ gs
    return out
  else return [g]

open Lean Elab Tactic Meta in
/-- `intro` a value and split it into its positions -/
elab "rl_intro" : tactic => withMainContext do
  let g ← getMainGoal
  let t ← withReducible <| whnf (← instantiateMVars (← g.getType))
  unless t.isForall do throwError "rl_intro: nothing to introduce"
  let (fv, g1) ← g.intro1
  let gs ← shCases g1 fv
  replaceMainGoal gs

syntax "rl_lemma" : tactic
macro_rules | `(tactic| rl_lemma) => `(tactic| fail "no lemma")
syntax "rl_ih" : tactic
macro_rules | `(tactic| rl_ih) => `(tactic| fail "no ih")

macro "rl_step" : tactic => `(tactic| first
  | exact RL.pure (by first | rfl | (simp; done))
  | with_reducible exact RL.panic _ _
  | with_reducible exact RL.fail _ _
  | with_reducible exact current_rl
  | with_reducible exact at_rl _
  | with_reducible exact atTs_rl _
  | with_reducible exact nth_rl _
  | with_reducible exact start_rl
  | with_reducible exact error_rl _
  | with_reducible exact eat_rl _
  | with_reducible exact bumpAny_rl
  | with_reducible exact complete_rl _ _
  | with_reducible exact abandon_rl _
  | with_reducible exact precede_rl _
  | with_reducible exact extendTo_rl _ _
  | rl_lemma
  | rl_ih
  | with_reducible apply RL.bind
  | with_reducible apply rl_andM
  | with_reducible apply rl_orM
  | with_reducible apply rl_notM
  | rl_intro
  | simp only [sh_unit, sh_bool, sh_nat, sh_kind, sh_none, sh_some, sh_pair, sh_ok, sh_error, sh_cm_kind,
      sh_isSome, sh_isNone, sh_blockLike, sh_assoc, Option.isNone_some, Option.isNone_none, Option.isSome_some,
      Option.isSome_none, Bool.false_eq_true, if_false, if_true]
  | with_reducible apply RL.ite
  | split
  | dsimp only)

macro "rl" : tactic => `(tactic| repeat' rl_step)

theorem bump_rl {n : Nat} (k : SyntaxKind) : RL n (bump k) (bump k) := by unfold bump; rl
macro_rules | `(tactic| rl_lemma) => `(tactic| with_reducible exact bump_rl _)
theorem expect_rl {n : Nat} (k : SyntaxKind) : RL n (expect k) (expect k) := by unfold expect; rl
macro_rules | `(tactic| rl_lemma) => `(tactic| with_reducible exact expect_rl _)
theorem errRecover_rl {n : Nat} (msg : String) (rec : TokenSet) :
    RL n (errRecover msg rec) (errRecover msg rec) := by unfold errRecover; rl
macro_rules | `(tactic| rl_lemma) => `(tactic| with_reducible exact errRecover_rl _ _)
theorem errAndBump_rl {n : Nat} (msg : String) : RL n (errAndBump msg) (errAndBump msg) := errRecover_rl msg []
macro_rules | `(tactic| rl_lemma) => `(tactic| with_reducible exact errAndBump_rl _)

end Oq3.Parser
