/-
The typed-accessor layer as a STRUCTURED function: `Oq3.Acc.Build.program : CNode → BM Ast.Program`
produces, through exactly the accessors and in exactly the order of `Oq3.Acc.Dump.program`
(`Model/Accessors.lean`, = `harness/src/m_ast.rs`), the value of type `Oq3.Ast.Program` that the
`sema` driver decodes from the dump line (`Driver/Sema.lean: program`).  Where the dump prints `!`
for a panicking text/kind accessor the decoder answers `BAD-AST` (the `Ast` types have no
constructor for it); here that is `BErr.badAst`.  The three `block_or_stmt` panics are
`Ast.Acc.panicked`, as in the decoder.

`Model/Accessors.lean` is not edited: this file re-defines the function with a structured result.
-/
import Oq3.Model.Accessors

namespace Oq3.Acc

inductive BErr
  /-- recursion fuel exhausted (never with `Build.defaultFuel`) -/
  | fuel
  /-- an accessor panicked at a place the `Ast` types cannot represent (`!` in the dump ⇒ the
  decoder's `BAD-AST`) -/
  | badAst
  /-- a node of a kind outside the enum (`Expr::cast` / `Stmt::cast` would have returned `None`;
  unreachable through the accessors) -/
  | notInEnum
  deriving DecidableEq, Repr, Inhabited

abbrev BM := Except BErr

namespace Build
open Oq3.Gen

def span (n : CNode) : Ast.Span := ⟨n.start, n.stop⟩

def optM {α : Type} (f : CNode → BM α) : Option CNode → BM (Option α)
  | none => .ok none
  | some c => (f c).map some

def listM {α : Type} (f : CNode → BM α) : List CNode → BM (List α)
  | [] => .ok []
  | c :: cs =>
    match f c with
    | .error e => .error e
    | .ok a => (listM f cs).map (a :: ·)

def ofPRes {α : Type} : PRes α → BM α
  | .ok a => .ok a
  | .panic => .error .badAst

def str (cs : List Char) : String := String.ofList cs

def text (n : CNode) : BM String := (ofPRes (HasTextNode.text n)).map str

def name (n : CNode) : BM Ast.Name := (text n).map fun t => ⟨span n, t⟩
def identifier (n : CNode) : BM Ast.Identifier := (text n).map fun t => ⟨span n, t⟩
def hardwareQubit (n : CNode) : BM Ast.HardwareQubit := (text n).map fun t => ⟨span n, t⟩
def param (n : CNode) : BM Ast.Param := (text n).map fun t => ⟨span n, t⟩
def paramList (n : CNode) : BM Ast.ParamList :=
  (listM param (ParamList.params n)).map fun ps => ⟨span n, ps⟩

def literalKind : LiteralKind → Ast.LiteralKind
  | .intNumber t => .intNumber (str t.tokenText) (Oq3.TokenExt.intValue t.tokenText)
  | .floatNumber t => .floatNumber (str t.tokenText) ((floatValueText t.tokenText).map str)
  | .bitString t => .bitString (str t.tokenText) ((Oq3.TokenExt.quotedContents t.tokenText).map str)
  | .bool v => .bool v
  | .byte _ => .byte
  | .char _ => .char
  | .string _ => .string

def literal (n : CNode) : BM Ast.Literal :=
  (ofPRes (Literal.kind n)).map fun k => ⟨span n, literalKind k⟩

def timingLiteral (n : CNode) : BM Ast.Expr :=
  match ofPRes (TimingLiteral.time_unit n) with
  | .error e => .error e
  | .ok tu =>
    match optM text (TimingLiteral.identifier n) with
    | .error e => .error e
    | .ok it => (optM literal (TimingLiteral.literal n)).map fun l => .timingLiteral (span n) tu it l

def filePath (n : CNode) : BM Ast.FilePath :=
  (ofPRes (FilePath.to_string n)).map fun s => ⟨span n, s.map str⟩

/-- `IndexKind::cast`: SET_EXPRESSION | EXPRESSION_LIST (inline in `m_ast.rs: index_operator`) -/
def indexKindOf (fs : CNode → BM Ast.SetExpression) (fe : CNode → BM Ast.ExpressionList) (k : CNode) :
    BM Ast.IndexKind :=
  if k.kind == .SET_EXPRESSION then (fs k).map .setExpression else (fe k).map .expressionList

mutual

def designator : Nat → CNode → BM Ast.Designator
  | 0, _ => .error .fuel
  | fuel + 1, n => (optM (expr fuel) (Designator.expr n)).map fun e => .mk (span n) e

def scalarType : Nat → CNode → BM Ast.ScalarType
  | 0, _ => .error .fuel
  | fuel + 1, n =>
    match ofPRes (ScalarType.kind n) with
    | .error e => .error e
    | .ok k =>
      match optM (designator fuel) (ScalarType.designator n) with
      | .error e => .error e
      | .ok d => (optM (scalarType fuel) (ScalarType.scalar_type n)).map fun s => .mk (span n) k d s

def expressionList : Nat → CNode → BM Ast.ExpressionList
  | 0, _ => .error .fuel
  | fuel + 1, n => (listM (expr fuel) (ExpressionList.exprs n)).map fun es => .mk (span n) es

def setExpression : Nat → CNode → BM Ast.SetExpression
  | 0, _ => .error .fuel
  | fuel + 1, n =>
    (optM (expressionList fuel) (SetExpression.expression_list n)).map fun el => .mk (span n) el

def rangeExpr : Nat → CNode → BM Ast.RangeExpr
  | 0, _ => .error .fuel
  | fuel + 1, n =>
    match optM (expr fuel) (RangeExpr.start_step_stop n).1 with
    | .error e => .error e
    | .ok a =>
      match optM (expr fuel) (RangeExpr.start_step_stop n).2.1 with
      | .error e => .error e
      | .ok b => (optM (expr fuel) (RangeExpr.start_step_stop n).2.2).map fun c => .mk (span n) a b c

def indexOperator : Nat → CNode → BM Ast.IndexOperator
  | 0, _ => .error .fuel
  | fuel + 1, n =>
    (optM (indexKindOf (setExpression fuel) (expressionList fuel)) (IndexOperator.index_kind n)).map fun k =>
      .mk (span n) k

def indexedIdentifier : Nat → CNode → BM Ast.IndexedIdentifier
  | 0, _ => .error .fuel
  | fuel + 1, n =>
    match optM identifier (IndexedIdentifier.identifier n) with
    | .error e => .error e
    | .ok i =>
      (listM (indexOperator fuel) (IndexedIdentifier.index_operators n)).map fun ops => .mk (span n) i ops

/-- `GateOperand::cast`: IDENTIFIER | INDEXED_IDENTIFIER | HARDWARE_QUBIT -/
def gateOperand : Nat → CNode → BM Ast.GateOperand
  | 0, _ => .error .fuel
  | fuel + 1, n =>
    if n.kind == .HARDWARE_QUBIT then (hardwareQubit n).map .hardwareQubit
    else if n.kind == .IDENTIFIER then (identifier n).map .identifier
    else (indexedIdentifier fuel n).map .indexedIdentifier

def qubitList : Nat → CNode → BM Ast.QubitList
  | 0, _ => .error .fuel
  | fuel + 1, n => (listM (gateOperand fuel) (QubitList.gate_operands n)).map fun gs => .mk (span n) gs

def argList : Nat → CNode → BM Ast.ArgList
  | 0, _ => .error .fuel
  | fuel + 1, n => (optM (expressionList fuel) (ArgList.expression_list n)).map fun el => .mk (span n) el

def parenExpr : Nat → CNode → BM Ast.ParenExpr
  | 0, _ => .error .fuel
  | fuel + 1, n => (optM (expr fuel) (ParenExpr.expr n)).map fun e => .mk (span n) e

def gateCallExpr : Nat → CNode → BM Ast.GateCallExpr
  | 0, _ => .error .fuel
  | fuel + 1, n =>
    match optM (qubitList fuel) (GateCallExpr.qubit_list n) with
    | .error e => .error e
    | .ok q =>
      match optM (argList fuel) (GateCallExpr.arg_list n) with
      | .error e => .error e
      | .ok a => (optM identifier (GateCallExpr.identifier n)).map fun i => .mk (span n) q a i

def gPhaseCallExpr : Nat → CNode → BM Ast.GPhaseCallExpr
  | 0, _ => .error .fuel
  | fuel + 1, n => (optM (expr fuel) (GPhaseCallExpr.arg n)).map fun e => .mk (span n) e

/-- `Modifier::cast`: INV_MODIFIER | POW_MODIFIER | CTRL_MODIFIER | NEG_CTRL_MODIFIER -/
def modifier : Nat → CNode → BM Ast.Modifier
  | 0, _ => .error .fuel
  | fuel + 1, n =>
    if n.kind == .INV_MODIFIER then .ok (.invModifier (span n))
    else if n.kind == .POW_MODIFIER then
      (optM (parenExpr fuel) (PowModifier.paren_expr n)).map fun p => .powModifier (span n) p
    else if n.kind == .CTRL_MODIFIER then
      (optM (parenExpr fuel) (CtrlModifier.paren_expr n)).map fun p => .ctrlModifier (span n) p
    else (optM (parenExpr fuel) (NegCtrlModifier.paren_expr n)).map fun p => .negCtrlModifier (span n) p

/-- `Expr::cast` then the `match` of `m_ast.rs: expr` -/
def expr : Nat → CNode → BM Ast.Expr
  | 0, _ => .error .fuel
  | fuel + 1, n =>
    match n.kind with
    | .PREFIX_EXPR =>
      (optM (expr fuel) (PrefixExpr.expr n)).map fun e => .prefixExpr (span n) (PrefixExpr.op_kind n) e
    | .PAREN_EXPR => (parenExpr fuel n).map .parenExpr
    | .BIN_EXPR =>
      match optM (expr fuel) (BinExpr.lhs n) with
      | .error e => .error e
      | .ok l => (optM (expr fuel) (BinExpr.rhs n)).map fun r => .binExpr (span n) (BinExpr.op_kind n) l r
    | .LITERAL => (literal n).map .literal
    | .TIMING_LITERAL => timingLiteral n
    | .IDENTIFIER => (identifier n).map .identifier
    | .HARDWARE_QUBIT => (hardwareQubit n).map .hardwareQubit
    | .RANGE_EXPR => (rangeExpr fuel n).map .rangeExpr
    | .INDEX_EXPR =>
      match optM (expr fuel) (IndexExpr.expr n) with
      | .error e => .error e
      | .ok e => (optM (indexOperator fuel) (IndexExpr.index_operator n)).map fun i => .indexExpr (span n) e i
    | .INDEXED_IDENTIFIER => (indexedIdentifier fuel n).map .indexedIdentifier
    | .MEASURE_EXPRESSION =>
      (optM (gateOperand fuel) (MeasureExpression.gate_operand n)).map fun g => .measureExpression (span n) g
    | .RETURN_EXPR => (optM (expr fuel) (ReturnExpr.expr n)).map fun e => .returnExpr (span n) e
    | .CAST_EXPRESSION =>
      match optM (scalarType fuel) (CastExpression.scalar_type n) with
      | .error e => .error e
      | .ok s => (optM (expr fuel) (CastExpression.expr n)).map fun e => .castExpression (span n) s e
    | .CALL_EXPR =>
      match optM (argList fuel) (CallExpr.arg_list n) with
      | .error e => .error e
      | .ok a => (optM identifier (CallExpr.identifier n)).map fun i => .callExpr (span n) a i
    | .GATE_CALL_EXPR => (gateCallExpr fuel n).map .gateCallExpr
    | .G_PHASE_CALL_EXPR => (gPhaseCallExpr fuel n).map .gPhaseCallExpr
    | .MODIFIED_GATE_CALL_EXPR =>
      match listM (modifier fuel) (ModifiedGateCallExpr.modifiers n) with
      | .error e => .error e
      | .ok ms =>
        match optM (gateCallExpr fuel) (ModifiedGateCallExpr.gate_call_expr n) with
        | .error e => .error e
        | .ok g =>
          (optM (gPhaseCallExpr fuel) (ModifiedGateCallExpr.g_phase_call_expr n)).map fun p =>
            .modifiedGateCallExpr (span n) ms g p
    | .BLOCK_EXPR => .ok (.unsupported .blockExpr (span n))
    | .ARRAY_EXPR => .ok (.unsupported .arrayExpr (span n))
    | .ARRAY_LITERAL => .ok (.unsupported .arrayLiteral (span n))
    | .BOX_EXPR => .ok (.unsupported .boxExpr (span n))
    | .DIM_EXPR => .ok (.unsupported .dimExpr (span n))
    | _ => .error .notInEnum

end

/-- `ParamType::cast`: SCALAR_TYPE | ARRAY_REF_TYPE -/
def paramType : Nat → CNode → BM Ast.ParamType
  | 0, _ => .error .fuel
  | fuel + 1, n =>
    if n.kind == .SCALAR_TYPE then (scalarType fuel n).map .scalarType else .ok (.arrayRefType (span n))

def typedParam : Nat → CNode → BM Ast.TypedParam
  | 0, _ => .error .fuel
  | fuel + 1, n =>
    match optM (paramType fuel) (TypedParam.param_type n) with
    | .error e => .error e
    | .ok pt => (optM name (TypedParam.name n)).map fun nm =>
        ⟨span n, pt, (TypedParam.old_typed_param n).isSome, nm⟩

def typedParamList : Nat → CNode → BM Ast.TypedParamList
  | 0, _ => .error .fuel
  | fuel + 1, n => (listM (typedParam fuel) (TypedParamList.typed_params n)).map fun ps => ⟨span n, ps⟩

def returnSignature (fuel : Nat) (r : CNode) : BM Ast.ReturnSignature :=
  (optM (scalarType fuel) (ReturnSignature.scalar_type r)).map fun s => ⟨span r, s⟩

def qubitType (fuel : Nat) (q : CNode) : BM Ast.QubitType :=
  (optM (designator fuel) (QubitType.designator q)).map fun d => ⟨span q, d⟩

def forIterable : Nat → CNode → BM Ast.ForIterable
  | 0, _ => .error .fuel
  | fuel + 1, it =>
    match optM (setExpression fuel) (ForIterable.set_expression it) with
    | .error e => .error e
    | .ok s =>
      match optM (rangeExpr fuel) (ForIterable.range_expr it) with
      | .error e => .error e
      | .ok r => (optM (expr fuel) (ForIterable.for_iterable_expr it)).map fun e => ⟨span it, s, r, e⟩

/-- `m_ast.rs: block_or_stmt` on the result of a panicking accessor (`Dump.blockOrStmt`: also
fuel-checked), given the function for the non-panicking case -/
def accBosOf (fuel : Nat) (f : BlockOrStmt → BM Ast.BlockOrStmt) :
    PRes BlockOrStmt → BM (Ast.Acc Ast.BlockOrStmt)
  | .panic => if fuel = 0 then .error .fuel else .ok .panicked
  | .ok v => (f v).map .ok

/-- `opt(n.false_body_block_or_stmt(), |x| block_or_stmt(Some(x)))` -/
def optBosOf (f : BlockOrStmt → BM Ast.BlockOrStmt) : Option BlockOrStmt → BM (Option Ast.BlockOrStmt)
  | none => .ok none
  | some v => (f v).map some

mutual

def blockExpr : Nat → CNode → BM Ast.BlockExpr
  | 0, _ => .error .fuel
  | fuel + 1, n => (listM (stmt fuel) (BlockExpr.statements n)).map fun ss => .mk (span n) ss

def blockOrStmt : Nat → BlockOrStmt → BM Ast.BlockOrStmt
  | 0, _ => .error .fuel
  | fuel + 1, .blockExpr bl => (blockExpr fuel bl).map .blockExpr
  | fuel + 1, .stmt s => (stmt fuel s).map .stmt

def caseExpr : Nat → CNode → BM Ast.CaseExpr
  | 0, _ => .error .fuel
  | fuel + 1, c =>
    match optM (expressionList fuel) (CaseExpr.expression_list c) with
    | .error e => .error e
    | .ok el => (optM (blockExpr fuel) (CaseExpr.block_expr c)).map fun bl => .mk (span c) el bl

/-- `Stmt::cast` then the `match` of `m_ast.rs: stmt` -/
def stmt : Nat → CNode → BM Ast.Stmt
  | 0, _ => .error .fuel
  | fuel + 1, n =>
    match n.kind with
    | .IF_STMT =>
      match optM (expr fuel) (IfStmt.condition n) with
      | .error e => .error e
      | .ok c =>
        match accBosOf fuel (blockOrStmt fuel) (IfStmt.true_body_block_or_stmt n) with
        | .error e => .error e
        | .ok t =>
          (optBosOf (blockOrStmt fuel) (IfStmt.false_body_block_or_stmt n)).map fun f => .ifStmt (span n) c t f
    | .WHILE_STMT =>
      match optM (expr fuel) (WhileStmt.condition n) with
      | .error e => .error e
      | .ok c =>
        (accBosOf fuel (blockOrStmt fuel) (WhileStmt.block_or_stmt n)).map fun t => .whileStmt (span n) c t
    | .FOR_STMT =>
      match optM name (ForStmt.loop_var n) with
      | .error e => .error e
      | .ok v =>
        match optM (scalarType fuel) (ForStmt.scalar_type n) with
        | .error e => .error e
        | .ok st =>
          match optM (forIterable fuel) (ForStmt.for_iterable n) with
          | .error e => .error e
          | .ok it =>
            (accBosOf fuel (blockOrStmt fuel) (ForStmt.block_or_stmt n)).map fun body =>
              .forStmt (span n) v st it body
    | .SWITCH_CASE_STMT =>
      match optM (expr fuel) (SwitchCaseStmt.control n) with
      | .error e => .error e
      | .ok c =>
        match listM (caseExpr fuel) (SwitchCaseStmt.case_exprs n) with
        | .error e => .error e
        | .ok cs =>
          (optM (blockExpr fuel) (SwitchCaseStmt.default_block n)).map fun d => .switchCaseStmt (span n) c cs d
    | .CLASSICAL_DECLARATION_STATEMENT =>
      match optM (scalarType fuel) (ClassicalDeclarationStatement.scalar_type n) with
      | .error e => .error e
      | .ok st =>
        match optM name (ClassicalDeclarationStatement.name n) with
        | .error e => .error e
        | .ok nm =>
          (optM (expr fuel) (ClassicalDeclarationStatement.expr n)).map fun e =>
            .classicalDeclarationStatement (span n) (ClassicalDeclarationStatement.array_type n).isSome st
              (ClassicalDeclarationStatement.const_token n).isSome nm e
    | .I_O_DECLARATION_STATEMENT =>
      match optM (scalarType fuel) (IODeclarationStatement.scalar_type n) with
      | .error e => .error e
      | .ok st =>
        (optM name (IODeclarationStatement.name n)).map fun nm =>
          .ioDeclarationStatement (span n) (IODeclarationStatement.array_type n).isSome st nm
            (IODeclarationStatement.input_token n).isSome
    | .QUANTUM_DECLARATION_STATEMENT =>
      match optM name (QuantumDeclarationStatement.name n) with
      | .error e => .error e
      | .ok nm =>
        match optM hardwareQubit (QuantumDeclarationStatement.hardware_qubit n) with
        | .error e => .error e
        | .ok h =>
          (optM (qubitType fuel) (QuantumDeclarationStatement.qubit_type n)).map fun q =>
            .quantumDeclarationStatement (span n) nm h q
    | .ASSIGNMENT_STMT =>
      match optM identifier (AssignmentStmt.identifier n) with
      | .error e => .error e
      | .ok i =>
        match optM (expr fuel) (AssignmentStmt.rhs n) with
        | .error e => .error e
        | .ok r =>
          (optM (indexedIdentifier fuel) (AssignmentStmt.indexed_identifier n)).map fun ii =>
            .assignmentStmt (span n) i r ii
    | .BREAK_STMT => .ok (.breakStmt (span n))
    | .CONTINUE_STMT => .ok (.continueStmt (span n))
    | .END_STMT => .ok (.endStmt (span n))
    | .GATE =>
      match optM name (Gate.name n) with
      | .error e => .error e
      | .ok nm =>
        match optM paramList (Gate.angle_params n) with
        | .error e => .error e
        | .ok ap =>
          match optM paramList (Gate.qubit_params n) with
          | .error e => .error e
          | .ok qp => (optM (blockExpr fuel) (Gate.body n)).map fun body => .gate (span n) nm ap qp body
    | .DEF =>
      match optM name (Def.name n) with
      | .error e => .error e
      | .ok nm =>
        match optM (typedParamList fuel) (Def.typed_param_list n) with
        | .error e => .error e
        | .ok tp =>
          match optM (blockExpr fuel) (Def.body n) with
          | .error e => .error e
          | .ok body =>
            (optM (returnSignature fuel) (Def.return_signature n)).map fun rs => .defStmt (span n) nm tp body rs
    | .BARRIER => (optM (qubitList fuel) (Barrier.qubit_list n)).map fun q => .barrier (span n) q
    | .DELAY_STMT =>
      match optM (qubitList fuel) (DelayStmt.qubit_list n) with
      | .error e => .error e
      | .ok q => (optM (designator fuel) (DelayStmt.designator n)).map fun d => .delayStmt (span n) q d
    | .RESET => (optM (gateOperand fuel) (Reset.gate_operand n)).map fun g => .reset (span n) g
    | .INCLUDE => (optM filePath (Include.file n)).map fun f => .includeStmt (span n) f
    | .EXPR_STMT => (optM (expr fuel) (ExprStmt.expr n)).map fun e => .exprStmt (span n) e
    | .VERSION_STRING => .ok (.versionString (span n))
    | .PRAGMA_STATEMENT =>
      (ofPRes (PragmaStatement.pragma_text n)).map fun t => .pragmaStatement (span n) (str t)
    | .ANNOTATION_STATEMENT =>
      (ofPRes (AnnotationStatement.annotation_text n)).map fun t => .annotationStatement (span n) (str t)
    | .ALIAS_DECLARATION_STATEMENT =>
      match optM name (AliasDeclarationStatement.name n) with
      | .error e => .error e
      | .ok nm =>
        (optM (expr fuel) (AliasDeclarationStatement.expr n)).map fun e => .aliasDeclarationStatement (span n) nm e
    | .OLD_STYLE_DECLARATION_STATEMENT => .ok (.notImpl .oldStyleDeclarationStatement (span n))
    | .DEF_CAL => .ok (.notImpl .defCal (span n))
    | .CAL => .ok (.notImpl .cal (span n))
    | .DEF_CAL_GRAMMAR => .ok (.notImpl .defCalGrammar (span n))
    | .LET_STMT => .ok (.notImpl .letStmt (span n))
    | .MEASURE => .ok (.notImpl .measure (span n))
    | .EXTERN_STMT => .ok (.notImpl .externStmt (span n))
    | _ => .error .notInEnum

end

def defaultFuel (root : CNode) : Nat := Dump.defaultFuel root

/-- the typed AST of a whole tree with a given fuel -/
def programWith (fuel : Nat) (root : CNode) : BM Ast.Program :=
  (listM (stmt fuel) (SourceFile.statements root)).map fun ss => ⟨span root, ss⟩

/-- the typed AST (I5) of a syntax tree (I4), as a value of the type the semantic model consumes -/
def program (root : CNode) : BM Ast.Program := programWith (defaultFuel root) root

end Build
end Oq3.Acc
