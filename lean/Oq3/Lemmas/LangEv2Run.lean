/-
C04, extended reference language, part 2: foundations for the runs on extended expressions —
canonicity / Follow conditions / fuel for `X`, list facts about the event encoding, `current_op`
after an operator under the weaker "next token is not a second piece" hypothesis, and the loop
iteration of `expr_bp` restated with it.
-/
import Oq3.Lemmas.LangEv2
import Oq3.Lemmas.LangEvTop
set_option linter.unusedSimpArgs false
set_option linter.unusedVariables false

namespace Oq3.LangEv2
open Oq3.Gen Oq3.Parser Oq3.Grammar Oq3.SymExec Oq3.PrattEv Oq3.LangEv
open Oq3.Gen.Ops (Assoc)

/-! ### operators followed by any operand -/

/-- the next token cannot be glued to an operator piece to form a composite token -/
def NoSecond (k : SyntaxKind) : Prop :=
  k ≠ .EQ ∧ k ≠ .PLUS ∧ k ≠ .STAR ∧ k ≠ .AMP ∧ k ≠ .PIPE ∧ k ≠ .L_ANGLE ∧ k ≠ .R_ANGLE ∧ k ≠ .DOT

set_option hygiene false in
macro "op_case2 " rows:ident : tactic => `(tactic| (
  simp only [BinOp.toks, BinOp.pieces, jointed, Toks, P.kindAt, true_implies, List.length_cons, List.length_nil, Nat.zero_add, Nat.reduceAdd] at h hne
  unfold opF
  rw [h.1, scanF_filter, $rows:ident]
  obtain ⟨e1, e2, e3, e4, e5, e6, e7, e8⟩ := hne
  simp only [scanF, atF_MINUSEQ, atF_NEQ, atF_STAREQ, atF_SLASHEQ, atF_AMP2, atF_AMPEQ, atF_PERCENTEQ,
    atF_CARETEQ, atF_PLUSEQ, atF_DOUBLE_PLUS, atF_DOUBLE_STAR, atF_SHL, atF_LTEQ, atF_EQ2,
    atF_FAT_ARROW, atF_GTEQ, atF_SHR, atF_PIPEEQ, atF_PIPE2, atF_SHLEQ, atF_SHREQ, h,
    e1, e2, e3, e4, e5, e6, e7, e8,
    Bool.and_eq_true, beq_iff_eq, false_and, and_false, if_false, if_true, true_and, and_true,
    Option.getD_some, Option.getD_none, notAnOp, BinOp.pow, BinOp.kind, reduceCtorEq, beq_self_eq_true,
    Bool.true_and, Bool.and_true, and_self]))

/-- `current_op` on an operator of the table followed by a token that is not a second piece -/
theorem opF_binop2 (o : BinOp) (s : P) (q : Nat) (h : Toks s q o.toks)
    (hne : NoSecond (s.kindAt (q + o.pieces.length))) :
    opF s.kinds s.joint q = (o.pow, o.kind, .left) := by
  unfold NoSecond at hne
  cases o
  · op_case2 rows_PIPE
  · op_case2 rows_AMP
  · op_case2 rows_PIPE
  · op_case2 rows_CARET
  · op_case2 rows_AMP
  · op_case2 rows_EQ
  · op_case2 Oq3.PrattEv.rows_BANG
  · op_case2 rows_L_ANGLE
  · op_case2 rows_L_ANGLE
  · op_case2 rows_R_ANGLE
  · op_case2 rows_R_ANGLE
  · op_case2 rows_L_ANGLE
  · op_case2 rows_R_ANGLE
  · op_case2 rows_PLUS
  · op_case2 rows_MINUS
  · op_case2 rows_STAR
  · op_case2 rows_SLASH
  · op_case2 rows_PERCENT
  · op_case2 rows_STAR

/-- the loop iteration of `expr_bp` (`Lemmas/PrattEvRun.lean: loop_iter`) for any following operand -/
theorem loop_iter2 (s : P) (hnp : s.noProgressLimit = 0) (hpr : ∀ p ∈ s.protectedPos, p < s.events.size)
    (p : Nat) (k kc : SyntaxKind) (fp0 : Option Nat) (hp : s.events[p]? = some (.start k fp0))
    (o : BinOp) (ho : Toks s s.pos o.toks) (hnext : NoSecond (s.kindAt (s.pos + o.pieces.length)))
    (bp : Nat) (hbp : bp ≤ o.pow) (f : Nat) (r' : Restrictions)
    (cmr : CompletedMarker) (Er : List Ev) (nr sbr : Nat)
    (hr : exprBp f none { preferStmt := false } (o.pow + 1)
        ((s.setEv p (Ev.start k (some (s.events.size + 0 - p)))).ov
          [Ev.start SyntaxKind.TOMBSTONE none, Ev.token o.kind o.pieces.length] (0 + o.pieces.length) 0 1 (s.live + 1)
          ((s.events.size + 0) :: s.protectedPos)) =
      .ok (some (cmr, .notBlock), (s.setEv p (Ev.start k (some (s.events.size + 0 - p)))).ov
          ([Ev.start SyntaxKind.TOMBSTONE none, Ev.token o.kind o.pieces.length] ++ Er) (0 + o.pieces.length + nr) 0 sbr
          (s.live + 1) ((s.events.size + 0) :: s.protectedPos)))
    (a) (S'' : P)
    (hk : exprBpLoop f r' bp { pos := s.events.size + 0, kind := SyntaxKind.BIN_EXPR }
        ((s.setEv p (Ev.start k (some (s.events.size + 0 - p)))).ov
          (Ev.start SyntaxKind.BIN_EXPR none :: Ev.token o.kind o.pieces.length :: (Er ++ [Ev.finish]))
          (0 + o.pieces.length + nr) 0 (sbr + 1) s.live s.protectedPos) = .ok (a, S'')) :
    exprBpLoop (f + 1) r' bp ⟨p, kc⟩ s = .ok (a, S'') := by
  have hcur : ∀ E st sb lv pr, currentOp (s.ov E 0 st sb lv pr) =
      .ok ((o.pow, o.kind, Assoc.left), s.ov E 0 st sb lv pr) := by
    intro E st sb lv pr
    rw [currentOp_ov, opF_binop2 o s (s.pos + 0) ho hnext]
  have hlt : (o.pow < bp) = False := eq_false (by omega)
  have hpre := precede_base s hnp p k kc fp0 hp
  have hbump := fun E st sb lv pr => bump_atF_ov o.kind o.kind_ne_eof (s.setEv p (.start k (some (s.events.size + 0 - p)))) E 0 st sb lv pr
    (atF_binop o s (s.pos + 0) ho)
  simp only [o.eatRaw] at hbump
  have hcomp := fun E dp st sb lv pr i b kind =>
    complete_ov (s.setEv p (.start k (some (s.events.size + 0 - p)))) E dp st sb lv pr hnp i b kind
  simp only [setEv_size] at hcomp
  apply of_ov
  sym_eval [hcur, hlt, hpre, hbump, hr, hcomp, hk, o.kind_ne_eq, setEv_size, setEv_kindAt, setEv_pos, setEv_npl, setEv_stepLimit,
    filter_base s hpr, contains_base s hpr, bne_self_eq_false]
  rfl

/-! ### the round trip, by induction on the tree -/


/-! ### first tokens -/

def firstP : Prim → SyntaxKind
  | .id => .IDENT
  | .lit k => k.kind
  | .timing k => k.kind
  | .hw => .HARDWAREIDENT
  | .paren _ => .L_PAREN
  | .cast0 ty _ => ty.kind
  | .castW ty _ _ => ty.kind
  | .measureE => .MEASURE_KW
  | .measureHw => .MEASURE_KW
  | .measureIdx _ => .MEASURE_KW
  | .idIdx _ => .IDENT
  | .call p _ => firstP p
  | .index p _ => firstP p

def firstX : X → SyntaxKind
  | .prim p => firstP p
  | .bin _ l _ => firstX l
  | .pre o _ => o.kind

def firstItem : Item → SyntaxKind
  | .ex x => firstX x
  | .r2 lo _ => firstX lo
  | .r3 lo _ _ => firstX lo

/-- index items do not start with `~` or `measure` (the parser reports "expected value parameter") -/
def ItemsFirstOK : ItemList → Prop
  | .one i => firstItem i ≠ .TILDE ∧ firstItem i ≠ .MEASURE_KW
  | .cons i is => (firstItem i ≠ .TILDE ∧ firstItem i ≠ .MEASURE_KW) ∧ ItemsFirstOK is

def IdxFirstOK : IdxList → Prop
  | .one is => ItemsFirstOK is
  | .cons is rest => ItemsFirstOK is ∧ IdxFirstOK rest


/-! ### canonicity, Follow conditions -/

/-- may `p[…]` be an INDEX_EXPR? not on identifiers / indexed identifiers (the index operators belong to
the INDEXED_IDENTIFIER), not on literals and hardware qubits ("Indexing into literal is not allowed"),
not after `measure q` (the brackets belong to the measured qubit) -/
def indexable (p : Prim) : Bool :=
  match p with
  | .paren _ | .cast0 _ _ | .castW _ _ _ | .call _ _ | .index _ _ => true
  | _ => false

mutual
def CanonX : Nat → X → Prop
  | _, .prim p => CanonP p
  | _, .pre _ e => CanonX 255 e
  | bp, .bin o l r =>
      bp ≤ o.pow ∧ CanonX (o.pow + 1) r ∧
      (match l with
        | .bin o' _ _ => o.pow < o'.pow + 1 ∧ CanonX bp l
        | _ => CanonX bp l)
def CanonP : Prim → Prop
  | .paren e => CanonX 1 e
  | .cast0 _ e => CanonX 1 e
  /- the width is not a float / bit-string literal ("Literal type designator must be an integer") -/
  | .castW ty w e => ty.wide = true ∧ firstX w ≠ .FLOAT_NUMBER ∧ firstX w ≠ .BIT_STRING ∧ CanonX 1 w ∧ CanonX 1 e
  | .idIdx ixs => CanonIdx ixs ∧ IdxFirstOK ixs
  | .measureIdx ixs => CanonIdx ixs ∧ IdxFirstOK ixs
  | .call p args => CanonP p ∧ CanonXs args
  | .index p items => CanonP p ∧ indexable p = true ∧ CanonItems items ∧ ItemsFirstOK items
  | _ => True
def CanonXs : XList → Prop
  | .nil => True
  | .cons x xs => CanonX 1 x ∧ CanonXs xs
def CanonItem : Item → Prop
  | .ex x => CanonX 1 x
  | .r2 lo hi => CanonX 1 lo ∧ CanonX 1 hi
  | .r3 lo mid hi => CanonX 1 lo ∧ CanonX 1 mid ∧ CanonX 1 hi
def CanonItems : ItemList → Prop
  | .one i => CanonItem i
  | .cons i is => CanonItem i ∧ CanonItems is
def CanonIdx : IdxList → Prop
  | .one is => CanonItems is
  | .cons is rest => CanonItems is ∧ CanonIdx rest
end

/-- along the right spine of the tree every pending loop stops at `q` -/
def RightStopsX : X → P → Nat → Prop
  | .bin o _ r, s, q => StopsAt s q (o.pow + 1) ∧ RightStopsX r s q
  | .pre _ e, s, q => StopsAt s q 255 ∧ RightStopsX e s q
  | .prim _, _, _ => True

/-- what the last token of the print is, as far as the token after it matters -/
inductive LastTok | ident | lit | call | meas | other
  deriving DecidableEq, Repr

def lastP : Prim → LastTok
  | .id => .ident
  | .lit _ => .lit
  | .call _ _ => .call
  | .measureE => .meas
  | .measureIdx _ => .meas
  | .idIdx _ => .meas
  | _ => .other

def lastX : X → LastTok
  | .prim p => lastP p
  | .bin _ _ r => lastX r
  | .pre _ e => lastX e

/-- what the token after an expression must not be, besides an operator: `(` / `[` (more postfix
operators); `IDENT` / `HARDWAREIDENT` after an identifier or a call (`atom_expr` / `call_expr` would
parse a gate call); `IDENT` after a literal (`literal` would parse a timing literal) -/
def EndIn (l : LastTok) (k : SyntaxKind) : Prop :=
  match l with
  | .ident => k ≠ .IDENT ∧ k ≠ .HARDWAREIDENT
  | .call => k ≠ .IDENT ∧ k ≠ .HARDWAREIDENT
  | .lit => k ≠ .IDENT
  | .meas => k ≠ .L_BRACK
  | .other => True

def EndOKL (l : LastTok) (k : SyntaxKind) : Prop :=
  k ≠ .L_PAREN ∧ k ≠ .L_BRACK ∧ EndIn l k

def EndOKX (x : X) (k : SyntaxKind) : Prop := EndOKL (lastX x) k

structure FitsX (x : X) (s : P) (q : Nat) : Prop where
  tk : Toks s q (toksX x)
  endOK : EndOKX x (s.kindAt (q + (toksX x).length))
  right : RightStopsX x s (q + (toksX x).length)

/-- fuel `expr_bp` uses before it enters its loop with the root as `lhs` -/
def cFX : X → Nat
  | .bin _ l _ => cFX l + 1
  | _ => 1

/-! ### facts about the event encoding -/

mutual
theorem bodyX_length : ∀ (x : X) (fp : Option Nat), (bodyX x fp).length = lenX x
  | .prim p, fp => by simp only [bodyX, lenX, bodyP_length p fp]
  | .bin o l r, fp => by
    simp only [bodyX, lenX, List.length_append, List.length_cons, List.length_nil, bodyX_length l, bodyX_length r]; omega
  | .pre o e, fp => by
    simp only [bodyX, lenX, List.length_append, List.length_cons, List.length_nil, bodyX_length e]; omega
theorem bodyP_length : ∀ (p : Prim) (fp : Option Nat), (bodyP p fp).length = lenP p
  | .id, _ => rfl
  | .lit _, _ => rfl
  | .timing _, _ => rfl
  | .hw, _ => rfl
  | .measureE, _ => rfl
  | .measureHw, _ => rfl
  | .measureIdx ixs, fp => by simp only [bodyP, lenP, List.length_append, List.length_cons, List.length_nil, evsIdx_length ixs]; omega
  | .paren e, fp => by simp only [bodyP, lenP, List.length_append, List.length_cons, List.length_nil, bodyX_length e]; omega
  | .cast0 ty e, fp => by simp only [bodyP, lenP, List.length_append, List.length_cons, List.length_nil, bodyX_length e]; omega
  | .castW ty w e, fp => by
    simp only [bodyP, lenP, List.length_append, List.length_cons, List.length_nil, bodyX_length e, bodyX_length w]; omega
  | .idIdx ixs, fp => by simp only [bodyP, lenP, List.length_append, List.length_cons, List.length_nil, evsIdx_length ixs]; omega
  | .call p args, fp => by
    simp only [bodyP, lenP, List.length_append, List.length_cons, List.length_nil, bodyP_length p, evsXs_length args]; omega
  | .index p items, fp => by
    simp only [bodyP, lenP, List.length_append, List.length_cons, List.length_nil, bodyP_length p, evsItems_length items]; omega
theorem evsXs_length : ∀ (xs : XList), (evsXs xs).length = lenXs xs
  | .nil => rfl
  | .cons x .nil => by simp only [evsXs, lenXs, List.length_cons, bodyX_length x]
  | .cons x (.cons y ys) => by
    simp only [evsXs, lenXs, List.length_append, List.length_cons, bodyX_length x, evsXs_length (.cons y ys)]; omega
theorem evsItem_length : ∀ (i : Item), (evsItem i).length = lenItem i
  | .ex x => by simp only [evsItem, lenItem, List.length_cons, bodyX_length x]
  | .r2 lo hi => by
    simp only [evsItem, lenItem, List.length_append, List.length_cons, List.length_nil, bodyX_length lo, bodyX_length hi]; omega
  | .r3 lo mid hi => by
    simp only [evsItem, lenItem, List.length_append, List.length_cons, List.length_nil, bodyX_length lo, bodyX_length mid,
      bodyX_length hi]; omega
theorem evsItems_length : ∀ (is : ItemList), (evsItems is).length = lenItems is
  | .one i => by simp only [evsItems, lenItems, evsItem_length i]
  | .cons i is => by
    simp only [evsItems, lenItems, List.length_append, List.length_cons, evsItem_length i, evsItems_length is]; omega
theorem evsIdx_length : ∀ (ixs : IdxList), (evsIdx ixs).length = lenIdx ixs
  | .one is => by simp only [evsIdx, lenIdx, List.length_append, List.length_cons, List.length_nil, evsItems_length is]; omega
  | .cons is rest => by
    simp only [evsIdx, lenIdx, List.length_append, List.length_cons, List.length_nil, evsItems_length is, evsIdx_length rest]; omega
end

theorem evsX_length (x : X) : (evsX x).length = lenX x + 1 := by
  simp only [evsX, List.length_cons, bodyX_length]

theorem lenP_pos (p : Prim) : rootP p + 1 ≤ lenP p := by
  cases p <;> simp only [rootP, lenP] <;> omega

theorem lenX_pos (x : X) : rootX x + 1 ≤ lenX x := by
  cases x with
  | prim p => exact lenP_pos p
  | bin o l r => simp only [rootX, lenX]; omega
  | pre o e => simp only [rootX, lenX]; omega

/-- the root `Start` of a primary -/
theorem bodyP_root (p : Prim) (fp : Option Nat) : (bodyP p fp)[rootP p]? = some (.start p.kind fp) := by
  cases p with
  | call p args =>
    have h := bodyP_length p (some (lenP p - rootP p))
    rw [show rootP (Prim.call p args) = lenP p from rfl]
    simp only [bodyP, Prim.kind, X.kind]
    rw [List.getElem?_append_right (by omega), show lenP p - (bodyP p (some (lenP p - rootP p))).length = 0 by omega]
    rfl
  | index p items =>
    have h := bodyP_length p (some (lenP p - rootP p))
    rw [show rootP (Prim.index p items) = lenP p from rfl]
    simp only [bodyP, Prim.kind, X.kind]
    rw [List.getElem?_append_right (by omega), show lenP p - (bodyP p (some (lenP p - rootP p))).length = 0 by omega]
    rfl
  | _ => rfl

theorem bodyP_set_root (p : Prim) (fp fp' : Option Nat) :
    (bodyP p fp).set (rootP p) (.start p.kind fp') = bodyP p fp' := by
  cases p with
  | call p args =>
    have h := bodyP_length p (some (lenP p - rootP p))
    rw [show rootP (Prim.call p args) = lenP p from rfl]
    simp only [bodyP, Prim.kind, X.kind]
    rw [List.set_append_right _ _ (by omega), show lenP p - (bodyP p (some (lenP p - rootP p))).length = 0 by omega]
    rfl
  | index p items =>
    have h := bodyP_length p (some (lenP p - rootP p))
    rw [show rootP (Prim.index p items) = lenP p from rfl]
    simp only [bodyP, Prim.kind, X.kind]
    rw [List.set_append_right _ _ (by omega), show lenP p - (bodyP p (some (lenP p - rootP p))).length = 0 by omega]
    rfl
  | _ => rfl

theorem bodyX_root (x : X) (fp : Option Nat) : (bodyX x fp)[rootX x]? = some (.start x.kind fp) := by
  cases x with
  | prim p => exact bodyP_root p fp
  | bin o l r =>
    have h := bodyX_length l (some (lenX l - rootX l))
    rw [show rootX (X.bin o l r) = lenX l from rfl]
    simp only [bodyX, X.kind]
    rw [List.getElem?_append_right (by omega), show lenX l - (bodyX l (some (lenX l - rootX l))).length = 0 by omega]
    rfl
  | pre o e => rfl

theorem bodyX_set_root (x : X) (fp fp' : Option Nat) :
    (bodyX x fp).set (rootX x) (.start x.kind fp') = bodyX x fp' := by
  cases x with
  | prim p => exact bodyP_set_root p fp fp'
  | bin o l r =>
    have h := bodyX_length l (some (lenX l - rootX l))
    rw [show rootX (X.bin o l r) = lenX l from rfl]
    simp only [bodyX, X.kind]
    rw [List.set_append_right _ _ (by omega), show lenX l - (bodyX l (some (lenX l - rootX l))).length = 0 by omega]
    rfl
  | pre o e => rfl

theorem evsX_root (x : X) : (evsX x)[rootX x + 1]? = some (.start x.kind none) := by
  simp only [evsX, List.getElem?_cons_succ, bodyX_root]

theorem evsX_set_root (x : X) (fp : Option Nat) :
    (evsX x).set (rootX x + 1) (.start x.kind fp) = .start .TOMBSTONE (some (headOff x + 1)) :: bodyX x fp := by
  simp only [evsX, List.set_cons_succ, bodyX_set_root]

/-! ### the expression rule as a hypothesis -/


/-- `Rdy k` together with an absolute lower bound of the step limit: between two bumps the grammar
calls `Parser::nth` a bounded number of times, so after the first bump only the size of the limit
matters (the parser's limit is 15 000 000) -/
structure RdyL (k : Nat) (s : P) : Prop where
  hook : s.noProgressLimit = 0
  steps : s.steps + k ≤ s.stepLimit
  prot : ∀ p ∈ s.protectedPos, p < s.events.size
  lim : 16 ≤ s.stepLimit

theorem RdyL.old {k : Nat} {s : P} (h : RdyL k s) : Rdy k s := ⟨h.hook, h.steps, h.prot⟩

theorem RdyL.mono {k k' : Nat} {s : P} (h : RdyL k s) (hk : k' ≤ k) : RdyL k' s :=
  ⟨h.hook, by have := h.steps; omega, h.prot, h.lim⟩

theorem RdyL.of_old {k : Nat} {s : P} (h : Rdy k s) (hl : 16 ≤ s.stepLimit) : RdyL k s := ⟨h.hook, h.steps, h.prot, hl⟩

theorem RdyL_ov (k : Nat) (s : P) (E0 : List Ev) (dp st sb lv : Nat) (pr : List Nat)
    (hnp : s.noProgressLimit = 0) (hst : st + k ≤ s.stepLimit)
    (hpr : ∀ p ∈ pr, p < s.events.size + E0.length) (hl : 16 ≤ s.stepLimit) : RdyL k (s.ov E0 dp st sb lv pr) :=
  ⟨hnp, hst, (Rdy_ov k s E0 dp st sb lv pr hnp hst hpr).prot, hl⟩

/-- the expression `x` is parsed by `expr_bp` with exactly its events, from every overlay state, for
every fuel ≥ `n` (value form; the induction hypothesis for the phrases that contain expressions) -/
def ExprOK (x : X) (n : Nat) : Prop :=
  ∀ (bp f : Nat) (r : Restrictions) (s : P) (E0 : List Ev) (dp st sb lv : Nat) (pr : List Nat),
    s.noProgressLimit = 0 → st + 5 ≤ s.stepLimit → 16 ≤ s.stepLimit → (∀ p ∈ pr, p < s.events.size + E0.length) →
    FitsX x s (s.pos + dp) → CanonX bp x → StopsAt s (s.pos + dp + (toksX x).length) bp → n ≤ f →
    exprBp f none r bp (s.ov E0 dp st sb lv pr) =
      .ok (some (⟨s.events.size + E0.length + (rootX x + 1), x.kind⟩, .notBlock),
        s.ov (E0 ++ evsX x) (dp + (toksX x).length) 0 (sbX x) lv pr)

theorem stopsAt_mono' (s : P) (q b b' : Nat) (h : StopsAt s q b) (hb : b ≤ b') : StopsAt s q b' := by
  unfold StopsAt at *; omega

theorem rightStopsX_of_canon : ∀ (x : X) (b : Nat) (s : P) (q : Nat), CanonX b x → StopsAt s q b → b ≤ 255 →
    RightStopsX x s q
  | .prim p, _, _, _, _, _, _ => trivial
  | .pre o e, b, s, q, hc, h, hb => by
    simp only [CanonX] at hc
    exact ⟨stopsAt_mono' s q b 255 h hb,
      rightStopsX_of_canon e 255 s q hc (stopsAt_mono' s q b 255 h hb) (Nat.le_refl _)⟩
  | .bin o l r, b, s, q, hc, h, hb => by
    simp only [CanonX] at hc
    have h' := stopsAt_mono' s q b (o.pow + 1) h (by omega)
    exact ⟨h', rightStopsX_of_canon r (o.pow + 1) s q hc.2.1 h' (by have := o.pow_lt; omega)⟩

/-- the tokens that end an expression inside our statements: those of `exprEnd` and the braces (case values,
set expressions, the iterable of a `for` loop) -/
def exprEnd2 (k : SyntaxKind) : Bool := exprEnd k || k == .R_CURLY || k == .L_CURLY

theorem exprEnd_endOKX (x : X) (k : SyntaxKind) (h : exprEnd2 k = true) : EndOKX x k := by
  simp only [exprEnd2, exprEnd, Bool.or_eq_true, beq_iff_eq] at h
  unfold EndOKX EndOKL
  rcases h with (((((h | h) | h) | h) | h) | h) | h <;> subst h <;>
    exact ⟨by decide, by decide, by unfold EndIn; cases lastX x <;> simp⟩

theorem exprEnd2_stops (s : P) (q bp : Nat) (h : exprEnd2 (s.kindAt q) = true) (hbp : 1 ≤ bp) : StopsAt s q bp := by
  unfold StopsAt
  rw [opF_nonop _ _ _ (by
    simp only [exprEnd2, exprEnd, Bool.or_eq_true, beq_iff_eq, P.kindAt] at h
    rcases h with (((((h | h) | h) | h) | h) | h) | h <;> rw [h] <;> decide)]
  exact hbp

/-- the expression rule in the form used inside statements and phrases: the next token ends the expression -/
theorem ExprOK.atEnd {x : X} {n : Nat} (h : ExprOK x n) (bp f : Nat) (r : Restrictions) (s : P) (E0 : List Ev)
    (dp st sb lv : Nat) (pr : List Nat) (hnp : s.noProgressLimit = 0) (hst : st + 5 ≤ s.stepLimit) (hlim : 16 ≤ s.stepLimit)
    (hpr : ∀ p ∈ pr, p < s.events.size + E0.length) (htk : Toks s (s.pos + dp) (toksX x)) (hc : CanonX bp x)
    (hbp : 1 ≤ bp) (hbp2 : bp ≤ 255) (hfol : exprEnd2 (s.kindAt (s.pos + dp + (toksX x).length)) = true) (hf : n ≤ f) :
    exprBp f none r bp (s.ov E0 dp st sb lv pr) =
      .ok (some (⟨s.events.size + E0.length + (rootX x + 1), x.kind⟩, .notBlock),
        s.ov (E0 ++ evsX x) (dp + (toksX x).length) 0 (sbX x) lv pr) := by
  have hstop := exprEnd2_stops s _ bp hfol hbp
  exact h bp f r s E0 dp st sb lv pr hnp hst hlim hpr
    ⟨htk, exprEnd_endOKX x _ hfol, rightStopsX_of_canon x bp s _ hc hstop hbp2⟩ hc hstop hf

/-- … and through the entry point `expr` -/
theorem ExprOK.expr {x : X} {n : Nat} (h : ExprOK x n) (f : Nat) (s : P) (E0 : List Ev)
    (dp st sb lv : Nat) (pr : List Nat) (hnp : s.noProgressLimit = 0) (hst : st + 5 ≤ s.stepLimit) (hlim : 16 ≤ s.stepLimit)
    (hpr : ∀ p ∈ pr, p < s.events.size + E0.length) (htk : Toks s (s.pos + dp) (toksX x)) (hc : CanonX 1 x)
    (hfol : exprEnd2 (s.kindAt (s.pos + dp + (toksX x).length)) = true) (hf : n ≤ f) :
    Oq3.Grammar.expr (f + 1) (s.ov E0 dp st sb lv pr) =
      .ok (some ⟨s.events.size + E0.length + (rootX x + 1), x.kind⟩,
        s.ov (E0 ++ evsX x) (dp + (toksX x).length) 0 (sbX x) lv pr) := by
  rw [expr.run_2, G.bind_apply, h.atEnd 1 f _ s E0 dp st sb lv pr hnp hst hlim hpr htk hc (Nat.le_refl _) (by decide) hfol hf]
  rfl

end Oq3.LangEv2
