/-
The linear work bound: rules used by the generated proof `Lemmas/GrammarCost*.lean`.

`P.w s = events + events since the last bump + nth-steps since the last bump` grows by at most 2
per parser-API call.  With a budget `B` below the two hang limits (`Lim B s`), an API call made
in a state with `w ≤ B` trips neither the step limit of `Parser::nth` nor the no-progress hook.
The generated proof shows, for every grammar function `f`,

  w' + RR * (tokens left') ≤ w + RR * (tokens left) + A_f        (and `… + D_f ≤ …` if a token was consumed)

so the whole parse stays within `A_sourceFile + RR * n`.
-/
import Oq3.Lemmas.Progress
set_option linter.unusedSimpArgs false
set_option linter.unusedVariables false

namespace Oq3.Parser
open Oq3.Gen

/-- the work counter: every pushed event counts twice (`events`, `sinceBump`), every `nth` once -/
def P.w (s : P) : Nat := s.events.size + s.sinceBump + s.steps

/-- failures excluded by the termination proof: fuel exhaustion and the two hang detectors -/
def A5 (o : Outcome) : Prop :=
  o ≠ .fuel ∧ o ≠ .panic "Parser::nth the parser seems stuck" ∧ o ≠ .panic "oq3_verif: no progress"

instance (o : Outcome) : Decidable (A5 o) := by unfold A5; infer_instance

macro "dec5" : tactic => `(tactic| (show A5 _; decide))

/-- the budget `B` is below both hang limits -/
structure Lim (B : Nat) (s : P) : Prop where
  npl : s.noProgressLimit = 0 ∨ B < s.noProgressLimit
  step : B ≤ s.stepLimit

theorem Lim.hook {B : Nat} {s : P} (hl : Lim B s) (hb : s.w ≤ B) : s.hookTrip = false := by
  unfold P.hookTrip
  have h1 : s.sinceBump ≤ s.w := by unfold P.w; omega
  rcases hl.npl with h | h
  · simp [h]
  · have : ¬ s.sinceBump ≥ s.noProgressLimit := by omega
    simp [this]

theorem Lim.steps {B : Nat} {s : P} (hl : Lim B s) (hb : s.w ≤ B) : ¬ s.steps > s.stepLimit := by
  have h1 : s.steps ≤ s.w := by unfold P.w; omega
  have := hl.step
  omega

theorem Lim.of_eq {B : Nat} {s s' : P} (hl : Lim B s) (h1 : s'.noProgressLimit = s.noProgressLimit)
    (h2 : s'.stepLimit = s.stepLimit) : Lim B s' := ⟨by rw [h1]; exact hl.npl, by rw [h2]; exact hl.step⟩

section
variable {α : Type} {s : P} {B : Nat}

theorem wp5_nth {n : Nat} (hn : n ≤ 3) (hl : Lim B s) (hb : s.w ≤ B) {Q : SyntaxKind → P → Prop}
    (h : ∀ s', s'.tv = s.tv → Lim B s' → s'.w ≤ s.w + 1 → Q (s.kindAt (s.pos + n)) s') : wp A5 (nth n) Q s := by
  apply wp_def'; rw [nth_eq]
  have h1 : ¬ n > 3 := by omega
  simp only [h1, if_false, hl.steps hb]
  exact h _ rfl (hl.of_eq rfl rfl) (by simp only [P.w]; omega)

theorem wp5_start (hl : Lim B s) (hb : s.w ≤ B) {Q : Marker → P → Prop}
    (h : ∀ m s', s'.tv = s.tv → Lim B s' → s'.w ≤ s.w + 2 → Q m s') : wp A5 start Q s := by
  apply wp_def'; rw [start_eq]
  simp only [hl.hook hb, Bool.false_eq_true, if_false]
  exact h _ _ rfl (hl.of_eq rfl rfl) (by simp only [P.w, Array.size_push]; omega)

theorem wp5_error {msg : String} (hl : Lim B s) (hb : s.w ≤ B) {Q : Unit → P → Prop}
    (h : ∀ s', s'.tv = s.tv → Lim B s' → s'.w ≤ s.w + 2 → Q () s') : wp A5 (error msg) Q s := by
  apply wp_def'; rw [error_eq]
  simp only [hl.hook hb, Bool.false_eq_true, if_false]
  exact h _ rfl (hl.of_eq rfl rfl) (by simp only [P.w, Array.size_push]; omega)

theorem wp5_complete {m : Marker} {kind : SyntaxKind} (hl : Lim B s) (hb : s.w ≤ B)
    {Q : CompletedMarker → P → Prop}
    (h : ∀ cm s', s'.tv = s.tv → Lim B s' → s'.w ≤ s.w + 2 → Q cm s') : wp A5 (m.complete kind) Q s := by
  apply wp_def'; rw [complete_eq]
  cases s.events[m.pos]? with
  | none => dec5
  | some e =>
    cases e with
    | finish => dec5
    | token _ _ => dec5
    | error _ => dec5
    | start k0 fp =>
      simp only
      split
      · dec5
      · split
        · dec5
        · simp only [hl.hook hb, Bool.false_eq_true, if_false]
          refine h _ _ rfl (hl.of_eq rfl rfl) ?_
          simp only [P.w, P.slotSet, Array.size_push, Array.set!_eq_setIfInBounds, Array.size_setIfInBounds]
          omega

theorem wp5_abandon {m : Marker} (hl : Lim B s) {Q : Unit → P → Prop}
    (h : ∀ s', s'.tv = s.tv → Lim B s' → s'.w ≤ s.w → Q () s') : wp A5 m.abandon Q s := by
  apply wp_def'; rw [abandon_eq]
  split
  · dec5
  · split
    · dec5
    · split
      · cases s.events.back? with
        | none => dec5
        | some e =>
          cases e with
          | finish => dec5
          | token _ _ => dec5
          | error _ => dec5
          | start k fp =>
            simp only
            split
            · exact h _ rfl (hl.of_eq rfl rfl) (by simp only [P.w, Array.size_pop]; omega)
            · dec5
      · exact h _ rfl (hl.of_eq rfl rfl) (Nat.le_refl _)

theorem wp5_precede {cm : CompletedMarker} (hl : Lim B s) (hb : s.w ≤ B) {Q : Marker → P → Prop}
    (h : ∀ m s', s'.tv = s.tv → Lim B s' → s'.w ≤ s.w + 2 → Q m s') : wp A5 cm.precede Q s := by
  apply wp_def'; rw [precede_eq]
  simp only [hl.hook hb, Bool.false_eq_true, if_false]
  cases s.started.events[cm.pos]? with
  | none => dec5
  | some e =>
    cases e with
    | finish => dec5
    | token _ _ => dec5
    | error _ => dec5
    | start k fp =>
      simp only
      split
      · dec5
      · refine h _ _ rfl (hl.of_eq rfl rfl) ?_
        simp only [P.w, P.started, Array.size_push, Array.set!_eq_setIfInBounds, Array.size_setIfInBounds]
        omega

theorem wp5_extendTo {cm : CompletedMarker} {m : Marker} (hl : Lim B s) {Q : CompletedMarker → P → Prop}
    (h : ∀ s', s'.tv = s.tv → Lim B s' → s'.w ≤ s.w → Q cm s') : wp A5 (cm.extendTo m) Q s := by
  apply wp_def'; rw [extendTo_eq]
  cases s.events[m.pos]? with
  | none => dec5
  | some e =>
    cases e with
    | finish => dec5
    | token _ _ => dec5
    | error _ => dec5
    | start k fp =>
      simp only
      split
      · dec5
      · cases s.events[cm.pos]? with
        | none => dec5
        | some e2 =>
          cases e2 with
          | finish => dec5
          | token _ _ => dec5
          | error _ => dec5
          | start k' fp' =>
            simp only
            split
            · dec5
            · refine h _ rfl (hl.of_eq rfl rfl) ?_
              simp only [P.w, Array.set!_eq_setIfInBounds, Array.size_setIfInBounds]
              omega

theorem wp5_atTs {ts : TokenSet} {Q : Bool → P → Prop}
    (h : Q (inSet ts (s.kindAt s.pos)) s) : wp A5 (atTs ts) Q s := wp_atTs h

/-- `Parser::eat`: nothing happens, or the tokens of `k` are consumed and one event is pushed -/
theorem wp5_eat {k : SyntaxKind} (hl : Lim B s) {Q : Bool → P → Prop}
    (h1 : atF k s.kinds s.joint s.pos = false → Q false s)
    (h2 : atF k s.kinds s.joint s.pos = true → ∀ s', Adv s s' → s.pos < s'.pos → Lim B s' → s'.w ≤ s.w + 2 →
      Q true s') :
    wp A5 (eat k) Q s := by
  by_cases hk : (k == .EOF) = true
  · unfold eat; simp only [hk, if_true]; exact wp_fail (by decide)
  · have hk' : (k == .EOF) = false := by simpa using hk
    apply wp_def'; rw [eat_eq' k hk']
    cases hb : atF k s.kinds s.joint s.pos with
    | false => simp only [Bool.false_eq_true, if_false]; exact h1 hb
    | true =>
      simp only [if_true]
      obtain ⟨hin, h1le⟩ := atF_inb hb hk'
      refine h2 hb _ ⟨rfl, rfl, rfl, Nat.le_add_right _ _, fun _ => hin⟩ ?_ (hl.of_eq rfl rfl) ?_
      · show s.pos < s.pos + eatRawTokens k
        omega
      · simp only [P.w, Array.size_push]; omega

theorem wp5_bump {k : SyntaxKind} (hl : Lim B s) {Q : Unit → P → Prop}
    (h : atF k s.kinds s.joint s.pos = true → ∀ s', Adv s s' → s.pos < s'.pos → Lim B s' → s'.w ≤ s.w + 2 →
      Q () s') : wp A5 (bump k) Q s := by
  unfold bump
  apply wp_bind
  apply wp5_eat hl
  · intro _; exact wp_panic (by decide)
  · intro hb s' ha hlt hl' hw; exact wp_pure (h hb s' ha hlt hl' hw)

theorem wp5_bumpAny (hl : Lim B s) {Q : Unit → P → Prop}
    (h1 : s.kindAt s.pos = .EOF → Q () s)
    (h2 : s.kindAt s.pos ≠ .EOF → ∀ s', Adv s s' → s.pos < s'.pos → Lim B s' → s'.w ≤ s.w + 2 → Q () s') :
    wp A5 bumpAny Q s := by
  apply wp_def'; rw [bumpAny_eq]
  split
  · rename_i he; exact h1 (by simpa using he)
  · rename_i he
    have hne : s.kindAt s.pos ≠ .EOF := by simpa using he
    have := kindAt_ne_eof_lt s _ hne
    refine h2 hne _ ⟨rfl, rfl, rfl, Nat.le_add_right _ _, fun _ => by show s.pos + 1 ≤ s.kinds.size; omega⟩
      (by show s.pos < s.pos + 1; omega) (hl.of_eq rfl rfl) ?_
    simp only [P.w, Array.size_push]; omega

/-- `Parser::expect`, one continuation -/
theorem wp5_expect {k : SyntaxKind} (hl : Lim B s) (hb : s.w ≤ B) {Q : Bool → P → Prop}
    (h : ∀ s', Adv s s' → (atF k s.kinds s.joint s.pos = true → s.pos < s'.pos) →
      (atF k s.kinds s.joint s.pos = false → s'.tv = s.tv) → Lim B s' → s'.w ≤ s.w + 2 →
      Q (atF k s.kinds s.joint s.pos) s') :
    wp A5 (expect k) Q s := by
  unfold expect
  apply wp_bind
  apply wp5_eat hl
  · intro hf
    simp only [Bool.false_eq_true, if_false]
    apply wp_bind; apply wp5_error hl hb; intro s' htv hl' hw
    have := h s' (Adv.of_tv htv) (fun ht => by rw [hf] at ht; cases ht) (fun _ => htv) hl' hw
    rw [hf] at this
    exact wp_pure this
  · intro ht s' ha hlt hl' hw
    simp only [if_true]
    have := h s' ha (fun _ => hlt) (fun hf => by rw [ht] at hf; cases hf) hl' hw
    rw [ht] at this
    exact wp_pure this

/-- `err_recover`, one continuation; at most 4 events -/
theorem wp5_errRecover {msg : String} {rec : TokenSet} (hl : Lim B s) (hb : s.w + 6 ≤ B) {Q : Unit → P → Prop}
    (h : ∀ s', Adv s s' → (recStop rec (s.kindAt s.pos) = false → s.pos < s'.pos) →
      (recStop rec (s.kindAt s.pos) = true → s'.tv = s.tv) → Lim B s' → s'.w ≤ s.w + 8 → Q () s') :
    wp A5 (errRecover msg rec) Q s := by
  unfold errRecover
  apply wp_bind; apply wp_current
  split
  · rename_i hc
    have hs : recStop rec (s.kindAt s.pos) = true := by simp only [recStop, hc, Bool.true_or]
    apply wp_bind; apply wp5_error hl (by omega); intro s' htv hl' hw
    exact wp_pure (h s' (Adv.of_tv htv) (fun hf => by rw [hs] at hf; cases hf) (fun _ => htv) hl' (by omega))
  · rename_i hc
    apply wp_bind; apply wp_atTs
    split
    · rename_i ht
      have hs : recStop rec (s.kindAt s.pos) = true := by simp only [recStop, ht, Bool.true_or, Bool.or_true]
      apply wp_bind; apply wp5_error hl (by omega); intro s' htv hl' hw
      exact wp_pure (h s' (Adv.of_tv htv) (fun hf => by rw [hs] at hf; cases hf) (fun _ => htv) hl' (by omega))
    · rename_i ht
      apply wp_bind; apply wp5_start hl (by omega); intro m s1 htv1 hl1 hw1
      apply wp_bind; apply wp5_error hl1 (by omega); intro s2 htv2 hl2 hw2
      have htv : s2.tv = s.tv := htv2.trans htv1
      have hk2 : s2.kindAt s2.pos = s.kindAt s.pos := by
        simp only [P.tv, Prod.mk.injEq] at htv
        simp only [P.kindAt, htv.1, htv.2.2]
      apply wp_bind
      apply wp5_bumpAny hl2
      · intro he
        apply wp_bind; apply wp5_complete hl2 (by omega); intro cm s4 htv4 hl4 hw4
        have hs : recStop rec (s.kindAt s.pos) = true := by
          rw [hk2] at he
          simp only [recStop, he, beq_self_eq_true, Bool.or_true]
        exact wp_pure (h s4 (Adv.of_tv (htv4.trans htv)) (fun hf => by rw [hs] at hf; cases hf)
          (fun _ => htv4.trans htv) hl4 (by omega))
      · intro hne s3 ha3 hl3 hlim3 hw3
        apply wp_bind; apply wp5_complete hlim3 (by omega); intro cm s4 htv4 hl4 hw4
        have ha : Adv s s4 := (Adv.of_tv htv).trans (ha3.trans (Adv.of_tv htv4))
        have hlt : s.pos < s4.pos := by
          have e1 : s2.pos = s.pos := tv_pos htv
          have e2 : s4.pos = s3.pos := tv_pos htv4
          omega
        have hs : recStop rec (s.kindAt s.pos) = false := by
          rw [hk2] at hne
          have hc' : (s.kindAt s.pos == SyntaxKind.L_CURLY || s.kindAt s.pos == SyntaxKind.R_CURLY) = false := by
            simpa using hc
          have ht' : (decide ((s.kindAt s.pos).toNat < 128) && rec.contains (s.kindAt s.pos)) = false := by
            simpa using ht
          have he' : (s.kindAt s.pos == SyntaxKind.EOF) = false := by simpa using hne
          simp only [recStop, hc', ht', he', Bool.or_self]
        exact wp_pure (h s4 ha (fun _ => hlt) (fun ht => by rw [hs] at ht; cases ht) hl4 (by omega))

theorem wp5_errAndBump {msg : String} (hl : Lim B s) (hb : s.w + 6 ≤ B) {Q : Unit → P → Prop}
    (h : ∀ s', Adv s s' → (recStop [] (s.kindAt s.pos) = false → s.pos < s'.pos) →
      (recStop [] (s.kindAt s.pos) = true → s'.tv = s.tv) → Lim B s' → s'.w ≤ s.w + 8 → Q () s') :
    wp A5 (errAndBump msg) Q s := wp5_errRecover hl hb h

/-- `type_name`, one continuation -/
theorem wp5_typeName (hl : Lim B s) (hb : s.w ≤ B) {Q : Unit → P → Prop}
    (h : ∀ s', Adv s s' → (isType (s.kindAt s.pos) = true → s.pos < s'.pos) →
      (isType (s.kindAt s.pos) = false → s'.tv = s.tv) → Lim B s' → s'.w ≤ s.w + 2 → Q () s') :
    wp A5 Oq3.Grammar.typeName Q s := by
  unfold Oq3.Grammar.typeName
  apply wp_bind; apply wp_current
  split
  · rename_i ht
    have hf : isType (s.kindAt s.pos) = false := by simpa using ht
    apply wp_bind; apply wp5_error hl hb; intro s' htv hl' hw
    exact wp_pure (h s' (Adv.of_tv htv) (fun ht => by rw [hf] at ht; cases ht) (fun _ => htv) hl' hw)
  · rename_i ht
    have htt : isType (s.kindAt s.pos) = true := by simpa using ht
    apply wp_bind; apply wp_current
    apply wp5_bump hl
    intro _ s' ha hlt hl' hw
    exact h s' ha (fun _ => hlt) (fun hf => by rw [htt] at hf; cases hf) hl' hw

end

open Lean Elab Tactic Meta in
/-- like `wp_call`, for specifications that take the budget `B` as an extra argument before the
state; `B` is read off the hypothesis `Lim B s` for the current state `s` -/
elab "wp_callB " sfx:ident : tactic => withMainContext do
  let g ← getMainGoal
  let t ← whnfR (← instantiateMVars (← g.getType))
  unless t.isAppOfArity ``Oq3.Parser.wp 5 do throwError "wp_callB: not a wp goal"
  let prog ← whnfR t.getAppArgs[2]!
  let st := t.getAppArgs[4]!
  let .const fn _ := prog.getAppFn | throwError "wp_callB: no head constant"
  unless (`Oq3.Grammar).isPrefixOf fn do throwError "wp_callB: not a grammar function"
  let mut bud : Option Expr := none
  for d in (← getLCtx) do
    if d.isImplementationDetail then continue
    let ty ← instantiateMVars d.type
    if ty.isAppOfArity ``Oq3.Parser.Lim 2 && ty.getAppArgs[1]! == st then
      bud := some ty.getAppArgs[0]!
  let some b := bud | throwError "wp_callB: no budget for the current state"
  let bstx ← Lean.Elab.Term.exprToSyntax b
  let nargs := prog.getAppNumArgs
  let leafName := fn.appendAfter ("_" ++ sfx.getId.eraseMacroScopes.toString)
  let hole ← `(_)
  if (← getEnv).contains leafName then
    let us : Array (TSyntax `term) := (Array.replicate nargs hole).push bstx |>.push hole
    evalTactic (← `(tactic| with_reducible refine wp_conseq ($(mkIdent leafName) $us* ?_) ?_))
  else
    let some short := fn.components.getLast? | throwError "wp_callB: bad name"
    let us : Array (TSyntax `term) := (Array.replicate (nargs - 1) hole).push bstx |>.push hole
    evalTactic (← `(tactic| with_reducible refine wp_conseq ($(mkIdent (`ih ++ short)) $us* ?_) ?_))

end Oq3.Parser

namespace Oq3.Grammar
open Oq3.Gen Oq3.Parser

macro "pc_step" : tactic => `(tactic| first
  | (goal_kind wp; first
      | wp_rule [Pure.pure wp_pure, Bind.bind wp_bind, ite wp_ite, andM wp_andM, orM wp_orM, notM wp_notM,
          Functor.map wp_map, at' wp_at, current wp_current, atTs wp5_atTs, currentOp wp_currentOp,
          nth wp5_nth, start wp5_start, error wp5_error, Marker.complete wp5_complete,
          Marker.abandon wp5_abandon, CompletedMarker.precede wp5_precede,
          CompletedMarker.extendTo wp5_extendTo, eat wp5_eat, bump wp5_bump, bumpAny wp5_bumpAny,
          expect wp5_expect, errRecover wp5_errRecover, errAndBump wp5_errAndBump, typeName wp5_typeName]
      | (with_reducible apply wp_fail; decide)
      | (with_reducible apply wp_panic; decide)
      | wp_callB cost
      | pg_split
      | dsimp only)
  | (goal_kind pi; pg_intro)
  | (goal_kind and; with_reducible apply And.intro)
  | pg_close
  | pg_split
  | dsimp only)

set_option hygiene false in
/-- absorb the hypothesis `hpre` of the statement, then run -/
macro "pc" : tactic => `(tactic| (revert hpre; repeat' pc_step))

end Oq3.Grammar
