/-
C04, extended reference language, part 3: `atom_expr` on the atoms of extended expressions.
-/
import Oq3.Lemmas.LangEv2Run
set_option linter.unusedSimpArgs false
set_option linter.unusedVariables false

namespace Oq3.LangEv2
open Oq3.Gen Oq3.Parser Oq3.Grammar Oq3.SymExec Oq3.PrattEv Oq3.LangEv

theorem ov_live (s : P) (E0 : List Ev) (dp st sb lv : Nat) (pr : List Nat) : (s.ov E0 dp st sb lv pr).live = lv := rfl
theorem ov_prot (s : P) (E0 : List Ev) (dp st sb lv : Nat) (pr : List Nat) : (s.ov E0 dp st sb lv pr).protectedPos = pr := rfl

theorem ov_events_size (s : P) (E0 : List Ev) (dp st sb lv : Nat) (pr : List Nat) :
    (s.ov E0 dp st sb lv pr).events.size = s.events.size + E0.length := ov_size _ _

set_option hygiene false in
/-- symbolic execution from the base state `s` to an exact final overlay state (names `s`, `hr`) -/
macro "run_exact" "[" hs:Lean.Parser.Tactic.simpLemma,* "]" : tactic => `(tactic| (
  have hnp := hr.hook
  have hsteps := hr.steps
  have hlim := hr.lim
  have hst : s.steps ≤ s.stepLimit := by omega
  have hst1 : s.steps + 1 ≤ s.stepLimit := by omega
  have hpr := hr.prot
  refine of_ov _ _ _ ?_
  sym_eval [filter_base s hpr, contains_base s hpr, $hs,*]
  close_ov))

/-- `atom_expr` on an identifier that is not the name of a gate call -/
theorem atom_id (g : Nat) (r : Restrictions) (s : P) (hr : RdyL 2 s) (h0 : s.kindAt (s.pos + 0) = .IDENT)
    (e1 : s.kindAt (s.pos + 1) ≠ .IDENT) (e2 : s.kindAt (s.pos + 1) ≠ .HARDWAREIDENT) :
    atomExpr (g + 1) r s = .ok (some (⟨s.events.size + 0, .IDENTIFIER⟩, .notBlock),
      s.ov (bodyP .id none) 1 0 2 s.live s.protectedPos) := by
  run_exact [h0, e1, e2]

theorem atom_lit (k : Lit) (g : Nat) (r : Restrictions) (s : P) (hr : RdyL 2 s) (h0 : s.kindAt (s.pos + 0) = k.kind)
    (e1 : s.kindAt (s.pos + 1) ≠ .IDENT) :
    atomExpr (g + 1) r s = .ok (some (⟨s.events.size + 0, .LITERAL⟩, .notBlock),
      s.ov (bodyP (.lit k) none) 1 0 2 s.live s.protectedPos) := by
  cases k <;> simp only [Lit.kind] at h0 <;> run_exact [h0, e1]

theorem atom_timing (k : Num) (g : Nat) (r : Restrictions) (s : P) (hr : RdyL 2 s) (h0 : s.kindAt (s.pos + 0) = k.kind)
    (h1 : s.kindAt (s.pos + 1) = .IDENT) :
    atomExpr (g + 1) r s = .ok (some (⟨s.events.size + 0, .TIMING_LITERAL⟩, .notBlock),
      s.ov (bodyP (.timing k) none) 2 0 3 s.live s.protectedPos) := by
  cases k <;> simp only [Num.kind] at h0 <;> run_exact [h0, h1]

theorem atom_hw (g : Nat) (r : Restrictions) (s : P) (hr : RdyL 2 s) (h0 : s.kindAt (s.pos + 0) = .HARDWAREIDENT) :
    atomExpr (g + 1) r s = .ok (some (⟨s.events.size + 0, .HARDWARE_QUBIT⟩, .notBlock),
      s.ov (bodyP .hw none) 1 0 2 s.live s.protectedPos) := by
  run_exact [h0]

theorem atom_measure (g : Nat) (r : Restrictions) (s : P) (hr : RdyL 2 s) (h0 : s.kindAt (s.pos + 0) = .MEASURE_KW)
    (h1 : s.kindAt (s.pos + 1) = .IDENT) (e2 : s.kindAt (s.pos + 2) ≠ .L_BRACK) :
    atomExpr (g + 3) r s = .ok (some (⟨s.events.size + 0, .MEASURE_EXPRESSION⟩, .notBlock),
      s.ov (bodyP .measureE none) 2 0 3 s.live s.protectedPos) := by
  run_exact [h0, h1, e2]

theorem atom_measureHw (g : Nat) (r : Restrictions) (s : P) (hr : RdyL 2 s) (h0 : s.kindAt (s.pos + 0) = .MEASURE_KW)
    (h1 : s.kindAt (s.pos + 1) = .HARDWAREIDENT) :
    atomExpr (g + 3) r s = .ok (some (⟨s.events.size + 0, .MEASURE_EXPRESSION⟩, .notBlock),
      s.ov (bodyP .measureHw none) 2 0 3 s.live s.protectedPos) := by
  run_exact [h0, h1]

/-! ### first tokens -/

/-- the tokens that can start an expression of `X` -/
def xFirst (k : SyntaxKind) : Bool :=
  k == .IDENT || k == .INT_NUMBER || k == .FLOAT_NUMBER || k == .BIT_STRING || k == .TRUE_KW || k == .FALSE_KW ||
  k == .HARDWAREIDENT || k == .L_PAREN || k == .MEASURE_KW || k == .TILDE || k == .BANG || k == .MINUS ||
  k == .INT_TY || k == .UINT_TY || k == .FLOAT_TY || k == .ANGLE_TY || k == .BIT_TY || k == .BOOL_TY

theorem toksP_first : ∀ p : Prim, ∃ j ts, toksP p = (firstP p, j) :: ts
  | .id => ⟨_, _, rfl⟩
  | .lit _ => ⟨_, _, rfl⟩
  | .timing _ => ⟨_, _, rfl⟩
  | .hw => ⟨_, _, rfl⟩
  | .paren _ => ⟨_, _, rfl⟩
  | .cast0 _ _ => ⟨_, _, rfl⟩
  | .castW _ _ _ => ⟨_, _, rfl⟩
  | .measureE => ⟨_, _, rfl⟩
  | .measureHw => ⟨_, _, rfl⟩
  | .measureIdx _ => ⟨_, _, rfl⟩
  | .idIdx _ => ⟨_, _, rfl⟩
  | .call p args => by
    obtain ⟨j, ts, h⟩ := toksP_first p
    exact ⟨j, ts ++ (tk .L_PAREN :: (toksXs args ++ [tk .R_PAREN])), by simp [toksP, firstP, h]⟩
  | .index p items => by
    obtain ⟨j, ts, h⟩ := toksP_first p
    exact ⟨j, ts ++ (tk .L_BRACK :: (toksItems items ++ [tk .R_BRACK])), by simp [toksP, firstP, h]⟩

theorem toksX_first : ∀ x : X, ∃ j ts, toksX x = (firstX x, j) :: ts
  | .prim p => toksP_first p
  | .pre o e => ⟨_, _, rfl⟩
  | .bin o l r => by
    obtain ⟨j, ts, h⟩ := toksX_first l
    exact ⟨j, ts ++ (o.toks ++ toksX r), by simp [toksX, firstX, h]⟩

theorem firstP_xFirst : ∀ p : Prim, xFirst (firstP p) = true
  | .id => rfl
  | .lit k => by cases k <;> rfl
  | .timing k => by cases k <;> rfl
  | .hw => rfl
  | .paren _ => rfl
  | .cast0 ty _ => by cases ty <;> rfl
  | .castW ty _ _ => by cases ty <;> rfl
  | .measureE => rfl
  | .measureHw => rfl
  | .measureIdx _ => rfl
  | .idIdx _ => rfl
  | .call p _ => firstP_xFirst p
  | .index p _ => firstP_xFirst p

theorem firstX_xFirst : ∀ x : X, xFirst (firstX x) = true
  | .prim p => firstP_xFirst p
  | .pre o e => by cases o <;> rfl
  | .bin o l r => firstX_xFirst l

/-- what a first token of an expression is not -/
theorem xFirst_ne {k : SyntaxKind} (h : xFirst k = true) :
    NoSecond k ∧ k ≠ .R_PAREN ∧ k ≠ .EOF ∧ k ≠ .R_CURLY ∧ k ≠ .COMMA ∧ k ≠ .SEMICOLON ∧ k ≠ .R_BRACK ∧ k ≠ .COLON ∧
      k ≠ .L_CURLY ∧ k ≠ .L_BRACK ∧ k ≠ .STRING ∧ k ≠ .BYTE ∧ k ≠ .CHAR := by
  simp only [xFirst, Bool.or_eq_true, beq_iff_eq] at h
  unfold NoSecond
  rcases h with ((((((((((((((((h | h) | h) | h) | h) | h) | h) | h) | h) | h) | h) | h) | h) | h) | h) | h) | h) | h <;>
    subst h <;> decide

/-- `( e )` -/
theorem atom_paren (e : X) (n : Nat) (he : ExprOK e n) (F : Nat) (r : Restrictions) (s : P) (hr : RdyL 2 s)
    (hF : n + 5 ≤ F) (h0 : s.kindAt (s.pos + 0) = .L_PAREN) (hte : Toks s (s.pos + 1) (toksX e))
    (hrp : s.kindAt (s.pos + (1 + (toksX e).length)) = .R_PAREN) (hc : CanonX 1 e) :
    atomExpr F r s = .ok (some (⟨s.events.size + 0, .PAREN_EXPR⟩, .notBlock),
      s.ov (bodyP (.paren e) none) ((toksX e).length + 2) 0 2 s.live s.protectedPos) := by
  obtain ⟨g, rfl⟩ : ∃ g, F = g + 5 := ⟨F - 5, by omega⟩
  have hpr' : ∀ n, ∀ p ∈ s.protectedPos, p < s.events.size + n := fun n p hp => Nat.lt_add_right n (hr.prot p hp)
  have hsub : ∀ st sb lv E0, st + 5 ≤ s.stepLimit → Oq3.Grammar.expr (g + 2) (s.ov E0 1 st sb lv s.protectedPos) = _ :=
    fun st sb lv E0 h1 => he.expr (g + 1) s E0 1 st sb lv s.protectedPos hr.hook h1 hr.lim (hpr' _) hte hc
      (by rw [kindAt_pos hrp (by omega)]; rfl) (by omega)
  obtain ⟨j, ts, hts⟩ := toksX_first e
  have h1 : s.kindAt (s.pos + 1) = firstX e := by rw [hts] at hte; exact hte.1
  obtain ⟨-, e1, e2, -, e3, -⟩ := xFirst_ne (h1 ▸ firstX_xFirst e)
  have b1 := beq_false_of_ne e1
  have b2 := beq_false_of_ne e2
  have b3 := beq_false_of_ne e3
  run_exact [h0, b1, b2, b3, hsub, hrp]

/-- `ty[w]` with an expression of `X` as width -/
theorem typeSpec_wideX (ty : Ty) (w : X) (n : Nat) (hw : ExprOK w n) (F : Nat) (s : P) (hr : RdyL 2 s) (hF : n + 4 ≤ F)
    (hty : ty.wide = true) (h0 : s.kindAt (s.pos + 0) = ty.kind) (h1 : s.kindAt (s.pos + 1) = .L_BRACK)
    (htw : Toks s (s.pos + 2) (toksX w)) (hrb : s.kindAt (s.pos + (2 + (toksX w).length)) = .R_BRACK)
    (hc : CanonX 1 w) (hf1 : firstX w ≠ .FLOAT_NUMBER) (hf2 : firstX w ≠ .BIT_STRING) :
    typeSpec F s = .ok (true, s.ov (.start .SCALAR_TYPE none :: .token ty.kind 1 :: .start .DESIGNATOR none ::
        .token .L_BRACK 1 :: (evsX w ++ [.token .R_BRACK 1, .finish, .finish])) ((toksX w).length + 3) 0 3 s.live s.protectedPos) := by
  obtain ⟨g, rfl⟩ : ∃ g, F = g + 4 := ⟨F - 4, by omega⟩
  have hpr' : ∀ n, ∀ p ∈ s.protectedPos, p < s.events.size + n := fun n p hp => Nat.lt_add_right n (hr.prot p hp)
  have hsub : ∀ st sb lv E0, st + 5 ≤ s.stepLimit → Oq3.Grammar.expr (g + 1) (s.ov E0 2 st sb lv s.protectedPos) = _ :=
    fun st sb lv E0 h1 => hw.expr g s E0 2 st sb lv s.protectedPos hr.hook h1 hr.lim (hpr' _) htw hc
      (by rw [kindAt_pos hrb (by omega)]; rfl) (by omega)
  obtain ⟨j, ts, hts⟩ := toksX_first w
  have h2 : s.kindAt (s.pos + 2) = firstX w := by rw [hts] at htw; exact htw.1
  obtain ⟨-, -, -, -, -, -, -, -, -, -, e3, e4, e5⟩ := xFirst_ne (h2 ▸ firstX_xFirst w)
  rw [← h2] at hf1 hf2
  cases ty <;> simp only [Ty.kind] at h0 <;> first | (simp [Ty.wide] at hty; done) | skip
  all_goals run_exact [h0, h1, hf1, hf2, e3, e4, e5, hrb, hsub]

/-- `ty(e)` -/
theorem atom_cast0 (ty : Ty) (e : X) (n : Nat) (he : ExprOK e n) (F : Nat) (r : Restrictions) (s : P) (hr : RdyL 3 s)
    (hF : n + 6 ≤ F) (h0 : s.kindAt (s.pos + 0) = ty.kind) (h1 : s.kindAt (s.pos + 1) = .L_PAREN)
    (hte : Toks s (s.pos + 2) (toksX e)) (hrp : s.kindAt (s.pos + (2 + (toksX e).length)) = .R_PAREN) (hc : CanonX 1 e) :
    atomExpr F r s = .ok (some (⟨s.events.size + 0, .CAST_EXPRESSION⟩, .notBlock),
      s.ov (bodyP (.cast0 ty e) none) ((toksX e).length + 3) 0 2 s.live s.protectedPos) := by
  obtain ⟨g, rfl⟩ : ∃ g, F = g + 6 := ⟨F - 6, by omega⟩
  have hpr' : ∀ n, ∀ p ∈ s.protectedPos, p < s.events.size + n := fun n p hp => Nat.lt_add_right n (hr.prot p hp)
  have hsub : ∀ st sb lv E0, st + 5 ≤ s.stepLimit → Oq3.Grammar.expr (g + 4) (s.ov E0 2 st sb lv s.protectedPos) = _ :=
    fun st sb lv E0 h1 => he.expr (g + 3) s E0 2 st sb lv s.protectedPos hr.hook h1 hr.lim (hpr' _) hte hc
      (by rw [kindAt_pos hrp (by omega)]; rfl) (by omega)
  cases ty <;> simp only [Ty.kind] at h0 <;> run_exact [h0, h1, hsub, hrp]

/-- `ty[w](e)` -/
theorem atom_castW (ty : Ty) (w e : X) (nw ne : Nat) (hw : ExprOK w nw) (he : ExprOK e ne) (F : Nat) (r : Restrictions)
    (s : P) (hr : RdyL 3 s) (hF : max nw ne + 7 ≤ F) (hty : ty.wide = true)
    (h0 : s.kindAt (s.pos + 0) = ty.kind) (h1 : s.kindAt (s.pos + 1) = .L_BRACK)
    (htw : Toks s (s.pos + 2) (toksX w)) (hrb : s.kindAt (s.pos + (2 + (toksX w).length)) = .R_BRACK)
    (hlp : s.kindAt (s.pos + (2 + (toksX w).length + 1)) = .L_PAREN)
    (hte : Toks s (s.pos + (2 + (toksX w).length + 2)) (toksX e))
    (hrp : s.kindAt (s.pos + (2 + (toksX w).length + 2 + (toksX e).length)) = .R_PAREN)
    (hcw : CanonX 1 w) (hce : CanonX 1 e) (hf1 : firstX w ≠ .FLOAT_NUMBER) (hf2 : firstX w ≠ .BIT_STRING) :
    atomExpr F r s = .ok (some (⟨s.events.size + 0, .CAST_EXPRESSION⟩, .notBlock),
      s.ov (bodyP (.castW ty w e) none) ((toksX w).length + (toksX e).length + 5) 0 2 s.live s.protectedPos) := by
  obtain ⟨g, rfl⟩ : ∃ g, F = g + 6 := ⟨F - 6, by omega⟩
  have hpr' : ∀ n, ∀ p ∈ s.protectedPos, p < s.events.size + n := fun n p hp => Nat.lt_add_right n (hr.prot p hp)
  have hts := typeSpec_wideX ty w nw hw (g + 4) (s.ov [.start .TOMBSTONE none] 0 (s.steps + 1) (s.sinceBump + 1) (s.live + 1) s.protectedPos)
    (RdyL_ov 2 s _ _ _ _ _ _ hr.hook (by have := hr.steps; omega) (hpr' _) hr.lim) (by omega) hty
    (by show s.kindAt (s.pos + 0 + 0) = _; exact h0) (by show s.kindAt (s.pos + 0 + 1) = _; exact kindAt_pos h1 (by omega))
    ((Toks_ov s _ _ _ _ _ _ _ _).2 (Toks_pos htw (by show s.pos + 0 + 2 = _; omega)))
    (kindAt_pos hrb (by show s.pos + 0 + _ = _; omega)) hcw hf1 hf2
  rw [ov_ov] at hts
  simp only [List.cons_append, List.nil_append, Nat.zero_add, ov_live, ov_prot] at hts
  have hsub : ∀ st sb lv E0, st + 5 ≤ s.stepLimit →
      Oq3.Grammar.expr (g + 4) (s.ov E0 ((toksX w).length + 3 + 1) st sb lv s.protectedPos) = _ :=
    fun st sb lv E0 h1 => he.expr (g + 3) s E0 _ st sb lv s.protectedPos hr.hook h1 hr.lim (hpr' _)
      (Toks_pos hte (by omega)) hce (by rw [kindAt_pos hrp (by omega)]; rfl) (by omega)
  have hlp' : s.kindAt (s.pos + ((toksX w).length + 3)) = .L_PAREN := kindAt_pos hlp (by omega)
  have hrp' : s.kindAt (s.pos + ((toksX w).length + 3 + 1 + (toksX e).length)) = .R_PAREN := kindAt_pos hrp (by omega)
  cases ty <;> simp only [Ty.kind] at h0 hts <;> first | (simp [Ty.wide] at hty; done) | skip
  all_goals run_exact [h0, h1, hts, hlp', hsub, hrp']

end Oq3.LangEv2
