/-
Event-level Pratt round trip, part 1: DEFINITIONS.

Expression trees over the 19 binary and 3 prefix operators of OpenQASM 3 with the atoms
identifier / integer literal / parenthesised expression; their minimal-parenthesis print as
parser input (`toks`, composite operators as joint single-character pieces); the event list the
model grammar `Oq3.Grammar.exprBp` emits for them (`evs`, forward-parent links included); and the
pre-order node sequence `process` turns these events into (`nodes`).

The forward-parent links of `event.rs` are RELATIVE offsets, so `evs t` does not depend on the
position at which it is pushed: no relocation is needed.  Shape, for one call of `expr_bp` that
parses a primary `p` and then `k ≥ 0` operator/right-operand pairs `(o₁,r₁) … (o_k,r_k)`:

    Start TOMBSTONE (fp 1)                       -- `m` of `expr_bp`, linked by `extend_to` to the primary
    Start kind(p) (fp → BIN₁) … Finish           -- the primary (`lhs`)
    Start BIN_EXPR (fp → BIN₂)  Token o₁  evs r₁  Finish     -- `lhs.precede`, `bump(op)`, `expr_bp`, `complete`
    …
    Start BIN_EXPR (no fp)      Token o_k evs r_k Finish     -- the ROOT of the tree

`process` follows the chain TOMBSTONE → primary → BIN₁ → … → BIN_k when it reaches the first event
and enters the nodes outermost first.
-/
import Oq3.Model.Grammar
import Oq3.Model.Process
import Oq3.Model.Pratt

namespace Oq3.PrattEv
open Oq3.Gen Oq3.Parser

/-- the 19 binary operators of OpenQASM 3 (`Oq3.Props.C05.binOps`) -/
inductive BinOp
  | pipe2 | amp2 | pipe | caret | amp | eq2 | neq | lt | lteq | gt | gteq | shl | shr
  | plus | minus | star | slash | percent | dstar
  deriving DecidableEq, Repr, Inhabited

/-- the three prefix operators handled by `lhs` -/
inductive PreOp | tilde | bang | minus
  deriving DecidableEq, Repr, Inhabited

def BinOp.kind : BinOp → SyntaxKind
  | .pipe2 => .PIPE2 | .amp2 => .AMP2 | .pipe => .PIPE | .caret => .CARET | .amp => .AMP
  | .eq2 => .EQ2 | .neq => .NEQ | .lt => .L_ANGLE | .lteq => .LTEQ | .gt => .R_ANGLE
  | .gteq => .GTEQ | .shl => .SHL | .shr => .SHR | .plus => .PLUS | .minus => .MINUS
  | .star => .STAR | .slash => .SLASH | .percent => .PERCENT | .dstar => .DOUBLE_STAR

/-- the single-character tokens the lexer delivers for the operator -/
def BinOp.pieces : BinOp → List SyntaxKind
  | .pipe2 => [.PIPE, .PIPE] | .amp2 => [.AMP, .AMP] | .pipe => [.PIPE] | .caret => [.CARET]
  | .amp => [.AMP] | .eq2 => [.EQ, .EQ] | .neq => [.BANG, .EQ] | .lt => [.L_ANGLE]
  | .lteq => [.L_ANGLE, .EQ] | .gt => [.R_ANGLE] | .gteq => [.R_ANGLE, .EQ]
  | .shl => [.L_ANGLE, .L_ANGLE] | .shr => [.R_ANGLE, .R_ANGLE] | .plus => [.PLUS]
  | .minus => [.MINUS] | .star => [.STAR] | .slash => [.SLASH] | .percent => [.PERCENT]
  | .dstar => [.STAR, .STAR]

/-- binding power in the implementation's table (`current_op`); tied to
`Oq3.Pratt.implTab` by `BinOp.pow_impl` -/
def BinOp.pow : BinOp → Nat
  | .pipe2 => 3 | .amp2 => 4 | .pipe => 6 | .caret => 7 | .amp => 8
  | .eq2 | .neq | .lt | .lteq | .gt | .gteq => 5
  | .shl | .shr => 9 | .plus | .minus => 10 | .star | .slash | .percent => 11 | .dstar => 7

def PreOp.kind : PreOp → SyntaxKind
  | .tilde => .TILDE | .bang => .BANG | .minus => .MINUS

inductive E
  | id
  | int
  | bin (o : BinOp) (l r : E)
  | pre (o : PreOp) (e : E)
  | paren (e : E)
  deriving DecidableEq, Repr, Inhabited

/-- the tree of the abstract Pratt core (`Oq3.Pratt.E`); identifier = atom 0, literal = atom 1 -/
def E.toPratt : E → Oq3.Pratt.E
  | .id => .atom 0
  | .int => .atom 1
  | .bin o l r => .bin o.kind l.toPratt r.toPratt
  | .pre o e => .pre o.kind e.toPratt
  | .paren e => .paren e.toPratt

/-- operator tokens: the pieces, every piece but the last one joint with its successor -/
def jointed : List SyntaxKind → List (SyntaxKind × Bool)
  | [] => []
  | [k] => [(k, false)]
  | k :: ks => (k, true) :: jointed ks

def BinOp.toks (o : BinOp) : List (SyntaxKind × Bool) := jointed o.pieces

/-- minimal-parenthesis print as parser input: token kind and joint bit (a `true` joint bit is
required of the input, a `false` one is "don't care") -/
def toks : E → List (SyntaxKind × Bool)
  | .id => [(.IDENT, false)]
  | .int => [(.INT_NUMBER, false)]
  | .bin o l r => toks l ++ (o.toks ++ toks r)
  | .pre o e => (o.kind, false) :: toks e
  | .paren e => (.L_PAREN, false) :: (toks e ++ [(.R_PAREN, false)])

/-- syntax kind of the root node -/
def E.kind : E → SyntaxKind
  | .id => .IDENTIFIER
  | .int => .LITERAL
  | .bin _ _ _ => .BIN_EXPR
  | .pre _ _ => .PREFIX_EXPR
  | .paren _ => .PAREN_EXPR

/-- the `Start` that `CompletedMarker::extend_to` leaves at the position of `expr_bp`'s marker -/
def tombLink : Ev := .start .TOMBSTONE (some 1)

/-- number of events of `evs t` -/
def len : E → Nat
  | .id | .int => 4
  | .bin _ l r => len l + len r + 3
  | .pre _ e => len e + 4
  | .paren e => len e + 5

/-- offset of the root `Start` inside `body t` -/
def rootOff : E → Nat
  | .bin _ l _ => len l - 1
  | _ => 0

/-- events after the leading `tombLink`; `fp` is the forward-parent link of the ROOT `Start` -/
def body : E → Option Nat → List Ev
  | .id, fp => [.start .IDENTIFIER fp, .token .IDENT 1, .finish]
  | .int, fp => [.start .LITERAL fp, .token .INT_NUMBER 1, .finish]
  | .pre o e, fp => [.start .PREFIX_EXPR fp, .token o.kind 1] ++ ((tombLink :: body e none) ++ [.finish])
  | .paren e, fp =>
    [.start .PAREN_EXPR fp, .token .L_PAREN 1] ++ ((tombLink :: body e none) ++ [.token .R_PAREN 1, .finish])
  | .bin o l r, fp =>
    body l (some (len l - 1 - rootOff l)) ++
      ([.start .BIN_EXPR fp, .token o.kind o.pieces.length] ++ ((tombLink :: body r none) ++ [.finish]))

/-- **the event encoding**: what `expr_bp` pushes for the tree -/
def evs (t : E) : List Ev := tombLink :: body t none

/-- the pre-order node sequence (`Step`s) of the tree -/
def nodes : E → List Step
  | .id => [.enter .IDENTIFIER, .token .IDENT 1, .exit]
  | .int => [.enter .LITERAL, .token .INT_NUMBER 1, .exit]
  | .bin o l r => [.enter .BIN_EXPR] ++ (nodes l ++ ([.token o.kind o.pieces.length] ++ (nodes r ++ [.exit])))
  | .pre o e => [.enter .PREFIX_EXPR, .token o.kind 1] ++ (nodes e ++ [.exit])
  | .paren e => [.enter .PAREN_EXPR, .token .L_PAREN 1] ++ (nodes e ++ [.token .R_PAREN 1, .exit])

def size : E → Nat
  | .id | .int => 1
  | .bin _ l r => size l + size r + 1
  | .pre _ e => size e + 1
  | .paren e => size e + 1

/-- `sinceBump` after the tree: events pushed since the last token -/
def sbOf : E → Nat
  | .id | .int | .paren _ => 2
  | .bin _ _ r => sbOf r + 1
  | .pre _ e => sbOf e + 1

/-- the last token of the print -/
inductive Last | id | int | paren
  deriving DecidableEq, Repr

def last : E → Last
  | .id => .id
  | .int => .int
  | .paren _ => .paren
  | .bin _ _ r => last r
  | .pre _ e => last e

/-! ### fuel -/

/-- fuel `expr_bp` uses before it enters its loop with the root as `lhs`: 1 + length of the left spine -/
def cF : E → Nat
  | .bin _ l _ => cF l + 1
  | _ => 1

/-- fuel that must be left for the loop -/
def need : E → Nat
  | .id | .int => 2
  | .pre _ e => need e + cF e + 1
  | .paren e => need e + cF e + 5
  | .bin _ l r => max (need l) (need r + cF r)

theorem cF_le_size (t : E) : cF t ≤ size t := by
  induction t with
  | bin o l r ihl ihr => simp only [cF, size]; omega
  | _ => simp only [cF, size] <;> omega

theorem need_ge (t : E) : 2 ≤ need t := by
  induction t with
  | bin o l r ihl ihr => simp only [need]; omega
  | _ => simp only [need] <;> omega

/-- **explicit size-based fuel bound** -/
theorem fuel_bound (t : E) : need t + cF t ≤ 6 * size t := by
  induction t with
  | id => decide
  | int => decide
  | pre o e ih => simp only [need, cF, size]; omega
  | paren e ih => simp only [need, cF, size]; omega
  | bin o l r ihl ihr =>
    have := cF_le_size l
    simp only [need, cF, size]; omega

/-! ### lengths -/

theorem body_length (t : E) (fp : Option Nat) : (body t fp).length + 1 = len t := by
  induction t generalizing fp with
  | id => rfl
  | int => rfl
  | pre o e ih => have := ih none; simp only [body, len, List.length_append, List.length_cons, List.length_nil]; omega
  | paren e ih => have := ih none; simp only [body, len, List.length_append, List.length_cons, List.length_nil]; omega
  | bin o l r ihl ihr =>
    have h1 := ihl (some (len l - 1 - rootOff l))
    have h2 := ihr none
    simp only [body, len, List.length_append, List.length_cons, List.length_nil]; omega

theorem evs_length (t : E) : (evs t).length = len t := by
  simp only [evs, List.length_cons, body_length]

theorem len_pos (t : E) : 4 ≤ len t := by
  induction t with
  | id => decide
  | int => decide
  | pre o e ih => simp only [len]; omega
  | paren e ih => simp only [len]; omega
  | bin o l r ihl ihr => simp only [len]; omega

end Oq3.PrattEv
