/-
Reasoning about runs of the semantic-analysis model `M = StateT Ctx (Except Outcome)`
(`Oq3/Model/SemaCtx.lean`, `Oq3/Model/Sema.lean`), after the pattern of `Lemmas/ParserInv.lean`:

* `M.bind_ok`, `M.pure_ok`, … : successful runs of the monad operations;
* `Ext s s'`: the *relational* post-condition that every analysis function satisfies — the scope
  stack is the same below the current scope, the current scope kept its kind and only gained
  entries, `all` only grew, diagnostics were only appended, and the C19 invariant is preserved;
  `Ext` is a preorder, so it composes along `>>=` (`Pres.bind`);
* `Pres x`: every successful run of `x` is related by `Ext`;
* `PresE x`: every failing run of `x` ends in an outcome satisfying `OkOutcome` (a panic at one of
  the listed sites, or fuel / unsupported include);
* one lemma per primitive of `SemaCtx.lean`.  `enterScope`/`exitScope` do not satisfy `Ext`; they
  are only ever used through `withScope`, which does (`withScope_pres`).

The closure over the non-recursive functions and over the mutual block is generated
(`Lemmas/SemaInvGen.lean`, by `tools/gen_sema_inv.py`).
-/
import Oq3.Model.Sema
import Oq3.Props.C19

namespace Oq3.Sema
open Oq3.Types Oq3.Symbols
open Oq3.Props

/-! ### successful and failing runs in `M` -/

theorem M.bind_ok {α β} (x : M α) (f : α → M β) (s : Ctx) (r : β × Ctx) :
    (x >>= f) s = .ok r ↔ ∃ a s1, x s = .ok (a, s1) ∧ f a s1 = .ok r := by
  show (StateT.bind x f) s = .ok r ↔ _
  unfold StateT.bind
  simp only [bind, Except.bind]
  cases x s with
  | error e => simp
  | ok p =>
    obtain ⟨a, s1⟩ := p
    simp only [Except.ok.injEq, Prod.mk.injEq]
    constructor
    · intro h; exact ⟨a, s1, ⟨rfl, rfl⟩, h⟩
    · rintro ⟨_, _, ⟨rfl, rfl⟩, h⟩; exact h

theorem M.bind_err {α β} (x : M α) (f : α → M β) (s : Ctx) (e : Outcome) :
    (x >>= f) s = .error e ↔
      x s = .error e ∨ ∃ a s1, x s = .ok (a, s1) ∧ f a s1 = .error e := by
  show (StateT.bind x f) s = .error e ↔ _
  unfold StateT.bind
  simp only [bind, Except.bind]
  cases x s with
  | error e' => simp
  | ok p =>
    obtain ⟨a, s1⟩ := p
    simp only [Except.ok.injEq, Prod.mk.injEq, reduceCtorEq, false_or]
    constructor
    · intro h; exact ⟨a, s1, ⟨rfl, rfl⟩, h⟩
    · rintro ⟨_, _, ⟨rfl, rfl⟩, h⟩; exact h

theorem M.map_ok {α β} (f : α → β) (x : M α) (s : Ctx) (r : β × Ctx) :
    (f <$> x) s = .ok r ↔ ∃ a s1, x s = .ok (a, s1) ∧ r = (f a, s1) := by
  show (StateT.map f x) s = .ok r ↔ _
  unfold StateT.map
  simp only [bind, Except.bind, pure, Except.pure]
  cases x s with
  | error e => simp
  | ok p =>
    obtain ⟨a, s1⟩ := p
    simp only [Except.ok.injEq, Prod.mk.injEq]
    constructor
    · intro h; exact ⟨a, s1, ⟨rfl, rfl⟩, h.symm⟩
    · rintro ⟨_, _, ⟨rfl, rfl⟩, h⟩; exact h.symm

theorem M.map_err {α β} (f : α → β) (x : M α) (s : Ctx) (e : Outcome) :
    (f <$> x) s = .error e ↔ x s = .error e := by
  show (StateT.map f x) s = .error e ↔ _
  unfold StateT.map
  simp only [bind, Except.bind, pure, Except.pure]
  cases x s with
  | error e' => simp
  | ok p => simp

@[simp] theorem M.pure_ok {α} (a : α) (s : Ctx) (r : α × Ctx) :
    (pure a : M α) s = .ok r ↔ r = (a, s) := by
  show Except.ok (a, s) = Except.ok r ↔ _
  constructor <;> intro h <;> simp_all

@[simp] theorem M.pure_err {α} (a : α) (s : Ctx) (e : Outcome) :
    (pure a : M α) s = .error e ↔ False := by
  show Except.ok (a, s) = Except.error e ↔ _
  simp

@[simp] theorem M.get_ok (s : Ctx) (r : Ctx × Ctx) : (get : M Ctx) s = .ok r ↔ r = (s, s) := by
  show Except.ok (s, s) = Except.ok r ↔ _
  constructor <;> intro h <;> simp_all

@[simp] theorem M.get_err (s : Ctx) (e : Outcome) : (get : M Ctx) s = .error e ↔ False := by
  show Except.ok (s, s) = Except.error e ↔ _
  simp

@[simp] theorem M.set_ok (s0 s : Ctx) (r : PUnit × Ctx) :
    (set s0 : M PUnit) s = .ok r ↔ r = (⟨⟩, s0) := by
  show Except.ok (PUnit.unit, s0) = Except.ok r ↔ _
  constructor <;> intro h <;> simp_all

@[simp] theorem M.set_err (s0 s : Ctx) (e : Outcome) : (set s0 : M PUnit) s = .error e ↔ False := by
  show Except.ok (PUnit.unit, s0) = Except.error e ↔ _
  simp

@[simp] theorem M.modify_ok (f : Ctx → Ctx) (s : Ctx) (r : PUnit × Ctx) :
    (modify f : M PUnit) s = .ok r ↔ r = (⟨⟩, f s) := by
  show Except.ok (PUnit.unit, f s) = Except.ok r ↔ _
  constructor <;> intro h <;> simp_all

@[simp] theorem M.modify_err (f : Ctx → Ctx) (s : Ctx) (e : Outcome) :
    (modify f : M PUnit) s = .error e ↔ False := by
  show Except.ok (PUnit.unit, f s) = Except.error e ↔ _
  simp

@[simp] theorem M.throw_ok {α} (o : Outcome) (s : Ctx) (r : α × Ctx) :
    (throw o : M α) s = .ok r ↔ False := by
  show Except.error _ = Except.ok r ↔ _
  simp

@[simp] theorem M.throw_err {α} (o : Outcome) (s : Ctx) (e : Outcome) :
    (throw o : M α) s = .error e ↔ e = o := by
  show Except.error o = Except.error e ↔ _
  constructor <;> intro h <;> simp_all

@[simp] theorem M.fail_ok {α} (site : String) (s : Ctx) (r : α × Ctx) :
    (fail site : M α) s = .ok r ↔ False := by
  unfold fail; simp

@[simp] theorem M.fail_err {α} (site : String) (s : Ctx) (e : Outcome) :
    (fail site : M α) s = .error e ↔ e = .panic site := by
  unfold fail; simp

@[simp] theorem exists2_eq {α β : Type} {a0 : α} {b0 : β} {Q : α → β → Prop} :
    (∃ a b, (a = a0 ∧ b = b0) ∧ Q a b) ↔ Q a0 b0 := by
  constructor
  · rintro ⟨_, _, ⟨rfl, rfl⟩, h⟩; exact h
  · intro h; exact ⟨a0, b0, ⟨rfl, rfl⟩, h⟩

@[simp] theorem M.get_bind_ok {β} (f : Ctx → M β) (s : Ctx) (r : β × Ctx) :
    (get >>= f) s = .ok r ↔ f s s = .ok r := by
  rw [M.bind_ok]; simp

@[simp] theorem M.get_bind_err {β} (f : Ctx → M β) (s : Ctx) (e : Outcome) :
    (get >>= f) s = .error e ↔ f s s = .error e := by
  rw [M.bind_err]; simp

@[simp] theorem M.set_bind_ok {β} (s0 : Ctx) (f : PUnit → M β) (s : Ctx) (r : β × Ctx) :
    (set s0 >>= f) s = .ok r ↔ f ⟨⟩ s0 = .ok r := by
  rw [M.bind_ok]; simp
  exact ⟨fun ⟨⟨⟩, h⟩ => h, fun h => ⟨⟨⟩, h⟩⟩

@[simp] theorem M.set_bind_err {β} (s0 : Ctx) (f : PUnit → M β) (s : Ctx) (e : Outcome) :
    (set s0 >>= f) s = .error e ↔ f ⟨⟩ s0 = .error e := by
  rw [M.bind_err]; simp
  exact ⟨fun ⟨⟨⟩, h⟩ => h, fun h => ⟨⟨⟩, h⟩⟩

@[simp] theorem M.modify_bind_ok {β} (g : Ctx → Ctx) (f : PUnit → M β) (s : Ctx) (r : β × Ctx) :
    (modify g >>= f) s = .ok r ↔ f ⟨⟩ (g s) = .ok r := by
  rw [M.bind_ok]; simp
  exact ⟨fun ⟨⟨⟩, h⟩ => h, fun h => ⟨⟨⟩, h⟩⟩

@[simp] theorem M.pure_bind_ok {α β} (a : α) (f : α → M β) (s : Ctx) (r : β × Ctx) :
    (pure a >>= f) s = .ok r ↔ f a s = .ok r := by
  rw [M.bind_ok]; simp

/-! ### the relation -/

/-- table part of `Ext` -/
structure SymExt (t t' : SymTab) : Prop where
  /-- scopes below the current one are untouched -/
  tail : t'.stack.tail = t.stack.tail
  len : t'.stack.length = t.stack.length
  /-- the current scope kept its kind; its entries are a suffix of the new entries -/
  head : ∀ top ∈ t.stack.head?, ∃ top' ∈ t'.stack.head?, top'.kind = top.kind ∧ top.tab <:+ top'.tab
  /-- the symbol vector only grows -/
  all : t.all <+: t'.all
  /-- the C19 invariant is preserved -/
  inv : C19.Inv t → C19.Inv t'

theorem SymExt.refl (t : SymTab) : SymExt t t :=
  ⟨rfl, rfl, fun top h => ⟨top, h, rfl, List.suffix_refl _⟩, List.prefix_refl _, id⟩

theorem SymExt.trans {a b c : SymTab} (h1 : SymExt a b) (h2 : SymExt b c) : SymExt a c := by
  refine ⟨h2.tail.trans h1.tail, h2.len.trans h1.len, ?_, h1.all.trans h2.all, h2.inv ∘ h1.inv⟩
  intro top ht
  obtain ⟨top1, ht1, hk1, hs1⟩ := h1.head top ht
  obtain ⟨top2, ht2, hk2, hs2⟩ := h2.head top1 ht1
  exact ⟨top2, ht2, hk2.trans hk1, hs1.trans hs2⟩

/-- the stacks are equal: the strongest form of the frame clauses -/
theorem SymExt.of_stack_eq {t t' : SymTab} (hs : t'.stack = t.stack) (ha : t.all <+: t'.all)
    (hi : C19.Inv t → C19.Inv t') : SymExt t t' := by
  refine ⟨by rw [hs], by rw [hs], ?_, ha, hi⟩
  intro top h
  exact ⟨top, by rw [hs]; exact h, rfl, List.suffix_refl _⟩

/-- **the relational post-condition of every analysis function** -/
structure Ext (s s' : Ctx) : Prop where
  sym : SymExt s.symbolTable s'.symbolTable
  /-- diagnostics are only appended -/
  errs : s.semanticErrors <+: s'.semanticErrors

theorem Ext.refl (s : Ctx) : Ext s s := ⟨SymExt.refl _, List.prefix_refl _⟩

theorem Ext.trans {a b c : Ctx} (h1 : Ext a b) (h2 : Ext b c) : Ext a c :=
  ⟨h1.sym.trans h2.sym, h1.errs.trans h2.errs⟩

/-- every successful run of `x` is related by `Ext` -/
structure Pres {α} (x : M α) : Prop where
  run : ∀ s r, x s = .ok r → Ext s r.2

theorem Pres.bind {α β} {x : M α} {f : α → M β} (hx : Pres x) (hf : ∀ a, Pres (f a)) :
    Pres (x >>= f) := by
  refine ⟨fun s r h => ?_⟩
  obtain ⟨a, s1, h1, h2⟩ := (M.bind_ok x f s r).mp h
  exact (hx.run s (a, s1) h1).trans ((hf a).run s1 r h2)

theorem Pres.pure {α} (a : α) : Pres (pure a : M α) := by
  refine ⟨fun s r h => ?_⟩; simp at h; subst h; exact Ext.refl _

theorem Pres.fail {α} (site : String) : Pres (fail site : M α) := by
  refine ⟨fun s r h => ?_⟩; simp at h

theorem Pres.throw {α} (o : Outcome) : Pres (throw o : M α) := by
  refine ⟨fun s r h => ?_⟩; simp at h

theorem Pres.ite {α} (c : Prop) [Decidable c] {x y : M α} (hx : Pres x) (hy : Pres y) :
    Pres (if c then x else y) := by
  split <;> assumption

/-- a computation that never changes the state on success -/
def ReadOnly {α} (x : M α) : Prop := ∀ s r, x s = .ok r → r.2 = s

theorem ReadOnly.pres {α} {x : M α} (h : ReadOnly x) : Pres x := by
  refine ⟨fun s r hr => ?_⟩; rw [h s r hr]; exact Ext.refl _

/-! ### failing runs -/

/-- the admissible failures: a panic at a site of `sites`, fuel exhaustion, unsupported include -/
def OkOutcome (sites : List String) : Outcome → Prop
  | .panic site => site ∈ sites
  | .unsupportedInclude => True
  | .fuel => True

/-- every failing run of `x` ends in an admissible outcome -/
structure PresE (sites : List String) {α} (x : M α) : Prop where
  run : ∀ s e, x s = .error e → OkOutcome sites e

theorem PresE.bind {sites} {α β} {x : M α} {f : α → M β} (hx : PresE sites x)
    (hf : ∀ a, PresE sites (f a)) : PresE sites (x >>= f) := by
  refine ⟨fun s e h => ?_⟩
  rcases (M.bind_err x f s e).mp h with h | ⟨a, s1, _, h2⟩
  · exact hx.run s e h
  · exact (hf a).run s1 e h2

theorem PresE.pure {sites} {α} (a : α) : PresE sites (pure a : M α) := by
  refine ⟨fun s e h => ?_⟩; simp at h

theorem PresE.fail {sites} {α} (site : String) (h : site ∈ sites) :
    PresE sites (fail site : M α) := by
  refine ⟨fun s e he => ?_⟩; simp at he; subst he; exact h

theorem PresE.throw_fuel {sites} {α} : PresE sites (throw Outcome.fuel : M α) := by
  refine ⟨fun s e he => ?_⟩; simp at he; subst he; trivial

theorem PresE.throw_include {sites} {α} : PresE sites (throw Outcome.unsupportedInclude : M α) := by
  refine ⟨fun s e he => ?_⟩; simp at he; subst he; trivial

theorem PresE.ite {sites} {α} (c : Prop) [Decidable c] {x y : M α} (hx : PresE sites x)
    (hy : PresE sites y) : PresE sites (if c then x else y) := by
  split <;> assumption

/-- a computation that never fails -/
def Total {α} (x : M α) : Prop := ∀ s e, x s = .error e → False

theorem Total.presE {sites} {α} {x : M α} (h : Total x) : PresE sites x :=
  ⟨fun s e he => (h s e he).elim⟩

/-! ### primitives of `SemaCtx.lean` -/

theorem unwrap_pres {α} (site : String) (o : Option α) : Pres (unwrap site o) := by
  cases o <;> unfold unwrap
  · exact Pres.fail _
  · exact Pres.pure _

theorem unwrap_presE {sites} {α} (site : String) (o : Option α) (h : site ∈ sites) :
    PresE sites (unwrap site o) := by
  cases o <;> unfold unwrap
  · exact PresE.fail _ h
  · exact PresE.pure _

theorem unwrap_ok {α} (site : String) (o : Option α) (s : Ctx) (r : α × Ctx) :
    unwrap site o s = .ok r ↔ o = some r.1 ∧ r.2 = s := by
  cases o <;> unfold unwrap
  · simp
  · simp only [M.pure_ok, Option.some.injEq]
    constructor
    · rintro rfl; exact ⟨rfl, rfl⟩
    · rintro ⟨h1, h2⟩; cases r; simp_all

theorem insertError_ok (k : SemanticErrorKind) (node : Ast.Span) (s : Ctx) (r : Unit × Ctx) :
    insertError k node s = .ok r ↔
      r = ((), { s with semanticErrors := s.semanticErrors ++ [⟨k, node.start, node.stop⟩] }) := by
  unfold insertError; simp

theorem insertError_pres (k : SemanticErrorKind) (node : Ast.Span) : Pres (insertError k node) := by
  refine ⟨fun s r h => ?_⟩
  rw [insertError_ok] at h; subst h
  exact ⟨SymExt.refl _, List.prefix_append _ _⟩

theorem insertError_total (k : SemanticErrorKind) (node : Ast.Span) : Total (insertError k node) := by
  intro s e h; unfold insertError at h; simp at h

/-- a successful `symStep` is one `SymTab.step` that did not answer `panic` -/
theorem symStep_ok (site : String) (op : Op) (s : Ctx) (r : Out × Ctx) :
    symStep site op s = .ok r ↔
      (s.symbolTable.step op).2 ≠ .panic ∧
      r = ((s.symbolTable.step op).2, { s with symbolTable := (s.symbolTable.step op).1 }) := by
  unfold symStep
  simp only [M.get_bind_ok]
  cases h : (s.symbolTable.step op).2 <;>
    simp only [M.fail_ok, M.set_bind_ok, M.pure_ok, ne_eq, reduceCtorEq, not_false_eq_true,
      not_true_eq_false, true_and, false_and]

theorem symStep_err (site : String) (op : Op) (s : Ctx) (e : Outcome) :
    symStep site op s = .error e → e = .panic site := by
  unfold symStep
  simp only [M.get_bind_err]
  cases h : (s.symbolTable.step op).2 <;> simp [M.map_err]

theorem symStep_presE {sites} (site : String) (op : Op) (h : site ∈ sites) :
    PresE sites (symStep site op) :=
  ⟨fun s e he => by rw [symStep_err site op s e he]; exact h⟩

/-- `bind` and `lookup` steps satisfy the table relation -/
theorem symExt_step_bind (t : SymTab) (n : Name) (ty : T) : SymExt t (t.step (.bind n ty)).1 := by
  have hinv := C19.inv_step t (.bind n ty)
  have hall := C19.all_prefix_step t (.bind n ty)
  cases hst : t.stack with
  | nil =>
    have : (t.step (.bind n ty)).1 = t := by simp [SymTab.step, hst]
    rw [this]; exact SymExt.refl _
  | cons s rest =>
    cases hg : s.get n with
    | some id =>
      have : (t.step (.bind n ty)).1 = t := by simp [SymTab.step, hst, Scope.containsName, hg]
      rw [this]; exact SymExt.refl _
    | none =>
      have : (t.step (.bind n ty)).1 =
          { stack := s.insert n t.counter :: rest, all := t.all ++ [⟨n, ty⟩],
            counter := t.counter + 1 } := by
        simp [SymTab.step, hst, Scope.containsName, hg, SymTab.newBindingNoCheck]
      rw [this] at hinv hall ⊢
      refine ⟨by simp [hst], by simp [hst], ?_, hall, hinv⟩
      intro top htop
      simp only [hst, List.head?_cons, Option.mem_def, Option.some.injEq] at htop
      subst htop
      refine ⟨s.insert n t.counter, by simp, ?_, ?_⟩
      · simp [Scope.insert]
      · rw [C19.insert_fresh s n _ hg]; exact List.suffix_cons _ _

theorem step_lookup_state (t : SymTab) (n : Name) : (t.step (.lookup n)).1 = t := by
  simp only [SymTab.step]; (repeat' split) <;> rfl

theorem newBinding_pres (name : String) (typ : T) (node : Ast.Span) :
    Pres (newBinding name typ node) := by
  refine ⟨fun s r h => ?_⟩
  unfold newBinding at h
  obtain ⟨out, s1, h1, h2⟩ := (M.bind_ok _ _ s r).mp h
  obtain ⟨_, hs1⟩ := (symStep_ok _ _ _ _).mp h1
  simp only [Prod.mk.injEq] at hs1
  obtain ⟨_, rfl⟩ := hs1
  have hsym : SymExt s.symbolTable (s.symbolTable.step (.bind name typ)).1 := symExt_step_bind _ _ _
  cases out <;> simp only [M.fail_ok, M.pure_ok] at h2
  · subst h2; exact ⟨hsym, List.prefix_refl _⟩
  · obtain ⟨_, s2, h3, h4⟩ := (M.bind_ok _ _ _ r).mp h2
    rw [insertError_ok] at h3
    simp only [Prod.mk.injEq] at h3
    obtain ⟨_, rfl⟩ := h3
    simp at h4; subst h4
    exact ⟨hsym, List.prefix_append _ _⟩

theorem tableLookup_readOnly (name : String) : ReadOnly (tableLookup name) := by
  intro s r h
  unfold tableLookup at h
  obtain ⟨out, s1, h1, h2⟩ := (M.bind_ok _ _ s r).mp h
  obtain ⟨_, hs1⟩ := (symStep_ok _ _ _ _).mp h1
  simp only [Prod.mk.injEq] at hs1
  obtain ⟨_, rfl⟩ := hs1
  rw [step_lookup_state] at h2
  cases out <;> simp only [M.fail_ok, M.pure_ok] at h2 <;> subst h2 <;> rfl

theorem currentScopeType_readOnly : ReadOnly currentScopeType := by
  intro s r h
  unfold currentScopeType at h
  simp only [M.get_bind_ok] at h
  cases hst : s.symbolTable.stack <;> simp only [hst, M.fail_ok, M.pure_ok] at h
  subst h; rfl

theorem currentScopeType_presE {sites} (h : "current_scope: no scope" ∈ sites) :
    PresE sites currentScopeType := by
  refine ⟨fun s e he => ?_⟩
  unfold currentScopeType at he
  simp only [M.get_bind_err] at he
  cases hst : s.symbolTable.stack <;> simp only [hst, M.fail_err, M.pure_err] at he
  subst he; exact h

theorem insertConstValue_pres (id : Nat) (v : TExpr) : Pres (insertConstValue id v) := by
  refine ⟨fun s r h => ?_⟩
  unfold insertConstValue at h; simp at h; subst h
  exact ⟨SymExt.refl _, List.prefix_refl _⟩

theorem insertConstValue_total (id : Nat) (v : TExpr) : Total (insertConstValue id v) := by
  intro s e h; unfold insertConstValue at h; simp at h

theorem getConstValue_readOnly (id : Nat) : ReadOnly (getConstValue id) := by
  intro s r h
  unfold getConstValue at h
  simp only [M.get_bind_ok, M.pure_ok] at h
  subst h; rfl

theorem getConstValue_total (id : Nat) : Total (getConstValue id) := by
  intro s e h; unfold getConstValue at h; simp [M.map_err] at h

theorem pushAnnotation_pres (a : String) : Pres (pushAnnotation a) := by
  refine ⟨fun s r h => ?_⟩
  unfold pushAnnotation at h; simp at h; subst h
  exact ⟨SymExt.refl _, List.prefix_refl _⟩

theorem pushAnnotation_total (a : String) : Total (pushAnnotation a) := by
  intro s e h; unfold pushAnnotation at h; simp at h

theorem annotationsIsEmpty_readOnly : ReadOnly annotationsIsEmpty := by
  intro s r h
  unfold annotationsIsEmpty at h
  simp only [M.get_bind_ok, M.pure_ok] at h
  subst h; rfl

theorem annotationsIsEmpty_total : Total annotationsIsEmpty := by
  intro s e h; unfold annotationsIsEmpty at h; simp [M.map_err] at h

theorem takeAnnotations_pres : Pres takeAnnotations := by
  refine ⟨fun s r h => ?_⟩
  unfold takeAnnotations at h
  simp only [M.get_bind_ok, M.set_bind_ok, M.pure_ok] at h
  subst h
  exact ⟨SymExt.refl _, List.prefix_refl _⟩

theorem takeAnnotations_total : Total takeAnnotations := by
  intro s e h; unfold takeAnnotations at h
  simp [M.get_bind_err, M.map_err] at h

theorem insertStmt_pres (st : Stmt) : Pres (insertStmt st) := by
  refine ⟨fun s r h => ?_⟩
  unfold insertStmt at h; simp at h; subst h
  exact ⟨SymExt.refl _, List.prefix_refl _⟩

theorem insertStmt_total (st : Stmt) : Total (insertStmt st) := by
  intro s e h; unfold insertStmt at h; simp at h

/-- `with_scope!`: whatever the body does to the scope it runs in disappears with that scope; the
table afterwards has *exactly* the stack it had before -/
theorem withScope_stack {α} (k : ScopeType) (body : M α) (hb : Pres body) (s : Ctx) (r : α × Ctx)
    (h : withScope k body s = .ok r) :
    r.2.symbolTable.stack = s.symbolTable.stack ∧ s.symbolTable.all <+: r.2.symbolTable.all ∧
      s.semanticErrors <+: r.2.semanticErrors ∧
      (C19.Inv s.symbolTable → C19.Inv r.2.symbolTable) := by
  unfold withScope at h
  obtain ⟨_, s1, h1, h⟩ := (M.bind_ok _ _ s r).mp h
  obtain ⟨a, s2, h2, h⟩ := (M.bind_ok _ _ s1 r).mp h
  obtain ⟨_, s3, h3, h⟩ := (M.bind_ok _ _ s2 r).mp h
  simp only [M.pure_ok] at h; subst h
  -- enter
  unfold enterScope at h1
  obtain ⟨o1, s1', h1a, h1b⟩ := (M.bind_ok _ _ s _).mp h1
  simp only [M.pure_ok, Prod.mk.injEq] at h1b
  obtain ⟨_, rfl⟩ := h1b
  obtain ⟨hne1, hs1⟩ := (symStep_ok _ _ _ _).mp h1a
  simp only [Prod.mk.injEq] at hs1
  obtain ⟨_, rfl⟩ := hs1
  have hstack1 : (s.symbolTable.step (.enter k)).1.stack = ⟨[], k⟩ :: s.symbolTable.stack := by
    simp only [SymTab.step] at hne1 ⊢
    split
    · rename_i hc; simp [hc] at hne1
    · rfl
  have hall1 : (s.symbolTable.step (.enter k)).1.all = s.symbolTable.all := by
    simp only [SymTab.step]; split <;> rfl
  -- body
  have hE := hb.run _ _ h2
  -- exit
  unfold exitScope at h3
  obtain ⟨o3, s3', h3a, h3b⟩ := (M.bind_ok _ _ s2 _).mp h3
  simp only [M.pure_ok, Prod.mk.injEq] at h3b
  obtain ⟨_, rfl⟩ := h3b
  obtain ⟨hne3, hs3⟩ := (symStep_ok _ _ _ _).mp h3a
  simp only [Prod.mk.injEq] at hs3
  obtain ⟨_, rfl⟩ := hs3
  have hlen2 : s2.symbolTable.stack.length > 1 := by
    simp only [SymTab.step] at hne3
    split at hne3
    · assumption
    · simp at hne3
  have hstack3 : (s2.symbolTable.step .exit).1.stack = s2.symbolTable.stack.tail :=
    C19.step_exit_stack _ hlen2
  have hall3 : (s2.symbolTable.step .exit).1.all = s2.symbolTable.all := by
    simp only [SymTab.step]; split <;> rfl
  refine ⟨?_, ?_, ?_, ?_⟩
  · show (s2.symbolTable.step .exit).1.stack = _
    rw [hstack3, hE.sym.tail]
    show ((s.symbolTable.step (.enter k)).1).stack.tail = _
    rw [hstack1]; rfl
  · show s.symbolTable.all <+: (s2.symbolTable.step .exit).1.all
    rw [hall3, ← hall1]; exact hE.sym.all
  · exact hE.errs
  · intro hi
    exact C19.inv_step _ _ (hE.sym.inv (C19.inv_step _ _ hi))

theorem withScope_pres {α} (k : ScopeType) (body : M α) (hb : Pres body) :
    Pres (withScope k body) := by
  refine ⟨fun s r h => ?_⟩
  obtain ⟨h1, h2, h3, h4⟩ := withScope_stack k body hb s r h
  exact ⟨SymExt.of_stack_eq h1 h2 h4, h3⟩

theorem withScope_presE {sites} {α} (k : ScopeType) (body : M α) (hb : PresE sites body)
    (h1 : "enter_scope: the unique global scope must be the first scope" ∈ sites)
    (h2 : "exit_scope: assertion failed (exiting the global scope)" ∈ sites) :
    PresE sites (withScope k body) := by
  unfold withScope enterScope exitScope
  refine PresE.bind (PresE.bind (symStep_presE _ _ h1) (fun _ => PresE.pure _)) (fun _ => ?_)
  refine PresE.bind hb (fun _ => ?_)
  exact PresE.bind (PresE.bind (symStep_presE _ _ h2) (fun _ => PresE.pure _)) (fun _ => PresE.pure _)

/-- `standard_library_gates`: a fold of `bind` steps -/
theorem symExt_foldl_bind (gs : List (Name × Nat × Nat)) (acc : SymTab × List Name) :
    SymExt acc.1 (gs.foldl (fun (acc : SymTab × List Name) (g : Name × Nat × Nat) =>
      match acc.1.step (.bind g.1 (T.gate g.2.1 g.2.2)) with
      | (t', .bound _) => (t', acc.2)
      | (t', _) => (t', acc.2 ++ [g.1])) acc).1 := by
  induction gs generalizing acc with
  | nil => exact SymExt.refl _
  | cons g gs ih =>
    simp only [List.foldl_cons]
    refine SymExt.trans ?_ (ih _)
    have := symExt_step_bind acc.1 g.1 (T.gate g.2.1 g.2.2)
    split <;> rename_i heq <;> (have h1 := congrArg Prod.fst heq; simp only at h1; rw [← h1]; exact this)

theorem redeclLoop_pres (node : Ast.Span) (ns : List String) : Pres (redeclLoop node ns) := by
  induction ns with
  | nil => unfold redeclLoop; exact Pres.pure _
  | cons n ns ih => unfold redeclLoop; exact Pres.bind (insertError_pres _ _) (fun _ => ih)

theorem redeclLoop_total (node : Ast.Span) (ns : List String) : Total (redeclLoop node ns) := by
  induction ns with
  | nil => intro s e h; unfold redeclLoop at h; simp at h
  | cons n ns ih =>
    intro s e h; unfold redeclLoop at h
    rcases (M.bind_err _ _ s e).mp h with h | ⟨_, s1, _, h⟩
    · exact insertError_total _ _ s e h
    · exact ih s1 e h

theorem symExt_standardLibraryGates (t : SymTab) : SymExt t t.standardLibraryGates.1 := by
  unfold SymTab.standardLibraryGates
  generalize stdGates = gs
  exact symExt_foldl_bind gs (t, [])

attribute [local irreducible] SymTab.standardLibraryGates in
theorem standardLibraryGates_pres (node : Ast.Span) : Pres (standardLibraryGates node) := by
  refine ⟨fun s r h => ?_⟩
  unfold standardLibraryGates at h
  simp only [M.get_bind_ok, M.set_bind_ok] at h
  have h2 := (redeclLoop_pres node _).run _ _ h
  have h1 : Ext s { s with symbolTable := s.symbolTable.standardLibraryGates.1 } :=
    ⟨symExt_standardLibraryGates _, List.prefix_refl _⟩
  exact h1.trans h2

attribute [local irreducible] SymTab.standardLibraryGates in
theorem standardLibraryGates_total (node : Ast.Span) : Total (standardLibraryGates node) := by
  intro s e h
  unfold standardLibraryGates at h
  simp only [M.get_bind_err, M.set_bind_err] at h
  exact redeclLoop_total _ _ _ e h

end Oq3.Sema
