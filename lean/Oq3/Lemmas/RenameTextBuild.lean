/-
C17 (renaming through lexer and parser) — the typed-accessor layer commutes with renaming:

  `Build.program (mapC (phi ρ) t) = (Build.program t).map (renameAst ρ)`     (`program_rename`)

for every tree `t` that satisfies the side condition `renOk ρ` of `Lemmas/RenameTextAcc.lean`
(below the root).  `mapC (phi ρ)` applies `ρ` to the text of every `IDENT` token; `renameAst ρ`
(`Props/C17Rename.lean`) applies `ρ` to every name of the typed AST.  Proof: every accessor
commutes with `mapC (phi ρ)` (`Lemmas/RenameTextAcc.lean`); the 25 mutually recursive `Build`
functions by induction on the fuel, one `step_*` lemma each — the scheme of `Lemmas/AccLayout.lean`
(accessors are blind to trivia and ranges), with `eraseTrivia` replaced by the renaming.
-/
import Oq3.Lemmas.RenameTextAcc
import Oq3.Lemmas.AccLayout

namespace Oq3.RenameText
open Oq3.Gen Oq3.Acc Oq3.C17Rename
open Oq3.C17Layout (child_kind children_kind condition_mem assign_rhs_mem range_mem call_identifier_mem
  gate_params_mem bosNode then_block_mem else_block_mem if_true_body_mem if_false_body_mem
  while_body_mem for_body_mem)

variable {ρ : Ren}

local notation "R" => mapC (phi ρ)

/-! ### generic lemmas for `optM` / `listM` -/

theorem optM_R {α : Type} {f : CNode → BM α} {er : α → α} (n : CNode) (o : Option CNode)
    (hn : renOk ρ n = true) (hm : ∀ c, o = some c → c ∈ n.children)
    (ih : ∀ c, renOk ρ c = true → f (R c) = (f c).map er) :
    Build.optM f (o.map R) = (Build.optM f o).map (Option.map er) := by
  cases o with
  | none => rfl
  | some c =>
    simp only [Option.map_some, Build.optM]
    rw [ih c (renOk_children hn (hm c rfl))]
    cases f c <;> rfl

/-- the same for `support.child`, passing the kind of the child to the callee -/
theorem optM_RK {α : Type} {f : CNode → BM α} {er : α → α} (can : SyntaxKind → Bool) (n : CNode)
    (hn : renOk ρ n = true)
    (ih : ∀ c, renOk ρ c = true → can c.kind = true → f (R c) = (f c).map er) :
    Build.optM f ((support.child can n).map R) = (Build.optM f (support.child can n)).map (Option.map er) := by
  cases h : support.child can n with
  | none => rfl
  | some c =>
    simp only [Option.map_some, Build.optM]
    rw [ih c (renOk_children hn (child_supp_mem h)) (child_kind h)]
    cases f c <;> rfl

theorem listM_R {α : Type} {f : CNode → BM α} {er : α → α} (n : CNode) (l : List CNode)
    (hn : renOk ρ n = true) (hm : ∀ c, c ∈ l → c ∈ n.children)
    (ih : ∀ c, renOk ρ c = true → f (R c) = (f c).map er) :
    Build.listM f (l.map R) = (Build.listM f l).map (List.map er) := by
  induction l with
  | nil => rfl
  | cons c cs ihl =>
    simp only [List.map_cons, Build.listM]
    rw [ih c (renOk_children hn (hm c List.mem_cons_self)),
      ihl (fun d hd => hm d (List.mem_cons_of_mem _ hd))]
    cases f c with
    | error e => rfl
    | ok a => cases Build.listM f cs <;> rfl

theorem listM_RK {α : Type} {f : CNode → BM α} {er : α → α} (P : CNode → Prop) (n : CNode) (l : List CNode)
    (hn : renOk ρ n = true) (hm : ∀ c, c ∈ l → c ∈ n.children ∧ P c)
    (ih : ∀ c, renOk ρ c = true → P c → f (R c) = (f c).map er) :
    Build.listM f (l.map R) = (Build.listM f l).map (List.map er) := by
  induction l with
  | nil => rfl
  | cons c cs ihl =>
    simp only [List.map_cons, Build.listM]
    rw [ih c (renOk_children hn (hm c List.mem_cons_self).1) (hm c List.mem_cons_self).2,
      ihl (fun d hd => hm d (List.mem_cons_of_mem _ hd))]
    cases f c with
    | error e => rfl
    | ok a => cases Build.listM f cs <;> rfl

theorem isSome_child_R (can : SyntaxKind → Bool) (n : CNode) :
    (support.child can (R n)).isSome = (support.child can n).isSome := by
  rw [child_supp_R, Option.isSome_map]

/-! ### leaves -/

theorem nameHead {n : CNode} (hn : renOk ρ n = true)
    (hk : n.kind = .NAME ∨ n.kind = .IDENTIFIER ∨ n.kind = .PARAM) :
    ∀ k t, headTok n = some (k, t) → (k == SyntaxKind.IDENT || fixes ρ t) = true := by
  have hl := renOk_local hn
  unfold localOk at hl
  intro k t h
  rcases hk with hk | hk | hk <;> rw [hk] at hl <;> simp only [h] at hl <;> exact hl

theorem fixHead {n : CNode} (hn : renOk ρ n = true)
    (hk : n.kind = .HARDWARE_QUBIT ∨ n.kind = .PRAGMA_STATEMENT ∨ n.kind = .ANNOTATION_STATEMENT) :
    ∀ k t, headTok n = some (k, t) → (k != SyntaxKind.IDENT || fixes ρ t) = true := by
  have hl := renOk_local hn
  unfold localOk at hl
  intro k t h
  rcases hk with hk | hk | hk <;> rw [hk] at hl <;> simp only [h] at hl <;> exact hl

theorem name_R {n : CNode} (hn : renOk ρ n = true) (hk : Name.canCast n.kind = true) :
    Build.name (R n) = (Build.name n).map (rnName ρ) := by
  have hk' : n.kind = .NAME := by simpa [Name.canCast] using hk
  unfold Build.name
  rw [text_R_name (nameHead hn (Or.inl hk')), span_R]
  cases Build.text n <;> rfl

theorem identifier_R {n : CNode} (hn : renOk ρ n = true) (hk : Identifier.canCast n.kind = true) :
    Build.identifier (R n) = (Build.identifier n).map (rnIdent ρ) := by
  have hk' : n.kind = .IDENTIFIER := by simpa [Identifier.canCast] using hk
  unfold Build.identifier
  rw [text_R_name (nameHead hn (Or.inr (Or.inl hk'))), span_R]
  cases Build.text n <;> rfl

theorem param_R {n : CNode} (hn : renOk ρ n = true) (hk : Param.canCast n.kind = true) :
    Build.param (R n) = (Build.param n).map (rnParam ρ) := by
  have hk' : n.kind = .PARAM := by simpa [Param.canCast] using hk
  unfold Build.param
  rw [text_R_name (nameHead hn (Or.inr (Or.inr hk'))), span_R]
  cases Build.text n <;> rfl

theorem build_text_R_fix {n : CNode}
    (h : ∀ k t, headTok n = some (k, t) → (k != SyntaxKind.IDENT || fixes ρ t) = true) :
    Build.text (R n) = Build.text n := by
  unfold Build.text HasTextNode.text; rw [textOfFirstToken_R_fix' h]

theorem hardwareQubit_R {n : CNode} (hn : renOk ρ n = true) (hk : HardwareQubit.canCast n.kind = true) :
    Build.hardwareQubit (R n) = (Build.hardwareQubit n).map id := by
  have hk' : n.kind = .HARDWARE_QUBIT := by simpa [HardwareQubit.canCast] using hk
  unfold Build.hardwareQubit
  rw [build_text_R_fix (fixHead hn (Or.inl hk')), span_R]
  cases Build.text n <;> rfl

theorem pragma_text_R {n : CNode}
    (h : ∀ k t, headTok n = some (k, t) → (k != SyntaxKind.IDENT || fixes ρ t) = true) :
    PragmaStatement.pragma_text (R n) = PragmaStatement.pragma_text n := by
  unfold PragmaStatement.pragma_text; rw [textOfFirstToken_R_fix' h]

theorem annotation_text_R {n : CNode}
    (h : ∀ k t, headTok n = some (k, t) → (k != SyntaxKind.IDENT || fixes ρ t) = true) :
    AnnotationStatement.annotation_text (R n) = AnnotationStatement.annotation_text n :=
  textOfFirstToken_R_fix' h

theorem paramList_R {n : CNode} (hn : renOk ρ n = true) :
    Build.paramList (R n) = (Build.paramList n).map (rnParamList ρ) := by
  unfold Build.paramList ParamList.params
  rw [children_supp_R, span_R,
    listM_RK (fun c => Param.canCast c.kind = true) n _ hn
      (fun c hc => ⟨children_supp_mem hc, children_kind hc⟩) (fun c h1 h2 => param_R h1 h2)]
  cases Build.listM Build.param (support.children Param.canCast n) <;> rfl

theorem literal_R (n : CNode) : Build.literal (R n) = (Build.literal n).map id := by
  unfold Build.literal
  rw [span_R]
  have := literal_kind_R (ρ := ρ) n
  cases h1 : Literal.kind (R n) <;> cases h2 : Literal.kind n <;> rw [h1, h2] at this <;>
    simp only [PRes.map, PRes.ok.injEq, reduceCtorEq] at this <;>
    simp [Build.ofPRes, Except.map, this]

/-- the identifier of a timing literal (the time unit) keeps its text -/
theorem timingHead {n : CNode} (hn : renOk ρ n = true) (hk : n.kind = .TIMING_LITERAL) {i : CNode}
    (hi : support.child Identifier.canCast n = some i) :
    ∀ k t, headTok i = some (k, t) → (k != SyntaxKind.IDENT || fixes ρ t) = true := by
  have hl := renOk_local hn
  unfold localOk at hl
  rw [hk] at hl
  simp only [hi] at hl
  intro k t h
  simp only [h] at hl
  simp [hl]

theorem time_unit_R {n : CNode} (hn : renOk ρ n = true) (hk : n.kind = .TIMING_LITERAL) :
    TimingLiteral.time_unit (R n) = TimingLiteral.time_unit n := by
  unfold TimingLiteral.time_unit TimingLiteral.identifier
  rw [child_supp_R]
  cases h : support.child Identifier.canCast n with
  | none => rfl
  | some i =>
    simp only [Option.map_some]
    unfold HasTextNode.text
    rw [textOfFirstToken_R_fix' (timingHead hn hk h)]

theorem timingLiteral_R {n : CNode} (hn : renOk ρ n = true) (hk : n.kind = .TIMING_LITERAL) :
    Build.timingLiteral (R n) = (Build.timingLiteral n).map (rnExpr ρ) := by
  unfold Build.timingLiteral TimingLiteral.identifier TimingLiteral.literal
  rw [time_unit_R hn hk, child_supp_R, child_supp_R, span_R]
  have e1 : Build.optM Build.text ((support.child Identifier.canCast n).map R) =
      Build.optM Build.text (support.child Identifier.canCast n) := by
    cases h : support.child Identifier.canCast n with
    | none => rfl
    | some i =>
      simp only [Option.map_some, Build.optM]
      rw [build_text_R_fix (timingHead hn hk h)]
  have e2 : Build.optM Build.literal ((support.child Literal.canCast n).map R) =
      Build.optM Build.literal (support.child Literal.canCast n) := by
    cases h : support.child Literal.canCast n with
    | none => rfl
    | some l =>
      simp only [Option.map_some, Build.optM]
      rw [literal_R]
      cases Build.literal l <;> rfl
  rw [e1, e2]
  cases Build.ofPRes (TimingLiteral.time_unit n) <;>
  cases Build.optM Build.text (support.child Identifier.canCast n) <;>
  cases Build.optM Build.literal (support.child Literal.canCast n) <;>
    simp [Except.map, rnExpr]

theorem filePath_R (n : CNode) : Build.filePath (R n) = (Build.filePath n).map id := by
  unfold Build.filePath
  rw [file_to_string_R, span_R]
  cases Build.ofPRes (FilePath.to_string n) <;> rfl

/-! ### first mutual block -/

variable (ρ) in
structure IH1 (fuel : Nat) : Prop where
  expr : ∀ n, renOk ρ n = true → Build.expr fuel (R n) = (Build.expr fuel n).map (rnExpr ρ)
  designator : ∀ n, renOk ρ n = true → Build.designator fuel (R n) = (Build.designator fuel n).map (rnDesignator ρ)
  scalarType : ∀ n, renOk ρ n = true → Build.scalarType fuel (R n) = (Build.scalarType fuel n).map (rnScalarType ρ)
  expressionList : ∀ n, renOk ρ n = true →
    Build.expressionList fuel (R n) = (Build.expressionList fuel n).map (rnExprList ρ)
  setExpression : ∀ n, renOk ρ n = true → Build.setExpression fuel (R n) = (Build.setExpression fuel n).map (rnSet ρ)
  rangeExpr : ∀ n, renOk ρ n = true → Build.rangeExpr fuel (R n) = (Build.rangeExpr fuel n).map (rnRange ρ)
  indexOperator : ∀ n, renOk ρ n = true →
    Build.indexOperator fuel (R n) = (Build.indexOperator fuel n).map (rnIndexOp ρ)
  indexedIdentifier : ∀ n, renOk ρ n = true →
    Build.indexedIdentifier fuel (R n) = (Build.indexedIdentifier fuel n).map (rnIndexedIdent ρ)
  gateOperand : ∀ n, renOk ρ n = true → GateOperand.canCast n.kind = true →
    Build.gateOperand fuel (R n) = (Build.gateOperand fuel n).map (rnGateOperand ρ)
  qubitList : ∀ n, renOk ρ n = true → Build.qubitList fuel (R n) = (Build.qubitList fuel n).map (rnQubitList ρ)
  argList : ∀ n, renOk ρ n = true → Build.argList fuel (R n) = (Build.argList fuel n).map (rnArgList ρ)
  parenExpr : ∀ n, renOk ρ n = true → Build.parenExpr fuel (R n) = (Build.parenExpr fuel n).map (rnParen ρ)
  gateCallExpr : ∀ n, renOk ρ n = true →
    Build.gateCallExpr fuel (R n) = (Build.gateCallExpr fuel n).map (rnGateCall ρ)
  gPhaseCallExpr : ∀ n, renOk ρ n = true →
    Build.gPhaseCallExpr fuel (R n) = (Build.gPhaseCallExpr fuel n).map (rnGPhase ρ)
  modifier : ∀ n, renOk ρ n = true → Build.modifier fuel (R n) = (Build.modifier fuel n).map (rnModifier ρ)

variable {fuel : Nat}

theorem step_designator (ih : IH1 ρ fuel) (n : CNode) (hn : renOk ρ n = true) :
    Build.designator (fuel + 1) (R n) = (Build.designator (fuel + 1) n).map (rnDesignator ρ) := by
  unfold Build.designator Designator.expr
  rw [child_supp_R, optM_R n _ hn (fun c hc => child_supp_mem hc) ih.expr, span_R]
  cases Build.optM (Build.expr fuel) (support.child Expr.canCast n) <;>
    simp [Except.map, rnDesignator, rnOExpr_eq]

theorem step_scalarType (ih : IH1 ρ fuel) (n : CNode) (hn : renOk ρ n = true) :
    Build.scalarType (fuel + 1) (R n) = (Build.scalarType (fuel + 1) n).map (rnScalarType ρ) := by
  unfold Build.scalarType ScalarType.designator ScalarType.scalar_type
  rw [scalar_kind_R, child_supp_R, child_supp_R,
    optM_R n _ hn (fun c hc => child_supp_mem hc) ih.designator,
    optM_R n _ hn (fun c hc => child_supp_mem hc) ih.scalarType, span_R]
  cases Build.ofPRes (ScalarType.kind n) <;>
  cases Build.optM (Build.designator fuel) (support.child Designator.canCast n) <;>
  cases Build.optM (Build.scalarType fuel) (support.child ScalarType.canCast n) <;>
    simp [Except.map, rnScalarType, rnODesignator_eq, rnOScalarType_eq]

theorem step_expressionList (ih : IH1 ρ fuel) (n : CNode) (hn : renOk ρ n = true) :
    Build.expressionList (fuel + 1) (R n) = (Build.expressionList (fuel + 1) n).map (rnExprList ρ) := by
  unfold Build.expressionList ExpressionList.exprs
  rw [children_supp_R, listM_R n _ hn (fun c hc => children_supp_mem hc) ih.expr, span_R]
  cases Build.listM (Build.expr fuel) (support.children Expr.canCast n) <;>
    simp [Except.map, rnExprList, rnExprs_eq]

theorem step_setExpression (ih : IH1 ρ fuel) (n : CNode) (hn : renOk ρ n = true) :
    Build.setExpression (fuel + 1) (R n) = (Build.setExpression (fuel + 1) n).map (rnSet ρ) := by
  unfold Build.setExpression SetExpression.expression_list
  rw [child_supp_R, optM_R n _ hn (fun c hc => child_supp_mem hc) ih.expressionList, span_R]
  cases Build.optM (Build.expressionList fuel) (support.child ExpressionList.canCast n) <;>
    simp [Except.map, rnSet, rnOExprList_eq]

theorem step_rangeExpr (ih : IH1 ρ fuel) (n : CNode) (hn : renOk ρ n = true) :
    Build.rangeExpr (fuel + 1) (R n) = (Build.rangeExpr (fuel + 1) n).map (rnRange ρ) := by
  unfold Build.rangeExpr
  rw [range_sss_R]
  simp only
  rw [optM_R n _ hn (fun c hc => range_mem.1 hc) ih.expr,
    optM_R n _ hn (fun c hc => range_mem.2.1 hc) ih.expr,
    optM_R n _ hn (fun c hc => range_mem.2.2 hc) ih.expr, span_R]
  cases Build.optM (Build.expr fuel) (RangeExpr.start_step_stop n).1 <;>
  cases Build.optM (Build.expr fuel) (RangeExpr.start_step_stop n).2.1 <;>
  cases Build.optM (Build.expr fuel) (RangeExpr.start_step_stop n).2.2 <;>
    simp [Except.map, rnRange, rnOExpr_eq]

theorem indexKindOf_R (ih : IH1 ρ fuel) (n : CNode) (hn : renOk ρ n = true) :
    Build.indexKindOf (Build.setExpression fuel) (Build.expressionList fuel) (R n) =
      (Build.indexKindOf (Build.setExpression fuel) (Build.expressionList fuel) n).map (rnIndexKind ρ) := by
  unfold Build.indexKindOf
  rw [kind_R]
  split
  · rw [ih.setExpression n hn]; cases Build.setExpression fuel n <;> simp [Except.map, rnIndexKind]
  · rw [ih.expressionList n hn]; cases Build.expressionList fuel n <;> simp [Except.map, rnIndexKind]

theorem step_indexOperator (ih : IH1 ρ fuel) (n : CNode) (hn : renOk ρ n = true) :
    Build.indexOperator (fuel + 1) (R n) = (Build.indexOperator (fuel + 1) n).map (rnIndexOp ρ) := by
  unfold Build.indexOperator IndexOperator.index_kind
  rw [child_supp_R, optM_R n _ hn (fun c hc => child_supp_mem hc) (indexKindOf_R ih), span_R]
  cases Build.optM (Build.indexKindOf (Build.setExpression fuel) (Build.expressionList fuel))
      (support.child IndexKind.canCast n) <;>
    simp [Except.map, rnIndexOp, rnOIndexKind_eq]

theorem step_indexedIdentifier (ih : IH1 ρ fuel) (n : CNode) (hn : renOk ρ n = true) :
    Build.indexedIdentifier (fuel + 1) (R n) = (Build.indexedIdentifier (fuel + 1) n).map (rnIndexedIdent ρ) := by
  unfold Build.indexedIdentifier IndexedIdentifier.identifier IndexedIdentifier.index_operators
  rw [child_supp_R, children_supp_R,
    optM_RK Identifier.canCast n hn (fun c h1 h2 => identifier_R h1 h2),
    listM_R n _ hn (fun c hc => children_supp_mem hc) ih.indexOperator, span_R]
  cases Build.optM Build.identifier (support.child Identifier.canCast n) <;>
  cases Build.listM (Build.indexOperator fuel) (support.children IndexOperator.canCast n) <;>
    simp [Except.map, rnIndexedIdent, rnIndexOps_eq]

theorem step_gateOperand (ih : IH1 ρ fuel) (n : CNode) (hn : renOk ρ n = true)
    (hk : GateOperand.canCast n.kind = true) :
    Build.gateOperand (fuel + 1) (R n) = (Build.gateOperand (fuel + 1) n).map (rnGateOperand ρ) := by
  unfold Build.gateOperand
  rw [kind_R]
  split
  · rename_i h
    rw [hardwareQubit_R hn (by simpa [HardwareQubit.canCast] using h)]
    cases Build.hardwareQubit n <;> simp [Except.map, rnGateOperand]
  · split
    · rename_i h
      rw [identifier_R hn (by simpa [Identifier.canCast] using h)]
      cases Build.identifier n <;> simp [Except.map, rnGateOperand]
    · rw [ih.indexedIdentifier n hn]
      cases Build.indexedIdentifier fuel n <;> simp [Except.map, rnGateOperand]

theorem step_qubitList (ih : IH1 ρ fuel) (n : CNode) (hn : renOk ρ n = true) :
    Build.qubitList (fuel + 1) (R n) = (Build.qubitList (fuel + 1) n).map (rnQubitList ρ) := by
  unfold Build.qubitList QubitList.gate_operands
  rw [children_supp_R,
    listM_RK (fun c => GateOperand.canCast c.kind = true) n _ hn
      (fun c hc => ⟨children_supp_mem hc, children_kind hc⟩) ih.gateOperand, span_R]
  cases Build.listM (Build.gateOperand fuel) (support.children GateOperand.canCast n) <;>
    simp [Except.map, rnQubitList, rnGateOperands_eq]

theorem step_argList (ih : IH1 ρ fuel) (n : CNode) (hn : renOk ρ n = true) :
    Build.argList (fuel + 1) (R n) = (Build.argList (fuel + 1) n).map (rnArgList ρ) := by
  unfold Build.argList ArgList.expression_list
  rw [child_supp_R, optM_R n _ hn (fun c hc => child_supp_mem hc) ih.expressionList, span_R]
  cases Build.optM (Build.expressionList fuel) (support.child ExpressionList.canCast n) <;>
    simp [Except.map, rnArgList, rnOExprList_eq]

theorem step_parenExpr (ih : IH1 ρ fuel) (n : CNode) (hn : renOk ρ n = true) :
    Build.parenExpr (fuel + 1) (R n) = (Build.parenExpr (fuel + 1) n).map (rnParen ρ) := by
  unfold Build.parenExpr ParenExpr.expr
  rw [child_supp_R, optM_R n _ hn (fun c hc => child_supp_mem hc) ih.expr, span_R]
  cases Build.optM (Build.expr fuel) (support.child Expr.canCast n) <;>
    simp [Except.map, rnParen, rnOExpr_eq]

theorem optM_identifier_call (n : CNode) (hn : renOk ρ n = true) :
    Build.optM Build.identifier ((GateCallExpr.identifier n).map R) =
      (Build.optM Build.identifier (GateCallExpr.identifier n)).map (Option.map (rnIdent ρ)) := by
  cases h : GateCallExpr.identifier n with
  | none => rfl
  | some c =>
    obtain ⟨hm, hk⟩ := call_identifier_mem h
    simp only [Option.map_some, Build.optM]
    rw [identifier_R (renOk_children hn hm) hk]
    cases Build.identifier c <;> rfl

theorem step_gateCallExpr (ih : IH1 ρ fuel) (n : CNode) (hn : renOk ρ n = true) :
    Build.gateCallExpr (fuel + 1) (R n) = (Build.gateCallExpr (fuel + 1) n).map (rnGateCall ρ) := by
  unfold Build.gateCallExpr GateCallExpr.qubit_list GateCallExpr.arg_list
  rw [child_supp_R, child_supp_R, gate_call_identifier_R,
    optM_R n _ hn (fun c hc => child_supp_mem hc) ih.qubitList,
    optM_R n _ hn (fun c hc => child_supp_mem hc) ih.argList,
    optM_identifier_call n hn, span_R]
  cases Build.optM (Build.qubitList fuel) (support.child QubitList.canCast n) <;>
  cases Build.optM (Build.argList fuel) (support.child ArgList.canCast n) <;>
  cases Build.optM Build.identifier (GateCallExpr.identifier n) <;>
    simp [Except.map, rnGateCall, rnOQubitList_eq, rnOArgList_eq]

theorem step_gPhaseCallExpr (ih : IH1 ρ fuel) (n : CNode) (hn : renOk ρ n = true) :
    Build.gPhaseCallExpr (fuel + 1) (R n) = (Build.gPhaseCallExpr (fuel + 1) n).map (rnGPhase ρ) := by
  unfold Build.gPhaseCallExpr GPhaseCallExpr.arg
  rw [child_supp_R, optM_R n _ hn (fun c hc => child_supp_mem hc) ih.expr, span_R]
  cases Build.optM (Build.expr fuel) (support.child Expr.canCast n) <;>
    simp [Except.map, rnGPhase, rnOExpr_eq]

theorem step_modifier (ih : IH1 ρ fuel) (n : CNode) (hn : renOk ρ n = true) :
    Build.modifier (fuel + 1) (R n) = (Build.modifier (fuel + 1) n).map (rnModifier ρ) := by
  unfold Build.modifier PowModifier.paren_expr CtrlModifier.paren_expr NegCtrlModifier.paren_expr
  rw [kind_R, child_supp_R, optM_R n _ hn (fun c hc => child_supp_mem hc) ih.parenExpr, span_R]
  split
  · simp [Except.map, rnModifier]
  · split
    · cases Build.optM (Build.parenExpr fuel) (support.child ParenExpr.canCast n) <;>
        simp [Except.map, rnModifier, rnOParen_eq]
    · split
      · cases Build.optM (Build.parenExpr fuel) (support.child ParenExpr.canCast n) <;>
          simp [Except.map, rnModifier, rnOParen_eq]
      · cases Build.optM (Build.parenExpr fuel) (support.child ParenExpr.canCast n) <;>
          simp [Except.map, rnModifier, rnOParen_eq]

theorem step_expr (ih : IH1 ρ fuel) (n : CNode) (hn : renOk ρ n = true) :
    Build.expr (fuel + 1) (R n) = (Build.expr (fuel + 1) n).map (rnExpr ρ) := by
  unfold Build.expr
  rw [kind_R]
  split
  · -- PREFIX_EXPR
    rename_i hk
    unfold PrefixExpr.expr
    rw [prefix_op_kind_R, child_supp_R,
      optM_R n _ hn (fun c hc => child_supp_mem hc) ih.expr, span_R]
    cases Build.optM (Build.expr fuel) (support.child Expr.canCast n) <;>
      simp [Except.map, rnExpr, rnOExpr_eq]
  · -- PAREN_EXPR
    rw [ih.parenExpr n hn]; cases Build.parenExpr fuel n <;> simp [Except.map, rnExpr]
  · -- BIN_EXPR
    rw [bin_op_kind_R, bin_lhs_R, bin_rhs_R,
      optM_R n (BinExpr.lhs n) hn (fun c hc => children_supp_head_mem hc) ih.expr,
      optM_R n (BinExpr.rhs n) hn (fun c hc => children_supp_getElem_mem hc) ih.expr, span_R]
    cases Build.optM (Build.expr fuel) (BinExpr.lhs n) <;>
    cases Build.optM (Build.expr fuel) (BinExpr.rhs n) <;>
      simp [Except.map, rnExpr, rnOExpr_eq]
  · -- LITERAL
    rw [literal_R]; cases Build.literal n <;> simp [Except.map, rnExpr]
  · -- TIMING_LITERAL
    rename_i hk; exact timingLiteral_R hn hk
  · -- IDENTIFIER
    rename_i hk
    rw [identifier_R hn (by rw [Identifier.canCast, hk]; rfl)]
    cases Build.identifier n <;> simp [Except.map, rnExpr]
  · -- HARDWARE_QUBIT
    rename_i hk
    rw [hardwareQubit_R hn (by rw [HardwareQubit.canCast, hk]; rfl)]
    cases Build.hardwareQubit n <;> simp [Except.map, rnExpr]
  · -- RANGE_EXPR
    rw [ih.rangeExpr n hn]; cases Build.rangeExpr fuel n <;> simp [Except.map, rnExpr]
  · -- INDEX_EXPR
    unfold IndexExpr.expr IndexExpr.index_operator
    rw [child_supp_R, child_supp_R,
      optM_R n _ hn (fun c hc => child_supp_mem hc) ih.expr,
      optM_R n _ hn (fun c hc => child_supp_mem hc) ih.indexOperator, span_R]
    cases Build.optM (Build.expr fuel) (support.child Expr.canCast n) <;>
    cases Build.optM (Build.indexOperator fuel) (support.child IndexOperator.canCast n) <;>
      simp [Except.map, rnExpr, rnOExpr_eq, rnOIndexOp_eq]
  · -- INDEXED_IDENTIFIER
    rw [ih.indexedIdentifier n hn]; cases Build.indexedIdentifier fuel n <;> simp [Except.map, rnExpr]
  · -- MEASURE_EXPRESSION
    unfold MeasureExpression.gate_operand
    rw [child_supp_R, optM_RK GateOperand.canCast n hn ih.gateOperand, span_R]
    cases Build.optM (Build.gateOperand fuel) (support.child GateOperand.canCast n) <;>
      simp [Except.map, rnExpr, rnOGateOperand_eq]
  · -- RETURN_EXPR
    unfold ReturnExpr.expr
    rw [child_supp_R, optM_R n _ hn (fun c hc => child_supp_mem hc) ih.expr, span_R]
    cases Build.optM (Build.expr fuel) (support.child Expr.canCast n) <;>
      simp [Except.map, rnExpr, rnOExpr_eq]
  · -- CAST_EXPRESSION
    unfold CastExpression.scalar_type CastExpression.expr
    rw [child_supp_R, child_supp_R,
      optM_R n _ hn (fun c hc => child_supp_mem hc) ih.scalarType,
      optM_R n _ hn (fun c hc => child_supp_mem hc) ih.expr, span_R]
    cases Build.optM (Build.scalarType fuel) (support.child ScalarType.canCast n) <;>
    cases Build.optM (Build.expr fuel) (support.child Expr.canCast n) <;>
      simp [Except.map, rnExpr, rnOExpr_eq, rnOScalarType_eq]
  · -- CALL_EXPR
    unfold CallExpr.arg_list
    have hid : CallExpr.identifier = GateCallExpr.identifier := rfl
    rw [hid, child_supp_R, gate_call_identifier_R,
      optM_R n _ hn (fun c hc => child_supp_mem hc) ih.argList,
      optM_identifier_call n hn, span_R]
    cases Build.optM (Build.argList fuel) (support.child ArgList.canCast n) <;>
    cases Build.optM Build.identifier (GateCallExpr.identifier n) <;>
      simp [Except.map, rnExpr, rnOArgList_eq]
  · -- GATE_CALL_EXPR
    rw [ih.gateCallExpr n hn]; cases Build.gateCallExpr fuel n <;> simp [Except.map, rnExpr]
  · -- G_PHASE_CALL_EXPR
    rw [ih.gPhaseCallExpr n hn]; cases Build.gPhaseCallExpr fuel n <;> simp [Except.map, rnExpr]
  · -- MODIFIED_GATE_CALL_EXPR
    unfold ModifiedGateCallExpr.modifiers ModifiedGateCallExpr.gate_call_expr
      ModifiedGateCallExpr.g_phase_call_expr
    rw [children_supp_R, child_supp_R, child_supp_R,
      listM_R n _ hn (fun c hc => children_supp_mem hc) ih.modifier,
      optM_R n _ hn (fun c hc => child_supp_mem hc) ih.gateCallExpr,
      optM_R n _ hn (fun c hc => child_supp_mem hc) ih.gPhaseCallExpr, span_R]
    cases Build.listM (Build.modifier fuel) (support.children Modifier.canCast n) <;>
    cases Build.optM (Build.gateCallExpr fuel) (support.child GateCallExpr.canCast n) <;>
    cases Build.optM (Build.gPhaseCallExpr fuel) (support.child GPhaseCallExpr.canCast n) <;>
      simp [Except.map, rnExpr, rnModifiers_eq, rnOGateCall_eq, rnOGPhase_eq]
  · simp [Except.map, rnExpr, span_R]
  · simp [Except.map, rnExpr, span_R]
  · simp [Except.map, rnExpr, span_R]
  · simp [Except.map, rnExpr, span_R]
  · simp [Except.map, rnExpr, span_R]
  · rfl

theorem ih1_zero : IH1 ρ 0 := by
  constructor <;> intros <;> rfl

theorem ih1_succ (ih : IH1 ρ fuel) : IH1 ρ (fuel + 1) :=
  ⟨step_expr ih, step_designator ih, step_scalarType ih, step_expressionList ih, step_setExpression ih,
   step_rangeExpr ih, step_indexOperator ih, step_indexedIdentifier ih,
   step_gateOperand ih, step_qubitList ih, step_argList ih, step_parenExpr ih, step_gateCallExpr ih,
   step_gPhaseCallExpr ih, step_modifier ih⟩

theorem ih1 : ∀ fuel, IH1 ρ fuel
  | 0 => ih1_zero
  | fuel + 1 => ih1_succ (ih1 fuel)

/-! ### the functions between the two mutual blocks -/

theorem paramType_R : ∀ (fuel : Nat) (n : CNode), renOk ρ n = true →
    Build.paramType fuel (R n) = (Build.paramType fuel n).map (rnParamType ρ)
  | 0, _, _ => rfl
  | fuel + 1, n, hn => by
    simp only [Build.paramType]
    rw [kind_R]
    split
    · rw [(ih1 (ρ := ρ) fuel).scalarType n hn]; cases Build.scalarType fuel n <;> simp [Except.map, rnParamType]
    · simp [Except.map, rnParamType, span_R]

theorem typedParam_R : ∀ (fuel : Nat) (n : CNode), renOk ρ n = true →
    Build.typedParam fuel (R n) = (Build.typedParam fuel n).map (rnTypedParam ρ)
  | 0, _, _ => rfl
  | fuel + 1, n, hn => by
    simp only [Build.typedParam]
    unfold TypedParam.param_type TypedParam.name TypedParam.old_typed_param
    simp only [child_supp_R, Option.isSome_map]
    rw [optM_R n _ hn (fun c hc => child_supp_mem hc) (paramType_R fuel),
      optM_RK Name.canCast n hn (fun c h1 h2 => name_R h1 h2), span_R]
    cases Build.optM (Build.paramType fuel) (support.child ParamType.canCast n) <;>
    cases Build.optM Build.name (support.child Name.canCast n) <;>
      simp [Except.map, rnTypedParam]

theorem typedParamList_R : ∀ (fuel : Nat) (n : CNode), renOk ρ n = true →
    Build.typedParamList fuel (R n) = (Build.typedParamList fuel n).map (rnTypedParamList ρ)
  | 0, _, _ => rfl
  | fuel + 1, n, hn => by
    simp only [Build.typedParamList]
    unfold TypedParamList.typed_params
    rw [children_supp_R, listM_R n _ hn (fun c hc => children_supp_mem hc) (typedParam_R fuel), span_R]
    cases Build.listM (Build.typedParam fuel) (support.children TypedParam.canCast n) <;>
      simp [Except.map, rnTypedParamList]

theorem returnSignature_R (fuel : Nat) (n : CNode) (hn : renOk ρ n = true) :
    Build.returnSignature fuel (R n) = (Build.returnSignature fuel n).map (rnReturnSignature ρ) := by
  unfold Build.returnSignature ReturnSignature.scalar_type
  rw [child_supp_R, optM_R n _ hn (fun c hc => child_supp_mem hc) (ih1 (ρ := ρ) fuel).scalarType, span_R]
  cases Build.optM (Build.scalarType fuel) (support.child ScalarType.canCast n) <;>
    simp [Except.map, rnReturnSignature, rnOScalarType_eq]

theorem qubitType_R (fuel : Nat) (n : CNode) (hn : renOk ρ n = true) :
    Build.qubitType fuel (R n) = (Build.qubitType fuel n).map (rnQubitType ρ) := by
  unfold Build.qubitType QubitType.designator
  rw [child_supp_R, optM_R n _ hn (fun c hc => child_supp_mem hc) (ih1 (ρ := ρ) fuel).designator, span_R]
  cases Build.optM (Build.designator fuel) (support.child Designator.canCast n) <;>
    simp [Except.map, rnQubitType, rnODesignator_eq]

theorem forIterable_R : ∀ (fuel : Nat) (n : CNode), renOk ρ n = true →
    Build.forIterable fuel (R n) = (Build.forIterable fuel n).map (rnForIterable ρ)
  | 0, _, _ => rfl
  | fuel + 1, n, hn => by
    simp only [Build.forIterable]
    unfold ForIterable.set_expression ForIterable.range_expr ForIterable.for_iterable_expr
    rw [child_supp_R, child_supp_R, child_supp_R,
      optM_R n _ hn (fun c hc => child_supp_mem hc) (ih1 (ρ := ρ) fuel).setExpression,
      optM_R n _ hn (fun c hc => child_supp_mem hc) (ih1 (ρ := ρ) fuel).rangeExpr,
      optM_R n _ hn (fun c hc => child_supp_mem hc) (ih1 (ρ := ρ) fuel).expr, span_R]
    cases Build.optM (Build.setExpression fuel) (support.child SetExpression.canCast n) <;>
    cases Build.optM (Build.rangeExpr fuel) (support.child RangeExpr.canCast n) <;>
    cases Build.optM (Build.expr fuel) (support.child Expr.canCast n) <;>
      simp [Except.map, rnForIterable, rnOExpr_eq]

/-! ### second mutual block -/

variable (ρ) in
structure IH2 (fuel : Nat) : Prop where
  stmt : ∀ n, renOk ρ n = true → Build.stmt fuel (R n) = (Build.stmt fuel n).map (rnStmt ρ)
  blockExpr : ∀ n, renOk ρ n = true → Build.blockExpr fuel (R n) = (Build.blockExpr fuel n).map (rnBlock ρ)
  blockOrStmt : ∀ v, renOk ρ (bosNode v) = true →
    Build.blockOrStmt fuel (bosMapR ρ v) = (Build.blockOrStmt fuel v).map (rnBos ρ)
  caseExpr : ∀ n, renOk ρ n = true → Build.caseExpr fuel (R n) = (Build.caseExpr fuel n).map (rnCase ρ)

theorem step_blockExpr (ih : IH2 ρ fuel) (n : CNode) (hn : renOk ρ n = true) :
    Build.blockExpr (fuel + 1) (R n) = (Build.blockExpr (fuel + 1) n).map (rnBlock ρ) := by
  unfold Build.blockExpr BlockExpr.statements
  rw [children_supp_R, listM_R n _ hn (fun c hc => children_supp_mem hc) ih.stmt, span_R]
  cases Build.listM (Build.stmt fuel) (support.children Stmt.canCast n) <;>
    simp [Except.map, rnBlock, rnStmts_eq]

theorem step_blockOrStmt (ih : IH2 ρ fuel) (v : BlockOrStmt) (hv : renOk ρ (bosNode v) = true) :
    Build.blockOrStmt (fuel + 1) (bosMapR ρ v) = (Build.blockOrStmt (fuel + 1) v).map (rnBos ρ) := by
  cases v with
  | blockExpr b =>
    simp only [bosMapR, Build.blockOrStmt]
    rw [ih.blockExpr b hv]; cases Build.blockExpr fuel b <;> simp [Except.map, rnBos]
  | stmt s =>
    simp only [bosMapR, Build.blockOrStmt]
    rw [ih.stmt s hv]; cases Build.stmt fuel s <;> simp [Except.map, rnBos]

theorem accBosOf_R (ih : IH2 ρ fuel) (r : PRes BlockOrStmt)
    (hr : ∀ v, r = .ok v → renOk ρ (bosNode v) = true) :
    Build.accBosOf fuel (Build.blockOrStmt fuel) (r.map (bosMapR ρ)) =
      (Build.accBosOf fuel (Build.blockOrStmt fuel) r).map (rnAccBos ρ) := by
  cases r with
  | panic => simp only [PRes.map, Build.accBosOf]; split <;> rfl
  | ok v =>
    simp only [PRes.map, Build.accBosOf]
    rw [ih.blockOrStmt v (hr v rfl)]; cases Build.blockOrStmt fuel v <;> simp [Except.map, rnAccBos]

theorem optBosOf_R (ih : IH2 ρ fuel) (o : Option BlockOrStmt)
    (ho : ∀ v, o = some v → renOk ρ (bosNode v) = true) :
    Build.optBosOf (Build.blockOrStmt fuel) (o.map (bosMapR ρ)) =
      (Build.optBosOf (Build.blockOrStmt fuel) o).map (Option.map (rnBos ρ)) := by
  cases o with
  | none => rfl
  | some v =>
    simp only [Option.map_some, Build.optBosOf]
    rw [ih.blockOrStmt v (ho v rfl)]; cases Build.blockOrStmt fuel v <;> simp [Except.map]

theorem step_caseExpr (ih : IH2 ρ fuel) (n : CNode) (hn : renOk ρ n = true) :
    Build.caseExpr (fuel + 1) (R n) = (Build.caseExpr (fuel + 1) n).map (rnCase ρ) := by
  unfold Build.caseExpr CaseExpr.expression_list CaseExpr.block_expr
  rw [child_supp_R, child_supp_R,
    optM_R n _ hn (fun c hc => child_supp_mem hc) (ih1 (ρ := ρ) fuel).expressionList,
    optM_R n _ hn (fun c hc => child_supp_mem hc) ih.blockExpr, span_R]
  cases Build.optM (Build.expressionList fuel) (support.child ExpressionList.canCast n) <;>
  cases Build.optM (Build.blockExpr fuel) (support.child BlockExpr.canCast n) <;>
    simp [Except.map, rnCase, rnOExprList_eq, rnOBlock_eq]

theorem optM_paramList (n : CNode) (o : Option CNode) (hn : renOk ρ n = true)
    (hm : ∀ c, o = some c → c ∈ n.children) :
    Build.optM Build.paramList (o.map R) = (Build.optM Build.paramList o).map (Option.map (rnParamList ρ)) :=
  optM_R n o hn hm (fun _ h => paramList_R h)

theorem step_stmt (ih : IH2 ρ fuel) (n : CNode) (hn : renOk ρ n = true) :
    Build.stmt (fuel + 1) (R n) = (Build.stmt (fuel + 1) n).map (rnStmt ρ) := by
  have i1 := ih1 (ρ := ρ) fuel
  unfold Build.stmt
  rw [kind_R]
  split
  · -- IF_STMT
    rw [condition_R, if_true_body_R, if_false_body_R,
      optM_R n (IfStmt.condition n) hn (fun c hc => condition_mem hc) i1.expr,
      accBosOf_R ih _ (fun v hv => renOk_children hn (if_true_body_mem hv)),
      optBosOf_R ih _ (fun v hv => renOk_children hn (if_false_body_mem hv)), span_R]
    cases Build.optM (Build.expr fuel) (IfStmt.condition n) <;>
    cases Build.accBosOf fuel (Build.blockOrStmt fuel) (IfStmt.true_body_block_or_stmt n) <;>
    cases Build.optBosOf (Build.blockOrStmt fuel) (IfStmt.false_body_block_or_stmt n) <;>
      simp [Except.map, rnStmt, rnOExpr_eq, rnOBos_eq]
  · -- WHILE_STMT
    rw [while_condition_R, while_block_or_stmt_R,
      optM_R n (WhileStmt.condition n) hn (fun c hc => condition_mem hc) i1.expr,
      accBosOf_R ih _ (fun v hv => renOk_children hn (while_body_mem hv)), span_R]
    cases Build.optM (Build.expr fuel) (WhileStmt.condition n) <;>
    cases Build.accBosOf fuel (Build.blockOrStmt fuel) (WhileStmt.block_or_stmt n) <;>
      simp [Except.map, rnStmt, rnOExpr_eq]
  · -- FOR_STMT
    unfold ForStmt.loop_var ForStmt.scalar_type ForStmt.for_iterable
    rw [child_supp_R, child_supp_R, child_supp_R, for_block_or_stmt_R,
      optM_RK Name.canCast n hn (fun c h1 h2 => name_R h1 h2),
      optM_R n _ hn (fun c hc => child_supp_mem hc) i1.scalarType,
      optM_R n _ hn (fun c hc => child_supp_mem hc) (forIterable_R fuel),
      accBosOf_R ih _ (fun v hv => renOk_children hn (for_body_mem hv)), span_R]
    cases Build.optM Build.name (support.child Name.canCast n) <;>
    cases Build.optM (Build.scalarType fuel) (support.child ScalarType.canCast n) <;>
    cases Build.optM (Build.forIterable fuel) (support.child ForIterable.canCast n) <;>
    cases Build.accBosOf fuel (Build.blockOrStmt fuel) (ForStmt.block_or_stmt n) <;>
      simp [Except.map, rnStmt, rnOScalarType_eq]
  · -- SWITCH_CASE_STMT
    unfold SwitchCaseStmt.control SwitchCaseStmt.case_exprs SwitchCaseStmt.default_block
    rw [child_supp_R, children_supp_R, child_supp_R,
      optM_R n _ hn (fun c hc => child_supp_mem hc) i1.expr,
      listM_R n _ hn (fun c hc => children_supp_mem hc) ih.caseExpr,
      optM_R n _ hn (fun c hc => child_supp_mem hc) ih.blockExpr, span_R]
    cases Build.optM (Build.expr fuel) (support.child Expr.canCast n) <;>
    cases Build.listM (Build.caseExpr fuel) (support.children CaseExpr.canCast n) <;>
    cases Build.optM (Build.blockExpr fuel) (support.child BlockExpr.canCast n) <;>
      simp [Except.map, rnStmt, rnOExpr_eq, rnCases_eq, rnOBlock_eq]
  · -- CLASSICAL_DECLARATION_STATEMENT
    unfold ClassicalDeclarationStatement.scalar_type ClassicalDeclarationStatement.name
      ClassicalDeclarationStatement.expr ClassicalDeclarationStatement.array_type
      ClassicalDeclarationStatement.const_token
    simp only [child_supp_R, Option.isSome_map]
    rw [token_supp_isSome_R n .CONST_KW,
      optM_R n _ hn (fun c hc => child_supp_mem hc) i1.scalarType,
      optM_RK Name.canCast n hn (fun c h1 h2 => name_R h1 h2),
      optM_R n _ hn (fun c hc => child_supp_mem hc) i1.expr, span_R]
    cases Build.optM (Build.scalarType fuel) (support.child ScalarType.canCast n) <;>
    cases Build.optM Build.name (support.child Name.canCast n) <;>
    cases Build.optM (Build.expr fuel) (support.child Expr.canCast n) <;>
      simp [Except.map, rnStmt, rnOScalarType_eq, rnOExpr_eq]
  · -- I_O_DECLARATION_STATEMENT
    unfold IODeclarationStatement.scalar_type IODeclarationStatement.name
      IODeclarationStatement.array_type IODeclarationStatement.input_token
    simp only [child_supp_R, Option.isSome_map]
    rw [token_supp_isSome_R n .INPUT_KW,
      optM_R n _ hn (fun c hc => child_supp_mem hc) i1.scalarType,
      optM_RK Name.canCast n hn (fun c h1 h2 => name_R h1 h2), span_R]
    cases Build.optM (Build.scalarType fuel) (support.child ScalarType.canCast n) <;>
    cases Build.optM Build.name (support.child Name.canCast n) <;>
      simp [Except.map, rnStmt, rnOScalarType_eq]
  · -- QUANTUM_DECLARATION_STATEMENT
    unfold QuantumDeclarationStatement.name QuantumDeclarationStatement.hardware_qubit
      QuantumDeclarationStatement.qubit_type
    rw [child_supp_R, child_supp_R, child_supp_R,
      optM_RK Name.canCast n hn (fun c h1 h2 => name_R h1 h2),
      optM_RK HardwareQubit.canCast n hn (fun c h1 h2 => hardwareQubit_R h1 h2),
      optM_R n _ hn (fun c hc => child_supp_mem hc) (qubitType_R fuel), span_R]
    cases Build.optM Build.name (support.child Name.canCast n) <;>
    cases Build.optM Build.hardwareQubit (support.child HardwareQubit.canCast n) <;>
    cases Build.optM (Build.qubitType fuel) (support.child QubitType.canCast n) <;>
      simp [Except.map, rnStmt]
  · -- ASSIGNMENT_STMT
    unfold AssignmentStmt.identifier AssignmentStmt.indexed_identifier
    rw [child_supp_R, assign_rhs_R, child_supp_R,
      optM_RK Identifier.canCast n hn (fun c h1 h2 => identifier_R h1 h2),
      optM_R n (AssignmentStmt.rhs n) hn (fun c hc => assign_rhs_mem hc) i1.expr,
      optM_R n _ hn (fun c hc => child_supp_mem hc) i1.indexedIdentifier, span_R]
    cases Build.optM Build.identifier (support.child Identifier.canCast n) <;>
    cases Build.optM (Build.expr fuel) (AssignmentStmt.rhs n) <;>
    cases Build.optM (Build.indexedIdentifier fuel) (support.child IndexedIdentifier.canCast n) <;>
      simp [Except.map, rnStmt, rnOExpr_eq]
  · simp [Except.map, rnStmt, span_R]
  · simp [Except.map, rnStmt, span_R]
  · simp [Except.map, rnStmt, span_R]
  · -- GATE
    unfold Gate.name Gate.body
    rw [child_supp_R, gate_angle_params_R, gate_qubit_params_R, child_supp_R,
      optM_RK Name.canCast n hn (fun c h1 h2 => name_R h1 h2),
      optM_paramList n (Gate.angle_params n) hn (fun c hc => gate_params_mem.1 hc),
      optM_paramList n (Gate.qubit_params n) hn (fun c hc => gate_params_mem.2 hc),
      optM_R n _ hn (fun c hc => child_supp_mem hc) ih.blockExpr, span_R]
    cases Build.optM Build.name (support.child Name.canCast n) <;>
    cases Build.optM Build.paramList (Gate.angle_params n) <;>
    cases Build.optM Build.paramList (Gate.qubit_params n) <;>
    cases Build.optM (Build.blockExpr fuel) (support.child BlockExpr.canCast n) <;>
      simp [Except.map, rnStmt, rnOBlock_eq]
  · -- DEF
    unfold Def.name Def.typed_param_list Def.body Def.return_signature
    rw [child_supp_R, child_supp_R, child_supp_R, child_supp_R,
      optM_RK Name.canCast n hn (fun c h1 h2 => name_R h1 h2),
      optM_R n _ hn (fun c hc => child_supp_mem hc) (typedParamList_R fuel),
      optM_R n _ hn (fun c hc => child_supp_mem hc) ih.blockExpr,
      optM_R n _ hn (fun c hc => child_supp_mem hc) (returnSignature_R fuel), span_R]
    cases Build.optM Build.name (support.child Name.canCast n) <;>
    cases Build.optM (Build.typedParamList fuel) (support.child TypedParamList.canCast n) <;>
    cases Build.optM (Build.blockExpr fuel) (support.child BlockExpr.canCast n) <;>
    cases Build.optM (Build.returnSignature fuel) (support.child ReturnSignature.canCast n) <;>
      simp [Except.map, rnStmt, rnOBlock_eq]
  · -- BARRIER
    unfold Barrier.qubit_list
    rw [child_supp_R, optM_R n _ hn (fun c hc => child_supp_mem hc) i1.qubitList, span_R]
    cases Build.optM (Build.qubitList fuel) (support.child QubitList.canCast n) <;>
      simp [Except.map, rnStmt, rnOQubitList_eq]
  · -- DELAY_STMT
    unfold DelayStmt.qubit_list DelayStmt.designator
    rw [child_supp_R, child_supp_R,
      optM_R n _ hn (fun c hc => child_supp_mem hc) i1.qubitList,
      optM_R n _ hn (fun c hc => child_supp_mem hc) i1.designator, span_R]
    cases Build.optM (Build.qubitList fuel) (support.child QubitList.canCast n) <;>
    cases Build.optM (Build.designator fuel) (support.child Designator.canCast n) <;>
      simp [Except.map, rnStmt, rnOQubitList_eq, rnODesignator_eq]
  · -- RESET
    unfold Reset.gate_operand
    rw [child_supp_R, optM_RK GateOperand.canCast n hn i1.gateOperand, span_R]
    cases Build.optM (Build.gateOperand fuel) (support.child GateOperand.canCast n) <;>
      simp [Except.map, rnStmt, rnOGateOperand_eq]
  · -- INCLUDE
    unfold Include.file
    rw [child_supp_R, optM_R n _ hn (fun c hc => child_supp_mem hc) (fun c _ => filePath_R c), span_R]
    cases Build.optM Build.filePath (support.child FilePath.canCast n) <;>
      simp [Except.map, rnStmt]
  · -- EXPR_STMT
    unfold ExprStmt.expr
    rw [child_supp_R, optM_R n _ hn (fun c hc => child_supp_mem hc) i1.expr, span_R]
    cases Build.optM (Build.expr fuel) (support.child Expr.canCast n) <;>
      simp [Except.map, rnStmt, rnOExpr_eq]
  · simp [Except.map, rnStmt, span_R]
  · -- PRAGMA_STATEMENT
    rename_i hk
    rw [pragma_text_R (fixHead hn (Or.inr (Or.inl hk))), span_R]
    cases Build.ofPRes (PragmaStatement.pragma_text n) <;> simp [Except.map, rnStmt]
  · -- ANNOTATION_STATEMENT
    rename_i hk
    rw [annotation_text_R (fixHead hn (Or.inr (Or.inr hk))), span_R]
    cases Build.ofPRes (AnnotationStatement.annotation_text n) <;> simp [Except.map, rnStmt]
  · -- ALIAS_DECLARATION_STATEMENT
    unfold AliasDeclarationStatement.name AliasDeclarationStatement.expr
    rw [child_supp_R, child_supp_R,
      optM_RK Name.canCast n hn (fun c h1 h2 => name_R h1 h2),
      optM_R n _ hn (fun c hc => child_supp_mem hc) i1.expr, span_R]
    cases Build.optM Build.name (support.child Name.canCast n) <;>
    cases Build.optM (Build.expr fuel) (support.child Expr.canCast n) <;>
      simp [Except.map, rnStmt, rnOExpr_eq]
  · simp [Except.map, rnStmt, span_R]
  · simp [Except.map, rnStmt, span_R]
  · simp [Except.map, rnStmt, span_R]
  · simp [Except.map, rnStmt, span_R]
  · simp [Except.map, rnStmt, span_R]
  · simp [Except.map, rnStmt, span_R]
  · simp [Except.map, rnStmt, span_R]
  · rfl

theorem ih2_zero : IH2 ρ 0 := by
  constructor <;> intros <;> rfl

theorem ih2_succ (ih : IH2 ρ fuel) : IH2 ρ (fuel + 1) :=
  ⟨step_stmt ih, step_blockExpr ih, step_blockOrStmt ih, step_caseExpr ih⟩

theorem ih2 : ∀ fuel, IH2 ρ fuel
  | 0 => ih2_zero
  | fuel + 1 => ih2_succ (ih2 fuel)

/-! ### whole programs -/

mutual
theorem depth_R : ∀ c : CNode, (R c).depth = c.depth
  | .token .. => rfl
  | .node k s e cs => by
    simp only [mapC, CNode.depth]
    rw [depthList_R cs]
theorem depthList_R : ∀ cs : List CNode,
    CNode.depth.depthList (mapCs (phi ρ) cs) = CNode.depth.depthList cs
  | [] => rfl
  | c :: cs => by
    simp only [mapCs, CNode.depth.depthList, depth_R c, depthList_R cs]
end

/-- the side condition below the root -/
def rootRenOk (ρ : Ren) (root : CNode) : Bool := renOkL ρ root.children

theorem listM_stmt_R (fuel : Nat) (l : List CNode) (hl : ∀ c, c ∈ l → renOk ρ c = true) :
    Build.listM (Build.stmt fuel) (l.map R) =
      (Build.listM (Build.stmt fuel) l).map (List.map (rnStmt ρ)) := by
  induction l with
  | nil => rfl
  | cons c cs ihl =>
    simp only [List.map_cons, Build.listM]
    rw [(ih2 (ρ := ρ) fuel).stmt c (hl c List.mem_cons_self), ihl (fun d hd => hl d (List.mem_cons_of_mem _ hd))]
    cases Build.stmt fuel c with
    | error e => rfl
    | ok a => cases Build.listM (Build.stmt fuel) cs <;> rfl

theorem programWith_rename (fuel : Nat) (root : CNode) (h : rootRenOk ρ root = true) :
    Build.programWith fuel (R root) = (Build.programWith fuel root).map (renameAst ρ) := by
  unfold Build.programWith SourceFile.statements
  rw [children_supp_R, span_R]
  have := listM_stmt_R (ρ := ρ) fuel (support.children Stmt.canCast root)
    (fun c hc => renOkL_mem h (children_supp_mem hc))
  rw [this]
  cases Build.listM (Build.stmt fuel) (support.children Stmt.canCast root) <;>
    simp [Except.map, renameAst, rnStmts_eq]

/-- **The typed accessors commute with renaming**: the typed AST of the tree with every `IDENT`
token text renamed is the renamed typed AST -/
theorem program_rename (root : CNode) (h : rootRenOk ρ root = true) :
    Build.program (R root) = (Build.program root).map (renameAst ρ) := by
  unfold Build.program Build.defaultFuel Dump.defaultFuel
  rw [depth_R]
  exact programWith_rename _ root h

end Oq3.RenameText
