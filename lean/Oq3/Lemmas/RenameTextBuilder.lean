/-
C17 (renaming through lexer and parser) — the tree builder is natural in the token texts.

* `eraseTrivia_cnodeOf_mapTree`: the concrete syntax tree (trivia and ranges erased) of a model tree
  with mapped leaf texts is the mapped concrete syntax tree.
* `buildTree_rename`: for a token table with the same kinds and the texts `φ kind text`, where `φ`
  changes `IDENT` texts only, the builder produces the tree with mapped leaf texts (same `is_eof`;
  the errors differ in their byte offsets only).
Core only.
-/
import Oq3.Lemmas.RenameTextDefs
import Oq3.Lemmas.TreeCNode

namespace Oq3.RenameText
open Oq3.Gen Oq3.Parser Oq3.Builder Oq3.BuilderLayout Oq3.Acc

/-! ### `mapTree` and the concrete syntax tree -/

theorem isTriviaLeaf_mapTree (φ : SyntaxKind → List Char → List Char) (t : Tree) :
    isTriviaLeaf (mapTree φ t) = isTriviaLeaf t := by
  cases t <;> rfl

mutual
theorem eraseTriviaT_mapTree (φ : SyntaxKind → List Char → List Char) :
    ∀ t : Tree, eraseTriviaT (mapTree φ t) = mapTree φ (eraseTriviaT t)
  | .leaf k txt => rfl
  | .node k cs => by
    simp only [mapTree, eraseTriviaT]
    rw [eraseTriviaTL_mapTrees φ cs]
theorem eraseTriviaTL_mapTrees (φ : SyntaxKind → List Char → List Char) :
    ∀ cs : List Tree, eraseTriviaTL (mapTrees φ cs) = mapTrees φ (eraseTriviaTL cs)
  | [] => rfl
  | c :: cs => by
    simp only [mapTrees, eraseTriviaTL, isTriviaLeaf_mapTree]
    split
    · exact eraseTriviaTL_mapTrees φ cs
    · simp only [mapTrees]
      rw [eraseTriviaT_mapTree φ c, eraseTriviaTL_mapTrees φ cs]
end

mutual
theorem zeroTree_mapTree (φ : SyntaxKind → List Char → List Char) :
    ∀ t : Tree, zeroTree (mapTree φ t) = mapC φ (zeroTree t)
  | .leaf k txt => rfl
  | .node k cs => by
    simp only [mapTree, zeroTree, mapC]
    rw [zeroTrees_mapTrees φ cs]
theorem zeroTrees_mapTrees (φ : SyntaxKind → List Char → List Char) :
    ∀ cs : List Tree, zeroTrees (mapTrees φ cs) = mapCs φ (zeroTrees cs)
  | [] => rfl
  | c :: cs => by
    simp only [mapTrees, zeroTrees, mapCs]
    rw [zeroTree_mapTree φ c, zeroTrees_mapTrees φ cs]
end

/-- the concrete syntax tree, trivia and ranges erased, of the tree with mapped leaf texts -/
theorem eraseTrivia_cnodeOf_mapTree (φ : SyntaxKind → List Char → List Char) (t : Tree) :
    eraseTrivia (cnodeOf (mapTree φ t)) = mapC φ (eraseTrivia (cnodeOf t)) := by
  unfold cnodeOf
  rw [E_ofTree, E_ofTree, eraseTriviaT_mapTree, zeroTree_mapTree]

/-! ### the token-identity check along the raw token table -/

/-- the raw tokens glued into one token step of kind `k` -/
def chk (l : List RawTok) (k : SyntaxKind) : Bool :=
  if l.length = 1 then l.all (fun x => x.kind == k)
  else k != .IDENT && l.all (fun x => x.kind != .IDENT)

/-- `tokIdI` read along the raw token table (trivia included) -/
def idGo : List RawTok → List Item → Bool
  | _, [] => true
  | r, .token k n :: is =>
    chk ((r.dropWhile (fun t => t.kind.isTrivia)).take n) k &&
      idGo ((r.dropWhile (fun t => t.kind.isTrivia)).drop n) is
  | r, .error _ :: is => idGo r is

theorem dropWhile_cons_trivia (t : RawTok) (r : List RawTok) (ht : t.kind.isTrivia = true) :
    (t :: r).dropWhile (fun t => t.kind.isTrivia) = r.dropWhile (fun t => t.kind.isTrivia) := by
  rw [List.dropWhile_cons, if_pos ht]

theorem idGo_cons_trivia (t : RawTok) (r : List RawTok) (is : List Item)
    (ht : t.kind.isTrivia = true) : idGo (t :: r) is = idGo r is := by
  induction is with
  | nil => rfl
  | cons i is ih =>
    cases i with
    | token k n => simp only [idGo, dropWhile_cons_trivia t r ht]
    | error m => simpa [idGo] using ih

theorem idGo_dropWhile (r : List RawTok) (is : List Item) :
    idGo (r.dropWhile (fun t => t.kind.isTrivia)) is = idGo r is := by
  induction r with
  | nil => rfl
  | cons t r ih =>
    cases ht : t.kind.isTrivia with
    | true => rw [List.dropWhile_cons, if_pos ht, ih, idGo_cons_trivia t r is ht]
    | false => rw [List.dropWhile_cons, if_neg (by simp [ht])]

/-- `takeN` splits off `n` non-trivia tokens -/
theorem takeN_split {r r' : List RawTok} {n : Nat} (h : takeN r n = some r') :
    ∃ l, l.length = n ∧ r = l ++ r' ∧ ∀ x ∈ l, x.kind.isTrivia = false := by
  induction n generalizing r with
  | zero => rw [takeN_zero] at h; cases h; exact ⟨[], rfl, rfl, by simp⟩
  | succ n ih =>
    cases r with
    | nil => simp [takeN] at h
    | cons t r0 =>
      simp only [takeN] at h
      split at h
      · simp at h
      · rename_i ht
        obtain ⟨l, h1, h2, h3⟩ := ih h
        refine ⟨t :: l, by simp [h1], by rw [h2]; rfl, ?_⟩
        intro x hx
        rcases List.mem_cons.mp hx with rfl | hx
        · simpa using ht
        · exact h3 x hx

theorem ntKinds_append_non {l r : List RawTok} (h : ∀ x ∈ l, x.kind.isTrivia = false) :
    ntKinds (l ++ r) = l.map (·.kind) ++ ntKinds r := by
  have : l.filter (fun t => !t.kind.isTrivia) = l :=
    List.filter_eq_self.mpr (fun x hx => by simp [h x hx])
  simp only [ntKinds, List.filter_append, List.map_append, this]

theorem chk_of_tokId1 (pre : List SyntaxKind) (l : List RawTok) (rest : List SyntaxKind)
    (k : SyntaxKind) (n : Nat) (hl : l.length = n)
    (h : tokId1 (fun i => (pre ++ (l.map (·.kind) ++ rest)).getD i .EOF) pre.length k n = true) :
    chk l k = true := by
  have hget : ∀ j (hj : j < l.length),
      (pre ++ (l.map (·.kind) ++ rest)).getD (pre.length + j) .EOF = l[j].kind := by
    intro j hj
    simp [List.getD_eq_getElem?_getD, List.getElem?_append_right, List.getElem?_append_left, hj]
  unfold tokId1 at h
  dsimp only at h
  unfold chk
  rw [hl]
  split
  · rename_i hn
    rw [if_pos hn] at h
    subst hn
    obtain ⟨x, rfl⟩ := List.length_eq_one_iff.mp hl
    have := hget 0 (by simp)
    simp only [Nat.add_zero] at this
    rw [this] at h
    simpa using h
  · rename_i hn
    rw [if_neg hn] at h
    simp only [Bool.and_eq_true, List.all_eq_true, List.mem_range] at h ⊢
    refine ⟨h.1, ?_⟩
    intro x hx
    obtain ⟨j, hj, rfl⟩ := List.mem_iff_getElem.mp hx
    have := h.2 j (by omega)
    rwa [hget j hj] at this

theorem idGo_of_fits (is : List Item) : ∀ (r : List RawTok) (pre : List SyntaxKind),
    fitsGo r is = true → tokIdI (pre ++ ntKinds r) pre.length is = true → idGo r is = true := by
  induction is with
  | nil => intro _ _ _ _; rfl
  | cons i is ih =>
    intro r pre hf hi
    cases i with
    | error m => simp only [fitsGo, tokIdI, idGo] at hf hi ⊢; exact ih r pre hf hi
    | token k n =>
      simp only [fitsGo] at hf
      split at hf
      · simp at hf
      · split at hf
        · rename_i r' hr'
          obtain ⟨l, hl, hsplit, hnon⟩ := takeN_split hr'
          have hk : ntKinds r = l.map (·.kind) ++ ntKinds r' := by
            rw [← (adjBits_dropWhile r).2, hsplit, ntKinds_append_non hnon]
          simp only [tokIdI, Bool.and_eq_true] at hi
          rw [hk] at hi
          simp only [idGo, Bool.and_eq_true]
          rw [hsplit]
          have htake : (l ++ r').take n = l := by rw [← hl]; simp
          have hdrop : (l ++ r').drop n = r' := by rw [← hl]; simp
          rw [htake, hdrop]
          refine ⟨chk_of_tokId1 pre l _ k n hl hi.1, ?_⟩
          apply ih r' (pre ++ l.map (·.kind)) hf
          have := hi.2
          simpa [hl, List.append_assoc] using this
        · simp at hf

/-! ### the emitted steps -/

/-- the renamed token -/
def rn (φ : SyntaxKind → List Char → List Char) (x : RawTok) : RawTok := ⟨x.kind, φ x.kind x.text⟩

section
variable (φ : SyntaxKind → List Char → List Char)

/-- one emitted step against the step with the mapped text; error offsets are free -/
inductive SRel : StrStep → StrStep → Prop
  | token (k : SyntaxKind) (t : List Char) : SRel (.token k t) (.token k (φ k t))
  | enter (k : SyntaxKind) : SRel (.enter k) (.enter k)
  | exit : SRel .exit .exit
  | error (m : String) (p p' : Nat) : SRel (.error m p) (.error m p')

inductive ORel : List StrStep → List StrStep → Prop
  | nil : ORel [] []
  | cons {s s' : StrStep} {r r' : List StrStep} : SRel φ s s' → ORel r r' → ORel (s :: r) (s' :: r')

theorem ORel.snoc {a a' : List StrStep} {s s' : StrStep} (h : ORel φ a a') (hs : SRel φ s s') :
    ORel φ (a ++ [s]) (a' ++ [s']) := by
  induction h with
  | nil => exact .cons hs .nil
  | cons h1 _ ih => exact .cons h1 ih

/-- the lock-step relation of the two builder states -/
structure Rel (b b' : B) : Prop where
  pos : b'.pos = b.pos
  state : b'.state = b.state
  out : ORel φ b.out b'.out
end

variable {φ : SyntaxKind → List Char → List Char}

theorem isTrivia_ne_ident {k : SyntaxKind} (h : k.isTrivia = true) : k ≠ .IDENT := by
  intro e; subst e; cases h

theorem SRel.same (hφ : ∀ k t, k ≠ SyntaxKind.IDENT → φ k t = t) {k : SyntaxKind} (t : List Char)
    (h : k ≠ .IDENT) : SRel φ (.token k t) (.token k t) := by
  have := SRel.token (φ := φ) k t
  rwa [hφ k t h] at this

theorem Rel.emit {b b' : B} {s s' : StrStep} (h : Rel φ b b') (hs : SRel φ s s') :
    Rel φ (emit b s) (emit b' s') := ⟨h.pos, h.state, h.out.snoc φ hs⟩

theorem Rel.adv {b b' : B} (h : Rel φ b b') (n : Nat) :
    Rel φ { b with pos := b.pos + n } { b' with pos := b'.pos + n } :=
  ⟨by simp [h.pos], h.state, h.out⟩

theorem Rel.setState {b b' : B} (h : Rel φ b b') (st : BState) :
    Rel φ { b with state := st } { b' with state := st } := ⟨h.pos, rfl, h.out⟩

theorem rn_kind (x : RawTok) : (rn φ x).kind = x.kind := rfl

theorem rn_trivia (hφ : ∀ k t, k ≠ SyntaxKind.IDENT → φ k t = t) {x : RawTok}
    (h : x.kind ≠ .IDENT) : rn φ x = x := by
  cases x with
  | mk k t => simp only [rn]; rw [hφ k t h]

theorem eatTriviasAux_rel (hφ : ∀ k t, k ≠ SyntaxKind.IDENT → φ k t = t) (rest : List RawTok) :
    ∀ {b b' : B}, Rel φ b b' → Rel φ (eatTriviasAux rest b) (eatTriviasAux (rest.map (rn φ)) b') := by
  induction rest with
  | nil => intro b b' h; exact h
  | cons t r ih =>
    intro b b' h
    simp only [List.map_cons, eatTriviasAux, rn_kind]
    by_cases ht : t.kind.isTrivia = true
    · simp only [ht, if_true]
      rw [rn_trivia hφ (isTrivia_ne_ident ht)]
      exact ih ((h.adv 1).emit (SRel.same hφ _ (isTrivia_ne_ident ht)))
    · simp only [ht]
      exact h

theorem eatTrivias_rel (hφ : ∀ k t, k ≠ SyntaxKind.IDENT → φ k t = t) (toks : List RawTok)
    {b b' : B} (h : Rel φ b b') : Rel φ (eatTrivias toks b) (eatTrivias (toks.map (rn φ)) b') := by
  unfold eatTrivias
  rw [h.pos, ← List.map_drop]
  exact eatTriviasAux_rel hφ _ h

theorem eatNTrivias_rel (hφ : ∀ k t, k ≠ SyntaxKind.IDENT → φ k t = t) (toks : List RawTok)
    (n : Nat) : ∀ {b b' c : B}, Rel φ b b' → eatNTrivias toks n b = .ok c →
      ∃ c', eatNTrivias (toks.map (rn φ)) n b' = .ok c' ∧ Rel φ c c' ∧
        ∀ is, idGo (toks.drop c.pos) is = idGo (toks.drop b.pos) is := by
  induction n with
  | zero =>
    intro b b' c h hc
    simp only [eatNTrivias] at hc; cases hc
    exact ⟨b', rfl, h, fun _ => rfl⟩
  | succ n ih =>
    intro b b' c h hc
    simp only [eatNTrivias] at hc
    cases ht : toks[b.pos]? with
    | none => rw [ht] at hc; cases hc
    | some t =>
      rw [ht] at hc
      simp only at hc
      by_cases hk : t.kind.isTrivia = true
      · simp only [hk, Bool.not_true, Bool.false_eq_true, if_false] at hc
        obtain ⟨c', h1, h2, h3⟩ :=
          ih ((h.adv 1).emit (SRel.same hφ t.text (isTrivia_ne_ident hk))) hc
        refine ⟨c', ?_, h2, ?_⟩
        · have ht' : toks[b'.pos]? = some t := by rw [h.pos]; exact ht
          simp only [eatNTrivias, List.getElem?_map, ht', Option.map_some, rn_kind, hk,
            Bool.not_true, Bool.false_eq_true, if_false]
          rw [rn_trivia hφ (isTrivia_ne_ident hk)]
          exact h1
        · intro is
          rw [h3 is]
          simp only [Builder.emit]
          rw [drop_eq_cons ht, idGo_cons_trivia _ _ _ hk]
      · simp only [hk, Bool.not_false, if_true] at hc; cases hc

theorem flushPending_rel {b b' c : B} (h : Rel φ b b') (hc : flushPending b = .ok c) :
    ∃ c', flushPending b' = .ok c' ∧ Rel φ c c' ∧ c.pos = b.pos := by
  unfold flushPending at hc ⊢
  rw [h.state]
  cases hb : b.state <;> rw [hb] at hc <;> simp only at hc ⊢
  · cases hc
  · cases hc; exact ⟨_, rfl, h.setState _, rfl⟩
  · cases hc; exact ⟨_, rfl, (h.setState _).emit .exit, rfl⟩

theorem chk_text (hφ : ∀ k t, k ≠ SyntaxKind.IDENT → φ k t = t) (l : List RawTok) (k : SyntaxKind)
    (h : chk l k = true) :
    ((l.map (rn φ)).map (·.text)).flatten = φ k ((l.map (·.text)).flatten) := by
  unfold chk at h
  split at h
  · rename_i hl
    obtain ⟨x, rfl⟩ := List.length_eq_one_iff.mp hl
    have : x.kind = k := by simpa using h
    subst this
    simp [rn]
  · simp only [Bool.and_eq_true, List.all_eq_true, bne_iff_ne, ne_eq] at h
    have : l.map (rn φ) = l := by
      conv => rhs; rw [← List.map_id l]
      exact List.map_congr_left (fun x hx => rn_trivia hφ (h.2 x hx))
    rw [this, hφ k _ h.1]

theorem doToken_rel (hφ : ∀ k t, k ≠ SyntaxKind.IDENT → φ k t = t) (toks : List RawTok)
    {b b' c : B} {k : SyntaxKind} {n : Nat} (h : Rel φ b b')
    (hk : chk ((toks.drop b.pos).take n) k = true) (hc : doToken toks b k n = .ok c) :
    ∃ c', doToken (toks.map (rn φ)) b' k n = .ok c' ∧ Rel φ c c' ∧ c.pos = b.pos + n := by
  unfold doToken at hc ⊢
  rw [List.length_map]
  split at hc
  · cases hc
  · rename_i hn
    cases hc
    rw [if_neg (by rw [h.pos]; exact hn)]
    refine ⟨_, rfl, ?_, rfl⟩
    have ht : ((((toks.map (rn φ)).drop b'.pos).take n).map (·.text)).flatten =
        φ k ((((toks.drop b.pos).take n).map (·.text)).flatten) := by
      rw [h.pos, ← List.map_drop, ← List.map_take]; exact chk_text hφ _ k hk
    rw [ht]
    exact (h.adv n).emit (SRel.token k _)


/-! ### one step, all steps -/

theorem takeWhile_rn (hφ : ∀ k t, k ≠ SyntaxKind.IDENT → φ k t = t) (l : List RawTok) :
    (l.map (rn φ)).takeWhile (fun t => t.kind.isTrivia) = l.takeWhile (fun t => t.kind.isTrivia) := by
  induction l with
  | nil => rfl
  | cons t r ih =>
    simp only [List.map_cons, List.takeWhile_cons, rn_kind]
    by_cases ht : t.kind.isTrivia = true
    · simp only [ht, if_true, ih, rn_trivia hφ (isTrivia_ne_ident ht)]
    · simp only [ht]
      rfl

theorem enter_rel (hφ : ∀ k t, k ≠ SyntaxKind.IDENT → φ k t = t) (toks : List RawTok)
    {b b' c : B} (k : SyntaxKind) (h : Rel φ b b') (hc : enterBody toks b k = .ok c) :
    ∃ c', enterBody (toks.map (rn φ)) b' k = .ok c' ∧ Rel φ c c' ∧
      ∀ is, idGo (toks.drop c.pos) is = idGo (toks.drop b.pos) is := by
  simp only [enterBody, bind, Except.bind] at hc ⊢
  cases hf : flushPending b with
  | error e => rw [hf] at hc; cases hc
  | ok d =>
    rw [hf] at hc
    simp only at hc
    obtain ⟨d', hf', hd, hp⟩ := flushPending_rel h hf
    rw [hf']
    simp only
    rw [← List.map_drop, takeWhile_rn hφ, hd.pos]
    cases he : eatNTrivias toks (((toks.drop d.pos).takeWhile (·.kind.isTrivia)).length -
        nAttachedTrivias k ((toks.drop d.pos).takeWhile (·.kind.isTrivia)).reverse) d with
    | error e => rw [he] at hc; cases hc
    | ok e1 =>
      rw [he] at hc
      simp only at hc
      obtain ⟨e1', he', hre, hi1⟩ := eatNTrivias_rel hφ toks _ hd he
      rw [he']
      simp only
      obtain ⟨c', hc', hrc, hi2⟩ := eatNTrivias_rel hφ toks _ (hre.emit (.enter k)) hc
      refine ⟨c', hc', hrc, ?_⟩
      intro is
      rw [hi2 is]
      simp only [Builder.emit]
      rw [hi1 is, hp]


theorem step_rel (hφ : ∀ k t, k ≠ SyntaxKind.IDENT → φ k t = t) (toks : List RawTok)
    {b b' c : B} (s : Step) (ss : List Step) (h : Rel φ b b')
    (hid : idGo (toks.drop b.pos) (itemsS (s :: ss)) = true) (hc : step toks b s = .ok c) :
    ∃ c', step (toks.map (rn φ)) b' s = .ok c' ∧ Rel φ c c' ∧
      idGo (toks.drop c.pos) (itemsS ss) = true := by
  cases s with
  | token k n =>
    simp only [step, bind, Except.bind] at hc ⊢
    cases hf : flushPending b with
    | error e => rw [hf] at hc; cases hc
    | ok d =>
      rw [hf] at hc
      simp only at hc
      obtain ⟨d', hf', hd, hp⟩ := flushPending_rel h hf
      rw [hf']
      simp only
      obtain ⟨hdrop, _⟩ := eatTrivias_drop toks d
      simp only [itemsS, idGo, Bool.and_eq_true] at hid
      rw [← hp, ← hdrop] at hid
      obtain ⟨c', h1, h2, h3⟩ := doToken_rel hφ toks (eatTrivias_rel hφ toks hd) hid.1 hc
      refine ⟨c', h1, h2, ?_⟩
      rw [h3, ← List.drop_drop]
      exact hid.2
  | enter k =>
    cases hb : b.state with
    | pendingEnter =>
      have hb' : b'.state = .pendingEnter := by rw [h.state, hb]
      simp only [step, hb] at hc
      simp only [step, hb']
      cases hc
      exact ⟨_, rfl, (h.setState _).emit (.enter k), by simpa [itemsS, Builder.emit] using hid⟩
    | normal =>
      obtain ⟨c', h1, h2, h3⟩ := enter_rel hφ toks k h
        (by rw [← step_enter_eq _ _ _ (by rw [hb]; simp)]; exact hc)
      refine ⟨c', ?_, h2, ?_⟩
      · rw [step_enter_eq _ _ _ (by rw [h.state, hb]; simp)]; exact h1
      · rw [h3]; simpa [itemsS] using hid
    | pendingExit =>
      obtain ⟨c', h1, h2, h3⟩ := enter_rel hφ toks k h
        (by rw [← step_enter_eq _ _ _ (by rw [hb]; simp)]; exact hc)
      refine ⟨c', ?_, h2, ?_⟩
      · rw [step_enter_eq _ _ _ (by rw [h.state, hb]; simp)]; exact h1
      · rw [h3]; simpa [itemsS] using hid
  | exit =>
    simp only [itemsS] at hid
    have hst := h.state
    cases hb : b.state with
    | pendingEnter => simp only [step, hb] at hc; cases hc
    | normal =>
      rw [hb] at hst
      simp only [step, hb] at hc
      simp only [step, hst]
      cases hc
      exact ⟨_, rfl, h.setState _, hid⟩
    | pendingExit =>
      rw [hb] at hst
      simp only [step, hb] at hc
      simp only [step, hst]
      cases hc
      exact ⟨_, rfl, (h.setState _).emit .exit, hid⟩
  | error m =>
    simp only [itemsS, idGo] at hid
    simp only [step] at hc ⊢
    cases hc
    exact ⟨_, rfl, h.emit (.error m _ _), hid⟩

theorem steps_rel (hφ : ∀ k t, k ≠ SyntaxKind.IDENT → φ k t = t) (toks : List RawTok)
    (ss : List Step) : ∀ {b b' c : B}, Rel φ b b' →
      idGo (toks.drop b.pos) (itemsS ss) = true → steps toks ss b = .ok c →
      ∃ c', steps (toks.map (rn φ)) ss b' = .ok c' ∧ Rel φ c c' := by
  induction ss with
  | nil => intro b b' c h _ hc; simp only [steps] at hc; cases hc; exact ⟨b', rfl, h⟩
  | cons s ss ih =>
    intro b b' c h hid hc
    simp only [steps, bind, Except.bind] at hc ⊢
    cases hs : step toks b s with
    | error e => rw [hs] at hc; cases hc
    | ok d =>
      rw [hs] at hc
      simp only at hc
      obtain ⟨d', h1, h2, h3⟩ := step_rel hφ toks s ss h hid hs
      rw [h1]
      exact ih h2 h3 hc

/-- `intersperse_trivia` on the renamed token table -/
theorem intersperse_rel (hφ : ∀ k t, k ≠ SyntaxKind.IDENT → φ k t = t) (toks : List RawTok)
    (ss : List Step) (hid : idGo toks (itemsS ss) = true) {out : List StrStep} {eof : Bool}
    (h : intersperseTrivia toks ss = .ok (out, eof)) :
    ∃ out', intersperseTrivia (toks.map (rn φ)) ss = .ok (out', eof) ∧ ORel φ out out' := by
  simp only [intersperseTrivia, bind, Except.bind] at h ⊢
  cases hb : steps toks ss {} with
  | error e => rw [hb] at h; cases h
  | ok c =>
    rw [hb] at h
    simp only at h
    obtain ⟨c', hc', hrel⟩ := steps_rel hφ toks ss (b := {}) (b' := {}) ⟨rfl, rfl, .nil⟩
      (by simpa using hid) hb
    rw [hc']
    simp only
    rw [hrel.state]
    cases hst : c.state <;> rw [hst] at h <;> simp only at h ⊢
    · cases h
    · cases h
    · have hr := (eatTrivias_rel hφ toks hrel).emit (s := .exit) (s' := .exit) .exit
      simp only [Except.ok.injEq, Prod.mk.injEq] at h
      obtain ⟨rfl, rfl⟩ := h
      refine ⟨_, ?_, hr.out⟩
      rw [List.length_map, hr.pos]

/-! ### the tree builder -/

/-- the tree-builder state on the mapped step list -/
structure MRel (φ : SyntaxKind → List Char → List Char) (t t' : TB) : Prop where
  parents : t'.parents = t.parents.map (fun p => (p.1, p.2.map (mapTree φ)))
  top : t'.top = t.top.map (mapTree φ)

theorem MRel.push {t t' : TB} (h : MRel φ t t') (x : Tree) :
    MRel φ (t.push x) (t'.push (mapTree φ x)) := by
  unfold TB.push
  rcases hp : t.parents with _ | ⟨⟨k, cs⟩, ps⟩
  · have : t'.parents = [] := by rw [h.parents, hp]; rfl
    simp only [this]
    exact ⟨by simp, by simp [h.top]⟩
  · have : t'.parents = (k, cs.map (mapTree φ)) :: ps.map (fun p => (p.1, p.2.map (mapTree φ))) := by
      rw [h.parents, hp]; rfl
    simp only [this]
    exact ⟨by simp, h.top⟩

theorem tbSteps_rel {out out' : List StrStep} (ho : ORel φ out out') :
    ∀ {t t' r : TB}, MRel φ t t' → tbSteps out t = .ok r →
      ∃ r', tbSteps out' t' = .ok r' ∧ MRel φ r r' := by
  induction ho with
  | nil => intro t t' r h hr; simp only [tbSteps] at hr; cases hr; exact ⟨t', rfl, h⟩
  | cons hs _ ih =>
    intro t t' r h hr
    simp only [tbSteps, bind, Except.bind] at hr ⊢
    cases hs with
    | token k txt =>
      simp only [tbStep] at hr ⊢
      exact ih (h.push (.leaf k txt)) hr
    | enter k =>
      simp only [tbStep] at hr ⊢
      exact ih (t := { t with parents := (k, []) :: t.parents })
        (t' := { t' with parents := (k, []) :: t'.parents }) ⟨by simp [h.parents], h.top⟩ hr
    | exit =>
      simp only [tbStep] at hr ⊢
      rcases hp : t.parents with _ | ⟨⟨k, cs⟩, ps⟩
      · rw [hp] at hr; cases hr
      · rw [hp] at hr
        simp only at hr
        have hp' : t'.parents =
            (k, cs.map (mapTree φ)) :: ps.map (fun p => (p.1, p.2.map (mapTree φ))) := by
          rw [h.parents, hp]; rfl
        rw [hp']
        simp only
        have hrel : MRel φ ({ t with parents := ps } : TB)
            ({ t' with parents := ps.map (fun p => (p.1, p.2.map (mapTree φ))) } : TB) :=
          ⟨rfl, h.top⟩
        have := hrel.push (.node k cs.reverse)
        simp only [mapTree, mapTrees_eq, List.map_reverse] at this
        exact ih this hr
    | error m p p' =>
      simp only [tbStep] at hr ⊢
      exact ih (t := { t with errors := t.errors ++ [⟨m, p⟩] })
        (t' := { t' with errors := t'.errors ++ [⟨m, p'⟩] }) ⟨h.parents, h.top⟩ hr

theorem tbFinish_rel {r r' : TB} (h : MRel φ r r') {tree : Tree} {errs : List SynErr}
    (hf : tbFinish r = .ok (tree, errs)) : tbFinish r' = .ok (mapTree φ tree, r'.errors) := by
  unfold tbFinish at hf ⊢
  rcases ht : r.top with _ | ⟨x, _ | ⟨y, ys⟩⟩
  · rw [ht] at hf; cases hf
  · rw [ht] at hf
    cases x with
    | leaf k t => cases hf
    | node k cs =>
      simp only at hf; cases hf
      rw [h.top, ht]
      simp [mapTree]
  · rw [ht] at hf; simp at hf

/-- **the builder is natural in the token texts** -/
theorem buildTree_rename (φ : SyntaxKind → List Char → List Char)
    (hφ : ∀ k t, k ≠ SyntaxKind.IDENT → φ k t = t)
    (toks : List RawTok) (ss : List Step) (hr : rooted ss = true)
    (hfit : fitsGo toks (itemsS ss) = true)
    (hid : tokIdI (ntKinds toks) 0 (itemsS ss) = true)
    {t : Tree} {e : List SynErr} {eof : Bool}
    (h : buildTree toks ss = .ok (t, e, eof)) :
    ∃ e', buildTree (toks.map fun x => ⟨x.kind, φ x.kind x.text⟩) ss = .ok (mapTree φ t, e', eof) := by
  have _ := hr  -- rootedness is implied by `h`; kept for a uniform interface
  have hgo : idGo toks (itemsS ss) = true := idGo_of_fits _ toks [] hfit (by simpa using hid)
  simp only [buildTree, bind, Except.bind] at h
  cases hi : intersperseTrivia toks ss with
  | error e => rw [hi] at h; cases h
  | ok p =>
    obtain ⟨out, f⟩ := p
    rw [hi] at h
    simp only at h
    cases hr1 : tbSteps out {} with
    | error e => rw [hr1] at h; cases h
    | ok r =>
      rw [hr1] at h
      simp only at h
      cases hf : tbFinish r with
      | error e => rw [hf] at h; cases h
      | ok q =>
        obtain ⟨u, v⟩ := q
        rw [hf] at h
        simp only [Except.ok.injEq, Prod.mk.injEq] at h
        obtain ⟨rfl, rfl, rfl⟩ := h
        obtain ⟨out', hi', ho⟩ := intersperse_rel hφ toks ss hgo hi
        obtain ⟨r', hr', hm⟩ := tbSteps_rel ho (t := {}) (t' := {}) ⟨rfl, rfl⟩ hr1
        have hf' := tbFinish_rel hm hf
        refine ⟨r'.errors, ?_⟩
        have hi'' : intersperseTrivia (toks.map fun x => ⟨x.kind, φ x.kind x.text⟩) ss =
            .ok (out', f) := hi'
        simp only [buildTree, bind, Except.bind, hi'', hr', hf']

end Oq3.RenameText
